(* C02 - No false success: faults and aborts never yield a silently wrong tree.
   Statements about Model/Recv.v (the multiplexed receiver as an open machine:
   the event list carries every fault - streams ended cleanly, cut inside a record
   or frame, closed gracefully, lost abruptly, corrupted payloads (crc_ok = false),
   failing I/O (io_ok = false), cancellation - and every schedule: which reader
   moves, which arm of the main select fires) and Model/Send.v (the sender's
   completion logic).  All theorems quantify over ALL event lists.

   wf_ev only says that indices and lengths are non-negative (they are decoded
   from unsigned fields) and that the resume metadata a FileBegin meets has no bit
   at or above the chunk count (what LoadSidecar guarantees: C06_loaded_wellformed). *)
From Coq Require Import ZArith List Bool.
Import ListNotations.
From TF Require Import Lib.GoInt Model.Recv Proofs.Recv Model.Send Proofs.Send.
Open Scope Z_scope.

(* RECEIVER.  Success is reported only when the completed counter has reached the
   number of manifest files, and the counter counts exactly the successful
   finalizations (a failed file is never counted: fix be041b7) *)
Theorem C02_recv_success_counts : forall m res pr evs, Forall (wf_ev pr) evs ->
  let s := run (init m res pr) evs in
  result s = Some Success ->
  Z.of_nat (length m) <= completed s /\ completed s = Z.of_nat (length (filter fr_ok (fins s))).
Proof. exact success_counts. Qed.
Print Assumptions C02_recv_success_counts.

(* ... hence every file of the manifest was finalized successfully (given that
   no manifest entry was begun twice: the honest sender's scheduler hands out each
   file once and the control stream does not duplicate records) *)
Theorem C02_recv_success_all_files : forall m res pr evs, Forall (wf_ev pr) evs ->
  let s := run (init m res pr) evs in
  result s = Some Success -> NoDup (begun s) ->
  forall fi, (fi < length m)%nat -> exists r, In r (fins s) /\ fr_fi r = fi /\ fr_ok r = true.
Proof. exact success_all_files. Qed.
Print Assumptions C02_recv_success_all_files.

(* a file is finalized successfully only when every chunk index is covered by the
   honest resume state the run started from or by a positional write of a frame
   that PASSED the CRC check in this run (so a corrupted payload, a cut frame, a
   failed write or a failed metadata flush can never complete a file).  With
   resume metadata this holds for every peer behaviour; without it the receiver
   counts frames, so the premise is that no index was accepted twice (an honest
   sender without a resume plan never repeats an index: C17_main_pass_once) *)
Theorem C02_recv_finalized_complete : forall m res pr evs, Forall (wf_ev pr) evs ->
  let s := run (init m res pr) evs in
  forall r, In r (fins s) -> fr_ok r = true ->
  (fr_sidecar r = true \/ NoDup (fr_have r)) ->
  forall i, 0 <= i < fr_total r -> covered s (fr_sidecar r) (fr_fi r) (fr_key r) i.
Proof. exact finalized_file_complete. Qed.
Print Assumptions C02_recv_finalized_complete.

(* the contrapositive the property is named after: if some manifest file has no
   successful finalization, the receiver does not report success - whatever the
   faults and whichever error path wins the race in the main select *)
Theorem C02_recv_no_false_success : forall m res pr evs, Forall (wf_ev pr) evs ->
  let s := run (init m res pr) evs in
  NoDup (begun s) ->
  (exists fi, (fi < length m)%nat /\ forall r, In r (fins s) -> fr_fi r = fi -> fr_ok r = false) ->
  result s <> Some Success.
Proof. exact no_success_without_all. Qed.
Print Assumptions C02_recv_no_false_success.

(* SENDER.  nil is returned only if there was no error and no cancellation and,
   for every file of the manifest, the receiver's FileDone{ok} was read and taken
   by that file's waiter (fix f5bf0ba).  Premises: file keys pairwise distinct,
   FileEnd written at most once per file and only for manifest files (C17_end_once) *)
Theorem C02_send_success_sound : forall files evs,
  NoDup files -> NoDup (ends_of evs) -> incl (ends_of evs) files ->
  let s := srun (sinit files) evs in
  s_result s = Some SSuccess ->
  s_err s = false /\ s_cancelled s = false /\
  forall k, In k files -> In k (s_acked s) /\ In (k, true) (s_acks_seen s).
Proof. exact send_success_sound. Qed.
Print Assumptions C02_send_success_sound.

(* a cancelled sender (caller's context cancelled or deadline passed) never
   reports success, at whatever point of whatever history the cancellation falls *)
Theorem C02_send_cancel_never_success : forall files evs1 evs2,
  s_result (srun (sinit files) evs1) = None ->
  s_result (srun (sinit files) (evs1 ++ SCancel :: evs2)) <> Some SSuccess.
Proof. exact send_cancel_never_success. Qed.
Print Assumptions C02_send_cancel_never_success.

(* ---- non-vacuity and witnesses ---- *)
Definition f0 := {| m_key := 11; m_size := 5; m_hasid := true |}.
Definition f1 := {| m_key := 22; m_size := 0; m_hasid := true |}.

(* an ordinary complete transfer satisfies every premise and succeeds *)
Example C02_success_reachable :
  let evs := [CtlPush (CBegin (Some 0%nat) 5 3 11 true); MainPick ACtl true;
              Arrive 0 (Fr 11 0 3 true 100); Arrive 1 (Fr 11 1 2 true 101); RStep 1 true; RStep 0 true;
              CtlPush (CBegin (Some 1%nat) 0 3 22 true); MainPick ACtl true;
              CtlPush (CEnd 11); CtlPush (CEnd 22); MainPick ACtl true; MainPick ACtl true;
              CtlPush CEndAll; MainPick ADone true; MainPick ACtl true] in
  let s := run (init [f0; f1] true (fun _ => [])) evs in
  Forall (wf_ev (fun _ => [])) evs /\ result s = Some Success /\ NoDup (begun s) /\ completed s = 2.
Proof.
  intros evs s. split; [|split; [|split]].
  - unfold evs.
    repeat (apply Forall_cons;
            [simpl; first [exact I | (split; lia) | (intros ? _; split; [constructor | intros ? []])]|]).
    apply Forall_nil.
  - vm_compute. reflexivity.
  - assert (begun s = [0%nat; 1%nat]) as -> by (vm_compute; reflexivity).
    constructor; [intros [H|[]]; discriminate|]. constructor; [intros []|constructor].
  - vm_compute. reflexivity.
Qed.

(* the race the property describes: the last chunk arrives corrupted, the file is
   failed, and the peer's clean end of the control stream reaches the main loop
   BEFORE the reader's error.  The receiver reports failure (before fix be041b7
   the failed file was counted and this history returned nil) *)
Example C02_corrupt_last_chunk_then_eof_fails :
  let evs := [CtlPush (CBegin (Some 0%nat) 5 3 11 true); MainPick ACtl true;
              Arrive 0 (Fr 11 0 3 true 100); RStep 0 true;
              Arrive 0 (Fr 11 1 2 false 666); RStep 0 true;
              CtlFail EOFk; MainPick ACtlErr true] in
  let s := run (init [f0] true (fun _ => [])) evs in
  result s = Some Fail /\ completed s = 0 /\ map fr_ok (fins s) = [false].
Proof. vm_compute. repeat split; reflexivity. Qed.

Example C02_send_success_reachable :
  s_result (srun (sinit [1; 2]) [SEndSent 2; SAck 2 true; SWaiter 2; SEndSent 1; SAck 1 true; SWaiter 1; SReturn true])
  = Some SSuccess.
Proof. reflexivity. Qed.

(* a receiver that fails one file makes the sender fail *)
Example C02_send_file_failed :
  s_result (srun (sinit [1; 2]) [SEndSent 2; SAck 2 true; SWaiter 2; SEndSent 1; SAck 1 false; SWaiter 1; SReturn true])
  = Some SFailed.
Proof. reflexivity. Qed.

(* C12 - The host serves at most max-receivers at once, the rest in arrival order.
   Statements about Model/Admit.v (the admission bookkeeping of SnapshotSender),
   for ALL event histories over any number of receivers and any max-receivers. *)
From Coq Require Import ZArith List Bool Arith.
Import ListNotations.
From TF Require Import Model.Admit Proofs.Admit.
Open Scope Z_scope.

(* never more slots than max-receivers (unconditional) *)
Theorem C12_slots_bound : forall m t evs, slots_bounded (run (init m t) evs).
Proof. exact slots_bound. Qed.
Print Assumptions C12_slots_bound.

(* the queue never lists a receiver twice (unconditional) *)
Theorem C12_queue_nodup : forall m t evs, NoDup (queue (run (init m t) evs)).
Proof. exact queue_nodup. Qed.
Print Assumptions C12_queue_nodup.

(* arrival order: an event only removes receivers from the queue or appends the
   accepting one at the tail; one re-dispatch starts receivers in queue order *)
Theorem C12_queue_order : forall s e,
  exists l, subseq l (queue s) /\
    (queue (step s e) = l \/ exists p, e = AcceptEnq p /\ queue (step s e) = l ++ [p]).
Proof. exact queue_order. Qed.
Print Assumptions C12_queue_order.

Theorem C12_fifo_start : forall fuel s c,
  exists started popped,
    map fst (transfers (maybe_start fuel s c)) = map fst (transfers s) ++ started /\
    queue s = popped ++ queue (maybe_start fuel s c) /\ subseq started popped.
Proof. exact maybe_start_fifo. Qed.
Print Assumptions C12_fifo_start.

(* a slot that frees is re-dispatched in the same step: after a kick, a leave or
   the end of a transfer either every slot is taken or nobody waits *)
Theorem C12_work_conserving : forall s e,
  match e with
  | Kick | Leave _ => conserving (step s e)
  | End tid _ => mem tid (running s) = true -> peer_of_tid s tid <> None -> conserving (step s e)
  | _ => True
  end.
Proof. exact work_conserving. Qed.
Print Assumptions C12_work_conserving.

(* a receiver that leaves is dropped from the queue, loses its slot, and the
   context of its running transfer is cancelled *)
Theorem C12_leave : forall s p,
  let s' := step s (Leave p) in
  ~ In p (queue s') /\ lookup p (slots s') = None /\
  (forall c, lookup p (slots s) = Some c -> In c (cancelled s')).
Proof. exact leave_clears. Qed.
Print Assumptions C12_leave.

(* no transfer is ever started under an already-cancelled context (holds since
   fix 14416d6; before it the re-dispatch used the ended transfer's context) *)
Theorem C12_no_dead_launch : forall m t evs, no_dead_launch (run (init m t) evs).
Proof. exact no_dead_launch_reachable. Qed.
Print Assumptions C12_no_dead_launch.

(* PARTIAL (histories satisfying R: no join/accept is announced for a receiver
   id that still has a running transfer, except the accept-while-TRANSFERRING
   the code ignores): nobody is queued and active at once, and the number of
   live (running, not cancelled) transfers is at most max-receivers *)
Theorem C12_exclusive_partial : forall m t evs p, ok_run (init m t) evs ->
  let s := run (init m t) evs in In p (queue s) -> lookup p (slots s) = None.
Proof. intros m t evs p W s. apply exclusive_partial. apply inv2_reachable. exact W. Qed.
Print Assumptions C12_exclusive_partial.

Theorem C12_live_bound_partial : forall m t evs, ok_run (init m t) evs ->
  let s := run (init m t) evs in Z.of_nat (length (live s)) <= Z.max 0 (maxr s).
Proof.
  intros m t evs W s. apply live_bound_partial; [apply inv2_reachable; exact W|apply slots_bound].
Qed.
Print Assumptions C12_live_bound_partial.

(* the FULL statements (without R) are false of the faithful model - known
   finding "reannounce-while-running" *)
Definition a := 0%nat. Definition b := 1%nat. Definition c := 2%nat.
Example C12_exclusive_refuted :
  let s := run (init 1 600) [Join a; AcceptEnq a; Kick; Join a; AcceptEnq a] in
  In a (queue s) /\ lookup a (slots s) <> None.
Proof. vm_compute. split; [left; reflexivity|discriminate]. Qed.

Example C12_bound_running_refuted :
  let s := run (init 2 600)
    [Join a; AcceptEnq a; Kick; Join a; AcceptEnq a; Kick; Join b; AcceptEnq b; Kick;
     Join c; AcceptEnq c; Kick; End 1 true] in
  length (live s) = 3%nat /\ maxr s = 2.
Proof. vm_compute. split; reflexivity. Qed.

(* non-vacuity of R: an ordinary history (arrivals, a leave, ends) satisfies it *)
Example C12_ok_run_example :
  ok_run (init 1 600) [Join a; AcceptEnq a; Kick; Join b; AcceptEnq b; Kick; AcceptEnq a; Leave a; End 1 false; End 2 true].
Proof.
  cbn [ok_run]. repeat split; try exact I.
  - intros (tid & H & _). exact H.
  - left. intros (tid & H & _). exact H.
  - intros (tid & H & P). vm_compute in H. destruct H as [<-|[]]. vm_compute in P. discriminate.
  - left. intros (tid & H & P). vm_compute in H. destruct H as [<-|[]]. vm_compute in P. discriminate.
  - right. vm_compute. eauto.
Qed.

From TF Require Import Model.Admit.

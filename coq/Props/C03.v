(* C03 - Every transfer between healthy peers completes.
   What is proved, and about what:

   (1) Model/Gate.v, a CLOSED model of a healthy transfer (honest sender with any
       number of stream workers, reliable FIFO streams with QUIC stream
       visibility, the receiver): for ALL numbers of files, chunks per file and
       streams, and ALL schedules,
         - every enabled event strictly decreases a measure of the work left, so
           no run is longer than that measure (no livelock, bounded length);
         - [gate_progress, Proofs/Gate.v, imported below when present] every
           reachable state is final or has an enabled event (no deadlock);
       together: every maximal run ends with both sides successful.  The same
       model with the receiver BEFORE fix ed4f108 deadlocks (witness).
   (2) Model/Recv.v (the machine tied to the real receiver by Corr/C02.v): the
       main loop never blocks, a queued control record is always handled, and a
       stream reader waits only for a file that has neither begun nor finished -
       a wait that the handling of that file's FileBegin ends.
   (3) The program-order facts (1) builds in, re-read from the source on every run.
   (4) Legal names are accepted (C07_legal_accepted, re-exported).

   PARTIAL by nature: liveness over a real network with real timers is tested
   (watchdog runs over the in-memory transport and loopback QUIC), not proved. *)
From Coq Require Import ZArith List Bool Arith String.
Import ListNotations.
From TF Require Import Lib.GoInt Gen.Consts Model.Gate Proofs.GateMu Proofs.Gate Proofs.GateLive Gen.GateSrc Proofs.GateSrc
                       Model.Path Model.PathFs Proofs.PathFs Model.Recv Proofs.Recv Proofs.RecvLive.
Local Open Scope nat_scope.

(* (1) the closed model *)
Theorem C03_every_step_does_work : forall s e s', gstep s e = Some s' -> mu s' < mu s.
Proof. exact gstep_mu. Qed.
Print Assumptions C03_every_step_does_work.

Theorem C03_runs_are_bounded : forall evs s s', grun s evs = Some s' -> length evs + mu s' <= mu s.
Proof. exact grun_length. Qed.
Print Assumptions C03_runs_are_bounded.

(* no deadlock: whatever the numbers of files, chunks and streams and whatever the
   schedule, a state of a healthy transfer is final (both sides returned
   successfully) or somebody can move *)
Theorem C03_no_deadlock : forall par files s,
  1 <= par -> NoDup (map fst files) ->
  reachable par false files s ->
  gfinal s = true \/ exists e s', gstep s e = Some s'.
Proof. exact gate_progress. Qed.
Print Assumptions C03_no_deadlock.

(* ... and the move never depends on the file scheduler being generous: an
   enabled event can always be chosen that asks for a new file only when no file
   is active - the one situation in which the real hybrid scheduler provably
   hands one out (C17_files_live); its refusals while small files are running
   (C17_sched_refusal) therefore cannot stall a healthy transfer *)
Theorem C03_no_deadlock_whatever_the_scheduler_refuses : forall par files s,
  1 <= par -> NoDup (map fst files) ->
  reachable par false files s ->
  gfinal s = true \/ exists e s', gstep s e = Some s' /\ (forall f, e = GActivate f -> g_active s = []).
Proof. exact gate_progress_idle. Qed.
Print Assumptions C03_no_deadlock_whatever_the_scheduler_refuses.

(* hence every run that cannot be extended has ended with both sides successful,
   after at most mu(initial state) events *)
Theorem C03_maximal_runs_succeed : forall par files evs s,
  1 <= par -> NoDup (map fst files) ->
  grun (ginit par false files) evs = Some s ->
  (forall e, gstep s e = None) ->
  gfinal s = true /\ length evs <= mu (ginit par false files).
Proof. exact maximal_runs_succeed. Qed.
Print Assumptions C03_maximal_runs_succeed.

(* ... and from every reachable state the transfer can be completed, within the
   work left *)
Theorem C03_can_always_finish : forall par files s,
  1 <= par -> NoDup (map fst files) -> reachable par false files s ->
  exists evs s', grun s evs = Some s' /\ gfinal s' = true /\ length evs <= mu s.
Proof. exact can_always_finish. Qed.
Print Assumptions C03_can_always_finish.

(* a finished transfer has nothing pending or in flight and every file acknowledged *)
Theorem C03_final_all_acked : forall par files s,
  1 <= par -> NoDup (map fst files) -> reachable par false files s -> gfinal s = true ->
  g_pending s = [] /\ g_active s = [] /\ length (g_acked s) = length files /\ g_data s = [] /\ g_s2r s = [].
Proof. exact gate_final_all_acked. Qed.
Print Assumptions C03_final_all_acked.

Example C03_gated_receiver_deadlocks_refuted :
  exists evs s, grun (ginit 2 true [(0, 1)]) evs = Some s /\ stuck s = true.
Proof. exact gated_deadlock. Qed.

Example C03_current_receiver_completes :
  exists s, grun (ginit 2 false [(0, 1)]) [GActivate 0; GSendChunk 0 0; GSendEnd 0; GRecvCtl; GRecvChunk 0; GRecvCtl; GAck; GFinish; GRecvCtl] = Some s
            /\ gfinal s = true.
Proof. exact ungated_completes. Qed.

(* (2) the receiver machine that is tied to the code *)
Theorem C03_main_loop_never_blocks : forall m res pr evs, blocked (run (init m res pr) evs) = false.
Proof. exact main_loop_never_blocks. Qed.
Print Assumptions C03_main_loop_never_blocks.

Theorem C03_control_record_is_handled : forall s c rest io,
  result s = None -> blocked s = false -> ctlq s = c :: rest ->
  let s' := step s (MainPick ACtl io) in
  result s' <> None \/ ctlq s' = rest.
Proof. exact control_head_is_handled. Qed.
Print Assumptions C03_control_record_is_handled.

Theorem C03_reader_waits_only_for_unbegun_file : forall s n io it rest,
  result s = None -> memN n (gone s) = false -> get_q n (inq s) = it :: rest ->
  (forall key, match it with Fr k _ _ _ _ | Trunc k _ _ _ => k = key | EndOf _ => False end ->
               find_active key (active s) <> None \/ memZ key (done_keys s) = true \/
               match it with Fr _ _ l _ _ | Trunc _ _ l _ => l = 0%Z | EndOf _ => False end) ->
  let s' := rstep s n io in
  result s' <> None \/ memN n (gone s') = true \/ get_q n (inq s') = rest.
Proof. exact reader_progress. Qed.
Print Assumptions C03_reader_waits_only_for_unbegun_file.

Theorem C03_begin_ends_the_wait : forall s i mf size cs sid io,
  result s = None -> nth_error (manifest s) i = Some mf ->
  result (handle_begin s (Some i) size cs sid true io) = None ->
  find_active (m_key mf) (active (handle_begin s (Some i) size cs sid true io)) <> None.
Proof. exact begin_makes_file_known. Qed.
Print Assumptions C03_begin_ends_the_wait.

(* (3) program order read off the source *)
Theorem C03_source_order :
  before "activateNext" "nextChunkToSend" sk_send_nexttask = true /\
  before "writeFileBegin" "startResume" sk_send_activate = true /\
  occurs "wait" sk_recv_resumereq = false /\
  recv_accept_outside_go = 1 /\ 1 <= recv_accept_inside_go.
Proof.
  destruct send_begin_before_chunks as (A & _). destruct send_activate_order as (_ & B).
  destruct recv_main_loop_does_not_wait as (C & _). destruct recv_data_streams_accepted_async as (D & E). tauto.
Qed.
Print Assumptions C03_source_order.

(* (4) legal names: any sequence of plain names (a name may contain "..",
   backslashes, blanks, any byte except '/') of total length <= 1024 is accepted *)
Theorem C03_legal_names_accepted : forall segs, segs <> [] -> Forall plain_name segs ->
  (Z.of_nat (length (intercalate segs)) <= c_maxRelPathLength)%Z ->
  validate_rel_path (intercalate segs) = true.
Proof. exact legal_accepted. Qed.
Print Assumptions C03_legal_names_accepted.

(* C05 - Resume metadata never claims a chunk that is not safely in the file.
   Statements about Model/Crash.v for ALL event lists: any number of concurrent
   chunk writers, any interleaving with metadata flushes, a kill at any point
   (every prefix of a history is a history), and any chain of restarts. *)
From Coq Require Import List Arith Bool.
Import ListNotations.
From Coq Require Import String.
From TF Require Import Model.Crash Proofs.Crash Gen.Calls Proofs.Calls.
From TF Require Gen.CallsC05 Proofs.CallsC05.

(* at every instant the sidecar on disk (if any) marks only chunks whose bytes
   are in the data file *)
Theorem C05_honest : forall ns evs_before evs_after s',
  run (map fresh ns) (evs_before ++ evs_after) = Some s' ->
  exists s1, run (map fresh ns) evs_before = Some s1 /\ Forall honest s1.
Proof. exact honest_at_every_instant. Qed.
Print Assumptions C05_honest.

(* ... and the same for everything else a later run could conceivably read:
   memory bitmap, the bitmap being flushed, a completely written tmp file *)
Theorem C05_all_bitmaps : forall evs s s', AllFI s -> run s evs = Some s' -> AllFI s'.
Proof. exact run_fi. Qed.
Print Assumptions C05_all_bitmaps.

(* atomic replacement: the sidecar changes only by the rename of a completely
   written tmp file (or is discarded at a restart); a torn tmp file never
   becomes the sidecar; the loader never reads the tmp file (Restart ignores it) *)
Theorem C05_atomic : forall s e s' f x x',
  step s e = Some s' -> nth_error s f = Some x -> nth_error s' f = Some x' -> disk x' <> disk x ->
  (exists bm, e = FlushRename f /\ tmp x = TFull bm /\ disk x' = Some bm) \/ (exists l, e = Restart f l).
Proof. exact disk_changes_only_by_rename. Qed.
Print Assumptions C05_atomic.

(* the program order the model's guard encodes, read off the source: in the
   data-stream reader the positional write (and its error return) precedes the
   single bitmap mark; in Flush the tmp file is completely written before the
   rename and the dirty flag is cleared after it *)
Theorem C05_program_order :
  before "writeAtWithTimeout"%string "markChunkComplete"%string (all_calls sk_recv_reader) = true /\
  count "markChunkComplete"%string (all_calls sk_recv_reader) = 1 /\
  before "WriteFile"%string "Rename"%string (main_path sk_sidecar_flush) = true /\
  before "Rename"%string "=s_dirty"%string (main_path sk_sidecar_flush) = true.
Proof.
  destruct recv_reader_order as (_ & _ & A & B & _). destruct sidecar_flush_order as (_ & _ & C & D & _). auto.
Qed.
Print Assumptions C05_program_order.

(* non-vacuity: two readers, a flush racing them, a kill inside the next flush
   (torn tmp), a restart that loads the old sidecar, more work, another flush *)
Example C05_example :
  exists s, run [fresh 4]
    [Write 0 0; Write 0 2; Mark 0 2; FlushBegin 0; Write 0 1; FlushTmp 0; FlushRename 0; Mark 0 0; Mark 0 1;
     FlushBegin 0; FlushTmpTorn 0; Restart 0 true; Write 0 3; Mark 0 3; FlushBegin 0; FlushTmp 0; FlushRename 0] = Some s /\
  map disk s = [Some [false; false; true; true]].
Proof. eexists. split; [vm_compute; reflexivity|reflexivity]. Qed.

(* the guard is what the theorems rest on: marking before the write returned is
   not a history of the model (and the correspondence checks real traces obey it) *)
Example C05_mark_before_write_rejected : run [fresh 2] [Mark 0 1] = None.
Proof. reflexivity. Qed.

(* the same order in the legacy windowed receiver (RecvManifest / RecvFile): its
   chunk-writer goroutine writes, leaves if the write failed, and only then
   records the chunk - read off manifestproto.go on this run *)
Theorem C05_legacy_write_then_mark :
  TF.Gen.CallsC05.windowed_writer = ["call:writeAtWithTimeout"; "ret-on-err"; "call:MarkComplete"]%string.
Proof. exact TF.Proofs.CallsC05.windowed_write_guard_mark. Qed.
Print Assumptions C05_legacy_write_then_mark.

(* C01 - A transfer that reports success delivers an identical tree.
   Composition of: the receiver invariant (Proofs/Recv.v, all event lists = all
   interleavings of the per-stream readers, the control reader and the main loop,
   any number of streams and connections - a connection only decides on which
   stream a frame travels), the sender's completion logic (Proofs/Send.v), the
   dispatch theorems (C17: every needed chunk handed out exactly once, one FileEnd)
   and the chunk geometry generated from the source (C19: the chunks tile the file).

   "honest" below is what the property presupposes of a transfer between the two
   real endpoints over a transport with integrity: a frame that passes the CRC
   check carries the bytes the sender read for that (file, index) with the length
   the geometry gives it; the resume state the run starts from marks only chunks
   that are on disk with the source's bytes (C05/C06); no manifest entry is begun
   twice. *)
From Coq Require Import ZArith List Bool Lia.
Import ListNotations.
From TF Require Import Lib.GoInt Gen.Geometry Model.Recv Proofs.Recv Model.Send Proofs.Send Proofs.Geometry Proofs.Tree.
From TF Require Model.Sidecar Model.Resume Proofs.ResumeFile Proofs.TreeBytes.
Open Scope Z_scope.

Theorem C01_tree_chunks : forall src_tok src_len m res pr evs, Forall (wf_ev pr) evs ->
    let s := run (init m res pr) evs in
    result s = Some Success -> NoDup (begun s) -> honest_writes src_tok src_len s ->
    (forall r, In r (fins s) -> fr_sidecar r = false -> NoDup (fr_have r)) ->
    forall fi mf, nth_error m fi = Some mf ->
      exists r, In r (fins s) /\ fr_fi r = fi /\ fr_ok r = true /\ fr_key r = m_key mf /\
        recvTotalChunks (m_size mf) (fr_cs r) = Ret (fr_total r) /\
        forall i, 0 <= i < fr_total r ->
          (fr_sidecar r = true /\ In i (pr fi) /\ last_write (writes s) (m_key mf) i = None) \/
          last_write (writes s) (m_key mf) i = Some (src_len (m_key mf) i, src_tok (m_key mf) i).
Proof. exact tree_chunks. Qed.
Print Assumptions C01_tree_chunks.

(* ... and the chunk indices 0 .. total-1 with the generated offsets and lengths
   tile the file exactly: contiguous, non-overlapping, summing to the size (C19
   over the same generated functions both endpoints use) *)
Theorem C01_chunks_tile_file : forall size cs, geom_dom size cs ->
  let n := ceil_div size cs in
  recvTotalChunks size cs = Ret n /\ chunkTotal size cs = Ret n /\
  (forall i, 0 <= i < n ->
     exists len, chunkSizeForIndex size cs i = Ret len /\
       sendOffset i cs = Ret (i * cs) /\ recvOffset i cs = Ret (i * cs) /\
       0 < len <= cs /\ i * cs + len <= size /\ sum_lens size cs (Z.to_nat i) = i * cs) /\
  sum_lens size cs (Z.to_nat n) = size.
Proof. exact chunks_tile_file. Qed.
Print Assumptions C01_chunks_tile_file.

(* ... and bytes: the positional writes of a file, in ANY order and with any
   repetitions (the cross-stream arrival order, late duplicates), each putting the
   source's bytes of chunk i at offset i * chunk size - if they cover every chunk
   index, the file is the source, byte for byte and of the same length.
   (C01_tree_chunks gives the coverage: the last write of every index carries the
   source's payload; the file was truncated to the announced size at FileBegin.) *)
Theorem C01_file_bytes_identical : forall cs src idxs f,
  0 < cs -> TF.Model.Sidecar.zlen f = TF.Model.Sidecar.zlen src -> Forall (fun i => 0 <= i) idxs ->
  (forall i, 0 <= i -> i * cs < TF.Model.Sidecar.zlen src -> In i idxs) ->
  TF.Model.Resume.put_chunks cs src idxs f = src.
Proof. exact TF.Proofs.ResumeFile.writes_cover_identical. Qed.
Print Assumptions C01_file_bytes_identical.

(* the two halves joined: from the conclusion of C01_tree_chunks for one file
   (every chunk index covered by a write carrying the source's payload, or marked
   in the honest prior state and untouched) to its bytes.  Replaying the logged
   positional writes of that file, in the order they happened, on the data file
   the run started from yields the source. *)
Theorem C01_file_bytes_from_tree : forall (src_tok src_len : Z -> Z -> Z) (ws : list (Z * Z * Z * Z))
    (key size cs total : Z) (prior : list Z) (sidecar : bool) (src f0 : list Z),
  geom_dom size cs -> TF.Model.Sidecar.zlen src = size -> TF.Model.Sidecar.zlen f0 = size ->
  recvTotalChunks size cs = Ret total ->
  Forall (fun i => 0 <= i) (TF.Proofs.TreeBytes.idxs_of key ws) ->
  (forall i, 0 <= i < total ->
     (sidecar = true /\ In i prior /\ last_write ws key i = None) \/
     last_write ws key i = Some (src_len key i, src_tok key i)) ->
  (forall i, In i prior -> TF.Model.Resume.chunk_at cs f0 i = TF.Model.Resume.chunk_at cs src i) ->
  TF.Model.Resume.put_chunks cs src (TF.Proofs.TreeBytes.idxs_of key ws) f0 = src.
Proof. exact TF.Proofs.TreeBytes.file_bytes_from_tree_conclusion. Qed.
Print Assumptions C01_file_bytes_from_tree.

Example C01_file_bytes_example :
  TF.Model.Resume.put_chunks 2 [1; 2; 3; 4; 5] [2; 0; 1; 0] [9; 9; 9; 9; 9] = [1; 2; 3; 4; 5].
Proof. vm_compute. reflexivity. Qed.

(* the sender's half of "both report success": every file was acknowledged *)
Theorem C01_sender_success : forall files evs,
  NoDup files -> NoDup (ends_of evs) -> incl (ends_of evs) files ->
  let s := srun (sinit files) evs in
  s_result s = Some SSuccess -> forall k, In k files -> In (k, true) (s_acks_seen s).
Proof. exact sender_success. Qed.
Print Assumptions C01_sender_success.

(* without resume metadata the receiver COUNTS frames: a peer that repeats an
   index makes it finalize a file with a hole - which is why the theorem needs the
   no-repetition premise there (the honest sender satisfies it: C17) *)
Example C01_repeated_index_refuted :
  let evs := [CtlPush (CBegin (Some 0%nat) 5 3 11 true); MainPick ACtl true;
              Arrive 0 (Fr 11 0 3 true 100); RStep 0 true; Arrive 0 (Fr 11 0 3 true 100); RStep 0 true] in
  let s := run (init [{| m_key := 11; m_size := 5; m_hasid := false |}] false (fun _ => [])) evs in
  map fr_ok (fins s) = [true] /\ last_write (writes s) 11 1 = None.
Proof. vm_compute. split; reflexivity. Qed.

(* non-vacuity: a complete honest two-stream run meets every premise *)
Example C01_premises_satisfiable :
  let evs := [CtlPush (CBegin (Some 0%nat) 5 3 11 true); MainPick ACtl true;
              Arrive 1 (Fr 11 1 2 true 101); Arrive 0 (Fr 11 0 3 true 100); RStep 1 true; RStep 0 true;
              CtlPush (CEnd 11); MainPick ADone true; MainPick ACtl true; CtlPush CEndAll; MainPick ACtl true] in
  let s := run (init [{| m_key := 11; m_size := 5; m_hasid := false |}] false (fun _ => [])) evs in
  result s = Some Success /\ begun s = [0%nat] /\ map fr_have (fins s) = [[1; 0]] /\
  last_write (writes s) 11 0 = Some (3, 100) /\ last_write (writes s) 11 1 = Some (2, 101).
Proof. vm_compute. repeat split; reflexivity. Qed.

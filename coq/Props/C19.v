(* C19 - Chunk geometry tiles every file exactly and identically on both sides.
   Property theorems only; each is closed by `exact` of a lemma proved over the
   functions GENERATED from /repo's working tree (Gen/Geometry.v). *)
From TF Require Import Lib.GoInt Gen.Consts Gen.Geometry Proofs.Geometry.
Open Scope Z_scope.

(* For every file size in [0, 10 TiB] and chunk size in [1, 2^32) whose chunk
   count fits the 32-bit wire field: the sender's chunkTotal is the exact
   ceiling n; every index i < n has a length in (0, cs], full for inner chunks,
   inside the file; the sender's read offset and the receiver's write offset
   are both i*cs without int64 wrap-around and equal the sum of the preceding
   lengths (contiguous, non-overlapping); the lengths sum to the file size. *)
Theorem C19_tiling : forall size cs, geom_dom size cs ->
  let n := ceil_div size cs in
  chunkTotal size cs = Ret n /\
  (forall i, 0 <= i < n ->
     exists len, chunkSizeForIndex size cs i = Ret len /\
       sendOffset i cs = Ret (i * cs) /\ recvOffset i cs = Ret (i * cs) /\
       0 < len <= cs /\ (i < n - 1 -> len = cs) /\
       i * cs + len <= size /\
       sum_lens size cs (Z.to_nat i) = i * cs) /\
  sum_lens size cs (Z.to_nat n) = size.
Proof. exact tiling. Qed.
Print Assumptions C19_tiling.

(* sender, receiver (production and legacy), resume metadata and the windowed
   legacy pair agree on the number of chunks of every non-empty file *)
Theorem C19_counts_agree : forall size cs, geom_dom size cs -> 0 < size ->
  let n := Ret (ceil_div size cs) in
  chunkTotal size cs = n /\ recvTotalChunks size cs = n /\ legacyResumeTotalChunks size cs = n /\
  sidecarTotalChunks size cs = n /\ windowedSendTotalChunks size cs = n /\ windowedRecvTotalChunks size cs = n.
Proof. exact counts_agree. Qed.
Print Assumptions C19_counts_agree.

(* ... and for the empty file everybody says 0 except the resume metadata, which
   says 1: the full statement "all agree for all sizes" is refuted at size 0
   (known finding C19 sidecar-count:size=0). *)
Theorem C19_sidecar_empty_refuted : forall cs, 1 <= cs < 2^32 ->
  chunkTotal 0 cs = Ret 0 /\ recvTotalChunks 0 cs = Ret 0 /\ windowedRecvTotalChunks 0 cs = Ret 0 /\
  sidecarTotalChunks 0 cs = Ret 1.
Proof. exact counts_empty. Qed.
Print Assumptions C19_sidecar_empty_refuted.

(* a zero chunk size (outside the property's domain, but reachable from the
   wire) is answered without a division panic on the multi-stream path *)
Theorem C19_zero_chunk_size : forall size, 0 <= size <= c_maxFileSize ->
  chunkTotal size 0 = Ret 0 /\ recvTotalChunks size 0 = Ret 0 /\
  sidecarTotalChunks size 0 = Err /\ windowedRecvTotalChunks size 0 = Err /\
  windowedSendTotalChunks size 0 = Panic.
Proof. exact zero_chunk_size. Qed.
Print Assumptions C19_zero_chunk_size.

(* non-vacuity: the domain is inhabited at its far corners *)
Example C19_dom_nonempty :
  geom_dom 10995116277760 4096 /\ geom_dom 1 (2^32 - 1) /\ geom_dom 4294967295 1 /\ geom_dom 0 7.
Proof. unfold geom_dom. rewrite maxFileSize_val. repeat split; try lia; vm_compute; congruence. Qed.

(* C16 - Clients work against every documented server configuration.
   Statements about Model/Config.v (flags -> admission decisions of thruserv,
   the /session response and clienthttp.CreateSession's decoding, the signaling
   URL, TURN credential URLs over net/url's percent-encoding).

   [permits f maxr] is the only premise on a configuration: the host's own
   --max-receivers fits --max-receivers-per-sender, and the per-address connect
   burst and the global connection cap leave room for two peers.  Outside it the
   server refuses by design (C16_outside_permits_refused). *)
From Coq Require Import ZArith List Bool.
From TF Require Import Lib.GoInt Lib.Bytes Model.Config Gen.C16 Proofs.Config.
Import ListNotations.
Open Scope Z_scope.

(* percent-encoding: what url.QueryEscape / the userinfo escaping of URL.String
   produce is decoded by url.QueryUnescape / url.Parse into the same bytes, for
   every byte string and both modes *)
Theorem C16_escape_roundtrip : forall m s, bytes_ok s -> unescape m (escape m s) = Some s.
Proof. exact unescape_escape. Qed.
Print Assumptions C16_escape_roundtrip.

(* http -> ws, https -> wss *)
Theorem C16_ws_scheme : ws_scheme s_http = s_ws /\ ws_scheme s_https = s_wss.
Proof. exact ws_scheme_http. Qed.
Print Assumptions C16_ws_scheme.

(* the /ws handler reads exactly the join code, peer id and role the client
   passed to buildWebSocketURL - any bytes at all - and the max_receivers the
   host asked for *)
Theorem C16_ws_url : forall tls host join peer role maxr,
  mem 35 host = false -> mem 63 host = false ->
  bytes_ok join -> bytes_ok peer -> bytes_ok role -> 0 <= maxr ->
  server_view (ws_url (http_scheme tls) host join peer role maxr) = (join, peer, role, create_query maxr).
Proof. exact server_view_ws_url. Qed.
Print Assumptions C16_ws_url.

(* %d and strconv.Atoi agree on every non-negative int *)
Theorem C16_atoi_dec : forall n, 0 <= n < 2 ^ 63 -> atoi (dec n) = Some n.
Proof. exact atoi_dec. Qed.
Print Assumptions C16_atoi_dec.

(* for every flag vector that permits the host: a fresh server answers 201, the
   response carries expires_at exactly when --session-timeout > 0, the client
   decodes it either way (after the repair; see the historical witness below),
   and sender and receiver are upgraded (101) with the URL the client builds,
   the server having read the very join code, peer ids and roles passed *)
Theorem C16_create_and_connect : forall f maxr tls host join ps pr,
  permits f maxr = true -> 0 <= maxr < 2 ^ 63 ->
  mem 35 host = false -> mem 63 host = false ->
  join <> [] -> ps <> [] -> pr <> [] -> bytes_ok join -> bytes_ok ps -> bytes_ok pr ->
  exists s1 s2 s3,
    create f s0 (create_query maxr) = (201, 0 <? f_timeout f, s1) /\
    client_create 201 (0 <? f_timeout f) = Ret (0 <? f_timeout f) /\
    (let '(j, p, r, m) := server_view (ws_url (http_scheme tls) host join ps s_sender maxr) in
     (j, p, r) = (join, ps, s_sender) /\ connect f s1 j (Some O) p r m = (101, s2)) /\
    (let '(j, p, r, m) := server_view (ws_url (http_scheme tls) host join pr s_receiver 0) in
     (j, p, r) = (join, pr, s_receiver) /\ connect f s2 j (Some O) p r m = (101, s3)).
Proof. exact scenario_ok. Qed.
Print Assumptions C16_create_and_connect.

(* limits and timeouts at 0 are disabled: such a server permits every host *)
Theorem C16_zero_disables : forall f maxr,
  f_max_recv f = 0 -> f_conn_rate f = 0 -> f_max_ws f = 0 -> permits f maxr = true.
Proof. exact zero_permits. Qed.
Print Assumptions C16_zero_disables.

(* TURN: for every spelling of the grammar (turn: / turns: / turn:// / turns://
   / bare, host:port, any k=v options) and every user and secret (any bytes):
   the server's injectTurnCredentials succeeds and the client's parseTurnServer
   turns its output into the endpoint the spelling denotes, carrying exactly
   that user and secret; without credentials the client reads the same endpoint *)
Theorem C16_turn_roundtrip : forall sp user pass,
  spelling_ok sp = true -> bytes_ok user -> bytes_ok pass ->
  exists u, inject (render sp) user pass = TOk u /\
            parse_turn u = intended sp user pass /\
            parse_turn (render sp) = intended sp [] [].
Proof. exact turn_roundtrip. Qed.
Print Assumptions C16_turn_roundtrip.

(* ... in particular for the REST user "<expiry>:<peer id>" of any peer id *)
Theorem C16_turn_rest_credentials : forall sp expiry peer pass e,
  spelling_ok sp = true -> 0 <= expiry -> bytes_ok peer -> bytes_ok pass ->
  intended sp [] [] = TOk e ->
  exists u e', inject (render sp) (rest_username expiry peer) pass = TOk u /\ parse_turn u = TOk e' /\
    e_user e' = rest_username expiry peer /\ e_pass e' = pass /\
    e_addr e' = e_addr e /\ e_realm e' = e_realm e /\ e_tcp e' = e_tcp e /\ e_tls e' = e_tls e /\
    e_sni e' = e_sni e /\ e_insecure e' = e_insecure e.
Proof. exact turn_rest_roundtrip. Qed.
Print Assumptions C16_turn_rest_credentials.

(* what "the endpoint the spelling denotes" pins down *)
Theorem C16_turn_intended_fields : forall sp user pass e, intended sp user pass = TOk e ->
  e_user e = user /\ e_pass e = pass /\ e_addr e = hostport sp /\ e_tls e = prefix_tls (sp_prefix sp).
Proof. exact intended_fields. Qed.
Print Assumptions C16_turn_intended_fields.

(* every documented transport option denotes an endpoint *)
Theorem C16_turn_intended_defined : forall sp user pass, spelling_ok sp = true ->
  let tr := get s_transport (sp_query sp) in
  (seqb tr [] || seqb tr s_tcp || (seqb tr s_udp && negb (prefix_tls (sp_prefix sp)))) = true ->
  exists e, intended sp user pass = TOk e.
Proof. exact intended_defined. Qed.
Print Assumptions C16_turn_intended_defined.

(* issuing on: every configured spelling is minted; off: no message *)
Theorem C16_turn_issue_on : forall f sps user pass,
  f_turn_servers f = map render sps -> sps <> [] -> f_turn_secret f <> [] ->
  Forall (fun sp => spelling_ok sp = true) sps -> bytes_ok user -> bytes_ok pass ->
  issued f user pass = TOk (Some (map (fun sp => cred_url sp user pass) sps)).
Proof. exact issued_on. Qed.
Print Assumptions C16_turn_issue_on.

Theorem C16_turn_issue_off : forall f user pass, turn_enabled f = false -> issued f user pass = TOk None.
Proof. exact issued_off. Qed.
Print Assumptions C16_turn_issue_off.

(* ---------------------------------------------------------------- *)
(* non-vacuity and witnesses                                         *)

(* the flag defaults and the client's default --max-receivers are GENERATED from
   the current source (Gen/C16.v): a server and a host both started without
   flags fall under C16_create_and_connect *)
Theorem C16_defaults_admit_default_client :
  permits gen_default_flags cli_default_max_receivers = true /\ 0 <= cli_default_max_receivers < 2 ^ 63.
Proof. exact defaults_permit_default_client. Qed.
Print Assumptions C16_defaults_admit_default_client.

Definition default_flags : flags := gen_default_flags.

Definition with_timeout (f : flags) (t : Z) : flags :=
  {| f_max_sessions := f_max_sessions f; f_max_recv := f_max_recv f; f_max_msg := f_max_msg f;
     f_conn_rate := f_conn_rate f; f_conn_burst := f_conn_burst f; f_msg_rate := f_msg_rate f; f_msg_burst := f_msg_burst f;
     f_sess_rate := f_sess_rate f; f_sess_burst := f_sess_burst f; f_max_ws := f_max_ws f;
     f_idle := f_idle f; f_timeout := t;
     f_turn_servers := f_turn_servers f; f_turn_secret := f_turn_secret f; f_turn_ttl := f_turn_ttl f |}.

(* the documented example  turns:stun.bytepipe.app:5349?servername=stun.bytepipe.app *)
Definition doc_spelling : spelling :=
  {| sp_prefix := PTurns;
     sp_host := [115;116;117;110;46;98;121;116;101;112;105;112;101;46;97;112;112];
     sp_port := [53;51;52;57];
     sp_query := [(s_servername, [115;116;117;110;46;98;121;116;101;112;105;112;101;46;97;112;112])] |}.
Example C16_doc_spelling_ok :
  spelling_ok doc_spelling = true /\
  match intended doc_spelling [] [] with
  | TOk e => e_tls e && e_tcp e && seqb (e_sni e) (sp_host doc_spelling)
  | _ => false
  end = true.
Proof. vm_compute. split; reflexivity. Qed.

(* HISTORICAL witness (the defect this property found; repaired by the
   repository commit "fix: CreateSession accepts a session without
   expires_at"): with --session-timeout 0 and everything else at its default
   the server answers 201 without expires_at; the decoder before the repair
   failed on it, the present one returns the zero expiry. *)
Example C16_session_timeout0_before_fix_refuted :
  let f := with_timeout default_flags 0 in
  permits f 4 = true /\
  (let '(st, he, _) := create f s0 (create_query 4) in
   (st =? 201) && negb he &&
   match client_create_before_fix st he with Err => true | _ => false end &&
   match client_create st he with Ret false => true | _ => false end) = true.
Proof. vm_compute. split; reflexivity. Qed.

(* outside [permits] the refusals are the configured limits at work, e.g.
   --max-receivers-per-sender 2 against a host asking for 4 (429 on create), and
   --ws-connects-burst 1: the second peer from the same address is refused *)
Example C16_outside_permits_refused :
  (let f := {| f_max_sessions := 1000; f_max_recv := 2; f_max_msg := 65536; f_conn_rate := 30; f_conn_burst := 10;
               f_msg_rate := 50; f_msg_burst := 100; f_sess_rate := 10; f_sess_burst := 5; f_max_ws := 2000;
               f_idle := 0; f_timeout := 0; f_turn_servers := []; f_turn_secret := []; f_turn_ttl := 0 |} in
   negb (permits f 4) && (fst (fst (create f s0 (create_query 4))) =? 429)) = true /\
  (let f := {| f_max_sessions := 1000; f_max_recv := 10; f_max_msg := 65536; f_conn_rate := 30; f_conn_burst := 1;
               f_msg_rate := 50; f_msg_burst := 100; f_sess_rate := 10; f_sess_burst := 5; f_max_ws := 2000;
               f_idle := 0; f_timeout := 0; f_turn_servers := []; f_turn_secret := []; f_turn_ttl := 0 |} in
   negb (permits f 0) &&
   (let '(_, _, s1) := create f s0 [] in
    let '(st2, s2) := connect f s1 [65] (Some O) [97] s_sender [] in
    let '(st3, _) := connect f s2 [65] (Some O) [98] s_receiver [] in
    (st2 =? 101) && (st3 =? 429))) = true.
Proof. vm_compute. split; reflexivity. Qed.

(* a peer id full of URL-significant bytes:  "a&b=c d/%+@:#?"  *)
Example C16_hostile_peer_id :
  let peer := [97;38;98;61;99;32;100;47;37;43;64;58;35;63] in
  server_view (ws_url s_https [104;58;49] [65;66] peer s_receiver 0) = ([65;66], peer, s_receiver, []) /\
  match inject (render doc_spelling) (rest_username 1700000000 peer) [43;47;61] with
  | TOk u => match parse_turn u with
             | TOk e => seqb (e_user e) (rest_username 1700000000 peer) && seqb (e_pass e) [43;47;61]
             | _ => false
             end
  | _ => false
  end = true.
Proof. vm_compute. split; reflexivity. Qed.

(* C14 - Join codes live exactly as long as their session; server limits hold.
   Statements about Model/Session.v (internal/session Store) and Model/Limits.v
   (cmd/thruserv: limit checks as check-then-act steps, connLimiter, token bucket,
   session life), for ALL histories / interleavings / configurations.
   Premises that are assumptions about the environment are explicit:
   `fresh` / `fresh_ids` = crypto/rand never hands out the same 128-bit session id twice. *)
From Coq Require Import ZArith List Bool Lia.
Import ListNotations.
From TF Require Import Model.Session Model.Limits Proofs.Session Proofs.Limits.
Open Scope Z_scope.

(* ---------- the Store ---------- *)

(* a lookup at any later clock reading succeeds exactly for the sessions created and not deleted
   (g, computed from the history alone) whose expiry has not passed; ttl <= 0 = never expires *)
Theorem C14_admits : forall t ops s g clk tr code now ss,
  fresh_ids [] ops -> Session.run (new_store t) [] 0 ops = Some (s, g, clk, tr) -> clk <= now ->
  (snd (get_by_code s code now) = Some ss <-> In ss g /\ s_code ss = code /\ expired ss now = false).
Proof. exact store_admits. Qed.
Print Assumptions C14_admits.

(* codes of stored sessions are pairwise distinct; the two maps are a bijection *)
Theorem C14_codes_distinct : forall t ops s g clk tr id1 id2 ss1 ss2,
  fresh_ids [] ops -> Session.run (new_store t) [] 0 ops = Some (s, g, clk, tr) ->
  lookup id1 (sessions s) = Some ss1 -> lookup id2 (sessions s) = Some ss2 ->
  s_code ss1 = s_code ss2 -> id1 = id2.
Proof. exact store_codes_distinct. Qed.
Print Assumptions C14_codes_distinct.

Theorem C14_store_bijection : forall t ops s g clk tr,
  fresh_ids [] ops -> Session.run (new_store t) [] 0 ops = Some (s, g, clk, tr) -> wf s.
Proof. exact store_bijection. Qed.
Print Assumptions C14_store_bijection.

(* the collision retry: whatever the random stream, Create never returns a code a stored session has *)
Theorem C14_create_code_unused : forall s now id c0 cands s' ss id' ss',
  create s now id c0 cands = Some (s', ss) -> wf s ->
  lookup id' (sessions s) = Some ss' -> s_code ss' <> s_code ss.
Proof. exact create_code_unused. Qed.
Print Assumptions C14_create_code_unused.

(* ---------- the server: who is admitted ---------- *)

(* what the code does, exactly (g: created, no sender-role socket of it closed, timer not fired) *)
Theorem C14_server_admits : forall c evs s g clk code now ss,
  fresh [] evs -> grun ended_by c (init c) [] 0 evs = Some (s, g, clk) -> clk <= now ->
  (lookup_result s code now = Some ss <-> In ss g /\ s_code ss = code /\ expired ss now = false).
Proof. exact server_admits. Qed.
Print Assumptions C14_server_admits.

(* never afterwards: once the session was ended, no continuation and no clock reading admits to it *)
Theorem C14_never_after : forall c evs1 e evs2 s1 g1 k1 s3 g3 k3 sid,
  fresh [] (evs1 ++ e :: evs2) ->
  grun ended_by c (init c) [] 0 evs1 = Some (s1, g1, k1) ->
  ended_by s1 e = Some sid ->
  grun ended_by c (init c) [] 0 (evs1 ++ e :: evs2) = Some (s3, g3, k3) ->
  forall code now ss, lookup_result s3 code now = Some ss -> s_id ss <> sid.
Proof. exact never_after. Qed.
Print Assumptions C14_never_after.

(* PARTIAL: the property's reading ("until the HOST disconnects": g drops a session only when no
   sender-role connection of it stays open) holds for histories in which a sender-role socket never
   closes while another sender-role connection of the same session is open (single_host) *)
Theorem C14_admits_host_partial : forall c evs s g clk code now ss,
  fresh [] evs -> single_host c (init c) evs ->
  grun ended_by_prop c (init c) [] 0 evs = Some (s, g, clk) -> clk <= now ->
  (lookup_result s code now = Some ss <-> In ss g /\ s_code ss = code /\ expired ss now = false).
Proof. exact server_admits_partial. Qed.
Print Assumptions C14_admits_host_partial.

(* REFUTED without single_host - finding "host-reconnect": the host (peer 200) reconnects, the
   stale socket's handler exits and deletes the session: the host is connected, the session never
   expires (ttl 0), it is in g by the property's reading, and its code is refused *)
Definition reconnect_history : list ev :=
  [SCheck 1; SCreate 1 10 7 42 [];
   WLookup 2 42 200 Sender 11; WAcquire 2; WCheck 2; WAdd 2;
   WLookup 3 42 200 Sender 12; WAcquire 3; WCheck 3; WAdd 3;
   WClose 2].
Example C14_host_reconnect_refuted :
  let c := mkCfg 0 0 0 0 in
  exists s g clk ss,
    grun ended_by_prop c (init c) [] 0 reconnect_history = Some (s, g, clk) /\
    fresh [] reconnect_history /\
    In ss g /\ s_code ss = 42 /\ s_expires ss = None /\
    In (mkHC 3 7 200 Sender) (hub s) /\ get_h 3 (ws s) = Some (mkH 3 7 200 Sender POpen false) /\
    lookup_result s 42 13 = None.
Proof.
  cbv zeta. eexists _, _, _, _. split; [vm_compute; reflexivity|].
  split; [cbn; tauto|]. split; [left; reflexivity|]. repeat split.
  - left. reflexivity.
Qed.

(* REFUTED for concurrent schedules - finding "concurrent-check-act:session-liveness": a join that
   passed the lookup completes after the host left; the peer ends up in the hub of a deleted session *)
Example C14_join_after_end_refuted :
  let c := mkCfg 0 0 0 0 in
  exists s tr,
    run c (init c) [SCheck 1; SCreate 1 10 7 42 []; WLookup 2 42 200 Sender 11; WAcquire 2; WCheck 2; WAdd 2;
                    WLookup 3 42 100 Receiver 12; WClose 2; WAcquire 3; WCheck 3; WAdd 3] = Some (s, tr) /\
    List.last tr RDone = RUpgraded /\ In (mkHC 3 7 100 Receiver) (hub s) /\ lookup 7 (sessions (stor s)) = None.
Proof. cbv zeta. eexists _, _. split; [vm_compute; reflexivity|]. repeat split. left. reflexivity. Qed.

(* ---------- the limits ---------- *)

(* concurrent connections: never exceeded, under every interleaving (Acquire is one atomic step) *)
Theorem C14_conn_limit : forall c evs s tr,
  0 < max_conns c -> run c (init c) evs = Some (s, tr) ->
  inuse s <= max_conns c /\ open_conns s <= inuse s /\ inuse s = slot_holders s.
Proof. exact conn_limit. Qed.
Print Assumptions C14_conn_limit.

(* concurrent sessions - PARTIAL: if at most p handlers ever stand between the check and the create,
   at most max + p - 1 sessions exist; for sequential histories (p = 1) the limit holds *)
Theorem C14_sessions_limit_partial : forall c p evs s tr,
  0 < max_sessions c -> 1 <= p -> creates_overlap c p (init c) evs -> run c (init c) evs = Some (s, tr) ->
  count (stor s) <= max_sessions c + p - 1.
Proof. exact sessions_limit_overlap. Qed.
Print Assumptions C14_sessions_limit_partial.

Theorem C14_sessions_limit_sequential : forall c evs s tr,
  0 < max_sessions c -> creates_overlap c 1 (init c) evs -> run c (init c) evs = Some (s, tr) ->
  count (stor s) <= max_sessions c.
Proof. exact sessions_limit_sequential. Qed.
Print Assumptions C14_sessions_limit_sequential.

(* REFUTED for concurrent requests - finding "concurrent-check-act:max-sessions" (the bound above is tight) *)
Example C14_sessions_limit_refuted :
  let c := mkCfg 1 0 0 0 in
  let evs := [SCheck 1; SCheck 2; SCheck 3; SCreate 1 10 7 41 []; SCreate 2 10 8 42 []; SCreate 3 10 9 43 []] in
  exists s tr, run c (init c) evs = Some (s, tr) /\ fresh [] evs /\ creates_overlap c 3 (init c) evs /\
               count (stor s) = 3 /\ max_sessions c = 1.
Proof.
  cbv zeta. eexists _, _. split; [vm_compute; reflexivity|]. split; [cbn; intuition discriminate|].
  split; [|split; reflexivity]. vm_compute. repeat split; intros H; discriminate H.
Qed.

(* receivers per host - PARTIAL / sequential / REFUTED likewise *)
Theorem C14_receivers_limit_partial : forall c sid p evs s tr,
  0 < max_receivers c -> 1 <= p -> joins_overlap c sid p (init c) evs -> run c (init c) evs = Some (s, tr) ->
  receivers_in sid (hub s) <= max_receivers c + p - 1.
Proof. exact receivers_limit_overlap. Qed.
Print Assumptions C14_receivers_limit_partial.

Theorem C14_receivers_limit_sequential : forall c sid evs s tr,
  0 < max_receivers c -> joins_overlap c sid 1 (init c) evs -> run c (init c) evs = Some (s, tr) ->
  receivers_in sid (hub s) <= max_receivers c.
Proof. exact receivers_limit_sequential. Qed.
Print Assumptions C14_receivers_limit_sequential.

Example C14_receivers_limit_refuted :
  let c := mkCfg 0 1 0 0 in
  let evs := [SCheck 1; SCreate 1 10 7 42 [];
              WLookup 2 42 100 Receiver 11; WAcquire 2; WCheck 2;
              WLookup 3 42 101 Receiver 11; WAcquire 3; WCheck 3;
              WAdd 2; WAdd 3] in
  exists s tr, run c (init c) evs = Some (s, tr) /\ joins_overlap c 7 2 (init c) evs /\
               receivers_in 7 (hub s) = 2 /\ max_receivers c = 1.
Proof.
  cbv zeta. eexists _, _. split; [vm_compute; reflexivity|]. split; [|split; reflexivity].
  vm_compute. repeat split; intros H; discriminate H.
Qed.

(* a limit of 0 means no limit: sessions, connections, receivers, rates *)
Theorem C14_zero_unlimited : forall c s,
  (max_sessions c = 0 -> forall h, memz h (pend s) = false ->
     exists s1, step c s (SCheck h) = Some (s1, RCont)) /\
  (max_conns c = 0 -> forall h x, get_h h (ws s) = Some x -> h_pc x = PLooked ->
     exists s1, step c s (WAcquire h) = Some (s1, RCont)) /\
  (max_receivers c = 0 -> forall h x, get_h h (ws s) = Some x -> h_pc x = PAcquired ->
     exists s1, step c s (WCheck h) = Some (s1, RCont)) /\
  (forall b now, rn b = 0 -> rate_allow b now = (b, true)).
Proof. exact zero_unlimited. Qed.
Print Assumptions C14_zero_unlimited.

(* message size: a positive limit is exact ... *)
Theorem C14_msg_size : forall m len, 0 < m -> (msg_accepted m len = true <-> len <= m).
Proof. exact msg_size_limit. Qed.
Print Assumptions C14_msg_size.

(* ... REFUTED for 0 - finding "zero-not-unlimited:max-message-bytes": 0 falls back to 64 KiB *)
Example C14_zero_unlimited_msgsize_refuted : msg_accepted 0 70000 = false.
Proof. reflexivity. Qed.

(* rates: in any window of consecutive calls, from any state the bucket can be in,
   allowances <= burst + rate * window   (rate = rn/rd per time unit; stated multiplied by rd) *)
Theorem C14_bucket : forall b times,
  bucket_ok b -> sorted_from (last b) times ->
  let '(b', l) := allow_all b times in
  rd b * allowed l <= burst b * rd b + rn b * (last b' - last b).
Proof. exact bucket_window. Qed.
Print Assumptions C14_bucket.

Theorem C14_bucket_states : forall rate_n rate_d b now times,
  0 < rate_d -> sorted_from now times ->
  bucket_ok (fst (allow_all (new_bucket rate_n rate_d b now) times)).
Proof.
  intros rate_n rate_d b now times D S. apply bucket_reachable_ok; [apply new_bucket_ok; exact D|exact S].
Qed.
Print Assumptions C14_bucket_states.

(* ---------- non-vacuity ---------- *)

(* a store history with a collision retry, a lazy expiry and a delete satisfies the premises *)
Example C14_store_example :
  let ops := [OCreate 10 1 5 []; OCreate 11 2 5 [5; 6]; OGet 5 20; OGet 5 111; ODelete 2; OGet 6 112] in
  fresh_ids [] ops /\
  exists s g clk tr, Session.run (new_store 100) [] 0 ops = Some (s, g, clk, tr) /\
    tr = [ObsCreated (mkSession 1 5 10 (Some 110)); ObsCreated (mkSession 2 6 11 (Some 111));
          ObsGet (Some (mkSession 1 5 10 (Some 110))); ObsGet None; ObsUnit; ObsGet None].
Proof. cbv zeta. split; [cbn; intuition discriminate|]. eexists _, _, _, _. split; vm_compute; reflexivity. Qed.

(* a sequential server history (each request's steps back to back) satisfies creates_overlap 1,
   joins_overlap 1, single_host and fresh, and runs into both limits *)
Definition seq_history : list ev :=
  [SCheck 1; SCreate 1 10 7 42 []; SCheck 2;
   WLookup 3 42 200 Sender 11; WAcquire 3; WCheck 3; WAdd 3;
   WLookup 4 42 100 Receiver 12; WAcquire 4; WCheck 4; WAdd 4;
   WLookup 5 42 101 Receiver 13; WAcquire 5; WCheck 5;
   WClose 4; WClose 3; WLookup 6 42 102 Receiver 14].
Example C14_sequential_example :
  let c := mkCfg 1 1 5 1000 in
  creates_overlap c 1 (init c) seq_history /\ joins_overlap c 7 1 (init c) seq_history /\
  single_host c (init c) seq_history /\ fresh [] seq_history /\
  exists s tr, run c (init c) seq_history = Some (s, tr) /\
    tr = [RCont; RCreated (mkSession 7 42 10 (Some 1010)); RTooMany;
          RCont; RCont; RCont; RUpgraded; RCont; RCont; RCont; RUpgraded; RCont; RCont; RTooMany;
          RDone; RDone; RNotFound].
Proof.
  cbv zeta. split; [vm_compute; repeat split; intros H; discriminate H|].
  split; [vm_compute; repeat split; intros H; discriminate H|].
  split; [vm_compute; tauto|]. split; [cbn; tauto|].
  eexists _, _. split; vm_compute; reflexivity.
Qed.

Example C14_bucket_example :
  bucket_ok (new_bucket 30 60 10 0) /\
  snd (allow_all (new_bucket 1 2 2 0) [0; 0; 0; 1; 2; 2; 4]) = [true; true; false; false; true; false; true].
Proof. split; [apply new_bucket_ok; lia|vm_compute; reflexivity]. Qed.

(* the premises of C14_never_after are met inside that history: the host's socket (handler 3)
   closes at position 15 and ends session 7; the later lookup of its code is refused *)
Example C14_never_after_example :
  let c := mkCfg 1 1 5 1000 in
  exists s1 g1 k1,
    grun ended_by c (init c) [] 0 (firstn 15 seq_history) = Some (s1, g1, k1) /\
    nth 15 seq_history (SCheck 0) = WClose 3 /\ ended_by s1 (WClose 3) = Some 7 /\
    fresh [] (firstn 15 seq_history ++ WClose 3 :: skipn 16 seq_history).
Proof. cbv zeta. eexists _, _, _. split; [vm_compute; reflexivity|]. repeat split. cbn. tauto. Qed.

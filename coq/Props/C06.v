(* C06 - Stale, foreign or damaged resume state is never trusted.
   Statements about Model/Sidecar.v (the metadata file: Flush, LoadSidecar,
   LoadOrCreateSidecarWithFallback) and Model/Resume.v (handleFileBegin /
   buildResumeInfo / applyResumeInfo / the receiver's completion logic), for ALL
   sidecar bytes, identities, data-file states and arrival orders.  The models
   follow the repaired code (3f16f06 stale data file, 730462f crafted chunk
   count / padding bits, 4252d4e length fields). *)
From Coq Require Import ZArith List Bool.
Import ListNotations.
From TF Require Import Lib.GoInt Lib.Bytes Gen.Geometry Model.CRC Model.Sidecar Model.Resume.
From TF Require Import Proofs.CRC Proofs.Sidecar Proofs.Resume Proofs.Geometry Proofs.ResumeFile Proofs.Popcount.
From Coq Require String.
From TF Require Model.BeginDisk Proofs.BeginDisk Gen.BeginMeta Proofs.BeginMeta.
Open Scope Z_scope.

(* what Flush writes is what LoadSidecar returns *)
Theorem C06_roundtrip : forall s, wf s -> load (serialise s) = Some s.
Proof. exact load_serialise. Qed.
Print Assumptions C06_roundtrip.

(* every truncation (strict prefix) of a sidecar is rejected *)
Theorem C06_truncation : forall s a b, wf s -> serialise s = a ++ b -> b <> [] -> load a = None.
Proof. exact load_prefix_none. Qed.
Print Assumptions C06_truncation.

(* CRC-32C as computed bit by bit by the model detects every error confined to
   one byte - in particular every single-bit flip (no hypothesis: proved from
   the injectivity of the shift-register step) *)
Theorem C06_crc_single_byte : forall pre b b' post,
  Forall byte pre -> byte b -> byte b' -> Forall byte post -> b <> b' ->
  crc32c (pre ++ b :: post) <> crc32c (pre ++ b' :: post).
Proof. exact crc32c_single_byte. Qed.
Print Assumptions C06_crc_single_byte.

(* a sidecar damaged in one byte is rejected, or - possible only for damage in
   the 16-bit id-length field - parsed as metadata of an id of another length *)
Theorem C06_damaged_byte : forall s pre b b' post,
  wf s -> serialise s = pre ++ b :: post -> 0 <= b' < 256 -> b' <> b ->
  match load (pre ++ b' :: post) with
  | None => True
  | Some s' => length (sc_id s') <> length (sc_id s)
  end.
Proof. exact load_damaged_byte. Qed.
Print Assumptions C06_damaged_byte.

Theorem C06_damaged_byte_rejected : forall s pre b b' post,
  wf s -> serialise s = pre ++ b :: post -> 0 <= b' < 256 -> b' <> b ->
  (length pre < 22 \/ 24 <= length pre)%nat -> load (pre ++ b' :: post) = None.
Proof. exact load_damaged_byte_none. Qed.
Print Assumptions C06_damaged_byte_rejected.

(* every single-bit flip at every position: looked up under the identity of the
   undamaged file, the damaged file is never trusted (fresh, empty metadata) *)
Theorem C06_bit_flip_never_trusted : forall s pre b post k lr,
  wf s -> serialise s = pre ++ b :: post -> 0 <= b < 256 -> 0 <= k < 8 ->
  load_or_create (Some (pre ++ Z.lxor b (2^k) :: post)) None (sc_id s) (sc_size s) (sc_chunk s) = Ret lr ->
  lr_loaded lr = false /\ sc_bitmap (lr_sc lr) = zeros (byte_len (sc_total (lr_sc lr))).
Proof. exact bit_flip_never_trusted. Qed.
Print Assumptions C06_bit_flip_never_trusted.

Theorem C06_truncated_never_trusted : forall s a b id size cs lr,
  wf s -> serialise s = a ++ b -> b <> [] ->
  load_or_create (Some a) None id size cs = Ret lr -> lr_loaded lr = false.
Proof. exact truncated_never_trusted. Qed.
Print Assumptions C06_truncated_never_trusted.

(* whatever bytes LoadSidecar accepts describe metadata Flush could have written:
   chunk count = the count CreateSidecar derives from the sizes, bitmap of exactly
   that many bits, no bit set beyond it (so the popcount the receiver subtracts
   counts marked chunks only) *)
Theorem C06_loaded_wellformed : forall d s, bytes_ok d -> load d = Some s -> wf s.
Proof. exact loaded_wellformed. Qed.
Print Assumptions C06_loaded_wellformed.

(* identity: the result always carries the requested chunk size, file size and
   id; it is state from disk only if such a file parses with exactly that
   identity, otherwise fresh metadata without a single mark *)
Theorem C06_identity : forall p f id size cs lr, load_or_create p f id size cs = Ret lr ->
  sc_chunk (lr_sc lr) = cs /\ sc_size (lr_sc lr) = size /\ sc_id (lr_sc lr) = id /\
  (lr_loaded lr = true -> exists d, (p = Some d \/ f = Some d) /\ load d = Some (lr_sc lr)) /\
  (lr_loaded lr = false -> sc_bitmap (lr_sc lr) = zeros (byte_len (sc_total (lr_sc lr))) /\
                           sidecarTotalChunks size cs = Ret (sc_total (lr_sc lr))).
Proof. exact loc_spec. Qed.
Print Assumptions C06_identity.

(* every mismatch of identity fields: files of another chunk size, file size or
   id (any non-empty subset) are never loaded *)
Theorem C06_foreign_never_trusted : forall p f id size cs lr, load_or_create p f id size cs = Ret lr ->
  (forall d s, p = Some d -> load d = Some s -> sc_chunk s <> cs \/ sc_size s <> size \/ sc_id s <> id) ->
  (forall d s, f = Some d -> load d = Some s -> sc_chunk s <> cs \/ sc_size s <> size \/ sc_id s <> id) ->
  lr_loaded lr = false.
Proof. exact foreign_never_trusted. Qed.
Print Assumptions C06_foreign_never_trusted.

(* the data file is gone or has another length (shorter, longer): whatever the
   metadata files say, nothing is loaded ... (holds since fix 3f16f06) *)
Theorem C06_stale_data_file : forall h rq d br,
  (match d_file d with None => True | Some f => zlen f <> rq_size rq end) ->
  recv_begin h rq d = Ret br -> br_loaded br = false.
Proof. exact stale_data_file. Qed.
Print Assumptions C06_stale_data_file.

(* ... and metadata that was not loaded (stale data file, unreadable, damaged,
   foreign, none) makes the sender send every chunk of the file: no data skipped *)
Theorem C06_untrusted_sends_all : forall h rq d src tail vnone o,
  resume_outcome h rq d src tail vnone = Ret o -> o_loaded o = false ->
  exists total, chunkTotal (rq_size rq) (rq_cs rq) = Ret total /\ o_sent o = zseq (Z.to_nat total).
Proof. exact unloaded_sends_all. Qed.
Print Assumptions C06_untrusted_sends_all.

(* the last chunk recorded as complete differs on disk from the source and the
   hash tells them apart: the sender's verification decides to send it again
   (C17_end_complete: the dispatch state machine then hands it out before FileEnd) *)
Theorem C06_repair_detected : forall h rq d src tail br hi total p,
  geom_dom (rq_size rq) (rq_cs rq) -> 0 < rq_size rq ->
  (forall x, d_primary d = Some x -> bytes_ok x) -> (forall x, d_fallback d = Some x -> bytes_ok x) ->
  recv_begin h rq d = Ret br -> rq_alg rq <> 0 ->
  highest_set (sc_bitmap (br_sc br)) (sc_total (br_sc br)) = Some hi ->
  h (chunk_at (rq_cs rq) (br_file br) hi) <> h (chunk_at (rq_cs rq) src hi) ->
  h (chunk_at (rq_cs rq) (br_file br) hi) <> hash_unknown ->
  chunkTotal (rq_size rq) (rq_cs rq) = Ret total ->
  apply_info total (rq_alg rq) tail false (br_total br) (sc_bitmap (br_sc br)) (br_last br) (br_hash br) = Ret p ->
  verdict h (rq_cs rq) src p = Some hi.
Proof. exact repair_detected. Qed.
Print Assumptions C06_repair_detected.

(* ... and once every frame the sender emitted has been written, the file is the
   source byte for byte: the damaged chunk was detected, sent again, and every
   other chunk was either recorded and intact or sent in the main pass.  (For
   all sizes, chunk sizes, bitmaps, verification tails and hash functions that
   tell the damaged chunk from the source's.) *)
Theorem C06_repair_file_identical : forall h rq d src tail br hi o,
  geom_dom (rq_size rq) (rq_cs rq) -> 0 < rq_size rq -> zlen src = rq_size rq ->
  (forall x, d_primary d = Some x -> bytes_ok x) -> (forall x, d_fallback d = Some x -> bytes_ok x) ->
  recv_begin h rq d = Ret br -> rq_alg rq <> 0 ->
  highest_set (sc_bitmap (br_sc br)) (sc_total (br_sc br)) = Some hi ->
  h (chunk_at (rq_cs rq) (br_file br) hi) <> h (chunk_at (rq_cs rq) src hi) ->
  h (chunk_at (rq_cs rq) (br_file br) hi) <> hash_unknown ->
  resume_outcome h rq d src tail false = Ret o ->
  (forall i, 0 <= i < br_total br -> i <> hi -> bit_get (sc_bitmap (br_sc br)) (br_total br) i = true ->
     chunk_at (rq_cs rq) (br_file br) i = chunk_at (rq_cs rq) src i) ->
  o_resent o = Some hi /\ o_file o = src.
Proof. exact resume_repairs. Qed.
Print Assumptions C06_repair_file_identical.

(* metadata that was not loaded never causes data to be skipped: the file is the
   source whatever the data file held before *)
Theorem C06_untrusted_file_identical : forall h rq d src tail vnone br o,
  geom_dom (rq_size rq) (rq_cs rq) -> zlen src = rq_size rq ->
  recv_begin h rq d = Ret br -> br_loaded br = false ->
  resume_outcome h rq d src tail vnone = Ret o ->
  o_file o = src.
Proof. exact resume_identical_unloaded. Qed.
Print Assumptions C06_untrusted_file_identical.

(* the number the receiver subtracts from the chunk count (CountSet) is, for every
   bitmap LoadSidecar accepts, exactly the number of chunks the metadata records:
   no padding bit and no foreign byte is ever counted, so "remaining = total -
   CountSet" is the number of chunks not yet recorded *)
Theorem C06_popcount_is_recorded_chunks : forall bm total,
  bytes_ok bm -> 0 <= total -> zlen bm = byte_len total -> padding_clear bm total = true ->
  count_set bm = marked bm total (Z.to_nat total).
Proof. exact count_set_is_marked. Qed.
Print Assumptions C06_popcount_is_recorded_chunks.

Theorem C06_loaded_popcount : forall d s, bytes_ok d -> load d = Some s -> 0 <= sc_total s ->
  count_set (sc_bitmap s) = marked (sc_bitmap s) (sc_total s) (Z.to_nat (sc_total s)).
Proof. intros d s Hd Hl Ht. apply wf_count_set_is_marked; [eapply loaded_wellformed; eassumption|exact Ht]. Qed.
Print Assumptions C06_loaded_popcount.

Theorem C06_remaining_is_unrecorded : forall h rq d br,
  recv_begin h rq d = Ret br -> wf (br_sc br) -> sc_total (br_sc br) = br_total br -> 0 <= br_total br ->
  br_remaining br = br_total br - marked (sc_bitmap (br_sc br)) (br_total br) (Z.to_nat (br_total br)).
Proof. exact remaining_is_unrecorded. Qed.
Print Assumptions C06_remaining_is_unrecorded.

(* PARTIAL: the repair is applied if the re-sent frame reaches the receiver while
   the file is still open (any arrival order of the other frames) *)
Theorem C06_repair_applied_partial : forall s evs1 evs2 i,
  r_done (rrun s evs1) = false -> In i (r_written (rrun s (evs1 ++ RChunk i :: evs2))).
Proof. exact frame_before_finalize_written. Qed.
Print Assumptions C06_repair_applied_partial.

(* REFUTED: "the detected damage is always repaired".  The receiver finalises a
   file as soon as no UNMARKED chunk is missing (here: when FileEnd arrives, all
   chunks being marked); the re-sent chunk is already marked, travels on a data
   stream and may arrive later - it is then dropped and both sides report
   success.  Witness: one chunk, recorded complete, damaged on disk; the damage
   IS detected (re-send of chunk 0), FileEnd overtakes the frame.
   Known finding "late-resend". *)
Definition w_src : list Z := [1; 2; 3; 4; 5].
Definition w_disk : list Z := [1; 2; 3; 4; 6].
Definition w_sc : sidecar := mkSc 8 5 1 [97] [1].
Example C06_repair_applied_refuted :
  (* sender side: detected, re-send decided *)
  (exists o, resume_outcome crc32c (mkRq [97] 5 8 1) (mkDisk (Some w_disk) (Some (serialise w_sc)) None) w_src 0 false = Ret o /\
             o_loaded o = true /\ o_resent o = Some 0 /\ o_remaining o = 0) /\
  (* receiver side: FileEnd first, then the frame *)
  let s := rrun (rinit [true] 0) [REnd; RChunk 0] in
  r_done s = true /\ r_written s = [] /\ r_dropped s = [0].
Proof. split; [eexists; vm_compute; repeat split; reflexivity|vm_compute; repeat split; reflexivity]. Qed.

(* non-vacuity of C06_repair_file_identical on the same witness: with the frame
   written before finalisation the file is repaired *)
Example C06_repair_file_example :
  exists o, resume_outcome crc32c (mkRq [97] 5 8 1) (mkDisk (Some w_disk) (Some (serialise w_sc)) None) w_src 0 false = Ret o /\
            o_resent o = Some 0 /\ o_file o = w_src.
Proof. eexists. vm_compute. repeat split; reflexivity. Qed.

Theorem C06_late_frame_dropped : forall s evs1 i,
  r_done (rrun s evs1) = true ->
  r_written (rrun s (evs1 ++ [RChunk i])) = r_written (rrun s evs1) /\
  In i (r_dropped (rrun s (evs1 ++ [RChunk i]))).
Proof. exact frame_after_finalize_dropped. Qed.
Print Assumptions C06_late_frame_dropped.

(* non-vacuity: [wf] is what the code produces, e.g. a 3-chunk file with chunks 0
   and 2 recorded; such a file round-trips, its prefixes and flips are rejected *)
Example C06_wf_example : wf (mkSc 4 10 3 [97; 98] [5]).
Proof. unfold wf, in_i64, bytes_ok; cbn. repeat split; try (vm_compute; congruence); try reflexivity; repeat constructor; lia. Qed.

Example C06_examples :
  let d := serialise (mkSc 4 10 3 [97; 98] [5]) in
  load d = Some (mkSc 4 10 3 [97; 98] [5]) /\
  load (firstn 30 d) = None /\
  (* CRC-valid crafted files: padding bit set / chunk count 8 instead of 3 *)
  load (serialise (mkSc 4 10 3 [97; 98] [13])) = None /\
  load (serialise (mkSc 4 10 8 [97; 98] [255])) = None /\
  (* stale data file: all chunks recorded, file deleted -> everything is sent *)
  (exists o, resume_outcome crc32c (mkRq [97] 5 2 1) (mkDisk None (Some (serialise (mkSc 2 5 3 [97] [7]))) None) w_src 0 false = Ret o /\
             o_loaded o = false /\ o_sent o = [0; 1; 2]) /\
  (* same metadata with the data file in place -> nothing is sent but the verification runs *)
  (exists o, resume_outcome crc32c (mkRq [97] 5 2 1) (mkDisk (Some w_src) (Some (serialise (mkSc 2 5 3 [97] [7]))) None) w_src 0 false = Ret o /\
             o_loaded o = true /\ o_sent o = [] /\ o_resent o = None).
Proof. vm_compute. repeat split; try reflexivity; eexists; repeat split; reflexivity. Qed.

(* ---- metadata left over from a data file that has since been deleted or shortened, in BOTH
   modes of the receiver (repo fix cc27423: before it a receive without resume re-created the
   data file and left that metadata for the next resumed run to trust) ---- *)
Module Begin.
Import TF.Model.BeginDisk TF.Proofs.BeginDisk.

(* whatever FileBegin finds - honest metadata, or metadata whose data file is gone / of another
   length - what it leaves on disk is honest about the (re-created) data file *)
Theorem C06_begin_leaves_honest_metadata : forall id size cs src d,
  stale_data size d = true \/ disk_honest id size cs src d ->
  disk_honest id size cs src (begin_disk size d).
Proof. exact begin_disk_honest. Qed.
Print Assumptions C06_begin_leaves_honest_metadata.

(* the statement was false of the receiver without resume as it was (witness replayed on the
   implementation: harness/c06plain.go, known_findings.json "fixed") *)
Theorem C06_plain_begin_before_fix_refuted :
  stale_data 2 w_disk = true /\ ~ disk_honest [7] 2 1 w_src (begin_disk_old false 2 w_disk).
Proof. exact old_plain_begin_refuted. Qed.
Print Assumptions C06_plain_begin_before_fix_refuted.

(* the model's rule is the code's: read off handleFileBegin on this run *)
Theorem C06_stale_rule_in_both_modes :
  TF.Proofs.BeginMeta.removed TF.Proofs.BeginMeta.primary_path TF.Proofs.BeginMeta.plain_stale = true /\
  TF.Proofs.BeginMeta.removed TF.Proofs.BeginMeta.fallback_path (TF.Proofs.BeginMeta.plain_stale ++ TF.Proofs.BeginMeta.two_dirs) = true /\
  TF.Proofs.BeginMeta.removed TF.Proofs.BeginMeta.primary_path TF.Proofs.BeginMeta.resume_stale = true /\
  TF.Proofs.BeginMeta.removed TF.Proofs.BeginMeta.fallback_path (TF.Proofs.BeginMeta.resume_stale ++ TF.Proofs.BeginMeta.two_dirs) = true.
Proof. exact TF.Proofs.BeginMeta.stale_rule_in_both_modes. Qed.
Print Assumptions C06_stale_rule_in_both_modes.

Definition stale_atom : String.string := TF.Proofs.BeginMeta.stale_flag.
Theorem C06_metadata_removed_only_when_stale :
  forallb (fun r => existsb (String.eqb stale_atom) (snd r)) TF.Gen.BeginMeta.begin_meta_removals = true.
Proof. exact TF.Proofs.BeginMeta.removal_only_when_stale. Qed.
Print Assumptions C06_metadata_removed_only_when_stale.
End Begin.

(* C17 - Each needed chunk and each file is dispatched exactly once, then one FileEnd.
   Statements about Model/Dispatch.v (sendFileState), for ALL well-formed event
   lists: any number of workers, any chunk count n, any bitmap / force-send-from,
   any arrival time of the resume plan and of the verification verdict.
   [grun] replays a history and accumulates what an observer saw ([ghost]). *)
From Coq Require Import List Arith Bool Permutation.
Import ListNotations.
From TF Require Import Model.Dispatch Proofs.Dispatch.
From Coq Require ZArith.
From TF Require Model.Sched Proofs.Sched Gen.SchedUse Proofs.SchedUse.
From TF Require Model.Sidecar Model.Resume Proofs.DispatchPlan.

(* every index of the main pass is decided in order, exactly once, as either a
   hand-out or a skip; a skip only happens when the plan is known, the chunk is
   reported present and lies below the verification point; a chunk handed out
   while the plan is known is never one the plan allows to skip *)
Theorem C17_main_pass_once : forall n evs, wf_run (init n) g0 evs ->
  let '(s, g) := grun (init n) g0 evs in
  decided g = seq 0 (nextChunk s) /\ nextChunk s <= n /\ total s = n /\
  Permutation (sentl g ++ skippedl g) (seq 0 (nextChunk s)) /\ NoDup (sentl g ++ skippedl g) /\
  (forall i, In i (skippedl g) -> exists bm force, plan s = Some (bm, force) /\ nth i bm false = true /\ i < force) /\
  (forall i, In i (sent_known g) -> plan_skips (plan s) i = false).
Proof. exact main_pass_once. Qed.
Print Assumptions C17_main_pass_once.

Theorem C17_inflight : forall n evs, wf_run (init n) g0 evs ->
  let '(s, g) := grun (init n) g0 evs in
  fins g <= takes g /\ inFlight s = takes g - fins g /\ takes g = length (sentl g) + length (resent g).
Proof. exact inflight_exact. Qed.
Print Assumptions C17_inflight.

Theorem C17_end_once : forall n evs, wf_run (init n) g0 evs ->
  ends (snd (grun (init n) g0 evs)) <= 1.
Proof. exact end_at_most_once. Qed.
Print Assumptions C17_end_once.

Theorem C17_resend : forall n evs, wf_run (init n) g0 evs ->
  let g := snd (grun (init n) g0 evs) in
  match mism g with None => resent g = [] | Some c => resent g = [] \/ resent g = [c] end.
Proof. exact resend_at_most_once. Qed.
Print Assumptions C17_resend.

(* the end-of-file record: first and only one, after every index was sent or
   skipped, all hand-outs finished, verification decided, and - the clause the
   unrepaired code violated - the re-send caused by a failed verification has
   gone out (and, being a hand-out, has finished) *)
Theorem C17_end_complete : forall n evs e, wf_run (init n) g0 (evs ++ [e]) ->
  let '(s, g) := grun (init n) g0 evs in
  forall s', step s e = (s', OEnd true) ->
  let g' := gstep s g e (OEnd true) in
  ends g = 0 /\ ends g' = 1 /\
  Permutation (sentl g' ++ skippedl g') (seq 0 n) /\
  takes g' = fins g' /\
  (vstart g' = true -> vdone g' = true) /\
  (forall c, mism g' = Some c -> resent g' = [c]).
Proof. exact end_complete. Qed.
Print Assumptions C17_end_complete.

(* from every reachable state in which verification is not pending, letting the
   workers take until nothing is left, finish everything and try-end once emits
   the end-of-file record: the file can always end, and with C17_end_once it
   ends exactly once *)
Theorem C17_progress : forall n evs, wf_run (init n) g0 evs ->
  let s := fst (grun (init n) g0 evs) in
  verifyPending s = false -> endSent (drain s) = true.
Proof. exact progress_reachable. Qed.
Print Assumptions C17_progress.

(* non-vacuity: a concrete history with a plan, a failed verification and a
   re-send is well-formed, ends, and shows the re-send before the end *)
Definition ex_hist : list ev :=
  [Take; VerifyStart; PlanSet [true; true; false] 2; Take; VerdictMismatch 1; Finish; Finish; Take; Finish].
Example C17_example_wf : wf_run (init 3) g0 ex_hist.
Proof. cbn. repeat split; auto. Qed.
Example C17_example_run :
  snd (run (init 3) ex_hist) =
  [OTake [] (Some 0); OUnit; OUnit; OTake [1] (Some 2); OUnit; OEnd false; OEnd false; OTake [] (Some 1); OEnd true].
Proof. vm_compute. reflexivity. Qed.

(* the witness that refuted this property on the unrepaired code (markChunkDone
   did not look at resendPending): with the repaired step function the Finish
   after the mismatch verdict no longer emits the end record *)
Example C17_prefix_witness_now_safe :
  snd (run (init 1) [Take; VerifyStart; VerdictMismatch 0; Finish]) = [OTake [] (Some 0); OUnit; OUnit; OEnd false].
Proof. vm_compute. reflexivity. Qed.

(* ------------------------------------------------------------------------- *)
(* "every file of the manifest is begun exactly once ... for all orders in
   which file slots free up": the hybrid scheduler (Model/Sched.v, checked
   call by call against the real HybridScheduler) and the way the sender uses
   it (Add all, activateNext = Next + Add-as-started, Remove on FileDone; the
   call sites are read off multistream.go into Gen/SchedUse.v). *)
Module Files.
Import ZArith TF.Model.Sched TF.Proofs.Sched.
Local Open Scope Z_scope.

(* on every reachable scheduler state, whatever the clock and the credit
   oracle: Next returns only a file that is in the table and not yet started,
   marks exactly that file started and changes nothing else *)
Theorem C17_sched_next_pending : forall c ops now ch s' k,
  (fracNum c <= 0 \/ 0 < fracDen c) ->
  let s := fst (run (init c) ops) in
  next s now ch = (s', Some k) ->
  exists m, lookup k (files s) = Some m /\ mstarted m = false /\
            lookup k (files s') = Some (mark now m) /\
            (forall k', k' <> k -> lookup k' (files s') = lookup k' (files s)).
Proof. exact next_reachable. Qed.
Print Assumptions C17_sched_next_pending.

(* Next refuses with files pending only while the small-file slots are taken by
   running small files (so a running file exists whose completion frees a slot) *)
Theorem C17_sched_refusal : forall c ops now ch s',
  (fracNum c <= 0 \/ 0 < fracDen c) ->
  let s := fst (run (init c) ops) in
  next s now ch = (s', None) ->
  s' = s /\ (pending (files s) <> [] -> 1 <= small_slots (conf s) <= active_small (files s)).
Proof. exact refusal_reachable. Qed.
Print Assumptions C17_sched_refusal.

(* over ALL usage histories (any interleaving of activateNext calls and FileDone
   arrivals, any clock, any credit choices, any stream count, any manifest): no
   file is begun twice, only manifest files are begun, the active set is within
   the begun set and never larger than the number of streams *)
Theorem C17_files_begun_once : forall c n fs evs,
  (fracNum c <= 0 \/ 0 < fracDen c) ->
  let u := urun (uinit c n fs) evs in
  NoDup (begun u) /\ incl (begun u) (mkeys fs) /\ incl (active u) (begun u) /\
  (length (active u) <= n)%nat.
Proof. exact usage_once. Qed.
Print Assumptions C17_files_begun_once.

(* whatever order the slots freed up in: once nothing is active, the next
   activateNext begins a file that was not begun before, as long as one is left *)
Theorem C17_files_live : forall c n fs evs now ch,
  (fracNum c <= 0 \/ 0 < fracDen c) -> (0 < n)%nat ->
  let u := urun (uinit c n fs) evs in
  active u = [] -> (exists k, In k (mkeys fs) /\ ~ In k (begun u)) ->
  exists k', begun (ustep u (UNext now ch)) = k' :: begun u /\ ~ In k' (begun u).
Proof. exact usage_live. Qed.
Print Assumptions C17_files_live.

(* ... hence a quiescent state has begun every file of the manifest exactly once *)
Theorem C17_files_all_begun : forall c n fs evs,
  (fracNum c <= 0 \/ 0 < fracDen c) -> (0 < n)%nat -> NoDup (mkeys fs) ->
  let u := urun (uinit c n fs) evs in
  active u = [] -> (forall now ch, ustep u (UNext now ch) = u) ->
  Permutation (begun u) (mkeys fs).
Proof. exact usage_quiescent_complete. Qed.
Print Assumptions C17_files_all_begun.

(* ... and quiescence is reached: every event that changes anything decreases
   2 * (files not begun) + (files active) *)
Theorem C17_files_measure : forall c n fs evs e,
  (fracNum c <= 0 \/ 0 < fracDen c) ->
  let u := urun (uinit c n fs) evs in
  ustep u e = u \/ (umeasure (ustep u e) < umeasure u)%nat.
Proof. exact usage_measure. Qed.
Print Assumptions C17_files_measure.

(* non-vacuity: three files (small, small, large), two streams, small quota 1:
   the second small file has to wait for the first one's slot; after both are
   done everything was begun once *)
Definition ex_cfg : cfg := mkCfg 2 100 1000 1 4 0.
Definition ex_files : list (Z * Z) := [(1, 10); (2, 20); (3, 5000)].
Example C17_files_example :
  let u := urun (uinit ex_cfg 2 ex_files) [UNext 1 0; UNext 2 0; UNext 3 0; UDone 1; UNext 4 0; UDone 3; UDone 2; UNext 5 0] in
  begun u = [2; 3; 1] /\ active u = [].
Proof. vm_compute. split; reflexivity. Qed.
End Files.

Module Usage.
Import String.
Local Open Scope string_scope.
(* the usage machine is the sender's pattern: the scheduler's call sites, the
   pending/started marking around them, Remove only after the FileDone wait and
   the stream bound on activateNext, all read off multistream.go on this run *)
Theorem C17_files_usage_is_source :
  Gen.SchedUse.sched_calls = [("", "Add"); ("activateNext", "Next"); ("activateNext", "Add"); ("sendFileEnd", "Remove")] /\
  Gen.SchedUse.activate_steps = ["sched.Next"; "meta.StartedAt"; "meta.LastScheduledAt"; "sched.Add"] /\
  existsb (String.eqb "StartedAt") Gen.SchedUse.sched_init_meta_fields = false /\
  (Gen.SchedUse.activate_call_sites = 1%nat /\ Gen.SchedUse.activate_loop_guards = ["len(activeFiles) < parallelStreams"]) /\
  Nat.ltb (Proofs.SchedUse.index_of "wait" Gen.SchedUse.sendfileend_calls)
          (Proofs.SchedUse.index_of "Remove" Gen.SchedUse.sendfileend_calls) = true.
Proof.
  exact (conj Proofs.SchedUse.sched_call_sites (conj Proofs.SchedUse.activate_order
        (conj (proj1 Proofs.SchedUse.sched_init_pending) (conj Proofs.SchedUse.activate_guarded
        (proj1 (proj2 Proofs.SchedUse.remove_after_done)))))).
Qed.
Print Assumptions C17_files_usage_is_source.

End Usage.

(* ------------------------------------------------------------------------- *)
(* "chunks the receiver reported as present below the verification point are not
   sent once the report is known": with the report applied before the first
   hand-out, EVERY schedule of any number of workers that runs the scan to its end
   hands out exactly the chunks the plan does not skip, each once - which is the
   "main pass" the resume model (Model/Resume.v: C04, C06) assumes of the sender,
   here for the report's own byte bitmap. *)
Module Bridge.
Import ZArith TF.Proofs.DispatchPlan.

Theorem C17_plan_first_sends_main_pass : forall n bm force evs,
  wf_run (init n) g0 (PlanSet bm force :: evs) ->
  let '(s, g) := grun (init n) g0 (PlanSet bm force :: evs) in
  nextChunk s = n ->
  NoDup (sentl g) /\
  forall i, In i (sentl g) <-> (i < n)%nat /\ plan_skips (Some (bm, force)) i = false.
Proof. exact plan_first_sends_main_pass. Qed.
Print Assumptions C17_plan_first_sends_main_pass.

Theorem C17_dispatch_realises_resume_main_pass : forall (n : nat) (pl : TF.Model.Resume.plan) evs,
  TF.Model.Resume.pl_bits pl = Z.of_nat n -> (0 <= TF.Model.Resume.pl_force pl)%Z ->
  wf_run (init n) g0 (PlanSet (to_bools (TF.Model.Resume.pl_bitmap pl) (TF.Model.Resume.pl_bits pl)) (Z.to_nat (TF.Model.Resume.pl_force pl)) :: evs) ->
  let '(s, g) := grun (init n) g0 (PlanSet (to_bools (TF.Model.Resume.pl_bitmap pl) (TF.Model.Resume.pl_bits pl)) (Z.to_nat (TF.Model.Resume.pl_force pl)) :: evs) in
  nextChunk s = n ->
  NoDup (sentl g) /\
  forall i : nat, In i (sentl g) <-> In (Z.of_nat i) (TF.Model.Resume.main_pass (Z.of_nat n) (Some pl)).
Proof. exact dispatch_realises_main_pass. Qed.
Print Assumptions C17_dispatch_realises_resume_main_pass.

(* non-vacuity: 4 chunks, chunks 0 and 2 reported, verification point 3, two
   workers: the scan hands out 1 and 3 *)
Example C17_bridge_example :
  let evs := [PlanSet [true; false; true; false] 3%nat; Take; Take; Finish; Take; Finish] in
  wf_run (init 4) g0 evs /\ nextChunk (fst (grun (init 4) g0 evs)) = 4%nat /\ sentl (snd (grun (init 4) g0 evs)) = [1; 3]%nat.
Proof. vm_compute. repeat split; auto. Qed.
End Bridge.

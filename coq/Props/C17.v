(* C17 - Each needed chunk and each file is dispatched exactly once, then one FileEnd.
   Statements about Model/Dispatch.v (sendFileState), for ALL well-formed event
   lists: any number of workers, any chunk count n, any bitmap / force-send-from,
   any arrival time of the resume plan and of the verification verdict.
   [grun] replays a history and accumulates what an observer saw ([ghost]). *)
From Coq Require Import List Arith Bool Permutation.
Import ListNotations.
From TF Require Import Model.Dispatch Proofs.Dispatch.

(* every index of the main pass is decided in order, exactly once, as either a
   hand-out or a skip; a skip only happens when the plan is known, the chunk is
   reported present and lies below the verification point; a chunk handed out
   while the plan is known is never one the plan allows to skip *)
Theorem C17_main_pass_once : forall n evs, wf_run (init n) g0 evs ->
  let '(s, g) := grun (init n) g0 evs in
  decided g = seq 0 (nextChunk s) /\ nextChunk s <= n /\ total s = n /\
  Permutation (sentl g ++ skippedl g) (seq 0 (nextChunk s)) /\ NoDup (sentl g ++ skippedl g) /\
  (forall i, In i (skippedl g) -> exists bm force, plan s = Some (bm, force) /\ nth i bm false = true /\ i < force) /\
  (forall i, In i (sent_known g) -> plan_skips (plan s) i = false).
Proof. exact main_pass_once. Qed.
Print Assumptions C17_main_pass_once.

Theorem C17_inflight : forall n evs, wf_run (init n) g0 evs ->
  let '(s, g) := grun (init n) g0 evs in
  fins g <= takes g /\ inFlight s = takes g - fins g /\ takes g = length (sentl g) + length (resent g).
Proof. exact inflight_exact. Qed.
Print Assumptions C17_inflight.

Theorem C17_end_once : forall n evs, wf_run (init n) g0 evs ->
  ends (snd (grun (init n) g0 evs)) <= 1.
Proof. exact end_at_most_once. Qed.
Print Assumptions C17_end_once.

Theorem C17_resend : forall n evs, wf_run (init n) g0 evs ->
  let g := snd (grun (init n) g0 evs) in
  match mism g with None => resent g = [] | Some c => resent g = [] \/ resent g = [c] end.
Proof. exact resend_at_most_once. Qed.
Print Assumptions C17_resend.

(* the end-of-file record: first and only one, after every index was sent or
   skipped, all hand-outs finished, verification decided, and - the clause the
   unrepaired code violated - the re-send caused by a failed verification has
   gone out (and, being a hand-out, has finished) *)
Theorem C17_end_complete : forall n evs e, wf_run (init n) g0 (evs ++ [e]) ->
  let '(s, g) := grun (init n) g0 evs in
  forall s', step s e = (s', OEnd true) ->
  let g' := gstep s g e (OEnd true) in
  ends g = 0 /\ ends g' = 1 /\
  Permutation (sentl g' ++ skippedl g') (seq 0 n) /\
  takes g' = fins g' /\
  (vstart g' = true -> vdone g' = true) /\
  (forall c, mism g' = Some c -> resent g' = [c]).
Proof. exact end_complete. Qed.
Print Assumptions C17_end_complete.

(* from every reachable state in which verification is not pending, letting the
   workers take until nothing is left, finish everything and try-end once emits
   the end-of-file record: the file can always end, and with C17_end_once it
   ends exactly once *)
Theorem C17_progress : forall n evs, wf_run (init n) g0 evs ->
  let s := fst (grun (init n) g0 evs) in
  verifyPending s = false -> endSent (drain s) = true.
Proof. exact progress_reachable. Qed.
Print Assumptions C17_progress.

(* non-vacuity: a concrete history with a plan, a failed verification and a
   re-send is well-formed, ends, and shows the re-send before the end *)
Definition ex_hist : list ev :=
  [Take; VerifyStart; PlanSet [true; true; false] 2; Take; VerdictMismatch 1; Finish; Finish; Take; Finish].
Example C17_example_wf : wf_run (init 3) g0 ex_hist.
Proof. cbn. repeat split; auto. Qed.
Example C17_example_run :
  snd (run (init 3) ex_hist) =
  [OTake [] (Some 0); OUnit; OUnit; OTake [1] (Some 2); OUnit; OEnd false; OEnd false; OTake [] (Some 1); OEnd true].
Proof. vm_compute. reflexivity. Qed.

(* the witness that refuted this property on the unrepaired code (markChunkDone
   did not look at resendPending): with the repaired step function the Finish
   after the mismatch verdict no longer emits the end record *)
Example C17_prefix_witness_now_safe :
  snd (run (init 1) [Take; VerifyStart; VerdictMismatch 0; Finish]) = [OTake [] (Some 0); OUnit; OUnit; OEnd false].
Proof. vm_compute. reflexivity. Qed.

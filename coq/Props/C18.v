(* C18 - Control-protocol encoding round-trips and stays in frame.
   Statements about Model/Wire.v (byte-level model of controlproto.go and of the
   data-frame header); [wf] is exactly the protocol's field limits. *)
From Coq Require Import ZArith List Bool.
From TF Require Import Lib.GoInt Lib.Bytes Gen.Consts Model.Path Model.Wire Proofs.Wire.
Import ListNotations.
Open Scope Z_scope.

(* every record the encoder emits is decoded into the same value, consuming
   exactly the bytes written - whatever follows it on the stream *)
Theorem C18_dec_enc : forall m bs, wf m -> enc_ctl m = Ret bs ->
  forall rest, dec_ctl (bs ++ rest) = DOk m rest.
Proof. exact dec_enc. Qed.
Print Assumptions C18_dec_enc.

(* so a sequence of records decodes to the same sequence, with nothing left *)
Theorem C18_seq : forall ms bss,
  Forall2 (fun m bs => wf m /\ enc_ctl m = Ret bs) ms bss ->
  forall fuel, (length (concat bss) <= fuel)%nat -> dec_all fuel (concat bss) = Some ms.
Proof. exact dec_all_concat. Qed.
Print Assumptions C18_seq.

(* control header: magic, 32-bit length, JSON blob (the JSON value itself is an
   oracle - encoding/json - and only tested) *)
Theorem C18_header : forall json rest, len json < 2^32 ->
  dec_header (enc_header json ++ rest) = DOk json rest.
Proof. exact header_roundtrip. Qed.
Print Assumptions C18_header.

(* data-frame header *)
Theorem C18_frame_header : forall key idx clen crc rest,
  in_u64 key -> in_u32 idx -> in_u32 clen -> in_u32 crc ->
  dec_frame_header (enc_frame_header key idx clen crc ++ rest) = DOk (key, idx, clen, crc) rest.
Proof. exact frame_header_roundtrip. Qed.
Print Assumptions C18_frame_header.

(* non-vacuity: records at the field boundaries satisfy wf and are encodable *)
Example C18_wf_boundaries :
  wf (FileBegin (rep 1024 120) (2^64 - 1) (2^32 - 1) 0 2 65535 0 (2^32 - 1) 0) /\
  is_ret (enc_ctl (FileBegin (rep 1024 120) (2^64 - 1) (2^32 - 1) 0 2 65535 0 (2^32 - 1) 0)) = true /\
  wf (FileDone (2^64 - 1) false (rep 65535 101)) /\
  wf (FileResumeInfo [] 0 0 [] 0 (2^64 - 1)) /\ wf (CreditBatch []) /\ wf EndRec.
Proof.
  split; [unfold wf, in_u64, in_u32, in_u16, in_u8; lia|].
  split; [vm_compute; reflexivity|].
  split; [unfold wf, in_u64; rewrite len_rep by lia; lia|].
  split; [unfold wf, in_u64, in_u32, len; cbn [length]; lia|].
  split; [unfold wf; cbn [length]; split; [lia|constructor]|exact I].
Qed.

(* why the limit on error texts is part of the statement *)
Example C18_outside_limits_refuted :
  match enc_ctl (FileDone 7 false (rep 65537 101)) with
  | Ret bs =>
    match dec_ctl (bs ++ [c_controlTypeEnd]) with
    | DOk (FileDone 7 false e) rest => (len e =? 1) && (len rest =? 65537)
    | _ => false
    end
  | _ => false
  end = true.
Proof. exact outside_limits_desync. Qed.

(* C13 - The manifest describes exactly what will be read, once, deterministically.
   Statements about Model/Scan.v (manifest.ScanPaths, manifest.TopLevelNames,
   computeID and the sender's buildPathResolver, as they are after the two fixes
   in the repository).  Vocabulary (Proofs/Scan.v):
     entry        a given path: its cleaned absolute component list and the tree
                  found there after following a link at the path itself
     wf_entry     names are non-empty and slash-free, names within a directory are
                  pairwise distinct, file sizes are >= 0 (what a file system gives)
     named es k e k is the top-level name TopLevelNames gives the given path e
     lookup n p   the node reached from n along the names p, entering directories
                  only (links met on the way are never crossed)
     item_of r c  the item a regular file / directory c must have at manifest path r
                  (None for links and special files)
   The former refutations (two items "1_a"; links listed with their lstat size)
   are now the Examples at the end: the fixed code satisfies the full statement. *)
From Coq Require Import ZArith List Bool Permutation Sorting.Sorted.
From TF Require Import Lib.GoInt Model.Scan Proofs.ScanNames Proofs.Scan.
Import ListNotations.
Open Scope Z_scope.

(* ScanPaths always returns (the ordinal search terminates); its error is nil
   exactly when every given path is a regular file or a directory *)
Theorem C13_total : forall es, es <> [] ->
  exists m, scan_paths es = Ret (m, forallb good_entry es).
Proof. exact scan_total. Qed.
Print Assumptions C13_total.

(* top-level names: one per given path, pairwise distinct, whatever the base names *)
Theorem C13_names_distinct : forall es,
  NoDup (keys_of es) /\ length (keys_of es) = length es /\
  forall e, In e es -> exists key, named es key e.
Proof. exact names_distinct. Qed.
Print Assumptions C13_names_distinct.

(* every regular file and directory beneath each given path is listed for that
   path, exactly once *)
Theorem C13_exact_listed : forall es m ok, scan_paths es = Ret (m, ok) -> Forall wf_entry es ->
  forall key e n p c it,
    named es key e -> e_stat e = Some n -> lookup n p = Some c ->
    item_of (key ++ joinp p) c = Some it ->
    In it (m_items m) /\
    count_occ bytes_eq_dec (map rel (m_items m)) (key ++ joinp p) = 1%nat.
Proof. exact exact_listed. Qed.
Print Assumptions C13_exact_listed.

(* ... and nothing else is listed: every item is a regular file or directory
   found beneath one of the given paths, under that path's name, with the names
   on the way separated by single forward slashes *)
Theorem C13_exact_nothing_else : forall es m ok, scan_paths es = Ret (m, ok) -> Forall wf_entry es ->
  forall it, In it (m_items m) ->
    exists key e n p c, named es key e /\ e_stat e = Some n /\ lookup n p = Some c /\
      item_of (key ++ joinp p) c = Some it /\ good_name key /\ Forall good_name p.
Proof. exact exact_sound. Qed.
Print Assumptions C13_exact_nothing_else.

(* relative paths are pairwise distinct *)
Theorem C13_nodup : forall es m ok, scan_paths es = Ret (m, ok) -> Forall wf_entry es ->
  NoDup (map rel (m_items m)).
Proof. exact items_nodup. Qed.
Print Assumptions C13_nodup.

(* ... and sorted byte-wise (with C13_nodup: strictly) *)
Theorem C13_sorted : forall es m ok, scan_paths es = Ret (m, ok) ->
  StronglySorted (fun a b => ble (rel a) (rel b) = true) (m_items m).
Proof. exact items_sorted. Qed.
Print Assumptions C13_sorted.

(* sizes: a listed file is a regular file of exactly that size and mtime (never a
   link or a special file), a listed directory is a directory and has size 0 *)
Theorem C13_size_faithful : forall es m ok, scan_paths es = Ret (m, ok) -> Forall wf_entry es ->
  forall it, In it (m_items m) ->
    exists key e n p, named es key e /\ e_stat e = Some n /\ rel it = key ++ joinp p /\
      if isdir it then (exists kids, lookup n p = Some (Dir (mtime it) kids)) /\ size it = 0
      else lookup n p = Some (File (size it) (mtime it)).
Proof. exact size_faithful. Qed.
Print Assumptions C13_size_faithful.

(* counters add up, ids are those of the final items *)
Theorem C13_counts : forall es m ok, scan_paths es = Ret (m, ok) -> Forall wf_entry es ->
  m_files m = length (filter (fun it => negb (isdir it)) (m_items m)) /\
  m_folders m = length (filter isdir (m_items m)) /\
  (item_sum (m_items m) < 2^63 -> m_total m = item_sum (m_items m)) /\
  m_ids m = map compute_id (m_items m).
Proof. exact counts_all. Qed.
Print Assumptions C13_counts.

(* every listed path resolves back to the source it was scanned from: the given
   path followed by the names below it (never the empty string) *)
Theorem C13_resolver : forall es ts key e n p c,
  build_resolver es = Ret ts -> Forall wf_entry es ->
  named es key e -> e_stat e = Some n -> lookup n p = Some c -> Forall good_name p ->
  resolve_rel ts (key ++ joinp p) = path_str (e_abs e ++ p).
Proof. exact resolver_correct. Qed.
Print Assumptions C13_resolver.

(* the resolver exists whenever the scan returned no error *)
Theorem C13_resolver_exists : forall es m, scan_paths es = Ret (m, true) ->
  exists ts, build_resolver es = Ret ts.
Proof. exact resolver_exists. Qed.
Print Assumptions C13_resolver_exists.

(* determinism: the result is a function of the paths and trees alone, and does
   not depend on the order in which any directory's entries are enumerated *)
Theorem C13_deterministic : forall es1 es2,
  Forall2 eequiv es1 es2 -> Forall wf_entry es1 -> scan_paths es1 = scan_paths es2.
Proof. exact order_independent. Qed.
Print Assumptions C13_deterministic.

(* ---- non-vacuity and the former counterexamples ---- *)
Definition ex_abs (d b : bytes) : list bytes := [[116]; d; b].     (* /t/<d>/<b> *)

(* x/a, y/a, z/1_a: before the fix two items were called "1_a" *)
Definition ex_lookalike : list entry :=
  [ mkEntry (ex_abs [120] [97]) (Some (File 2 100));
    mkEntry (ex_abs [121] [97]) (Some (File 4 100));
    mkEntry (ex_abs [122] [49; 95; 97]) (Some (File 6 100)) ].

Example C13_lookalike_wf : Forall wf_entry ex_lookalike.
Proof.
  repeat constructor; cbn; try discriminate; try lia;
    intros H; repeat (destruct H as [H|H]; [discriminate|]); exact H.
Qed.

Example C13_lookalike_now_distinct :
  keys_of ex_lookalike = [[50; 95; 97]; [51; 95; 97]; [49; 95; 97]] /\
  match scan_paths ex_lookalike with
  | Ret (m, ok) => (map rel (m_items m), map size (m_items m), ok)
  | _ => ([], [], false)
  end = ([[49; 95; 97]; [50; 95; 97]; [51; 95; 97]], [6; 2; 4], true) /\
  match build_resolver ex_lookalike with
  | Ret ts => map (resolve_rel ts) [[49; 95; 97]; [50; 95; 97]; [51; 95; 97]]
  | _ => []
  end = [path_str (ex_abs [122] [49; 95; 97]); path_str (ex_abs [120] [97]); path_str (ex_abs [121] [97])].
Proof. vm_compute. repeat split. Qed.

(* a tree with a link to a 25-byte file, a link to a directory, a dangling link
   and a pipe: before the fix they were listed as files of size 3, 3, 7 and 0 *)
Definition ex_links : list entry :=
  [ mkEntry [[116]] (Some (Dir 50 [ ([98; 105; 103], File 25 60);
                                     ([108; 110; 107], Link);
                                     ([115; 117; 98], Dir 70 [([102], File 25 80)]);
                                     ([108; 100; 105; 114], Link);
                                     ([100; 97; 110; 103], Link);
                                     ([102; 105; 102; 111], Other) ])) ].

Example C13_links_wf : Forall wf_entry ex_links.
Proof.
  repeat constructor; cbn; try discriminate; try lia;
    intros H; repeat (destruct H as [H|H]; [discriminate|]); exact H.
Qed.

Example C13_links_now_skipped :
  match scan_paths ex_links with
  | Ret (m, ok) => (map rel (m_items m), map size (m_items m), m_total m, m_files m, m_folders m, ok)
  | _ => ([], [], 0, O, O, false)
  end = ([[116]; [116; 47; 98; 105; 103]; [116; 47; 115; 117; 98]; [116; 47; 115; 117; 98; 47; 102]],
         [0; 25; 0; 25], 50, 2%nat, 2%nat, true).
Proof. vm_compute. reflexivity. Qed.

(* a given path that is not a regular file or directory is an error, not an item *)
Example C13_special_given_is_error :
  match scan_paths [mkEntry [[112]] (Some Other); mkEntry [[113]] None; mkEntry [[114]] (Some (File 1 1))] with
  | Ret (m, ok) => (map rel (m_items m), ok)
  | _ => ([], true)
  end = ([[114]], false).
Proof. vm_compute. reflexivity. Qed.

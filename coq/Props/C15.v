(* C15 - Malformed or hostile protocol input produces an error, not a crash.
   Statements about Model/WireDec.v (decoders with their allocation requests)
   and Model/Endpoint.v (what the receiver and the sender do with each record,
   stage by stage).  "For all byte strings" is [forall l, bytes_ok l -> ...]
   (or no hypothesis at all where none is needed).  The models follow the code
   after the repository fixes listed in known_findings.C15.json. *)
From Coq Require Import ZArith List Bool.
From TF Require Import Lib.GoInt Lib.Bytes Gen.Consts Gen.C15 Model.Path Model.Wire Model.WireDec Model.Endpoint
  Proofs.WireDec Proofs.Endpoint.
Import ListNotations.
Open Scope Z_scope.

(* --- decoders: total, three result classes, progress --- *)

(* the instrumented decoder is the decoder of C18 (Ok / Short / Bad, same value, same rest) *)
Theorem C15_decoder_result_classes : forall l, snd (adec_ctl l) = dec_ctl l.
Proof. exact adec_ctl_erase. Qed.
Print Assumptions C15_decoder_result_classes.

Theorem C15_header_result_classes : forall l, snd (adec_header l) = dec_header l.
Proof. exact adec_header_erase. Qed.
Print Assumptions C15_header_result_classes.

(* a decoded record consumed at least one byte: a stream of n bytes is decoded in at most n steps *)
Theorem C15_decode_progress : forall l m rest, dec_ctl l = DOk m rest -> (length rest < length l)%nat.
Proof. exact dec_ctl_progress. Qed.
Print Assumptions C15_decode_progress.

(* --- memory: what a decoder reserves is in proportion to the bytes received --- *)

Theorem C15_record_alloc_proportional : forall l, bytes_ok l ->
  zsum (fst (adec_ctl l)) <= 16 * len l + 65536.
Proof. exact record_alloc_proportional. Qed.
Print Assumptions C15_record_alloc_proportional.

(* over a whole control stream of any number of records the constant is paid once *)
Theorem C15_stream_alloc_proportional : forall fuel l, bytes_ok l ->
  zsum (fst (adec_stream fuel l)) <= 16 * len l + 65536.
Proof. exact stream_alloc_proportional. Qed.
Print Assumptions C15_stream_alloc_proportional.

Theorem C15_header_alloc_proportional : forall l, bytes_ok l ->
  zsum (fst (adec_header l)) <= 16 * len l + 65536.
Proof. exact header_alloc_proportional. Qed.
Print Assumptions C15_header_alloc_proportional.

Theorem C15_legacy_headers_alloc_proportional : forall l, bytes_ok l ->
  zsum (fst (adec_legacy_manifest_header l)) <= 16 * len l + 65536 /\
  zsum (fst (adec_file_header l)) <= 16 * len l + 65536 /\
  zsum (fst (adec_dumb_header l)) <= 16 * len l + 65536.
Proof.
  exact (fun l B => conj (legacy_manifest_header_alloc_proportional l B)
                   (conj (file_header_alloc_proportional l B) (dumb_header_alloc_proportional l B))).
Qed.
Print Assumptions C15_legacy_headers_alloc_proportional.

(* the doubling read loop of the model never runs out of fuel for a 32-bit length *)
Theorem C15_grow_fuel_enough : forall first n avail k, 1 <= first -> n < 2 ^ 32 ->
  grow_caps (grow_fuel + k) (Z.min first n) n (Z.min avail n) = grow_caps grow_fuel (Z.min first n) n (Z.min avail n) \/ n <= 0.
Proof. exact grow_allocs_fuel_enough. Qed.
Print Assumptions C15_grow_fuel_enough.

(* why the incremental read matters: the 8 bytes "SBC1 ff ff ff ff" reserve 64 KiB, not 4 GiB *)
Example C15_header_hostile_length_reserves_one_step :
  fst (adec_header [83; 66; 67; 49; 255; 255; 255; 255]) = [65536].
Proof. vm_compute. reflexivity. Qed.

(* --- receiver, control stream: every byte string ends in a named outcome --- *)

Theorem C15_recv_ctl_total : forall resume items l,
  returns_or_end_hang (fst (recv_ctl_run resume items l)) /\ wf_state (snd (recv_ctl_run resume items l)).
Proof. exact recv_ctl_run_spec. Qed.
Print Assumptions C15_recv_ctl_total.

Theorem C15_recv_ctl_no_panic : forall resume items l,
  fst (recv_ctl_run resume items l) <> RPanic /\ fst (recv_ctl_run resume items l) <> RFuel.
Proof. exact recv_ctl_never_panics. Qed.
Print Assumptions C15_recv_ctl_no_panic.

(* "never blocks forever on input that has ended" - full statement: refuted by the
   current code (End before the files completed stops the control reader) *)
Example C15_recv_ctl_ended_input_returns_refuted :
  fst (recv_ctl_run false [{| mi_path := [102]; mi_size := 9; mi_key := 5; mi_id := [] |}] [23; 0; 1; 255]) = RHangEnd.
Proof. vm_compute. reflexivity. Qed.

(* ... and holds for every stream that does not run into that class *)
Theorem C15_recv_ctl_ended_input_returns_partial : forall resume items l,
  fst (recv_ctl_run resume items l) <> RHangEnd ->
  fst (recv_ctl_run resume items l) = ROk \/ fst (recv_ctl_run resume items l) = RErr \/
  fst (recv_ctl_run resume items l) = REofDone.
Proof. exact recv_ctl_ended_input_returns. Qed.
Print Assumptions C15_recv_ctl_ended_input_returns_partial.

(* --- receiver, data streams: no panic, one bounded pool buffer at a time --- *)

Theorem C15_data_no_panic_bounded_buffers : forall crc st l, wf_state st ->
  let r := data_run crc st l in
  fst (fst r) <> DPanicked /\ fst (fst r) <> DFuel /\ wf_state (snd (fst r)) /\
  Forall (fun b => b <= c_maxChunkSize) (snd r).
Proof. exact data_run_spec. Qed.
Print Assumptions C15_data_no_panic_bounded_buffers.

(* the hypothesis is what handleFileBegin's chunk-size check establishes
   (C15_recv_ctl_total); without it the reader panics - the repaired defect *)
Example C15_data_chunk_size_zero_would_panic :
  fst (fst (data_run (fun _ => 0)
    {| active := [{| fs_key := 5; fs_id := []; fs_cs := 0; fs_total := 0; fs_remaining := 0; fs_sidecar := false; fs_got := [] |}];
       finished := []; completed := 0 |}
    (be 8 5 ++ be 4 0 ++ be 4 3 ++ be 4 0 ++ [1; 2; 3]))) = DPanicked.
Proof. vm_compute. reflexivity. Qed.

(* --- sender: the acknowledgement stream can only end in an error --- *)

Theorem C15_ack_ended_input_errors : forall fuel l, (length l < fuel)%nat -> fst (ack_run fuel l) = AErr.
Proof. exact ack_run_errors. Qed.
Print Assumptions C15_ack_ended_input_errors.

(* --- non-vacuity --- *)

(* an honest control stream for one empty file is accepted: DataStreams, FileBegin, FileEnd, End *)
Example C15_honest_stream_accepted :
  match enc_ctl (FileBegin [102] 0 4 5 1 0 0 0 0), enc_ctl (FileEnd 5 0) with
  | Ret b, Ret e =>
    fst (recv_ctl_run true [{| mi_path := [102]; mi_size := 0; mi_key := 5; mi_id := [49] |}] ([23; 0; 1] ++ b ++ e ++ [255]))
  | _, _ => RErr
  end = ROk.
Proof. vm_compute. reflexivity. Qed.

(* the invariant is reachable at the limit: a FileBegin with the largest accepted chunk size *)
Example C15_wf_state_at_limit :
  match enc_ctl (FileBegin [102] 9 c_maxChunkSize 5 1 0 0 0 0) with
  | Ret b =>
    map fs_cs (active (snd (recv_ctl_run false [{| mi_path := [102]; mi_size := 9; mi_key := 5; mi_id := [] |}] ([23; 0; 1] ++ b))))
  | _ => []
  end = [c_maxChunkSize].
Proof. vm_compute. reflexivity. Qed.

(* hostile records are rejected, not trusted: chunk size 0 and chunk size above the limit *)
Example C15_hostile_chunk_sizes_rejected :
  match enc_ctl (FileBegin [102] 9 0 5 1 0 0 0 0), enc_ctl (FileBegin [102] 9 (c_maxChunkSize + 1) 5 1 0 0 0 0) with
  | Ret b0, Ret b1 =>
    let items := [{| mi_path := [102]; mi_size := 9; mi_key := 5; mi_id := [] |}] in
    (fst (recv_ctl_run false items ([23; 0; 1] ++ b0)), fst (recv_ctl_run false items ([23; 0; 1] ++ b1)))
  | _, _ => (ROk, ROk)
  end = (RErr, RErr).
Proof. vm_compute. reflexivity. Qed.

(* C07 - The receiver never touches anything outside its output directory.
   Statements about Model/Path.v (validateRelPath) and Model/PathFs.v (lexical
   model of path/filepath, SidecarPath, and every filesystem call of the production
   receiver and of the app around it).  [confined out p]: the cleaned p has the same
   rootedness as the cleaned out and extends it by elements none of which is "..". *)
From Coq Require Import ZArith List Bool.
From TF Require Import Lib.GoInt Gen.Consts Model.Path Model.PathFs Proofs.PathFs.
Import ListNotations.
Open Scope Z_scope.

(* the key lemma: whatever byte string the sender puts into a path field, if
   validateRelPath accepts it then joining it to ANY output directory stays inside *)
Theorem C07_join_confined : forall out r,
  validate_rel_path r = true -> confined out (join [out; r]).
Proof. exact join_confined_validated. Qed.
Print Assumptions C07_join_confined.

(* ... and so does the parent directory the receiver creates for the file *)
Theorem C07_parent_confined : forall base r, base <> [] ->
  validate_rel_path r = true -> confined base (join [base; r]) /\ confined base (dir (join [base; r])).
Proof. exact validated_join_confined. Qed.
Print Assumptions C07_parent_confined.

(* resume metadata: for an accepted root name and an id without separator the
   sidecar, its ".tmp" and the directory holding it are inside outDir *)
Theorem C07_sidecar_confined : forall outDir root id,
  root_ok root = true -> has_slash id = false ->
  confined outDir (sidecar_path outDir root id) /\
  confined outDir (sidecar_path outDir root id ++ s_tmp) /\
  confined outDir (dir (sidecar_path outDir root id)).
Proof. exact sidecar_confined. Qed.
Print Assumptions C07_sidecar_confined.

(* the property: for ALL inputs (output directory, both root-dir modes, resume on
   and off, manifest root, items with arbitrary rel_path / id / is_dir / size, any
   sequence of FileBegin records, any offered root name, overwrite or not) every
   path the receiver passes to a creating, modifying or deleting filesystem call is
   confined to the output directory *)
Theorem C07_confined : forall i : recv_input,
  Forall (fun x => confined (r_out i) (snd x)) (touched i).
Proof. exact touched_confined. Qed.
Print Assumptions C07_confined.

(* "paths that would escape are rejected": when the manifest is not accepted the
   transfer layer makes no filesystem call at all *)
Theorem C07_rejected_touches_nothing : forall i,
  manifest_ok (r_root i) (r_items i) = false -> touched i = app_ops true i.
Proof. intros i H. unfold touched. rewrite H. apply app_nil_r. Qed.
Print Assumptions C07_rejected_touches_nothing.

(* validateRelPath is exact: it accepts precisely the paths of at most 1024 bytes
   whose '/'-separated segments are all plain names (non-empty, not "." or "..") *)
Theorem C07_validate_exact : forall p, validate_rel_path p = true <->
  (Z.of_nat (length p) <= c_maxRelPathLength /\ Forall plain_name (split p)).
Proof. exact validate_exact. Qed.
Print Assumptions C07_validate_exact.

(* completeness (for C03): every legal relative path is accepted - any non-empty
   sequence of plain names (a name may contain "..", backslashes, any byte except
   '/'), joined by '/', of total length <= 1024 *)
Theorem C07_legal_accepted : forall segs, segs <> [] -> Forall plain_name segs ->
  Z.of_nat (length (intercalate segs)) <= c_maxRelPathLength ->
  validate_rel_path (intercalate segs) = true.
Proof. exact legal_accepted. Qed.
Print Assumptions C07_legal_accepted.

(* the decidable form used by the witnesses below and by the correspondence agrees
   with the definition *)
Theorem C07_confinedb_iff : forall out p, confinedb out p = true <-> confined out p.
Proof. intros out p. split; [apply confinedb_sound|apply confinedb_complete]. Qed.
Print Assumptions C07_confinedb_iff.

(* ---- non-vacuity ---- *)

Definition s (l : list Z) := l.
Definition o_out : list Z := [47; 115; 47; 108; 49; 47; 108; 50; 47; 111; 117; 116]. (* "/s/l1/l2/out" *)

(* an accepted manifest with a directory, a file, resume on: 18 calls, all confined *)
Example C07_accepts_benign :
  let i := RI o_out true true [114] [Item [100] [] true 0; Item [100; 47; 97; 46; 46; 98] [49; 50] false 5]
              [Begin [100; 47; 97; 46; 46; 98] 5 4] [114] true in
  manifest_ok (r_root i) (r_items i) = true /\ length (touched i) = 18%nat /\ all_confinedb o_out (touched i) = true.
Proof. vm_compute. repeat split. Qed.

Example C07_legal_names : validate_rel_path [97; 46; 46; 98] = true /\                     (* "a..b" *)
  validate_rel_path [118; 49; 46; 46; 50; 47; 120] = true /\                               (* "v1..2/x" *)
  validate_rel_path [46; 46; 46] = true /\ validate_rel_path [97; 92; 46; 46; 92; 98] = true. (* "...", "a\..\b" *)
Proof. vm_compute. repeat split. Qed.

Example C07_rejects : validate_rel_path [46; 46; 47; 120] = false /\                        (* "../x" *)
  validate_rel_path [97; 47; 46; 46; 47; 46; 46; 47; 120] = false /\                        (* "a/../../x" *)
  validate_rel_path [47; 120] = false /\ validate_rel_path [97; 47; 47; 98] = false /\       (* "/x", "a//b" *)
  validate_rel_path [97; 47; 46] = false /\ validate_rel_path [] = false /\                  (* "a/.", "" *)
  root_ok [46; 46] = false /\ root_ok [97; 47; 98] = false /\ id_ok [46; 46; 47; 120] = false.
Proof. vm_compute. repeat split. Qed.

(* ---- the validation is load-bearing: the same receiver without it (the tree
   before the fix) escapes through each of the unvalidated fields ---- *)

Definition dd_x : list Z := [46; 46; 47; 46; 46; 47; 120]. (* "../../x" *)

Theorem C07_unvalidated_dir_item_refuted : exists i,
  ~ Forall (fun x => confined (r_out i) (snd x)) (touched_unvalidated i) /\
  In (OMkdirAll, [47; 115; 47; 108; 49; 47; 120]) (touched_unvalidated i).          (* MkdirAll "/s/l1/x" *)
Proof.
  exists (RI o_out true false [] [Item dd_x [] true 0] [] [] false). split.
  - intros F. apply ops_confined_b in F. vm_compute in F. discriminate.
  - vm_compute. tauto.
Qed.

Theorem C07_unvalidated_root_refuted : exists i,
  ~ Forall (fun x => confined (r_out i) (snd x)) (touched_unvalidated i) /\
  In (OMkdirAll, [47; 115; 47; 108; 49; 47; 120]) (touched_unvalidated i).
Proof.
  exists (RI o_out false false dd_x [] [] [] false). split.
  - intros F. apply ops_confined_b in F. vm_compute in F. discriminate.
  - vm_compute. tauto.
Qed.

Theorem C07_unvalidated_item_id_refuted : exists i,
  ~ Forall (fun x => confined (r_out i) (snd x)) (touched_unvalidated i) /\
  In (ORemove, [47; 115; 47; 108; 49; 47; 108; 50; 47; 120; 46; 115; 98; 120; 109; 97; 112]) (touched_unvalidated i).
  (* os.Remove "/s/l1/l2/x.sbxmap" *)
Proof.
  exists (RI o_out true true [] [Item [102] dd_x false 5] [Begin [102] 5 4] [] false). split.
  - intros F. apply ops_confined_b in F. vm_compute in F. discriminate.
  - vm_compute. tauto.
Qed.

Theorem C07_unvalidated_offered_root_refuted : exists i,
  ~ Forall (fun x => confined (r_out i) (snd x)) (touched_unvalidated i) /\
  In (ORemoveAll, [47; 115; 47; 108; 49; 47; 120; 47] ++ c_sidecarDir) (touched_unvalidated i).
  (* RemoveAll "/s/l1/x/.thruflux_resumedata" *)
Proof.
  exists (RI o_out true false [] [] [] dd_x true). split.
  - intros F. apply ops_confined_b in F. vm_compute in F. discriminate.
  - vm_compute. tauto.
Qed.

(* ---- tie of the enumeration to the source text (Gen/C07.v is regenerated from the
   repository on every run) ---- *)
From TF Require Import Gen.C07 Proofs.Calls Proofs.CallsC07.
From Coq Require Import String.
Open Scope string_scope.

(* in RecvManifestMultiStream the manifest is validated before anything of it is
   joined to outDir or reaches the filesystem *)
Theorem C07_source_validates_first :
  before "readControlHeader" "validateManifestPaths" (main_path sk_c07_recv) = true /\
  before "validateManifestPaths" "Join" (main_path sk_c07_recv) = true /\
  before "validateManifestPaths" "MkdirAll" (main_path sk_c07_recv) = true /\
  fs_calls sk_c07_recv = ["MkdirAll"; "MkdirAll"].
Proof. exact recv_validates_manifest_first. Qed.
Print Assumptions C07_source_validates_first.

(* the files the property is anchored in contain exactly these creating / modifying /
   deleting calls into package os (modelled ones and the legacy receivers' ones) *)
Theorem C07_source_call_sites :
  os_sites_multistream =
    [("RecvManifestMultiStream", "MkdirAll"); ("RecvManifestMultiStream", "MkdirAll");
     ("RecvManifestMultiStream", "MkdirAll"); ("RecvManifestMultiStream", "OpenFile");
     ("RecvManifestMultiStream", "Remove"); ("RecvManifestMultiStream", "Remove");
     ("RecvManifestMultiStream", "Remove"); ("RecvManifestMultiStream", "Remove");
     ("RecvManifestMultiStreamLegacy", "MkdirAll"); ("RecvManifestMultiStreamLegacy", "MkdirAll");
     ("RecvManifestMultiStreamLegacy", "MkdirAll"); ("RecvManifestMultiStreamLegacy", "MkdirAll");
     ("openFile", "OpenFile")] /\
  os_sites_sidecar =
    [("Flush", "MkdirAll"); ("Flush", "Rename"); ("Flush", "WriteFile");
     ("LoadOrCreateSidecar", "Remove"); ("LoadOrCreateSidecarWithFallback", "Remove")] /\
  os_sites_manifestproto =
    [("RecvManifest", "MkdirAll"); ("RecvManifest", "MkdirAll"); ("receiveFileChunksWindowed", "OpenFile")] /\
  os_sites_fileproto = [("RecvFile", "Create")] /\
  os_sites_controlproto = [] /\
  os_sites_snapshot_receiver = [("RunSnapshotReceiver", "MkdirAll"); ("clearResumeData", "RemoveAll")].
Proof. exact os_call_sites. Qed.
Print Assumptions C07_source_call_sites.

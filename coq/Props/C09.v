(* C09 - Connection racing leaves both peers on the same single connection.
   Statements about Model/Race.v (ProbeAndDial / probeWithTransport of
   internal/ice/ice.go after the fix commits, and the accepting side's first
   Accept), for ALL candidate lists (duplicates, relay-prefixed, any number) and
   ALL event lists: every completion order of the parallel dials, every moment at
   which the caller's select arms fire, cancellation at any point, and an
   independent server-side completion order. *)
From Coq Require Import ZArith List Bool Arith.
Import ListNotations.
From TF Require Import Model.Race Proofs.Race Gen.RaceSrc Proofs.RaceSrc.
Open Scope Z_scope.

(* the dialing side gets at most one connection (the result is an option), and the
   one it gets is established, handed over exactly to the caller and not closed *)
Theorem C09_one_returned : forall turn_only cands evs s k i,
  run true (init (plan turn_only cands)) evs = Some s -> returned s = Some (k, i) ->
  gs (ph s k) i = GPush /\ conn_class s k i = 1 /\ leaked s k i = false.
Proof. intros t cs. exact (one_returned (plan t cs)). Qed.
Print Assumptions C09_one_returned.

(* ... and it does get one whenever any dial succeeds, unless the context is
   cancelled from outside: an error return means every dialled candidate failed *)
Theorem C09_returns_if_any : forall turn_only cands evs s,
  run true (init (plan turn_only cands)) evs = Some s -> ~ In Cancel evs -> call s = Ret None ->
  forall k i, (k < nph s)%nat -> In i (pc (ph s k)) -> gs (ph s k) i = GFail.
Proof. intros t cs. exact (returns_if_any (plan t cs)). Qed.
Print Assumptions C09_returns_if_any.

(* every other attempt is closed: once nothing is left to run on the dialing side,
   no established connection other than the returned one is open - including dials
   that complete after the winner was taken or after the caller gave up.
   (Before fix 7da032f this was false: C09_losers_closed_before_fix below.) *)
Theorem C09_losers_closed : forall turn_only cands evs s,
  run true (init (plan turn_only cands)) evs = Some s -> quiescent s = true ->
  forall k i, In i (pc (ph s k)) -> leaked s k i = false.
Proof. intros t cs. exact (losers_closed (plan t cs)). Qed.
Print Assumptions C09_losers_closed.

(* nothing blocks: in every reachable state that is not quiescent some step of the
   dialing side is enabled, and every step other than an outer Cancel strictly
   decreases a natural-number measure - so every schedule in which the dials
   return reaches a quiescent state *)
Theorem C09_progress : forall turn_only cands evs s,
  run true (init (plan turn_only cands)) evs = Some s -> quiescent s = false ->
  exists e, dial_side e = true /\ step true s e <> None.
Proof. intros t cs. exact (progress (plan t cs)). Qed.
Print Assumptions C09_progress.

Theorem C09_terminates : forall s e s',
  dial_side e = true -> step true s e = Some s' -> (measure s' < measure s)%nat.
Proof. exact measure_decreases. Qed.
Print Assumptions C09_terminates.

(* the source still has the shape the model (fx = true) describes: regenerated from
   internal/ice/ice.go by gotrans on every run *)
Theorem C09_source_shape :
  result_chan_cap = 1 /\ handover_is_cas = true /\ handover_sends = 1 /\ wg_add_before_wait = true /\
  alldone_rechecks_channel = true /\ ctx_arm_starts_drainer = true /\ caller_select_arms = 3.
Proof. exact source_shape. Qed.
Print Assumptions C09_source_shape.

(* candidate lists: every phase is duplicate-free and non-empty, dials only given
   candidates, is all-direct or all-relay; direct comes before relay; every given
   candidate is dialled (direct ones unless turn-only); turn-only dials no direct one *)
Theorem C09_plan_phases : forall t cs p, In p (plan t cs) ->
  NoDup p /\ p <> [] /\ (forall c, In c p -> In c cs) /\
  ((forall c, In c p -> is_turn c = false) \/ (forall c, In c p -> is_turn c = true)).
Proof. exact plan_phases. Qed.
Print Assumptions C09_plan_phases.

Theorem C09_plan_covers : forall t cs c, In c cs -> (t = false \/ is_turn c = true) ->
  exists p, In p (plan t cs) /\ In c p.
Proof. exact plan_covers. Qed.
Print Assumptions C09_plan_covers.

Theorem C09_plan_order : forall t cs, (length (plan t cs) <= 2)%nat /\
  forall p q r, plan t cs = p :: q :: r ->
    (forall c, In c p -> is_turn c = false) /\ (forall c, In c q -> is_turn c = true) /\ r = [].
Proof. exact plan_order. Qed.
Print Assumptions C09_plan_order.

Theorem C09_plan_turn_only : forall cs p c, In p (plan true cs) -> In c p -> is_turn c = true.
Proof. exact plan_turn_only. Qed.
Print Assumptions C09_plan_turn_only.

(* PARTIAL - both peers on the same connection: holds when the handshakes of only
   one connection ever complete (a single reachable address), whatever else is in
   the candidate list *)
Theorem C09_same_connection_partial : forall turn_only cands evs s c0 c c',
  run true (init (plan turn_only cands)) evs = Some s -> only_conn c0 evs ->
  returned s = Some c -> prim s = Some c' -> c = c'.
Proof. intros t cs. exact (same_connection_single (plan t cs)). Qed.
Print Assumptions C09_same_connection_partial.

(* the FULL statement (any number of reachable addresses) is false of the faithful
   model - known finding "pairing:acceptor-primary-abandoned": two addresses a=0
   and b=1 of the same listener; the server side of b completes first and the
   acceptor commits to it, the dial to a is handed over first and wins, the dial to
   b is closed as race_lost.  Both sides then authenticate different connections. *)
Example C09_same_connection_refuted :
  exists evs s c c',
    run true (init (plan false [0; 2])) evs = Some s /\ quiescent s = true /\
    returned s = Some c /\ prim s = Some c' /\ c <> c' /\
    conn_class s (fst c') (snd c') = 2.
Proof.
  exists [SrvUp 0 2; Accept; DialOk 0 0; DialOk 0 2; Deliver 0 0; Take; Deliver 0 2; SrvUp 0 0].
  eexists. exists (0%nat, 0). exists (0%nat, 2).
  vm_compute. repeat split; try reflexivity. discriminate.
Qed.

(* non-vacuity: the hypotheses of the theorems above are satisfiable by real races *)
Example C09_nonvacuous_two_winners :
  exists s, run true (init (plan false [0; 2; 2; 5])) [DialOk 0 0; DialOk 0 2; Deliver 0 2; Take; Deliver 0 0] = Some s /\
    quiescent s = true /\ returned s = Some (0%nat, 2) /\ conn_class s 0 0 = 2 /\ conn_class s 0 2 = 1.
Proof. eexists. vm_compute. repeat split; reflexivity. Qed.

Example C09_nonvacuous_quiescent :
  exists s, run true (init (plan false [0; 2; 5]))
      [DialOk 0 0; DialOk 0 2; Cancel; CtxArm; DialFail 1 5; CtxArm; Deliver 0 2; Deliver 0 0; Drain 0; Drain 1] = Some s /\
    quiescent s = true /\ returned s = None /\ conn_class s 0 0 = 2 /\ conn_class s 0 2 = 2.
Proof. eexists. vm_compute. repeat split; reflexivity. Qed.

Example C09_nonvacuous_all_fail :
  exists s, run true (init (plan false [0; 3])) [DialFail 0 0; AllDoneArm; DialFail 1 3; AllDoneArm] = Some s /\
    call s = Ret None /\ quiescent s = true.
Proof. eexists. vm_compute. repeat split; reflexivity. Qed.

Example C09_nonvacuous_single : only_conn (0%nat, 0) [DialOk 0 0; SrvUp 0 0; Deliver 0 0; Accept; Take; DialFail 0 2].
Proof. intros e c [<-|[<-|[<-|[<-|[<-|[<-|[]]]]]]]; simpl; intros H; inversion H; reflexivity. Qed.

(* HISTORY - the code before fix 7da032f (fx = false): a dial that completes after
   the winner was taken finds the buffered channel empty again, parks its connection
   there, nobody ever closes it; and when the channel and allDone are ready
   together the select may give up with a connection in the channel.  Replayed on
   the real code by the harness corpus (corpus:late-winner, corpus:cancelled-winner,
   corpus:alldone-race). *)
Example C09_losers_closed_before_fix :
  exists evs s, run false (init (plan false [0; 2])) evs = Some s /\ quiescent s = true /\
    returned s = Some (0%nat, 0) /\ leaked s 0 2 = true.
Proof. exists [DialOk 0 0; DialOk 0 2; Deliver 0 0; Take; Deliver 0 2]. eexists. vm_compute. repeat split; reflexivity. Qed.

Example C09_returns_if_any_before_fix :
  exists evs s, run false (init (plan false [0])) evs = Some s /\ ~ In Cancel evs /\
    call s = Ret None /\ leaked s 0 0 = true.
Proof.
  exists [DialOk 0 0; Deliver 0 0; AllDoneArm]. eexists. split; [vm_compute; reflexivity|].
  split; [|split; reflexivity]. intros [H|[H|[H|[]]]]; discriminate.
Qed.

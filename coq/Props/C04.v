(* C04 - Resuming after an interruption at any point ends in the identical tree.
   The safety half is a composition:
     (a) whatever a kill leaves, and whatever chain of interrupted runs follows,
         the metadata the next run loads marks only chunks that are in the file
         (Model/Crash.v, restart included);
     (b) the sender skips exactly chunks the loaded plan marks present below the
         verification point, hands every other index out once, and ends the file
         only after all of that (Model/Dispatch.v, C17);
     (c) chunk offsets and lengths tile the file (Gen/Geometry.v, C19).
   The liveness half ("the second run succeeds") is the subject of C03 and is
   exercised by the crash-point harness (every snapshot is resumed from). *)
From Coq Require Import List Arith Bool Permutation.
Import ListNotations.
From TF Require Import Model.Crash Proofs.Crash.
From TF Require Model.Dispatch Proofs.Dispatch.
From Coq Require ZArith.
From TF Require Lib.GoInt Lib.Bytes Proofs.Geometry Model.CRC Model.Sidecar Model.Resume Proofs.ResumeFile Proofs.ResumeChain.

(* (a) along any chain of runs and kills - Restart events may occur anywhere,
   any number of times - every bitmap a run starts from is backed by the file *)
Theorem C04_chain_honest : forall evs s s', AllFI s -> run s evs = Some s' -> AllFI s'.
Proof. exact run_fi. Qed.
Print Assumptions C04_chain_honest.

Theorem C04_restart_loads_disk : forall s f loads s' x x',
  step s (Restart f loads) = Some s' -> nth_error s f = Some x -> nth_error s' f = Some x' ->
  written x' = written x /\
  mem x' = match disk x with
           | Some bm => if loads then bm else repeat false (length (written x))
           | None => repeat false (length (written x))
           end.
Proof.
  intros s f loads s' x x' S E E'. cbn [step] in S. apply upd_spec in S.
  destruct S as (z & y & Ez & G & Ey & _). rewrite E in Ez. injection Ez as <-.
  rewrite E' in Ey. injection Ey as <-. cbv beta in G. injection G as <-. split; reflexivity.
Qed.
Print Assumptions C04_restart_loads_disk.

(* (b) what the resumed sender does with the advertised bitmap: every chunk
   index is decided exactly once; it is skipped only if the plan marks it present
   below the verification point; the file ends only when all other chunks went out *)
Theorem C04_sender_respects_plan : forall n evs,
  Proofs.Dispatch.wf_run (Model.Dispatch.init n) Proofs.Dispatch.g0 evs ->
  let '(s, g) := Proofs.Dispatch.grun (Model.Dispatch.init n) Proofs.Dispatch.g0 evs in
  Proofs.Dispatch.decided g = seq 0 (Model.Dispatch.nextChunk s) /\ Model.Dispatch.nextChunk s <= n /\ Model.Dispatch.total s = n /\
  Permutation (Proofs.Dispatch.sentl g ++ Proofs.Dispatch.skippedl g) (seq 0 (Model.Dispatch.nextChunk s)) /\
  NoDup (Proofs.Dispatch.sentl g ++ Proofs.Dispatch.skippedl g) /\
  (forall i, In i (Proofs.Dispatch.skippedl g) ->
     exists bm force, Model.Dispatch.plan s = Some (bm, force) /\ nth i bm false = true /\ i < force) /\
  (forall i, In i (Proofs.Dispatch.sent_known g) -> Model.Dispatch.plan_skips (Model.Dispatch.plan s) i = false).
Proof. exact Proofs.Dispatch.main_pass_once. Qed.
Print Assumptions C04_sender_respects_plan.

(* ------------------------------------------------------------------------- *)
(* The three parts composed at file level, bytes included (Model/Resume.v: the
   receiver's handling of FileBegin with its stale-data test, Truncate and
   load-or-create, the FileResumeInfo it sends, the sender's applyResumeInfo and
   verification, its main pass, the positional writes of every chunk sent):
   if the metadata found on disk is honest - which (a) guarantees after any chain
   of interrupted runs - the second run leaves exactly the source's bytes, for
   every file size, chunk size, metadata content, verification tail and hash
   function.  ([geom_dom] is the domain of C19; [o_file] is the data file once
   every frame the sender emitted has been written.) *)
Module File.
Import ZArith TF.Lib.GoInt TF.Lib.Bytes TF.Proofs.Geometry TF.Model.CRC TF.Model.Sidecar TF.Model.Resume TF.Proofs.ResumeFile.
Local Open Scope Z_scope.

Theorem C04_resumed_file_identical : forall h rq d src tail vnone br o,
  geom_dom (rq_size rq) (rq_cs rq) -> zlen src = rq_size rq ->
  recv_begin h rq d = Ret br ->
  resume_outcome h rq d src tail vnone = Ret o ->
  (forall i, 0 <= i < br_total br -> bit_get (sc_bitmap (br_sc br)) (br_total br) i = true ->
     chunk_at (rq_cs rq) (br_file br) i = chunk_at (rq_cs rq) src i) ->
  o_file o = src.
Proof. exact resume_identical_honest. Qed.
Print Assumptions C04_resumed_file_identical.

(* no usable metadata (first run killed before its first flush, metadata
   unreadable, data file missing or of another length): everything is sent *)
Theorem C04_unloaded_file_identical : forall h rq d src tail vnone br o,
  geom_dom (rq_size rq) (rq_cs rq) -> zlen src = rq_size rq ->
  recv_begin h rq d = Ret br -> br_loaded br = false ->
  resume_outcome h rq d src tail vnone = Ret o ->
  o_file o = src.
Proof. exact resume_identical_unloaded. Qed.
Print Assumptions C04_unloaded_file_identical.

(* the whole property in one statement: ANY history of earlier runs - chunk
   writes, marks and metadata flushes in any interleaving, the process killed at
   any instant (inside a flush too), any number of restarts - followed by a
   resumed run of the file ends with the source's bytes.  [refines] ties the
   crash model's "chunk i is in the file" to the bytes and the loaded bitmap to
   the sidecar the crash model has on disk. *)
Theorem C04_chain_then_resume_identical :
  forall ns evs s' fi x h rq d src tail vnone br o,
    TF.Model.Crash.run (map TF.Model.Crash.fresh ns) evs = Some s' -> nth_error s' fi = Some x ->
    geom_dom (rq_size rq) (rq_cs rq) -> zlen src = rq_size rq ->
    recv_begin h rq d = Ret br ->
    resume_outcome h rq d src tail vnone = Ret o ->
    TF.Proofs.ResumeChain.refines (rq_cs rq) x (br_file br) src (sc_bitmap (br_sc br)) (br_total br) ->
    o_file o = src.
Proof. exact TF.Proofs.ResumeChain.chain_then_resume_identical. Qed.
Print Assumptions C04_chain_then_resume_identical.

(* non-vacuity of the premises: a history with two marked chunks, a complete
   flush, a third chunk written but not yet recorded, a torn flush and the kill;
   the disk it stands for; the resumed run re-sends the verification tail and the
   missing chunk and ends with the source *)
Example C04_chain_example :
  exists s' x br o,
    TF.Model.Crash.run (map TF.Model.Crash.fresh [3%nat]) TF.Proofs.ResumeChain.ex_hist = Some s' /\ nth_error s' 0 = Some x /\
    TF.Model.Crash.disk x = Some [true; true; false] /\
    recv_begin crc32c TF.Proofs.ResumeChain.ex_rq TF.Proofs.ResumeChain.ex_disk = Ret br /\
    resume_outcome crc32c TF.Proofs.ResumeChain.ex_rq TF.Proofs.ResumeChain.ex_disk TF.Proofs.ResumeChain.ex_src 1 false = Ret o /\
    TF.Proofs.ResumeChain.refines 2 x (br_file br) TF.Proofs.ResumeChain.ex_src (sc_bitmap (br_sc br)) (br_total br) /\
    o_sent o = [1; 2] /\ o_file o = TF.Proofs.ResumeChain.ex_src.
Proof. exact TF.Proofs.ResumeChain.chain_example. Qed.

(* non-vacuity: 5 bytes, chunk size 2, chunks 0 and 1 recorded and intact, chunk
   2 missing on disk (zeros after Truncate): the resumed run sends chunks 1 (the
   verification tail) and 2 and ends with the source *)
Example C04_file_example :
  exists o, resume_outcome crc32c (mkRq [97] 5 2 1)
              (mkDisk (Some [1; 2; 3; 4; 0]) (Some (serialise (mkSc 2 5 3 [97] [3]))) None) [1; 2; 3; 4; 5] 1 false = Ret o /\
            o_loaded o = true /\ o_sent o = [1; 2] /\ o_file o = [1; 2; 3; 4; 5].
Proof. eexists. vm_compute. repeat split; reflexivity. Qed.
End File.

(* C11 - The signaling hub survives any interleaving of join, leave and send.
   Statements about Model/Hub.v for ALL operation histories (= all interleavings
   of the lock-delimited phases), plus the lock discipline of hub.go itself. *)
From Coq Require Import List Arith Bool.
Import ListNotations.
From TF Require Import Model.Hub Proofs.Hub Proofs.HubLeak Gen.HubLocks Proofs.HubLocks.

(* no interleaving ever sends on a closed channel: no handler panics *)
Theorem C11_no_panic : forall cap ops, npanic (fst (run (init cap) ops)) = 0.
Proof. exact no_panic. Qed.
Print Assumptions C11_no_panic.

(* the structural reason, checked on the code generated from hub.go: sends under
   the lock, map writes under the write lock, closes only after the unlink *)
Theorem C11_lock_discipline : forallb ok_skeleton hub_all = true.
Proof. exact hub_lock_discipline. Qed.
Print Assumptions C11_lock_discipline.

(* the model's atomicity granularity, checked on the same generated skeletons:
   Add / List / SendTo / Broadcast / BroadcastExcept are one critical section
   each (one model step), CloseSession one plus lock-free closes, remove two with
   the lock-free close in between; all of Add's map writes and its close of a
   replaced connection happen inside its single write-locked section *)
Theorem C11_critical_sections :
  acquisitions hub_Add = 1 /\ acquisitions hub_Add_lit1 = 0 /\ acquisitions hub_Add_lit2 = 2 /\
  acquisitions hub_CloseSession = 1 /\ acquisitions hub_List = 1 /\
  acquisitions hub_Broadcast = 1 /\ acquisitions hub_BroadcastExcept = 1 /\ acquisitions hub_SendTo = 1.
Proof. exact hub_critical_sections. Qed.
Print Assumptions C11_critical_sections.

Theorem C11_add_atomic :
  forallb (fun e => match e with (_, LWrite) => true | _ => false end) hub_Add = true.
Proof. exact hub_add_all_locked. Qed.
Print Assumptions C11_add_atomic.

(* whatever is in an attached session map is open and belongs to that session *)
Theorem C11_attached_open : forall cap ops x g m,
  let h := fst (run (init cap) ops) in
  In x (conns h) -> cgen x = Some g -> In m (maps h) -> mgen m = g -> matt m = true ->
  cclosed x = false /\ msid m = csid x.
Proof. exact attached_open_and_local. Qed.
Print Assumptions C11_attached_open.

(* a routable connection stays routable across the garbage collection at the end
   of anybody's remove (the stale-map test used to break exactly this), and an
   addressed send to a routable connection is reported as delivered *)
Theorem C11_gc_keeps_routable : forall h c c', HI h -> routable h c -> routable (fst (step h (Rm3 c'))) c.
Proof. exact rm3_keeps_routable. Qed.
Print Assumptions C11_gc_keeps_routable.

Theorem C11_routable_sendto : forall h c x m, HI h -> routable h c -> In x (conns h) -> cid x = c ->
  snd (step h (SendTo (csid x) (cpeer x) m)) = OBool true.
Proof. exact sendto_routable. Qed.
Print Assumptions C11_routable_sendto.

(* a peer that has left (its remove is past the unlink) is listed nowhere *)
Theorem C11_left_not_listed : forall h c g, HI h -> (exists r, In r (rms h) /\ rcid r = c) -> ~ In c (members g (conns h)).
Proof. exact left_not_listed. Qed.
Print Assumptions C11_left_not_listed.

(* the invariant these rest on holds in every reachable state *)
Theorem C11_invariant : forall cap ops, HI (fst (run (init cap) ops)).
Proof. intros cap ops. apply hi_run. apply hi_init. Qed.
Print Assumptions C11_invariant.

(* "no routing state leaks once a session is empty", for every history of the hub:
   (i) in a reachable state with no remove() pending, no attached session map is empty;
   (ii) an empty attached map is collected by the last phase of the pending remove();
   (iii) every entry of the routing index names an open connection that is an entry of its
         session's attached map, so (iv) a session whose map is gone has no index entry *)
Theorem C11_no_empty_session_when_quiescent : forall cap ops sid g,
  let h := fst (run (init cap) ops) in
  rms h = [] -> att_gen sid (maps h) = Some g -> members g (conns h) <> [].
Proof. exact no_empty_session_when_quiescent. Qed.
Print Assumptions C11_no_empty_session_when_quiescent.

Theorem C11_empty_session_is_collected : forall h c x g,
  HI h -> find_conn c (conns h) = Some x -> (exists r, find_rm c (rms h) = Some r /\ rphase r = 2) ->
  att_gen (csid x) (maps h) = Some g -> members g (conns h) = [] ->
  att_gen (csid x) (maps (fst (step h (Rm3 c)))) = None.
Proof. exact empty_session_is_collected. Qed.
Print Assumptions C11_empty_session_is_collected.

Theorem C11_index_entries_live : forall cap ops s p c,
  let h := fst (run (init cap) ops) in
  In (s, p, c) (bypeer h) ->
  exists x g, In x (conns h) /\ cid x = c /\ csid x = s /\ cpeer x = p /\ cgen x = Some g /\
              att_gen s (maps h) = Some g /\ cclosed x = false.
Proof. exact index_entries_live. Qed.
Print Assumptions C11_index_entries_live.

Theorem C11_no_index_entry_without_session : forall cap ops s,
  let h := fst (run (init cap) ops) in
  att_gen s (maps h) = None -> forall p c, ~ In (s, p, c) (bypeer h).
Proof. exact no_index_entry_without_session. Qed.
Print Assumptions C11_no_index_entry_without_session.

(* non-vacuity: a history after which a session is attached with an entry and nothing is
   pending; and one in which the last peer's remove() has run: map and index are gone *)
Example C11_no_leak_example :
  let h1 := fst (run (init 4) [Add 0 0 1; Add 0 1 2; Rm1 1; Rm2 1; Rm3 1]) in
  let h2 := fst (run (init 4) [Add 0 0 1; Add 0 1 2; Rm1 1; Rm2 1; Rm3 1; Rm1 2; Rm2 2; Rm3 2]) in
  (rms h1 = [] /\ att_gen 0 (maps h1) = Some 0 /\ members 0 (conns h1) = [2] /\ bypeer h1 = [(0, 1, 2)]) /\
  (rms h2 = [] /\ att_gen 0 (maps h2) = None /\ bypeer h2 = []).
Proof. vm_compute. repeat split. Qed.

(* non-vacuity / regression: the two schedules that broke the unrepaired hub *)
Example C11_broadcast_vs_remove_now_safe :
  let '(h, outs) := run (init 256) [Add 0 0 1; Add 0 1 2; Rm1 2; Rm2 2; Bcast 0 None 7; Rm3 2] in
  npanic h = 0 /\ outs = [OUnit; OUnit; OBool true; OUnit; OList [1]; OUnit].
Proof. vm_compute. split; reflexivity. Qed.

Example C11_stale_gc_now_safe :
  let '(h, outs) := run (init 256) [Add 0 0 1; Add 0 1 2; Rm1 1; Rm1 2; Rm2 1; Rm3 1; Add 0 2 3; Rm2 2; Rm3 2; SendTo 0 2 9] in
  nth 9 outs OUnit = OBool true.
Proof. vm_compute. reflexivity. Qed.

(* C08 - only holders of the join code on the same TLS session pass transport
   authentication; nothing is transferred before it has succeeded.

   Symbolic (Dolev-Yao) theorems are over ALL valid traces of any number of
   honest parties (each = one call of authenticateTransport with a role, a join
   code and a TLS session) and an attacker who holds its own codes and EVERY
   exporter value, sees every message and delivers whatever it can derive
   (rogue dialer, rogue listener, relay between any number of sessions, replay,
   reflection, role swap are all instances).  HMAC is a free constructor there;
   the concrete (byte-level) theorems take HMAC as a function with two named
   hypotheses.  Join codes are identified with their HMAC key block; where that
   differs from the text ("for all pairs of join codes") see
   C08_different_code_refuted / C08_canonical_codes_partial.

   Property theorems only: `exact` + Print Assumptions. *)
From Coq Require Import String ZArith List Bool Arith.
From TF Require Import Model.Auth Model.AuthOrder Proofs.Auth Proofs.AuthOrder Gen.AuthOrder Proofs.AuthOrderGen.
Import ListNotations.
Open Scope Z_scope.

(* ---- completeness ---- *)

(* same code, one session, unmodified messages: the honest run is a valid trace in which both ends accept *)
Theorem C08_complete : forall (role_of : nat -> Z) (code_of sess_of : nat -> nat) (adv_code : nat -> Prop) ps pr n1 n2,
  role_of ps = role_sender -> role_of pr = role_receiver ->
  code_of ps = code_of pr -> sess_of ps = sess_of pr ->
  valid role_of code_of sess_of adv_code
    [Accept ps (msg_of role_of code_of sess_of pr n2); Send pr n2;
     Accept pr (msg_of role_of code_of sess_of ps n1); Send ps n1].
Proof. exact honest_run_valid. Qed.
Print Assumptions C08_complete.

(* the same at byte level (also with trailing bytes after either message) *)
Theorem C08_complete_bytes : forall (hm : bytes -> bytes -> bytes),
  (forall k d, length (hm k d) = mac_size) ->
  forall code ekm nS nR e1 e2, length nS = nonce_size -> length nR = nonce_size ->
  run hm code code ekm ekm nS nR NoFault NoFault = (true, true) /\
  run hm code code ekm ekm nS nR (Extend e1) (Extend e2) = (true, true).
Proof. exact run_complete. Qed.
Print Assumptions C08_complete_bytes.

(* ---- accepted by both sides IFF same code and one TLS session ---- *)

Theorem C08_both_accept_iff : forall (role_of : nat -> Z) (code_of sess_of : nat -> nat) (adv_code : nat -> Prop) ps pr,
  role_of ps = role_sender -> role_of pr = role_receiver ->
  ((exists tr n1 n2, valid role_of code_of sess_of adv_code tr /\
      In (Accept pr (msg_of role_of code_of sess_of ps n1)) tr /\
      In (Accept ps (msg_of role_of code_of sess_of pr n2)) tr) <->
   (code_of ps = code_of pr /\ sess_of ps = sess_of pr)).
Proof. exact both_accept_iff. Qed.
Print Assumptions C08_both_accept_iff.

(* ---- soundness against the attacker ---- *)

(* whatever an honest side accepts was written, unaltered, by an honest party
   of the OPPOSITE role holding the SAME code on the SAME TLS session, earlier
   in the trace - unless the attacker holds that code *)
Theorem C08_sound : forall (role_of : nat -> Z) (code_of sess_of : nat -> nat) (adv_code : nat -> Prop) tr1 tr2 p m,
  valid role_of code_of sess_of adv_code (tr1 ++ Accept p m :: tr2)%list -> ~ adv_code (code_of p) ->
  exists p' n, In (Send p' n) tr2 /\ role_of p' = peer_role (role_of p) /\
               code_of p' = code_of p /\ sess_of p' = sess_of p /\ m = msg_of role_of code_of sess_of p' n.
Proof. exact sound_accept. Qed.
Print Assumptions C08_sound.

(* sender side, full chain: the receiver whose proof it accepts has itself
   accepted the proof of an honest sender on that session with that code *)
Theorem C08_sound_sender : forall (role_of : nat -> Z) (code_of sess_of : nat -> nat) (adv_code : nat -> Prop) tr1 tr2 p m,
  valid role_of code_of sess_of adv_code (tr1 ++ Accept p m :: tr2)%list -> role_of p = role_sender -> ~ adv_code (code_of p) ->
  exists pr nr, In (Send pr nr) tr2 /\ role_of pr = role_receiver /\ code_of pr = code_of p /\ sess_of pr = sess_of p /\
    m = msg_of role_of code_of sess_of pr nr /\
    exists m1 ps ns, In (Accept pr m1) tr2 /\ In (Send ps ns) tr2 /\ role_of ps = role_sender /\
      code_of ps = code_of p /\ sess_of ps = sess_of p /\ m1 = msg_of role_of code_of sess_of ps ns.
Proof. exact sound_sender_chain. Qed.
Print Assumptions C08_sound_sender.

Theorem C08_wrong_code : forall (role_of : nat -> Z) (code_of sess_of : nat -> nat) (adv_code : nat -> Prop) tr1 tr2 p m,
  valid role_of code_of sess_of adv_code (tr1 ++ Accept p m :: tr2)%list -> ~ adv_code (code_of p) ->
  (forall q, role_of q = peer_role (role_of p) -> sess_of q = sess_of p -> code_of q <> code_of p) -> False.
Proof. exact wrong_code_rejected. Qed.
Print Assumptions C08_wrong_code.

(* man in the middle / rogue endpoint: no honest opposite-role party on p's session *)
Theorem C08_relay : forall (role_of : nat -> Z) (code_of sess_of : nat -> nat) (adv_code : nat -> Prop) tr1 tr2 p m,
  valid role_of code_of sess_of adv_code (tr1 ++ Accept p m :: tr2)%list -> ~ adv_code (code_of p) ->
  (forall q, role_of q = peer_role (role_of p) -> sess_of q <> sess_of p) -> False.
Proof. exact relay_rejected. Qed.
Print Assumptions C08_relay.

(* reflection and same-role proofs are never accepted, whoever knows what *)
Theorem C08_reflection : forall (role_of : nat -> Z) (code_of sess_of : nat -> nat) (adv_code : nat -> Prop) tr1 tr2 p m q n,
  valid role_of code_of sess_of adv_code (tr1 ++ Accept p m :: tr2)%list ->
  role_of p = role_sender \/ role_of p = role_receiver ->
  role_of q = role_of p -> m <> msg_of role_of code_of sess_of q n.
Proof. exact accept_not_same_role. Qed.
Print Assumptions C08_reflection.

(* role swap: version, role byte and nonce of an accepted message are the ones inside its MAC *)
Theorem C08_role_swap : forall (role_of : nat -> Z) (code_of sess_of : nat -> nat) p v r nn k v' r' nn',
  accepts role_of code_of sess_of p (TMsg v r nn (THmac k (TData v' r' nn'))) ->
  v = auth_version /\ v' = auth_version /\ r = peer_role (role_of p) /\ r' = r /\ nn' = nn /\ k = key_of code_of sess_of p.
Proof. exact accept_binds_fields. Qed.
Print Assumptions C08_role_swap.

(* the exception is necessary: an attacker who holds the code does pass *)
Theorem C08_insider_passes : forall (role_of : nat -> Z) (code_of sess_of : nat -> nat) (adv_code : nat -> Prop) pr c,
  role_of pr = role_receiver -> adv_code (code_of pr) -> c = code_of pr ->
  valid role_of code_of sess_of adv_code [Accept pr (msg_term (key_of code_of sess_of pr) role_sender (TJunk 0))].
Proof. exact insider_passes. Qed.
Print Assumptions C08_insider_passes.

(* ---- any alteration of a message (byte level) ---- *)

(* every single-bit flip of message 1: both ends fail;  of message 2: the sender fails *)
Theorem C08_alteration_flip : forall (hm : bytes -> bytes -> bytes),
  (forall k d, length (hm k d) = mac_size) ->
  (forall k d1 d2, length d1 = 18%nat -> length d2 = 18%nat -> hm k d1 = hm k d2 -> d1 = d2) ->
  forall code ekm nS nR i, length nS = nonce_size -> length nR = nonce_size -> (i < 8 * msg_size)%nat ->
  (forall f2, run hm code code ekm ekm nS nR (Flip i) f2 = (false, false)) /\
  run hm code code ekm ekm nS nR NoFault (Flip i) = (false, true).
Proof. exact run_flip_both. Qed.
Print Assumptions C08_alteration_flip.

(* every truncation *)
Theorem C08_alteration_trunc : forall (hm : bytes -> bytes -> bytes),
  (forall k d, length (hm k d) = mac_size) ->
  forall code ekm nS nR n, length nS = nonce_size -> (n < msg_size)%nat ->
  (forall codeR ekmR f2, run hm code codeR ekm ekmR nS nR (Trunc n) f2 = (false, false)) /\
  run hm code code ekm ekm nS nR NoFault (Trunc n) = (false, true).
Proof. exact run_trunc_both. Qed.
Print Assumptions C08_alteration_trunc.

(* any one byte replaced by a different one *)
Theorem C08_alteration_byte : forall (hm : bytes -> bytes -> bytes),
  (forall k d, length (hm k d) = mac_size) ->
  (forall k d1 d2, length d1 = 18%nat -> length d2 = 18%nat -> hm k d1 = hm k d2 -> d1 = d2) ->
  forall key role n0 (pre : bytes) (b b' : Z) (post : bytes), length n0 = nonce_size -> b' <> b ->
  encode_msg (peer_role role) n0 (auth_mac hm key (peer_role role) n0) = (pre ++ b :: post)%list ->
  verify hm key role (pre ++ b' :: post)%list = false.
Proof. exact verify_one_byte_changed. Qed.
Print Assumptions C08_alteration_byte.

(* a side never accepts its own message *)
Theorem C08_reflection_bytes : forall (hm : bytes -> bytes -> bytes),
  (forall k d, length (hm k d) = mac_size) ->
  forall code ekm role nonce, length nonce = nonce_size -> (role = role_sender \/ role = role_receiver) ->
  verify hm (derive_key hm code ekm) role (emit hm code ekm role nonce) = false.
Proof. exact verify_own_message. Qed.
Print Assumptions C08_reflection_bytes.

(* ---- join codes vs HMAC keys ---- *)

(* REFUTED as written ("for all pairs of join codes"): two ends holding the
   DIFFERENT codes c and c ++ [0] on one session accept each other, because
   HMAC pads its key with zero bytes (RFC 2104) *)
Theorem C08_different_code_refuted : forall (hm : bytes -> bytes -> bytes) (hash : bytes -> bytes),
  (forall k d, length (hm k d) = mac_size) ->
  (forall k1 k2 d, key_block hash k1 = key_block hash k2 -> hm k1 d = hm k2 d) ->
  forall (c : bytes) ekm nS nR, (length c < hmac_block)%nat -> length nS = nonce_size -> length nR = nonce_size ->
  c <> (c ++ [0])%list /\ run hm c (c ++ [0])%list ekm ekm nS nR NoFault NoFault = (true, true).
Proof. exact alias_accepts. Qed.
Print Assumptions C08_different_code_refuted.

(* PARTIAL: on canonical codes (at most 64 bytes, no zero byte - every code the
   server issues and every code that can be typed on a command line) different
   codes are different HMAC keys, which is the identification the symbolic
   theorems use *)
Theorem C08_canonical_codes_partial : forall (hash : bytes -> bytes) c1 c2,
  canonical_code c1 -> canonical_code c2 -> key_block hash c1 = key_block hash c2 -> c1 = c2.
Proof. exact key_block_inj_canon. Qed.
Print Assumptions C08_canonical_codes_partial.

(* ---- nothing is transferred before authentication (call order, generated skeletons) ---- *)

(* on every path through the four functions (any branches, any number of loop
   iterations, any result of the calls that are not modelled, any outcome of
   each authentication) no transfer call - SendManifestMultiStream,
   RecvManifestMultiStream, NewMultiConn, sendDumbData(Multi),
   recvDumbDiscard(Multi), and for the two helpers the returned connection list -
   sees a connection on which authenticateTransport (own code, own role) has
   not returned nil before *)
Theorem C08_order : forall s o s',
  (AuthOrder.exec sender_code sender_role sk_sender_main s o s' -> o <> OViol) /\
  (AuthOrder.exec sender_code sender_role sk_sender_extra s o s' -> o <> OViol) /\
  (AuthOrder.exec receiver_code receiver_role sk_receiver_main s o s' -> o <> OViol) /\
  (AuthOrder.exec receiver_code receiver_role sk_receiver_extra s o s' -> o <> OViol).
Proof. exact order_all. Qed.
Print Assumptions C08_order.

(* all transfer / authentication call sites of the two files are inside those
   skeletons, the helpers rely on no further helper, and no other call is
   handed a tracked connection *)
Theorem C08_order_coverage :
  (count_sinks sk_sender_main + count_sinks sk_sender_extra = sender_file_sink_sites /\
   count_auth sk_sender_main + count_auth sk_sender_extra = sender_file_auth_sites /\
   count_sinks sk_receiver_main + count_sinks sk_receiver_extra = receiver_file_sink_sites /\
   count_auth sk_receiver_main + count_auth sk_receiver_extra = receiver_file_auth_sites)%nat /\
  (src_free sk_sender_extra = true /\ src_free sk_receiver_extra = true) /\
  (only_known_uses sk_sender_main = true /\ only_known_uses sk_sender_extra = true /\
   only_known_uses sk_receiver_main = true /\ only_known_uses sk_receiver_extra = true).
Proof. exact order_coverage. Qed.
Print Assumptions C08_order_coverage.

(* ---- non-vacuity ---- *)

(* the byte-level hypotheses are jointly satisfiable *)
Example C08_hyps_satisfiable :
  (forall k d, length (toy_hm k d) = mac_size) /\
  (forall k d1 d2, length d1 = 18%nat -> length d2 = 18%nat -> toy_hm k d1 = toy_hm k d2 -> d1 = d2) /\
  (forall hash k1 k2 d, key_block hash k1 = key_block hash k2 -> toy_hm k1 d = toy_hm k2 d).
Proof. exact hyps_satisfiable. Qed.

(* the path semantics has violating paths and the checker refuses such skeletons *)
Example C08_order_nonvacuous :
  (exists s', AuthOrder.exec "s.joinCode"%string "authRoleSender"%string bad_transfer_first st0 OViol s' /\
              check "s.joinCode"%string "authRoleSender"%string bad_transfer_first = false) /\
  check "r.joinCode"%string "authRoleReceive"%string bad_extra_unauthenticated = false /\
  check "r.joinCode"%string "authRoleReceive"%string good_extra = true /\
  check "r.joinCode"%string "authRoleSender"%string good_extra = false.
Proof. exact order_nonvacuous. Qed.

(* the skeletons are not empty programs *)
Example C08_skeletons_nontrivial :
  (1 <= count_sinks sk_sender_main /\ 1 <= count_auth sk_sender_main /\ 1 <= count_auth sk_sender_extra /\
   1 <= count_sinks sk_receiver_main /\ 1 <= count_auth sk_receiver_main /\ 1 <= count_auth sk_receiver_extra)%nat.
Proof. exact skeletons_nontrivial. Qed.

(* C10 - Signaling messages stay inside their session and carry the true sender.
   Statements about Model/Hub.v + Model/Serv.v for ALL histories. *)
From Coq Require Import List Arith Bool.
Import ListNotations.
From TF Require Import Model.Hub Model.Serv Proofs.Hub Proofs.Serv.

(* isolation: an addressed send or a broadcast in session sid offers the message
   only to connections of session sid (all of them open) *)
Theorem C10_isolation : forall h o c, HI h -> In c (targets h o) ->
  exists x sid, In x (conns h) /\ cid x = c /\ op_session o = Some sid /\ csid x = sid /\ cclosed x = false.
Proof. exact targets_in_session. Qed.
Print Assumptions C10_isolation.

Theorem C10_targets_are_all : forall h o m sid,
  (exists p, o = SendTo sid p m) \/ (exists e, o = Bcast sid e m) ->
  fst (step h o) = fold_left (fun h' c => enqueue c m h') (targets h o) h.
Proof. exact step_is_enqueue_targets. Qed.
Print Assumptions C10_targets_are_all.

(* unaddressed: everybody in the session except the author's registered connection *)
Theorem C10_broadcast : forall h sid p m g c,
  att_gen sid (maps h) = Some g -> bp_find sid p (bypeer h) = Some c ->
  targets h (Bcast sid (Some p) m) = remove_nat c (members g (conns h)).
Proof. exact bcast_except_targets. Qed.
Print Assumptions C10_broadcast.

(* addressed: a registered, attached addressee gets it (SendTo reports true) ... *)
Theorem C10_addressed : forall h c x m, HI h -> routable h c -> In x (conns h) -> cid x = c ->
  snd (step h (SendTo (csid x) (cpeer x) m)) = OBool true.
Proof. exact sendto_routable. Qed.
Print Assumptions C10_addressed.

(* ... an unknown one changes nothing in the hub, and the error goes to the author only *)
Theorem C10_unknown : forall s c a claim cs p m,
  find_conn c (conns (hubst s)) = Some a ->
  snd (step (hubst s) (SendTo (csid a) p (nextm s))) = OBool false ->
  sstep s (Frame c (FEnv claim cs (Some p) m)) =
  drain (direct (fst (fresh_msg s (MFwd (cpeer a) (Some p) (match cs with Some x => x | None => csid a end) m))) c (MErr (cpeer a))).
Proof. exact unknown_addressee_error_to_author. Qed.
Print Assumptions C10_unknown.

(* the `from` a recipient sees is the identity the author connected with, whatever the author wrote *)
Theorem C10_from : forall s c claim1 claim2 cs to m,
  sstep s (Frame c (FEnv claim1 cs to m)) = sstep s (Frame c (FEnv claim2 cs to m)).
Proof. exact from_claim_ignored. Qed.
Print Assumptions C10_from.

(* never duplicated or reordered: each connection's writer takes exactly what
   was accepted for it, in acceptance order *)
Theorem C10_fifo_nodup : forall cap ops x, In x (conns (fst (run (init cap) ops))) -> cacc x = cdeliv x ++ cq x.
Proof. exact fifo. Qed.
Print Assumptions C10_fifo_nodup.

(* not lost while the recipient keeps reading: an open connection refuses a
   message only when its buffer (cap = 256 in hub.go) is full *)
Theorem C10_loss_only_when_full : forall h c m x, In x (conns h) -> NoDup (map cid (conns h)) -> cid x = c ->
  cclosed x = false -> length (cq x) < cap h ->
  exists y, find_conn c (conns (enqueue c m h)) = Some y /\ cacc y = cacc x ++ [m].
Proof. exact enqueue_accepts_unless_full. Qed.
Print Assumptions C10_loss_only_when_full.

(* the server layer keeps the hub invariant, so no handler panics *)
Theorem C10_server_no_panic : forall ops s, HI (hubst s) -> npanic (hubst (srun s ops)) = 0.
Proof. exact serv_no_panic. Qed.
Print Assumptions C10_server_no_panic.

(* non-vacuity: a two-session script with a spoofed sender and a foreign session id *)
Example C10_example :
  let s := srun (sinit 256)
    [Connect 0 0 1 1; Connect 0 1 2 2; Connect 1 0 1 3; Connect 1 1 2 4;
     Frame 2 (FEnv 0 (Some 1) None 7); Frame 2 (FEnv 3 None (Some 0) 8); Frame 2 (FEnv 0 None (Some 9) 9)] in
  lookup 1 (logs s) = Some [MList [(0, 1)]; MJoined 0 1; MJoined 1 2; MFwd 1 None 1 7; MFwd 1 (Some 0) 0 8] /\
  lookup 3 (logs s) = Some [MList [(0, 1)]; MJoined 0 1; MJoined 1 2] /\
  lookup 2 (logs s) = Some [MList [(0, 1); (1, 2)]; MJoined 1 2; MErr 1].
Proof. vm_compute. repeat split. Qed.

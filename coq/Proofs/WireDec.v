(* C15: proofs about Model/WireDec.v - the allocation requests of every decoder
   stay in proportion to the bytes received, for ALL byte strings; the
   instrumented decoders return exactly what the decoders of Model/Wire.v
   return; the doubling loop never runs out of fuel. *)
From Coq Require Import ZArith List Bool Lia.
From TF Require Import Lib.GoInt Lib.Bytes Gen.Consts Gen.C15 Model.Path Model.Wire Model.WireDec Proofs.Wire.
Import ListNotations.
Open Scope Z_scope.

Lemma zsum_cons a l : zsum (a :: l) = a + zsum l.
Proof. reflexivity. Qed.
Lemma zsum_nil : zsum [] = 0.
Proof. reflexivity. Qed.
Lemma zsum_app a b : zsum (a ++ b) = zsum a + zsum b.
Proof. induction a as [|x a IH]; cbn [app]; rewrite ?zsum_cons, ?zsum_nil; [lia|rewrite IH; lia]. Qed.
Lemma zsum_map16 l : zsum (map (Z.mul 16) l) = 16 * zsum l.
Proof. induction l as [|x l IH]; cbn [map]; rewrite ?zsum_cons, ?zsum_nil; [lia|rewrite IH; lia]. Qed.

Lemma rdbz_rdb n l : rdbz n l = rdb n l.
Proof.
  unfold rdbz. destruct (len l <? n) eqn:E; [|reflexivity].
  apply Z.ltb_lt in E. unfold rdb, take. unfold len in E.
  replace (Z.to_nat n <=? length l)%nat with false; [reflexivity|].
  symmetry. apply Nat.leb_gt. lia.
Qed.

(* ---- the doubling loop ---- *)
Lemma grow_caps_sum : forall fuel cap n avail, 0 <= cap ->
  zsum (grow_caps fuel cap n avail) <= (if n <=? cap then 0 else Z.max 0 (4 * avail - 2 * cap)).
Proof.
  induction fuel as [|f IH]; intros cap n avail C; cbn [grow_caps].
  - rewrite zsum_nil. destruct (n <=? cap); lia.
  - destruct (avail <? cap) eqn:A; destruct (n <=? cap) eqn:N; cbn [orb]; rewrite ?zsum_nil; try lia.
    apply Z.ltb_ge in A. apply Z.leb_gt in N.
    rewrite zsum_cons.
    specialize (IH (Z.min (2 * cap) n) n avail ltac:(lia)).
    destruct (n <=? Z.min (2 * cap) n) eqn:M.
    + apply Z.leb_le in M. lia.
    + apply Z.leb_gt in M. lia.
Qed.

Lemma grow_allocs_sum first n avail : 0 <= first -> 0 <= avail ->
  zsum (grow_allocs first n avail) <= 4 * avail + first.
Proof.
  intros F A. unfold grow_allocs. destruct (n <=? 0) eqn:N; [rewrite zsum_nil; lia|].
  apply Z.leb_gt in N. rewrite zsum_cons.
  pose proof (grow_caps_sum grow_fuel (Z.min first n) n (Z.min avail n) ltac:(lia)) as G.
  destruct (n <=? Z.min first n); lia.
Qed.

Lemma grow_allocs_sum_full first n avail : 0 <= first -> n <= avail ->
  zsum (grow_allocs first n avail) <= 4 * Z.max 0 n.
Proof.
  intros F A. unfold grow_allocs. destruct (n <=? 0) eqn:N; [rewrite zsum_nil; lia|].
  apply Z.leb_gt in N. rewrite zsum_cons.
  pose proof (grow_caps_sum grow_fuel (Z.min first n) n (Z.min avail n) ltac:(lia)) as G.
  destruct (n <=? Z.min first n); lia.
Qed.

(* the fuel of the doubling loop is never exhausted: more fuel changes nothing *)
Lemma grow_caps_fuel : forall fuel k cap n avail, 1 <= cap -> n <= cap * 2 ^ Z.of_nat fuel ->
  grow_caps (fuel + k) cap n avail = grow_caps fuel cap n avail.
Proof.
  induction fuel as [|f IH]; intros k cap n avail C H.
  - cbn [Z.of_nat] in H. rewrite Z.pow_0_r in H. cbn [plus grow_caps].
    destruct k; cbn [grow_caps]; [reflexivity|].
    replace (n <=? cap) with true by (symmetry; apply Z.leb_le; lia).
    rewrite orb_true_r. reflexivity.
  - cbn [plus grow_caps]. destruct ((avail <? cap) || (n <=? cap)) eqn:E; [reflexivity|].
    apply orb_false_iff in E. destruct E as (_ & N). apply Z.leb_gt in N.
    f_equal. apply IH; [lia|].
    rewrite Nat2Z.inj_succ, Z.pow_succ_r in H by lia.
    assert (0 < 2 ^ Z.of_nat f) by (apply Z.pow_pos_nonneg; lia).
    destruct (Z.min_spec (2 * cap) n) as [(A & ->)|(A & ->)]; nia.
Qed.

Theorem grow_allocs_fuel_enough first n avail k : 1 <= first -> n < 2 ^ 32 ->
  grow_caps (grow_fuel + k) (Z.min first n) n (Z.min avail n) = grow_caps grow_fuel (Z.min first n) n (Z.min avail n) \/ n <= 0.
Proof.
  intros F N. destruct (Z_le_gt_dec n 0) as [L|L]; [right; exact L|left].
  apply grow_caps_fuel; [lia|].
  unfold grow_fuel. change (2 ^ Z.of_nat 40) with 1099511627776. lia.
Qed.

(* ---- reading from byte strings ---- *)
Lemma unbe_acc_bound : forall n l acc v rest, bytes_ok l -> unbe_acc n l acc = Some (v, rest) ->
  acc * p256 n <= v < (acc + 1) * p256 n.
Proof.
  induction n as [|n IH]; intros l acc v rest B H; cbn [unbe_acc] in H.
  - inversion H; subst. rewrite p256_0. lia.
  - destruct l as [|b l']; [discriminate|].
    inversion B as [|? ? Hb B']; subst.
    apply IH in H; [|exact B'].
    rewrite p256_S. pose proof (p256_pos n). nia.
Qed.

Lemma bytes_ok_app a b : bytes_ok (a ++ b) -> bytes_ok b.
Proof. unfold bytes_ok. intros H. apply Forall_app in H. apply H. Qed.

Lemma rd_facts n l v rest : bytes_ok l -> rd n l = DOk v rest ->
  bytes_ok rest /\ len l = Z.of_nat n + len rest /\ 0 <= v < p256 n.
Proof.
  intros B E. unfold rd in E. destruct (unbe n l) as [[v0 r0]|] eqn:U; [|discriminate].
  inversion E; subst. unfold unbe in U.
  pose proof (unbe_acc_bound _ _ _ _ _ B U) as Hb.
  apply unbe_acc_some in U. destruct U as (pre & -> & L).
  split; [eapply bytes_ok_app; exact B|]. split; [unfold len; rewrite app_length; lia|lia].
Qed.

Lemma rdb_facts n l a rest : 0 <= n -> bytes_ok l -> rdb n l = DOk a rest ->
  bytes_ok rest /\ len l = n + len rest.
Proof.
  intros N B E. unfold rdb, take in E.
  destruct (Z.to_nat n <=? length l)%nat eqn:L; [|discriminate].
  apply Nat.leb_le in L. inversion E; subst.
  split.
  - rewrite <- (firstn_skipn (Z.to_nat n) l) in B. eapply bytes_ok_app; exact B.
  - unfold len. rewrite skipn_length. lia.
Qed.

Lemma rd_entries_facts : forall fuel count l acc es rest, bytes_ok l ->
  rd_entries fuel count l acc = DOk es rest -> bytes_ok rest /\ len l = len rest + 12 * Z.max 0 count.
Proof.
  induction fuel as [|f IH]; intros count l acc es rest B E; cbn [rd_entries] in E.
  - destruct (count <=? 0) eqn:C; [|discriminate]. apply Z.leb_le in C. inversion E; subst. split; [exact B|lia].
  - destruct (count <=? 0) eqn:C; [apply Z.leb_le in C; inversion E; subst; split; [exact B|lia]|].
    apply Z.leb_gt in C.
    destruct (rd 8 l) as [a l1| |] eqn:E1; cbn [dbind] in E; try discriminate.
    destruct (rd 4 l1) as [b l2| |] eqn:E2; cbn [dbind] in E; try discriminate.
    apply rd_facts in E1; [|exact B]. destruct E1 as (B1 & L1 & _).
    apply rd_facts in E2; [|exact B1]. destruct E2 as (B2 & L2 & _).
    apply IH in E; [|exact B2]. destruct E as (B3 & L3). split; [exact B3|].
    change (Z.of_nat 8) with 8 in L1. change (Z.of_nat 4) with 4 in L2. lia.
Qed.

(* ---- the allocation invariant, compositional over abind ---- *)
Definition good {A} (l : list Z) (r : adres A) : Prop :=
  zsum (fst r) <= 16 * len l + 65536 /\
  forall a rest, snd r = DOk a rest ->
    bytes_ok rest /\ len rest <= len l /\ zsum (fst r) <= 16 * (len l - len rest).

Lemma good_bind {A B} l (r : adres A) (f : A -> list Z -> adres B) (P : A -> Prop) :
  good l r -> (forall a rest, snd r = DOk a rest -> P a) ->
  (forall a rest, P a -> bytes_ok rest -> good rest (f a rest)) -> good l (abind r f).
Proof.
  intros (G1 & G2) HP K. destruct r as [al [a rest| |]]; unfold good; cbn [abind fst snd] in *; cbv zeta; cbn [fst snd].
  - destruct (G2 a rest eq_refl) as (Bk & L & S).
    destruct (K a rest (HP a rest eq_refl) Bk) as (K1 & K2).
    pose proof (len_nonneg rest). split.
    + rewrite zsum_app. lia.
    + intros b rest2 E. destruct (K2 b rest2 E) as (B2 & L2 & S2).
      split; [exact B2|]. rewrite zsum_app. lia.
  - split; [exact G1|discriminate].
  - split; [exact G1|discriminate].
Qed.

Lemma good_bind_rd {B} n l (f : Z -> list Z -> adres B) : bytes_ok l ->
  (forall v rest, 0 <= v < p256 n -> bytes_ok rest -> good rest (f v rest)) -> good l (abind (ard n l) f).
Proof.
  intros Bl K. apply (good_bind l (ard n l) f (fun v => 0 <= v < p256 n)).
  - unfold ard, good; cbn [fst snd]. rewrite zsum_nil. pose proof (len_nonneg l). split; [lia|].
    intros a rest E. apply rd_facts in E; [|exact Bl]. destruct E as (B1 & L1 & _).
    pose proof (len_nonneg rest). repeat split; [exact B1|lia|lia].
  - intros a rest E. cbn in E. apply rd_facts in E; [|exact Bl]. apply E.
  - exact K.
Qed.

Lemma good_bind_any {A B} l (r : adres A) (f : A -> list Z -> adres B) :
  good l r -> (forall a rest, bytes_ok rest -> good rest (f a rest)) -> good l (abind r f).
Proof. intros G K. apply (good_bind l r f (fun _ => True)); auto. Qed.

Lemma good_aret {A} (a : A) l : bytes_ok l -> good l (aret a l).
Proof.
  intros B. unfold good, aret; cbn [fst snd]. rewrite zsum_nil. pose proof (len_nonneg l). split; [lia|].
  intros a0 rest E. inversion E; subst. repeat split; [exact B|lia|lia].
Qed.

Lemma good_abad {A} l : good l (@abad A).
Proof. unfold good, abad; cbn [fst snd]. rewrite zsum_nil. pose proof (len_nonneg l). split; [lia|discriminate]. Qed.

Lemma good_ardb_str n l : bytes_ok l -> 0 <= n <= 65536 -> good l (ardb_str n l).
Proof.
  intros B N. unfold ardb_str, good. pose proof (len_nonneg l).
  destruct (rdb n l) as [a rest| |] eqn:E; cbn [fst snd]; rewrite ?zsum_cons, ?zsum_nil.
  - apply rdb_facts in E; [|lia|exact B]. destruct E as (B1 & L1). pose proof (len_nonneg rest).
    split; [lia|]. intros a0 rest0 E0. inversion E0; subst. repeat split; [exact B1|lia|lia].
  - split; [lia|discriminate].
  - split; [lia|discriminate].
Qed.

Lemma good_raw n l : bytes_ok l -> 0 <= n -> good l ([], rdb n l).
Proof.
  intros B N. unfold good; cbn [fst snd]. rewrite zsum_nil. pose proof (len_nonneg l). split; [lia|].
  intros a rest E. apply rdb_facts in E; [|lia|exact B]. destruct E as (B1 & L1). pose proof (len_nonneg rest).
  repeat split; [exact B1|lia|lia].
Qed.

Lemma controlReadStep_val : c_controlReadStep = 65536. Proof. reflexivity. Qed.
Lemma creditBatchStep_val : c_creditBatchStep = 4096. Proof. reflexivity. Qed.

Lemma good_ardb_grow n l : bytes_ok l -> 0 <= n -> good l (ardb_grow n l).
Proof.
  intros B N. unfold ardb_grow, good; cbn [fst snd]. pose proof (len_nonneg l).
  split.
  - pose proof (grow_allocs_sum c_controlReadStep n (len l) ltac:(rewrite controlReadStep_val; lia) ltac:(lia)).
    rewrite controlReadStep_val in *. lia.
  - intros a rest E. rewrite rdbz_rdb in E. apply rdb_facts in E; [|lia|exact B]. destruct E as (B1 & L1).
    pose proof (len_nonneg rest).
    pose proof (grow_allocs_sum_full c_controlReadStep n (len l) ltac:(rewrite controlReadStep_val; lia) ltac:(lia)).
    repeat split; [exact B1|lia|lia].
Qed.

Lemma good_ard_entries count l : bytes_ok l -> 0 <= count -> good l (ard_entries count l).
Proof.
  intros B N. unfold ard_entries, good; cbn [fst snd]. pose proof (len_nonneg l). rewrite zsum_map16.
  assert (Q : 0 <= len l / 12 /\ 12 * (len l / 12) <= len l).
  { split; [apply Z.div_pos; lia|apply Z.mul_div_le; lia]. }
  split.
  - pose proof (grow_allocs_sum c_creditBatchStep count (len l / 12) ltac:(rewrite creditBatchStep_val; lia) ltac:(lia)).
    rewrite creditBatchStep_val in *. lia.
  - intros es rest E. apply rd_entries_facts in E; [|exact B]. destruct E as (B1 & L1).
    pose proof (len_nonneg rest).
    assert (count <= len l / 12) by (apply Z.div_le_lower_bound; lia).
    pose proof (grow_allocs_sum_full c_creditBatchStep count (len l / 12) ltac:(rewrite creditBatchStep_val; lia) ltac:(lia)).
    repeat split; [exact B1|lia|lia].
Qed.

Ltac grd := apply good_bind_rd; [assumption|intros ? ? ? ?].
Ltac p256v := rewrite ?p256_1, ?p256_2, ?p256_4, ?p256_8 in *.

Lemma good_opt_str (flen : Z) l : bytes_ok l -> 0 <= flen < 2 ^ 16 ->
  good l (if 0 <? flen then ardb_str flen l else aret [] l).
Proof. intros B N. destruct (0 <? flen); [apply good_ardb_str; [exact B|lia]|apply good_aret, B]. Qed.

Lemma good_opt_grow (blen : Z) l : bytes_ok l -> 0 <= blen ->
  good l (if 0 <? blen then ardb_grow blen l else aret [] l).
Proof. intros B N. destruct (0 <? blen); [apply good_ardb_grow; assumption|apply good_aret, B]. Qed.

Theorem adec_body_good t l : bytes_ok l -> good l (adec_body t l).
Proof.
  intros B. unfold adec_body.
  destruct (t =? c_controlTypeFileBegin).
  { grd. p256v. destruct (c_maxRelPathLength <? v) eqn:P; [apply good_abad|].
    apply Z.ltb_ge in P. unfold c_maxRelPathLength in P.
    apply good_bind_any; [apply good_ardb_str; [assumption|lia]|intros ? ? ?].
    repeat grd. apply good_aret; assumption. }
  destruct (t =? c_controlTypeCredit).
  { repeat grd. apply good_aret; assumption. }
  destruct (t =? c_controlTypeCreditBatch).
  { grd. p256v. apply good_bind_any; [apply good_ard_entries; [assumption|lia]|intros ? ? ?].
    apply good_aret; assumption. }
  destruct (t =? c_controlTypeFileEnd).
  { repeat grd. apply good_aret; assumption. }
  destruct (t =? c_controlTypeFileDone).
  { grd. grd. grd. p256v. destruct (0 <? v1).
    - apply good_bind_any; [apply good_ardb_str; [assumption|lia]|intros ? ? ?]. apply good_aret; assumption.
    - apply good_aret; assumption. }
  destruct (t =? c_controlTypeFileResumeInfo).
  { grd. p256v. apply good_bind_any; [apply good_opt_str; [assumption|lia]|intros ? ? ?].
    grd. grd. grd. p256v. apply good_bind_any; [apply good_opt_grow; [assumption|lia]|intros ? ? ?].
    repeat grd. apply good_aret; assumption. }
  destruct (t =? c_controlTypeResumeRequest).
  { grd. p256v. apply good_bind_any; [apply good_opt_str; [assumption|lia]|intros ? ? ?].
    grd. apply good_aret; assumption. }
  destruct (t =? c_controlTypeDataStreams).
  { grd. apply good_aret; assumption. }
  destruct (t =? c_controlTypeEnd); [apply good_aret; assumption|apply good_abad].
Qed.

(* one record: whatever the bytes, what the decoder reserves is in proportion *)
Theorem record_alloc_proportional l : bytes_ok l ->
  zsum (fst (adec_ctl l)) <= 16 * len l + 65536.
Proof.
  intros B. destruct l as [|t r]; cbn [adec_ctl fst]; [rewrite zsum_nil; unfold len; cbn; lia|].
  inversion B; subst. destruct (adec_body_good t r) as (G & _); [assumption|].
  unfold len in *. cbn [length]. lia.
Qed.

(* a record that was decoded completely reserved at most 16 x its own length *)
Theorem record_alloc_complete l m rest : bytes_ok l -> snd (adec_ctl l) = DOk m rest ->
  bytes_ok rest /\ len rest < len l /\ zsum (fst (adec_ctl l)) <= 16 * (len l - len rest).
Proof.
  intros B. destruct l as [|t r]; cbn [adec_ctl fst snd]; [discriminate|].
  inversion B; subst. intros E. destruct (adec_body_good t r) as (_ & G); [assumption|].
  destruct (G m rest E) as (B1 & L1 & S1). unfold len in *. cbn [length]. repeat split; [exact B1|lia|lia].
Qed.

(* a whole control stream *)
Theorem stream_alloc_proportional : forall fuel l, bytes_ok l ->
  zsum (fst (adec_stream fuel l)) <= 16 * len l + 65536.
Proof.
  induction fuel as [|f IH]; intros l B.
  - pose proof (len_nonneg l). destruct l; cbn [adec_stream fst]; rewrite zsum_nil; lia.
  - destruct l as [|t r]; [cbn [adec_stream fst]; rewrite zsum_nil; unfold len; cbn; lia|].
    cbn [adec_stream]. remember (t :: r) as l0.
    pose proof (record_alloc_proportional l0 B) as P.
    destruct (adec_ctl l0) as [al [m rest| |]] eqn:E; cbn [fst snd] in *; try exact P.
    pose proof (record_alloc_complete l0 m rest B) as C. rewrite E in C. cbn [fst snd] in C.
    destruct (C eq_refl) as (B1 & L1 & S1).
    rewrite zsum_app. specialize (IH rest B1). lia.
Qed.

(* headers *)
Theorem header_alloc_proportional l : bytes_ok l -> zsum (fst (adec_header l)) <= 16 * len l + 65536.
Proof.
  intros B. assert (G : good l (adec_header l)); [|apply G].
  unfold adec_header. apply good_bind_any; [apply good_raw; [assumption|lia]|intros ? ? ?].
  destruct (negb _); [apply good_abad|]. grd. p256v. apply good_ardb_grow; [assumption|lia].
Qed.

Theorem legacy_manifest_header_alloc_proportional l : bytes_ok l ->
  zsum (fst (adec_legacy_manifest_header l)) <= 16 * len l + 65536.
Proof.
  intros B. assert (G : good l (adec_legacy_manifest_header l)); [|apply G].
  unfold adec_legacy_manifest_header. apply good_bind_any; [apply good_raw; [assumption|lia]|intros ? ? ?].
  destruct (negb _); [apply good_abad|]. grd. p256v. apply good_ardb_grow; [assumption|lia].
Qed.

Theorem file_header_alloc_proportional l : bytes_ok l ->
  zsum (fst (adec_file_header l)) <= 16 * len l + 65536.
Proof.
  intros B. assert (G : good l (adec_file_header l)); [|apply G].
  unfold adec_file_header. apply good_bind_any; [apply good_raw; [assumption|lia]|intros ? ? ?].
  destruct (negb _); [apply good_abad|]. grd. p256v.
  destruct (c_maxFilenameLength <? v) eqn:P; [apply good_abad|]. apply Z.ltb_ge in P. unfold c_maxFilenameLength in P.
  apply good_bind_any; [apply good_ardb_str; [assumption|lia]|intros ? ? ?].
  destruct (negb _); [apply good_abad|]. grd.
  destruct (_ <? _); [apply good_abad|apply good_aret; assumption].
Qed.

Theorem dumb_header_alloc_proportional l : bytes_ok l ->
  zsum (fst (adec_dumb_header l)) <= 16 * len l + 65536.
Proof.
  intros B. assert (G : good l (adec_dumb_header l)); [|apply G].
  unfold adec_dumb_header. grd. p256v.
  apply good_bind_any; [|intros ? ? ?; grd; apply good_aret; assumption].
  unfold good. pose proof (len_nonneg rest).
  destruct (rdb v rest) as [a r1| |] eqn:E; cbn [fst snd]; rewrite ?zsum_cons, ?zsum_nil.
  - apply rdb_facts in E; [|lia|assumption]. destruct E as (B1 & L1). pose proof (len_nonneg r1).
    split; [lia|]. intros a0 rest0 E0. inversion E0; subst. repeat split; [exact B1|lia|lia].
  - split; [lia|discriminate].
  - split; [lia|discriminate].
Qed.

(* ---- the instrumented decoder returns what Model/Wire.v's decoder returns ---- *)
Lemma erase_bind {A B} (r : adres A) (d : dres A) (f : A -> list Z -> adres B) g :
  snd r = d -> (forall a l, snd (f a l) = g a l) -> snd (abind r f) = dbind d g.
Proof. intros <- H. destruct r as [al [a rest| |]]; cbn [abind snd dbind]; auto. Qed.

Lemma erase_str n l : snd (ardb_str n l) = rdb n l.
Proof. unfold ardb_str. destruct (rdb n l); reflexivity. Qed.

Lemma erase_opt_str (c : bool) n l : snd (if c then ardb_str n l else aret [] l) = (if c then rdb n l else DOk [] l).
Proof. destruct c; [apply erase_str|reflexivity]. Qed.

Lemma erase_opt_grow (c : bool) n l : snd (if c then ardb_grow n l else aret [] l) = (if c then rdb n l else DOk [] l).
Proof. destruct c; [unfold ardb_grow; cbn [snd]; apply rdbz_rdb|reflexivity]. Qed.

Ltac er := repeat (apply erase_bind; [first [reflexivity|apply erase_str|apply erase_opt_str|apply erase_opt_grow]|intros ? ?]);
           try reflexivity.

Theorem adec_ctl_erase l : snd (adec_ctl l) = dec_ctl l.
Proof.
  destruct l as [|t r]; [reflexivity|]. cbn [adec_ctl dec_ctl]. unfold adec_body, dec_body.
  destruct (t =? c_controlTypeFileBegin).
  { apply erase_bind; [reflexivity|intros ? ?]. destruct (_ <? _); [reflexivity|]. er. }
  destruct (t =? c_controlTypeCredit); [er|].
  destruct (t =? c_controlTypeCreditBatch); [er|].
  destruct (t =? c_controlTypeFileEnd); [er|].
  destruct (t =? c_controlTypeFileDone).
  { apply erase_bind; [reflexivity|intros ? ?]. apply erase_bind; [reflexivity|intros ? ?].
    apply erase_bind; [reflexivity|intros ? ?]. destruct (0 <? _); er. }
  destruct (t =? c_controlTypeFileResumeInfo); [er|].
  destruct (t =? c_controlTypeResumeRequest); [er|].
  destruct (t =? c_controlTypeDataStreams); [er|].
  destruct (t =? c_controlTypeEnd); reflexivity.
Qed.

Theorem adec_header_erase l : snd (adec_header l) = dec_header l.
Proof.
  unfold adec_header, dec_header. apply erase_bind; [reflexivity|intros ? ?].
  destruct (negb _); [reflexivity|]. apply erase_bind; [reflexivity|intros ? ?].
  unfold ardb_grow; cbn [snd]. apply rdbz_rdb.
Qed.

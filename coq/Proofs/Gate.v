(* Deadlock-freedom of the closed transfer model (Model/Gate.v) with the fixed
   receiver ([gated] = false): every reachable state is final or has an enabled
   event; and in a final state every file was acknowledged and nothing is left in
   flight.  Proof: an inductive invariant over the components of the state. *)
From Coq Require Import List Arith Bool Lia.
From TF Require Import Model.Gate.
Import ListNotations.

(* ---------------------------------------------------------------- counting *)

Fixpoint cnt (x : nat) (l : list nat) : nat :=
  match l with [] => 0 | y :: r => (if Nat.eqb y x then 1 else 0) + cnt x r end.

Ltac deq :=
  repeat match goal with
  | |- context [Nat.eqb ?a ?b] => destruct (Nat.eqb_spec a b)
  | H : context [Nat.eqb ?a ?b] |- _ => destruct (Nat.eqb_spec a b)
  end.

Lemma cnt_app x l1 l2 : cnt x (l1 ++ l2) = cnt x l1 + cnt x l2.
Proof. induction l1; simpl; lia. Qed.

Lemma cnt_In x l : In x l <-> 0 < cnt x l.
Proof.
  induction l as [|y r IH]; simpl; [split; [tauto|lia]|].
  destruct (Nat.eqb_spec y x); split; intros H; try lia; auto.
  - destruct H; [congruence|]. apply IH in H. lia.
  - right. apply IH. lia.
Qed.

Lemma cnt_zero_notin x l : cnt x l = 0 -> ~ In x l.
Proof. intros H I. apply cnt_In in I. lia. Qed.

Lemma memn_cnt x l : memn x l = true <-> 0 < cnt x l.
Proof.
  rewrite <- cnt_In. unfold memn. rewrite existsb_exists. split.
  - intros (y & Hy & E). apply Nat.eqb_eq in E. subst. exact Hy.
  - intros H. exists x. split; [exact H|apply Nat.eqb_refl].
Qed.

Definition qcount (f : nat) (q : list (nat * nat)) : nat := cnt f (map snd q).

(* ---------------------------------------------------------------- pending *)

Lemma find_pending_cnt f l t : find_pending f l = Some t -> 0 < cnt f (map fst l).
Proof.
  induction l as [|[g u] r IH]; simpl; [discriminate|]. destruct (Nat.eqb g f); [lia|]. intros H. apply IH in H. lia.
Qed.

Lemma cnt_remove_pending_same f l t : find_pending f l = Some t ->
  cnt f (map fst l) = S (cnt f (map fst (remove_pending f l))).
Proof.
  induction l as [|[g u] r IH]; simpl; [discriminate|]. destruct (Nat.eqb_spec g f).
  - intros _. lia.
  - intros H. simpl. apply IH in H. destruct (Nat.eqb_spec g f); lia.
Qed.

Lemma cnt_remove_pending_ne g f l : g <> f ->
  cnt g (map fst (remove_pending f l)) = cnt g (map fst l).
Proof.
  intros N. induction l as [|[h u] r IH]; simpl; [reflexivity|]. destruct (Nat.eqb_spec h f).
  - subst. destruct (Nat.eqb_spec f g); [congruence|lia].
  - simpl. rewrite IH. reflexivity.
Qed.

Lemma length_remove_pending f l t : find_pending f l = Some t -> length l = S (length (remove_pending f l)).
Proof.
  induction l as [|[g u] r IH]; simpl; [discriminate|]. destruct (Nat.eqb g f); [reflexivity|].
  intros H. simpl. rewrite (IH H). reflexivity.
Qed.

(* ---------------------------------------------------------------- active files *)

Lemma find_afile_id f l a : find_afile f l = Some a -> a_id a = f.
Proof.
  induction l as [|b r IH]; simpl; [discriminate|]. destruct (Nat.eqb_spec (a_id b) f); [|exact IH].
  intros H. injection H as <-. assumption.
Qed.

Lemma find_afile_cnt f l a : find_afile f l = Some a -> 0 < cnt f (map a_id l).
Proof.
  induction l as [|b r IH]; simpl; [discriminate|]. destruct (Nat.eqb (a_id b) f); [lia|]. intros H. apply IH in H. lia.
Qed.

Lemma find_afile_none f l : find_afile f l = None -> cnt f (map a_id l) = 0.
Proof.
  induction l as [|b r IH]; simpl; [reflexivity|]. destruct (Nat.eqb (a_id b) f); [discriminate|]. intros H. apply IH in H. lia.
Qed.

Lemma cnt_find_afile f l : 0 < cnt f (map a_id l) -> exists a, find_afile f l = Some a.
Proof.
  intros H. destruct (find_afile f l) eqn:E; [eauto|]. apply find_afile_none in E. lia.
Qed.

Lemma map_id_set_afile a' l : map a_id (set_afile a' l) = map a_id l.
Proof.
  induction l as [|b r IH]; simpl; [reflexivity|]. destruct (Nat.eqb_spec (a_id b) (a_id a')); simpl; congruence.
Qed.

Lemma length_set_afile a' l : length (set_afile a' l) = length l.
Proof. rewrite <- (map_length a_id), map_id_set_afile, map_length. reflexivity. Qed.

Lemma find_set_afile_same a' l a : find_afile (a_id a') l = Some a -> find_afile (a_id a') (set_afile a' l) = Some a'.
Proof.
  induction l as [|b r IH]; simpl; [discriminate|]. destruct (Nat.eqb_spec (a_id b) (a_id a')); simpl.
  - rewrite Nat.eqb_refl. reflexivity.
  - destruct (Nat.eqb_spec (a_id b) (a_id a')); [congruence|]. exact IH.
Qed.

Lemma find_set_afile_ne g a' l : g <> a_id a' -> find_afile g (set_afile a' l) = find_afile g l.
Proof.
  intros N. induction l as [|b r IH]; simpl; [reflexivity|]. destruct (Nat.eqb_spec (a_id b) (a_id a')); simpl.
  - destruct (Nat.eqb_spec (a_id a') g); [congruence|]. destruct (Nat.eqb_spec (a_id b) g); [congruence|]. reflexivity.
  - rewrite IH. reflexivity.
Qed.

Lemma find_remove_afile_ne g f l : g <> f -> find_afile g (remove_afile f l) = find_afile g l.
Proof.
  intros N. induction l as [|b r IH]; simpl; [reflexivity|]. destruct (Nat.eqb_spec (a_id b) f); simpl.
  - destruct (Nat.eqb_spec (a_id b) g); [congruence|]. reflexivity.
  - rewrite IH. reflexivity.
Qed.

Lemma cnt_remove_afile_same f l : 0 < cnt f (map a_id l) ->
  cnt f (map a_id l) = S (cnt f (map a_id (remove_afile f l))).
Proof.
  induction l as [|b r IH]; simpl; [lia|]. destruct (Nat.eqb_spec (a_id b) f).
  - intros _. lia.
  - intros H. simpl. destruct (Nat.eqb_spec (a_id b) f); [congruence|]. simpl in *. apply IH. lia.
Qed.

Lemma cnt_remove_afile_ne g f l : g <> f -> cnt g (map a_id (remove_afile f l)) = cnt g (map a_id l).
Proof.
  intros N. induction l as [|b r IH]; simpl; [reflexivity|]. destruct (Nat.eqb_spec (a_id b) f).
  - destruct (Nat.eqb_spec (a_id b) g); [congruence|]. lia.
  - simpl. rewrite IH. reflexivity.
Qed.

Lemma length_remove_afile f l : 0 < cnt f (map a_id l) -> length l = S (length (remove_afile f l)).
Proof.
  induction l as [|b r IH]; simpl; [lia|]. destruct (Nat.eqb_spec (a_id b) f); [reflexivity|].
  intros H. simpl. rewrite <- IH; [reflexivity|lia].
Qed.

Lemma find_afile_app g l a : find_afile g (l ++ [a]) =
  match find_afile g l with Some x => Some x | None => if Nat.eqb (a_id a) g then Some a else None end.
Proof.
  induction l as [|b r IH]; simpl; [reflexivity|]. destruct (Nat.eqb (a_id b) g); [reflexivity|exact IH].
Qed.

(* ---------------------------------------------------------------- begun files *)

Lemma find_rfile_id f l a : find_rfile f l = Some a -> r_id a = f.
Proof.
  induction l as [|b r IH]; simpl; [discriminate|]. destruct (Nat.eqb_spec (r_id b) f); [|exact IH].
  intros H. injection H as <-. assumption.
Qed.

Lemma find_rfile_cnt f l a : find_rfile f l = Some a -> 0 < cnt f (map r_id l).
Proof.
  induction l as [|b r IH]; simpl; [discriminate|]. destruct (Nat.eqb (r_id b) f); [lia|]. intros H. apply IH in H. lia.
Qed.

Lemma find_rfile_none f l : find_rfile f l = None -> cnt f (map r_id l) = 0.
Proof.
  induction l as [|b r IH]; simpl; [reflexivity|]. destruct (Nat.eqb (r_id b) f); [discriminate|]. intros H. apply IH in H. lia.
Qed.

Lemma map_id_set_rfile a' l : map r_id (set_rfile a' l) = map r_id l.
Proof.
  induction l as [|b r IH]; simpl; [reflexivity|]. destruct (Nat.eqb_spec (r_id b) (r_id a')); simpl; congruence.
Qed.

Lemma find_set_rfile_same a' l a : find_rfile (r_id a') l = Some a -> find_rfile (r_id a') (set_rfile a' l) = Some a'.
Proof.
  induction l as [|b r IH]; simpl; [discriminate|]. destruct (Nat.eqb_spec (r_id b) (r_id a')); simpl.
  - rewrite Nat.eqb_refl. reflexivity.
  - destruct (Nat.eqb_spec (r_id b) (r_id a')); [congruence|]. exact IH.
Qed.

Lemma find_set_rfile_ne g a' l : g <> r_id a' -> find_rfile g (set_rfile a' l) = find_rfile g l.
Proof.
  intros N. induction l as [|b r IH]; simpl; [reflexivity|]. destruct (Nat.eqb_spec (r_id b) (r_id a')); simpl.
  - destruct (Nat.eqb_spec (r_id a') g); [congruence|]. destruct (Nat.eqb_spec (r_id b) g); [congruence|]. reflexivity.
  - rewrite IH. reflexivity.
Qed.

Lemma find_remove_rfile_ne g f l : g <> f -> find_rfile g (remove_rfile f l) = find_rfile g l.
Proof.
  intros N. induction l as [|b r IH]; simpl; [reflexivity|]. destruct (Nat.eqb_spec (r_id b) f); simpl.
  - destruct (Nat.eqb_spec (r_id b) g); [congruence|]. reflexivity.
  - rewrite IH. reflexivity.
Qed.

Lemma cnt_remove_rfile_same f l : 0 < cnt f (map r_id l) ->
  cnt f (map r_id l) = S (cnt f (map r_id (remove_rfile f l))).
Proof.
  induction l as [|b r IH]; simpl; [lia|]. destruct (Nat.eqb_spec (r_id b) f).
  - intros _. lia.
  - intros H. simpl. destruct (Nat.eqb_spec (r_id b) f); [congruence|]. simpl in *. apply IH. lia.
Qed.

Lemma cnt_remove_rfile_ne g f l : g <> f -> cnt g (map r_id (remove_rfile f l)) = cnt g (map r_id l).
Proof.
  intros N. induction l as [|b r IH]; simpl; [reflexivity|]. destruct (Nat.eqb_spec (r_id b) f).
  - destruct (Nat.eqb_spec (r_id b) g); [congruence|]. lia.
  - simpl. rewrite IH. reflexivity.
Qed.

Lemma find_rfile_app g l a : find_rfile g (l ++ [a]) =
  match find_rfile g l with Some x => Some x | None => if Nat.eqb (r_id a) g then Some a else None end.
Proof.
  induction l as [|b r IH]; simpl; [reflexivity|]. destruct (Nat.eqb (r_id b) g); [reflexivity|exact IH].
Qed.

(* ---------------------------------------------------------------- data streams *)

Lemma drop_on_cnt w q f : head_on w q = Some f ->
  forall g, qcount g q = (if Nat.eqb f g then 1 else 0) + qcount g (drop_on w q).
Proof.
  unfold qcount. induction q as [|[v h] r IH]; simpl; [discriminate|]. destruct (Nat.eqb v w).
  - intros H g. injection H as ->. reflexivity.
  - intros H g. simpl. rewrite (IH H g). lia.
Qed.

Lemma qcount_app g q w f : qcount g (q ++ [(w, f)]) = qcount g q + (if Nat.eqb f g then 1 else 0).
Proof. unfold qcount. rewrite map_app, cnt_app. simpl. lia. Qed.

(* ---------------------------------------------------------------- control stream *)

Fixpoint sbegins (l : list cmsg) : list nat :=
  match l with [] => [] | GBegin f _ :: r => f :: sbegins r | _ :: r => sbegins r end.

Lemma sbegins_app l1 l2 : sbegins (l1 ++ l2) = sbegins l1 ++ sbegins l2.
Proof. induction l1 as [|[f t|f|] r IH]; simpl; congruence. Qed.

Lemma sbegins_In f l : 0 < cnt f (sbegins l) -> exists t, In (GBegin f t) l.
Proof.
  induction l as [|[g t|g|] r IH]; simpl; try lia.
  - destruct (Nat.eqb_spec g f).
    + subst. eauto.
    + intros H. destruct IH as (t' & I); [lia|eauto].
  - intros H. destruct (IH H) as (t' & I). eauto.
  - intros H. destruct (IH H) as (t' & I). eauto.
Qed.

Lemma In_sbegins f t l : In (GBegin f t) l -> 0 < cnt f (sbegins l).
Proof.
  induction l as [|[g u|g|] r IH]; simpl; try tauto.
  - intros [E|I]; [injection E as -> ->; rewrite Nat.eqb_refl; lia|]. apply IH in I. lia.
  - intros [E|I]; [discriminate|auto].
  - intros [E|I]; [discriminate|auto].
Qed.

(* FIFO: a FileEnd record comes after the FileBegin of its file - scanning the
   stream from the head, its file is already known to the receiver. *)
Fixpoint ends_ok (known : list nat) (l : list cmsg) : Prop :=
  match l with
  | [] => True
  | GBegin f _ :: r => ends_ok (f :: known) r
  | GEnd f :: r => In f known /\ ends_ok known r
  | GEndAll :: r => ends_ok known r
  end.

Lemma ends_ok_incl l : forall k k', incl k k' -> ends_ok k l -> ends_ok k' l.
Proof.
  induction l as [|[f t|f|] r IH]; simpl; intros k k' Hi H; auto.
  - apply (IH (f :: k)); [|exact H]. intros x [->|I]; simpl; auto.
  - destruct H as [I H]. split; [auto|eauto].
  - eauto.
Qed.

Lemma ends_ok_app l : forall k x, ends_ok k l ->
  (forall f, x = GEnd f -> In f (sbegins l ++ k)) -> ends_ok k (l ++ [x]).
Proof.
  induction l as [|[f t|f|] r IH]; simpl; intros k x H Hx.
  - destruct x as [g t|g|]; simpl; auto.
  - apply IH; [exact H|]. intros g E. specialize (Hx g E). destruct Hx as [->|I]; apply in_or_app; simpl; auto.
    apply in_app_or in I. destruct I; auto.
  - destruct H as [I H]. split; [exact I|]. apply IH; auto.
  - apply IH; auto.
Qed.

Lemma find_set_afile g a' l : find_afile g (set_afile a' l) =
  if Nat.eqb g (a_id a') then match find_afile g l with Some _ => Some a' | None => None end else find_afile g l.
Proof.
  destruct (Nat.eqb_spec g (a_id a')) as [->|N]; [|apply find_set_afile_ne; exact N].
  destruct (find_afile (a_id a') l) eqn:E; [eapply find_set_afile_same; eauto|].
  induction l as [|b r IH]; simpl in *; [reflexivity|]. destruct (Nat.eqb_spec (a_id b) (a_id a')); [discriminate|].
  simpl. destruct (Nat.eqb_spec (a_id b) (a_id a')); [congruence|auto].
Qed.

Lemma find_set_rfile g a' l : find_rfile g (set_rfile a' l) =
  if Nat.eqb g (r_id a') then match find_rfile g l with Some _ => Some a' | None => None end else find_rfile g l.
Proof.
  destruct (Nat.eqb_spec g (r_id a')) as [->|N]; [|apply find_set_rfile_ne; exact N].
  destruct (find_rfile (r_id a') l) eqn:E; [eapply find_set_rfile_same; eauto|].
  induction l as [|b r IH]; simpl in *; [reflexivity|]. destruct (Nat.eqb_spec (r_id b) (r_id a')); [discriminate|].
  simpl. destruct (Nat.eqb_spec (r_id b) (r_id a')); [congruence|auto].
Qed.

Lemma NoDup_cnt l : NoDup l -> forall x, cnt x l <= 1.
Proof.
  induction 1 as [|y r Hn Hd IH]; intros x; simpl; [lia|]. specialize (IH x).
  destruct (Nat.eqb_spec y x); [|lia]. subst. destruct (cnt x r) eqn:E; [lia|].
  exfalso. apply Hn. apply cnt_In. lia.
Qed.

Arguments find_pending_cnt [f l t] _.
Arguments cnt_remove_pending_same [f l t] _.
Arguments cnt_remove_pending_ne [g f] l _.
Arguments length_remove_pending [f l t] _.
Arguments find_afile_id [f l a] _.
Arguments find_afile_cnt [f l a] _.
Arguments find_afile_none [f l] _.
Arguments cnt_find_afile [f l] _.
Arguments find_remove_afile_ne [g f] l _.
Arguments cnt_remove_afile_same [f l] _.
Arguments cnt_remove_afile_ne [g f] l _.
Arguments length_remove_afile [f l] _.
Arguments find_rfile_id [f l a] _.
Arguments find_rfile_cnt [f l a] _.
Arguments find_rfile_none [f l] _.
Arguments find_remove_rfile_ne [g f] l _.
Arguments cnt_remove_rfile_same [f l] _.
Arguments cnt_remove_rfile_ne [g f] l _.
Arguments drop_on_cnt [w q f] _ g.
Arguments NoDup_cnt [l] _ x.
Arguments ends_ok_incl [l k k'] _ _.
Arguments ends_ok_app [l k x] _ _.
Arguments sbegins_In [f l] _.
Arguments In_sbegins [f t l] _.

(* ---------------------------------------------------------------- the invariant *)

(* End handling: nothing is written after End; End is the last record. *)
Definition Fin (sd rd : bool) (P : list (nat * nat)) (A : list afile) (C : list cmsg) : Prop :=
  if sd then P = [] /\ A = [] /\ (if rd then C = [] else exists l, C = l ++ [GEndAll] /\ ~ In GEndAll l)
  else rd = false /\ ~ In GEndAll C.

Lemma fin_pop sd P A m C : m <> GEndAll -> Fin sd false P A (m :: C) -> Fin sd false P A C.
Proof.
  unfold Fin. intros Hm. destruct sd.
  - intros (EP & EA & l & El & Hl). repeat split; auto. destruct l as [|c l]; simpl in El.
    + injection El as E1 E2. congruence.
    + injection El as E1 E2. exists l. split; [exact E2|]. intros X. apply Hl. right. exact X.
  - intros [Hr Hn]. split; [reflexivity|]. intros X. apply Hn. right. exact X.
Qed.

Lemma fin_push rd P A P' A' x C : x <> GEndAll -> Fin false rd P A C -> Fin false rd P' A' (C ++ [x]).
Proof.
  unfold Fin. intros Hx [Hr Hn]. split; [exact Hr|]. intros X. apply in_app_or in X.
  destruct X as [X|[X|[]]]; [auto|congruence].
Qed.

Record Inv (n : nat) (P : list (nat * nat)) (A : list afile) (K : list nat) (C : list cmsg) (D : list nat)
           (Q : list (nat * nat)) (B : list rfile) (Z : list nat) (sd rd : bool) : Prop := {
  i_uniq : forall f, cnt f (map fst P) + cnt f (map a_id A) + cnt f K <= 1;
  i_len : length P + length A + length K = n;
  i_act : forall f a, find_afile f A = Some a -> a_next a <= a_total a /\ (a_end a = true -> a_next a = a_total a);
  i_st1 : forall f, cnt f (sbegins C) + cnt f (map r_id B) + cnt f Z <= 1;
  i_st2 : forall f, 0 < cnt f (map a_id A) -> 0 < cnt f (sbegins C) + cnt f (map r_id B) + cnt f Z;
  i_st3 : forall f, 0 < cnt f (sbegins C) + cnt f (map r_id B) -> 0 < cnt f (map a_id A);
  i_st4 : forall f, 0 < cnt f Z -> 0 < cnt f (map a_id A) + cnt f K;
  i_beg : forall f t, In (GBegin f t) C ->
            exists a, find_afile f A = Some a /\ a_total a = t /\ qcount f Q = a_next a;
  i_fifo : ends_ok (map r_id B ++ Z) C;
  i_data : forall f, 0 < qcount f Q -> 0 < cnt f (map a_id A);
  i_rb : forall f r, find_rfile f B = Some r ->
            exists a, find_afile f A = Some a /\ r_rem r = qcount f Q + (a_total a - a_next a) /\
                      (0 < a_total a -> 0 < r_rem r) /\ (r_rem r = 0 -> a_end a = false \/ In (GEnd f) C);
  i_done : forall f a, 0 < cnt f Z -> find_afile f A = Some a ->
            qcount f Q = 0 /\ a_next a = a_total a /\ In f D;
  i_end : forall f a, find_afile f A = Some a -> a_end a = true ->
            In (GEnd f) C \/ 0 < cnt f Z \/ exists r, find_rfile f B = Some r /\ 0 < r_rem r;
  i_r2s : forall f, cnt f D <= 1 /\ (In f D -> 0 < cnt f Z /\ 0 < cnt f (map a_id A));
  i_fin : Fin sd rd P A C }.

Arguments i_uniq {n P A K C D Q B Z sd rd} _ f.
Arguments i_len {n P A K C D Q B Z sd rd} _.
Arguments i_act {n P A K C D Q B Z sd rd} _ [f a] _.
Arguments i_st1 {n P A K C D Q B Z sd rd} _ f.
Arguments i_st2 {n P A K C D Q B Z sd rd} _ f _.
Arguments i_st3 {n P A K C D Q B Z sd rd} _ f _.
Arguments i_st4 {n P A K C D Q B Z sd rd} _ f _.
Arguments i_beg {n P A K C D Q B Z sd rd} _ [f t] _.
Arguments i_fifo {n P A K C D Q B Z sd rd} _.
Arguments i_data {n P A K C D Q B Z sd rd} _ f _.
Arguments i_rb {n P A K C D Q B Z sd rd} _ [f r] _.
Arguments i_done {n P A K C D Q B Z sd rd} _ [f a] _ _.
Arguments i_end {n P A K C D Q B Z sd rd} _ [f a] _ _.
Arguments i_r2s {n P A K C D Q B Z sd rd} _ f.
Arguments i_fin {n P A K C D Q B Z sd rd} _.

Ltac nf I g :=
  pose proof (i_uniq I g); pose proof (i_st1 I g); pose proof (i_st2 I g); pose proof (i_st3 I g);
  pose proof (i_st4 I g); pose proof (i_data I g).

Lemma inv_init files : NoDup (map fst files) ->
  Inv (length files) files [] [] [] [] [] [] [] false false.
Proof.
  intros Hn. constructor; simpl; try (intros; lia); try discriminate; try tauto.
  - intros f. pose proof (NoDup_cnt Hn f). lia.
Qed.

(* ---------------------------------------------------------------- preservation: sender events *)

Lemma inv_activate n P A K C D Q B Z sd rd f t :
  Inv n P A K C D Q B Z sd rd -> find_pending f P = Some t ->
  Inv n (remove_pending f P) (A ++ [{| a_id := f; a_total := t; a_next := 0; a_end := false |}]) K
        (C ++ [GBegin f t]) D Q B Z sd rd.
Proof.
  intros I Hf.
  pose proof (find_pending_cnt Hf) as Hc.
  pose proof (cnt_remove_pending_same Hf) as Hrm.
  assert (Hfr : cnt f (map a_id A) = 0 /\ cnt f K = 0) by (nf I f; lia).
  assert (Hfr2 : cnt f (sbegins C) + cnt f (map r_id B) + cnt f Z = 0) by (nf I f; lia).
  assert (Hq : qcount f Q = 0) by (nf I f; lia).
  assert (Hfa : find_afile f A = None).
  { destruct (find_afile f A) eqn:E; [|reflexivity]. apply find_afile_cnt in E. lia. }
  assert (Hsd : sd = false).
  { destruct sd; [|reflexivity]. destruct (i_fin I) as (EP & _). subst P. discriminate. }
  subst sd.
  constructor.
  - intros g. nf I g. rewrite map_app, cnt_app. simpl. destruct (Nat.eq_dec g f) as [->|N].
    + rewrite Nat.eqb_refl. lia.
    + rewrite (cnt_remove_pending_ne _ N). destruct (Nat.eqb_spec f g); [congruence|lia].
  - rewrite app_length. simpl. pose proof (length_remove_pending Hf). pose proof (i_len I). lia.
  - intros g a Ha. rewrite find_afile_app in Ha. destruct (find_afile g A) eqn:E.
    + injection Ha as <-. exact (i_act I E).
    + simpl in Ha. destruct (Nat.eqb f g); [|discriminate]. injection Ha as <-. simpl. split; [lia|discriminate].
  - intros g. nf I g. rewrite sbegins_app, cnt_app. simpl. destruct (Nat.eqb_spec f g); [subst; lia|lia].
  - intros g. nf I g. rewrite sbegins_app, map_app, !cnt_app. simpl. destruct (Nat.eqb_spec f g); lia.
  - intros g. nf I g. rewrite sbegins_app, map_app, !cnt_app. simpl. destruct (Nat.eqb_spec f g); lia.
  - intros g. nf I g. rewrite map_app, !cnt_app. simpl. lia.
  - intros g u Hin. apply in_app_or in Hin. destruct Hin as [Hin|[E|[]]].
    + destruct (i_beg I Hin) as (a & Ha & Ht & Hq'). exists a. rewrite find_afile_app, Ha. auto.
    + injection E as <- <-. eexists. rewrite find_afile_app, Hfa. simpl. rewrite Nat.eqb_refl. simpl. auto.
  - apply ends_ok_app; [exact (i_fifo I)|intros; discriminate].
  - intros g Hg. nf I g. rewrite map_app, !cnt_app. lia.
  - intros g r Hr. destruct (i_rb I Hr) as (a & Ha & H1 & H2 & H3). exists a. rewrite find_afile_app, Ha.
    repeat split; auto. intros H0. destruct (H3 H0); [auto|right; apply in_or_app; auto].
  - intros g a Hz Ha. rewrite find_afile_app in Ha. destruct (find_afile g A) eqn:E.
    + injection Ha as <-. exact (i_done I Hz E).
    + simpl in Ha. destruct (Nat.eqb_spec f g); [|discriminate]. subst. lia.
  - intros g a Ha He. rewrite find_afile_app in Ha. destruct (find_afile g A) eqn:E.
    + injection Ha as <-. destruct (i_end I E He) as [H|[H|H]]; [left; apply in_or_app; auto|auto|auto].
    + simpl in Ha. destruct (Nat.eqb f g); [|discriminate]. injection Ha as <-. discriminate.
  - intros g. destruct (i_r2s I g) as [R1 R2]. split; [exact R1|]. intros Hin. destruct (R2 Hin).
    rewrite map_app, cnt_app. split; [assumption|lia].
  - apply fin_push with (P := P) (A := A); [discriminate|exact (i_fin I)].
Qed.

Lemma inv_sendchunk n P A K C D Q B Z sd rd w f a :
  Inv n P A K C D Q B Z sd rd -> find_afile f A = Some a -> a_next a < a_total a ->
  Inv n P (set_afile {| a_id := f; a_total := a_total a; a_next := S (a_next a); a_end := a_end a |} A) K
        C D (Q ++ [(w, f)]) B Z sd rd.
Proof.
  intros I Ha Hlt. set (a' := {| a_id := f; a_total := a_total a; a_next := S (a_next a); a_end := a_end a |}).
  constructor.
  - rewrite map_id_set_afile. exact (i_uniq I).
  - rewrite length_set_afile. exact (i_len I).
  - intros g b Hb. rewrite find_set_afile in Hb. simpl in Hb. destruct (Nat.eqb_spec g f).
    + subst. rewrite Ha in Hb. injection Hb as <-. simpl. destruct (i_act I Ha). split; [lia|]. intros X. apply H0 in X. lia.
    + exact (i_act I Hb).
  - exact (i_st1 I).
  - rewrite map_id_set_afile. exact (i_st2 I).
  - rewrite map_id_set_afile. exact (i_st3 I).
  - rewrite map_id_set_afile. exact (i_st4 I).
  - intros g u Hin. destruct (i_beg I Hin) as (b & Hb & Ht & Hq). rewrite find_set_afile. simpl.
    rewrite qcount_app. destruct (Nat.eqb_spec g f).
    + subst. rewrite Ha in *. injection Hb as <-. exists a'. simpl. rewrite Nat.eqb_refl. repeat split; lia.
    + exists b. destruct (Nat.eqb_spec f g); [congruence|]. repeat split; auto; lia.
  - exact (i_fifo I).
  - intros g. rewrite qcount_app, map_id_set_afile. intros Hg. destruct (Nat.eqb_spec f g).
    + subst. exact (find_afile_cnt Ha).
    + apply (i_data I). lia.
  - intros g r Hr. destruct (i_rb I Hr) as (b & Hb & H1 & H2 & H3). rewrite find_set_afile. simpl.
    rewrite qcount_app. destruct (Nat.eqb_spec g f).
    + subst. rewrite Ha in *. injection Hb as <-. exists a'. simpl. rewrite Nat.eqb_refl. repeat split; auto; lia.
    + exists b. destruct (Nat.eqb_spec f g); [congruence|]. rewrite Nat.add_0_r. auto.
  - intros g b Hz Hb. rewrite find_set_afile in Hb. simpl in Hb. destruct (Nat.eqb_spec g f).
    + subst. rewrite Ha in Hb. injection Hb as <-. destruct (i_done I Hz Ha) as (_ & E & _). lia.
    + destruct (i_done I Hz Hb) as (H1 & H2 & H3). rewrite qcount_app.
      destruct (Nat.eqb_spec f g); [congruence|]. repeat split; auto; lia.
  - intros g b Hb He. rewrite find_set_afile in Hb. simpl in Hb. destruct (Nat.eqb_spec g f).
    + subst. rewrite Ha in Hb. injection Hb as <-. simpl in He. exact (i_end I Ha He).
    + exact (i_end I Hb He).
  - rewrite map_id_set_afile. exact (i_r2s I).
  - pose proof (i_fin I) as F. destruct sd; [|exact F]. destruct F as (_ & EA & _). subst A. discriminate.
Qed.

Lemma inv_sendend n P A K C D Q B Z sd rd f a :
  Inv n P A K C D Q B Z sd rd -> find_afile f A = Some a -> a_next a = a_total a -> a_end a = false ->
  Inv n P (set_afile {| a_id := f; a_total := a_total a; a_next := a_next a; a_end := true |} A) K
        (C ++ [GEnd f]) D Q B Z sd rd.
Proof.
  intros I Ha Hnt Hend. set (a' := {| a_id := f; a_total := a_total a; a_next := a_next a; a_end := true |}).
  assert (Hsb : sbegins (C ++ [GEnd f]) = sbegins C) by (rewrite sbegins_app; simpl; apply app_nil_r).
  assert (Hsd : sd = false).
  { pose proof (i_fin I) as F. destruct sd; [|reflexivity]. destruct F as (_ & EA & _). subst A. discriminate. }
  subst sd.
  constructor.
  - rewrite map_id_set_afile. exact (i_uniq I).
  - rewrite length_set_afile. exact (i_len I).
  - intros g b Hb. rewrite find_set_afile in Hb. simpl in Hb. destruct (Nat.eqb_spec g f).
    + subst. rewrite Ha in Hb. injection Hb as <-. simpl. split; [lia|auto].
    + exact (i_act I Hb).
  - rewrite Hsb. exact (i_st1 I).
  - rewrite Hsb, map_id_set_afile. exact (i_st2 I).
  - rewrite Hsb, map_id_set_afile. exact (i_st3 I).
  - rewrite map_id_set_afile. exact (i_st4 I).
  - intros g u Hin. apply in_app_or in Hin. destruct Hin as [Hin|[E|[]]]; [|discriminate].
    destruct (i_beg I Hin) as (b & Hb & Ht & Hq). rewrite find_set_afile. simpl. destruct (Nat.eqb_spec g f).
    + subst. rewrite Ha in *. injection Hb as <-. exists a'. simpl. auto.
    + exists b. auto.
  - apply ends_ok_app; [exact (i_fifo I)|]. intros g E. injection E as <-. apply cnt_In. rewrite !cnt_app.
    nf I f. pose proof (find_afile_cnt Ha). lia.
  - rewrite map_id_set_afile. exact (i_data I).
  - intros g r Hr. destruct (i_rb I Hr) as (b & Hb & H1 & H2 & H3). rewrite find_set_afile. simpl.
    destruct (Nat.eqb_spec g f).
    + subst. rewrite Ha in *. injection Hb as <-. exists a'. simpl. repeat split; auto.
      intros _. right. apply in_or_app. right. left. reflexivity.
    + exists b. repeat split; auto. intros H0. destruct (H3 H0); [auto|right; apply in_or_app; auto].
  - intros g b Hz Hb. rewrite find_set_afile in Hb. simpl in Hb. destruct (Nat.eqb_spec g f).
    + subst. rewrite Ha in Hb. injection Hb as <-. simpl. exact (i_done I Hz Ha).
    + exact (i_done I Hz Hb).
  - intros g b Hb He. rewrite find_set_afile in Hb. simpl in Hb. destruct (Nat.eqb_spec g f).
    + subst. left. apply in_or_app. right. left. reflexivity.
    + destruct (i_end I Hb He) as [H|[H|H]]; [left; apply in_or_app; auto|auto|auto].
  - rewrite map_id_set_afile. exact (i_r2s I).
  - apply fin_push with (P := P) (A := A); [discriminate|exact (i_fin I)].
Qed.

Lemma inv_ack n P A K C D Q B Z sd rd f a :
  Inv n P A K C (f :: D) Q B Z sd rd -> find_afile f A = Some a -> a_end a = true ->
  Inv n P (remove_afile f A) (f :: K) C D Q B Z sd rd.
Proof.
  intros I Ha Hend.
  pose proof (find_afile_cnt Ha) as Hc.
  pose proof (cnt_remove_afile_same Hc) as Hrm.
  destruct (i_r2s I f) as [R1 R2]. simpl in R1. rewrite Nat.eqb_refl in R1.
  destruct R2 as [Hz _]; [left; reflexivity|].
  destruct (i_done I Hz Ha) as (Hq & Hnt & _).
  assert (Hne : forall g b, find_afile g (remove_afile f A) = Some b -> g <> f).
  { intros g b Hb ->. apply find_afile_cnt in Hb. nf I f. lia. }
  assert (Hsd : sd = false).
  { pose proof (i_fin I) as F. destruct sd; [|reflexivity]. destruct F as (_ & EA & _). subst A. discriminate. }
  subst sd.
  constructor.
  - intros g. nf I g. simpl. destruct (Nat.eq_dec g f) as [->|N].
    + rewrite Nat.eqb_refl. lia.
    + rewrite (cnt_remove_afile_ne _ N). destruct (Nat.eqb_spec f g); [congruence|lia].
  - simpl. pose proof (length_remove_afile Hc). pose proof (i_len I). lia.
  - intros g b Hb. pose proof (Hne _ _ Hb) as N. rewrite (find_remove_afile_ne _ N) in Hb. exact (i_act I Hb).
  - exact (i_st1 I).
  - intros g Hg. destruct (Nat.eq_dec g f) as [->|N]; [nf I f; lia|].
    rewrite (cnt_remove_afile_ne _ N) in Hg. exact (i_st2 I _ Hg).
  - intros g Hg. destruct (Nat.eq_dec g f) as [->|N]; [nf I f; lia|].
    rewrite (cnt_remove_afile_ne _ N). exact (i_st3 I _ Hg).
  - intros g Hg. nf I g. simpl. destruct (Nat.eq_dec g f) as [->|N].
    + rewrite Nat.eqb_refl. lia.
    + rewrite (cnt_remove_afile_ne _ N). lia.
  - intros g u Hin. destruct (i_beg I Hin) as (b & Hb & Ht & Hq'). exists b.
    assert (g <> f). { intros ->. apply In_sbegins in Hin. nf I f. lia. }
    rewrite find_remove_afile_ne; auto.
  - exact (i_fifo I).
  - intros g Hg. assert (g <> f) by (intros ->; lia). rewrite cnt_remove_afile_ne; [|assumption]. exact (i_data I _ Hg).
  - intros g r Hr. destruct (i_rb I Hr) as (b & Hb & H1 & H2 & H3). exists b.
    assert (g <> f). { intros ->. apply find_rfile_cnt in Hr. nf I f. lia. }
    rewrite find_remove_afile_ne; auto.
  - intros g b Hg Hb. pose proof (Hne _ _ Hb) as N. rewrite (find_remove_afile_ne _ N) in Hb.
    destruct (i_done I Hg Hb) as (X1 & X2 & [X3|X3]); [congruence|auto].
  - intros g b Hb He. pose proof (Hne _ _ Hb) as N. rewrite (find_remove_afile_ne _ N) in Hb. exact (i_end I Hb He).
  - intros g. destruct (i_r2s I g) as [S1 S2]. simpl in S1. split; [lia|]. intros Hin.
    assert (g <> f). { intros ->. apply cnt_In in Hin. lia. }
    rewrite cnt_remove_afile_ne; [|assumption]. apply S2. right. exact Hin.
  - pose proof (i_fin I) as F. unfold Fin in *. exact F.
Qed.

Lemma inv_finish n K C D Q B Z rd :
  Inv n [] [] K C D Q B Z false rd -> Inv n [] [] K (C ++ [GEndAll]) D Q B Z true rd.
Proof.
  intros I.
  assert (Hsb : sbegins (C ++ [GEndAll]) = sbegins C) by (rewrite sbegins_app; simpl; apply app_nil_r).
  constructor; try rewrite Hsb.
  - exact (i_uniq I).
  - exact (i_len I).
  - exact (i_act I).
  - exact (i_st1 I).
  - exact (i_st2 I).
  - exact (i_st3 I).
  - exact (i_st4 I).
  - intros g u Hin. apply in_app_or in Hin. destruct Hin as [Hin|[E|[]]]; [|discriminate]. exact (i_beg I Hin).
  - apply ends_ok_app; [exact (i_fifo I)|intros; discriminate].
  - exact (i_data I).
  - intros g r Hr. destruct (i_rb I Hr) as (b & Hb & _). discriminate.
  - exact (i_done I).
  - intros g b Hb. discriminate.
  - exact (i_r2s I).
  - destruct (i_fin I) as [Hr Hn]. subst rd. unfold Fin. repeat split. exists C. auto.
Qed.

(* ---------------------------------------------------------------- preservation: receiver events *)

Lemma inv_recv_begin n P A K C D Q B Z sd f t :
  Inv n P A K (GBegin f t :: C) D Q B Z sd false ->
  Inv n P A K C D Q (B ++ [{| r_id := f; r_rem := t |}]) Z sd false.
Proof.
  intros I. constructor.
  - exact (i_uniq I).
  - exact (i_len I).
  - exact (i_act I).
  - intros g. pose proof (i_st1 I g) as H. simpl in H. rewrite map_app, cnt_app. simpl. lia.
  - intros g Hg. pose proof (i_st2 I g Hg) as H. simpl in H. rewrite map_app, cnt_app. simpl. lia.
  - intros g Hg. apply (i_st3 I g). simpl. rewrite map_app, cnt_app in Hg. simpl in Hg. lia.
  - exact (i_st4 I).
  - intros g u Hin. apply (i_beg I). right. exact Hin.
  - pose proof (i_fifo I) as F. simpl in F. eapply ends_ok_incl; [|exact F].
    intros x Hx. apply cnt_In. apply cnt_In in Hx. simpl in Hx. rewrite map_app, !cnt_app in *. simpl. lia.
  - exact (i_data I).
  - intros g r Hr. rewrite find_rfile_app in Hr. destruct (find_rfile g B) eqn:E.
    + injection Hr as <-. destruct (i_rb I E) as (a & Ha & H1 & H2 & H3). exists a. repeat split; auto.
      intros H0. destruct (H3 H0) as [X|[X|X]]; [auto|discriminate|auto].
    + simpl in Hr. destruct (Nat.eqb_spec f g); [|discriminate]. subst g. injection Hr as <-. simpl.
      destruct (i_beg I (or_introl eq_refl)) as (a & Ha & Ht & Hq). exists a.
      destruct (i_act I Ha) as [L1 L2]. split; [exact Ha|]. split; [lia|]. split; [lia|]. intros H0.
      destruct (a_end a) eqn:Ee; [right|left; reflexivity].
      destruct (i_end I Ha Ee) as [[X|X]|[X|(r & X & _)]].
      * discriminate.
      * exact X.
      * pose proof (i_st1 I f) as S1. simpl in S1. rewrite Nat.eqb_refl in S1. lia.
      * congruence.
  - exact (i_done I).
  - intros g a Ha He. destruct (i_end I Ha He) as [[X|X]|[X|(r & X & Y)]].
    + discriminate.
    + left. exact X.
    + right. left. exact X.
    + right. right. exists r. rewrite find_rfile_app, X. auto.
  - exact (i_r2s I).
  - apply fin_pop with (m := GBegin f t); [discriminate|exact (i_fin I)].
Qed.

(* FileEnd of a begun file with nothing missing (an empty file): finalized *)
Lemma inv_recv_end_fin n P A K C D Q B Z sd f r :
  Inv n P A K (GEnd f :: C) D Q B Z sd false -> find_rfile f B = Some r -> r_rem r = 0 ->
  Inv n P A K C (D ++ [f]) Q (remove_rfile f B) (f :: Z) sd false.
Proof.
  intros I Hr Hrem.
  pose proof (find_rfile_cnt Hr) as Hc.
  pose proof (cnt_remove_rfile_same Hc) as Hrm.
  destruct (i_rb I Hr) as (a & Ha & H1 & H2 & H3).
  destruct (i_act I Ha) as [L1 L2].
  pose proof (i_st1 I f) as S1. simpl in S1.
  assert (HD : cnt f D = 0).
  { destruct (i_r2s I f) as [R1 R2]. destruct (cnt f D) eqn:Ec; [reflexivity|].
    destruct R2; [apply cnt_In; lia|lia]. }
  constructor.
  - exact (i_uniq I).
  - exact (i_len I).
  - exact (i_act I).
  - intros g. pose proof (i_st1 I g) as H. simpl in *. destruct (Nat.eq_dec g f) as [->|N].
    + rewrite Nat.eqb_refl. lia.
    + rewrite (cnt_remove_rfile_ne _ N). destruct (Nat.eqb_spec f g); [congruence|lia].
  - intros g Hg. pose proof (i_st2 I g Hg) as H. simpl in *. destruct (Nat.eq_dec g f) as [->|N].
    + rewrite Nat.eqb_refl. lia.
    + rewrite (cnt_remove_rfile_ne _ N). lia.
  - intros g Hg. apply (i_st3 I g). simpl. destruct (Nat.eq_dec g f) as [->|N]; [lia|].
    rewrite (cnt_remove_rfile_ne _ N) in Hg. exact Hg.
  - intros g Hg. simpl in Hg. destruct (Nat.eqb_spec f g).
    + subst. pose proof (i_st3 I g). simpl in *. lia.
    + apply (i_st4 I g). lia.
  - intros g u Hin. apply (i_beg I). right. exact Hin.
  - pose proof (i_fifo I) as F. simpl in F. destruct F as [_ F]. eapply ends_ok_incl; [|exact F].
    intros x Hx. apply cnt_In. apply cnt_In in Hx. rewrite !cnt_app in *. simpl.
    destruct (Nat.eq_dec x f) as [->|N]; [rewrite Nat.eqb_refl; lia|]. rewrite (cnt_remove_rfile_ne _ N). lia.
  - exact (i_data I).
  - intros g r' Hr'.
    assert (N : g <> f). { intros ->. apply find_rfile_cnt in Hr'. lia. }
    rewrite (find_remove_rfile_ne _ N) in Hr'. destruct (i_rb I Hr') as (b & Hb & G1 & G2 & G3).
    exists b. repeat split; auto. intros H0. destruct (G3 H0) as [X|[X|X]]; [auto|congruence|auto].
  - intros g b Hz Hb. simpl in Hz. destruct (Nat.eq_dec g f) as [->|N].
    + rewrite Ha in Hb. injection Hb as <-. repeat split; [lia|lia|apply in_or_app; right; left; reflexivity].
    + destruct (Nat.eqb_spec f g); [congruence|]. destruct (@i_done _ _ _ _ _ _ _ _ _ _ _ I g b) as (X1 & X2 & X3); [lia|auto|].
      repeat split; auto. apply in_or_app. auto.
  - intros g b Hb He. destruct (Nat.eq_dec g f) as [->|N].
    + right. left. simpl. rewrite Nat.eqb_refl. lia.
    + destruct (i_end I Hb He) as [[X|X]|[X|(r' & X & Y)]].
      * congruence.
      * left. exact X.
      * right. left. simpl. lia.
      * right. right. exists r'. rewrite (find_remove_rfile_ne _ N). auto.
  - intros g. destruct (i_r2s I g) as [R1 R2]. rewrite cnt_app. simpl. split.
    + destruct (Nat.eqb_spec f g); [subst; lia|lia].
    + intros Hin. apply in_app_or in Hin. destruct Hin as [Hin|[<-|[]]].
      * destruct (R2 Hin). split; [lia|assumption].
      * rewrite Nat.eqb_refl. split; [lia|exact (find_afile_cnt Ha)].
  - apply fin_pop with (m := GEnd f); [discriminate|exact (i_fin I)].
Qed.

(* FileEnd of a file with chunks missing, or of an already finished file: nothing happens *)
Lemma inv_recv_end_skip n P A K C D Q B Z sd f :
  Inv n P A K (GEnd f :: C) D Q B Z sd false ->
  (exists r, find_rfile f B = Some r /\ 0 < r_rem r) \/ (find_rfile f B = None /\ 0 < cnt f Z) ->
  Inv n P A K C D Q B Z sd false.
Proof.
  intros I Hcase. constructor.
  - exact (i_uniq I).
  - exact (i_len I).
  - exact (i_act I).
  - exact (i_st1 I).
  - exact (i_st2 I).
  - exact (i_st3 I).
  - exact (i_st4 I).
  - intros g u Hin. apply (i_beg I). right. exact Hin.
  - pose proof (i_fifo I) as F. simpl in F. tauto.
  - exact (i_data I).
  - intros g r' Hr'. destruct (i_rb I Hr') as (b & Hb & G1 & G2 & G3).
    exists b. repeat split; auto. intros H0. destruct (G3 H0) as [X|[X|X]]; [auto| |auto].
    injection X as <-. destruct Hcase as [(r & X1 & X2)|[X1 _]]; [|congruence].
    rewrite X1 in Hr'. injection Hr' as <-. lia.
  - exact (i_done I).
  - intros g b Hb He. destruct (i_end I Hb He) as [[X|X]|[X|X]]; auto.
    injection X as <-. destruct Hcase as [X|[_ X]]; auto.
  - exact (i_r2s I).
  - apply fin_pop with (m := GEnd f); [discriminate|exact (i_fin I)].
Qed.

Lemma inv_recv_endall n P A K C D Q B Z sd :
  Inv n P A K (GEndAll :: C) D Q B Z sd false -> Inv n P A K C D Q B Z sd true.
Proof.
  intros I. constructor.
  - exact (i_uniq I).
  - exact (i_len I).
  - exact (i_act I).
  - exact (i_st1 I).
  - exact (i_st2 I).
  - exact (i_st3 I).
  - exact (i_st4 I).
  - intros g u Hin. apply (i_beg I). right. exact Hin.
  - exact (i_fifo I).
  - exact (i_data I).
  - intros g r' Hr'. destruct (i_rb I Hr') as (b & Hb & G1 & G2 & G3).
    exists b. repeat split; auto. intros H0. destruct (G3 H0) as [X|[X|X]]; [auto|discriminate|auto].
  - exact (i_done I).
  - intros g b Hb He. destruct (i_end I Hb He) as [[X|X]|[X|X]]; auto. discriminate.
  - exact (i_r2s I).
  - pose proof (i_fin I) as F. unfold Fin in *. destruct sd.
    + destruct F as (EP & EA & l & El & Hl). repeat split; auto. destruct l as [|c l]; simpl in El.
      * injection El as E. exact E.
      * injection El as E1 E2. exfalso. apply Hl. left. auto.
    + destruct F as [_ F]. exfalso. apply F. left. reflexivity.
Qed.

(* a chunk that is not the last missing one *)
Lemma inv_recv_chunk_dec n P A K C D Q B Z sd rd w f r m :
  Inv n P A K C D Q B Z sd rd -> head_on w Q = Some f -> find_rfile f B = Some r -> r_rem r = S (S m) ->
  Inv n P A K C D (drop_on w Q) (set_rfile {| r_id := f; r_rem := S m |} B) Z sd rd.
Proof.
  intros I Hh Hr Hrem. pose proof (drop_on_cnt Hh) as HQ.
  set (r' := {| r_id := f; r_rem := S m |}).
  constructor.
  - exact (i_uniq I).
  - exact (i_len I).
  - exact (i_act I).
  - rewrite map_id_set_rfile. exact (i_st1 I).
  - rewrite map_id_set_rfile. exact (i_st2 I).
  - rewrite map_id_set_rfile. exact (i_st3 I).
  - exact (i_st4 I).
  - intros g u Hin. destruct (i_beg I Hin) as (b & Hb & Ht & Hq). exists b. repeat split; auto.
    rewrite <- Hq, (HQ g). destruct (Nat.eqb_spec f g); [|reflexivity]. subst.
    apply In_sbegins in Hin. apply find_rfile_cnt in Hr. pose proof (i_st1 I g). lia.
  - rewrite map_id_set_rfile. exact (i_fifo I).
  - intros g Hg. apply (i_data I). rewrite (HQ g). lia.
  - intros g x Hx. rewrite find_set_rfile in Hx. simpl in Hx. destruct (Nat.eqb_spec g f).
    + subst. rewrite Hr in Hx. injection Hx as <-. destruct (i_rb I Hr) as (b & Hb & G1 & G2 & G3).
      exists b. simpl. rewrite (HQ f), Nat.eqb_refl in G1. repeat split; auto; lia.
    + destruct (i_rb I Hx) as (b & Hb & G1 & G2 & G3). exists b. rewrite (HQ g) in G1.
      destruct (Nat.eqb_spec f g); [congruence|]. repeat split; auto.
  - intros g b Hz Hb. destruct (i_done I Hz Hb) as (X1 & X2 & X3). rewrite (HQ g) in X1. repeat split; auto. lia.
  - intros g b Hb He. destruct (i_end I Hb He) as [X|[X|(x & X & Y)]]; auto. right. right.
    rewrite find_set_rfile. simpl. destruct (Nat.eqb_spec g f).
    + subst. rewrite X. exists r'. simpl. split; [reflexivity|lia].
    + exists x. auto.
  - exact (i_r2s I).
  - exact (i_fin I).
Qed.

(* the last missing chunk: the file is finalized *)
Lemma inv_recv_chunk_fin n P A K C D Q B Z sd rd w f r :
  Inv n P A K C D Q B Z sd rd -> head_on w Q = Some f -> find_rfile f B = Some r -> r_rem r = 1 ->
  Inv n P A K C (D ++ [f]) (drop_on w Q) (remove_rfile f B) (f :: Z) sd rd.
Proof.
  intros I Hh Hr Hrem. pose proof (drop_on_cnt Hh) as HQ.
  pose proof (find_rfile_cnt Hr) as Hc.
  pose proof (cnt_remove_rfile_same Hc) as Hrm.
  destruct (i_rb I Hr) as (a & Ha & H1 & H2 & H3).
  destruct (i_act I Ha) as [L1 L2].
  pose proof (i_st1 I f) as S1.
  pose proof (HQ f) as HQf. rewrite Nat.eqb_refl in HQf.
  assert (HD : cnt f D = 0).
  { destruct (i_r2s I f) as [R1 R2]. destruct (cnt f D) eqn:Ec; [reflexivity|].
    destruct R2; [apply cnt_In; lia|lia]. }
  constructor.
  - exact (i_uniq I).
  - exact (i_len I).
  - exact (i_act I).
  - intros g. pose proof (i_st1 I g) as H. simpl. destruct (Nat.eq_dec g f) as [->|N].
    + rewrite Nat.eqb_refl. lia.
    + rewrite (cnt_remove_rfile_ne _ N). destruct (Nat.eqb_spec f g); [congruence|lia].
  - intros g Hg. pose proof (i_st2 I g Hg) as H. simpl. destruct (Nat.eq_dec g f) as [->|N].
    + rewrite Nat.eqb_refl. lia.
    + rewrite (cnt_remove_rfile_ne _ N). lia.
  - intros g Hg. apply (i_st3 I g). destruct (Nat.eq_dec g f) as [->|N]; [lia|].
    rewrite (cnt_remove_rfile_ne _ N) in Hg. exact Hg.
  - intros g Hg. simpl in Hg. destruct (Nat.eqb_spec f g).
    + subst. pose proof (i_st3 I g). lia.
    + apply (i_st4 I g). lia.
  - intros g u Hin. destruct (i_beg I Hin) as (b & Hb & Ht & Hq). exists b. repeat split; auto.
    rewrite <- Hq, (HQ g). destruct (Nat.eqb_spec f g); [|reflexivity]. subst.
    apply In_sbegins in Hin. lia.
  - eapply ends_ok_incl; [|exact (i_fifo I)].
    intros x Hx. apply cnt_In. apply cnt_In in Hx. rewrite !cnt_app in *. simpl.
    destruct (Nat.eq_dec x f) as [->|N]; [rewrite Nat.eqb_refl; lia|]. rewrite (cnt_remove_rfile_ne _ N). lia.
  - intros g Hg. apply (i_data I). rewrite (HQ g). lia.
  - intros g r' Hr'.
    assert (N : g <> f). { intros ->. apply find_rfile_cnt in Hr'. lia. }
    rewrite (find_remove_rfile_ne _ N) in Hr'. destruct (i_rb I Hr') as (b & Hb & G1 & G2 & G3).
    exists b. rewrite (HQ g) in G1. destruct (Nat.eqb_spec f g); [congruence|]. repeat split; auto.
  - intros g b Hz Hb. simpl in Hz. destruct (Nat.eq_dec g f) as [->|N].
    + rewrite Ha in Hb. injection Hb as <-. repeat split; [lia|lia|apply in_or_app; right; left; reflexivity].
    + destruct (Nat.eqb_spec f g); [congruence|]. destruct (@i_done _ _ _ _ _ _ _ _ _ _ _ I g b) as (X1 & X2 & X3); [lia|auto|].
      rewrite (HQ g) in X1. repeat split; auto; [lia|]. apply in_or_app. auto.
  - intros g b Hb He. destruct (Nat.eq_dec g f) as [->|N].
    + right. left. simpl. rewrite Nat.eqb_refl. lia.
    + destruct (i_end I Hb He) as [X|[X|(r' & X & Y)]].
      * left. exact X.
      * right. left. simpl. lia.
      * right. right. exists r'. rewrite (find_remove_rfile_ne _ N). auto.
  - intros g. destruct (i_r2s I g) as [R1 R2]. rewrite cnt_app. simpl. split.
    + destruct (Nat.eqb_spec f g); [subst; lia|lia].
    + intros Hin. apply in_app_or in Hin. destruct Hin as [Hin|[<-|[]]].
      * destruct (R2 Hin). split; [lia|assumption].
      * rewrite Nat.eqb_refl. split; [lia|exact (find_afile_cnt Ha)].
  - exact (i_fin I).
Qed.

(* ---------------------------------------------------------------- the invariant on states *)

Definition GInv (s : gst) : Prop :=
  Inv (g_nfiles s) (g_pending s) (g_active s) (g_acked s) (g_s2r s) (g_r2s s) (g_data s) (g_rbegun s) (g_rdone s)
      (g_sender_done s) (g_recv_done s).

Lemma ginv_init par gated files : NoDup (map fst files) -> GInv (ginit par gated files).
Proof. intros H. unfold GInv. simpl. apply inv_init. exact H. Qed.

Ltac dm H := repeat match type of H with context [match ?x with _ => _ end] => destruct x; try discriminate H end.

Lemma gstep_params s e s' : gstep s e = Some s' ->
  g_par s' = g_par s /\ g_gated s' = g_gated s /\ g_nfiles s' = g_nfiles s.
Proof.
  intros H. destruct e; simpl in H; dm H; injection H as <-; simpl; auto.
Qed.

Lemma ginv_step s e s' : g_gated s = false -> GInv s -> gstep s e = Some s' -> GInv s'.
Proof.
  unfold GInv. intros Hg I H. destruct e; simpl in H.
  - destruct (find_pending f (g_pending s)) eqn:Ef; [|discriminate].
    destruct (length (g_active s) <? g_par s); [|discriminate]. injection H as <-. simpl.
    apply inv_activate; assumption.
  - destruct (w <? g_par s); [|discriminate]. destruct (find_afile f (g_active s)) eqn:Ea; [|discriminate].
    destruct (a_next a <? a_total a) eqn:El; [|discriminate]. apply Nat.ltb_lt in El. injection H as <-. simpl.
    apply inv_sendchunk; assumption.
  - destruct (find_afile f (g_active s)) eqn:Ea; [|discriminate].
    destruct (Nat.eqb (a_next a) (a_total a) && negb (a_end a)) eqn:Ec; [|discriminate].
    apply andb_prop in Ec. destruct Ec as [E1 E2]. apply Nat.eqb_eq in E1. apply negb_true_iff in E2.
    injection H as <-. simpl. apply inv_sendend; assumption.
  - destruct (g_recv_done s) eqn:Erd; [discriminate|]. rewrite Hg in H. simpl in H.
    destruct (g_s2r s) as [|[f t|f|] rest] eqn:EC; [discriminate|..].
    + injection H as <-. simpl. apply inv_recv_begin. exact I.
    + destruct (find_rfile f (g_rbegun s)) eqn:Er.
      * destruct (Nat.eqb_spec (r_rem r) 0); injection H as <-; simpl.
        -- eapply inv_recv_end_fin; eassumption.
        -- eapply inv_recv_end_skip; [exact I|]. left. exists r. split; [assumption|lia].
      * destruct (memn f (g_rdone s)) eqn:Em; [|discriminate]. apply memn_cnt in Em. injection H as <-. simpl.
        eapply inv_recv_end_skip; [exact I|]. right. auto.
    + injection H as <-. simpl. eapply inv_recv_endall. exact I.
  - destruct (g_recv_done s) eqn:Erd; [discriminate|].
    destruct (head_on w (g_data s)) as [f|] eqn:Eh; [|discriminate].
    pose proof (drop_on_cnt Eh f) as HQ. rewrite Nat.eqb_refl in HQ.
    destruct (find_rfile f (g_rbegun s)) eqn:Er.
    + destruct (i_rb I Er) as (a & Ha & G1 & _).
      destruct (r_rem r) as [|[|m]] eqn:Erem; injection H as <-; simpl.
      * exfalso. lia.
      * eapply inv_recv_chunk_fin; eassumption.
      * eapply inv_recv_chunk_dec; eassumption.
    + destruct (memn f (g_rdone s)) eqn:Em; [|discriminate]. apply memn_cnt in Em. exfalso.
      assert (Hact : 0 < cnt f (map a_id (g_active s))) by (apply (i_data I); lia).
      apply cnt_find_afile in Hact. destruct Hact as [a Ha]. destruct (i_done I Em Ha) as (X & _). lia.
  - destruct (g_r2s s) as [|f D] eqn:ED; [discriminate|].
    destruct (find_afile f (g_active s)) eqn:Ea; [|discriminate].
    destruct (a_end a) eqn:Ee; [|discriminate]. injection H as <-. simpl. eapply inv_ack; eassumption.
  - destruct (g_sender_done s) eqn:Esd; [discriminate|].
    destruct (g_pending s) eqn:EP; [|discriminate]. destruct (g_active s) eqn:EA; [|discriminate].
    injection H as <-. simpl. apply inv_finish. exact I.
Qed.

Lemma ginv_run evs : forall s s', g_gated s = false -> GInv s -> grun s evs = Some s' ->
  GInv s' /\ g_gated s' = false /\ g_par s' = g_par s /\ g_nfiles s' = g_nfiles s.
Proof.
  induction evs as [|e r IH]; simpl; intros s s' Hg I H.
  - injection H as <-. auto.
  - destruct (gstep s e) as [s1|] eqn:E; [|discriminate].
    destruct (gstep_params _ _ _ E) as (P1 & P2 & P3).
    destruct (IH s1 s') as (J & J1 & J2 & J3); [congruence|eapply ginv_step; eassumption|exact H|].
    split; [exact J|]. split; [exact J1|]. split; congruence.
Qed.

(* ---------------------------------------------------------------- progress *)

Lemma ginv_progress s : GInv s -> 1 <= g_par s -> g_gated s = false ->
  gfinal s = true \/ exists e s', gstep s e = Some s'.
Proof.
  unfold GInv. intros I Hp Hg.
  assert (Hp0 : (0 <? g_par s) = true) by (apply Nat.ltb_lt; lia).
  destruct (g_recv_done s) eqn:Erd.
  { left. unfold gfinal. rewrite Erd. pose proof (i_fin I) as F. unfold Fin in F.
    destruct (g_sender_done s); [reflexivity|]. destruct F; discriminate. }
  right. destruct (g_s2r s) as [|m rest] eqn:EC.
  2: { exists GRecvCtl. simpl. rewrite Erd, Hg, EC. simpl. destruct m as [f t|f|]; [eauto| |eauto].
       pose proof (i_fifo I) as F. simpl in F. destruct F as [F _].
       destruct (find_rfile f (g_rbegun s)) eqn:Er; [destruct (Nat.eqb (r_rem r) 0); eauto|].
       apply cnt_In in F. rewrite cnt_app in F. apply find_rfile_none in Er.
       assert (Hm : memn f (g_rdone s) = true) by (apply memn_cnt; lia). rewrite Hm. eauto. }
  destruct (g_r2s s) as [|f D] eqn:ED.
  2: { destruct (i_r2s I f) as [_ R]. destruct R as [Hz Ha]; [left; reflexivity|].
       apply cnt_find_afile in Ha. destruct Ha as [a Ha]. destruct (a_end a) eqn:Ee.
       - exists GAck. simpl. rewrite ED, Ha, Ee. eauto.
       - exists (GSendEnd f). simpl. rewrite Ha, Ee. destruct (i_done I Hz Ha) as (_ & X & _).
         rewrite X, Nat.eqb_refl. simpl. eauto. }
  destruct (g_data s) as [|[w f] Q] eqn:EQ.
  2: { exists (GRecvChunk w). simpl. rewrite Erd, EQ. simpl. rewrite Nat.eqb_refl.
       destruct (find_rfile f (g_rbegun s)) eqn:Er; [destruct (r_rem r) as [|[|m]]; eauto|].
       apply find_rfile_none in Er.
       assert (Hact : 0 < cnt f (map a_id (g_active s))).
       { apply (i_data I). unfold qcount. simpl. rewrite Nat.eqb_refl. lia. }
       pose proof (i_st2 I f Hact) as S2. simpl in S2.
       assert (Hm : memn f (g_rdone s) = true) by (apply memn_cnt; lia). rewrite Hm. eauto. }
  destruct (g_active s) as [|a A] eqn:EA.
  2: { assert (Ha : find_afile (a_id a) (a :: A) = Some a) by (simpl; rewrite Nat.eqb_refl; reflexivity).
       destruct (i_act I Ha) as [L1 L2]. destruct (a_next a <? a_total a) eqn:El.
       - exists (GSendChunk 0 (a_id a)). simpl. rewrite Hp0, EA, Ha, El. eauto.
       - apply Nat.ltb_ge in El. assert (Ent : a_next a = a_total a) by lia. destruct (a_end a) eqn:Ee.
         + exfalso. destruct (i_end I Ha Ee) as [X|[X|(r & X & Y)]].
           * destruct X.
           * destruct (i_done I X Ha) as (_ & _ & []).
           * destruct (i_rb I X) as (b & Hb & G1 & _). rewrite Ha in Hb. injection Hb as <-.
             unfold qcount in G1. simpl in G1. lia.
         + exists (GSendEnd (a_id a)). simpl. rewrite EA, Ha, Ee, Ent, Nat.eqb_refl. simpl. eauto. }
  destruct (g_pending s) as [|[f t] P] eqn:EP.
  2: { exists (GActivate f). simpl. rewrite EP, EA. simpl. rewrite Nat.eqb_refl, Hp0. eauto. }
  destruct (g_sender_done s) eqn:Esd.
  - exfalso. pose proof (i_fin I) as F. unfold Fin in F. destruct F as (_ & _ & l & El & _).
    destruct l; discriminate.
  - exists GFinish. simpl. rewrite Esd, EP, EA. eauto.
Qed.

(* the same, sharpened: an enabled step can always be chosen so that it asks the
   scheduler for a new file only when NO file is active.  The model leaves the
   scheduler's pick free and always grants it; the real hybrid scheduler may
   refuse while small files are running (C17_sched_refusal) but never refuses when
   nothing is active (C17_files_live) - so its refusals cannot stall a transfer. *)
Ltac done_na := eexists; split; [reflexivity | let Hq := fresh "Hq" in intros ? Hq; first [discriminate Hq | reflexivity]].

Lemma ginv_progress_idle s : GInv s -> 1 <= g_par s -> g_gated s = false ->
  gfinal s = true \/ exists e s', gstep s e = Some s' /\ (forall f, e = GActivate f -> g_active s = []).
Proof.
  unfold GInv. intros I Hp Hg.
  assert (Hp0 : (0 <? g_par s) = true) by (apply Nat.ltb_lt; lia).
  destruct (g_recv_done s) eqn:Erd.
  { left. unfold gfinal. rewrite Erd. pose proof (i_fin I) as F. unfold Fin in F.
    destruct (g_sender_done s); [reflexivity|]. destruct F; discriminate. }
  right. destruct (g_s2r s) as [|m rest] eqn:EC.
  2: { exists GRecvCtl. simpl. rewrite Erd, Hg, EC. simpl. destruct m as [f t|f|]; [done_na| |done_na].
       pose proof (i_fifo I) as F. simpl in F. destruct F as [F _].
       destruct (find_rfile f (g_rbegun s)) eqn:Er; [destruct (Nat.eqb (r_rem r) 0); done_na|].
       apply cnt_In in F. rewrite cnt_app in F. apply find_rfile_none in Er.
       assert (Hm : memn f (g_rdone s) = true) by (apply memn_cnt; lia). rewrite Hm. done_na. }
  destruct (g_r2s s) as [|f D] eqn:ED.
  2: { destruct (i_r2s I f) as [_ R]. destruct R as [Hz Ha]; [left; reflexivity|].
       apply cnt_find_afile in Ha. destruct Ha as [a Ha]. destruct (a_end a) eqn:Ee.
       - exists GAck. simpl. rewrite ED, Ha, Ee. done_na.
       - exists (GSendEnd f). simpl. rewrite Ha, Ee. destruct (i_done I Hz Ha) as (_ & X & _).
         rewrite X, Nat.eqb_refl. simpl. done_na. }
  destruct (g_data s) as [|[w f] Q] eqn:EQ.
  2: { exists (GRecvChunk w). simpl. rewrite Erd, EQ. simpl. rewrite Nat.eqb_refl.
       destruct (find_rfile f (g_rbegun s)) eqn:Er; [destruct (r_rem r) as [|[|m]]; done_na|].
       apply find_rfile_none in Er.
       assert (Hact : 0 < cnt f (map a_id (g_active s))).
       { apply (i_data I). unfold qcount. simpl. rewrite Nat.eqb_refl. lia. }
       pose proof (i_st2 I f Hact) as S2. simpl in S2.
       assert (Hm : memn f (g_rdone s) = true) by (apply memn_cnt; lia). rewrite Hm. done_na. }
  destruct (g_active s) as [|a A] eqn:EA.
  2: { assert (Ha : find_afile (a_id a) (a :: A) = Some a) by (simpl; rewrite Nat.eqb_refl; reflexivity).
       destruct (i_act I Ha) as [L1 L2]. destruct (a_next a <? a_total a) eqn:El.
       - exists (GSendChunk 0 (a_id a)). simpl. rewrite Hp0, EA, Ha, El. done_na.
       - apply Nat.ltb_ge in El. assert (Ent : a_next a = a_total a) by lia. destruct (a_end a) eqn:Ee.
         + exfalso. destruct (i_end I Ha Ee) as [X|[X|(r & X & Y)]].
           * destruct X.
           * destruct (i_done I X Ha) as (_ & _ & []).
           * destruct (i_rb I X) as (b & Hb & G1 & _). rewrite Ha in Hb. injection Hb as <-.
             unfold qcount in G1. simpl in G1. lia.
         + exists (GSendEnd (a_id a)). simpl. rewrite EA, Ha, Ee, Ent, Nat.eqb_refl. simpl. done_na. }
  destruct (g_pending s) as [|[f t] P] eqn:EP.
  2: { exists (GActivate f). simpl. rewrite EP, EA. simpl. rewrite Nat.eqb_refl, Hp0. done_na. }
  destruct (g_sender_done s) eqn:Esd.
  - exfalso. pose proof (i_fin I) as F. unfold Fin in F. destruct F as (_ & _ & l & El & _).
    destruct l; discriminate.
  - exists GFinish. simpl. rewrite Esd, EP, EA. done_na.
Qed.


(* ---------------------------------------------------------------- the theorems *)

Theorem gate_progress : forall par files s,
  1 <= par -> NoDup (map fst files) ->
  reachable par false files s ->
  gfinal s = true \/ exists e s', gstep s e = Some s'.
Proof.
  intros par files s Hp Hn [evs H].
  destruct (ginv_run evs (ginit par false files) s eq_refl (ginv_init par false files Hn) H) as (I & Hg & Hpar & _).
  apply ginv_progress; [exact I| |exact Hg]. rewrite Hpar. simpl. exact Hp.
Qed.

Theorem gate_final_all_acked : forall par files s,
  1 <= par -> NoDup (map fst files) -> reachable par false files s -> gfinal s = true ->
  g_pending s = [] /\ g_active s = [] /\ length (g_acked s) = length files /\ g_data s = [] /\ g_s2r s = [].
Proof.
  intros par files s Hp Hn [evs H] Hf.
  destruct (ginv_run evs (ginit par false files) s eq_refl (ginv_init par false files Hn) H) as (I & Hg & _ & Hnf).
  unfold GInv in I. unfold gfinal in Hf. apply andb_prop in Hf. destruct Hf as [Hsd Hrd].
  pose proof (i_fin I) as F. unfold Fin in F. rewrite Hsd, Hrd in F. destruct F as (EP & EA & EC).
  pose proof (i_len I) as L. rewrite EP, EA, Hnf in L. simpl in L.
  repeat split; auto.
  destruct (g_data s) as [|[w f] Q] eqn:EQ; [reflexivity|]. exfalso.
  assert (X : 0 < cnt f (map a_id (g_active s))).
  { apply (i_data I). unfold qcount. simpl. rewrite Nat.eqb_refl. lia. }
  rewrite EA in X. simpl in X. lia.
Qed.

Print Assumptions gate_progress.
Print Assumptions gate_final_all_acked.

Theorem gate_progress_idle : forall par files s,
  1 <= par -> NoDup (map fst files) ->
  reachable par false files s ->
  gfinal s = true \/ exists e s', gstep s e = Some s' /\ (forall f, e = GActivate f -> g_active s = []).
Proof.
  intros par files s Hp Hn [evs H].
  destruct (ginv_run evs (ginit par false files) s eq_refl (ginv_init par false files Hn) H) as (I & Hg & Hpar & _).
  apply ginv_progress_idle; [exact I| |exact Hg]. rewrite Hpar. simpl. exact Hp.
Qed.
Print Assumptions gate_progress_idle.

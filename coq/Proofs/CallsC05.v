(* The legacy windowed receiver (manifestproto.go receiveFileChunksWindowed, used
   by RecvManifest / RecvFile): its chunk-writer goroutine writes, returns if the
   write failed, and only then records the chunk - read off the source
   (Gen/CallsC05.v).  A failed write is never recorded as a complete chunk. *)
From Coq Require Import List String Bool.
Import ListNotations.
From TF Require Import Gen.CallsC05.
Open Scope string_scope.

Fixpoint index_of (x : string) (l : list string) : nat :=
  match l with [] => 0 | y :: r => if String.eqb x y then 0 else S (index_of x r) end.

(* the mark is preceded by the positional write and by the guard that leaves on
   its error, in that order, with nothing recording a chunk before them *)
Lemma windowed_write_guard_mark :
  windowed_writer = ["call:writeAtWithTimeout"; "ret-on-err"; "call:MarkComplete"].
Proof. reflexivity. Qed.

Lemma windowed_mark_guarded :
  Nat.ltb (index_of "call:writeAtWithTimeout" windowed_writer) (index_of "ret-on-err" windowed_writer) = true /\
  Nat.ltb (index_of "ret-on-err" windowed_writer) (index_of "call:MarkComplete" windowed_writer) = true /\
  Nat.ltb (index_of "call:MarkComplete" windowed_writer) (List.length windowed_writer) = true.
Proof. repeat split. Qed.

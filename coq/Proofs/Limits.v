(* Proofs about Model/Limits.v: the connection limiter is never exceeded under
   any interleaving; the check-then-act limits (sessions, receivers per host)
   overshoot by at most (number of overlapping handlers - 1), hence hold for
   sequential histories; 0 disables a limit; the token bucket bound; the server's
   lookups succeed exactly for sessions created and not ended. *)
From Coq Require Import ZArith List Bool Lia.
Import ListNotations.
From TF Require Import Model.Session Model.Limits Proofs.Session.
Open Scope Z_scope.

Definition b2z (b : bool) : Z := if b then 1 else 0.

(* takes a hypothesis `step c s e = Some (s1, o)` (already unfolded) apart *)
Ltac split_step H :=
  cbv zeta in H;
  repeat match type of H with
  | (if ?b then _ else _) = _ => let E := fresh "E" in destruct b eqn:E
  | match ?x with _ => _ end = _ => let E := fresh "E" in destruct x eqn:E
  | None = Some _ => discriminate H
  end.

(* ---- counting handlers ---- *)
Lemma cnt_cons f x l : cnt f (x :: l) = b2z (f x) + cnt f l.
Proof. unfold cnt. cbn. destruct (f x); cbn [length b2z]; lia. Qed.

Lemma cnt_nonneg f l : 0 <= cnt f l.
Proof. unfold cnt. lia. Qed.

Lemma get_h_id h l x : get_h h l = Some x -> h_id x = h.
Proof.
  induction l as [|y r IH]; cbn; [discriminate|]. destruct (h_id y =? h) eqn:E.
  - intros [= <-]. apply Z.eqb_eq. exact E.
  - exact IH.
Qed.

Lemma get_h_in h l x : get_h h l = Some x -> In x l.
Proof.
  induction l as [|y r IH]; cbn; [discriminate|]. destruct (h_id y =? h).
  - intros [= <-]. left. reflexivity.
  - intros H. right. apply IH. exact H.
Qed.

Lemma cnt_del f h l x : get_h h l = Some x -> cnt f (del_h h l) = cnt f l - b2z (f x).
Proof.
  induction l as [|y r IH]; cbn [get_h del_h]; [discriminate|]. destruct (h_id y =? h).
  - intros [= <-]. rewrite cnt_cons. lia.
  - intros H. rewrite !cnt_cons. rewrite IH by exact H. lia.
Qed.

Lemma cnt_set f y l x : get_h (h_id y) l = Some x -> cnt f (set_h y l) = cnt f l - b2z (f x) + b2z (f y).
Proof.
  induction l as [|z r IH]; cbn [get_h set_h]; [discriminate|]. destruct (h_id z =? h_id y).
  - intros [= <-]. rewrite !cnt_cons. lia.
  - intros H. rewrite !cnt_cons. rewrite IH by exact H. lia.
Qed.

Lemma in_del_h h l x : In x (del_h h l) -> In x l.
Proof.
  induction l as [|y r IH]; cbn; [tauto|]. destruct (h_id y =? h); cbn; [tauto|]. intros [->|H]; auto.
Qed.

Lemma in_set_h y l x : In x (set_h y l) -> x = y \/ In x l.
Proof.
  induction l as [|z r IH]; cbn; [tauto|]. destruct (h_id z =? h_id y); cbn.
  - intros [->|H]; auto.
  - intros [->|H]; auto. destruct (IH H); auto.
Qed.

Lemma cnt_le f g l : (forall x, In x l -> f x = true -> g x = true) -> cnt f l <= cnt g l.
Proof.
  induction l as [|y r IH]; intros H; [unfold cnt; cbn; lia|]. rewrite !cnt_cons.
  assert (cnt f r <= cnt g r) by (apply IH; intros; apply H; [right|]; assumption).
  destruct (f y) eqn:F; [rewrite (H y (or_introl eq_refl) F)|]; destruct (g y); cbn [b2z]; lia.
Qed.

Lemma memz_in x l : memz x l = true <-> In x l.
Proof.
  induction l as [|y r IH]; cbn; [split; [discriminate|tauto]|].
  rewrite orb_true_iff, IH, Z.eqb_eq. split; intros [H|H]; auto.
Qed.

Lemma length_remz x l : memz x l = true -> S (length (remz x l)) = length l.
Proof.
  induction l as [|y r IH]; cbn; [discriminate|]. destruct (x =? y); cbn; [reflexivity|].
  intros H. rewrite IH by exact H. reflexivity.
Qed.

Lemma in_remz x y l : In y (remz x l) -> In y l.
Proof.
  induction l as [|z r IH]; cbn; [tauto|]. destruct (x =? z); cbn; [tauto|]. intros [->|H]; auto.
Qed.

(* ==== 1. concurrent connections: Acquire is atomic, the limit holds under every interleaving ==== *)
Definition slot_inv (s : st) : Prop :=
  forall x, In x (ws s) -> h_slot x = negb (wpc_eqb (h_pc x) PLooked).
Definition conn_inv (c : cfg) (s : st) : Prop :=
  inuse s = cnt h_slot (ws s) /\ inuse s <= max_conns c /\ slot_inv s.

Lemma conn_inv_init c : 0 < max_conns c -> conn_inv c (init c).
Proof. intros M. split; [reflexivity|split; [cbn; lia|intros x []]]. Qed.

Lemma release_pos n : 0 < n -> release n = n - 1.
Proof. intros H. unfold release. destruct (n >? 0) eqn:E; [reflexivity|]. rewrite Z.gtb_ltb in E. apply Z.ltb_ge in E. lia. Qed.

Lemma conn_inv_step c s e s1 o :
  0 < max_conns c -> conn_inv c s -> step c s e = Some (s1, o) -> conn_inv c s1.
Proof.
  intros M (I1 & I2 & I3) H. assert (Mb : (max_conns c >? 0) = true) by (apply Z.gtb_lt; lia).
  destruct e; cbn [step] in H.
  - (* SCheck *) split_step H; injection H as <- <-; repeat split; assumption.
  - (* SCreate *) split_step H. injection H as <- <-. repeat split; assumption.
  - (* WLookup *)
    split_step H; injection H as <- <-; cbn.
    + split; [|split]; cbn.
      * rewrite cnt_cons. cbn. exact I1.
      * exact I2.
      * intros x [<-|Hx]; [reflexivity|apply I3; exact Hx].
    + repeat split; assumption.
  - (* WAcquire *)
    rewrite Mb in H. split_step H.
    + (* acquired *)
      injection H as <- <-. unfold acquire in E1. rewrite Mb in E1. cbn in E1.
      destruct (inuse s >=? max_conns c) eqn:G; [discriminate|]. injection E1 as <-.
      pose proof (get_h_id _ _ _ E) as Hid. pose proof (I3 _ (get_h_in _ _ _ E)) as Hs.
      destruct (h_pc h0); try discriminate. cbn in Hs.
      split; [|split]; cbn.
      * rewrite (cnt_set h_slot (mkH h (h_sid h0) (h_peer h0) (h_role h0) PAcquired true) (ws s) h0) by (cbn; exact E).
        rewrite Hs. cbn. lia.
      * rewrite Z.geb_leb in G. apply Z.leb_gt in G. lia.
      * intros x Hx. apply in_set_h in Hx. destruct Hx as [->|Hx]; [reflexivity|apply I3; exact Hx].
    + (* refused *)
      injection H as <- <-. pose proof (I3 _ (get_h_in _ _ _ E)) as Hs.
      destruct (h_pc h0); try discriminate. cbn in Hs.
      split; [|split]; cbn.
      * rewrite (cnt_del h_slot h (ws s) h0 E). rewrite Hs. cbn. lia.
      * exact I2.
      * intros x Hx. apply I3. eapply in_del_h. exact Hx.
  - (* WCheck *)
    split_step H; injection H as <- <-; pose proof (I3 _ (get_h_in _ _ _ E)) as Hs;
      destruct (h_pc h0); try discriminate; cbn in Hs.
    + (* refused: slot released *)
      rewrite Hs. pose proof (cnt_del h_slot h (ws s) h0 E) as D. rewrite Hs in D. cbn in D.
      pose proof (cnt_nonneg h_slot (del_h h (ws s))).
      split; [|split]; cbn.
      * rewrite release_pos by lia. lia.
      * rewrite release_pos by lia. lia.
      * intros x Hx. apply I3. eapply in_del_h. exact Hx.
    + split; [|split]; cbn.
      * rewrite (cnt_set h_slot (mkH h (h_sid h0) (h_peer h0) (h_role h0) PChecked (h_slot h0)) (ws s) h0)
          by (cbn; exact E). cbn. lia.
      * exact I2.
      * intros x Hx. apply in_set_h in Hx. destruct Hx as [->|Hx]; [cbn; exact Hs|apply I3; exact Hx].
  - (* WAdd *)
    split_step H. injection H as <- <-. pose proof (I3 _ (get_h_in _ _ _ E)) as Hs.
    destruct (h_pc h0); try discriminate; cbn in Hs.
    split; [|split]; cbn.
    + rewrite (cnt_set h_slot (mkH h (h_sid h0) (h_peer h0) (h_role h0) POpen (h_slot h0)) (ws s) h0)
        by (cbn; exact E). cbn. lia.
    + exact I2.
    + intros x Hx. apply in_set_h in Hx. destruct Hx as [->|Hx]; [cbn; exact Hs|apply I3; exact Hx].
  - (* WFail *)
    split_step H. injection H as <- <-. pose proof (I3 _ (get_h_in _ _ _ E)) as Hs.
    destruct (h_pc h0); try discriminate; cbn in Hs.
    rewrite Hs. pose proof (cnt_del h_slot h (ws s) h0 E) as D. rewrite Hs in D. cbn in D.
    pose proof (cnt_nonneg h_slot (del_h h (ws s))).
    split; [|split]; cbn.
    + rewrite release_pos by lia. lia.
    + rewrite release_pos by lia. lia.
    + intros x Hx. apply I3. eapply in_del_h. exact Hx.
  - (* WClose *)
    split_step H. injection H as <- <-. pose proof (I3 _ (get_h_in _ _ _ E)) as Hs.
    destruct (h_pc h0); try discriminate; cbn in Hs.
    rewrite Hs. pose proof (cnt_del h_slot h (ws s) h0 E) as D. rewrite Hs in D. cbn in D.
    pose proof (cnt_nonneg h_slot (del_h h (ws s))).
    split; [|split]; cbn.
    + rewrite release_pos by lia. lia.
    + rewrite release_pos by lia. lia.
    + intros x Hx. apply I3. eapply in_del_h. exact Hx.
  - (* Expire *)
    split_step H. injection H as <- <-. repeat split; assumption.
Qed.

Lemma conn_inv_run c evs : forall s s' tr,
  0 < max_conns c -> conn_inv c s -> run c s evs = Some (s', tr) -> conn_inv c s'.
Proof.
  induction evs as [|e r IH]; intros s s' tr M I H; cbn in H.
  - injection H as <- _. exact I.
  - destruct (step c s e) as [[s1 o]|] eqn:S; [|discriminate].
    destruct (run c s1 r) as [[s2 os]|] eqn:R; [|discriminate]. injection H as <- _.
    eapply IH; [exact M| |exact R]. eapply conn_inv_step; eassumption.
Qed.

Theorem conn_limit c evs s tr :
  0 < max_conns c -> run c (init c) evs = Some (s, tr) ->
  inuse s <= max_conns c /\ open_conns s <= inuse s /\ inuse s = slot_holders s.
Proof.
  intros M R. destruct (conn_inv_run c evs _ _ _ M (conn_inv_init c M) R) as (I1 & I2 & I3).
  split; [exact I2|split; [|exact I1]]. rewrite I1. unfold open_conns. apply cnt_le.
  intros x Hx P. rewrite (I3 x Hx). destruct (h_pc x); try discriminate. reflexivity.
Qed.

(* ==== 2. concurrent sessions: check-then-act ==== *)
Lemma sess_step c p s e s1 o :
  0 < max_sessions c -> step c s e = Some (s1, o) -> pending_creates s1 <= p ->
  count (stor s) + pending_creates s <= max_sessions c + p - 1 ->
  count (stor s1) + pending_creates s1 <= max_sessions c + p - 1.
Proof.
  intros M H P I. unfold pending_creates in *. destruct e; cbn [step] in H.
  - split_step H; injection H as <- <-; cbn in *; [exact I|].
    assert (Mb : (max_sessions c >? 0) = true) by (apply Z.gtb_lt; lia). rewrite Mb in E0. cbn in E0.
    rewrite Z.geb_leb in E0. apply Z.leb_gt in E0. lia.
  - split_step H. injection H as <- <-. cbn in *.
    pose proof (count_create_le _ _ _ _ _ _ _ E0). pose proof (length_remz _ _ E). lia.
  - split_step H; injection H as <- <-; cbn in *;
      pose proof (count_get_le (stor s) code now) as G; rewrite E0 in G; cbn in G; lia.
  - split_step H; injection H as <- <-; cbn in *; exact I.
  - split_step H; injection H as <- <-; cbn in *; exact I.
  - split_step H; injection H as <- <-; cbn in *; exact I.
  - split_step H; injection H as <- <-; cbn in *; exact I.
  - split_step H; injection H as <- <-; cbn in *.
    destruct (role_eqb (h_role h0) Sender); [pose proof (count_delete_le (stor s) (h_sid h0))|]; lia.
  - split_step H; injection H as <- <-; cbn in *. pose proof (count_delete_le (stor s) sid). lia.
Qed.

Lemma sess_run c p evs : forall s s' tr,
  0 < max_sessions c -> creates_overlap c p s evs -> run c s evs = Some (s', tr) ->
  count (stor s) + pending_creates s <= max_sessions c + p - 1 ->
  count (stor s') + pending_creates s' <= max_sessions c + p - 1.
Proof.
  induction evs as [|e r IH]; intros s s' tr M O H I; cbn in H.
  - injection H as <- _. exact I.
  - cbn in O. destruct (step c s e) as [[s1 o]|] eqn:S; [|discriminate].
    destruct (run c s1 r) as [[s2 os]|] eqn:R; [|discriminate]. injection H as <- _.
    destruct O as [O1 O2]. eapply IH; [exact M|exact O2|exact R|]. eapply sess_step; eassumption.
Qed.

(* at most p handlers ever stand between check and create => at most max + p - 1 sessions *)
Theorem sessions_limit_overlap c p evs s tr :
  0 < max_sessions c -> 1 <= p -> creates_overlap c p (init c) evs -> run c (init c) evs = Some (s, tr) ->
  count (stor s) <= max_sessions c + p - 1.
Proof.
  intros M P O R. pose proof (sess_run c p evs _ _ _ M O R) as H. cbn in H.
  unfold pending_creates in H. specialize (H ltac:(cbn; lia)). lia.
Qed.

Corollary sessions_limit_sequential c evs s tr :
  0 < max_sessions c -> creates_overlap c 1 (init c) evs -> run c (init c) evs = Some (s, tr) ->
  count (stor s) <= max_sessions c.
Proof. intros M O R. pose proof (sessions_limit_overlap c 1 evs s tr M ltac:(lia) O R). lia. Qed.

(* ==== 3. receivers per host: check-then-act ==== *)
Definition is_recv_of (sid : Z) (c : hconn) : bool := (hc_sid c =? sid) && role_eqb (hc_role c) Receiver.

Lemma receivers_in_filter sid f hb : receivers_in sid (filter f hb) <= receivers_in sid hb.
Proof.
  unfold receivers_in. induction hb as [|x r IH]; cbn; [lia|].
  destruct (f x); cbn; destruct ((hc_sid x =? sid) && role_eqb (hc_role x) Receiver); cbn [length]; lia.
Qed.

Lemma receivers_in_app sid a b : receivers_in sid (a ++ b) = receivers_in sid a + receivers_in sid b.
Proof. unfold receivers_in. rewrite filter_app, app_length. lia. Qed.

Lemma receivers_in_add sid x hb : receivers_in sid (hub_add x hb) <= receivers_in sid hb + b2z (is_recv_of sid x).
Proof.
  unfold hub_add. rewrite receivers_in_app. pose proof (receivers_in_filter sid (fun y => negb ((hc_sid y =? hc_sid x) && (hc_peer y =? hc_peer x))) hb).
  assert (receivers_in sid [x] = b2z (is_recv_of sid x)).
  { unfold receivers_in, is_recv_of. cbn. destruct ((hc_sid x =? sid) && role_eqb (hc_role x) Receiver); reflexivity. }
  lia.
Qed.

Definition pr_f (sid : Z) (x : handler) : bool :=
  wpc_eqb (h_pc x) PChecked && role_eqb (h_role x) Receiver && (h_sid x =? sid).

Lemma recv_step c sid p s e s1 o :
  0 < max_receivers c -> step c s e = Some (s1, o) -> pending_recv sid s1 <= p ->
  receivers_in sid (hub s) + pending_recv sid s <= max_receivers c + p - 1 ->
  receivers_in sid (hub s1) + pending_recv sid s1 <= max_receivers c + p - 1.
Proof.
  intros M H P I. unfold pending_recv in *. fold (pr_f sid) in *. destruct e; cbn [step] in H.
  - split_step H; injection H as <- <-; cbn in *; exact I.
  - split_step H. injection H as <- <-. cbn in *. exact I.
  - split_step H; injection H as <- <-; cbn in *; [|exact I]. rewrite cnt_cons. cbn. exact I.
  - split_step H; injection H as <- <-; cbn in *; destruct (h_pc h0) eqn:PC; try discriminate.
    + rewrite (cnt_set (pr_f sid) (mkH h (h_sid h0) (h_peer h0) (h_role h0) PAcquired true) (ws s) h0) by (cbn; exact E).
      unfold pr_f at 2 3. rewrite PC. cbn. lia.
    + rewrite (cnt_del (pr_f sid) h (ws s) h0 E). unfold pr_f at 2. rewrite PC. cbn. lia.
    + rewrite (cnt_set (pr_f sid) (mkH h (h_sid h0) (h_peer h0) (h_role h0) PAcquired false) (ws s) h0) by (cbn; exact E).
      unfold pr_f at 2 3. rewrite PC. cbn. lia.
  - (* WCheck *)
    split_step H; injection H as <- <-; cbn in *; destruct (h_pc h0) eqn:PC; try discriminate.
    + rewrite (cnt_del (pr_f sid) h (ws s) h0 E). unfold pr_f at 2. rewrite PC. cbn. lia.
    + (* passed *)
      pose proof (cnt_set (pr_f sid) (mkH h (h_sid h0) (h_peer h0) (h_role h0) PChecked (h_slot h0)) (ws s) h0 ltac:(cbn; exact E)) as C.
      rewrite C in *. unfold pr_f at 2 3 in P. unfold pr_f at 2 3. rewrite PC in *. cbn in *.
      destruct (role_eqb (h_role h0) Receiver) eqn:RR; cbn in *; [|lia].
      destruct (h_sid h0 =? sid) eqn:SS; cbn in *; [|lia].
      apply Z.eqb_eq in SS. subst sid.
      assert (Mb : (max_receivers c >? 0) = true) by (apply Z.gtb_lt; lia). rewrite Mb in E1. cbn in E1.
      rewrite Z.geb_leb in E1. apply Z.leb_gt in E1. lia.
  - (* WAdd *)
    split_step H. injection H as <- <-. cbn in *. destruct (h_pc h0) eqn:PC; try discriminate.
    rewrite (cnt_set (pr_f sid) (mkH h (h_sid h0) (h_peer h0) (h_role h0) POpen (h_slot h0)) (ws s) h0) by (cbn; exact E).
    pose proof (receivers_in_add sid (mkHC h (h_sid h0) (h_peer h0) (h_role h0)) (hub s)) as A.
    unfold is_recv_of in A. cbn in A. unfold pr_f at 2 3. rewrite PC. cbn.
    rewrite (andb_comm (h_sid h0 =? sid)) in A. lia.
  - split_step H. injection H as <- <-. cbn in *.
    rewrite (cnt_del (pr_f sid) h (ws s) h0 E). destruct (pr_f sid h0); cbn; lia.
  - split_step H. injection H as <- <-. cbn in *. destruct (h_pc h0) eqn:PC; try discriminate.
    rewrite (cnt_del (pr_f sid) h (ws s) h0 E). unfold pr_f at 2. rewrite PC. cbn.
    pose proof (receivers_in_filter sid (fun x => negb (hc_h x =? h)) (hub s)). unfold hub_remove. lia.
  - split_step H. injection H as <- <-. cbn in *.
    pose proof (receivers_in_filter sid (fun x => negb (hc_sid x =? sid0)) (hub s)). unfold hub_close_session. lia.
Qed.

Lemma recv_run c sid p evs : forall s s' tr,
  0 < max_receivers c -> joins_overlap c sid p s evs -> run c s evs = Some (s', tr) ->
  receivers_in sid (hub s) + pending_recv sid s <= max_receivers c + p - 1 ->
  receivers_in sid (hub s') + pending_recv sid s' <= max_receivers c + p - 1.
Proof.
  induction evs as [|e r IH]; intros s s' tr M O H I; cbn in H.
  - injection H as <- _. exact I.
  - cbn in O. destruct (step c s e) as [[s1 o]|] eqn:S; [|discriminate].
    destruct (run c s1 r) as [[s2 os]|] eqn:R; [|discriminate]. injection H as <- _.
    destruct O as [O1 O2]. eapply IH; [exact M|exact O2|exact R|]. eapply recv_step; eassumption.
Qed.

Theorem receivers_limit_overlap c sid p evs s tr :
  0 < max_receivers c -> 1 <= p -> joins_overlap c sid p (init c) evs -> run c (init c) evs = Some (s, tr) ->
  receivers_in sid (hub s) <= max_receivers c + p - 1.
Proof.
  intros M P O R. pose proof (recv_run c sid p evs _ _ _ M O R) as H.
  specialize (H ltac:(unfold pending_recv, receivers_in, cnt; cbn; lia)).
  pose proof (cnt_nonneg (pr_f sid) (ws s)). unfold pending_recv in H. fold (pr_f sid) in H. lia.
Qed.

Corollary receivers_limit_sequential c sid evs s tr :
  0 < max_receivers c -> joins_overlap c sid 1 (init c) evs -> run c (init c) evs = Some (s, tr) ->
  receivers_in sid (hub s) <= max_receivers c.
Proof. intros M O R. pose proof (receivers_limit_overlap c sid 1 evs s tr M ltac:(lia) O R). lia. Qed.

(* ==== 4. a limit of 0 disables the check ==== *)
Theorem zero_unlimited c s :
  (max_sessions c = 0 -> forall h, memz h (pend s) = false ->
     exists s1, step c s (SCheck h) = Some (s1, RCont)) /\
  (max_conns c = 0 -> forall h x, get_h h (ws s) = Some x -> h_pc x = PLooked ->
     exists s1, step c s (WAcquire h) = Some (s1, RCont)) /\
  (max_receivers c = 0 -> forall h x, get_h h (ws s) = Some x -> h_pc x = PAcquired ->
     exists s1, step c s (WCheck h) = Some (s1, RCont)) /\
  (forall b now, rn b = 0 -> rate_allow b now = (b, true)).
Proof.
  repeat split.
  - intros Z h Hm. cbn. rewrite Hm, Z. cbn. eexists. reflexivity.
  - intros Z h x G P. cbn. rewrite G, P, Z. cbn. eexists. reflexivity.
  - intros Z h x G P. cbn. rewrite G, P, Z. cbn. eexists. reflexivity.
  - intros b now Z. unfold rate_allow. rewrite Z. reflexivity.
Qed.

Theorem msg_size_limit m len : 0 < m -> (msg_accepted m len = true <-> len <= m).
Proof.
  intros M. unfold msg_accepted. assert (Mb : (m >? 0) = true) by (apply Z.gtb_lt; lia). rewrite Mb.
  apply Z.leb_le.
Qed.

(* ==== 5. token bucket ==== *)
Definition bucket_ok (b : bucket) : Prop :=
  0 < rd b /\ 0 <= rn b /\ 1 <= burst b /\ 0 <= tk b <= burst b * rd b.

Lemma new_bucket_ok rate_n rate_d b now : 0 < rate_d -> bucket_ok (new_bucket rate_n rate_d b now).
Proof.
  intros D. unfold new_bucket, bucket_ok; cbn.
  destruct (b <? 1) eqn:B; destruct (rate_n <? 0) eqn:N;
    try apply Z.ltb_lt in B; try apply Z.ltb_ge in B; try apply Z.ltb_lt in N; try apply Z.ltb_ge in N; nia.
Qed.

Lemma allow_spec b now :
  bucket_ok b -> last b <= now ->
  let b' := fst (allow b now) in
  bucket_ok b' /\ last b' = now /\ rn b' = rn b /\ rd b' = rd b /\ burst b' = burst b /\
  tk b' + (if snd (allow b now) then rd b else 0) <= tk b + (now - last b) * rn b.
Proof.
  intros (D & N & B & T0 & T1) L. unfold allow.
  assert (0 <= (now - last b) * rn b) by (apply Z.mul_nonneg_nonneg; lia).
  set (d := (now - last b) * rn b) in *. set (cap := burst b * rd b) in *.
  assert (rd b <= cap) by (unfold cap; nia).
  destruct (tk b + d >? cap) eqn:C; [apply Z.gtb_lt in C|rewrite Z.gtb_ltb in C; apply Z.ltb_ge in C].
  - destruct (cap <? rd b) eqn:R; [apply Z.ltb_lt in R|apply Z.ltb_ge in R]; cbn; unfold bucket_ok; cbn;
      fold cap; repeat split; lia.
  - destruct (tk b + d <? rd b) eqn:R; [apply Z.ltb_lt in R|apply Z.ltb_ge in R]; cbn; unfold bucket_ok; cbn;
      fold cap; repeat split; lia.
Qed.

Fixpoint sorted_from (t0 : Z) (times : list Z) : Prop :=
  match times with [] => True | t :: r => t0 <= t /\ sorted_from t r end.

Lemma allowed_cons a l : allowed (a :: l) = b2z a + allowed l.
Proof. unfold allowed. cbn. destruct a; cbn [length b2z]; lia. Qed.

Lemma allow_all_spec times : forall b,
  bucket_ok b -> sorted_from (last b) times ->
  let '(b', l) := allow_all b times in
  bucket_ok b' /\ last b <= last b' /\ rn b' = rn b /\ rd b' = rd b /\
  tk b' + rd b * allowed l <= tk b + (last b' - last b) * rn b.
Proof.
  induction times as [|t r IH]; intros b OK S; cbn.
  - split; [exact OK|]. unfold allowed. cbn. repeat split; lia.
  - destruct S as [S1 S2]. pose proof (allow_spec b t OK S1) as A. cbn in A.
    destruct (allow b t) as [b1 a] eqn:E. cbn in A. destruct A as (OK1 & L1 & N1 & D1 & _ & T1).
    rewrite <- L1 in S2. specialize (IH b1 OK1 S2). destruct (allow_all b1 r) as [b2 l].
    destruct IH as (OK2 & L2 & N2 & D2 & T2). rewrite allowed_cons.
    split; [exact OK2|]. repeat split; try lia; try congruence.
    rewrite N1, D1 in T2.
    replace ((last b2 - last b) * rn b) with ((last b2 - last b1) * rn b + (last b1 - last b) * rn b) by ring.
    rewrite L1 in *. destruct a; cbn [b2z]; lia.
Qed.

(* any window of consecutive calls, starting from any state the bucket can be in:
   allowances <= burst + rate * (window length) *)
Theorem bucket_window b times :
  bucket_ok b -> sorted_from (last b) times ->
  let '(b', l) := allow_all b times in
  rd b * allowed l <= burst b * rd b + rn b * (last b' - last b).
Proof.
  intros OK S. pose proof (allow_all_spec times b OK S) as H. destruct (allow_all b times) as [b' l].
  destruct H as (OK2 & L & _ & _ & T). destruct OK as (_ & _ & _ & _ & T1). destruct OK2 as (_ & _ & _ & T0 & _).
  rewrite (Z.mul_comm (rn b)). lia.
Qed.

Theorem bucket_reachable_ok b times : bucket_ok b -> sorted_from (last b) times -> bucket_ok (fst (allow_all b times)).
Proof.
  intros OK S. pose proof (allow_all_spec times b OK S) as H. destruct (allow_all b times). apply H.
Qed.

(* ==== 6. which join codes the server admits ==== *)
Definition lookup_result (s : st) (code now : Z) : option session := snd (get_by_code (stor s) code now).

Lemma wlookup_resp c s h code peer r now :
  get_h h (ws s) = None ->
  match lookup_result s code now with
  | None => exists s1, step c s (WLookup h code peer r now) = Some (s1, RNotFound)
  | Some ss => exists s1, step c s (WLookup h code peer r now) = Some (s1, RCont) /\
                 get_h h (ws s1) = Some (mkH h (s_id ss) peer r PLooked false)
  end.
Proof.
  intros G. unfold lookup_result. cbn. rewrite G. destruct (get_by_code (stor s) code now) as [x [ss|]]; cbn.
  - eexists. split; [reflexivity|]. cbn. rewrite Z.eqb_refl. reflexivity.
  - eexists. reflexivity.
Qed.

Fixpoint used_after (used : list Z) (evs : list ev) : list Z :=
  match evs with
  | [] => used
  | SCreate _ _ id _ _ :: r => used_after (id :: used) r
  | _ :: r => used_after used r
  end.

Record sinv (used : list Z) (s : st) (g : list session) (clk : Z) : Prop := {
  si_inv : inv used (stor s) g clk;
  si_ws : forall x, In x (ws s) -> In (h_sid x) used;
  si_tm : forall t, In t (timers s) -> In t used
}.

Lemma sinv_init c : sinv [] (init c) [] 0.
Proof. split; [apply inv_init|intros x []|intros t []]. Qed.

Definition next_used (used : list Z) (e : ev) : list Z :=
  match e with SCreate _ _ id _ _ => id :: used | _ => used end.
Definition next_clk (clk : Z) (e : ev) : Z :=
  match ev_time e with Some t => Z.max clk t | None => clk end.

Lemma inv_weaken used s g clk id : inv used s g clk -> inv (id :: used) s g clk.
Proof.
  intros [W U GU IN OUT]. split; try assumption.
  - intros i ss H. right. eapply U. exact H.
  - intros ss H. right. apply GU. exact H.
Qed.

Lemma sinv_step c used s g clk e s1 o :
  sinv used s g clk ->
  (match e with SCreate _ _ id _ _ => ~ In id used | _ => True end) ->
  step c s e = Some (s1, o) ->
  sinv (next_used used e) s1 (Limits.ghost_step ended_by s g e o) (next_clk clk e).
Proof.
  intros [I WS TM] F H. unfold Limits.ghost_step, next_used, next_clk.
  destruct e; cbn [step] in H; cbn [ended_by ev_time].
  - (* SCheck *) split_step H; injection H as <- <-; split; assumption.
  - (* SCreate *)
    split_step H. injection H as <- <-. cbn.
    pose proof (inv_step used (stor s) g clk (OCreate now id c0 cands) s0 (ObsCreated s2) I F) as I1.
    cbn in I1. rewrite E0 in I1. specialize (I1 eq_refl).
    split; cbn.
    + exact I1.
    + intros x Hx. right. apply WS. exact Hx.
    + pose proof (create_session _ _ _ _ _ _ _ E0) as (Eid & _).
      destruct (s_expires s2); intros t Ht; [destruct Ht as [<-|Ht]; [left; reflexivity|]|]; right; apply TM; exact Ht.
  - (* WLookup *)
    pose proof (inv_step used (stor s) g clk (OGet code now) (fst (get_by_code (stor s) code now))
                 (ObsGet (snd (get_by_code (stor s) code now))) I Logic.I) as I1.
    cbn in I1. destruct (get_by_code (stor s) code now) as [x res] eqn:G. specialize (I1 eq_refl). cbn in I1.
    split_step H; injection H as <- <-; cbn.
    + split; cbn; [exact I1| |exact TM].
      intros y [<-|Hy]; [|apply WS; exact Hy]. cbn.
      pose proof (get_some (stor s) code now s0 (i_wf _ _ _ _ I)) as GS. rewrite G in GS. cbn in GS.
      destruct (GS eq_refl) as (L & _). eapply (i_used _ _ _ _ I). exact L.
    + split; cbn; assumption.
  - split_step H; injection H as <- <-; cbn; split; cbn; try assumption.
    + intros y Hy. apply in_set_h in Hy. destruct Hy as [->|Hy]; [cbn; apply WS; eapply get_h_in; exact E|apply WS; exact Hy].
    + intros y Hy. apply WS. eapply in_del_h. exact Hy.
    + intros y Hy. apply in_set_h in Hy. destruct Hy as [->|Hy]; [cbn; apply WS; eapply get_h_in; exact E|apply WS; exact Hy].
  - split_step H; injection H as <- <-; cbn; split; cbn; try assumption.
    + intros y Hy. apply WS. eapply in_del_h. exact Hy.
    + intros y Hy. apply in_set_h in Hy. destruct Hy as [->|Hy]; [cbn; apply WS; eapply get_h_in; exact E|apply WS; exact Hy].
  - split_step H; injection H as <- <-; cbn; split; cbn; try assumption.
    intros y Hy. apply in_set_h in Hy. destruct Hy as [->|Hy]; [cbn; apply WS; eapply get_h_in; exact E|apply WS; exact Hy].
  - split_step H; injection H as <- <-; cbn; split; cbn; try assumption.
    intros y Hy. apply WS. eapply in_del_h. exact Hy.
  - (* WClose *)
    split_step H. injection H as <- <-. cbn [andb].
    destruct (role_eqb (h_role h0) Sender) eqn:RS; cbn.
    + pose proof (inv_step used (stor s) g clk (ODelete (h_sid h0)) (delete (stor s) (h_sid h0)) ObsUnit I Logic.I eq_refl) as I1.
      cbn in I1. split; cbn; [exact I1| |].
      * intros y Hy. apply WS. eapply in_del_h. exact Hy.
      * intros t Ht. apply TM. eapply in_remz. exact Ht.
    + split; cbn; [exact I| |exact TM]. intros y Hy. apply WS. eapply in_del_h. exact Hy.
  - (* Expire *)
    split_step H. injection H as <- <-. cbn.
    pose proof (inv_step used (stor s) g clk (ODelete sid) (delete (stor s) sid) ObsUnit I Logic.I eq_refl) as I1.
    cbn in I1. split; cbn; [exact I1|exact WS|]. intros t Ht. apply TM. eapply in_remz. exact Ht.
Qed.

(* an ended session never comes back: ids are fresh *)
Lemma ghost_dead_step endf s g e o used sid :
  (forall ss, In ss g -> In (s_id ss) used) -> In sid used ->
  (match e, o with SCreate _ _ id _ _, RCreated ss => s_id ss = id /\ ~ In id used | _, RCreated _ => False | _, _ => True end) ->
  (forall ss, In ss g -> s_id ss <> sid) ->
  forall ss, In ss (Limits.ghost_step endf s g e o) -> s_id ss <> sid.
Proof.
  intros GU U F D ss H. unfold Limits.ghost_step in H.
  assert (D1 : forall x, In x (match endf s e with Some sd => filter (fun x => negb (s_id x =? sd)) g | None => g end) -> s_id x <> sid).
  { intros x Hx. destruct (endf s e); [apply filter_In in Hx; apply D; apply Hx|apply D; exact Hx]. }
  destruct o; try (apply D1; exact H). destruct H as [<-|H]; [|apply D1; exact H].
  destruct e; try contradiction. destruct F as [-> N]. intros ->. contradiction.
Qed.

Lemma step_created c s e s1 ss : step c s e = Some (s1, RCreated ss) ->
  match e with SCreate _ _ id _ _ => s_id ss = id | _ => False end.
Proof.
  intros H. destruct e; cbn [step] in H; split_step H; try (injection H as _ H; discriminate H).
  injection H as _ <-. eapply create_session. exact E0.
Qed.

Lemma grun_inv c evs : forall used s g clk s' g' clk',
  sinv used s g clk -> fresh used evs -> grun ended_by c s g clk evs = Some (s', g', clk') ->
  sinv (used_after used evs) s' g' clk' /\ clk <= clk' /\
  (forall sid, In sid used -> (forall ss, In ss g -> s_id ss <> sid) -> forall ss, In ss g' -> s_id ss <> sid).
Proof.
  induction evs as [|e r IH]; intros used s g clk s' g' clk' I F H; cbn in H.
  - injection H as <- <- <-. split; [exact I|split; [lia|auto]].
  - destruct (step c s e) as [[s1 o]|] eqn:S; [|discriminate].
    assert (F1 : match e with SCreate _ _ id _ _ => ~ In id used | _ => True end) by (destruct e; cbn in F; tauto).
    assert (F2 : fresh (next_used used e) r) by (destruct e; cbn in F; cbn; tauto).
    pose proof (sinv_step c used s g clk e s1 o I F1 S) as I1.
    destruct (IH _ _ _ _ _ _ _ I1 F2 H) as (I2 & L & D).
    split; [|split].
    + destruct e; exact I2.
    + unfold next_clk in L. destruct (ev_time e); lia.
    + intros sid U Dg. apply D.
      * destruct e; cbn; auto.
      * eapply (ghost_dead_step ended_by s g e o used sid); try assumption.
        -- apply (i_gused _ _ _ _ (si_inv _ _ _ _ I)).
        -- pose proof (fun ss => step_created c s e s1 ss) as SC.
           destruct e; destruct o; try exact Logic.I; try (exact (SC _ S)). split; [exact (SC _ S)|exact F1].
Qed.

(* the code's behaviour, exactly: a join code is admitted iff a session with that code was created,
   no sender-role socket of it has closed, its timer has not fired, and it is not past its expiry *)
Theorem server_admits c evs s g clk code now ss :
  fresh [] evs -> grun ended_by c (init c) [] 0 evs = Some (s, g, clk) -> clk <= now ->
  (lookup_result s code now = Some ss <-> In ss g /\ s_code ss = code /\ expired ss now = false).
Proof.
  intros F R L. destruct (grun_inv c evs _ _ _ _ _ _ _ (sinv_init c) F R) as (I & _ & _).
  unfold lookup_result. eapply inv_admits; [apply I|exact L].
Qed.

Lemma grun_app endf c a : forall b s g clk,
  grun endf c s g clk (a ++ b) =
  match grun endf c s g clk a with Some (s1, g1, c1) => grun endf c s1 g1 c1 b | None => None end.
Proof.
  induction a as [|e r IH]; intros b s g clk; cbn; [reflexivity|].
  destruct (step c s e) as [[s1 o]|]; [apply IH|reflexivity].
Qed.

Lemma fresh_app a : forall used b, fresh used (a ++ b) -> fresh used a /\ fresh (used_after used a) b.
Proof.
  induction a as [|e r IH]; intros used b H; cbn in *; [tauto|].
  destruct e; try (apply IH; exact H). destruct H as [N H]. destruct (IH _ _ H). tauto.
Qed.

Lemma ended_by_used used s g clk e sid : sinv used s g clk -> ended_by s e = Some sid -> In sid used.
Proof.
  intros [_ WS TM] H. destruct e; cbn in H; try discriminate.
  - destruct (get_h h (ws s)) as [x|] eqn:G; [|discriminate].
    destruct (wpc_eqb (h_pc x) POpen && role_eqb (h_role x) Sender); [|discriminate]. injection H as <-.
    apply WS. eapply get_h_in. exact G.
  - destruct (memz sid0 (timers s)) eqn:M; [|discriminate]. injection H as <-. apply TM. apply memz_in. exact M.
Qed.

(* ... and never afterwards: once a sender-role socket of the session has closed or its timer has
   fired, no lookup at any later point of any continuation returns that session *)
Theorem never_after c evs1 e evs2 s1 g1 k1 s3 g3 k3 sid :
  fresh [] (evs1 ++ e :: evs2) ->
  grun ended_by c (init c) [] 0 evs1 = Some (s1, g1, k1) ->
  ended_by s1 e = Some sid ->
  grun ended_by c (init c) [] 0 (evs1 ++ e :: evs2) = Some (s3, g3, k3) ->
  forall code now ss, lookup_result s3 code now = Some ss -> s_id ss <> sid.
Proof.
  intros F R1 En R3 code now ss L.
  destruct (fresh_app _ _ _ F) as [F1 F2].
  destruct (grun_inv c evs1 _ _ _ _ _ _ _ (sinv_init c) F1 R1) as (I1 & _ & _).
  rewrite grun_app, R1 in R3. cbn in R3. destruct (step c s1 e) as [[s2 o]|] eqn:S; [|discriminate].
  assert (Fe : match e with SCreate _ _ id _ _ => ~ In id (used_after [] evs1) | _ => True end) by (destruct e; cbn in F2; tauto).
  pose proof (sinv_step c _ _ _ _ _ _ _ I1 Fe S) as I2.
  assert (Fr : fresh (next_used (used_after [] evs1) e) evs2) by (destruct e; cbn in F2; cbn; tauto).
  destruct (grun_inv c evs2 _ _ _ _ _ _ _ I2 Fr R3) as (I3 & _ & D).
  pose proof (ended_by_used _ _ _ _ _ _ I1 En) as U.
  assert (In ss g3).
  { pose proof (get_some (stor s3) code now ss (i_wf _ _ _ _ (si_inv _ _ _ _ I3)) L) as (Lk & _).
    eapply (i_in _ _ _ _ (si_inv _ _ _ _ I3)). exact Lk. }
  eapply D; [| |exact H].
  - destruct e; cbn; try exact U; try discriminate En.
  - intros x Hx. unfold Limits.ghost_step in Hx. rewrite En in Hx.
    assert (In x (filter (fun y => negb (s_id y =? sid)) g1)) as Hf.
    { destruct o; try exact Hx. destruct Hx as [<-|Hx]; [|exact Hx].
      pose proof (step_created _ _ _ _ _ S) as SC. destruct e; try contradiction; discriminate En. }
    apply filter_In in Hf. destruct Hf as [_ N]. apply negb_true_iff in N. apply Z.eqb_neq in N. exact N.
Qed.

(* under R (single_host) the code's notion of "ended" is the property's *)
Lemma grun_single_host c evs : forall s g clk,
  single_host c s evs -> grun ended_by_prop c s g clk evs = grun ended_by c s g clk evs.
Proof.
  induction evs as [|e r IH]; intros s g clk H; cbn; [reflexivity|]. cbn in H.
  destruct (step c s e) as [[s1 o]|]; [|reflexivity]. destruct H as [E H].
  unfold Limits.ghost_step. rewrite E. apply IH. exact H.
Qed.

Theorem server_admits_partial c evs s g clk code now ss :
  fresh [] evs -> single_host c (init c) evs ->
  grun ended_by_prop c (init c) [] 0 evs = Some (s, g, clk) -> clk <= now ->
  (lookup_result s code now = Some ss <-> In ss g /\ s_code ss = code /\ expired ss now = false).
Proof.
  intros F SH R L. rewrite grun_single_host in R by exact SH. eapply server_admits; eassumption.
Qed.

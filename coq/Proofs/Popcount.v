(* CountSet of a well-formed bitmap is the number of chunks it marks.  The
   receiver computes "chunks still missing" as total - CountSet(bitmap)
   (handleFileBegin); LoadSidecar only accepts bitmaps of the right length with
   clear padding bits (C06_loaded_wellformed).  For such a bitmap the popcount is
   exactly the number of indices i < total with bit i set. *)
From Coq Require Import ZArith List Bool Lia Arith.
Import ListNotations.
From TF Require Import Lib.Bytes Model.Sidecar.
Open Scope Z_scope.

Definition b2z (b : bool) : Z := if b then 1 else 0.

Fixpoint sumf (f : nat -> Z) (n : nat) : Z :=
  match n with O => 0 | S k => sumf f k + f k end.

Lemma sumf_split f a b : sumf f (a + b) = sumf f a + sumf (fun j => f (a + j)%nat) b.
Proof.
  induction b as [|b IH]; cbn [sumf]; [rewrite Nat.add_0_r; lia|].
  rewrite Nat.add_succ_r. cbn [sumf]. rewrite IH. lia.
Qed.

Lemma sumf_ext f g n : (forall j, (j < n)%nat -> f j = g j) -> sumf f n = sumf g n.
Proof.
  induction n as [|n IH]; intro H; cbn [sumf]; [reflexivity|].
  rewrite IH by (intros; apply H; lia). rewrite H by lia. reflexivity.
Qed.

Lemma sumf_zero f n : (forall j, (j < n)%nat -> f j = 0) -> sumf f n = 0.
Proof.
  induction n as [|n IH]; intro H; cbn [sumf]; [reflexivity|].
  rewrite IH by (intros; apply H; lia). rewrite H by lia. reflexivity.
Qed.

Definition bits_below (v : Z) (k : nat) : Z := sumf (fun j => b2z (Z.testbit v (Z.of_nat j))) k.

(* the byte-wise popcount is the number of set bits among the low 8 - all 256 bytes *)
Lemma popcount_sweep :
  forallb (fun n => popcount_byte 8 (Z.of_nat n) =? bits_below (Z.of_nat n) 8) (seq 0 256) = true.
Proof. vm_compute. reflexivity. Qed.

Lemma popcount_bits v : 0 <= v < 256 -> popcount_byte 8 v = bits_below v 8.
Proof.
  intro H. pose proof popcount_sweep as S. rewrite forallb_forall in S.
  specialize (S (Z.to_nat v)). rewrite Z2Nat.id in S by lia.
  apply Z.eqb_eq. apply S. apply in_seq. lia.
Qed.

Lemma shiftr_zero_bits v r j : 0 <= r -> Z.shiftr v r = 0 -> r <= j -> Z.testbit v j = false.
Proof.
  intros Hr Hz Hj. replace j with ((j - r) + r) by lia.
  rewrite <- Z.shiftr_spec by lia. rewrite Hz. apply Z.bits_0.
Qed.

(* number of marked indices below n *)
Definition marked (bm : list Z) (bits : Z) (n : nat) : Z :=
  sumf (fun i => b2z (bit_get bm bits (Z.of_nat i))) n.

Lemma bit_get_head b r bits i : 0 <= i < 8 -> i < bits ->
  bit_get (b :: r) bits i = Z.testbit b i.
Proof.
  intros Hi Hb. unfold bit_get.
  destruct (i <? 0) eqn:E1; [apply Z.ltb_lt in E1; lia|].
  destruct (bits <=? i) eqn:E2; [apply Z.leb_le in E2; lia|]. cbn [orb].
  rewrite Z.div_small by lia. rewrite Z.mod_small by lia. reflexivity.
Qed.

Lemma bit_get_tail b r bits i : 8 <= i < bits ->
  bit_get (b :: r) bits i = bit_get r (bits - 8) (i - 8).
Proof.
  intros Hi. unfold bit_get.
  destruct (i <? 0) eqn:E1; [apply Z.ltb_lt in E1; lia|].
  destruct (bits <=? i) eqn:E2; [apply Z.leb_le in E2; lia|].
  destruct (i - 8 <? 0) eqn:E3; [apply Z.ltb_lt in E3; lia|].
  destruct (bits - 8 <=? i - 8) eqn:E4; [apply Z.leb_le in E4; lia|]. cbn [orb].
  replace i with ((i - 8) + 1 * 8) at 1 2 by lia.
  rewrite Z.div_add by lia. rewrite Z.mod_add by lia.
  assert (Hq : 0 <= (i - 8) / 8) by (apply Z.div_pos; lia).
  rewrite Z2Nat.inj_add by lia. rewrite Nat.add_comm. reflexivity.
Qed.

Theorem count_set_is_marked : forall bm total,
  bytes_ok bm -> 0 <= total -> zlen bm = byte_len total -> padding_clear bm total = true ->
  count_set bm = marked bm total (Z.to_nat total).
Proof.
  induction bm as [|b r IH]; intros total Hok Ht Hlen Hpad.
  - (* no bytes: total = 0 *)
    unfold zlen, byte_len in Hlen. cbn in Hlen.
    assert (total = 0).
    { destruct (Z.eq_dec total 0); [assumption|exfalso].
      assert (1 <= (total + 7) / 8) by (apply Z.div_le_lower_bound; lia). lia. }
    subst. reflexivity.
  - inversion Hok as [|? ? Hb Hr]; subst.
    cbn [count_set fold_right]. fold (count_set r). rewrite (popcount_bits b Hb).
    unfold zlen, byte_len in Hlen. cbn [length] in Hlen. rewrite Nat2Z.inj_succ in Hlen.
    destruct r as [|b2 r2].
    + (* last byte: 0 < total <= 8 *)
      cbn in Hlen.
      assert (Hrange : 0 < total <= 8).
      { pose proof (Z.div_mod (total + 7) 8 ltac:(lia)). pose proof (Z.mod_pos_bound (total + 7) 8 ltac:(lia)). lia. }
      cbn [count_set fold_right]. rewrite Z.add_0_r.
      unfold marked. rewrite (sumf_ext _ (fun j => b2z (Z.testbit b (Z.of_nat j)))).
      2: { intros j Hj. rewrite bit_get_head by lia. reflexivity. }
      unfold bits_below.
      replace 8%nat with (Z.to_nat total + (8 - Z.to_nat total))%nat by lia.
      rewrite sumf_split. rewrite (sumf_zero (fun j => b2z (Z.testbit b (Z.of_nat (Z.to_nat total + j))))); [lia|].
      intros j Hj. unfold padding_clear in Hpad. cbn [last] in Hpad.
      destruct (total mod 8 =? 0) eqn:Em.
      * apply Z.eqb_eq in Em. assert (total = 8) by (pose proof (Z.div_mod total 8 ltac:(lia)); lia).
        subst. lia.
      * apply Z.eqb_eq in Hpad. apply Z.eqb_neq in Em.
        assert (Hlt : total < 8) by (destruct (Z.eq_dec total 8) as [->|]; [exfalso; apply Em; reflexivity|lia]).
        rewrite Z.mod_small in Hpad by lia.
        rewrite (shiftr_zero_bits b total) by lia. reflexivity.
    + (* more bytes follow: total > 8 *)
      assert (Hgt : 8 < total).
      { cbn [length] in Hlen. rewrite Nat2Z.inj_succ in Hlen.
        pose proof (Z.div_mod (total + 7) 8 ltac:(lia)). pose proof (Z.mod_pos_bound (total + 7) 8 ltac:(lia)). lia. }
      assert (Hlen' : zlen (b2 :: r2) = byte_len (total - 8)).
      { unfold zlen, byte_len. replace (total - 8 + 7) with ((total + 7) + (-1) * 8) by lia.
        rewrite Z.div_add by lia. cbn [length] in *. lia. }
      assert (Hpad' : padding_clear (b2 :: r2) (total - 8) = true).
      { unfold padding_clear in *. replace (total - 8) with (total + (-1) * 8) by lia. rewrite Z.mod_add by lia.
        cbn [last] in Hpad. exact Hpad. }
      rewrite (IH (total - 8) Hr ltac:(lia) Hlen' Hpad').
      unfold marked. replace (Z.to_nat total) with (8 + Z.to_nat (total - 8))%nat by lia.
      rewrite sumf_split. f_equal.
      * unfold bits_below. apply sumf_ext. intros j Hj. rewrite bit_get_head by lia. reflexivity.
      * apply sumf_ext. intros j Hj. rewrite (bit_get_tail b (b2 :: r2) total (Z.of_nat (8 + j))) by lia. f_equal. f_equal. lia.
Qed.

From TF Require Import Lib.GoInt Gen.Geometry Proofs.Sidecar.

(* for any sidecar LoadSidecar accepts (or Flush can write): the popcount the
   receiver subtracts from the chunk count is the number of chunks recorded *)
Corollary wf_count_set_is_marked s : wf s -> 0 <= sc_total s ->
  count_set (sc_bitmap s) = marked (sc_bitmap s) (sc_total s) (Z.to_nat (sc_total s)).
Proof.
  intros (_ & _ & _ & _ & _ & Hb & Hl & Hp) Ht. apply count_set_is_marked; assumption.
Qed.

Lemma marked_le bm bits n : 0 <= marked bm bits n <= Z.of_nat n.
Proof.
  unfold marked. induction n as [|n IH]; cbn [sumf]; [lia|].
  destruct (bit_get bm bits (Z.of_nat n)); cbn [b2z]; lia.
Qed.

From TF Require Import Model.Resume Proofs.Resume.

(* what the receiver waits for on a resumed file: exactly the chunks its metadata
   does not record *)
Theorem remaining_is_unrecorded h rq d br :
  recv_begin h rq d = Ret br -> wf (br_sc br) -> sc_total (br_sc br) = br_total br -> 0 <= br_total br ->
  br_remaining br = br_total br - marked (sc_bitmap (br_sc br)) (br_total br) (Z.to_nat (br_total br)).
Proof.
  intros B W Et Ht.
  destruct (recv_begin_inv _ _ _ _ B) as (total & lr & _ & _ & Esc & _ & Etot & _ & _ & Erem).
  pose proof (wf_count_set_is_marked (br_sc br) W ltac:(rewrite Et; exact Ht)) as C. rewrite Et in C.
  pose proof (marked_le (sc_bitmap (br_sc br)) (br_total br) (Z.to_nat (br_total br))) as L.
  rewrite Erem. rewrite <- Esc. rewrite <- Etot. rewrite C. rewrite Z.min_l by lia. reflexivity.
Qed.

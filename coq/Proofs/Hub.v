(* Invariants of the hub model (Model/Hub.v) over ALL operation histories, i.e.
   all interleavings of the lock-delimited phases of Add / remove / CloseSession
   / SendTo / Broadcast / BroadcastExcept / writer deliveries. *)
From Coq Require Import List Arith Bool Lia.
Import ListNotations.
From TF Require Import Model.Hub.

(* ---- connection table ---- *)
Definition keeps_id (f : conn -> conn) : Prop := forall x, cid (f x) = cid x.

Lemma keeps_close : keeps_id c_close. Proof. intros x; reflexivity. Qed.
Lemma keeps_unlink : keeps_id c_unlink. Proof. intros x; reflexivity. Qed.
Lemma keeps_push m : keeps_id (c_push m). Proof. intros x; reflexivity. Qed.
Lemma keeps_pop : keeps_id c_pop. Proof. intros x; unfold c_pop; destruct (cq x); reflexivity. Qed.

Lemma find_conn_In c l x : find_conn c l = Some x -> In x l /\ cid x = c.
Proof.
  induction l as [|y l IH]; cbn; [discriminate|].
  destruct (Nat.eqb (cid y) c) eqn:E.
  - intros H; injection H as ->. apply Nat.eqb_eq in E. split; [left; reflexivity|exact E].
  - intros H. destruct (IH H). split; [right; assumption|assumption].
Qed.

Lemma find_conn_None c l : find_conn c l = None -> forall x, In x l -> cid x <> c.
Proof.
  induction l as [|y l IH]; cbn; [intros _ x []|].
  destruct (Nat.eqb (cid y) c) eqn:E; [discriminate|].
  intros H x [<-|Hx]; [apply Nat.eqb_neq; exact E|apply IH; assumption].
Qed.

Lemma In_find_conn l x : NoDup (map cid l) -> In x l -> find_conn (cid x) l = Some x.
Proof.
  induction l as [|y l IH]; cbn; [intros _ []|].
  intros N [->|Hx].
  - rewrite Nat.eqb_refl. reflexivity.
  - inversion N as [|? ? Ny Nl]; subst.
    destruct (Nat.eqb (cid y) (cid x)) eqn:E.
    + exfalso. apply Nat.eqb_eq in E. apply Ny. rewrite E. apply in_map. exact Hx.
    + apply IH; assumption.
Qed.

Lemma map_cid_upd c f l : keeps_id f -> map cid (upd_conn c f l) = map cid l.
Proof.
  intros K. induction l as [|y l IH]; cbn; [reflexivity|].
  destruct (Nat.eqb (cid y) c); cbn; [rewrite K; reflexivity|rewrite IH; reflexivity].
Qed.

Lemma In_upd c f l y : In y (upd_conn c f l) -> In y l \/ exists x, In x l /\ cid x = c /\ y = f x.
Proof.
  induction l as [|z l IH]; cbn; [tauto|].
  destruct (Nat.eqb (cid z) c) eqn:E; cbn.
  - intros [<-|H]; [right; exists z; apply Nat.eqb_eq in E; auto|left; right; exact H].
  - intros [<-|H]; [left; left; reflexivity|].
    destruct (IH H) as [H1|(x & A & B & C)]; [left; right; exact H1|right; exists x; auto].
Qed.

Lemma find_upd_same c f l : keeps_id f -> find_conn c (upd_conn c f l) = option_map f (find_conn c l).
Proof.
  intros K. induction l as [|y l IH]; cbn; [reflexivity|].
  destruct (Nat.eqb (cid y) c) eqn:E; cbn.
  - rewrite K, E. reflexivity.
  - rewrite E. exact IH.
Qed.

Lemma find_upd_other c c' f l : c <> c' -> keeps_id f -> find_conn c (upd_conn c' f l) = find_conn c l.
Proof.
  intros N K. induction l as [|y l IH]; cbn; [reflexivity|].
  destruct (Nat.eqb (cid y) c') eqn:E; cbn.
  - rewrite K. apply Nat.eqb_eq in E. destruct (Nat.eqb (cid y) c) eqn:E2; [apply Nat.eqb_eq in E2; congruence|reflexivity].
  - destruct (Nat.eqb (cid y) c); [reflexivity|exact IH].
Qed.

Lemma upd_upd c f g l : keeps_id f -> upd_conn c g (upd_conn c f l) = upd_conn c (fun x => g (f x)) l.
Proof.
  intros K. induction l as [|y l IH]; cbn; [reflexivity|].
  destruct (Nat.eqb (cid y) c) eqn:E; cbn.
  - rewrite K, E. reflexivity.
  - rewrite E, IH. reflexivity.
Qed.

(* ---- session maps ---- *)
Lemma att_gen_In sid l g : att_gen sid l = Some g ->
  exists m, In m l /\ mgen m = g /\ msid m = sid /\ matt m = true.
Proof.
  induction l as [|m l IH]; cbn; [discriminate|].
  destruct (Nat.eqb (msid m) sid && matt m) eqn:E.
  - intros H; injection H as <-. apply andb_prop in E. destruct E as (E1 & E2). apply Nat.eqb_eq in E1.
    exists m. auto.
  - intros H. destruct (IH H) as (m' & A & B). exists m'. split; [right; exact A|exact B].
Qed.

Lemma In_detach sid l m : In m (detach_sid sid l) ->
  exists m0, In m0 l /\ mgen m = mgen m0 /\ msid m = msid m0 /\ (matt m = true -> matt m0 = true /\ msid m0 <> sid).
Proof.
  unfold detach_sid. intros H. apply in_map_iff in H. destruct H as (m0 & E & Hin).
  exists m0. split; [exact Hin|].
  destruct (Nat.eqb (msid m0) sid && matt m0) eqn:B; subst m; cbn.
  - repeat split; discriminate.
  - repeat split; try assumption. intros Es. rewrite Es, Nat.eqb_refl in B. cbn in B. congruence.
Qed.

Lemma att_gen_detach sid l : att_gen sid (detach_sid sid l) = None.
Proof.
  induction l as [|m l IH]; cbn; [reflexivity|].
  destruct (Nat.eqb (msid m) sid && matt m) eqn:B; cbn.
  - rewrite andb_false_r. exact IH.
  - rewrite B. exact IH.
Qed.

Lemma att_gen_detach_other sid sid' l : sid <> sid' -> att_gen sid (detach_sid sid' l) = att_gen sid l.
Proof.
  intros N. induction l as [|m l IH]; cbn [detach_sid map att_gen]; [reflexivity|].
  fold (detach_sid sid' l).
  destruct (Nat.eqb (msid m) sid' && matt m) eqn:B; cbn [msid matt mgen].
  - apply andb_prop in B. destruct B as (B1 & B2). apply Nat.eqb_eq in B1.
    replace (Nat.eqb (msid m) sid) with false by (symmetry; apply Nat.eqb_neq; congruence).
    cbn [andb]. exact IH.
  - rewrite IH. reflexivity.
Qed.

(* ---- the invariant ---- *)
Definition att (h : hub) (g : nat) : Prop := exists m, In m (maps h) /\ mgen m = g /\ matt m = true.

Record HI (h : hub) : Prop := {
  hi_ids : NoDup (map cid (conns h));
  hi_gens : NoDup (map mgen (maps h));
  hi_next : forall m, In m (maps h) -> mgen m < nextgen h;
  hi_cnext : forall x g, In x (conns h) -> cgen x = Some g -> g < nextgen h;
  (* an entry of an attached session map has an open channel and belongs to that session *)
  hi_live : forall x g m, In x (conns h) -> cgen x = Some g -> In m (maps h) -> mgen m = g -> matt m = true ->
            cclosed x = false /\ msid m = csid x;
  (* a connection whose remove() is past phase 1 is in no map *)
  hi_rm : forall r x, In r (rms h) -> In x (conns h) -> cid x = rcid r -> cgen x = None;
  (* the connections a pending CloseSession still has to close are in no attached map *)
  hi_cs : forall s c x g, In s (css h) -> In c (stodo s) -> In x (conns h) -> cid x = c -> cgen x = Some g -> ~ att h g;
  (* the writer takes messages in the order they were accepted *)
  hi_fifo : forall x, In x (conns h) -> cacc x = cdeliv x ++ cq x;
  hi_nopanic : npanic h = 0;
  (* pending operations refer to connections that exist *)
  hi_rmk : forall r, In r (rms h) -> In (rcid r) (map cid (conns h));
  hi_csk : forall s c, In s (css h) -> In c (stodo s) -> In c (map cid (conns h))
}.

Lemma hi_init cap : HI (init cap).
Proof. constructor; cbn; try constructor; try (intros; contradiction); try reflexivity. Qed.

(* the invariant only looks at these projections *)
Lemma hi_same h h' :
  conns h' = conns h -> maps h' = maps h -> rms h' = rms h -> css h' = css h ->
  npanic h' = npanic h -> nextgen h' = nextgen h -> HI h -> HI h'.
Proof.
  intros Ec Em Er Es Ep En I. destruct I.
  constructor; unfold att in *; rewrite ?Ec, ?Em, ?Er, ?Es, ?Ep, ?En; assumption.
Qed.

(* updating one connection with a function that keeps the id: obligations *)
Lemma hi_upd h c f :
  keeps_id f ->
  (forall x, In x (conns h) -> cid x = c ->
     csid (f x) = csid x /\
     (cgen (f x) = cgen x \/ cgen (f x) = None) /\
     (forall g, cgen (f x) = Some g -> att h g -> cclosed (f x) = false) /\
     cacc (f x) = cdeliv (f x) ++ cq (f x)) ->
  HI h -> HI (set_conns h (upd_conn c f (conns h))).
Proof.
  intros K O I. destruct I.
  constructor; cbn [set_conns conns maps rms css npanic nextgen]; try assumption.
  - rewrite map_cid_upd by exact K. assumption.
  - intros y g Hy Hg. apply In_upd in Hy. destruct Hy as [Hy|(x & Hx & Ec & ->)]; [eauto|].
    destruct (O x Hx Ec) as (_ & [E|E] & _); [rewrite E in Hg; eauto|congruence].
  - intros y g m Hy Hg Hm Eg Ha. apply In_upd in Hy. destruct Hy as [Hy|(x & Hx & Ec & ->)]; [eauto|].
    destruct (O x Hx Ec) as (Es & [E|E] & Hc & _); [|congruence].
    rewrite E in Hg. destruct (hi_live0 x g m Hx Hg Hm Eg Ha) as (_ & B).
    split; [apply (Hc g); [rewrite E; exact Hg|exists m; auto]|rewrite Es; exact B].
  - intros r y Hr Hy Ey. apply In_upd in Hy. destruct Hy as [Hy|(x & Hx & Ec & ->)]; [eauto|].
    rewrite K in Ey. destruct (O x Hx Ec) as (_ & [E|E] & _); [rewrite E; eauto|exact E].
  - intros s c0 y g Hs Hc Hy Ey Hg. unfold att. cbn [set_conns maps].
    apply In_upd in Hy. destruct Hy as [Hy|(x & Hx & Ec & ->)]; [eapply hi_cs0; eauto|].
    rewrite K in Ey. destruct (O x Hx Ec) as (_ & [E|E] & _); [rewrite E in Hg; eapply hi_cs0; eauto|congruence].
  - intros y Hy. apply In_upd in Hy. destruct Hy as [Hy|(x & Hx & Ec & ->)]; [eauto|].
    destruct (O x Hx Ec) as (_ & _ & _ & F). exact F.
  - rewrite map_cid_upd by exact K. assumption.
  - rewrite map_cid_upd by exact K. assumption.
Qed.

Lemma In_upd_id c f l y : NoDup (map cid l) -> keeps_id f -> In y (upd_conn c f l) -> cid y = c ->
  exists x, In x l /\ cid x = c /\ y = f x.
Proof.
  intros N K. induction l as [|z l IH]; cbn; [tauto|].
  inversion N as [|? ? Nz Nl]; subst.
  destruct (Nat.eqb (cid z) c) eqn:E; cbn.
  - apply Nat.eqb_eq in E. intros [<-|H] Ey; [exists z; auto|].
    exfalso. apply Nz. rewrite E, <- Ey. apply in_map. exact H.
  - intros [<-|H] Ey; [apply Nat.eqb_neq in E; congruence|].
    destruct (IH Nl H Ey) as (x & A & B & C). exists x. auto.
Qed.

Lemma att_live h x g : HI h -> In x (conns h) -> cgen x = Some g -> att h g -> cclosed x = false.
Proof. intros I Hx Hg (m & Hm & Eg & Ha). destruct I. apply (hi_live0 x g m Hx Hg Hm Eg Ha). Qed.

(* ---- elementary state changes ---- *)
Lemma hi_unlink h c : HI h -> HI (unlink_conn c h).
Proof.
  intros I. apply hi_upd; [apply keeps_unlink| |exact I].
  intros x Hx Ec. cbn. repeat split; auto; try discriminate. destruct I. auto.
Qed.

Lemma hi_close h c : HI h ->
  (forall x g, In x (conns h) -> cid x = c -> cgen x = Some g -> ~ att h g) -> HI (close_conn c h).
Proof.
  intros I P. apply hi_upd; [apply keeps_close| |exact I].
  intros x Hx Ec. cbn. repeat split; auto.
  - intros g Hg Ha. exfalso. apply (P x g Hx Ec Hg Ha).
  - destruct I. auto.
Qed.

Lemma hi_close_unlink h c : HI h -> HI (unlink_conn c (close_conn c h)).
Proof.
  intros I. unfold unlink_conn, close_conn. cbn [set_conns conns].
  rewrite upd_upd by apply keeps_close.
  assert (E : set_conns (set_conns h (upd_conn c c_close (conns h))) (upd_conn c (fun x => c_unlink (c_close x)) (conns h))
            = set_conns h (upd_conn c (fun x => c_unlink (c_close x)) (conns h))) by reflexivity.
  rewrite E. apply hi_upd; [intros x; reflexivity| |exact I].
  intros x Hx Ec. cbn. repeat split; auto; try discriminate. destruct I. auto.
Qed.

Lemma hi_pop h c : HI h -> HI (set_conns h (upd_conn c c_pop (conns h))).
Proof.
  intros I. apply hi_upd; [apply keeps_pop| |exact I].
  intros x Hx Ec. pose proof I as I0. destruct I. unfold c_pop.
  destruct (cq x) as [|m r] eqn:Q; cbn.
  - repeat split; auto. intros g Hg Ha. eapply att_live; eauto.
  - repeat split; auto.
    + intros g Hg Ha. eapply att_live; eauto.
    + rewrite (hi_fifo0 x Hx), Q, <- app_assoc. reflexivity.
Qed.

Lemma hi_enqueue h c m : HI h ->
  (forall x, In x (conns h) -> cid x = c -> cclosed x = false) -> HI (enqueue c m h).
Proof.
  intros I P. unfold enqueue.
  destruct (find_conn c (conns h)) as [x|] eqn:F; [|apply (hi_same h); auto].
  apply find_conn_In in F. destruct F as (Hx & Ec).
  rewrite (P x Hx Ec).
  destruct (length (cq x) <? cap h); [|exact I].
  apply hi_upd; [apply keeps_push| |exact I].
  intros y Hy Ey. pose proof I as I0. destruct I. cbn. repeat split; auto;
    try (intros g Hg Ha; eapply att_live; eauto; fail).
  rewrite (hi_fifo0 y Hy), app_assoc. reflexivity.
Qed.

(* enqueue does not touch what the precondition of the next enqueue looks at *)
Lemma enqueue_shape h c m :
  maps (enqueue c m h) = maps h /\ rms (enqueue c m h) = rms h /\ css (enqueue c m h) = css h /\
  bypeer (enqueue c m h) = bypeer h /\ nextgen (enqueue c m h) = nextgen h /\ cap (enqueue c m h) = cap h /\
  map cid (conns (enqueue c m h)) = map cid (conns h) /\
  (forall y, In y (conns (enqueue c m h)) ->
     exists x, In x (conns h) /\ cid y = cid x /\ cgen y = cgen x /\ cclosed y = cclosed x /\ csid y = csid x).
Proof.
  unfold enqueue. destruct (find_conn c (conns h)) as [x|]; [|cbn; repeat split; eauto 10].
  destruct (cclosed x); [cbn; repeat split; eauto 10|].
  destruct (length (cq x) <? cap h); [|repeat split; eauto 10].
  cbn. repeat split; try reflexivity.
  - apply map_cid_upd. apply keeps_push.
  - intros y Hy. apply In_upd in Hy. destruct Hy as [Hy|(z & Hz & _ & ->)]; [eauto 10|].
    exists z. cbn. auto.
Qed.

Lemma hi_fold_enqueue m : forall todo h, HI h ->
  (forall c x, In c todo -> In x (conns h) -> cid x = c -> cclosed x = false) ->
  HI (fold_left (fun h' c => enqueue c m h') todo h).
Proof.
  induction todo as [|c todo IH]; intros h I P; cbn [fold_left]; [exact I|].
  apply IH.
  - apply hi_enqueue; [exact I|]. intros x Hx Ec. apply (P c x); [left; reflexivity|exact Hx|exact Ec].
  - intros c' y Hc' Hy Ey.
    destruct (enqueue_shape h c m) as (_ & _ & _ & _ & _ & _ & _ & S).
    destruct (S y Hy) as (x & Hx & E1 & _ & E3 & _). rewrite E3.
    apply (P c' x); [right; exact Hc'|exact Hx|congruence].
Qed.

Lemma map_mgen_detach sid l : map mgen (detach_sid sid l) = map mgen l.
Proof.
  unfold detach_sid. rewrite map_map. apply map_ext. intros m.
  destruct (Nat.eqb (msid m) sid && matt m); reflexivity.
Qed.

Lemma att_detach h sid g : att (set_maps h (detach_sid sid (maps h))) g -> att h g.
Proof.
  intros (m & Hm & Eg & Ha). cbn in Hm. apply In_detach in Hm.
  destruct Hm as (m0 & H0 & E1 & _ & E3). destruct (E3 Ha) as (A & _).
  exists m0. split; [exact H0|]. split; [congruence|exact A].
Qed.

Lemma hi_detach h sid : HI h -> HI (set_maps h (detach_sid sid (maps h))).
Proof.
  intros I. pose proof I as I0. destruct I.
  constructor; cbn [set_maps conns maps rms css npanic nextgen]; try assumption.
  - rewrite map_mgen_detach. assumption.
  - intros m Hm. apply In_detach in Hm. destruct Hm as (m0 & H0 & E1 & _). rewrite E1. auto.
  - intros x g m Hx Hg Hm Eg Ha. apply In_detach in Hm. destruct Hm as (m0 & H0 & E1 & E2 & E3).
    destruct (E3 Ha) as (A & _). rewrite E2. apply (hi_live0 x g m0); auto. congruence.
  - intros s c x g Hs Hc Hx Ec Hg Ha. apply att_detach in Ha. eapply hi_cs0; eauto.
Qed.

(* membership of a session map *)
Lemma members_In g l c : In c (members g l) -> exists x, In x l /\ cid x = c /\ cgen x = Some g.
Proof.
  unfold members. intros H. apply in_map_iff in H. destruct H as (x & E & Hx).
  apply filter_In in Hx. destruct Hx as (Hx & G). exists x. split; [exact Hx|]. split; [exact E|].
  unfold ogen_eqb in G. destruct (cgen x); [apply Nat.eqb_eq in G; congruence|discriminate].
Qed.

Lemma linked_in_spec c g h : linked_in c g h = true ->
  exists x, In x (conns h) /\ cid x = c /\ cgen x = Some g.
Proof.
  unfold linked_in. destruct (find_conn c (conns h)) as [x|] eqn:F; [|discriminate].
  intros G. apply find_conn_In in F. destruct F. exists x. split; [assumption|]. split; [assumption|].
  unfold ogen_eqb in G. destruct (cgen x); [apply Nat.eqb_eq in G; congruence|discriminate].
Qed.

Lemma att_gen_att h sid g : att_gen sid (maps h) = Some g -> att h g.
Proof. intros H. apply att_gen_In in H. destruct H as (m & A & B & _ & D). exists m. auto. Qed.

Lemma same_id h x y : HI h -> In x (conns h) -> In y (conns h) -> cid x = cid y -> x = y.
Proof.
  intros I Hx Hy E. destruct I.
  pose proof (In_find_conn (conns h) x hi_ids0 Hx) as F1.
  pose proof (In_find_conn (conns h) y hi_ids0 Hy) as F2.
  rewrite E in F1. congruence.
Qed.

Lemma hi_sendto h sid peer m : HI h -> HI (fst (step h (SendTo sid peer m))).
Proof.
  intros I. cbn [step].
  destruct (bp_find sid peer (bypeer h)) as [c|]; [|exact I].
  destruct (att_gen sid (maps h)) as [g|] eqn:A; [|exact I].
  destruct (linked_in c g h) eqn:L; [|exact I]. cbn [fst].
  apply hi_enqueue; [exact I|].
  intros x Hx Ec. apply linked_in_spec in L. destruct L as (y & Hy & Ey & Gy).
  assert (x = y) by (eapply same_id; eauto; congruence). subst y.
  eapply att_live; eauto. eapply att_gen_att; eauto.
Qed.

Lemma In_remove_nat c x l : In c (remove_nat x l) -> In c l.
Proof. unfold remove_nat. intros H. apply filter_In in H. tauto. Qed.

Lemma hi_bcast h sid ex m : HI h -> HI (fst (step h (Bcast sid ex m))).
Proof.
  intros I. cbn [step].
  destruct (att_gen sid (maps h)) as [g|] eqn:A; [|exact I]. cbn [fst].
  apply hi_fold_enqueue; [exact I|].
  intros c x Hc Hx Ec.
  assert (Hm : In c (members g (conns h))).
  { destruct ex as [p|]; [destruct (bp_find sid p (bypeer h))|]; try exact Hc; eapply In_remove_nat; exact Hc. }
  apply members_In in Hm. destruct Hm as (y & Hy & Ey & Gy).
  assert (x = y) by (eapply same_id; eauto; congruence). subst y.
  eapply att_live; eauto. eapply att_gen_att; eauto.
Qed.

Lemma hi_pop_step h c : HI h -> HI (fst (step h (Pop c))).
Proof.
  intros I. cbn [step]. destruct (find_conn c (conns h)); cbn [fst]; [apply hi_pop; exact I|apply (hi_same h); auto].
Qed.

Lemma hi_bypeer h v : HI h -> HI (set_bypeer h v).
Proof. apply hi_same; reflexivity. Qed.

Lemma hi_bad h : HI h -> HI (set_bad h).
Proof. apply hi_same; reflexivity. Qed.

Lemma map_cid_conns_unlink h c : map cid (conns (unlink_conn c h)) = map cid (conns h).
Proof. cbn. apply map_cid_upd. apply keeps_unlink. Qed.

Lemma hi_rm1 h c : HI h -> HI (fst (step h (Rm1 c))).
Proof.
  intros I. cbn [step].
  destruct (find_conn c (conns h)) as [x|] eqn:F; [|apply hi_bad; exact I].
  destruct (find_rm c (rms h)); [apply hi_bad; exact I|].
  destruct (att_gen (csid x) (maps h)) as [g|]; [|exact I].
  destruct (negb (ogen_eqb (cgen x) g)); [exact I|]. cbn [fst].
  pose proof (hi_unlink h c I) as I1.
  set (h1 := unlink_conn c h) in *.
  set (h2 := match bp_find (csid x) (cpeer x) (bypeer h1) with
             | Some c' => if Nat.eqb c' c then set_bypeer h1 (bp_del (csid x) (cpeer x) (bypeer h1)) else h1
             | None => h1 end).
  assert (I2 : HI h2).
  { unfold h2. destruct (bp_find (csid x) (cpeer x) (bypeer h1)) as [c'|]; [|exact I1].
    destruct (Nat.eqb c' c); [apply hi_bypeer; exact I1|exact I1]. }
  assert (C2 : conns h2 = conns h1 /\ maps h2 = maps h1 /\ rms h2 = rms h1 /\ css h2 = css h1 /\ npanic h2 = npanic h1 /\ nextgen h2 = nextgen h1).
  { unfold h2. destruct (bp_find (csid x) (cpeer x) (bypeer h1)) as [c'|]; [destruct (Nat.eqb c' c)|]; repeat split. }
  destruct C2 as (C2 & M2 & R2 & S2 & P2 & N2).
  destruct I2. constructor; cbn [set_rms conns maps rms css npanic nextgen]; try assumption.
  - intros r y Hr Hy Ey. apply in_app_or in Hr. destruct Hr as [Hr|[<-|[]]]; [eauto|]. cbn in Ey.
    rewrite C2 in Hy. unfold h1 in Hy. cbn in Hy.
    destruct I. destruct (In_upd_id c c_unlink (conns h) y hi_ids1 keeps_unlink Hy Ey) as (z & _ & _ & ->). reflexivity.
  - intros r Hr. apply in_app_or in Hr. destruct Hr as [Hr|[<-|[]]]; [auto|]. cbn.
    rewrite C2. unfold h1. rewrite map_cid_conns_unlink.
    apply find_conn_In in F. destruct F as (Hx & <-). apply in_map. exact Hx.
Qed.

Lemma hi_rm2 h c : HI h -> HI (fst (step h (Rm2 c))).
Proof.
  intros I. cbn [step].
  destruct (find_rm c (rms h)) as [r|] eqn:F; [|apply hi_bad; exact I].
  destruct (Nat.eqb (rphase r) 1); [|apply hi_bad; exact I]. cbn [fst].
  assert (Hr : In r (rms h) /\ rcid r = c).
  { clear -F. induction (rms h) as [|a l IH]; cbn in F; [discriminate|].
    destruct (Nat.eqb (rcid a) c) eqn:E; [injection F as <-; apply Nat.eqb_eq in E; split; [left; reflexivity|exact E]|].
    destruct (IH F). split; [right; assumption|assumption]. }
  destruct Hr as (Hr & Er).
  assert (I1 : HI (close_conn c h)).
  { apply hi_close; [exact I|]. intros x g Hx Ex Hg. destruct I. rewrite (hi_rm0 r x Hr Hx) in Hg; [discriminate|congruence]. }
  destruct I1 as [? ? ? ? ? Hrm ? ? ? Hrmk ?]. constructor; cbn [set_rms conns maps rms css npanic nextgen]; try assumption.
  - intros r' y Hr' Hy Ey. apply in_map_iff in Hr'. destruct Hr' as (r0 & E0 & H0).
    apply (Hrm r0 y H0 Hy). destruct (Nat.eqb (rcid r0) c) eqn:E; subst r'; cbn in Ey; [apply Nat.eqb_eq in E; congruence|exact Ey].
  - intros r' Hr'. apply in_map_iff in Hr'. destruct Hr' as (r0 & E0 & H0).
    destruct (Nat.eqb (rcid r0) c) eqn:E; subst r'; cbn [rcid]; [apply Nat.eqb_eq in E; rewrite <- E at 1|]; apply Hrmk; exact H0.
Qed.

Lemma hi_rms_sub h v : (forall r, In r v -> In r (rms h)) -> HI h -> HI (set_rms h v).
Proof.
  intros S I. destruct I. constructor; cbn [set_rms conns maps rms css npanic nextgen]; try assumption; eauto.
Qed.

Lemma hi_rm3 h c : HI h -> HI (fst (step h (Rm3 c))).
Proof.
  intros I. cbn [step].
  destruct (find_rm c (rms h)) as [r|]; [|apply hi_bad; exact I].
  destruct (find_conn c (conns h)) as [x|]; [|apply hi_bad; exact I].
  destruct (negb (Nat.eqb (rphase r) 2)); [apply hi_bad; exact I|].
  assert (I1 : HI (set_rms h (del_rm c (rms h)))).
  { apply hi_rms_sub; [|exact I]. intros r0 H0. unfold del_rm in H0. apply filter_In in H0. tauto. }
  match goal with |- context [if ?b then _ else _] => destruct b end; cbn [fst]; [|exact I1].
  apply hi_bypeer. apply (hi_detach _ (csid x)) in I1. exact I1.
Qed.

Lemma NoDup_app_snoc_nat (l : list nat) x : NoDup l -> ~ In x l -> NoDup (l ++ [x]).
Proof.
  intros H N. induction H as [|y l Hy Hl IH]; cbn; [constructor; [tauto|constructor]|].
  constructor.
  - intros Hin. apply in_app_or in Hin. destruct Hin as [Hin|[->|[]]]; [tauto|]. apply N. left. reflexivity.
  - apply IH. intros Hin. apply N. right. exact Hin.
Qed.

Lemma gen_unique l m0 m1 : NoDup (map mgen l) -> In m0 l -> In m1 l -> mgen m0 = mgen m1 -> m0 = m1.
Proof.
  induction l as [|a l IH]; cbn; [tauto|]. intros N H0 H1 E. inversion N as [|? ? Na Nl]; subst.
  destruct H0 as [<-|H0]; destruct H1 as [<-|H1]; try reflexivity.
  - exfalso. apply Na. rewrite E. apply in_map. exact H1.
  - exfalso. apply Na. rewrite <- E. apply in_map. exact H0.
  - apply IH; assumption.
Qed.

Lemma hi_css_sub h v :
  (forall s', In s' v -> exists s0, In s0 (css h) /\ forall c, In c (stodo s') -> In c (stodo s0)) ->
  HI h -> HI (set_css h v).
Proof.
  intros S I. destruct I. constructor; cbn [set_css conns maps rms css npanic nextgen]; try assumption.
  - intros s c x g Hs Hc Hx Ec Hg. destruct (S s Hs) as (s0 & H0 & Sub). unfold att. cbn [set_css maps].
    eapply hi_cs0; eauto.
  - intros s c Hs Hc. destruct (S s Hs) as (s0 & H0 & Sub). eauto.
Qed.

Lemma find_cs_In sid l r : find_cs sid l = Some r -> In r l /\ sidn r = sid.
Proof.
  induction l as [|a l IH]; cbn; [discriminate|].
  destruct (Nat.eqb (sidn a) sid) eqn:E; [intros H; injection H as <-; apply Nat.eqb_eq in E; auto|].
  intros H. destruct (IH H). auto.
Qed.

Lemma mem_In c l : mem c l = true -> In c l.
Proof.
  unfold mem. intros H. apply existsb_exists in H. destruct H as (x & Hx & E). apply Nat.eqb_eq in E. subst. exact Hx.
Qed.

Lemma hi_cs2 h sid c : HI h -> HI (fst (step h (Cs2 sid c))).
Proof.
  intros I. cbn [step].
  destruct (find_cs sid (css h)) as [r|] eqn:F; [|apply hi_bad; exact I].
  destruct (mem c (stodo r)) eqn:M; [|apply hi_bad; exact I]. cbn [fst].
  apply find_cs_In in F. destruct F as (Hr & Er). apply mem_In in M.
  assert (I1 : HI (close_conn c h)).
  { apply hi_close; [exact I|]. intros x g Hx Ex Hg. destruct I. eapply hi_cs0; eauto. }
  apply hi_css_sub; [|exact I1].
  intros s' Hs'. cbn [close_conn set_conns css] in *.
  destruct (remove_nat c (stodo r)) as [|t0 todo] eqn:T.
  - unfold del_cs in Hs'. apply filter_In in Hs'. destruct Hs' as (Hs' & _). exists s'. auto.
  - apply in_map_iff in Hs'. destruct Hs' as (s0 & E0 & H0).
    destruct (Nat.eqb (sidn s0) sid); subst s'; [|exists s0; auto].
    exists r. split; [exact Hr|]. intros c0 Hc0. cbn [stodo] in Hc0. rewrite <- T in Hc0. eapply In_remove_nat; exact Hc0.
Qed.

Lemma hi_cs1 h sid : HI h -> HI (fst (step h (Cs1 sid))).
Proof.
  intros I. cbn [step].
  destruct (find_cs sid (css h)); [apply hi_bad; exact I|].
  destruct (att_gen sid (maps h)) as [g|] eqn:A; [|exact I]. cbn [fst].
  assert (I1 : HI (set_bypeer (set_maps h (detach_sid sid (maps h))) (bp_del_sid sid (bypeer h)))).
  { apply hi_bypeer. apply hi_detach. exact I. }
  destruct (members g (conns h)) as [|t0 todo] eqn:T; [exact I1|].
  rewrite <- T. pose proof I as I0.
  destruct I1. constructor; cbn [set_css set_bypeer set_maps conns maps rms css npanic nextgen] in *; try assumption.
  - intros s c x g' Hs Hc Hx Ec Hg. apply in_app_or in Hs. destruct Hs as [Hs|[<-|[]]].
    + eapply hi_cs0; eauto.
    + cbn [stodo] in Hc. apply members_In in Hc. destruct Hc as (y & Hy & Ey & Gy).
      assert (x = y) by (eapply same_id; eauto; congruence). subst y.
      assert (g' = g) by congruence. subst g'.
      intros (m & Hm & Eg & Ha). cbn [set_css set_bypeer set_maps maps] in Hm.
      apply In_detach in Hm. destruct Hm as (m0 & H0 & E1 & _ & E3). destruct (E3 Ha) as (A0 & Ns).
      apply att_gen_In in A. destruct A as (m1 & H1 & G1 & S1 & _).
      assert (m0 = m1) by (destruct I0; eapply gen_unique; eauto; congruence). subst m1. congruence.
  - intros s c Hs Hc. apply in_app_or in Hs. destruct Hs as [Hs|[<-|[]]]; [eauto|].
    cbn [stodo] in Hc. apply members_In in Hc. destruct Hc as (y & Hy & Ey & _). rewrite <- Ey. apply in_map. exact Hy.
Qed.

Lemma hi_newmap h sid : HI h ->
  HI (mkh (cap h) (conns h) (maps h ++ [mkm (nextgen h) sid true]) (bypeer h) (rms h) (css h) (npanic h) (S (nextgen h)) (bad h)).
Proof.
  intros I. destruct I. constructor; cbn; try assumption.
  - rewrite map_app. cbn. apply NoDup_app_snoc_nat; [assumption|].
    intros Hin. apply in_map_iff in Hin. destruct Hin as (m & E & Hm). apply hi_next0 in Hm. lia.
  - intros m Hm. apply in_app_or in Hm. destruct Hm as [Hm|[<-|[]]]; [apply hi_next0 in Hm; lia|cbn; lia].
  - intros x g Hx Hg. pose proof (hi_cnext0 x g Hx Hg). lia.
  - intros x g m Hx Hg Hm Eg Ha. apply in_app_or in Hm. destruct Hm as [Hm|[<-|[]]]; [eauto|].
    cbn in Eg. pose proof (hi_cnext0 x g Hx Hg). lia.
  - intros s c x g Hs Hc Hx Ec Hg (m & Hm & Eg & Ha). cbn in Hm. apply in_app_or in Hm. destruct Hm as [Hm|[<-|[]]].
    + eapply hi_cs0; eauto. exists m. auto.
    + cbn in Eg. pose proof (hi_cnext0 x g Hx Hg). lia.
Qed.

Lemma hi_append h c peer sid g :
  HI h -> ~ In c (map cid (conns h)) ->
  (exists m, In m (maps h) /\ mgen m = g /\ matt m = true /\ msid m = sid) ->
  HI (set_conns h (conns h ++ [mkc c peer sid (Some g) [] false [] []])).
Proof.
  intros I Fresh (m & Hm & Eg & Ha & Es). pose proof I as I0. destruct I.
  constructor; cbn [set_conns conns maps rms css npanic nextgen]; try assumption.
  - rewrite map_app. cbn. apply NoDup_app_snoc_nat; assumption.
  - intros x g' Hx Hg. apply in_app_or in Hx. destruct Hx as [Hx|[<-|[]]]; [eauto|].
    cbn in Hg. injection Hg as <-. rewrite <- Eg. auto.
  - intros x g' m' Hx Hg Hm' Eg' Ha'. apply in_app_or in Hx. destruct Hx as [Hx|[<-|[]]]; [eauto|].
    cbn in Hg. injection Hg as <-. cbn. split; [reflexivity|].
    assert (m' = m) by (eapply gen_unique; eauto; congruence). subst m'. exact Es.
  - intros r x Hr Hx Ex. apply in_app_or in Hx. destruct Hx as [Hx|[<-|[]]]; [eauto|].
    exfalso. cbn in Ex. apply Fresh. rewrite Ex. auto.
  - intros s c0 x g' Hs Hc Hx Ec Hg. unfold att. cbn [set_conns maps].
    apply in_app_or in Hx. destruct Hx as [Hx|[<-|[]]]; [eapply hi_cs0; eauto|].
    exfalso. cbn in Ec. apply Fresh. rewrite Ec. eauto.
  - intros x Hx. apply in_app_or in Hx. destruct Hx as [Hx|[<-|[]]]; [auto|reflexivity].
  - intros r Hr. rewrite map_app. apply in_or_app. left. auto.
  - intros s c0 Hs Hc. rewrite map_app. apply in_or_app. left. eauto.
Qed.

Lemma hi_add h sid peer c : HI h -> HI (fst (step h (Add sid peer c))).
Proof.
  intros I. cbn [step].
  destruct (find_conn c (conns h)) eqn:F; [apply hi_bad; exact I|].
  assert (Fresh : ~ In c (map cid (conns h))).
  { intros Hin. apply in_map_iff in Hin. destruct Hin as (x & E & Hx). eapply find_conn_None; eauto. }
  (* the session map *)
  set (hg := match att_gen sid (maps h) with
             | Some g => (h, g)
             | None => (mkh (cap h) (conns h) (maps h ++ [mkm (nextgen h) sid true]) (bypeer h)
                            (rms h) (css h) (npanic h) (S (nextgen h)) (bad h), nextgen h) end).
  assert (P : HI (fst hg) /\ conns (fst hg) = conns h /\
              exists m, In m (maps (fst hg)) /\ mgen m = snd hg /\ matt m = true /\ msid m = sid).
  { unfold hg. destruct (att_gen sid (maps h)) as [g|] eqn:A; cbn [fst snd].
    - split; [exact I|]. split; [reflexivity|]. apply att_gen_In in A. destruct A as (m & A1 & A2 & A3 & A4). exists m. auto.
    - split; [apply hi_newmap; exact I|]. split; [reflexivity|].
      exists (mkm (nextgen h) sid true). cbn. split; [apply in_or_app; right; left; reflexivity|auto]. }
  destruct hg as [h2 g]. cbn [fst snd] in P. destruct P as (I2 & C2 & M2).
  set (h3 := match bp_find sid peer (bypeer h2) with
             | Some old => let h' := if linked_in old g h2 then unlink_conn old (close_conn old h2) else h2 in
                           set_bypeer h' (bp_del sid peer (bypeer h'))
             | None => h2 end).
  assert (P3 : HI h3 /\ map cid (conns h3) = map cid (conns h2) /\ maps h3 = maps h2).
  { unfold h3. destruct (bp_find sid peer (bypeer h2)) as [old|]; [|auto].
    destruct (linked_in old g h2); cbv zeta.
    - split; [apply hi_bypeer; apply hi_close_unlink; exact I2|]. split; [|reflexivity].
      cbn. rewrite map_cid_upd by apply keeps_unlink. rewrite map_cid_upd by apply keeps_close. reflexivity.
    - split; [apply hi_bypeer; exact I2|]. split; reflexivity. }
  destruct P3 as (I3 & C3 & M3). cbn [fst].
  apply hi_bypeer. apply hi_append; [exact I3| |].
  - rewrite C3, C2. exact Fresh.
  - rewrite M3. exact M2.
Qed.

Theorem hi_step h o : HI h -> HI (fst (step h o)).
Proof.
  intros I. destruct o.
  - apply hi_add; exact I.
  - apply hi_rm1; exact I.
  - apply hi_rm2; exact I.
  - apply hi_rm3; exact I.
  - apply hi_cs1; exact I.
  - apply hi_cs2; exact I.
  - apply hi_sendto; exact I.
  - apply hi_bcast; exact I.
  - apply hi_pop_step; exact I.
  - cbn [step]. destruct (att_gen sid (maps h)); exact I.
Qed.

Theorem hi_run ops : forall h, HI h -> HI (fst (run h ops)).
Proof.
  induction ops as [|o r IH]; intros h I; cbn [run]; [exact I|].
  pose proof (hi_step h o I) as I1. destruct (step h o) as [h1 x]. cbn [fst] in I1.
  specialize (IH h1 I1). destruct (run h1 r) as [h2 xs]. exact IH.
Qed.

(* ---- headline statements ---- *)

(* no interleaving of the phases ever sends on a closed channel *)
Theorem no_panic cap ops : npanic (fst (run (init cap) ops)) = 0.
Proof. pose proof (hi_run ops (init cap) (hi_init cap)) as I. destruct I. assumption. Qed.

(* every connection's writer takes exactly the accepted messages, in acceptance
   order, without duplication: accepted = taken ++ still buffered *)
Theorem fifo cap ops x : In x (conns (fst (run (init cap) ops))) -> cacc x = cdeliv x ++ cq x.
Proof. pose proof (hi_run ops (init cap) (hi_init cap)) as I. destruct I. auto. Qed.

(* an entry of an attached session map is open and belongs to that session *)
Theorem attached_open_and_local cap ops x g m :
  let h := fst (run (init cap) ops) in
  In x (conns h) -> cgen x = Some g -> In m (maps h) -> mgen m = g -> matt m = true ->
  cclosed x = false /\ msid m = csid x.
Proof. intros h. pose proof (hi_run ops (init cap) (hi_init cap)) as I. destruct I. apply hi_live0. Qed.

(* ---- routing: who can receive what ---- *)

(* the entries of the attached map of a session are connections of that session *)
Lemma member_session h sid g x : HI h -> att_gen sid (maps h) = Some g -> In x (conns h) -> cgen x = Some g ->
  csid x = sid /\ cclosed x = false.
Proof.
  intros I A Hx Hg. apply att_gen_In in A. destruct A as (m & Hm & Eg & Es & Ha).
  destruct I. destruct (hi_live0 x g m Hx Hg Hm Eg Ha). split; congruence.
Qed.

(* the connections an operation enqueues to *)
Definition targets (h : hub) (o : op) : list nat :=
  match o with
  | SendTo sid peer _ =>
    match bp_find sid peer (bypeer h), att_gen sid (maps h) with
    | Some c, Some g => if linked_in c g h then [c] else []
    | _, _ => []
    end
  | Bcast sid ex _ =>
    match att_gen sid (maps h) with
    | Some g => match (match ex with Some p => bp_find sid p (bypeer h) | None => None end) with
                | Some c => remove_nat c (members g (conns h))
                | None => members g (conns h)
                end
    | None => []
    end
  | _ => []
  end.

Definition op_session (o : op) : option nat :=
  match o with SendTo sid _ _ | Bcast sid _ _ => Some sid | _ => None end.

(* isolation: a message is only ever offered to connections of the session it
   was sent in (both for addressed sends and for broadcasts) *)
Theorem targets_in_session h o c : HI h -> In c (targets h o) ->
  exists x sid, In x (conns h) /\ cid x = c /\ op_session o = Some sid /\ csid x = sid /\ cclosed x = false.
Proof.
  intros I Hc. destruct o; cbn [targets] in Hc; try contradiction.
  - destruct (bp_find sid peer (bypeer h)) as [c0|]; [|contradiction].
    destruct (att_gen sid (maps h)) as [g|] eqn:A; [|contradiction].
    destruct (linked_in c0 g h) eqn:L; [|contradiction]. destruct Hc as [<-|[]].
    apply linked_in_spec in L. destruct L as (x & Hx & Ex & Gx).
    destruct (member_session h sid g x I A Hx Gx). exists x, sid. cbn. auto.
  - destruct (att_gen sid (maps h)) as [g|] eqn:A; [|contradiction].
    assert (Hm : In c (members g (conns h))).
    { destruct except as [p|]; [destruct (bp_find sid p (bypeer h))|]; try exact Hc; eapply In_remove_nat; exact Hc. }
    apply members_In in Hm. destruct Hm as (x & Hx & Ex & Gx).
    destruct (member_session h sid g x I A Hx Gx). exists x, sid. cbn. auto.
Qed.

(* the step function offers the message to exactly these connections *)
Theorem step_is_enqueue_targets h o m sid :
  (exists p, o = SendTo sid p m) \/ (exists e, o = Bcast sid e m) ->
  fst (step h o) = fold_left (fun h' c => enqueue c m h') (targets h o) h.
Proof.
  intros [(p & ->)|(e & ->)]; cbn [step targets].
  - destruct (bp_find sid p (bypeer h)); [|reflexivity].
    destruct (att_gen sid (maps h)); [|reflexivity].
    destruct (linked_in n n0 h); reflexivity.
  - destruct (att_gen sid (maps h)); reflexivity.
Qed.

(* BroadcastExcept leaves out the author's current connection and nobody else *)
Theorem bcast_except_targets h sid p m g c :
  att_gen sid (maps h) = Some g -> bp_find sid p (bypeer h) = Some c ->
  targets h (Bcast sid (Some p) m) = remove_nat c (members g (conns h)).
Proof. intros A B. cbn [targets]. rewrite A, B. reflexivity. Qed.

(* a connection is routable when its session map is attached and it is the
   registered connection of its peer id *)
Definition routable (h : hub) (c : nat) : Prop :=
  exists x g, In x (conns h) /\ cid x = c /\ cgen x = Some g /\
    att_gen (csid x) (maps h) = Some g /\ bp_find (csid x) (cpeer x) (bypeer h) = Some c.

Theorem sendto_routable h c x m : HI h -> routable h c -> In x (conns h) -> cid x = c ->
  snd (step h (SendTo (csid x) (cpeer x) m)) = OBool true.
Proof.
  intros I (y & g & Hy & Ey & Gy & A & B) Hx Ex.
  assert (x = y) by (eapply same_id; eauto; congruence). subst y.
  cbn [step]. rewrite B, A.
  assert (L : linked_in c g h = true).
  { unfold linked_in. destruct I. rewrite <- Ex, (In_find_conn (conns h) x hi_ids0 Hx), Gy. cbn. apply Nat.eqb_refl. }
  rewrite L. reflexivity.
Qed.

Lemma bp_find_del_other sid p sid' l : sid <> sid' -> bp_find sid p (bp_del_sid sid' l) = bp_find sid p l.
Proof.
  intros N. induction l as [|[[s q] c] l IH]; cbn; [reflexivity|].
  destruct (Nat.eqb s sid') eqn:E; cbn.
  - apply Nat.eqb_eq in E. subst s.
    replace (Nat.eqb sid' sid) with false by (symmetry; apply Nat.eqb_neq; congruence). cbn. exact IH.
  - destruct (Nat.eqb s sid && Nat.eqb q p); [reflexivity|exact IH].
Qed.

(* the garbage collection at the end of ANY remove never makes a routable
   connection unroutable (this is what the stale-map test used to break) *)
Theorem rm3_keeps_routable h c c' : HI h -> routable h c -> routable (fst (step h (Rm3 c'))) c.
Proof.
  intros I (x & g & Hx & Ex & Gx & A & B). cbn [step].
  destruct (find_rm c' (rms h)) as [r|]; [|exists x, g; auto].
  destruct (find_conn c' (conns h)) as [x'|]; [|exists x, g; auto].
  destruct (negb (Nat.eqb (rphase r) 2)); [exists x, g; auto|].
  destruct (att_gen (csid x') (maps h)) as [g'|] eqn:A'.
  - destruct (members g' (conns h)) as [|t0 t] eqn:M; cbn [fst]; [|exists x, g; auto].
    (* the current map of c''s session is empty: it is not x's session *)
    assert (N : csid x <> csid x').
    { intros E. rewrite E in A. assert (g' = g) by congruence. subst g'.
      assert (Hin : In (cid x) (members g (conns h))).
      { unfold members. apply in_map. apply filter_In. split; [exact Hx|]. rewrite Gx. cbn. apply Nat.eqb_refl. }
      rewrite M in Hin. contradiction. }
    exists x, g. cbn [set_bypeer set_maps set_rms conns maps bypeer]. repeat split; auto.
    + rewrite att_gen_detach_other by exact N. exact A.
    + rewrite bp_find_del_other by exact N. exact B.
  - cbn [fst]. exists x, g. auto.
Qed.

(* a connection whose remove() has passed phase 1 is listed nowhere *)
Theorem left_not_listed h c g : HI h -> (exists r, In r (rms h) /\ rcid r = c) -> ~ In c (members g (conns h)).
Proof.
  intros I (r & Hr & Er) Hin. apply members_In in Hin. destruct Hin as (x & Hx & Ex & Gx).
  destruct I. rewrite (hi_rm0 r x Hr Hx) in Gx; [discriminate|congruence].
Qed.

(* the channel is bounded and a message is refused only when it is full *)
Theorem enqueue_accepts_unless_full h c m x : In x (conns h) -> NoDup (map cid (conns h)) -> cid x = c ->
  cclosed x = false -> length (cq x) < cap h ->
  exists y, find_conn c (conns (enqueue c m h)) = Some y /\ cacc y = cacc x ++ [m].
Proof.
  intros Hx N Ex Hc Hl. unfold enqueue. rewrite <- Ex, (In_find_conn _ x N Hx), Hc.
  replace (length (cq x) <? cap h) with true by (symmetry; apply Nat.ltb_lt; exact Hl).
  cbn. rewrite find_upd_same by apply keeps_push. rewrite (In_find_conn _ x N Hx). cbn. eauto.
Qed.

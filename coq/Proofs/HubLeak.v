(* "No routing state leaks once a session is empty" (C11), for ALL histories of the
   hub model: whenever the attached map of a session has no entry, some remove() that
   has unlinked a connection of that session is still pending - and its third phase
   garbage-collects the map.  Hence in every reachable state in which no remove() is
   pending, every attached session map has at least one entry; and every routing-index
   entry (bypeer) points at a connection that is an entry of its session's attached map. *)
From Coq Require Import List Arith Bool Lia.
Import ListNotations.
From TF Require Import Model.Hub Proofs.Hub.

Definition ids (l : list conn) : list (nat * nat) := map (fun x => (cid x, csid x)) l.

(* a pending remove() of a connection of session [sid] *)
Definition W (h : hub) (sid : nat) : Prop := exists r, In r (rms h) /\ In (rcid r, sid) (ids (conns h)).

Definition NL (h : hub) : Prop :=
  forall sid g, att_gen sid (maps h) = Some g -> members g (conns h) = [] -> W h sid.

Definition keeps_sid (f : conn -> conn) : Prop := forall x, csid (f x) = csid x.
Definition keeps_gen (f : conn -> conn) : Prop := forall x, cgen (f x) = cgen x.

Lemma ksid_close : keeps_sid c_close. Proof. intros x; reflexivity. Qed.
Lemma ksid_unlink : keeps_sid c_unlink. Proof. intros x; reflexivity. Qed.
Lemma ksid_push m : keeps_sid (c_push m). Proof. intros x; reflexivity. Qed.
Lemma ksid_pop : keeps_sid c_pop. Proof. intros x; unfold c_pop; destruct (cq x); reflexivity. Qed.
Lemma kgen_close : keeps_gen c_close. Proof. intros x; reflexivity. Qed.
Lemma kgen_push m : keeps_gen (c_push m). Proof. intros x; reflexivity. Qed.
Lemma kgen_pop : keeps_gen c_pop. Proof. intros x; unfold c_pop; destruct (cq x); reflexivity. Qed.

Lemma ids_upd c f l : keeps_id f -> keeps_sid f -> ids (upd_conn c f l) = ids l.
Proof.
  intros K S. induction l as [|x r IH]; cbn [upd_conn ids map]; [reflexivity|].
  destruct (Nat.eqb (cid x) c); cbn [ids map].
  - rewrite K, S. reflexivity.
  - fold (ids (upd_conn c f r)). fold (ids r). rewrite IH. reflexivity.
Qed.

Lemma members_upd_keep g c f l : keeps_id f -> keeps_gen f -> members g (upd_conn c f l) = members g l.
Proof.
  intros K G. unfold members. induction l as [|x r IH]; cbn [upd_conn filter map]; [reflexivity|].
  destruct (Nat.eqb (cid x) c); cbn [filter map].
  - rewrite G. destruct (ogen_eqb (cgen x) g); cbn [map]; [rewrite K|]; reflexivity.
  - destruct (ogen_eqb (cgen x) g); cbn [map]; rewrite IH; reflexivity.
Qed.

(* unlinking one connection empties a map only if it was empty or held that connection *)
Lemma members_unlink_nil g c l : members g (upd_conn c c_unlink l) = [] ->
  members g l = [] \/ exists x, In x l /\ cid x = c /\ cgen x = Some g.
Proof.
  unfold members. induction l as [|x r IH]; cbn [upd_conn filter map]; [auto|].
  destruct (Nat.eqb (cid x) c) eqn:E; cbn [filter map c_unlink cgen ogen_eqb].
  - intros H. destruct (ogen_eqb (cgen x) g) eqn:G.
    + right. exists x. split; [left; reflexivity|]. split; [apply Nat.eqb_eq; exact E|].
      unfold ogen_eqb in G. destruct (cgen x); [apply Nat.eqb_eq in G; congruence|discriminate].
    + left. exact H.
  - destruct (ogen_eqb (cgen x) g); cbn [map]; [discriminate|].
    intros H. destruct (IH H) as [L|(y & Hy & Ey & Gy)]; [left; exact L|].
    right. exists y. split; [right; exact Hy|auto].
Qed.

Lemma members_app g l1 l2 : members g (l1 ++ l2) = members g l1 ++ members g l2.
Proof. unfold members. rewrite filter_app, map_app. reflexivity. Qed.

Lemma att_gen_app sid l m :
  att_gen sid (l ++ [m]) =
  match att_gen sid l with Some g => Some g | None => if Nat.eqb (msid m) sid && matt m then Some (mgen m) else None end.
Proof.
  induction l as [|a l IH]; cbn [app att_gen]; [reflexivity|].
  destruct (Nat.eqb (msid a) sid && matt a); [reflexivity|exact IH].
Qed.

(* ---- steps that leave the routing structure alone ---- *)
Definition same_routing (h h' : hub) : Prop :=
  maps h' = maps h /\ rms h' = rms h /\ ids (conns h') = ids (conns h) /\
  (forall g, members g (conns h') = members g (conns h)).

Lemma same_routing_refl h : same_routing h h.
Proof. repeat split. Qed.

Lemma same_routing_trans a b c : same_routing a b -> same_routing b c -> same_routing a c.
Proof.
  intros (A1 & A2 & A3 & A4) (B1 & B2 & B3 & B4). split; [congruence|]. split; [congruence|].
  split; [congruence|]. intros g. rewrite B4. apply A4.
Qed.

Lemma nl_same h h' : same_routing h h' -> NL h -> NL h'.
Proof.
  intros (M & R & I & G) N sid g A E. rewrite M in A. rewrite G in E.
  destruct (N sid g A E) as (r & Hr & Hi). exists r. rewrite R, I. auto.
Qed.

Lemma sr_upd h c f : keeps_id f -> keeps_sid f -> keeps_gen f ->
  same_routing h (set_conns h (upd_conn c f (conns h))).
Proof.
  intros K S G. split; [reflexivity|]. split; [reflexivity|]. cbn [set_conns conns].
  split; [apply ids_upd; assumption|]. intros g. apply members_upd_keep; assumption.
Qed.

Lemma sr_bad h : same_routing h (set_bad h).
Proof. repeat split. Qed.
Lemma sr_panic h : same_routing h (add_panic h).
Proof. repeat split. Qed.
Lemma sr_bypeer h v : same_routing h (set_bypeer h v).
Proof. repeat split. Qed.
Lemma sr_css h v : same_routing h (set_css h v).
Proof. repeat split. Qed.

Lemma sr_enqueue h c m : same_routing h (enqueue c m h).
Proof.
  unfold enqueue. destruct (find_conn c (conns h)) as [x|]; [|apply sr_bad].
  destruct (cclosed x); [apply sr_panic|].
  destruct (length (cq x) <? cap h); [|apply same_routing_refl].
  apply sr_upd; [apply keeps_push|apply ksid_push|apply kgen_push].
Qed.

Lemma sr_fold_enqueue m : forall todo h, same_routing h (fold_left (fun h' c => enqueue c m h') todo h).
Proof.
  induction todo as [|c r IH]; intros h; cbn [fold_left]; [apply same_routing_refl|].
  eapply same_routing_trans; [apply sr_enqueue|apply IH].
Qed.

Lemma sr_close h c : same_routing h (close_conn c h).
Proof. apply sr_upd; [apply keeps_close|apply ksid_close|apply kgen_close]. Qed.

(* ---- the steps ---- *)
Lemma same_id_l l x y : NoDup (map cid l) -> In x l -> In y l -> cid x = cid y -> x = y.
Proof.
  intros D Hx Hy E.
  pose proof (In_find_conn l x D Hx) as F1. pose proof (In_find_conn l y D Hy) as F2.
  rewrite E in F1. congruence.
Qed.

Lemma find_conn_ids c l x : find_conn c l = Some x -> In (c, csid x) (ids l).
Proof.
  intros F. apply find_conn_In in F. destruct F as (Hx & <-).
  unfold ids. apply in_map_iff. exists x. auto.
Qed.

Lemma ids_In_conn l c s : In (c, s) (ids l) -> exists x, In x l /\ cid x = c /\ csid x = s.
Proof.
  unfold ids. intros H. apply in_map_iff in H. destruct H as (x & E & Hx). injection E as E1 E2. eauto.
Qed.

Lemma nl_add h sid peer c : HI h -> NL h -> NL (fst (step h (Add sid peer c))).
Proof.
  intros I N. cbn [step].
  destruct (find_conn c (conns h)) eqn:F; [apply (nl_same h); [apply sr_bad|exact N]|].
  set (hg := match att_gen sid (maps h) with
             | Some g => (h, g)
             | None => (mkh (cap h) (conns h) (maps h ++ [mkm (nextgen h) sid true]) (bypeer h)
                            (rms h) (css h) (npanic h) (S (nextgen h)) (bad h), nextgen h) end).
  assert (P : conns (fst hg) = conns h /\ rms (fst hg) = rms h /\
              att_gen sid (maps (fst hg)) = Some (snd hg) /\
              (forall sid', sid' <> sid -> att_gen sid' (maps (fst hg)) = att_gen sid' (maps h))).
  { unfold hg. destruct (att_gen sid (maps h)) as [g|] eqn:A; cbn [fst snd conns rms maps].
    - auto.
    - split; [reflexivity|]. split; [reflexivity|]. split.
      + rewrite att_gen_app, A. cbn [msid matt mgen]. rewrite Nat.eqb_refl. reflexivity.
      + intros sid' D. rewrite att_gen_app. cbn [msid matt mgen].
        replace (Nat.eqb sid sid') with false by (symmetry; apply Nat.eqb_neq; congruence).
        cbn [andb]. destruct (att_gen sid' (maps h)); reflexivity. }
  destruct hg as [h2 g]. cbn [fst snd] in P. destruct P as (C2 & R2 & A2 & O2).
  set (h3 := match bp_find sid peer (bypeer h2) with
             | Some old => let h' := if linked_in old g h2 then unlink_conn old (close_conn old h2) else h2 in
                           set_bypeer h' (bp_del sid peer (bypeer h'))
             | None => h2 end).
  assert (P3 : maps h3 = maps h2 /\ rms h3 = rms h2 /\ ids (conns h3) = ids (conns h2) /\
               (forall g', g' <> g -> members g' (conns h3) = [] -> members g' (conns h2) = [])).
  { unfold h3. destruct (bp_find sid peer (bypeer h2)) as [old|]; [|repeat split; auto].
    destruct (linked_in old g h2) eqn:L; cbv zeta; [|repeat split; auto].
    split; [reflexivity|]. split; [reflexivity|]. cbn [set_bypeer unlink_conn close_conn set_conns conns].
    split.
    - rewrite ids_upd by (apply keeps_unlink || apply ksid_unlink).
      apply ids_upd; [apply keeps_close|apply ksid_close].
    - intros g' D E. apply members_unlink_nil in E. destruct E as [E|(x & Hx & Ex & Gx)].
      + rewrite members_upd_keep in E by (apply keeps_close || apply kgen_close). exact E.
      + exfalso. (* the replaced connection was an entry of g *)
        apply linked_in_spec in L. destruct L as (y & Hy & Ey & Gy).
        assert (D2 : NoDup (map cid (conns h2))) by (rewrite C2; destruct I; assumption).
        apply In_upd in Hx. destruct Hx as [Hx|(z & Hz & Ez & ->)].
        * assert (x = y) by (apply (same_id_l (conns h2)); auto; congruence). congruence.
        * cbn in Gx. assert (z = y) by (apply (same_id_l (conns h2)); auto; congruence). congruence. }
  destruct P3 as (M3 & R3 & I3 & G3). cbn [fst].
  intros sid' g' A E. cbn [set_bypeer set_conns maps conns] in A, E.
  rewrite members_app in E. apply app_eq_nil in E. destruct E as (E1 & E2).
  assert (Dg : g' <> g).
  { intros ->. unfold members in E2. cbn [filter cgen ogen_eqb] in E2. rewrite Nat.eqb_refl in E2. discriminate. }
  assert (Ds : sid' <> sid).
  { intros ->. rewrite M3, A2 in A. congruence. }
  rewrite M3, (O2 sid' Ds) in A.
  specialize (G3 g' Dg E1). rewrite C2 in G3.
  destruct (N sid' g' A G3) as (r & Hr & Hi).
  exists r. cbn [set_bypeer set_conns rms conns]. rewrite R3, R2. split; [exact Hr|].
  unfold ids. rewrite map_app. apply in_or_app. left. fold (ids (conns h3)). rewrite I3, C2. exact Hi.
Qed.

Lemma nl_rm1 h c : HI h -> NL h -> NL (fst (step h (Rm1 c))).
Proof.
  intros I N. cbn [step].
  destruct (find_conn c (conns h)) as [x|] eqn:F; [|apply (nl_same h); [apply sr_bad|exact N]].
  destruct (find_rm c (rms h)); [apply (nl_same h); [apply sr_bad|exact N]|].
  destruct (att_gen (csid x) (maps h)) as [g|] eqn:A; [|exact N].
  destruct (negb (ogen_eqb (cgen x) g)); [exact N|]. cbn [fst].
  set (h1 := unlink_conn c h).
  set (h2 := match bp_find (csid x) (cpeer x) (bypeer h1) with
             | Some c' => if Nat.eqb c' c then set_bypeer h1 (bp_del (csid x) (cpeer x) (bypeer h1)) else h1
             | None => h1 end).
  assert (C2 : conns h2 = conns h1 /\ maps h2 = maps h1 /\ rms h2 = rms h1).
  { unfold h2. destruct (bp_find (csid x) (cpeer x) (bypeer h1)) as [c'|]; [destruct (Nat.eqb c' c)|]; repeat split. }
  destruct C2 as (C2 & M2 & R2).
  assert (Ih : ids (conns h1) = ids (conns h)).
  { unfold h1. cbn [unlink_conn set_conns conns]. apply ids_upd; [apply keeps_unlink|apply ksid_unlink]. }
  intros sid g' A' E. cbn [set_rms maps conns rms] in *. rewrite M2 in A'. rewrite C2 in E.
  unfold h1 in A', E. cbn [unlink_conn set_conns maps conns] in A', E.
  apply members_unlink_nil in E. destruct E as [E|(y & Hy & Ey & Gy)].
  - destruct (N sid g' A' E) as (r & Hr & Hi). exists r. cbn [set_rms rms conns]. rewrite R2, C2, Ih.
    split; [apply in_or_app; left; exact Hr|exact Hi].
  - (* c itself was the last entry: its own pending remove() is the witness *)
    exists (mkr c 1). cbn [set_rms rms conns rcid]. rewrite C2, Ih.
    split; [apply in_or_app; right; left; reflexivity|].
    destruct (member_session h sid g' y I A' Hy Gy) as (Es & _).
    unfold ids. apply in_map_iff. exists y. split; [congruence|exact Hy].
Qed.

Lemma nl_rms_map h f : (forall r, rcid (f r) = rcid r) -> NL h -> NL (set_rms h (map f (rms h))).
Proof.
  intros K N sid g A E. cbn [set_rms maps conns] in A, E.
  destruct (N sid g A E) as (r0 & Hr & Hi). exists (f r0). cbn [set_rms rms conns]. split.
  - apply in_map. exact Hr.
  - rewrite K. exact Hi.
Qed.

Lemma nl_rm2 h c : HI h -> NL h -> NL (fst (step h (Rm2 c))).
Proof.
  intros I N. cbn [step].
  destruct (find_rm c (rms h)) as [r|] eqn:F; [|apply (nl_same h); [apply sr_bad|exact N]].
  destruct (Nat.eqb (rphase r) 1); [|apply (nl_same h); [apply sr_bad|exact N]]. cbn [fst].
  change (rms h) with (rms (close_conn c h)).
  apply nl_rms_map.
  - intros r0. destruct (Nat.eqb (rcid r0) c) eqn:Ec; [apply Nat.eqb_eq in Ec; cbn [rcid]; congruence|reflexivity].
  - eapply nl_same; [apply sr_close|exact N].
Qed.

Lemma nl_rm3 h c : HI h -> NL h -> NL (fst (step h (Rm3 c))).
Proof.
  intros I N. cbn [step].
  destruct (find_rm c (rms h)) as [r|]; [|apply (nl_same h); [apply sr_bad|exact N]].
  destruct (find_conn c (conns h)) as [x|] eqn:F; [|apply (nl_same h); [apply sr_bad|exact N]].
  destruct (negb (Nat.eqb (rphase r) 2)); [apply (nl_same h); [apply sr_bad|exact N]|].
  (* witnesses for other sessions survive the deletion of c's remove() *)
  assert (Keep : forall sid, sid <> csid x -> W h sid -> exists r0, In r0 (del_rm c (rms h)) /\ In (rcid r0, sid) (ids (conns h))).
  { intros sid D (r0 & Hr & Hi). exists r0. split; [|exact Hi].
    unfold del_rm. apply filter_In. split; [exact Hr|]. apply negb_true_iff. apply Nat.eqb_neq. intros Ec.
    apply ids_In_conn in Hi. destruct Hi as (y & Hy & Ey & Sy).
    apply find_conn_In in F. destruct F as (Hx & Ex).
    assert (y = x) by (destruct I; apply (same_id_l (conns h)); auto; congruence). congruence. }
  destruct (att_gen (csid x) (maps h)) as [g|] eqn:A.
  - destruct (members g (conns h)) eqn:Mg; cbn [fst].
    + (* empty: the map is detached *)
      intros sid g' A' E. cbn [set_bypeer set_maps set_rms maps conns rms] in *.
      destruct (Nat.eq_dec sid (csid x)) as [->|D]; [rewrite att_gen_detach in A'; discriminate|].
      rewrite att_gen_detach_other in A' by exact D.
      destruct (Keep sid D (N sid g' A' E)) as (r0 & H0 & H1). exists r0. auto.
    + intros sid g' A' E. cbn [set_rms maps conns rms] in *.
      destruct (Nat.eq_dec sid (csid x)) as [->|D]; [rewrite A in A'; injection A' as <-; rewrite Mg in E; discriminate|].
      destruct (Keep sid D (N sid g' A' E)) as (r0 & H0 & H1). exists r0. auto.
  - cbn [fst]. intros sid g' A' E. cbn [set_rms maps conns rms] in *.
    destruct (Nat.eq_dec sid (csid x)) as [->|D]; [rewrite A in A'; discriminate|].
    destruct (Keep sid D (N sid g' A' E)) as (r0 & H0 & H1). exists r0. auto.
Qed.

Lemma nl_cs1 h sid : HI h -> NL h -> NL (fst (step h (Cs1 sid))).
Proof.
  intros I N. cbn [step].
  destruct (find_cs sid (css h)); [apply (nl_same h); [apply sr_bad|exact N]|].
  destruct (att_gen sid (maps h)) as [g|] eqn:A; [|exact N]. cbn [fst].
  assert (N1 : NL (set_bypeer (set_maps h (detach_sid sid (maps h))) (bp_del_sid sid (bypeer h)))).
  { intros sid' g' A' E. cbn [set_bypeer set_maps maps conns rms] in *.
    destruct (Nat.eq_dec sid' sid) as [->|D]; [rewrite att_gen_detach in A'; discriminate|].
    rewrite att_gen_detach_other in A' by exact D. exact (N sid' g' A' E). }
  destruct (members g (conns h)); [exact N1|].
  eapply nl_same; [apply sr_css|exact N1].
Qed.

Lemma nl_cs2 h sid c : HI h -> NL h -> NL (fst (step h (Cs2 sid c))).
Proof.
  intros I N. cbn [step].
  destruct (find_cs sid (css h)) as [r|]; [|apply (nl_same h); [apply sr_bad|exact N]].
  destruct (mem c (stodo r)); [|apply (nl_same h); [apply sr_bad|exact N]]. cbn [fst].
  eapply nl_same; [|exact N]. eapply same_routing_trans; [apply sr_close|apply sr_css].
Qed.

Theorem nl_step h o : HI h -> NL h -> NL (fst (step h o)).
Proof.
  intros I N. destruct o as [sid peer c|c|c|c|sid|sid c|sid peer m|sid ex m|c|sid].
  - apply nl_add; assumption.
  - apply nl_rm1; assumption.
  - apply nl_rm2; assumption.
  - apply nl_rm3; assumption.
  - apply nl_cs1; assumption.
  - apply nl_cs2; assumption.
  - cbn [step]. destruct (bp_find sid peer (bypeer h)) as [c|]; [|exact N].
    destruct (att_gen sid (maps h)) as [g|]; [|exact N].
    destruct (linked_in c g h); [|exact N]. cbn [fst]. eapply nl_same; [apply sr_enqueue|exact N].
  - cbn [step]. destruct (att_gen sid (maps h)) as [g|]; [|exact N]. cbn [fst].
    eapply nl_same; [apply sr_fold_enqueue|exact N].
  - cbn [step]. destruct (find_conn c (conns h)); cbn [fst].
    + eapply nl_same; [apply sr_upd; [apply keeps_pop|apply ksid_pop|apply kgen_pop]|exact N].
    + eapply nl_same; [apply sr_bad|exact N].
  - cbn [step]. destruct (att_gen sid (maps h)); exact N.
Qed.

Lemma nl_init cap : NL (init cap).
Proof. intros sid g A. cbn in A. discriminate. Qed.

Theorem nl_run ops : forall h, HI h -> NL h -> NL (fst (run h ops)).
Proof.
  induction ops as [|o r IH]; intros h I N; cbn [run]; [exact N|].
  pose proof (hi_step h o I) as I1. pose proof (nl_step h o I N) as N1.
  destruct (step h o) as [h1 x]. cbn [fst] in I1, N1.
  specialize (IH h1 I1 N1). destruct (run h1 r) as [h2 xs]. exact IH.
Qed.

(* every reachable state without a pending remove(): no attached session map is empty *)
Theorem no_empty_session_when_quiescent cap ops sid g :
  let h := fst (run (init cap) ops) in
  rms h = [] -> att_gen sid (maps h) = Some g -> members g (conns h) <> [].
Proof.
  intros h Q A E.
  destruct (nl_run ops (init cap) (hi_init cap) (nl_init cap) sid g A E) as (r & Hr & _).
  fold h in Hr. rewrite Q in Hr. contradiction.
Qed.

(* and whenever an attached map is empty, the remove() that will collect it is pending and
   its last phase does collect it *)
Theorem empty_session_is_collected h c x g :
  HI h -> find_conn c (conns h) = Some x -> (exists r, find_rm c (rms h) = Some r /\ rphase r = 2) ->
  att_gen (csid x) (maps h) = Some g -> members g (conns h) = [] ->
  att_gen (csid x) (maps (fst (step h (Rm3 c)))) = None.
Proof.
  intros I F (r & Fr & P) A E. cbn [step]. rewrite Fr, F, P. cbn [Nat.eqb negb]. rewrite A, E. cbn [fst set_bypeer set_maps maps].
  apply att_gen_detach.
Qed.

(* ---- the routing index (byPeerID) ---- *)
Definition bkey (e : nat * nat * nat) : nat * nat := (fst (fst e), snd (fst e)).

(* every index entry names a connection that is an entry of its session's attached map *)
Definition BL (h : hub) : Prop :=
  NoDup (map bkey (bypeer h)) /\
  forall s p c, In (s, p, c) (bypeer h) ->
    exists x g, In x (conns h) /\ cid x = c /\ csid x = s /\ cpeer x = p /\ cgen x = Some g /\
                att_gen s (maps h) = Some g.

Definition keeps_peer (f : conn -> conn) : Prop := forall x, cpeer (f x) = cpeer x.
Lemma kp_close : keeps_peer c_close. Proof. intros x; reflexivity. Qed.
Lemma kp_push m : keeps_peer (c_push m). Proof. intros x; reflexivity. Qed.
Lemma kp_pop : keeps_peer c_pop. Proof. intros x; unfold c_pop; destruct (cq x); reflexivity. Qed.
Lemma kp_unlink : keeps_peer c_unlink. Proof. intros x; reflexivity. Qed.

(* steps that keep maps, the index, and every connection's identity and linkage *)
Definition same_index (h h' : hub) : Prop :=
  maps h' = maps h /\ bypeer h' = bypeer h /\
  forall x, In x (conns h) -> exists y, In y (conns h') /\ cid y = cid x /\ csid y = csid x /\ cpeer y = cpeer x /\ cgen y = cgen x.

Lemma si_refl h : same_index h h.
Proof. split; [reflexivity|]. split; [reflexivity|]. intros x Hx. exists x. auto. Qed.

Lemma si_trans a b c : same_index a b -> same_index b c -> same_index a c.
Proof.
  intros (A1 & A2 & A3) (B1 & B2 & B3). split; [congruence|]. split; [congruence|].
  intros x Hx. destruct (A3 x Hx) as (y & Hy & E1 & E2 & E3 & E4).
  destruct (B3 y Hy) as (z & Hz & F1 & F2 & F3 & F4). exists z. repeat split; congruence.
Qed.

Lemma bl_same h h' : same_index h h' -> BL h -> BL h'.
Proof.
  intros (M & B & C) (K & L). split; [rewrite B; exact K|].
  intros s p c Hin. rewrite B in Hin. destruct (L s p c Hin) as (x & g & Hx & E1 & E2 & E3 & E4 & E5).
  destruct (C x Hx) as (y & Hy & F1 & F2 & F3 & F4). exists y, g. rewrite M. repeat split; congruence.
Qed.

Lemma In_upd_fwd c f l x : In x l -> In x (upd_conn c f l) \/ In (f x) (upd_conn c f l).
Proof.
  induction l as [|a r IH]; cbn [upd_conn]; [intros []|].
  intros H. destruct (Nat.eqb (cid a) c) eqn:E; destruct H as [->|Hx].
  - right. left. reflexivity.
  - left. right. exact Hx.
  - left. left. reflexivity.
  - destruct (IH Hx); [left|right]; right; assumption.
Qed.

Lemma si_upd h c f : keeps_id f -> keeps_sid f -> keeps_peer f -> keeps_gen f ->
  same_index h (set_conns h (upd_conn c f (conns h))).
Proof.
  intros K S P G. split; [reflexivity|]. split; [reflexivity|]. cbn [set_conns conns].
  intros x Hx. destruct (In_upd_fwd c f (conns h) x Hx) as [H|H].
  - exists x. auto.
  - exists (f x). rewrite K, S, P, G. auto.
Qed.

Lemma si_bad h : same_index h (set_bad h).
Proof. split; [reflexivity|]. split; [reflexivity|]. intros x Hx. exists x. auto. Qed.
Lemma si_panic h : same_index h (add_panic h).
Proof. split; [reflexivity|]. split; [reflexivity|]. intros x Hx. exists x. auto. Qed.
Lemma si_css h v : same_index h (set_css h v).
Proof. split; [reflexivity|]. split; [reflexivity|]. intros x Hx. exists x. auto. Qed.
Lemma si_rms h v : same_index h (set_rms h v).
Proof. split; [reflexivity|]. split; [reflexivity|]. intros x Hx. exists x. auto. Qed.

Lemma si_enqueue h c m : same_index h (enqueue c m h).
Proof.
  unfold enqueue. destruct (find_conn c (conns h)) as [x|]; [|apply si_bad].
  destruct (cclosed x); [apply si_panic|].
  destruct (length (cq x) <? cap h); [|apply si_refl].
  apply si_upd; [apply keeps_push|apply ksid_push|apply kp_push|apply kgen_push].
Qed.

Lemma si_fold_enqueue m : forall todo h, same_index h (fold_left (fun h' c => enqueue c m h') todo h).
Proof.
  induction todo as [|c r IH]; intros h; cbn [fold_left]; [apply si_refl|].
  eapply si_trans; [apply si_enqueue|apply IH].
Qed.

Lemma si_close h c : same_index h (close_conn c h).
Proof. apply si_upd; [apply keeps_close|apply ksid_close|apply kp_close|apply kgen_close]. Qed.

(* deleting keys from the index *)
Lemma bp_del_In sid peer l e : In e (bp_del sid peer l) <-> In e l /\ bkey e <> (sid, peer).
Proof.
  unfold bp_del. rewrite filter_In. destruct e as [[s p] c]. unfold bkey; cbn [fst snd].
  split; intros (H1 & H2); (split; [exact H1|]).
  - intros E. injection E as -> ->. rewrite !Nat.eqb_refl in H2. discriminate.
  - apply negb_true_iff. apply andb_false_iff.
    destruct (Nat.eqb s sid) eqn:E1; [right|left; reflexivity].
    apply Nat.eqb_eq in E1. subst s. apply Nat.eqb_neq. intros ->. apply H2. reflexivity.
Qed.

Lemma bp_del_sid_In sid l e : In e (bp_del_sid sid l) <-> In e l /\ fst (fst e) <> sid.
Proof.
  unfold bp_del_sid. rewrite filter_In. destruct e as [[s p] c]. cbn [fst snd].
  split; intros (H1 & H2); (split; [exact H1|]).
  - intros ->. rewrite Nat.eqb_refl in H2. discriminate.
  - apply negb_true_iff. apply Nat.eqb_neq. exact H2.
Qed.

Lemma NoDup_map_filter {A B} (f : A -> B) p l : NoDup (map f l) -> NoDup (map f (filter p l)).
Proof.
  induction l as [|a l IH]; cbn [map filter]; [auto|].
  intros D. inversion D as [|? ? Hn Hd]; subst. destruct (p a); cbn [map]; [|auto].
  constructor; [|auto]. intros Hin. apply Hn. apply in_map_iff in Hin. destruct Hin as (x & E & Hx).
  apply filter_In in Hx. apply in_map_iff. exists x. tauto.
Qed.

Lemma bp_find_In sid peer l c : bp_find sid peer l = Some c -> In (sid, peer, c) l.
Proof.
  induction l as [|[[s p] c'] r IH]; cbn [bp_find]; [discriminate|].
  destruct (Nat.eqb s sid && Nat.eqb p peer) eqn:E.
  - intros H. injection H as ->. apply andb_prop in E. destruct E as (E1 & E2).
    apply Nat.eqb_eq in E1, E2. subst. left. reflexivity.
  - intros H. right. auto.
Qed.

Lemma bp_find_None sid peer l : bp_find sid peer l = None -> forall e, In e l -> bkey e <> (sid, peer).
Proof.
  induction l as [|[[s p] c'] r IH]; cbn [bp_find]; [intros _ e []|].
  destruct (Nat.eqb s sid && Nat.eqb p peer) eqn:E; [discriminate|].
  intros H e [<-|He]; [|auto]. unfold bkey; cbn [fst snd]. intros Q. injection Q as -> ->.
  rewrite !Nat.eqb_refl in E. discriminate.
Qed.

Lemma nodup_key_unique l e1 e2 : NoDup (map bkey l) -> In e1 l -> In e2 l -> bkey e1 = bkey e2 -> e1 = e2.
Proof.
  induction l as [|a r IH]; cbn [map]; [intros _ []|].
  intros D. inversion D as [|? ? Hn Hd]; subst.
  intros [<-|H1] [<-|H2] E; auto.
  - exfalso. apply Hn. rewrite E. apply in_map. exact H2.
  - exfalso. apply Hn. rewrite <- E. apply in_map. exact H1.
Qed.

Lemma linked_in_true h c g x : NoDup (map cid (conns h)) -> In x (conns h) -> cid x = c -> cgen x = Some g ->
  linked_in c g h = true.
Proof.
  intros D Hx E G. unfold linked_in. rewrite <- E, (In_find_conn _ _ D Hx), G. cbn. apply Nat.eqb_refl.
Qed.

Lemma In_upd_other c f l x : In x l -> cid x <> c -> In x (upd_conn c f l).
Proof.
  induction l as [|a r IH]; cbn [upd_conn]; [intros []|].
  intros H N. destruct (Nat.eqb (cid a) c) eqn:E; destruct H as [->|Hx].
  - apply Nat.eqb_eq in E. contradiction.
  - right. exact Hx.
  - left. reflexivity.
  - right. auto.
Qed.

Lemma NoDup_snoc {A} (l : list A) x : NoDup l -> ~ In x l -> NoDup (l ++ [x]).
Proof.
  induction l as [|a l IH]; cbn; intros D N; [constructor; [intros []|constructor]|].
  inversion D as [|? ? Hn Hd]; subst. constructor.
  - intros Hin. apply in_app_or in Hin. destruct Hin as [Hin|[<-|[]]]; [contradiction|]. apply N. left. reflexivity.
  - apply IH; [exact Hd|]. intros Hin. apply N. right. exact Hin.
Qed.

Lemma bl_detach h sid : BL h ->
  BL (set_bypeer (set_maps h (detach_sid sid (maps h))) (bp_del_sid sid (bypeer h))).
Proof.
  intros (K & L). split; cbn [set_bypeer set_maps bypeer maps conns].
  - apply NoDup_map_filter. exact K.
  - intros s p c Hin. apply bp_del_sid_In in Hin. cbn [fst] in Hin. destruct Hin as (Hin & D).
    destruct (L s p c Hin) as (x & g & Hx & E1 & E2 & E3 & E4 & E5). exists x, g.
    rewrite att_gen_detach_other by exact D. auto 10.
Qed.

Lemma bl_add h sid peer c : HI h -> BL h -> BL (fst (step h (Add sid peer c))).
Proof.
  intros I B. cbn [step].
  destruct (find_conn c (conns h)) eqn:F; [apply (bl_same h); [apply si_bad|exact B]|].
  set (hg := match att_gen sid (maps h) with
             | Some g => (h, g)
             | None => (mkh (cap h) (conns h) (maps h ++ [mkm (nextgen h) sid true]) (bypeer h)
                            (rms h) (css h) (npanic h) (S (nextgen h)) (bad h), nextgen h) end).
  assert (P : conns (fst hg) = conns h /\ bypeer (fst hg) = bypeer h /\
              att_gen sid (maps (fst hg)) = Some (snd hg) /\
              (forall s g0, att_gen s (maps h) = Some g0 -> att_gen s (maps (fst hg)) = Some g0)).
  { unfold hg. destruct (att_gen sid (maps h)) as [g|] eqn:A; cbn [fst snd conns bypeer maps].
    - auto.
    - split; [reflexivity|]. split; [reflexivity|]. split.
      + rewrite att_gen_app, A. cbn [msid matt mgen]. rewrite Nat.eqb_refl. reflexivity.
      + intros s g0 A0. rewrite att_gen_app, A0. reflexivity. }
  destruct hg as [h2 g]. cbn [fst snd] in P. destruct P as (C2 & B2 & A2 & O2).
  assert (BL2 : BL h2).
  { destruct B as (K & L). split; [rewrite B2; exact K|]. intros s p c0 Hin. rewrite B2 in Hin.
    destruct (L s p c0 Hin) as (x & g0 & Hx & E1 & E2 & E3 & E4 & E5). exists x, g0. rewrite C2.
    repeat split; auto. }
  assert (D2 : NoDup (map cid (conns h2))) by (rewrite C2; destruct I; assumption).
  clear B. destruct BL2 as (K2 & L2).
  set (h3 := match bp_find sid peer (bypeer h2) with
             | Some old => let h' := if linked_in old g h2 then unlink_conn old (close_conn old h2) else h2 in
                           set_bypeer h' (bp_del sid peer (bypeer h'))
             | None => h2 end).
  assert (P3 : maps h3 = maps h2 /\ NoDup (map bkey (bypeer h3)) /\
               (forall e, In e (bypeer h3) -> bkey e <> (sid, peer)) /\
               (forall s p c0, In (s, p, c0) (bypeer h3) ->
                  exists x g0, In x (conns h3) /\ cid x = c0 /\ csid x = s /\ cpeer x = p /\ cgen x = Some g0 /\
                               att_gen s (maps h2) = Some g0)).
  { unfold h3. destruct (bp_find sid peer (bypeer h2)) as [old|] eqn:Fo.
    - pose proof (bp_find_In _ _ _ _ Fo) as Hold.
      destruct (L2 _ _ _ Hold) as (xo & go & Hxo & Eo1 & Eo2 & Eo3 & Eo4 & Eo5).
      assert (go = g) by congruence. subst go.
      rewrite (linked_in_true h2 old g xo D2 Hxo Eo1 Eo4). cbv zeta.
      cbn [set_bypeer unlink_conn close_conn set_conns maps bypeer conns].
      split; [reflexivity|]. split; [apply NoDup_map_filter; exact K2|]. split.
      + intros e He. apply bp_del_In in He. tauto.
      + intros s p c0 Hin. apply bp_del_In in Hin. destruct Hin as (Hin & Dk). unfold bkey in Dk; cbn [fst snd] in Dk.
        destruct (L2 s p c0 Hin) as (x & g0 & Hx & E1 & E2 & E3 & E4 & E5). exists x, g0.
        assert (Dc : cid x <> old).
        { intros Ec. assert (x = xo) by (apply (same_id_l (conns h2)); auto; congruence). subst x.
          apply Dk. congruence. }
        split; [|auto]. apply In_upd_other; [|exact Dc]. apply In_upd_other; [exact Hx|exact Dc].
    - split; [reflexivity|]. split; [exact K2|]. split; [apply bp_find_None; exact Fo|]. exact L2. }
  destruct P3 as (M3 & K3 & N3 & L3). cbn [fst].
  split; cbn [set_bypeer set_conns bypeer conns maps].
  - rewrite map_app. apply NoDup_snoc; [exact K3|]. cbn [map bkey fst snd].
    intros Hin. apply in_map_iff in Hin. destruct Hin as (e & Ee & He). exact (N3 e He Ee).
  - intros s p c0 Hin. apply in_app_or in Hin. destruct Hin as [Hin|[E|[]]].
    + destruct (L3 s p c0 Hin) as (x & g0 & Hx & E1 & E2 & E3 & E4 & E5). exists x, g0.
      rewrite M3. split; [apply in_or_app; left; exact Hx|auto].
    + injection E as <- <- <-. exists (mkc c peer sid (Some g) [] false [] []), g.
      rewrite M3. split; [apply in_or_app; right; left; reflexivity|]. cbn. auto.
Qed.

Lemma bl_rm1 h c : HI h -> BL h -> BL (fst (step h (Rm1 c))).
Proof.
  intros I B. cbn [step].
  destruct (find_conn c (conns h)) as [x|] eqn:F; [|apply (bl_same h); [apply si_bad|exact B]].
  destruct (find_rm c (rms h)); [apply (bl_same h); [apply si_bad|exact B]|].
  destruct (att_gen (csid x) (maps h)) as [g|] eqn:A; [|exact B].
  destruct (negb (ogen_eqb (cgen x) g)); [exact B|]. cbn [fst].
  apply find_conn_In in F. destruct F as (Hx & Ex).
  destruct B as (K & L).
  set (h1 := unlink_conn c h).
  assert (Keep : forall s p c0, In (s, p, c0) (bypeer h) -> c0 <> c ->
            exists y g0, In y (conns h1) /\ cid y = c0 /\ csid y = s /\ cpeer y = p /\ cgen y = Some g0 /\
                         att_gen s (maps h1) = Some g0).
  { intros s p c0 Hin Dc. destruct (L s p c0 Hin) as (y & g0 & Hy & E1 & E2 & E3 & E4 & E5). exists y, g0.
    split; [|auto]. unfold h1. cbn [unlink_conn set_conns conns]. apply In_upd_other; [exact Hy|congruence]. }
  assert (Own : forall s p, In (s, p, c) (bypeer h) -> s = csid x /\ p = cpeer x).
  { intros s p Hin. destruct (L s p c Hin) as (y & g0 & Hy & E1 & E2 & E3 & _).
    assert (y = x) by (destruct I; apply (same_id_l (conns h)); auto; congruence). subst y. auto. }
  change (bypeer h1) with (bypeer h).
  destruct (bp_find (csid x) (cpeer x) (bypeer h)) as [c'|] eqn:Fb.
  - destruct (Nat.eqb c' c) eqn:Ec.
    + split; cbn [set_rms set_bypeer bypeer conns maps].
      * apply NoDup_map_filter. exact K.
      * intros s p c0 Hin. apply bp_del_In in Hin. destruct Hin as (Hin & Dk). unfold bkey in Dk; cbn [fst snd] in Dk.
        apply Keep; [exact Hin|]. intros ->. destruct (Own s p Hin) as (-> & ->). apply Dk. reflexivity.
    + split; cbn [set_rms bypeer conns maps]; [exact K|].
      intros s p c0 Hin. apply Keep; [exact Hin|]. intros ->. destruct (Own s p Hin) as (-> & ->).
      apply bp_find_In in Fb.
      assert (E : (csid x, cpeer x, c') = (csid x, cpeer x, c)) by (apply (nodup_key_unique (bypeer h)); auto).
      injection E as ->. rewrite Nat.eqb_refl in Ec. discriminate.
  - split; cbn [set_rms bypeer conns maps]; [exact K|].
    intros s p c0 Hin. apply Keep; [exact Hin|]. intros ->. destruct (Own s p Hin) as (-> & ->).
    exact (bp_find_None _ _ _ Fb _ Hin eq_refl).
Qed.

Theorem bl_step h o : HI h -> BL h -> BL (fst (step h o)).
Proof.
  intros I B. destruct o as [sid peer c|c|c|c|sid|sid c|sid peer m|sid ex m|c|sid].
  - apply bl_add; assumption.
  - apply bl_rm1; assumption.
  - cbn [step]. destruct (find_rm c (rms h)) as [r|]; [|apply (bl_same h); [apply si_bad|exact B]].
    destruct (Nat.eqb (rphase r) 1); [|apply (bl_same h); [apply si_bad|exact B]]. cbn [fst].
    eapply bl_same; [|exact B]. eapply si_trans; [apply si_close|apply si_rms].
  - cbn [step]. destruct (find_rm c (rms h)) as [r|]; [|apply (bl_same h); [apply si_bad|exact B]].
    destruct (find_conn c (conns h)) as [x|]; [|apply (bl_same h); [apply si_bad|exact B]].
    destruct (negb (Nat.eqb (rphase r) 2)); [apply (bl_same h); [apply si_bad|exact B]|].
    assert (B1 : BL (set_rms h (del_rm c (rms h)))) by (eapply bl_same; [apply si_rms|exact B]).
    match goal with |- context [if ?b then _ else _] => destruct b end; cbn [fst]; [|exact B1].
    apply (bl_detach _ (csid x)) in B1. exact B1.
  - cbn [step]. destruct (find_cs sid (css h)); [apply (bl_same h); [apply si_bad|exact B]|].
    destruct (att_gen sid (maps h)) as [g|]; [|exact B]. cbn [fst].
    pose proof (bl_detach h sid B) as B1.
    destruct (members g (conns h)); [exact B1|]. eapply bl_same; [apply si_css|exact B1].
  - cbn [step]. destruct (find_cs sid (css h)) as [r|]; [|apply (bl_same h); [apply si_bad|exact B]].
    destruct (mem c (stodo r)); [|apply (bl_same h); [apply si_bad|exact B]]. cbn [fst].
    eapply bl_same; [|exact B]. eapply si_trans; [apply si_close|apply si_css].
  - cbn [step]. destruct (bp_find sid peer (bypeer h)) as [c|]; [|exact B].
    destruct (att_gen sid (maps h)) as [g|]; [|exact B].
    destruct (linked_in c g h); [|exact B]. cbn [fst]. eapply bl_same; [apply si_enqueue|exact B].
  - cbn [step]. destruct (att_gen sid (maps h)) as [g|]; [|exact B]. cbn [fst].
    eapply bl_same; [apply si_fold_enqueue|exact B].
  - cbn [step]. destruct (find_conn c (conns h)); cbn [fst].
    + eapply bl_same; [apply si_upd; [apply keeps_pop|apply ksid_pop|apply kp_pop|apply kgen_pop]|exact B].
    + eapply bl_same; [apply si_bad|exact B].
  - cbn [step]. destruct (att_gen sid (maps h)); exact B.
Qed.

Lemma bl_init cap : BL (init cap).
Proof. split; cbn; [constructor|intros s p c []]. Qed.

Theorem bl_run ops : forall h, HI h -> BL h -> BL (fst (run h ops)).
Proof.
  induction ops as [|o r IH]; intros h I B; cbn [run]; [exact B|].
  pose proof (hi_step h o I) as I1. pose proof (bl_step h o I B) as B1.
  destruct (step h o) as [h1 x]. cbn [fst] in I1, B1.
  specialize (IH h1 I1 B1). destruct (run h1 r) as [h2 xs]. exact IH.
Qed.

(* every reachable state: an index entry is a live routing entry of an attached session ... *)
Theorem index_entries_live cap ops s p c :
  let h := fst (run (init cap) ops) in
  In (s, p, c) (bypeer h) ->
  exists x g, In x (conns h) /\ cid x = c /\ csid x = s /\ cpeer x = p /\ cgen x = Some g /\
              att_gen s (maps h) = Some g /\ cclosed x = false.
Proof.
  intros h Hin.
  pose proof (hi_run ops (init cap) (hi_init cap)) as I. fold h in I.
  destruct (bl_run ops (init cap) (hi_init cap) (bl_init cap)) as (_ & L). fold h in L.
  destruct (L s p c Hin) as (x & g & Hx & E1 & E2 & E3 & E4 & E5). exists x, g.
  destruct (member_session h s g x I E5 Hx E4) as (_ & Cl). auto 10.
Qed.

(* ... so once a session's map has been collected, nothing of the session is left in the index *)
Theorem no_index_entry_without_session cap ops s :
  let h := fst (run (init cap) ops) in
  att_gen s (maps h) = None -> forall p c, ~ In (s, p, c) (bypeer h).
Proof.
  intros h A p c Hin. destruct (index_entries_live cap ops s p c Hin) as (x & g & _ & _ & _ & _ & _ & E & _).
  fold h in E. congruence.
Qed.

(* Proofs about LoadOrCreateSidecarWithFallback (identity test) and the resume
   handshake (Model/Resume.v): metadata that is unreadable, foreign, damaged or
   left over from a data file that is gone is never turned into skipped chunks;
   a damaged last recorded chunk is detected; what the receiver's completion
   logic does with the re-sent chunk under every arrival order. *)
From Coq Require Import ZArith List Bool Lia.
Import ListNotations.
From TF Require Import Lib.GoInt Lib.Bytes Gen.Geometry Model.CRC Model.Sidecar Model.Resume.
From TF Require Import Proofs.CRC Proofs.Sidecar Proofs.Geometry.
Open Scope Z_scope.

(* ---------- bitmaps without marks ---------- *)
Lemma bit_get_zeros n bits i : bit_get (zeros n) bits i = false.
Proof.
  unfold bit_get, zeros. destruct ((i <? 0) || (bits <=? i)); [reflexivity|].
  rewrite nth_repeat. apply Z.testbit_0_l.
Qed.

Lemma highest_from_range bm bits n hi : highest_from bm bits n = Some hi -> 0 <= hi < Z.of_nat n /\ bit_get bm bits hi = true.
Proof.
  induction n as [|k IH]; cbn [highest_from]; [discriminate|].
  destruct (bit_get bm bits (Z.of_nat k)) eqn:E.
  - intros H. inversion H; subst. split; [lia|exact E].
  - intros H. apply IH in H. destruct H as [H1 H2]. split; [lia|exact H2].
Qed.

Lemma highest_set_range bm bits hi : highest_set bm bits = Some hi -> 0 <= hi < bits /\ bit_get bm bits hi = true.
Proof.
  unfold highest_set. intros H. apply highest_from_range in H. destruct H as [H1 H2]. split; [|exact H2].
  destruct (Z.le_gt_cases 0 bits); [rewrite Z2Nat.id in H1 by lia; lia|].
  destruct bits; cbn in H1; lia.
Qed.

(* ---------- CreateSidecar / identity test ---------- *)
Lemma create_spec id size cs s : create id size cs = Ret s ->
  sc_chunk s = cs /\ sc_size s = size /\ sc_id s = id /\
  sidecarTotalChunks size cs = Ret (sc_total s) /\ sc_bitmap s = zeros (byte_len (sc_total s)).
Proof.
  unfold create, bind. destruct (sidecarTotalChunks size cs) as [t| |]; try discriminate.
  intros H. inversion H; subst. cbn. repeat split; reflexivity.
Qed.

Lemma identity_ok_true s id size cs : identity_ok s id size cs = true ->
  sc_chunk s = cs /\ sc_size s = size /\ sc_id s = id.
Proof.
  unfold identity_ok. intros H. apply andb_true_iff in H as [H H3]. apply andb_true_iff in H as [H1 H2].
  apply Z.eqb_eq in H1. apply Z.eqb_eq in H2. apply bytes_eqb_eq in H3. auto.
Qed.

Lemma bytes_eqb_refl a : bytes_eqb a a = true.
Proof. induction a as [|x a IH]; cbn; [reflexivity|]. rewrite Z.eqb_refl, IH. reflexivity. Qed.

(* every mismatch of identity fields is noticed *)
Lemma identity_ok_false s id size cs :
  sc_chunk s <> cs \/ sc_size s <> size \/ sc_id s <> id -> identity_ok s id size cs = false.
Proof.
  intros H. destruct (identity_ok s id size cs) eqn:E; [|reflexivity].
  apply identity_ok_true in E. destruct E as (A & B & C). destruct H as [H|[H|H]]; contradiction.
Qed.

Lemma load_valid_some f id size cs s b : load_valid f id size cs = (Some s, b) ->
  exists d, f = Some d /\ load d = Some s /\ identity_ok s id size cs = true.
Proof.
  unfold load_valid. destruct f as [d|]; [|discriminate].
  destruct (load d) as [s'|] eqn:L; [|discriminate].
  destruct (identity_ok s' id size cs) eqn:I; [|discriminate].
  intros H. inversion H; subst. exists d. auto.
Qed.

Lemma load_valid_none_untrusted f id size cs :
  (forall d s, f = Some d -> load d = Some s -> identity_ok s id size cs = false) ->
  exists b, load_valid f id size cs = (None, b).
Proof.
  intros H. unfold load_valid. destruct f as [d|]; [|eauto].
  destruct (load d) as [s|] eqn:L; [|eauto]. rewrite (H d s eq_refl L). eauto.
Qed.

(* LoadOrCreateSidecarWithFallback returns metadata of exactly the requested
   identity: either a file found on disk that parses and carries that identity,
   or a fresh one without a single mark *)
Theorem loc_spec p f id size cs lr : load_or_create p f id size cs = Ret lr ->
  sc_chunk (lr_sc lr) = cs /\ sc_size (lr_sc lr) = size /\ sc_id (lr_sc lr) = id /\
  (lr_loaded lr = true -> exists d, (p = Some d \/ f = Some d) /\ load d = Some (lr_sc lr)) /\
  (lr_loaded lr = false -> sc_bitmap (lr_sc lr) = zeros (byte_len (sc_total (lr_sc lr))) /\
                           sidecarTotalChunks size cs = Ret (sc_total (lr_sc lr))).
Proof.
  unfold load_or_create. destruct (cs =? 0); [discriminate|].
  destruct (load_valid p id size cs) as [[s|] rp] eqn:LP.
  - intros H. inversion H; subst. cbn. apply load_valid_some in LP as (d & -> & L & I).
    apply identity_ok_true in I as (A & B & C).
    split; [exact A|]. split; [exact B|]. split; [exact C|]. split; [intros _; exists d; auto|discriminate].
  - destruct (load_valid f id size cs) as [[s|] rf] eqn:LF.
    + intros H. inversion H; subst. cbn. apply load_valid_some in LF as (d & -> & L & I).
      apply identity_ok_true in I as (A & B & C).
      split; [exact A|]. split; [exact B|]. split; [exact C|]. split; [intros _; exists d; auto|discriminate].
    + unfold bind. destruct (create id size cs) as [s| |] eqn:C; try discriminate.
      intros H. inversion H; subst. cbn. apply create_spec in C as (A & B & C' & D & E).
      split; [exact A|]. split; [exact B|]. split; [exact C'|]. split; [discriminate|]. intros _. split; [exact E|exact D].
Qed.

Theorem loc_untrusted p f id size cs lr : load_or_create p f id size cs = Ret lr ->
  (forall d s, p = Some d -> load d = Some s -> identity_ok s id size cs = false) ->
  (forall d s, f = Some d -> load d = Some s -> identity_ok s id size cs = false) ->
  lr_loaded lr = false.
Proof.
  intros H Hp Hf. unfold load_or_create in H. destruct (cs =? 0); [discriminate|].
  destruct (load_valid_none_untrusted p id size cs Hp) as [rp Ep]. rewrite Ep in H.
  destruct (load_valid_none_untrusted f id size cs Hf) as [rf Ef]. rewrite Ef in H.
  unfold bind in H. destruct (create id size cs); try discriminate. inversion H; subst. reflexivity.
Qed.

(* a sidecar damaged in one byte (e.g. one flipped bit), looked up under the
   identity of the undamaged one, is never trusted - the id-length field included *)
Theorem damaged_never_trusted s pre b b' post fb lr :
  wf s -> serialise s = pre ++ b :: post -> 0 <= b' < 256 -> b' <> b ->
  (fb = None \/ fb = Some (pre ++ b' :: post)) ->
  load_or_create (Some (pre ++ b' :: post)) fb (sc_id s) (sc_size s) (sc_chunk s) = Ret lr ->
  lr_loaded lr = false.
Proof.
  intros W E Hb N Hfb H.
  assert (K : forall d s', d = pre ++ b' :: post -> load d = Some s' ->
              identity_ok s' (sc_id s) (sc_size s) (sc_chunk s) = false).
  { intros d s' -> L. pose proof (load_damaged_byte s pre b b' post W E Hb N) as D. rewrite L in D.
    apply identity_ok_false. right. right. intros X. apply D. rewrite X. reflexivity. }
  eapply loc_untrusted; [exact H| |].
  - intros d s' Hd L. inversion Hd; subst. eapply K; eauto.
  - intros d s' Hd L. destruct Hfb as [->| ->]; [discriminate|]. inversion Hd; subst. eapply K; eauto.
Qed.

Theorem truncated_never_trusted s a b id size cs lr :
  wf s -> serialise s = a ++ b -> b <> [] ->
  load_or_create (Some a) None id size cs = Ret lr -> lr_loaded lr = false.
Proof.
  intros W E Hb H. eapply loc_untrusted; [exact H| |].
  - intros d s' Hd L. inversion Hd; subst. rewrite (load_prefix_none s d b W E Hb) in L. discriminate.
  - intros d s' Hd. discriminate.
Qed.

(* flipping bit k of a byte *)
Lemma flip_bit_byte b k : 0 <= b < 256 -> 0 <= k < 8 ->
  0 <= Z.lxor b (2^k) < 256 /\ Z.lxor b (2^k) <> b.
Proof.
  intros Hb Hk. split.
  - change 256 with (2^8). apply lxor_bound; [lia|exact Hb|].
    split; [apply Z.pow_nonneg; lia|apply Z.pow_lt_mono_r; lia].
  - intros E. rewrite <- (Z.lxor_0_r b) in E at 2. rewrite !(Z.lxor_comm b) in E.
    apply lxor_cancel_r in E. assert (0 < 2^k) by (apply Z.pow_pos_nonneg; lia). lia.
Qed.

(* ---------- the handshake ---------- *)
Definition is_stale (rq : request) (d : disk) : bool :=
  match d_file d with None => true | Some f => negb (zlen f =? rq_size rq) end.

Lemma recv_begin_inv h rq d br : recv_begin h rq d = Ret br ->
  exists total lr,
    recvTotalChunks (rq_size rq) (rq_cs rq) = Ret total /\
    load_or_create (if is_stale rq d then None else d_primary d)
                   (if is_stale rq d then None else d_fallback d) (rq_id rq) (rq_size rq) (rq_cs rq) = Ret lr /\
    br_sc br = lr_sc lr /\ br_loaded br = lr_loaded lr /\ br_total br = total /\
    br_stale br = is_stale rq d /\
    br_file br = resize (rq_size rq) (match d_file d with Some f => f | None => [] end) /\
    br_remaining br = total - Z.min (count_set (sc_bitmap (lr_sc lr))) total.
Proof.
  unfold recv_begin, is_stale. unfold bind at 1.
  destruct (recvTotalChunks (rq_size rq) (rq_cs rq)) as [total| |]; try discriminate.
  unfold bind at 1.
  destruct (load_or_create _ _ (rq_id rq) (rq_size rq) (rq_cs rq)) as [lr| |] eqn:L; try discriminate.
  intros H. exists total, lr. split; [reflexivity|]. split; [reflexivity|].
  destruct (total =? 0).
  { inversion H; subst; cbn. repeat split; reflexivity. }
  destruct (highest_set (sc_bitmap (lr_sc lr)) (sc_total (lr_sc lr))) as [hi|].
  - destruct (rq_alg rq =? 0).
    + inversion H; subst; cbn. repeat split; reflexivity.
    + unfold bind in H. destruct (hash_file_chunk _ _ _ _ _) as [hv| |]; try discriminate.
      inversion H; subst; cbn. repeat split; reflexivity.
  - inversion H; subst; cbn. repeat split; reflexivity.
Qed.

(* the data file is gone or has another length: whatever the metadata files say,
   nothing is loaded *)
Theorem stale_not_loaded h rq d br : is_stale rq d = true -> recv_begin h rq d = Ret br ->
  br_loaded br = false.
Proof.
  intros S H. apply recv_begin_inv in H as (total & lr & _ & L & _ & -> & _).
  rewrite S in L. eapply loc_untrusted; [exact L| |]; intros; discriminate.
Qed.

Theorem unloaded_no_marks h rq d br : recv_begin h rq d = Ret br -> br_loaded br = false ->
  forall bits i, bit_get (sc_bitmap (br_sc br)) bits i = false.
Proof.
  intros H U bits i. apply recv_begin_inv in H as (total & lr & _ & L & -> & E & _).
  rewrite E in U. apply loc_spec in L as (_ & _ & _ & _ & F). destruct (F U) as [-> _]. apply bit_get_zeros.
Qed.

Lemma apply_info_plan total alg tail vnone it bm last hash p :
  apply_info total alg tail vnone it bm last hash = Ret p ->
  match p with Some pl => pl_bitmap pl = bm | None => True end.
Proof.
  unfold apply_info. destruct (negb (total =? 0) && negb (_ =? total)); [discriminate|].
  destruct ((0 <? _) && (0 <? zlen bm)); [|intros H; inversion H; exact I].
  destruct (negb (zlen bm =? _)); [discriminate|]. intros H. inversion H. reflexivity.
Qed.

Theorem no_marks_no_skip total alg tail vnone it bm last hash p :
  apply_info total alg tail vnone it bm last hash = Ret p ->
  (forall bits i, bit_get bm bits i = false) -> forall i, plan_skips p i = false.
Proof.
  intros H Z i. apply apply_info_plan in H. destruct p as [pl|]; [|reflexivity].
  unfold plan_skips. rewrite H, Z. reflexivity.
Qed.

Lemma filter_all {A} (f : A -> bool) l : (forall x, f x = true) -> filter f l = l.
Proof. intros H. induction l as [|x l IH]; cbn; [reflexivity|]. rewrite H, IH. reflexivity. Qed.

(* metadata that was not loaded makes the sender send every chunk of the file *)
Theorem unloaded_sends_all h rq d src tail vnone o :
  resume_outcome h rq d src tail vnone = Ret o -> o_loaded o = false ->
  exists total, chunkTotal (rq_size rq) (rq_cs rq) = Ret total /\ o_sent o = zseq (Z.to_nat total).
Proof.
  unfold resume_outcome. unfold bind at 1. destruct (recv_begin h rq d) as [br| |] eqn:B; try discriminate.
  unfold bind at 1. destruct (chunkTotal (rq_size rq) (rq_cs rq)) as [total| |]; try discriminate.
  unfold bind at 1. destruct (apply_info _ _ _ _ _ _ _ _) as [p| |] eqn:A; try discriminate.
  intros H U. inversion H; subst; cbn in *. exists total. split; [reflexivity|].
  pose proof (unloaded_no_marks h rq d br B U) as Z.
  pose proof (no_marks_no_skip _ _ _ _ _ _ _ _ _ A Z) as NS.
  unfold main_pass. apply filter_all. intros x. rewrite NS. reflexivity.
Qed.

(* ---------- the damaged last recorded chunk is detected ---------- *)
Lemma zlen_zeros n : 0 <= n -> zlen (zeros n) = n.
Proof. intros H. unfold zlen, zeros. rewrite repeat_length. lia. Qed.

Lemma highest_zeros n bits : highest_set (zeros n) bits = None.
Proof.
  unfold highest_set. generalize (Z.to_nat bits) as k. induction k as [|k IH]; cbn [highest_from]; [reflexivity|].
  rewrite bit_get_zeros. exact IH.
Qed.

Theorem repair_detected h rq d src tail br hi total p :
  geom_dom (rq_size rq) (rq_cs rq) -> 0 < rq_size rq ->
  (forall x, d_primary d = Some x -> bytes_ok x) -> (forall x, d_fallback d = Some x -> bytes_ok x) ->
  recv_begin h rq d = Ret br -> rq_alg rq <> 0 ->
  highest_set (sc_bitmap (br_sc br)) (sc_total (br_sc br)) = Some hi ->
  h (chunk_at (rq_cs rq) (br_file br) hi) <> h (chunk_at (rq_cs rq) src hi) ->
  h (chunk_at (rq_cs rq) (br_file br) hi) <> hash_unknown ->
  chunkTotal (rq_size rq) (rq_cs rq) = Ret total ->
  apply_info total (rq_alg rq) tail false (br_total br) (sc_bitmap (br_sc br)) (br_last br) (br_hash br) = Ret p ->
  verdict h (rq_cs rq) src p = Some hi.
Proof.
  intros G Hpos Bp Bf B Alg Hi Ne Nu CT A.
  destruct (counts_agree _ _ G Hpos) as (C1 & C2 & _ & C4 & _).
  rewrite C1 in CT. injection CT as CT. rewrite <- CT in A. clear CT total.
  assert (Hcs : 1 <= rq_cs rq) by (destruct G as (_ & G2 & _); lia).
  pose proof (ceil_div_pos _ _ Hpos Hcs) as Tpos.
  pose proof B as B'. apply recv_begin_inv in B' as (t & lr & RT & L & Esc & El & Et & _ & Ef & _).
  rewrite C2 in RT. injection RT as RT. rewrite <- RT in Et. clear RT t.
  (* the metadata was loaded (fresh metadata has no highest bit) and is well-formed *)
  pose proof (loc_spec _ _ _ _ _ _ L) as (Ics & Isz & Iid & Ld & Fr).
  destruct (lr_loaded lr) eqn:LL.
  2:{ destruct (Fr eq_refl) as [Z0 _]. rewrite Esc, Z0, highest_zeros in Hi. discriminate. }
  destruct (Ld eq_refl) as (x & Hx & Lx).
  assert (W : wf (lr_sc lr)).
  { assert (bytes_ok x) as Bx.
    { destruct Hx as [Hx|Hx]; destruct (is_stale rq d); try discriminate; [apply Bp|apply Bf]; exact Hx. }
    apply (load_inv x _ Bx Lx). }
  destruct W as (_ & _ & Wt & _ & _ & _ & Wl & _).
  rewrite Ics, Isz, C4 in Wt. inversion Wt as [Wt']. clear Wt.
  rewrite Esc in Hi. pose proof (highest_set_range _ _ _ Hi) as (Hr & _). rewrite <- Wt' in Hr.
  (* what the receiver reports *)
  assert (R : br_last br = hi /\ br_hash br = h (chunk_at (rq_cs rq) (br_file br) hi)).
  { revert B. unfold recv_begin. cbv zeta. fold (is_stale rq d). rewrite C2. unfold bind at 1. rewrite L. unfold bind at 1.
    replace (ceil_div (rq_size rq) (rq_cs rq) =? 0) with false by (symmetry; apply Z.eqb_neq; lia).
    rewrite Hi. replace (rq_alg rq =? 0) with false by (symmetry; apply Z.eqb_neq; exact Alg).
    unfold bind, hash_file_chunk. destruct (rq_size rq <=? hi * rq_cs rq); [discriminate|].
    intros E. inversion E; subst br; cbn. split; reflexivity. }
  destruct R as (R1 & R2).
  revert A. unfold apply_info. rewrite Et, R1, R2, Esc.
  replace (ceil_div (rq_size rq) (rq_cs rq) =? 0) with false by (symmetry; apply Z.eqb_neq; lia).
  rewrite Z.eqb_refl. cbn [negb andb].
  replace (0 <? ceil_div (rq_size rq) (rq_cs rq)) with true by (symmetry; apply Z.ltb_lt; lia).
  assert (0 < zlen (sc_bitmap (lr_sc lr))) as Lpos.
  { rewrite Wl, <- Wt'. unfold byte_len. apply Z.div_str_pos. lia. }
  replace (0 <? zlen (sc_bitmap (lr_sc lr))) with true by (symmetry; apply Z.ltb_lt; exact Lpos).
  cbn [andb]. rewrite Wl, <- Wt', Z.eqb_refl. cbn [negb].
  replace (hi <? ceil_div (rq_size rq) (rq_cs rq)) with true by (symmetry; apply Z.ltb_lt; lia).
  replace (rq_alg rq =? 0) with false by (symmetry; apply Z.eqb_neq; exact Alg).
  replace (h (chunk_at (rq_cs rq) (br_file br) hi) =? hash_unknown) with false by (symmetry; apply Z.eqb_neq; exact Nu).
  cbn [negb andb]. intros A. inversion A; subst p. unfold verdict. cbn.
  replace (h (chunk_at (rq_cs rq) src hi) =? h (chunk_at (rq_cs rq) (br_file br) hi)) with false
    by (symmetry; apply Z.eqb_neq; intros X; apply Ne; symmetry; exact X).
  reflexivity.
Qed.

(* ---------- the receiver's completion logic under any arrival order ---------- *)
Lemma rrun_app s a b : rrun s (a ++ b) = rrun (rrun s a) b.
Proof. unfold rrun. apply fold_left_app. Qed.

Lemma rstep_written_mono s e x : In x (r_written s) -> In x (r_written (rstep s e)).
Proof.
  intros H. destruct e as [i|]; cbn.
  - destruct (r_done s); cbn; [exact H|]. apply in_or_app. left. exact H.
  - destruct (r_done s); cbn; exact H.
Qed.

Lemma rrun_written_mono evs : forall s x, In x (r_written s) -> In x (r_written (rrun s evs)).
Proof.
  induction evs as [|e evs IH]; intros s x H; [exact H|]. cbn. apply IH. apply rstep_written_mono. exact H.
Qed.

(* a (re-)sent chunk that reaches the receiver while the file is still open is written *)
Theorem frame_before_finalize_written s evs1 evs2 i :
  r_done (rrun s evs1) = false -> In i (r_written (rrun s (evs1 ++ RChunk i :: evs2))).
Proof.
  intros H. rewrite rrun_app. cbn. apply rrun_written_mono. cbn. rewrite H. cbn.
  apply in_or_app. right. left. reflexivity.
Qed.

(* ... and one that arrives after the file was finalised is dropped *)
Theorem frame_after_finalize_dropped s evs1 i :
  r_done (rrun s evs1) = true ->
  r_written (rrun s (evs1 ++ [RChunk i])) = r_written (rrun s evs1) /\
  In i (r_dropped (rrun s (evs1 ++ [RChunk i]))).
Proof.
  intros H. rewrite rrun_app. cbn. rewrite H. cbn. split; [reflexivity|]. apply in_or_app. right. left. reflexivity.
Qed.

(* ---------- statements in the form Props/C06.v exports ---------- *)
Theorem bit_flip_never_trusted s pre b post k lr :
  wf s -> serialise s = pre ++ b :: post -> 0 <= b < 256 -> 0 <= k < 8 ->
  load_or_create (Some (pre ++ Z.lxor b (2^k) :: post)) None (sc_id s) (sc_size s) (sc_chunk s) = Ret lr ->
  lr_loaded lr = false /\ sc_bitmap (lr_sc lr) = zeros (byte_len (sc_total (lr_sc lr))).
Proof.
  intros W E Hb Hk H. destruct (flip_bit_byte b k Hb Hk) as [R N].
  assert (U : lr_loaded lr = false).
  { eapply (damaged_never_trusted s pre b (Z.lxor b (2^k)) post None lr W E R N); [left; reflexivity|exact H]. }
  split; [exact U|]. apply loc_spec in H. destruct H as (_ & _ & _ & _ & F). destruct (F U) as [Z0 _]. exact Z0.
Qed.

Theorem foreign_never_trusted p f id size cs lr : load_or_create p f id size cs = Ret lr ->
  (forall d s, p = Some d -> load d = Some s -> sc_chunk s <> cs \/ sc_size s <> size \/ sc_id s <> id) ->
  (forall d s, f = Some d -> load d = Some s -> sc_chunk s <> cs \/ sc_size s <> size \/ sc_id s <> id) ->
  lr_loaded lr = false.
Proof.
  intros H Hp Hf. eapply loc_untrusted; [exact H| |]; intros d s E L; apply identity_ok_false; eauto.
Qed.

Theorem stale_data_file h rq d br :
  (match d_file d with None => True | Some f => zlen f <> rq_size rq end) ->
  recv_begin h rq d = Ret br -> br_loaded br = false.
Proof.
  intros S. apply stale_not_loaded. unfold is_stale. destruct (d_file d) as [f|]; [|reflexivity].
  apply negb_true_iff. apply Z.eqb_neq. exact S.
Qed.

Theorem loaded_wellformed d s : bytes_ok d -> load d = Some s -> wf s.
Proof. intros B L. exact (proj1 (load_inv d s B L)). Qed.

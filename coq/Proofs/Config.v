(* Proofs about Model/Config.v (C16). *)
From Coq Require Import ZArith List Bool Lia.
From TF Require Import Lib.GoInt Lib.Bytes Model.Config Gen.C16.
Import ListNotations.
Open Scope Z_scope.

(* ------------------------------------------------------------------ *)
(* finite sweeps over bytes                                            *)

Definition all_bytes : list Z := map Z.of_nat (seq 0 256).

Lemma in_all_bytes c : 0 <= c < 256 -> In c all_bytes.
Proof.
  intros H. unfold all_bytes. rewrite <- (Z2Nat.id c) by lia.
  apply in_map. apply in_seq. lia.
Qed.

Lemma byte_sweep (P : Z -> bool) :
  forallb P all_bytes = true -> forall c, 0 <= c < 256 -> P c = true.
Proof. intros H c Hc. rewrite forallb_forall in H. apply H, in_all_bytes, Hc. Qed.

(* ------------------------------------------------------------------ *)
(* strings                                                             *)

Lemma mem_app c a b : mem c (a ++ b) = mem c a || mem c b.
Proof. apply existsb_app. Qed.

Lemma mem_cons c x a : mem c (x :: a) = (c =? x) || mem c a.
Proof. reflexivity. Qed.

Lemma class_not_mem (P : Z -> bool) s x :
  forallb P s = true -> P x = false -> mem x s = false.
Proof.
  intros Hs Hx. induction s as [|y s IH]; [reflexivity|].
  cbn in Hs. apply andb_true_iff in Hs. destruct Hs as [Hy Hs].
  rewrite mem_cons, (IH Hs), orb_false_r.
  destruct (x =? y) eqn:E; [|reflexivity]. apply Z.eqb_eq in E. subst. congruence.
Qed.

Lemma forallb_impl (P Q : Z -> bool) s :
  (forall c, P c = true -> Q c = true) -> forallb P s = true -> forallb Q s = true.
Proof.
  intros H Hs. rewrite forallb_forall in *. intros c Hc. apply H, Hs, Hc.
Qed.

Lemma forallb_rev (P : Z -> bool) s : forallb P (rev s) = forallb P s.
Proof.
  destruct (forallb P s) eqn:E.
  - rewrite forallb_forall in *. intros c Hc. apply E. apply in_rev. exact Hc.
  - destruct (forallb P (rev s)) eqn:E'; [|reflexivity].
    rewrite forallb_forall in E'. assert (forallb P s = true); [|congruence].
    rewrite forallb_forall. intros c Hc. apply E'. apply in_rev. rewrite rev_involutive. exact Hc.
Qed.

Lemma cut_app c a b : mem c a = false -> cut c (a ++ c :: b) = (a, b, true).
Proof.
  induction a as [|x a IH]; intros H; cbn [app cut].
  - rewrite Z.eqb_refl. reflexivity.
  - rewrite mem_cons in H. apply orb_false_iff in H. destruct H as [Hx Ha].
    rewrite Z.eqb_sym, Hx, (IH Ha). reflexivity.
Qed.

Lemma cut_none c a : mem c a = false -> cut c a = (a, [], false).
Proof.
  induction a as [|x a IH]; intros H; cbn [cut]; [reflexivity|].
  rewrite mem_cons in H. apply orb_false_iff in H. destruct H as [Hx Ha].
  rewrite Z.eqb_sym, Hx, (IH Ha). reflexivity.
Qed.

Lemma cut_last_none c a : mem c a = false -> cut_last c a = None.
Proof.
  induction a as [|x a IH]; intros H; cbn [cut_last]; [reflexivity|].
  rewrite mem_cons in H. apply orb_false_iff in H. destruct H as [Hx Ha].
  rewrite (IH Ha), Z.eqb_sym, Hx. reflexivity.
Qed.

Lemma cut_last_app c a b : mem c b = false -> cut_last c (a ++ c :: b) = Some (a, b).
Proof.
  intros H. induction a as [|x a IH]; cbn [app cut_last].
  - rewrite (cut_last_none _ _ H), Z.eqb_refl. reflexivity.
  - rewrite IH. reflexivity.
Qed.

Lemma ends_with_app c a b : b <> [] -> ends_with c (a ++ b) = ends_with c b.
Proof.
  intros H. unfold ends_with. rewrite rev_app_distr.
  destruct (rev b) as [|y r] eqn:E; [|reflexivity].
  exfalso. apply H. rewrite <- (rev_involutive b), E. reflexivity.
Qed.

Lemma ends_with_mem c s : ends_with c s = true -> mem c s = true.
Proof.
  unfold ends_with. destruct (rev s) as [|y r] eqn:E; [discriminate|]. intros H.
  apply Z.eqb_eq in H. subst y. unfold mem. apply existsb_exists. exists c. split; [|apply Z.eqb_refl].
  apply in_rev. rewrite E. left. reflexivity.
Qed.

Lemma ends_with_not_mem c s : mem c s = false -> ends_with c s = false.
Proof.
  intros H. destruct (ends_with c s) eqn:E; [|reflexivity]. apply ends_with_mem in E. congruence.
Qed.

Lemma seqb_refl a : seqb a a = true.
Proof. induction a as [|x a IH]; cbn; [reflexivity|]. rewrite Z.eqb_refl, IH. reflexivity. Qed.

Lemma seqb_eq a : forall b, seqb a b = true -> a = b.
Proof.
  induction a as [|x a IH]; intros [|y b] H; cbn in H; try discriminate; [reflexivity|].
  apply andb_true_iff in H. destruct H as [H1 H2]. apply Z.eqb_eq in H1. subst. f_equal. apply IH, H2.
Qed.

Lemma seqb_nil_false x a : seqb (x :: a) [] = false.
Proof. reflexivity. Qed.

Lemma starts_with_app p s : starts_with p (p ++ s) = true.
Proof. induction p as [|x p IH]; cbn; [reflexivity|]. rewrite Z.eqb_refl, IH. reflexivity. Qed.

Lemma starts_with_ext_false p p' : forall s, starts_with p s = false -> starts_with (p ++ p') s = false.
Proof.
  induction p as [|x p IH]; intros s H; cbn in *; [discriminate|].
  destruct s as [|y s]; [reflexivity|].
  destruct (x =? y); cbn in *; [apply IH, H|reflexivity].
Qed.

(* ------------------------------------------------------------------ *)
(* escape / unescape round trip                                         *)

Definition eb_ok (m : emode) (c : Z) : bool :=
  match escape_byte m c with
  | [x] => if x =? c then negb (c =? 37) && match m with EQuery => negb (c =? 43) | EUser => true end
           else match m with EQuery => (c =? 32) && (x =? 43) | EUser => false end
  | [p; h; l] => (p =? 37) && ishex h && ishex l && (unhex h * 16 + unhex l =? c)
  | _ => false
  end.

Lemma eb_ok_all m : forallb (eb_ok m) all_bytes = true.
Proof. destruct m; vm_compute; reflexivity. Qed.

Lemma unescape_escape_byte m c rest : 0 <= c < 256 ->
  unescape m (escape_byte m c ++ rest) = option_map (cons c) (unescape m rest).
Proof.
  intros Hc. pose proof (byte_sweep _ (eb_ok_all m) c Hc) as H. unfold eb_ok in H.
  destruct (escape_byte m c) as [|x [|h [|l [|? ?]]]]; try discriminate.
  - cbn [app unescape]. destruct (x =? c) eqn:E.
    + apply Z.eqb_eq in E. subst x. apply andb_true_iff in H. destruct H as [H1 H2].
      apply negb_true_iff in H1. rewrite H1.
      destruct m; [apply negb_true_iff in H2; rewrite H2|]; reflexivity.
    + destruct m; [|discriminate]. apply andb_true_iff in H. destruct H as [H1 H2].
      apply Z.eqb_eq in H1, H2. subst. reflexivity.
  - repeat (apply andb_true_iff in H; destruct H as [H ?]).
    match goal with H : (x =? 37) = true |- _ => apply Z.eqb_eq in H; subst x end.
    cbn [app unescape]. rewrite Z.eqb_refl.
    repeat match goal with H : ishex _ = true |- _ => rewrite H; clear H end. cbn [andb].
    match goal with H : (_ =? c) = true |- _ => apply Z.eqb_eq in H; rewrite H end. reflexivity.
Qed.

Lemma escape_cons m c s : escape m (c :: s) = escape_byte m c ++ escape m s.
Proof. reflexivity. Qed.

Lemma escape_app m a b : escape m (a ++ b) = escape m a ++ escape m b.
Proof. apply flat_map_app. Qed.

Theorem unescape_escape m s : bytes_ok s -> unescape m (escape m s) = Some s.
Proof.
  intros H. induction H as [|c s Hc _ IH]; [reflexivity|].
  rewrite escape_cons, unescape_escape_byte by exact Hc. rewrite IH. reflexivity.
Qed.

(* the characters an escaped string can contain *)
Lemma escape_class m (P : Z -> bool) :
  forallb (fun c => forallb P (escape_byte m c)) all_bytes = true ->
  forall s, bytes_ok s -> forallb P (escape m s) = true.
Proof.
  intros H s Hs. induction Hs as [|c s Hc _ IH]; [reflexivity|].
  rewrite escape_cons, forallb_app, IH, andb_true_r.
  exact (byte_sweep _ H c Hc).
Qed.

Definition q_class (c : Z) : bool := is_alnum c || is_mark c || (c =? 37) || (c =? 43).
Definition u_class (c : Z) : bool :=
  is_alnum c || is_mark c || (c =? 37) || (c =? 36) || (c =? 38) || (c =? 43) || (c =? 44) || (c =? 59) || (c =? 61).

Lemma escape_q_class s : bytes_ok s -> forallb q_class (escape EQuery s) = true.
Proof. apply escape_class. vm_compute. reflexivity. Qed.

Lemma escape_u_class s : bytes_ok s -> forallb u_class (escape EUser s) = true.
Proof. apply escape_class. vm_compute. reflexivity. Qed.

(* strings of safe characters are their own escaping *)
Ltac bools :=
  repeat match goal with
  | H : _ && _ = true |- _ => apply andb_true_iff in H; destruct H
  | H : _ || _ = true |- _ => apply orb_true_iff in H; destruct H
  | H : _ || _ = false |- _ => apply orb_false_iff in H; destruct H
  | H : negb _ = true |- _ => apply negb_true_iff in H
  | H : (_ =? _) = true |- _ => apply Z.eqb_eq in H
  | H : (_ <=? _) = true |- _ => apply Z.leb_le in H
  | H : (_ <? _) = true |- _ => apply Z.ltb_lt in H
  | H : (_ =? _) = false |- _ => apply Z.eqb_neq in H
  | H : (_ <=? _) = false |- _ => apply Z.leb_gt in H
  | H : (_ <? _) = false |- _ => apply Z.ltb_ge in H
  end.

Lemma safe_char_range c : safe_char c = true -> 45 <= c <= 122.
Proof. unfold safe_char, is_alnum, is_digit, between. intros H. bools; lia. Qed.

Definition safe_ok (c : Z) : bool :=
  negb (safe_char c) || (seqb (escape_byte EQuery c) [c] && seqb (escape_byte EUser c) [c]).
Lemma safe_ok_all : forallb safe_ok all_bytes = true.
Proof. vm_compute. reflexivity. Qed.

Lemma safe_escape_byte m c : safe_char c = true -> escape_byte m c = [c].
Proof.
  intros H. pose proof (safe_char_range c H) as R.
  pose proof (byte_sweep _ safe_ok_all c ltac:(lia)) as K. unfold safe_ok in K. rewrite H in K. cbn [negb orb] in K.
  apply andb_true_iff in K. destruct K as [K1 K2]. destruct m; apply seqb_eq; assumption.
Qed.

Lemma safe_escape m s : forallb safe_char s = true -> escape m s = s.
Proof.
  induction s as [|c s IH]; intros H; [reflexivity|]. cbn in H. apply andb_true_iff in H. destruct H as [Hc Hs].
  rewrite escape_cons, (safe_escape_byte m c Hc), (IH Hs). reflexivity.
Qed.

Lemma safe_bytes_ok s : forallb safe_char s = true -> bytes_ok s.
Proof.
  intros H. unfold bytes_ok. apply Forall_forall. intros c Hc. rewrite forallb_forall in H.
  pose proof (safe_char_range c (H c Hc)). lia.
Qed.

(* ------------------------------------------------------------------ *)
(* ParseQuery of k=v&k=v                                                *)

Definition seg (kv : str * str) : str := escape EQuery (fst kv) ++ 61 :: escape EQuery (snd kv).

Definition seg_class (c : Z) : bool := q_class c || (c =? 61).

Lemma seg_seg_class (kv : str * str) : bytes_ok (fst kv) -> bytes_ok (snd kv) -> forallb seg_class (seg kv) = true.
Proof.
  intros Hk Hv. unfold seg.
  assert (I : forall s, forallb q_class s = true -> forallb seg_class s = true).
  { intros s. apply forallb_impl. intros c Hc. unfold seg_class. rewrite Hc. reflexivity. }
  rewrite forallb_app. rewrite (I _ (escape_q_class _ Hk)).
  change (forallb seg_class (61 :: escape EQuery (snd kv))) with (seg_class 61 && forallb seg_class (escape EQuery (snd kv))).
  rewrite (I _ (escape_q_class _ Hv)). reflexivity.
Qed.

Lemma escape_nonempty m k : k <> [] -> escape m k <> [].
Proof.
  destruct k as [|c k]; [congruence|]. intros _. rewrite escape_cons.
  destruct m; unfold escape_byte; repeat match goal with |- context[if ?b then _ else _] => destruct b end; discriminate.
Qed.

Lemma parse_pair_seg (kv : str * str) : fst kv <> [] -> bytes_ok (fst kv) -> bytes_ok (snd kv) ->
  parse_pair (seg kv) = Some kv.
Proof.
  intros Hne Hk Hv. unfold parse_pair.
  rewrite (class_not_mem seg_class _ 59 (seg_seg_class kv Hk Hv) eq_refl).
  destruct (seg kv) as [|x t] eqn:E.
  - exfalso. unfold seg in E. apply app_eq_nil in E. destruct E as [E _]. exact (escape_nonempty _ _ Hne E).
  - rewrite <- E. unfold seg.
    rewrite cut_app by (apply (class_not_mem q_class); [apply escape_q_class, Hk|reflexivity]).
    rewrite !unescape_escape by assumption. destruct kv; reflexivity.
Qed.

Lemma split_on_app c a b : mem c a = false -> split_on c (a ++ c :: b) = a :: split_on c b.
Proof.
  induction a as [|x a IH]; intros H; cbn [app split_on].
  - rewrite Z.eqb_refl. reflexivity.
  - rewrite mem_cons in H. apply orb_false_iff in H. destruct H as [Hx Ha].
    rewrite Z.eqb_sym, Hx, (IH Ha). reflexivity.
Qed.

Lemma split_on_none c a : mem c a = false -> split_on c a = [a].
Proof.
  induction a as [|x a IH]; intros H; cbn [split_on]; [reflexivity|].
  rewrite mem_cons in H. apply orb_false_iff in H. destruct H as [Hx Ha].
  rewrite Z.eqb_sym, Hx, (IH Ha). reflexivity.
Qed.

Lemma split_join c segs : segs <> [] -> Forall (fun s => mem c s = false) segs ->
  split_on c (join_with c segs) = segs.
Proof.
  intros Hne H. induction H as [|a r Ha Hr IH]; [congruence|].
  destruct r as [|b r].
  - cbn [join_with]. apply split_on_none, Ha.
  - change (join_with c (a :: b :: r)) with (a ++ c :: join_with c (b :: r)).
    rewrite split_on_app by exact Ha. rewrite IH by discriminate. reflexivity.
Qed.

Definition kv_ok (kv : str * str) : Prop := fst kv <> [] /\ bytes_ok (fst kv) /\ bytes_ok (snd kv).

Theorem parse_query_segs kvs : Forall kv_ok kvs ->
  parse_query (join_with 38 (map seg kvs)) = kvs.
Proof.
  intros H. unfold parse_query. destruct kvs as [|kv0 kvs0]; [reflexivity|].
  rewrite split_join.
  - induction H as [|kv r (Hne & Hk & Hv) _ IH]; [reflexivity|].
    cbn [map flat_map]. rewrite (parse_pair_seg kv Hne Hk Hv), IH. reflexivity.
  - discriminate.
  - apply Forall_map. eapply Forall_impl; [|exact H]. intros kv (Hne & Hk & Hv).
    apply (class_not_mem seg_class); [apply seg_seg_class; assumption|reflexivity].
Qed.

(* ------------------------------------------------------------------ *)
(* %d and Atoi                                                          *)

Definition dv (a : Z) (s : str) : Z := fold_left (fun a d => a * 10 + (d - 48)) s a.

Lemma dv_app a s t : dv a (s ++ t) = dv (dv a s) t.
Proof. apply fold_left_app. Qed.

Lemma is_digit_intro c : 48 <= c <= 57 -> is_digit c = true.
Proof.
  intros H. unfold is_digit, between.
  replace (48 <=? c) with true by (symmetry; apply Z.leb_le; lia).
  replace (c <=? 57) with true by (symmetry; apply Z.leb_le; lia). reflexivity.
Qed.

Lemma dec_aux_S f n acc :
  dec_aux (S f) n acc = if n <? 10 then (48 + n mod 10) :: acc else dec_aux f (n / 10) ((48 + n mod 10) :: acc).
Proof. reflexivity. Qed.

Lemma dec_aux_spec f : forall n acc, 0 <= n < 2 ^ Z.of_nat (S f) ->
  exists pre, dec_aux (S f) n acc = pre ++ acc /\ pre <> [] /\ forallb is_digit pre = true /\
              forall a, dv a pre = a * 10 ^ Z.of_nat (length pre) + n.
Proof.
  induction f as [|f IH]; intros n acc Hn.
  - assert (n = 0 \/ n = 1) as [-> | ->] by (change (2 ^ Z.of_nat 1) with 2 in Hn; lia);
      cbn; eexists [_]; (split; [reflexivity|]); (split; [discriminate|]); (split; [reflexivity|]); intros a; cbn; lia.
  - rewrite dec_aux_S. destruct (n <? 10) eqn:E.
    + apply Z.ltb_lt in E. exists [48 + n mod 10]. split; [reflexivity|]. split; [discriminate|].
      rewrite Z.mod_small by lia. split.
      * cbn [forallb]. rewrite is_digit_intro by lia. reflexivity.
      * intros a. unfold dv. cbn [fold_left length]. change (Z.of_nat 1) with 1. lia.
    + apply Z.ltb_ge in E.
      assert (Hq : 0 <= n / 10 < 2 ^ Z.of_nat (S f)).
      { split; [apply Z.div_pos; lia|]. apply Z.div_lt_upper_bound; [lia|].
        rewrite (Nat2Z.inj_succ (S f)), Z.pow_succ_r in Hn by lia. lia. }
      destruct (IH (n / 10) ((48 + n mod 10) :: acc) Hq) as (pre & Hpre & Hne & Hd & Hv).
      exists (pre ++ [48 + n mod 10]). split; [rewrite Hpre, <- app_assoc; reflexivity|].
      split; [intros K; apply app_eq_nil in K; destruct K; discriminate|].
      pose proof (Z.mod_pos_bound n 10 ltac:(lia)) as Hm.
      split.
      * rewrite forallb_app, Hd. cbn [forallb andb]. rewrite is_digit_intro by lia. reflexivity.
      * intros a. rewrite dv_app, Hv, app_length. unfold dv at 1. cbn [length fold_left].
        rewrite Nat.add_1_r, Nat2Z.inj_succ, Z.pow_succ_r by lia.
        pose proof (Z.div_mod n 10 ltac:(lia)). lia.
Qed.

Lemma dec_spec n : 0 <= n ->
  dec n <> [] /\ forallb is_digit (dec n) = true /\ digits_val (dec n) = n.
Proof.
  intros Hn. unfold dec.
  assert (H : 0 <= n < 2 ^ Z.of_nat (S (Z.to_nat (Z.log2 n)))).
  { split; [exact Hn|]. rewrite Nat2Z.inj_succ, Z2Nat.id by apply Z.log2_nonneg.
    destruct (Z.eq_dec n 0) as [->|]; [reflexivity|]. apply Z.log2_spec. lia. }
  destruct (dec_aux_spec _ n [] H) as (pre & Hpre & Hne & Hd & Hv).
  rewrite Hpre, app_nil_r. split; [exact Hne|]. split; [exact Hd|].
  change (digits_val pre) with (dv 0 pre). rewrite Hv. lia.
Qed.

Lemma is_digit_range c : is_digit c = true -> 48 <= c <= 57.
Proof. unfold is_digit, between. intros H. bools. lia. Qed.

Theorem atoi_dec n : 0 <= n < 2 ^ 63 -> atoi (dec n) = Some n.
Proof.
  intros Hn. destruct (dec_spec n ltac:(lia)) as (Hne & Hd & Hv).
  unfold atoi. destruct (dec n) as [|c t] eqn:E; [congruence|].
  assert (Hc : 48 <= c <= 57) by (apply is_digit_range; cbn in Hd; apply andb_true_iff in Hd; tauto).
  replace (c =? 43) with false by (symmetry; apply Z.eqb_neq; lia).
  replace (c =? 45) with false by (symmetry; apply Z.eqb_neq; lia).
  rewrite Hd, Hv.
  replace (- 2 ^ 63 <=? n) with true by (symmetry; apply Z.leb_le; lia).
  replace (n <? 2 ^ 63) with true by (symmetry; apply Z.ltb_lt; lia). reflexivity.
Qed.

Lemma digits_safe s : forallb is_digit s = true -> forallb safe_char s = true.
Proof.
  apply forallb_impl. intros c H. unfold safe_char, is_alnum. rewrite H. rewrite !orb_true_r. reflexivity.
Qed.

(* ------------------------------------------------------------------ *)
(* the signaling URL                                                    *)

Definition http_scheme (tls : bool) : str := if tls then s_https else s_http.

Lemma ws_scheme_http : ws_scheme s_http = s_ws /\ ws_scheme s_https = s_wss.
Proof. split; reflexivity. Qed.

Definition ws_kvs (join peer role : str) (maxr : Z) : list (str * str) :=
  [(s_join_code, join); (s_peer_id, peer); (s_role, role)] ++
  (if 0 <? maxr then [(s_max_receivers, dec maxr)] else []).

Lemma ws_query_segs join peer role maxr : 0 <= maxr ->
  ws_query join peer role maxr = join_with 38 (map seg (ws_kvs join peer role maxr)).
Proof.
  intros Hm. unfold ws_query, ws_kvs. destruct (0 <? maxr) eqn:E.
  - destruct (dec_spec maxr Hm) as (_ & Hd & _).
    cbn [app map join_with]. unfold seg at 4. cbn [fst snd].
    rewrite (safe_escape EQuery (dec maxr) (digits_safe _ Hd)).
    unfold seg. cbn [fst snd].
    change (escape EQuery s_join_code) with s_join_code.
    change (escape EQuery s_peer_id) with s_peer_id.
    change (escape EQuery s_role) with s_role.
    change (escape EQuery s_max_receivers) with s_max_receivers.
    repeat (rewrite <- app_assoc; cbn [app]). reflexivity.
  - cbn [app map join_with]. unfold seg. cbn [fst snd].
    change (escape EQuery s_join_code) with s_join_code.
    change (escape EQuery s_peer_id) with s_peer_id.
    change (escape EQuery s_role) with s_role.
    repeat (rewrite <- app_assoc; cbn [app]). rewrite app_nil_r. reflexivity.
Qed.

Lemma ws_kvs_ok join peer role maxr : bytes_ok join -> bytes_ok peer -> bytes_ok role -> 0 <= maxr ->
  Forall kv_ok (ws_kvs join peer role maxr).
Proof.
  intros Hj Hp Hr Hm. unfold ws_kvs.
  assert (K : forall s, forallb safe_char s = true -> bytes_ok s) by apply safe_bytes_ok.
  assert (B : forall k v, k <> [] -> forallb safe_char k = true -> bytes_ok v -> kv_ok (k, v)).
  { intros k v H1 H2 H3. split; [exact H1|]. split; [apply K, H2|exact H3]. }
  apply Forall_app. split.
  - constructor; [apply B; [discriminate|reflexivity|exact Hj]|].
    constructor; [apply B; [discriminate|reflexivity|exact Hp]|].
    constructor; [apply B; [discriminate|reflexivity|exact Hr]|]. constructor.
  - destruct (0 <? maxr); [|constructor].
    destruct (dec_spec maxr Hm) as (_ & Hd & _).
    constructor; [|constructor]. apply B; [discriminate|reflexivity|apply K, digits_safe, Hd].
Qed.

Definition wsq_class (c : Z) : bool := seg_class c || (c =? 38).

Lemma join_class (P : Z -> bool) c segs : P c = true -> Forall (fun s => forallb P s = true) segs ->
  forallb P (join_with c segs) = true.
Proof.
  intros Hc H. induction H as [|a r Ha Hr IH]; [reflexivity|].
  destruct r as [|b r]; [exact Ha|].
  change (join_with c (a :: b :: r)) with (a ++ c :: join_with c (b :: r)).
  rewrite forallb_app, Ha. cbn [forallb]. rewrite Hc, IH. reflexivity.
Qed.

Lemma segs_class kvs : Forall kv_ok kvs -> forallb wsq_class (join_with 38 (map seg kvs)) = true.
Proof.
  intros H. apply join_class; [reflexivity|]. apply Forall_map. eapply Forall_impl; [|exact H].
  intros kv (_ & Hk & Hv). eapply forallb_impl; [|apply seg_seg_class; assumption].
  intros c Hc. unfold wsq_class. rewrite Hc. reflexivity.
Qed.

Lemma ws_kvs_nonempty join peer role maxr : join_with 38 (map seg (ws_kvs join peer role maxr)) <> [].
Proof.
  unfold ws_kvs. cbn [app map]. unfold seg at 1. cbn [fst snd join_with].
  change (escape EQuery s_join_code) with s_join_code. unfold s_join_code. discriminate.
Qed.

(* the query survives the client's url.Parse and the server's ParseRequestURI *)
Lemma raw_query_of_ok (b : bool) pre q :
  mem 35 pre = false -> mem 63 pre = false -> q <> [] -> forallb wsq_class q = true ->
  raw_query_of b (pre ++ 63 :: q) = q.
Proof.
  intros H35 H63 Hne Hq. unfold raw_query_of.
  assert (Hq35 : mem 35 q = false) by (apply (class_not_mem wsq_class); [exact Hq|reflexivity]).
  assert (Hq63 : mem 63 q = false) by (apply (class_not_mem wsq_class); [exact Hq|reflexivity]).
  assert (Hu : (if b then fst (fst (cut 35 (pre ++ 63 :: q))) else pre ++ 63 :: q) = pre ++ 63 :: q).
  { destruct b; [|reflexivity]. rewrite cut_none; [reflexivity|].
    rewrite mem_app, H35, mem_cons, Hq35. reflexivity. }
  rewrite Hu.
  change (pre ++ 63 :: q) with (pre ++ [63] ++ q). rewrite app_assoc, ends_with_app by exact Hne.
  rewrite (ends_with_not_mem _ _ Hq63). cbn [andb].
  rewrite <- app_assoc. cbn [app]. rewrite cut_app by exact H63. reflexivity.
Qed.

Theorem server_view_ws_url tls host join peer role maxr :
  mem 35 host = false -> mem 63 host = false ->
  bytes_ok join -> bytes_ok peer -> bytes_ok role -> 0 <= maxr ->
  server_view (ws_url (http_scheme tls) host join peer role maxr) = (join, peer, role, create_query maxr).
Proof.
  intros H35 H63 Hj Hp Hr Hm. unfold server_view, request_target, ws_url.
  pose proof (ws_kvs_ok join peer role maxr Hj Hp Hr Hm) as Hok.
  rewrite (ws_query_segs _ _ _ _ Hm).
  set (q := join_with 38 (map seg (ws_kvs join peer role maxr))).
  assert (Hq : forallb wsq_class q = true) by (apply segs_class, Hok).
  assert (Hne : q <> []) by apply ws_kvs_nonempty.
  replace (ws_scheme (http_scheme tls) ++ [58; 47; 47] ++ host ++ [47; 119; 115; 63] ++ q)
    with ((ws_scheme (http_scheme tls) ++ [58; 47; 47] ++ host ++ [47; 119; 115]) ++ 63 :: q)
    by (rewrite <- !app_assoc; reflexivity).
  rewrite raw_query_of_ok; try assumption.
  - change ([47; 119; 115; 63] ++ q) with ([47; 119; 115] ++ 63 :: q).
    rewrite raw_query_of_ok; try assumption; try reflexivity.
    unfold q. rewrite (parse_query_segs _ Hok). unfold ws_kvs, create_query.
    destruct (0 <? maxr); reflexivity.
  - rewrite !mem_app, H35. destruct tls; reflexivity.
  - rewrite !mem_app, H63. destruct tls; reflexivity.
Qed.

(* ------------------------------------------------------------------ *)
(* TURN URLs                                                            *)

Definition qpart (sp : spelling) : str :=
  match sp_query sp with [] => [] | kvs => 63 :: render_query kvs end.

Lemma render_eq sp : render sp = prefix_str (sp_prefix sp) ++ hostport sp ++ qpart sp.
Proof. reflexivity. Qed.

(* characters that can occur in a rendered spelling or a credential URL *)
Definition url_class (c : Z) : bool :=
  negb (is_ctl c) && negb (c =? 35) && (c <? 128) && negb (is_space c) && (0 <=? c).
Definition hp_class (c : Z) : bool := is_alnum c || (c =? 45) || (c =? 46) || (c =? 58).
Definition ui_class (c : Z) : bool := u_class c || (c =? 58) || (c =? 64).
(* no '/', '?', '#', '[' : the authority part *)
Definition auth_class (c : Z) : bool :=
  url_class c && negb (c =? 47) && negb (c =? 63) && negb (c =? 91).

Lemma alnum_range c : is_alnum c = true -> 48 <= c <= 122.
Proof. unfold is_alnum, is_digit, between. intros H. bools; lia. Qed.

Lemma class_sub (P Q : Z -> bool) :
  (forall c, P c = true -> 0 <= c < 256) ->
  forallb (fun c => implb (P c) (Q c)) all_bytes = true ->
  forall c, P c = true -> Q c = true.
Proof.
  intros R H c Hc. pose proof (byte_sweep _ H c (R c Hc)) as K. cbv beta in K. rewrite Hc in K. exact K.
Qed.

Lemma u_class_range c : u_class c = true -> 0 <= c < 256.
Proof. unfold u_class, is_mark. intros H. bools; try (apply alnum_range in H); lia. Qed.
Lemma ui_class_range c : ui_class c = true -> 0 <= c < 256.
Proof. unfold ui_class. intros H. bools; try (apply u_class_range in H); lia. Qed.
Lemma hp_class_range c : hp_class c = true -> 0 <= c < 256.
Proof. unfold hp_class. intros H. bools; try (apply alnum_range in H); lia. Qed.
Lemma wsq_class_range c : wsq_class c = true -> 0 <= c < 256.
Proof. unfold wsq_class, seg_class, q_class, is_mark. intros H. bools; try (apply alnum_range in H); lia. Qed.

Lemma ui_auth c : ui_class c = true -> auth_class c = true.
Proof. apply class_sub; [apply ui_class_range|vm_compute; reflexivity]. Qed.
Lemma hp_auth c : hp_class c = true -> auth_class c = true.
Proof. apply class_sub; [apply hp_class_range|vm_compute; reflexivity]. Qed.
Lemma wsq_url c : wsq_class c = true -> url_class c = true.
Proof. apply class_sub; [apply wsq_class_range|vm_compute; reflexivity]. Qed.
Lemma auth_url c : auth_class c = true -> url_class c = true.
Proof. unfold auth_class. intros H. bools. assumption. Qed.
Lemma hp_host_ok c : hp_class c = true -> ((c <? 128) && negb (host_char_ok c)) = false.
Proof.
  intros H. pose proof (class_sub hp_class (fun c => negb ((c <? 128) && negb (host_char_ok c))) hp_class_range
                          ltac:(vm_compute; reflexivity) c H) as K.
  cbv beta in K. apply negb_true_iff in K. exact K.
Qed.
Lemma hp_lt128 c : hp_class c = true -> (c <? 128) = true.
Proof. intros H. apply hp_auth, auth_url in H. unfold url_class in H. bools. apply Z.ltb_lt. assumption. Qed.
Lemma ui_userinfo_ok c : ui_class c = true -> c <> 64 -> userinfo_char_ok c = true.
Proof.
  intros H N.
  pose proof (class_sub ui_class (fun c => (c =? 64) || userinfo_char_ok c) ui_class_range ltac:(vm_compute; reflexivity) c H) as K.
  cbv beta in K. apply orb_true_iff in K. destruct K as [K|K]; [apply Z.eqb_eq in K; contradiction|exact K].
Qed.

Lemma url_class_no_ctl s : forallb url_class s = true -> existsb is_ctl s = false.
Proof.
  induction s as [|c s IH]; intros H; [reflexivity|]. cbn in H. apply andb_true_iff in H. destruct H as [Hc Hs].
  cbn [existsb]. rewrite (IH Hs), orb_false_r. unfold url_class in Hc.
  repeat (apply andb_true_iff in Hc; destruct Hc as [Hc ?]). apply negb_true_iff in Hc. exact Hc.
Qed.

Lemma trim_left_id x t : is_space x = false -> trim_left (x :: t) = x :: t.
Proof. intros H. cbn [trim_left]. rewrite H. reflexivity. Qed.

Lemma url_class_head x t : forallb url_class (x :: t) = true -> is_space x = false /\ (128 <=? x) = false.
Proof.
  cbn [forallb]. intros H. apply andb_true_iff in H. destruct H as [H _]. unfold url_class in H.
  repeat (apply andb_true_iff in H; destruct H as [H ?]).
  split; [apply negb_true_iff; assumption|]. apply Z.leb_gt. apply Z.ltb_lt. assumption.
Qed.

Lemma trim_space_id s : s <> [] -> forallb url_class s = true -> trim_space s = TOk s.
Proof.
  intros Hne H. unfold trim_space.
  destruct s as [|x t]; [congruence|].
  destruct (url_class_head x t H) as [Hx Hx'].
  rewrite (trim_left_id x t Hx).
  destruct (rev (x :: t)) as [|y r] eqn:E.
  { exfalso. apply (f_equal (@rev Z)) in E. rewrite rev_involutive in E. discriminate. }
  assert (Hr : forallb url_class (y :: r) = true) by (rewrite <- E, forallb_rev; exact H).
  destruct (url_class_head y r Hr) as [Hy Hy'].
  rewrite (trim_left_id y r Hy).
  assert (Er : rev (y :: r) = x :: t) by (rewrite <- E; apply rev_involutive).
  rewrite Er, Hx', Hy'. reflexivity.
Qed.

Lemma escape_host_id s : forallb (fun c => c <? 128) s = true -> escape_host s = s.
Proof.
  induction s as [|c s IH]; intros H; [reflexivity|]. cbn in H. apply andb_true_iff in H. destruct H as [Hc Hs].
  unfold escape_host. cbn [flat_map]. rewrite Hc. cbn [app]. f_equal. apply IH, Hs.
Qed.

Record sp_facts (sp : spelling) : Prop := {
  sf_host_ne : sp_host sp <> [];
  sf_host : forallb host_char (sp_host sp) = true;
  sf_port_ne : sp_port sp <> [];
  sf_port : forallb is_digit (sp_port sp) = true;
  sf_query : Forall (fun kv : str * str => fst kv <> [] /\ forallb safe_char (fst kv) = true /\ forallb safe_char (snd kv) = true) (sp_query sp);
  sf_bare : sp_prefix sp = PBare -> starts_with s_turn (render sp) = false /\ starts_with s_turns (render sp) = false
}.

Lemma spelling_ok_facts sp : spelling_ok sp = true -> sp_facts sp.
Proof.
  unfold spelling_ok. intros H.
  repeat (apply andb_true_iff in H; destruct H as [H ?]).
  constructor.
  - intros E. rewrite E in H. discriminate.
  - assumption.
  - match goal with K : negb (seqb (sp_port sp) []) = true |- _ => intros E; rewrite E in K; discriminate end.
  - assumption.
  - apply Forall_forall. intros kv Hin.
    match goal with K : forallb _ (sp_query sp) = true |- _ => rewrite forallb_forall in K; specialize (K kv Hin) end.
    destruct kv as [k v]. cbn [fst snd] in *. bools. repeat split; try assumption.
    intros E. subst k. discriminate.
  - intros E. rewrite E in *. bools. split; assumption.
Qed.

Lemma host_char_hp c : host_char c = true -> hp_class c = true.
Proof. unfold host_char, hp_class. intros H. bools; rewrite ?H, ?orb_true_r; try reflexivity; subst; reflexivity. Qed.
Lemma digit_hp c : is_digit c = true -> hp_class c = true.
Proof. unfold hp_class, is_alnum. intros H. rewrite H, !orb_true_r. reflexivity. Qed.

Lemma hostport_class sp : sp_facts sp -> forallb hp_class (hostport sp) = true.
Proof.
  intros F. unfold hostport. rewrite forallb_app. cbn [forallb].
  rewrite (forallb_impl _ _ _ host_char_hp (sf_host sp F)), (forallb_impl _ _ _ digit_hp (sf_port sp F)). reflexivity.
Qed.

Lemma kvs_safe_ok kvs :
  Forall (fun kv : str * str => fst kv <> [] /\ forallb safe_char (fst kv) = true /\ forallb safe_char (snd kv) = true) kvs ->
  Forall kv_ok kvs /\ render_query kvs = join_with 38 (map seg kvs).
Proof.
  intros H. split.
  - eapply Forall_impl; [|exact H]. intros kv (H1 & H2 & H3). split; [exact H1|]. split; apply safe_bytes_ok; assumption.
  - unfold render_query. f_equal. apply map_ext_in. intros kv Hin. rewrite Forall_forall in H.
    destruct (H kv Hin) as (_ & H2 & H3). unfold seg. rewrite !safe_escape by assumption. reflexivity.
Qed.

Lemma qpart_cases sp : sp_facts sp ->
  (sp_query sp = [] /\ qpart sp = [] /\ render_query (sp_query sp) = []) \/
  (qpart sp = 63 :: render_query (sp_query sp) /\ render_query (sp_query sp) <> [] /\
   forallb wsq_class (render_query (sp_query sp)) = true).
Proof.
  intros F. unfold qpart. destruct (sp_query sp) as [|kv r] eqn:E; [left; repeat split|right].
  pose proof (sf_query sp F) as Q. rewrite E in Q. destruct (kvs_safe_ok _ Q) as [Hok Hr].
  split; [reflexivity|]. split.
  - rewrite Hr. inversion Q as [|? ? (Hne & Hk & _) _]; subst. cbn [map]. unfold seg at 1.
    rewrite (safe_escape EQuery (fst kv) Hk).
    destruct (fst kv) as [|c k]; [congruence|]. destruct (map seg r); discriminate.
  - rewrite Hr. apply segs_class, Hok.
Qed.

Lemma parse_query_render sp : sp_facts sp -> parse_query (render_query (sp_query sp)) = sp_query sp.
Proof.
  intros F. destruct (kvs_safe_ok _ (sf_query sp F)) as [Hok Hr]. rewrite Hr. apply parse_query_segs, Hok.
Qed.

(* url.Parse of  //[userinfo@]host:port[?query]  *)
Lemma url_parse_body tls sp ui usr :
  sp_facts sp ->
  forallb auth_class ui = true ->
  match cut_last 64 (ui ++ hostport sp) with
  | None => usr = None /\ ui = []
  | Some (u, hp) => hp = hostport sp /\ exists v, parse_userinfo u = TOk v /\ usr = Some v
  end ->
  url_parse tls (s_slashes ++ ui ++ hostport sp ++ qpart sp) =
  TOk {| u_tls := tls; u_user := usr; u_host := hostport sp; u_query := render_query (sp_query sp); u_force := false |}.
Proof.
  intros F Hui Hcl.
  pose proof (hostport_class sp F) as Hhp.
  assert (Hx : forallb auth_class (ui ++ hostport sp) = true).
  { rewrite forallb_app, Hui. apply (forallb_impl _ _ _ hp_auth Hhp). }
  assert (Hxu : forallb url_class (s_slashes ++ ui ++ hostport sp) = true).
  { change (forallb url_class (47 :: 47 :: (ui ++ hostport sp)) = true). cbn [forallb].
    rewrite (forallb_impl _ _ _ auth_url Hx). reflexivity. }
  assert (Hx63 : mem 63 (s_slashes ++ ui ++ hostport sp) = false).
  { change (mem 63 (47 :: 47 :: (ui ++ hostport sp)) = false). rewrite !mem_cons.
    rewrite (class_not_mem auth_class _ 63 Hx eq_refl). reflexivity. }
  assert (Hx47 : mem 47 (ui ++ hostport sp) = false) by (apply (class_not_mem auth_class _ 47 Hx eq_refl)).
  (* the whole string *)
  assert (Hall : forallb url_class (s_slashes ++ ui ++ hostport sp ++ qpart sp) = true /\
                 ends_with 63 (s_slashes ++ ui ++ hostport sp ++ qpart sp) = false /\
                 cut 63 (s_slashes ++ ui ++ hostport sp ++ qpart sp) =
                   (s_slashes ++ ui ++ hostport sp, render_query (sp_query sp), negb (seqb (qpart sp) []))).
  { replace (s_slashes ++ ui ++ hostport sp ++ qpart sp) with ((s_slashes ++ ui ++ hostport sp) ++ qpart sp)
      by (rewrite <- !app_assoc; reflexivity).
    destruct (qpart_cases sp F) as [(_ & -> & ->)|(-> & Hne & Hq)].
    - rewrite app_nil_r. split; [exact Hxu|]. split; [apply ends_with_not_mem, Hx63|]. apply cut_none, Hx63.
    - assert (Hq63 : mem 63 (render_query (sp_query sp)) = false) by (apply (class_not_mem wsq_class _ 63 Hq eq_refl)).
      split; [|split].
      + rewrite forallb_app, Hxu. cbn [forallb]. rewrite (forallb_impl _ _ _ wsq_url Hq). reflexivity.
      + change (63 :: render_query (sp_query sp)) with ([63] ++ render_query (sp_query sp)).
        rewrite app_assoc, ends_with_app by exact Hne. apply ends_with_not_mem, Hq63.
      + rewrite cut_app by exact Hx63. reflexivity. }
  destruct Hall as (Hu & He & Hc).
  unfold url_parse.
  rewrite (url_class_no_ctl _ Hu).
  assert (H35 : mem 35 (s_slashes ++ ui ++ hostport sp ++ qpart sp) = false).
  { apply (class_not_mem url_class _ 35 Hu). reflexivity. }
  rewrite H35, He, Hc. cbn [andb fst snd].
  replace (starts_with s_slashes (s_slashes ++ ui ++ hostport sp)) with true by (symmetry; apply starts_with_app).
  cbn [negb]. change (skipn 2 (s_slashes ++ ui ++ hostport sp)) with (ui ++ hostport sp).
  rewrite (cut_none _ _ Hx47).
  (* parse_host *)
  assert (Hph : parse_host (hostport sp) = TOk (hostport sp)).
  { unfold parse_host.
    assert (H91 : starts_with [91] (hostport sp) = false).
    { unfold hostport. destruct (sp_host sp) as [|h0 ht] eqn:Eh; [exfalso; exact (sf_host_ne sp F Eh)|].
      pose proof (sf_host sp F) as Hh. rewrite Eh in Hh. cbn [forallb] in Hh. apply andb_true_iff in Hh. destruct Hh as [Hh _].
      cbn [app starts_with]. destruct (91 =? h0) eqn:E91; [|reflexivity]. apply Z.eqb_eq in E91. subst h0. discriminate. }
    rewrite H91.
    rewrite (class_not_mem hp_class _ 37 Hhp eq_refl).
    unfold hostport at 1. rewrite cut_last_app by (apply (class_not_mem is_digit _ 58 (sf_port sp F) eq_refl)).
    rewrite (sf_port sp F). cbn [negb].
    assert (Hex : existsb (fun c => (c <? 128) && negb (host_char_ok c)) (hostport sp) = false).
    { destruct (existsb _ (hostport sp)) eqn:Ex; [|reflexivity]. apply existsb_exists in Ex.
      destruct Ex as (c & Hin & Hc'). rewrite forallb_forall in Hhp. rewrite (hp_host_ok c (Hhp c Hin)) in Hc'. discriminate. }
    rewrite Hex. reflexivity. }
  destruct (cut_last 64 (ui ++ hostport sp)) as [[u hp]|].
  - destruct Hcl as (-> & v & Hv & ->). rewrite Hph, Hv. reflexivity.
  - destruct Hcl as [-> ->]. cbn [app]. rewrite Hph. reflexivity.
Qed.

Definition userinfo_str (user pass : str) : str := escape EUser user ++ 58 :: escape EUser pass.

Lemma userinfo_class user pass : bytes_ok user -> bytes_ok pass -> forallb ui_class (userinfo_str user pass) = true.
Proof.
  intros Hu Hp. unfold userinfo_str.
  assert (I : forall s, forallb u_class s = true -> forallb ui_class s = true).
  { intros s. apply forallb_impl. intros c Hc. unfold ui_class. rewrite Hc. reflexivity. }
  rewrite forallb_app, (I _ (escape_u_class _ Hu)).
  change (forallb ui_class (58 :: escape EUser pass)) with (ui_class 58 && forallb ui_class (escape EUser pass)).
  rewrite (I _ (escape_u_class _ Hp)). reflexivity.
Qed.

Lemma parse_userinfo_str user pass : bytes_ok user -> bytes_ok pass ->
  parse_userinfo (userinfo_str user pass) = TOk (user, Some pass).
Proof.
  intros Hu Hp. unfold parse_userinfo.
  pose proof (userinfo_class user pass Hu Hp) as Hc.
  assert (H64 : forall s, forallb u_class s = true -> mem 64 s = false)
    by (intros s Hs; apply (class_not_mem u_class _ 64 Hs eq_refl)).
  assert (Hok : forallb userinfo_char_ok (userinfo_str user pass) = true).
  { rewrite forallb_forall. intros c Hin. rewrite forallb_forall in Hc. apply ui_userinfo_ok; [apply Hc, Hin|].
    intros ->. unfold userinfo_str in Hin. apply in_app_or in Hin.
    assert (K : forall s, forallb u_class s = true -> ~ In 64 s).
    { intros s Hs Hi. pose proof (H64 s Hs) as M. unfold mem in M.
      assert (existsb (Z.eqb 64) s = true) by (apply existsb_exists; exists 64; split; [exact Hi|reflexivity]). congruence. }
    destruct Hin as [Hin|[Hin|Hin]]; [exact (K _ (escape_u_class _ Hu) Hin)|discriminate|exact (K _ (escape_u_class _ Hp) Hin)]. }
  rewrite Hok. cbn [negb].
  unfold userinfo_str. rewrite mem_app, mem_cons, Z.eqb_refl, orb_true_r.
  rewrite cut_app by (apply (class_not_mem u_class _ 58 (escape_u_class _ Hu) eq_refl)).
  rewrite !unescape_escape by assumption. reflexivity.
Qed.

Definition cred_url (sp : spelling) (user pass : str) : str :=
  scheme_str (prefix_tls (sp_prefix sp)) ++ [58; 47; 47] ++ userinfo_str user pass ++ [64] ++ hostport sp ++ qpart sp.

Lemma prefix_class p : forallb url_class (prefix_str p) = true.
Proof. destruct p; reflexivity. Qed.

Lemma hostport_cons sp : sp_facts sp -> exists h0 t, hostport sp = h0 :: t /\ host_char h0 = true.
Proof.
  intros F. unfold hostport. destruct (sp_host sp) as [|h0 ht] eqn:E; [exfalso; exact (sf_host_ne sp F E)|].
  exists h0, (ht ++ 58 :: sp_port sp). split; [reflexivity|].
  pose proof (sf_host sp F) as H. rewrite E in H. cbn in H. apply andb_true_iff in H. tauto.
Qed.

Lemma render_class sp : sp_facts sp -> forallb url_class (render sp) = true /\ render sp <> [].
Proof.
  intros F. rewrite render_eq. split.
  - rewrite !forallb_app, prefix_class.
    rewrite (forallb_impl _ _ _ (fun c H => auth_url c (hp_auth c H)) (hostport_class sp F)).
    destruct (qpart_cases sp F) as [(_ & -> & _)|(-> & _ & Hq)]; [reflexivity|].
    cbn [forallb]. rewrite (forallb_impl _ _ _ wsq_url Hq). reflexivity.
  - destruct (hostport_cons sp F) as (h0 & t & -> & _). destruct (prefix_str (sp_prefix sp)); discriminate.
Qed.

Lemma normalise_render sp : sp_facts sp ->
  normalise (render sp) = (prefix_tls (sp_prefix sp), s_slashes ++ hostport sp ++ qpart sp).
Proof.
  intros F. rewrite render_eq. destruct (hostport_cons sp F) as (h0 & t & Eh & Hh0).
  assert (N47 : (47 =? h0) = false).
  { destruct (47 =? h0) eqn:E; [|reflexivity]. apply Z.eqb_eq in E. subst h0. discriminate. }
  unfold normalise. destruct (sp_prefix sp) eqn:Ep; cbn [prefix_str prefix_tls].
  - (* turn: *) rewrite Eh. cbn. change (match h0 with Z.pos q => (47 =? q)%positive | _ => false end) with (47 =? h0). rewrite N47. reflexivity.
  - (* turns: *) rewrite Eh. cbn. change (match h0 with Z.pos q => (47 =? q)%positive | _ => false end) with (47 =? h0). rewrite N47. reflexivity.
  - (* turn:// *) reflexivity.
  - (* turns:// *) reflexivity.
  - (* bare *)
    destruct (sf_bare sp F Ep) as [B1 B2]. rewrite render_eq, Ep in B1, B2. cbn [prefix_str app] in B1, B2.
    cbn [app].
    rewrite (starts_with_ext_false s_turns s_slashes _ B2), B2, (starts_with_ext_false s_turn s_slashes _ B1), B1.
    reflexivity.
Qed.

Lemma cred_url_class sp user pass : sp_facts sp -> bytes_ok user -> bytes_ok pass ->
  forallb url_class (cred_url sp user pass) = true.
Proof.
  intros F Hu Hp. unfold cred_url. rewrite !forallb_app.
  rewrite (forallb_impl _ _ _ (fun c H => auth_url c (ui_auth c H)) (userinfo_class user pass Hu Hp)).
  rewrite (forallb_impl _ _ _ (fun c H => auth_url c (hp_auth c H)) (hostport_class sp F)).
  assert (Hq : forallb url_class (qpart sp) = true).
  { destruct (qpart_cases sp F) as [(_ & -> & _)|(-> & _ & Hq)]; [reflexivity|].
    cbn [forallb]. rewrite (forallb_impl _ _ _ wsq_url Hq). reflexivity. }
  rewrite Hq. destruct (prefix_tls (sp_prefix sp)); reflexivity.
Qed.

Lemma normalise_cred sp user pass :
  normalise (cred_url sp user pass) =
  (prefix_tls (sp_prefix sp), s_slashes ++ (userinfo_str user pass ++ [64]) ++ hostport sp ++ qpart sp).
Proof.
  unfold cred_url, normalise. rewrite <- !app_assoc. destruct (prefix_tls (sp_prefix sp)); reflexivity.
Qed.

Lemma url_parse_cred tls sp user pass : sp_facts sp -> bytes_ok user -> bytes_ok pass ->
  url_parse tls (s_slashes ++ (userinfo_str user pass ++ [64]) ++ hostport sp ++ qpart sp) =
  TOk {| u_tls := tls; u_user := Some (user, Some pass); u_host := hostport sp;
         u_query := render_query (sp_query sp); u_force := false |}.
Proof.
  intros F Hu Hp. apply url_parse_body; [exact F| |].
  - rewrite forallb_app, (forallb_impl _ _ _ ui_auth (userinfo_class user pass Hu Hp)). reflexivity.
  - rewrite <- app_assoc. cbn [app].
    rewrite cut_last_app by (apply (class_not_mem hp_class _ 64 (hostport_class sp F) eq_refl)).
    split; [reflexivity|]. eexists. split; [apply parse_userinfo_str; assumption|reflexivity].
Qed.

Lemma url_parse_plain tls sp : sp_facts sp ->
  url_parse tls (s_slashes ++ hostport sp ++ qpart sp) =
  TOk {| u_tls := tls; u_user := None; u_host := hostport sp; u_query := render_query (sp_query sp); u_force := false |}.
Proof.
  intros F. apply (url_parse_body tls sp [] None F eq_refl). cbn [app].
  rewrite cut_last_none by (apply (class_not_mem hp_class _ 64 (hostport_class sp F) eq_refl)). split; reflexivity.
Qed.

Theorem inject_render sp user pass : spelling_ok sp = true -> bytes_ok user -> bytes_ok pass ->
  inject (render sp) user pass = TOk (cred_url sp user pass).
Proof.
  intros Hok Hu Hp. pose proof (spelling_ok_facts sp Hok) as F.
  destruct (render_class sp F) as [Hc Hne].
  unfold inject. rewrite (trim_space_id _ Hne Hc).
  destruct (render sp) as [|r0 rt] eqn:Er; [congruence|]. rewrite <- Er.
  rewrite (normalise_render sp F), (url_parse_plain _ sp F). cbn [u_host u_tls u_query u_force].
  destruct (hostport_cons sp F) as (h0 & t & Eh & _). rewrite Eh. rewrite <- Eh.
  unfold url_string, cred_url, userinfo_str. cbn [u_tls u_user u_host u_query u_force orb].
  rewrite escape_host_id by (apply (forallb_impl _ _ _ hp_lt128 (hostport_class sp F))).
  assert (Hq : (if negb (seqb (render_query (sp_query sp)) []) then 63 :: render_query (sp_query sp) else []) = qpart sp).
  { destruct (qpart_cases sp F) as [(_ & -> & ->)|(-> & Hn & _)]; [reflexivity|].
    destruct (render_query (sp_query sp)); [congruence|reflexivity]. }
  rewrite Hq. repeat (rewrite <- app_assoc; cbn [app]). reflexivity.
Qed.

Theorem parse_turn_cred sp user pass : spelling_ok sp = true -> bytes_ok user -> bytes_ok pass ->
  parse_turn (cred_url sp user pass) = intended sp user pass.
Proof.
  intros Hok Hu Hp. pose proof (spelling_ok_facts sp Hok) as F.
  pose proof (cred_url_class sp user pass F Hu Hp) as Hc.
  assert (Hne : cred_url sp user pass <> []).
  { unfold cred_url. destruct (prefix_tls (sp_prefix sp)); discriminate. }
  unfold parse_turn. rewrite (trim_space_id _ Hne Hc).
  destruct (cred_url sp user pass) as [|c0 ct] eqn:Ec; [congruence|]. rewrite <- Ec.
  rewrite normalise_cred, (url_parse_cred _ sp user pass F Hu Hp).
  cbn [u_user u_tls u_host u_query]. rewrite (parse_query_render sp F). reflexivity.
Qed.

Theorem parse_turn_render sp : spelling_ok sp = true -> parse_turn (render sp) = intended sp [] [].
Proof.
  intros Hok. pose proof (spelling_ok_facts sp Hok) as F.
  destruct (render_class sp F) as [Hc Hne].
  unfold parse_turn. rewrite (trim_space_id _ Hne Hc).
  destruct (render sp) as [|r0 rt] eqn:Er; [congruence|]. rewrite <- Er.
  rewrite (normalise_render sp F), (url_parse_plain _ sp F).
  cbn [u_user u_tls u_host u_query]. rewrite (parse_query_render sp F). reflexivity.
Qed.

(* what [intended] says about the credentials and the address *)
Lemma intended_fields sp user pass e : intended sp user pass = TOk e ->
  e_user e = user /\ e_pass e = pass /\ e_addr e = hostport sp /\ e_tls e = prefix_tls (sp_prefix sp).
Proof.
  unfold intended, endpoint_of. destruct (hostport sp); [discriminate|].
  repeat match goal with |- context[if ?b then _ else _] => destruct b end; try discriminate.
  intros H. inversion H. cbn. repeat split.
Qed.

(* a spelling whose transport is absent, udp (turn only) or tcp denotes an endpoint *)
Lemma intended_defined sp user pass : spelling_ok sp = true ->
  let tr := get s_transport (sp_query sp) in
  (seqb tr [] || seqb tr s_tcp || (seqb tr s_udp && negb (prefix_tls (sp_prefix sp)))) = true ->
  exists e, intended sp user pass = TOk e.
Proof.
  intros Hok tr Htr. pose proof (spelling_ok_facts sp Hok) as F.
  unfold intended, endpoint_of. destruct (hostport_cons sp F) as (h0 & t & Eh & _).
  rewrite Eh. rewrite <- Eh.
  assert (M : mem 58 (hostport sp) = true).
  { unfold hostport. rewrite mem_app, mem_cons, Z.eqb_refl, orb_true_r. reflexivity. }
  rewrite M. cbn [negb]. fold tr. clearbody tr.
  destruct (seqb tr s_udp) eqn:E3.
  - apply seqb_eq in E3. subst tr. cbn in Htr. apply negb_true_iff in Htr. rewrite Htr. cbn. eexists. reflexivity.
  - cbn [andb] in Htr. rewrite orb_false_r in Htr.
    assert (K : (seqb tr [] || false || seqb tr s_tcp) = true) by (rewrite orb_false_r; exact Htr).
    rewrite K. cbn [negb]. rewrite andb_false_r. eexists. reflexivity.
Qed.

(* turnIssuer.Issue over a list of spellings *)
Theorem inject_all_renders sps user pass : Forall (fun sp => spelling_ok sp = true) sps ->
  bytes_ok user -> bytes_ok pass ->
  inject_all (map render sps) user pass = TOk (map (fun sp => cred_url sp user pass) sps).
Proof.
  intros H Hu Hp. induction H as [|sp r Hs _ IH]; [reflexivity|].
  cbn [map inject_all]. rewrite (inject_render sp user pass Hs Hu Hp), IH. reflexivity.
Qed.

(* ------------------------------------------------------------------ *)
(* admission by flags                                                   *)

Lemma check_maxr_ok f maxr : 0 <= maxr < 2 ^ 63 ->
  ((maxr <=? 0) || (f_max_recv f <=? 0) || (maxr <=? f_max_recv f)) = true ->
  check_maxr f (create_query maxr) = 0.
Proof.
  intros Hm Hp. unfold create_query. destruct (0 <? maxr) eqn:E; [|reflexivity].
  apply Z.ltb_lt in E. unfold check_maxr.
  destruct (dec maxr) as [|c t] eqn:Ed; [reflexivity|]. rewrite <- Ed, atoi_dec by exact Hm.
  replace (maxr <? 1) with false by (symmetry; apply Z.ltb_ge; lia).
  destruct ((0 <? f_max_recv f) && (f_max_recv f <? maxr)) eqn:K; [|reflexivity].
  exfalso. bools; lia.
Qed.

Lemma bucket_fresh rate burst : bucket_allows rate burst 0 = true.
Proof. unfold bucket_allows. replace (0 <? Z.max burst 1) with true by (symmetry; apply Z.ltb_lt; lia). apply orb_true_r. Qed.

Lemma lt_le_false a : (0 <? a) && (a <=? 0) = false.
Proof. destruct (0 <? a) eqn:E1, (a <=? 0) eqn:E2; try reflexivity. bools. lia. Qed.

Theorem create_fresh f maxr : permits f maxr = true -> 0 <= maxr < 2 ^ 63 ->
  exists s1, create f s0 (create_query maxr) = (201, 0 <? f_timeout f, s1) /\
             s_sessions s1 = [O] /\ s_conn_used s1 = 0 /\ s_ws_in_use s1 = 0.
Proof.
  intros Hp Hm. unfold permits in Hp. apply andb_true_iff in Hp. destruct Hp as [Hp _].
  apply andb_true_iff in Hp. destruct Hp as [Hp _].
  unfold create. rewrite (check_maxr_ok f maxr Hm Hp). cbn [Z.eqb negb].
  change (s_create_used s0) with 0. rewrite bucket_fresh. cbn [negb].
  destruct (0 <? f_sess_rate f); cbn [s_sessions s0 length Z.of_nat]; rewrite lt_le_false;
    eexists; (split; [reflexivity|]); cbn; repeat split.
Qed.

Theorem both_connect f maxr s1 join ps pr :
  permits f maxr = true -> 0 <= maxr < 2 ^ 63 -> join <> [] -> ps <> [] -> pr <> [] ->
  s_sessions s1 = [O] -> s_conn_used s1 = 0 -> s_ws_in_use s1 = 0 ->
  exists s2 s3, connect f s1 join (Some O) ps s_sender (create_query maxr) = (101, s2) /\
                connect f s2 join (Some O) pr s_receiver [] = (101, s3).
Proof.
  intros Hp Hm Hj Hps Hpr Hs Hc Hw. unfold permits in Hp.
  apply andb_true_iff in Hp. destruct Hp as [Hp Hws].
  apply andb_true_iff in Hp. destruct Hp as [Hmr Hcb].
  destruct join as [|j0 jt]; [congruence|]. destruct ps as [|p0 pt]; [congruence|]. destruct pr as [|r0 rt]; [congruence|].
  unfold connect at 1. rewrite Hs. cbn [nth_error].
  change (seqb s_sender s_sender) with true. change (seqb s_sender s_receiver) with false. cbn [orb negb].
  rewrite (check_maxr_ok f maxr Hm Hmr). cbn [Z.eqb negb].
  rewrite Hc, bucket_fresh. cbn [negb]. rewrite Hw, lt_le_false. rewrite andb_false_r.
  eexists. eexists. split; [reflexivity|].
  unfold connect. cbn [s_sessions s_conn_used s_ws_in_use s_create_used]. try rewrite Hs. cbn [nth_error].
  change (seqb s_receiver s_sender) with false. change (seqb s_receiver s_receiver) with true. cbn [orb negb Z.eqb].
  assert (B : bucket_allows (f_conn_rate f) (f_conn_burst f) (if 0 <? f_conn_rate f then 0 + 1 else 0) = true).
  { unfold bucket_allows. destruct (f_conn_rate f <=? 0) eqn:E; [reflexivity|].
    replace (0 <? f_conn_rate f) with true by (symmetry; apply Z.ltb_lt; bools; lia).
    cbn [orb]. apply Z.ltb_lt. bools; lia. }
  rewrite B. cbn [negb].
  assert (W : (0 <? f_max_ws f) && (f_max_ws f <=? (if 0 <? f_max_ws f then 0 + 1 else 0)) = false).
  { destruct (0 <? f_max_ws f) eqn:E; [|reflexivity]. cbn [andb]. apply Z.leb_gt. bools; lia. }
  rewrite W.
  assert (R : (0 <? f_max_recv f) && true && (f_max_recv f <=? Z.of_nat 0) = false).
  { rewrite andb_true_r. apply lt_le_false. }
  rewrite R. reflexivity.
Qed.

(* every limit and timeout at 0 permits every host *)
Lemma zero_permits f maxr :
  f_max_recv f = 0 -> f_conn_rate f = 0 -> f_max_ws f = 0 -> permits f maxr = true.
Proof. intros H1 H2 H3. unfold permits. rewrite H1, H2, H3. cbn. rewrite orb_true_r. reflexivity. Qed.

(* relay credentials: on or off *)
Lemma issued_off f user pass : turn_enabled f = false -> issued f user pass = TOk None.
Proof. intros H. unfold issued. rewrite H. reflexivity. Qed.

Lemma issued_on f sps user pass :
  f_turn_servers f = map render sps -> sps <> [] -> f_turn_secret f <> [] ->
  Forall (fun sp => spelling_ok sp = true) sps -> bytes_ok user -> bytes_ok pass ->
  issued f user pass = TOk (Some (map (fun sp => cred_url sp user pass) sps)).
Proof.
  intros Hs Hne Hsec Hok Hu Hp. unfold issued, turn_enabled. rewrite Hs.
  destruct sps as [|sp r]; [congruence|]. cbn [map negb andb].
  destruct (f_turn_secret f) as [|c t]; [congruence|]. cbn [seqb negb].
  change (render sp :: map render r) with (map render (sp :: r)).
  rewrite (inject_all_renders (sp :: r) user pass Hok Hu Hp). reflexivity.
Qed.

(* ------------------------------------------------------------------ *)
(* assembled statements                                                 *)

Theorem turn_roundtrip sp user pass : spelling_ok sp = true -> bytes_ok user -> bytes_ok pass ->
  exists u, inject (render sp) user pass = TOk u /\
            parse_turn u = intended sp user pass /\
            parse_turn (render sp) = intended sp [] [].
Proof.
  intros Hok Hu Hp. exists (cred_url sp user pass).
  split; [apply inject_render; assumption|]. split; [apply parse_turn_cred; assumption|apply parse_turn_render, Hok].
Qed.

Lemma rest_username_ok expiry peer : 0 <= expiry -> bytes_ok peer -> bytes_ok (rest_username expiry peer).
Proof.
  intros He Hp. unfold rest_username, bytes_ok. apply Forall_app. split.
  - destruct (dec_spec expiry He) as (_ & Hd & _). apply safe_bytes_ok, digits_safe, Hd.
  - constructor; [lia|exact Hp].
Qed.

(* the server mints user = "<expiry>:<peer>" for any peer id and any secret
   string; the client reads back exactly these and the configured endpoint *)
Theorem turn_rest_roundtrip sp expiry peer pass e :
  spelling_ok sp = true -> 0 <= expiry -> bytes_ok peer -> bytes_ok pass ->
  intended sp [] [] = TOk e ->
  exists u e', inject (render sp) (rest_username expiry peer) pass = TOk u /\ parse_turn u = TOk e' /\
    e_user e' = rest_username expiry peer /\ e_pass e' = pass /\
    e_addr e' = e_addr e /\ e_realm e' = e_realm e /\ e_tcp e' = e_tcp e /\ e_tls e' = e_tls e /\
    e_sni e' = e_sni e /\ e_insecure e' = e_insecure e.
Proof.
  intros Hok He Hp Hs Hi.
  pose proof (rest_username_ok expiry peer He Hp) as Hu.
  destruct (turn_roundtrip sp _ pass Hok Hu Hs) as (u & H1 & H2 & _).
  exists u. unfold intended, endpoint_of in *.
  destruct (hostport sp); [discriminate|].
  repeat match type of Hi with context[if ?b then _ else _] => destruct b end; try discriminate.
  eexists. split; [exact H1|]. split; [exact H2|]. inversion Hi. cbn. repeat split.
Qed.

Theorem scenario_ok f maxr tls host join ps pr :
  permits f maxr = true -> 0 <= maxr < 2 ^ 63 ->
  mem 35 host = false -> mem 63 host = false ->
  join <> [] -> ps <> [] -> pr <> [] -> bytes_ok join -> bytes_ok ps -> bytes_ok pr ->
  exists s1 s2 s3,
    create f s0 (create_query maxr) = (201, 0 <? f_timeout f, s1) /\
    client_create 201 (0 <? f_timeout f) = Ret (0 <? f_timeout f) /\
    (let '(j, p, r, m) := server_view (ws_url (http_scheme tls) host join ps s_sender maxr) in
     (j, p, r) = (join, ps, s_sender) /\ connect f s1 j (Some O) p r m = (101, s2)) /\
    (let '(j, p, r, m) := server_view (ws_url (http_scheme tls) host join pr s_receiver 0) in
     (j, p, r) = (join, pr, s_receiver) /\ connect f s2 j (Some O) p r m = (101, s3)).
Proof.
  intros Hp Hm H35 H63 Hj Hps Hpr Bj Bs Br.
  destruct (create_fresh f maxr Hp Hm) as (s1 & Hc & Hs & Hu & Hw).
  destruct (both_connect f maxr s1 join ps pr Hp Hm Hj Hps Hpr Hs Hu Hw) as (s2 & s3 & C2 & C3).
  assert (Ks : bytes_ok s_sender) by (apply safe_bytes_ok; reflexivity).
  assert (Kr : bytes_ok s_receiver) by (apply safe_bytes_ok; reflexivity).
  exists s1, s2, s3. split; [exact Hc|]. split; [reflexivity|].
  rewrite (server_view_ws_url tls host join ps s_sender maxr H35 H63 Bj Bs Ks ltac:(lia)).
  rewrite (server_view_ws_url tls host join pr s_receiver 0 H35 H63 Bj Br Kr ltac:(lia)).
  split; (split; [reflexivity|assumption]).
Qed.

(* ------------------------------------------------------------------ *)
(* the defaults in the current source (Gen/C16.v)                       *)

Definition gen_default_flags : flags :=
  {| f_max_sessions := srv_default_MaxSessions; f_max_recv := srv_default_MaxReceiversPerSender;
     f_max_msg := srv_default_MaxMessageBytes; f_conn_rate := srv_default_WSConnectsPerMin;
     f_conn_burst := srv_default_WSConnectsBurst; f_msg_rate := srv_default_WSMsgsPerSec;
     f_msg_burst := srv_default_WSMsgsBurst; f_sess_rate := srv_default_SessionCreatesPerMin;
     f_sess_burst := srv_default_SessionCreatesBurst; f_max_ws := srv_default_MaxWSConnections;
     f_idle := srv_default_WSIdleTimeout; f_timeout := srv_default_SessionTimeout;
     f_turn_servers := []; f_turn_secret := []; f_turn_ttl := srv_default_TurnCredentialTTL |}.

(* a server started without flags admits a host started without flags *)
Lemma defaults_permit_default_client :
  permits gen_default_flags cli_default_max_receivers = true /\ 0 <= cli_default_max_receivers < 2 ^ 63.
Proof. split; [vm_compute; reflexivity|]. unfold cli_default_max_receivers. lia. Qed.

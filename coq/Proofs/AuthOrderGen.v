(* Proof obligations on the call-order skeletons GENERATED from the source
   (Gen/AuthOrder.v, tools/gotrans/gen_c08.go).  Re-checked on every run: a
   change of the four functions that lets a transfer call see a connection that
   has not passed authenticateTransport breaks an obligation here. *)
From Coq Require Import List String Bool Arith.
From TF Require Import Model.AuthOrder Proofs.AuthOrder Gen.AuthOrder.
Import ListNotations.
Open Scope string_scope.

Definition sender_code := "s.joinCode".
Definition sender_role := "authRoleSender".
Definition receiver_code := "r.joinCode".
Definition receiver_role := "authRoleReceive".

(* the checker accepts each of the four skeletons *)
Lemma sender_main_checked : check sender_code sender_role sk_sender_main = true.
Proof. vm_compute. reflexivity. Qed.
Lemma sender_extra_checked : check sender_code sender_role sk_sender_extra = true /\ src_free sk_sender_extra = true.
Proof. vm_compute. split; reflexivity. Qed.
Lemma receiver_main_checked : check receiver_code receiver_role sk_receiver_main = true.
Proof. vm_compute. reflexivity. Qed.
Lemma receiver_extra_checked : check receiver_code receiver_role sk_receiver_extra = true /\ src_free sk_receiver_extra = true.
Proof. vm_compute. split; reflexivity. Qed.

(* every call site of a transfer function / of authenticateTransport in the two
   source files lies inside one of the four skeletons (none in a goroutine, a
   closure or another function) *)
Lemma all_sites_covered :
  count_sinks sk_sender_main + count_sinks sk_sender_extra = sender_file_sink_sites /\
  count_auth sk_sender_main + count_auth sk_sender_extra = sender_file_auth_sites /\
  count_sinks sk_receiver_main + count_sinks sk_receiver_extra = receiver_file_sink_sites /\
  count_auth sk_receiver_main + count_auth sk_receiver_extra = receiver_file_auth_sites.
Proof. vm_compute. repeat split. Qed.

(* the skeletons do transfer and do authenticate (the theorems are not about empty programs) *)
Lemma skeletons_nontrivial :
  1 <= count_sinks sk_sender_main /\ 1 <= count_auth sk_sender_main /\ 1 <= count_auth sk_sender_extra /\
  1 <= count_sinks sk_receiver_main /\ 1 <= count_auth sk_receiver_main /\ 1 <= count_auth sk_receiver_extra.
Proof. vm_compute. repeat split; repeat constructor. Qed.

(* calls that are handed a tracked connection variable and are not transfer
   calls: only these (none of them moves manifest or file bytes) *)
Definition harmless : list string := ["Close"; "RemoteAddr"; "LocalAddr"; "close"].
Fixpoint use_names (p : prog) : list string :=
  match p with
  | PSeq s t | PIf s t => use_names s ++ use_names t
  | PUse f _ => [f]
  | PAuth _ _ _ f => use_names f
  | PLoop b => use_names b
  | _ => []
  end.
Definition only_known_uses (p : prog) : bool :=
  forallb (fun f => is_sink f || mem f harmless) (use_names p).
Lemma uses_known :
  only_known_uses sk_sender_main = true /\ only_known_uses sk_sender_extra = true /\
  only_known_uses sk_receiver_main = true /\ only_known_uses sk_receiver_extra = true.
Proof. vm_compute. repeat split. Qed.

(* ---- consequences, through the soundness of the checker ---- *)

Theorem sender_main_ordered s o s' : exec sender_code sender_role sk_sender_main s o s' -> o <> OViol.
Proof. apply check_sound. exact sender_main_checked. Qed.
Theorem sender_extra_ordered s o s' : exec sender_code sender_role sk_sender_extra s o s' -> o <> OViol.
Proof. apply check_sound. apply sender_extra_checked. Qed.
Theorem receiver_main_ordered s o s' : exec receiver_code receiver_role sk_receiver_main s o s' -> o <> OViol.
Proof. apply check_sound. exact receiver_main_checked. Qed.
Theorem receiver_extra_ordered s o s' : exec receiver_code receiver_role sk_receiver_extra s o s' -> o <> OViol.
Proof. apply check_sound. apply receiver_extra_checked. Qed.

Theorem order_all s o s' :
  (exec sender_code sender_role sk_sender_main s o s' -> o <> OViol) /\
  (exec sender_code sender_role sk_sender_extra s o s' -> o <> OViol) /\
  (exec receiver_code receiver_role sk_receiver_main s o s' -> o <> OViol) /\
  (exec receiver_code receiver_role sk_receiver_extra s o s' -> o <> OViol).
Proof.
  repeat split.
  - apply sender_main_ordered.
  - apply sender_extra_ordered.
  - apply receiver_main_ordered.
  - apply receiver_extra_ordered.
Qed.

Theorem order_coverage :
  (count_sinks sk_sender_main + count_sinks sk_sender_extra = sender_file_sink_sites /\
   count_auth sk_sender_main + count_auth sk_sender_extra = sender_file_auth_sites /\
   count_sinks sk_receiver_main + count_sinks sk_receiver_extra = receiver_file_sink_sites /\
   count_auth sk_receiver_main + count_auth sk_receiver_extra = receiver_file_auth_sites) /\
  (src_free sk_sender_extra = true /\ src_free sk_receiver_extra = true) /\
  (only_known_uses sk_sender_main = true /\ only_known_uses sk_sender_extra = true /\
   only_known_uses sk_receiver_main = true /\ only_known_uses sk_receiver_extra = true).
Proof.
  split; [exact all_sites_covered|]. split; [|exact uses_known].
  split; [apply sender_extra_checked|apply receiver_extra_checked].
Qed.

Lemma order_nonvacuous :
  (exists s', exec "s.joinCode" "authRoleSender" bad_transfer_first st0 OViol s' /\
              check "s.joinCode" "authRoleSender" bad_transfer_first = false) /\
  check "r.joinCode" "authRoleReceive" bad_extra_unauthenticated = false /\
  check "r.joinCode" "authRoleReceive" good_extra = true /\
  check "r.joinCode" "authRoleSender" good_extra = false.
Proof.
  split; [exact bad_transfer_first_violates|]. split; [exact bad_extra_refused|].
  split; [exact good_extra_accepted|exact wrong_role_refused].
Qed.

(* C07: facts about the call skeletons and the os call-site lists GENERATED from
   the source (Gen/C07.v).  They tie the hand-written enumeration of filesystem
   calls in Model/PathFs.v ([recv_ops], [begin_ops], [sidecar_ops], [app_ops]) to the
   source text: which calls each place makes, that validation precedes them, and that
   the anchored files contain no other creating/modifying/deleting call into
   package os.  A call site added or moved breaks one of these lemmas. *)
From Coq Require Import List String Bool Arith.
Import ListNotations.
From TF Require Import Gen.C07 Proofs.Calls.
Open Scope string_scope.

Definition fs_names : list string :=
  ["MkdirAll"; "Mkdir"; "OpenFile"; "Create"; "Truncate"; "Remove"; "RemoveAll"; "Rename"; "WriteFile"].
Definition fs_calls (l : list (string * bool)) : list string :=
  filter (fun a => existsb (String.eqb a) fs_names) (all_calls l).

(* RecvManifestMultiStream: the manifest is read, validated, and only then joined
   to outDir and used; its own filesystem calls are MkdirAll(baseDir) and the
   directory pre-creation loop = the head of [recv_ops] *)
Lemma recv_validates_manifest_first :
  before "readControlHeader" "validateManifestPaths" (main_path sk_c07_recv) = true /\
  before "validateManifestPaths" "Join" (main_path sk_c07_recv) = true /\
  before "validateManifestPaths" "MkdirAll" (main_path sk_c07_recv) = true /\
  fs_calls sk_c07_recv = ["MkdirAll"; "MkdirAll"].
Proof. vm_compute. repeat split. Qed.

(* handleFileBegin = [begin_ops]: validate, join, MkdirAll(Dir), OpenFile, Truncate,
   then - without resume - Remove of the two metadata paths of the item ([plain_meta_ops]), and
   - with resume - the sidecar paths, Remove primary / fallback, LoadOrCreateSidecarWithFallback *)
Lemma filebegin_calls :
  before "validateRelPath" "Join" (main_path sk_c07_filebegin) = true /\
  fs_calls sk_c07_filebegin = ["MkdirAll"; "OpenFile"; "Truncate"; "Remove"; "Remove"; "Remove"; "Remove"] /\
  count "SidecarPath" (all_calls sk_c07_filebegin) = 4 /\
  before "SidecarPath" "LoadOrCreateSidecarWithFallback" (all_calls sk_c07_filebegin) = true.
Proof. vm_compute. repeat split. Qed.

(* buildResumeInfo touches the filesystem only through LoadOrCreateSidecarWithFallback
   on the same two SidecarPath results *)
Lemma resumeinfo_calls :
  fs_calls sk_c07_resumeinfo = [] /\ count "SidecarPath" (all_calls sk_c07_resumeinfo) = 2 /\
  count "LoadOrCreateSidecarWithFallback" (all_calls sk_c07_resumeinfo) = 1.
Proof. vm_compute. repeat split. Qed.

(* sidecar.go = [sidecar_ops]: Remove of a mismatching sidecar at either path,
   CreateSidecar -> Flush -> MkdirAll(Dir path), WriteFile(path.tmp), Rename *)
Lemma sidecar_calls :
  all_calls sk_c07_loadorcreate = ["loadValid"; "loadValid"; "CreateSidecar"] /\
  fs_calls sk_c07_loadvalid = ["Remove"] /\
  all_calls sk_c07_create = ["Flush"] /\
  all_calls sk_c07_flush = ["Dir"; "MkdirAll"; "WriteFile"; "Rename"] /\
  all_calls sk_c07_sidecarpath = ["Trim"; "Join"; "Join"].
Proof. vm_compute. repeat split. Qed.

(* the app = [app_ops]: RemoveAll over resumeSidecarDirs; the offered root is only
   used after ValidateRootName *)
Lemma app_calls :
  all_calls sk_c07_clear = ["resumeSidecarDirs"; "RemoveAll"] /\
  all_calls sk_c07_resumedirs = ["add"; "TrimSpace"; "ValidateRootName"; "add"] /\
  all_calls sk_c07_resumedirs_add = ["SidecarPath"; "Dir"].
Proof. vm_compute. repeat split. Qed.

Lemma validate_manifest_calls :
  all_calls sk_c07_validate_manifest = ["ValidateRootName"; "validateRelPath"; "validateItemID"].
Proof. vm_compute. repeat split. Qed.

(* completeness of the enumeration with respect to package os: in the files the
   property is anchored in, these are ALL creating/modifying/deleting os calls.
   Modelled: RecvManifestMultiStream (3 MkdirAll, OpenFile, 2 + 2 Remove: the metadata paths, without and with resume), openFile (re-open
   of the same validated path), sidecar.go, clearResumeData; RunSnapshotReceiver's
   MkdirAll is the output directory itself.  Not modelled (legacy receivers, which
   share validateManifestPaths / validateRelPath / validateFilename):
   RecvManifestMultiStreamLegacy, RecvManifest, receiveFileChunksWindowed, RecvFile,
   LoadOrCreateSidecar. *)
Lemma os_call_sites :
  os_sites_multistream =
    [("RecvManifestMultiStream", "MkdirAll"); ("RecvManifestMultiStream", "MkdirAll");
     ("RecvManifestMultiStream", "MkdirAll"); ("RecvManifestMultiStream", "OpenFile");
     ("RecvManifestMultiStream", "Remove"); ("RecvManifestMultiStream", "Remove");
     ("RecvManifestMultiStream", "Remove"); ("RecvManifestMultiStream", "Remove");
     ("RecvManifestMultiStreamLegacy", "MkdirAll"); ("RecvManifestMultiStreamLegacy", "MkdirAll");
     ("RecvManifestMultiStreamLegacy", "MkdirAll"); ("RecvManifestMultiStreamLegacy", "MkdirAll");
     ("openFile", "OpenFile")] /\
  os_sites_sidecar =
    [("Flush", "MkdirAll"); ("Flush", "Rename"); ("Flush", "WriteFile");
     ("LoadOrCreateSidecar", "Remove"); ("LoadOrCreateSidecarWithFallback", "Remove")] /\
  os_sites_manifestproto =
    [("RecvManifest", "MkdirAll"); ("RecvManifest", "MkdirAll"); ("receiveFileChunksWindowed", "OpenFile")] /\
  os_sites_fileproto = [("RecvFile", "Create")] /\
  os_sites_controlproto = [] /\
  os_sites_snapshot_receiver = [("RunSnapshotReceiver", "MkdirAll"); ("clearResumeData", "RemoveAll")].
Proof. vm_compute. repeat split. Qed.

(* Invariants of the admission model (Model/Admit.v) over arbitrary event
   histories: any number of receivers, any max-receivers. *)
From Coq Require Import ZArith List Bool Arith Lia.
Import ListNotations.
From TF Require Import Model.Admit.
Open Scope Z_scope.

(* ---- association lists ---- *)
Lemma upsert_length_le {A} k (v : A) l : (length (upsert k v l) <= S (length l))%nat.
Proof. induction l as [|[k' v'] l IH]; cbn; [lia|]. destruct (Nat.eqb k k'); cbn; lia. Qed.

Lemma remove_key_length_le {A} k (l : list (nat * A)) : (length (remove_key k l) <= length l)%nat.
Proof. induction l as [|[k' v'] l IH]; cbn; [lia|]. destruct (Nat.eqb k k'); cbn; lia. Qed.

Lemma lookup_remove_key {A} k (l : list (nat * A)) : lookup k (remove_key k l) = None.
Proof.
  induction l as [|[k' v'] l IH]; cbn; [reflexivity|].
  destruct (Nat.eqb k k') eqn:E; [exact IH|]. cbn. rewrite E. exact IH.
Qed.

Lemma lookup_upsert_same {A} k (v : A) l : lookup k (upsert k v l) = Some v.
Proof.
  induction l as [|[k' v'] l IH]; cbn; [rewrite Nat.eqb_refl; reflexivity|].
  destruct (Nat.eqb k k') eqn:E; cbn; [rewrite Nat.eqb_refl; reflexivity|]. rewrite E. exact IH.
Qed.

Lemma lookup_upsert_other {A} k k' (v : A) l : k <> k' -> lookup k (upsert k' v l) = lookup k l.
Proof.
  intros N. induction l as [|[k2 v2] l IH]; cbn.
  - destruct (Nat.eqb k k') eqn:E; [apply Nat.eqb_eq in E; contradiction|reflexivity].
  - destruct (Nat.eqb k' k2) eqn:E2; cbn.
    + apply Nat.eqb_eq in E2; subst k2.
      destruct (Nat.eqb k k') eqn:E; [apply Nat.eqb_eq in E; contradiction|reflexivity].
    + destruct (Nat.eqb k k2); [reflexivity|exact IH].
Qed.

Lemma mem_In k l : mem k l = true <-> In k l.
Proof.
  unfold mem. rewrite existsb_exists. split.
  - intros (x & Hx & E). apply Nat.eqb_eq in E. subst. exact Hx.
  - intros H. exists k. split; [exact H|apply Nat.eqb_refl].
Qed.

(* ---- maybe_start: the projections it preserves / how it changes them ---- *)
Lemma maybe_start_const fuel : forall s c,
  let s' := maybe_start fuel s c in
  maxr s' = maxr s /\ ttl s' = ttl s /\ now s' = now s /\ cancelled s' = cancelled s.
Proof.
  induction fuel as [|f IH]; intros s c; cbn [maybe_start]; [repeat split|].
  destruct (maxr s <=? Z.of_nat (length (slots s))); [repeat split|].
  destruct (queue s) as [|p q]; [repeat split|].
  cbn [set_queue recvs].
  destruct (lookup p (recvs s)) as [[stt seen]|].
  - destruct (status_eqb stt Transferring).
    + specialize (IH (set_queue s q) c). cbn in IH. exact IH.
    + specialize (IH (launch (set_queue s q) p c) c). cbn in IH. exact IH.
  - specialize (IH (set_queue s q) c). cbn in IH. exact IH.
Qed.

(* A. the number of slots never exceeds max-receivers *)
Definition slots_bounded (s : st) : Prop := Z.of_nat (length (slots s)) <= Z.max 0 (maxr s).

Lemma maybe_start_slots fuel : forall s c, slots_bounded s -> slots_bounded (maybe_start fuel s c).
Proof.
  induction fuel as [|f IH]; intros s c B; cbn [maybe_start]; [exact B|].
  destruct (maxr s <=? Z.of_nat (length (slots s))) eqn:E; [exact B|].
  destruct (queue s) as [|p q]; [exact B|].
  cbn [set_queue recvs].
  destruct (lookup p (recvs s)) as [[stt seen]|].
  - destruct (status_eqb stt Transferring).
    + apply IH. exact B.
    + apply IH. unfold slots_bounded in *. cbn [launch set_queue slots maxr].
      match goal with |- context [upsert ?k ?v ?l] => pose proof (upsert_length_le k v l) end.
      apply Z.leb_gt in E. cbn [set_queue slots] in *. lia.
  - apply IH. exact B.
Qed.

Lemma sb_eq s s' : slots s' = slots s -> maxr s' = maxr s -> slots_bounded s -> slots_bounded s'.
Proof. unfold slots_bounded. intros -> ->. tauto. Qed.

Lemma sb_le s s' : (length (slots s') <= length (slots s))%nat -> maxr s' = maxr s -> slots_bounded s -> slots_bounded s'.
Proof. unfold slots_bounded. intros L ->. lia. Qed.

Lemma step_slots_bounded s e : slots_bounded s -> slots_bounded (step s e).
Proof.
  intros B. destruct e; cbn [step].
  - exact B.
  - destruct (lookup p (recvs s)) as [[[] ?]|]; try exact B;
      (apply (sb_eq s); [| |exact B]; cbn [set_recvs queue]; destruct (mem p (queue s)); reflexivity).
  - apply maybe_start_slots. exact B.
  - apply maybe_start_slots.
    apply (sb_le s); [| |exact B].
    + cbn [set_queue slots].
      assert (H1 : forall s1, slots s1 = slots s ->
              (length (slots (match lookup p (slots s1) with
                | Some c => set_slots (set_cancelled s1 (c :: cancelled s1)) (remove_key p (slots s1))
                | None => s1 end)) <= length (slots s))%nat).
      { intros s1 Hs. destruct (lookup p (slots s1)); cbn; rewrite Hs;
          [apply remove_key_length_le|lia]. }
      destruct (lookup p (recvs s)) as [[[] ?]|]; apply H1; reflexivity.
    + cbn [set_queue maxr].
      assert (H1 : forall s1, maxr s1 = maxr s ->
              maxr (match lookup p (slots s1) with
                | Some c => set_slots (set_cancelled s1 (c :: cancelled s1)) (remove_key p (slots s1))
                | None => s1 end) = maxr s).
      { intros s1 Hs. destruct (lookup p (slots s1)); cbn; exact Hs. }
      destruct (lookup p (recvs s)) as [[[] ?]|]; apply H1; reflexivity.
  - destruct (negb (mem tid (running s))); [exact B|].
    destruct (peer_of_tid s tid) as [p|]; [|exact B].
    apply maybe_start_slots.
    apply (sb_le s); [| |exact B]; cbn [set_running recvs]; destruct (lookup p (recvs s)); cbn; try reflexivity; apply remove_key_length_le.
  - exact B.
  - destruct (length (filter _ (recvs s)) =? length (recvs s))%nat; exact B.
Qed.

Lemma init_slots_bounded m t : slots_bounded (init m t).
Proof. unfold slots_bounded. cbn. lia. Qed.

Theorem slots_bound m t evs : slots_bounded (run (init m t) evs).
Proof.
  unfold run. generalize (init_slots_bounded m t). generalize (init m t).
  induction evs as [|e r IH]; intros s B; cbn [fold_left]; [exact B|].
  apply IH. apply step_slots_bounded. exact B.
Qed.

(* B. the queue never holds a receiver twice *)
Lemma NoDup_filter {A} (f : A -> bool) l : NoDup l -> NoDup (filter f l).
Proof.
  induction 1 as [|x l Hx Hl IH]; cbn; [constructor|].
  destruct (f x); [constructor; [intros Hin; apply filter_In in Hin; tauto|exact IH]|exact IH].
Qed.

Lemma maybe_start_queue_sub fuel : forall s c,
  exists k, queue (maybe_start fuel s c) = skipn k (queue s).
Proof.
  induction fuel as [|f IH]; intros s c; cbn [maybe_start]; [exists 0%nat; reflexivity|].
  destruct (maxr s <=? Z.of_nat (length (slots s))); [exists 0%nat; reflexivity|].
  destruct (queue s) as [|p q] eqn:Q; [exists 0%nat; rewrite Q; reflexivity|].
  cbn [set_queue recvs].
  destruct (lookup p (recvs s)) as [[stt seen]|].
  - destruct (status_eqb stt Transferring).
    + destruct (IH (set_queue s q) c) as (k & Hk). exists (S k). rewrite Hk. reflexivity.
    + destruct (IH (launch (set_queue s q) p c) c) as (k & Hk). exists (S k). rewrite Hk. reflexivity.
  - destruct (IH (set_queue s q) c) as (k & Hk). exists (S k). rewrite Hk. reflexivity.
Qed.

Lemma NoDup_skipn {A} k (l : list A) : NoDup l -> NoDup (skipn k l).
Proof.
  revert l. induction k as [|k IH]; intros l H; [exact H|].
  destruct l as [|x l]; [constructor|]. cbn. apply IH. inversion H; assumption.
Qed.

Lemma NoDup_snoc {A} (l : list A) x : NoDup l -> ~ In x l -> NoDup (l ++ [x]).
Proof.
  intros H N. induction H as [|y l Hy Hl IH]; cbn; [constructor; [tauto|constructor]|].
  constructor.
  - intros Hin. apply in_app_or in Hin. destruct Hin as [Hin|[->|[]]]; [tauto|]. apply N. left. reflexivity.
  - apply IH. intros Hin. apply N. right. exact Hin.
Qed.

Lemma step_queue_nodup s e : NoDup (queue s) -> NoDup (queue (step s e)).
Proof.
  intros B. destruct e; cbn [step].
  - exact B.
  - destruct (lookup p (recvs s)) as [[[] ?]|]; try exact B;
      cbn [set_recvs queue]; destruct (mem p (queue s)) eqn:M; cbn; try exact B;
      apply NoDup_snoc; try exact B; intros Hin; apply mem_In in Hin; congruence.
  - unfold start_all. destruct (maybe_start_queue_sub (S (length (queue s))) s CTX_MAIN) as (k & ->).
    apply NoDup_skipn. exact B.
  - unfold start_all.
    match goal with |- NoDup (queue (maybe_start ?f ?s3 ?c)) =>
      destruct (maybe_start_queue_sub f s3 c) as (k & ->) end.
    apply NoDup_skipn. cbn [set_queue queue].
    assert (Q : forall s1, queue s1 = queue s ->
       NoDup (filter (fun q => negb (Nat.eqb q p))
          (queue (match lookup p (slots s1) with
                  | Some c => set_slots (set_cancelled s1 (c :: cancelled s1)) (remove_key p (slots s1))
                  | None => s1 end)))).
    { intros s1 Hq. destruct (lookup p (slots s1)); cbn; rewrite Hq; apply NoDup_filter; exact B. }
    destruct (lookup p (recvs s)) as [[[] ?]|]; apply Q; reflexivity.
  - destruct (negb (mem tid (running s))); [exact B|].
    destruct (peer_of_tid s tid) as [p|]; [|exact B].
    unfold start_all.
    match goal with |- NoDup (queue (maybe_start ?f ?s3 ?c)) =>
      destruct (maybe_start_queue_sub f s3 c) as (k & ->) end.
    apply NoDup_skipn. cbn [set_running recvs]. destruct (lookup p (recvs s)); cbn; exact B.
  - exact B.
  - destruct (length (filter _ (recvs s)) =? length (recvs s))%nat; [exact B|].
    cbn. apply NoDup_filter. exact B.
Qed.

Theorem queue_nodup m t evs : NoDup (queue (run (init m t) evs)).
Proof.
  unfold run. assert (B : NoDup (queue (init m t))) by constructor.
  revert B. generalize (init m t).
  induction evs as [|e r IH]; intros s B; cbn [fold_left]; [exact B|].
  apply IH. apply step_queue_nodup. exact B.
Qed.

(* E. re-dispatch is work conserving: after maybeStartTransfers either every
      slot is taken or nobody is waiting *)
Lemma maybe_start_conserving fuel : forall s c, (length (queue s) < fuel)%nat ->
  let s' := maybe_start fuel s c in
  maxr s' <= Z.of_nat (length (slots s')) \/ queue s' = [].
Proof.
  induction fuel as [|f IH]; intros s c L; [lia|]. cbn [maybe_start].
  destruct (maxr s <=? Z.of_nat (length (slots s))) eqn:E; [left; apply Z.leb_le; exact E|].
  destruct (queue s) as [|p q] eqn:Q; [right; exact Q|].
  cbn [set_queue recvs]. cbn [length] in L.
  destruct (lookup p (recvs s)) as [[stt seen]|].
  - destruct (status_eqb stt Transferring); apply IH; cbn; lia.
  - apply IH; cbn; lia.
Qed.

Definition conserving (s : st) : Prop := maxr s <= Z.of_nat (length (slots s)) \/ queue s = [].

Theorem work_conserving s e :
  match e with
  | Kick | Leave _ => conserving (step s e)
  | End tid _ => mem tid (running s) = true -> peer_of_tid s tid <> None -> conserving (step s e)
  | _ => True
  end.
Proof.
  destruct e; cbn [step]; try exact I.
  - apply maybe_start_conserving. lia.
  - apply maybe_start_conserving. lia.
  - intros M P. rewrite M. cbn [negb]. destruct (peer_of_tid s tid) as [p|]; [|congruence].
    apply maybe_start_conserving. lia.
Qed.

(* F. a receiver that leaves is neither queued nor holds a slot afterwards, and
      the context of the slot it held is cancelled *)
Lemma maybe_start_not_queued fuel : forall s c p,
  ~ In p (queue s) -> lookup p (slots s) = None ->
  lookup p (slots (maybe_start fuel s c)) = None /\ ~ In p (queue (maybe_start fuel s c)).
Proof.
  induction fuel as [|f IH]; intros s c p NQ NS; cbn [maybe_start]; [tauto|].
  destruct (maxr s <=? Z.of_nat (length (slots s))); [tauto|].
  destruct (queue s) as [|x q] eqn:Q; [rewrite Q; tauto|].
  assert (x <> p /\ ~ In p q) as (Nx & Nq) by (cbn in NQ; tauto).
  cbn [set_queue recvs].
  destruct (lookup x (recvs s)) as [[stt seen]|].
  - destruct (status_eqb stt Transferring).
    + apply IH; cbn; assumption.
    + apply IH; cbn; [assumption|]. rewrite lookup_upsert_other by congruence. exact NS.
  - apply IH; cbn; assumption.
Qed.

Lemma not_in_filter_neq p l : ~ In p (filter (fun q => negb (Nat.eqb q p)) l).
Proof. intros H. apply filter_In in H. destruct H as (_ & H). rewrite Nat.eqb_refl in H. discriminate. Qed.

Theorem leave_clears s p :
  let s' := step s (Leave p) in
  ~ In p (queue s') /\ lookup p (slots s') = None /\
  (forall c, lookup p (slots s) = Some c -> In c (cancelled s')).
Proof.
  cbn [step]. unfold start_all.
  set (s1 := match lookup p (recvs s) with
             | Some (Done, _) | None => s
             | Some _ => set_recvs s (upsert p (Failed, now s) (recvs s)) end).
  assert (S1 : slots s1 = slots s /\ cancelled s1 = cancelled s)
    by (unfold s1; destruct (lookup p (recvs s)) as [[[] ?]|]; split; reflexivity).
  destruct S1 as (S1 & C1).
  set (s2 := match lookup p (slots s1) with
             | Some c => set_slots (set_cancelled s1 (c :: cancelled s1)) (remove_key p (slots s1))
             | None => s1 end).
  assert (L2 : lookup p (slots s2) = None).
  { unfold s2. destruct (lookup p (slots s1)) eqn:E; [cbn; apply lookup_remove_key|exact E]. }
  set (s3 := set_queue s2 (filter (fun q => negb (Nat.eqb q p)) (queue s2))).
  destruct (maybe_start_not_queued (S (length (queue s3))) s3 CTX_BG p) as (A & B).
  { cbn. apply not_in_filter_neq. }
  { cbn. exact L2. }
  split; [exact B|]. split; [exact A|].
  intros c Hc.
  destruct (maybe_start_const (S (length (queue s3))) s3 CTX_BG) as (_ & _ & _ & CC). cbv zeta in CC.
  rewrite CC. cbn. unfold s2. rewrite S1, Hc. cbn. left. reflexivity.
Qed.

(* ------------------------------------------------------------------------ *)
(* Under the restriction R - no join/accept is announced for a receiver id that
   still has a running transfer (except an accept while TRANSFERRING, which the
   code ignores) - the bookkeeping is exact: a queued receiver holds no slot,
   and every live (not cancelled) running transfer holds its own slot, so the
   number of live transfers is bounded by the number of slots, hence by max. *)

Definition has_running (s : st) (p : nat) : Prop :=
  exists tid, In tid (running s) /\ peer_of_tid s tid = Some p.

Definition ok_ev (s : st) (e : ev) : Prop :=
  match e with
  | Join p => ~ has_running s p
  | AcceptEnq p => ~ has_running s p \/ exists t, lookup p (recvs s) = Some (Transferring, t)
  | _ => True
  end.

Record Inv2 (s : st) : Prop := {
  v_qnodup : NoDup (queue s);
  v_rnodup : NoDup (running s);
  v_slot : forall p c, lookup p (slots s) = Some c ->
             exists tid, c = S tid /\ In tid (running s) /\ peer_of_tid s tid = Some p /\ ~ In c (cancelled s);
  v_run : forall tid, In tid (running s) ->
             (1 <= tid <= length (transfers s))%nat /\
             exists p, peer_of_tid s tid = Some p /\ (lookup p (slots s) = Some (S tid) \/ In (S tid) (cancelled s));
  v_one : forall t1 t2 p, In t1 (running s) -> In t2 (running s) ->
             peer_of_tid s t1 = Some p -> peer_of_tid s t2 = Some p -> t1 = t2;
  v_queue : forall p, In p (queue s) -> ~ has_running s p;
  v_canc : forall c, In c (cancelled s) -> (2 <= c <= S (length (transfers s)))%nat;
  v_par : Forall (fun c => (c <= 1)%nat) (parents s)
}.

Lemma inv2_init m t : Inv2 (init m t).
Proof.
  constructor; cbn; try constructor; try (intros; contradiction); try discriminate.
Qed.

Lemma lookup_remove_key_other {A} k k' (l : list (nat * A)) : k <> k' -> lookup k (remove_key k' l) = lookup k l.
Proof.
  intros N. induction l as [|[k2 v2] l IH]; cbn; [reflexivity|].
  destruct (Nat.eqb k' k2) eqn:E2.
  - apply Nat.eqb_eq in E2; subst k2.
    destruct (Nat.eqb k k') eqn:E; [apply Nat.eqb_eq in E; contradiction|exact IH].
  - cbn. destruct (Nat.eqb k k2); [reflexivity|exact IH].
Qed.

Lemma lookup_In {A} k (v : A) l : lookup k l = Some v -> In (k, v) l.
Proof.
  induction l as [|[k' v'] l IH]; cbn; [discriminate|].
  destruct (Nat.eqb k k') eqn:E.
  - intros H. injection H as ->. apply Nat.eqb_eq in E. subst. left. reflexivity.
  - intros H. right. apply IH. exact H.
Qed.

Lemma peer_of_tid_launch s p c tid : (1 <= tid <= length (transfers s))%nat ->
  peer_of_tid (launch s p c) tid = peer_of_tid s tid.
Proof.
  intros H. unfold peer_of_tid. cbn [launch transfers].
  rewrite nth_error_app1 by lia. reflexivity.
Qed.

Lemma peer_of_tid_new s p c : peer_of_tid (launch s p c) (S (length (transfers s))) = Some p.
Proof.
  unfold peer_of_tid. cbn [launch transfers].
  replace (S (length (transfers s)) - 1)%nat with (length (transfers s)) by lia.
  rewrite nth_error_app2 by lia. rewrite Nat.sub_diag. reflexivity.
Qed.

Lemma peer_of_tid_bound s tid p : peer_of_tid s tid = Some p -> (tid - 1 < length (transfers s))%nat.
Proof.
  unfold peer_of_tid. destruct (nth_error (transfers s) (tid - 1)) eqn:E; [|discriminate].
  intros _. apply nth_error_Some. congruence.
Qed.

(* popping the queue head without launching *)
Lemma inv2_pop s p q : Inv2 s -> queue s = p :: q -> Inv2 (set_queue s q).
Proof.
  intros I Q. destruct I. constructor; cbn; try assumption.
  - rewrite Q in v_qnodup0. inversion v_qnodup0; assumption.
  - intros x Hx (tid & Ht & Hp). apply (v_queue0 x); [rewrite Q; right; exact Hx|].
    exists tid. split; assumption.
Qed.

(* popping the queue head and launching it under a root context *)
Lemma inv2_launch s p q c : Inv2 s -> queue s = p :: q -> (c <= 1)%nat ->
  Inv2 (launch (set_queue s q) p c).
Proof.
  intros I Q Hc.
  assert (NR : ~ has_running s p) by (destruct I; apply v_queue0; rewrite Q; left; reflexivity).
  assert (NS : lookup p (slots s) = None).
  { destruct (lookup p (slots s)) eqn:E; [|reflexivity]. exfalso.
    destruct I. destruct (v_slot0 p n E) as (tid & _ & Hr & Hp & _). apply NR. exists tid. split; assumption. }
  assert (NQ : ~ In p q /\ NoDup q) by (destruct I; rewrite Q in v_qnodup0; inversion v_qnodup0; split; assumption).
  destruct NQ as (NQ & NDq).
  assert (RB : forall tid, In tid (running s) -> (1 <= tid <= length (transfers s))%nat)
    by (intros tid H; destruct I; apply v_run0; exact H).
  set (n := S (length (transfers s))).
  set (s' := launch (set_queue s q) p c).
  assert (Q' : queue s' = q) by reflexivity.
  assert (R' : running s' = running s ++ [n]) by reflexivity.
  assert (S' : slots s' = upsert p (S n) (slots s)) by reflexivity.
  assert (C' : cancelled s' = cancelled s) by reflexivity.
  assert (T' : length (transfers s') = S (length (transfers s))) by (cbn; rewrite app_length; cbn; lia).
  assert (P' : parents s' = parents s ++ [c]) by reflexivity.
  assert (PN : peer_of_tid s' n = Some p) by exact (peer_of_tid_new (set_queue s q) p c).
  assert (PL : forall tid, (1 <= tid <= length (transfers s))%nat -> peer_of_tid s' tid = peer_of_tid s tid)
    by (intros tid Ht; exact (peer_of_tid_launch (set_queue s q) p c tid Ht)).
  clearbody s'. destruct I.
  constructor; rewrite ?Q', ?R', ?S', ?C', ?T', ?P'.
  - exact NDq.
  - apply NoDup_snoc; [exact v_rnodup0|]. intros H. apply RB in H. unfold n in H. lia.
  - intros x cx Hx. destruct (Nat.eq_dec x p) as [->|Nx].
    + rewrite lookup_upsert_same in Hx. injection Hx as <-.
      exists n. split; [reflexivity|]. split; [apply in_or_app; right; left; reflexivity|].
      split; [exact PN|].
      intros Hin. apply v_canc0 in Hin. unfold n in Hin. lia.
    + rewrite lookup_upsert_other in Hx by exact Nx.
      destruct (v_slot0 x cx Hx) as (tid & E & Hr & Hp & Hn).
      exists tid. split; [exact E|]. split; [apply in_or_app; left; exact Hr|].
      split; [|exact Hn]. rewrite PL by (apply RB; exact Hr). exact Hp.
  - intros tid Ht. apply in_app_or in Ht. destruct Ht as [Ht|[<-|[]]].
    + destruct (v_run0 tid Ht) as (B & x & Hp & Hs). split; [lia|].
      exists x. split; [rewrite PL by exact B; exact Hp|].
      destruct Hs as [Hs|Hs]; [left|right; exact Hs].
      rewrite lookup_upsert_other; [exact Hs|].
      intros ->. apply NR. exists tid. split; assumption.
    + split; [unfold n; lia|].
      exists p. split; [exact PN|]. left. apply lookup_upsert_same.
  - intros t1 t2 x H1 H2 P1 P2.
    apply in_app_or in H1. apply in_app_or in H2.
    destruct H1 as [H1|[E1|[]]]; destruct H2 as [H2|[E2|[]]]; subst.
    + rewrite PL in P1, P2 by (apply RB; assumption). eapply v_one0; eassumption.
    + exfalso. rewrite PN in P2. injection P2 as <-.
      rewrite PL in P1 by (apply RB; assumption). apply NR. exists t1. split; assumption.
    + exfalso. rewrite PN in P1. injection P1 as <-.
      rewrite PL in P2 by (apply RB; assumption). apply NR. exists t2. split; assumption.
    + reflexivity.
  - intros x Hx (tid & Ht & Hp). rewrite R' in Ht. apply in_app_or in Ht. destruct Ht as [Ht|[E|[]]].
    + rewrite PL in Hp by (apply RB; exact Ht).
      apply (v_queue0 x); [rewrite Q; right; exact Hx|]. exists tid. split; assumption.
    + subst tid. rewrite PN in Hp. injection Hp as <-. contradiction.
  - intros x Hx. apply v_canc0 in Hx. lia.
  - apply Forall_app. split; [exact v_par0|]. constructor; [exact Hc|constructor].
Qed.

Lemma maybe_start_inv2 fuel : forall s c, (c <= 1)%nat -> Inv2 s -> Inv2 (maybe_start fuel s c).
Proof.
  induction fuel as [|f IH]; intros s c Hc I; cbn [maybe_start]; [exact I|].
  destruct (maxr s <=? Z.of_nat (length (slots s))); [exact I|].
  destruct (queue s) as [|p q] eqn:Q; [exact I|].
  cbn [set_queue recvs].
  destruct (lookup p (recvs s)) as [[stt seen]|].
  - destruct (status_eqb stt Transferring).
    + apply IH; [exact Hc|]. apply (inv2_pop s p q I Q).
    + apply IH; [exact Hc|]. apply (inv2_launch s p q c I Q Hc).
  - apply IH; [exact Hc|]. apply (inv2_pop s p q I Q).
Qed.

(* states that differ only in the receiver table / clock *)
Lemma inv2_recvs s v : Inv2 s -> Inv2 (set_recvs s v).
Proof. intros I. destruct I. constructor; assumption. Qed.

Lemma has_running_recvs s v p : has_running (set_recvs s v) p <-> has_running s p.
Proof. unfold has_running, peer_of_tid. cbn. tauto. Qed.

Lemma inv2_queue_filter s f : Inv2 s -> Inv2 (set_queue s (filter f (queue s))).
Proof.
  intros I. destruct I. constructor; cbn; try assumption.
  - apply NoDup_filter. assumption.
  - intros p Hp. apply filter_In in Hp. destruct Hp as (Hp & _). apply v_queue0 in Hp. exact Hp.
Qed.

Lemma inv2_now s v : Inv2 s -> Inv2 (set_now s v).
Proof. intros I. destruct I. constructor; assumption. Qed.

Lemma inv2_leave_slot s p c : Inv2 s -> lookup p (slots s) = Some c ->
  Inv2 (set_slots (set_cancelled s (c :: cancelled s)) (remove_key p (slots s))).
Proof.
  intros I L. pose proof I as I0. destruct I.
  destruct (v_slot0 p c L) as (tp & Ec & Rp & Pp & Nc).
  constructor; cbn [set_slots set_cancelled queue running slots cancelled transfers parents]; try assumption.
  - intros x cx Hx. destruct (Nat.eq_dec x p) as [->|Nx]; [rewrite lookup_remove_key in Hx; discriminate|].
    rewrite lookup_remove_key_other in Hx by exact Nx.
    destruct (v_slot0 x cx Hx) as (tid & E & Hr & Hp & Hn).
    exists tid. split; [exact E|]. split; [exact Hr|]. split; [exact Hp|].
    intros [Hin|Hin]; [|contradiction]. subst c cx. injection Hin as Et. subst tid. congruence.
  - intros tid Ht. destruct (v_run0 tid Ht) as (B & x & Hp & Hs). split; [exact B|].
    exists x. split; [exact Hp|].
    destruct (Nat.eq_dec x p) as [->|Nx].
    + right. destruct Hs as [Hs|Hs]; [left; congruence|right; exact Hs].
    + destruct Hs as [Hs|Hs]; [left; rewrite lookup_remove_key_other by exact Nx; exact Hs|right; right; exact Hs].
  - intros x [<-|Hx]; [|apply v_canc0; exact Hx].
    destruct (v_run0 tp Rp) as (B & _). subst c. lia.
Qed.

Lemma inv2_end s tid p : Inv2 s -> In tid (running s) -> peer_of_tid s tid = Some p ->
  forall v, Inv2 (set_slots (set_recvs (set_running s (filter (fun t => negb (Nat.eqb t tid)) (running s))) v)
                            (remove_key p (slots s))).
Proof.
  intros I Ht Pp v. destruct I.
  assert (FI : forall t, In t (filter (fun t => negb (Nat.eqb t tid)) (running s)) <-> In t (running s) /\ t <> tid).
  { intros t. rewrite filter_In. rewrite negb_true_iff, Nat.eqb_neq. tauto. }
  constructor; cbn [set_slots set_recvs set_running queue running slots cancelled transfers parents]; try assumption.
  - apply NoDup_filter. assumption.
  - intros x cx Hx. destruct (Nat.eq_dec x p) as [->|Nx]; [rewrite lookup_remove_key in Hx; discriminate|].
    rewrite lookup_remove_key_other in Hx by exact Nx.
    destruct (v_slot0 x cx Hx) as (t & E & Hr & Hp & Hn).
    exists t. split; [exact E|]. split; [|split; assumption].
    apply FI. split; [exact Hr|]. intros ->. congruence.
  - intros t Hin. apply FI in Hin. destruct Hin as (Hr & Nt).
    destruct (v_run0 t Hr) as (B & x & Hp & Hs). split; [exact B|].
    exists x. split; [exact Hp|].
    destruct Hs as [Hs|Hs]; [left|right; exact Hs].
    rewrite lookup_remove_key_other; [exact Hs|].
    intros ->. apply Nt. eapply v_one0; eassumption.
  - intros t1 t2 x H1 H2. apply FI in H1. apply FI in H2. apply v_one0; tauto.
  - intros x Hx (t & Hin & Hp). apply FI in Hin. apply (v_queue0 x Hx). exists t. tauto.
Qed.

Lemma inv2_step s e : Inv2 s -> ok_ev s e -> Inv2 (step s e).
Proof.
  intros I W. destruct e; cbn [step].
  - apply inv2_recvs. exact I.
  - cbn in W.
    assert (G : forall stt, stt <> Transferring ->
              (lookup p (recvs s) = None \/ exists t, lookup p (recvs s) = Some (stt, t)) ->
              Inv2 (let s1 := set_recvs s (upsert p (Queued, now s) (recvs s)) in
                    if mem p (queue s1) then s1 else set_queue s1 (queue s1 ++ [p]))).
    { intros stt Hn Hl. cbv zeta. cbn [set_recvs queue].
      destruct (mem p (queue s)) eqn:M; [apply inv2_recvs; exact I|].
      assert (NR : ~ has_running s p).
      { destruct W as [W|(t & W)]; [exact W|]. destruct Hl as [Hl|(t' & Hl)]; congruence. }
      destruct I. constructor; cbn; try assumption.
      - apply NoDup_snoc; [assumption|]. intros Hin. apply mem_In in Hin. congruence.
      - intros x Hx. apply in_app_or in Hx. destruct Hx as [Hx|[<-|[]]].
        + apply v_queue0 in Hx. exact Hx.
        + exact NR. }
    destruct (lookup p (recvs s)) as [[stt t]|] eqn:L.
    + destruct stt; try (apply (G _ ltac:(discriminate)); right; eauto; fail).
      * apply (G Joined ltac:(discriminate)). right. eauto.
      * apply (G Queued ltac:(discriminate)). right. eauto.
      * apply inv2_recvs. exact I.
      * apply (G Done ltac:(discriminate)). right. eauto.
      * apply (G Failed ltac:(discriminate)). right. eauto.
    + apply (G Joined ltac:(discriminate)). left. reflexivity.
  - apply maybe_start_inv2; [unfold CTX_MAIN; lia|exact I].
  - apply maybe_start_inv2; [unfold CTX_BG; lia|].
    set (s1 := match lookup p (recvs s) with
               | Some (Done, _) | None => s
               | Some _ => set_recvs s (upsert p (Failed, now s) (recvs s)) end).
    assert (I1 : Inv2 s1) by (unfold s1; destruct (lookup p (recvs s)) as [[[] ?]|]; try exact I; apply inv2_recvs; exact I).
    set (s2 := match lookup p (slots s1) with
               | Some c => set_slots (set_cancelled s1 (c :: cancelled s1)) (remove_key p (slots s1))
               | None => s1 end).
    assert (I2 : Inv2 s2) by (unfold s2; destruct (lookup p (slots s1)) eqn:E; [apply inv2_leave_slot; assumption|exact I1]).
    apply inv2_queue_filter. exact I2.
  - destruct (mem tid (running s)) eqn:M; cbn [negb]; [|exact I].
    destruct (peer_of_tid s tid) as [p|] eqn:P; [|exact I].
    apply mem_In in M.
    apply maybe_start_inv2; [unfold CTX_BG; lia|].
    cbn [set_running recvs].
    destruct (lookup p (recvs s)).
    + cbn [set_recvs set_running slots now]. apply (inv2_end s tid p I M P).
    + pose proof (inv2_end s tid p I M P (recvs s)) as H. exact H.
  - apply inv2_now. exact I.
  - destruct (length (filter _ (recvs s)) =? length (recvs s))%nat; [exact I|].
    match goal with |- Inv2 (set_queue ?s1 (filter ?f (queue ?s1))) => apply (inv2_queue_filter s1 f) end.
    apply inv2_recvs. exact I.
Qed.

Fixpoint ok_run (s : st) (evs : list ev) : Prop :=
  match evs with
  | [] => True
  | e :: r => ok_ev s e /\ ok_run (step s e) r
  end.

Theorem inv2_reachable m t evs : ok_run (init m t) evs -> Inv2 (run (init m t) evs).
Proof.
  unfold run. generalize (inv2_init m t). generalize (init m t).
  induction evs as [|e r IH]; intros s I W; cbn [fold_left]; [exact I|].
  destruct W as (We & Wr). apply IH; [apply inv2_step; assumption|exact Wr].
Qed.

(* exclusivity (partial: under R): nobody is queued and active at once *)
Theorem exclusive_partial s p : Inv2 s -> In p (queue s) -> lookup p (slots s) = None.
Proof.
  intros I Hq. destruct (lookup p (slots s)) eqn:E; [|reflexivity]. exfalso.
  destruct I. destruct (v_slot0 p n E) as (tid & _ & Hr & Hp & _).
  apply (v_queue0 p Hq). exists tid. split; assumption.
Qed.

(* contexts: roots are never cancelled, so a context is dead iff it is cancelled *)
Lemma ctx_dead_cancelled s c : Inv2 s -> (2 <= c)%nat -> ctx_dead s c = mem c (cancelled s).
Proof.
  intros I Hc. unfold ctx_dead. cbn [ctx_dead_fuel].
  destruct (mem c (cancelled s)) eqn:M; [reflexivity|].
  replace (c <=? 1)%nat with false by (symmetry; apply Nat.leb_gt; lia).
  destruct I.
  assert (P : (parent_of s c <= 1)%nat).
  { unfold parent_of. destruct (nth_in_or_default (c - 2) (parents s) CTX_MAIN) as [H|H].
    - rewrite Forall_forall in v_par0. apply v_par0. exact H.
    - rewrite H. unfold CTX_MAIN. lia. }
  destruct (length (parents s)); cbn [ctx_dead_fuel].
  - destruct (mem (parent_of s c) (cancelled s)) eqn:M2.
    + apply mem_In in M2. apply v_canc0 in M2. lia.
    + replace (parent_of s c <=? 1)%nat with true by (symmetry; apply Nat.leb_le; exact P). reflexivity.
  - destruct (mem (parent_of s c) (cancelled s)) eqn:M2.
    + apply mem_In in M2. apply v_canc0 in M2. lia.
    + replace (parent_of s c <=? 1)%nat with true by (symmetry; apply Nat.leb_le; exact P). reflexivity.
Qed.

(* live = running and not cancelled *)
Definition live (s : st) : list nat := filter (fun tid => negb (ctx_dead s (ctx_of_tid tid))) (running s).

Lemma NoDup_map_S (l : list nat) : NoDup l -> NoDup (map S l).
Proof.
  induction 1 as [|x l Hx Hl IH]; cbn; constructor; [|exact IH].
  intros Hin. apply in_map_iff in Hin. destruct Hin as (y & E & Hy). injection E as ->. contradiction.
Qed.

Lemma NoDup_incl_length_nat (l l' : list nat) : NoDup l -> incl l l' -> (length l <= length l')%nat.
Proof. apply NoDup_incl_length. Qed.

Theorem live_bound_partial s : Inv2 s -> slots_bounded s ->
  Z.of_nat (length (live s)) <= Z.max 0 (maxr s).
Proof.
  intros I B. unfold slots_bounded in B.
  assert (L : (length (live s) <= length (slots s))%nat).
  { rewrite <- (map_length S (live s)). rewrite <- (map_length snd (slots s)).
    apply NoDup_incl_length.
    - apply NoDup_map_S. apply NoDup_filter. destruct I; assumption.
    - intros c Hc. apply in_map_iff in Hc. destruct Hc as (tid & <- & Hl).
      unfold live in Hl. apply filter_In in Hl. destruct Hl as (Hr & Hd).
      unfold ctx_of_tid in Hd. rewrite (ctx_dead_cancelled s (S tid) I) in Hd.
      2:{ destruct I. apply v_run0 in Hr. lia. }
      apply negb_true_iff in Hd.
      destruct I. destruct (v_run0 tid Hr) as (_ & p & _ & [Hs|Hs]).
      + apply lookup_In in Hs. apply in_map_iff. exists (p, S tid). split; [reflexivity|exact Hs].
      + apply mem_In in Hs. congruence. }
  lia.
Qed.

(* C. no transfer is ever launched under an already-cancelled context
      (the re-dispatch after a transfer ends uses a detached context) *)
Definition no_dead_launch (s : st) : Prop := Forall (fun t => snd t = false) (transfers s).

Lemma root_not_dead s c : (forall x, In x (cancelled s) -> (2 <= x)%nat) -> (c <= 1)%nat -> ctx_dead s c = false.
Proof.
  intros H Hc. unfold ctx_dead. cbn [ctx_dead_fuel].
  destruct (mem c (cancelled s)) eqn:M; [apply mem_In in M; apply H in M; lia|].
  replace (c <=? 1)%nat with true by (symmetry; apply Nat.leb_le; exact Hc). reflexivity.
Qed.

Lemma in_upsert {A} k (v : A) k' v' l : In (k, v) (upsert k' v' l) -> (k, v) = (k', v') \/ In (k, v) l.
Proof.
  induction l as [|[k2 v2] l IH]; cbn; [intros [H|[]]; left; congruence|].
  destruct (Nat.eqb k' k2); cbn; intros [H|H]; try (left; congruence); try (right; right; exact H).
  - right. left. exact H.
  - destruct (IH H) as [E|E]; [left; exact E|right; right; exact E].
Qed.

Lemma in_remove_key {A} k (v : A) k' l : In (k, v) (remove_key k' l) -> In (k, v) l.
Proof.
  induction l as [|[k2 v2] l IH]; cbn; [tauto|].
  destruct (Nat.eqb k' k2); cbn; [intros H; right; apply IH; exact H|].
  intros [H|H]; [left; exact H|right; apply IH; exact H].
Qed.

Record ND (s : st) : Prop := {
  n_canc : forall x, In x (cancelled s) -> (2 <= x)%nat;
  n_slot : forall p c, In (p, c) (slots s) -> (2 <= c)%nat;
  n_launch : no_dead_launch s
}.

Lemma nd_maybe_start fuel : forall s c, (c <= 1)%nat -> ND s -> ND (maybe_start fuel s c).
Proof.
  induction fuel as [|f IH]; intros s c Hc N; cbn [maybe_start]; [exact N|].
  destruct (maxr s <=? Z.of_nat (length (slots s))); [exact N|].
  destruct (queue s) as [|p q] eqn:Q; [exact N|].
  cbn [set_queue recvs].
  assert (N1 : ND (set_queue s q)) by (destruct N; constructor; assumption).
  destruct (lookup p (recvs s)) as [[stt seen]|]; [|apply IH; assumption].
  destruct (status_eqb stt Transferring); [apply IH; assumption|].
  apply IH; [exact Hc|]. destruct N. constructor; cbn [launch set_queue cancelled slots transfers].
  - exact n_canc0.
  - intros x cx Hx. apply in_upsert in Hx. destruct Hx as [E|Hx]; [injection E as -> ->; unfold ctx_of_tid; lia|eauto].
  - unfold no_dead_launch in *. cbn [launch transfers]. apply Forall_app. split; [exact n_launch0|].
    constructor; [|constructor]. cbn [snd]. apply root_not_dead; [exact n_canc0|exact Hc].
Qed.

Lemma nd_step s e : ND s -> ND (step s e).
Proof.
  intros N. destruct e; cbn [step].
  - destruct N; constructor; assumption.
  - destruct (lookup p (recvs s)) as [[[] ?]|]; cbn [set_recvs queue];
      try (destruct (mem p (queue s))); destruct N; constructor; assumption.
  - apply nd_maybe_start; [unfold CTX_MAIN; lia|exact N].
  - apply nd_maybe_start; [unfold CTX_BG; lia|].
    set (s1 := match lookup p (recvs s) with
               | Some (Done, _) | None => s
               | Some _ => set_recvs s (upsert p (Failed, now s) (recvs s)) end).
    assert (N1 : ND s1) by (unfold s1; destruct (lookup p (recvs s)) as [[[] ?]|]; destruct N; constructor; assumption).
    assert (N2 : ND (match lookup p (slots s1) with
               | Some c => set_slots (set_cancelled s1 (c :: cancelled s1)) (remove_key p (slots s1))
               | None => s1 end)).
    { destruct (lookup p (slots s1)) eqn:E; [|exact N1]. destruct N1. constructor; cbn.
      - intros x [<-|Hx]; [apply (n_slot0 p); apply lookup_In; exact E|apply n_canc0; exact Hx].
      - intros x cx Hx. apply in_remove_key in Hx. eauto.
      - exact n_launch0. }
    destruct N2; constructor; assumption.
  - destruct (negb (mem tid (running s))); [exact N|].
    destruct (peer_of_tid s tid) as [p|]; [|exact N].
    apply nd_maybe_start; [unfold CTX_BG; lia|].
    cbn [set_running recvs]. destruct N.
    destruct (lookup p (recvs s)); constructor; cbn; try assumption;
      intros x cx Hx; apply in_remove_key in Hx; eauto.
  - destruct N; constructor; assumption.
  - destruct (length (filter _ (recvs s)) =? length (recvs s))%nat; [exact N|].
    destruct N; constructor; assumption.
Qed.

Theorem no_dead_launch_reachable m t evs : no_dead_launch (run (init m t) evs).
Proof.
  assert (N : ND (init m t)) by (constructor; cbn; try constructor; intros; contradiction).
  unfold run. revert N. generalize (init m t).
  induction evs as [|e r IH]; intros s N; cbn [fold_left]; [destruct N; assumption|].
  apply IH. apply nd_step. exact N.
Qed.

(* FIFO: within one re-dispatch, receivers are started in queue order; across
   events the queue only loses elements or gains one at the tail *)
Inductive subseq {A} : list A -> list A -> Prop :=
| sub_nil : forall l, subseq [] l
| sub_take : forall x a l, subseq a l -> subseq (x :: a) (x :: l)
| sub_skip : forall x a l, subseq a l -> subseq a (x :: l).

Lemma subseq_refl {A} (l : list A) : subseq l l.
Proof. induction l; constructor; assumption. Qed.

Lemma subseq_skipn {A} k (l : list A) : subseq (skipn k l) l.
Proof.
  revert l. induction k as [|k IH]; intros l; [apply subseq_refl|].
  destruct l; [constructor|]. cbn. apply sub_skip. apply IH.
Qed.

Lemma subseq_filter {A} (f : A -> bool) (l : list A) : subseq (filter f l) l.
Proof. induction l as [|x l IH]; cbn; [constructor|]. destruct (f x); constructor; exact IH. Qed.

Lemma maybe_start_fifo fuel : forall s c,
  exists started popped,
    map fst (transfers (maybe_start fuel s c)) = map fst (transfers s) ++ started /\
    queue s = popped ++ queue (maybe_start fuel s c) /\ subseq started popped.
Proof.
  induction fuel as [|f IH]; intros s c; cbn [maybe_start].
  { exists [], []. rewrite app_nil_r. repeat split. constructor. }
  destruct (maxr s <=? Z.of_nat (length (slots s))).
  { exists [], []. rewrite app_nil_r. repeat split. constructor. }
  destruct (queue s) as [|p q] eqn:Q.
  { exists [], []. rewrite app_nil_r, Q. repeat split. constructor. }
  cbn [set_queue recvs].
  assert (SK : exists started popped,
             map fst (transfers (maybe_start f (set_queue s q) c)) = map fst (transfers s) ++ started /\
             p :: q = popped ++ queue (maybe_start f (set_queue s q) c) /\ subseq started popped).
  { destruct (IH (set_queue s q) c) as (st & po & A & B & C). cbn in A, B.
    exists st, (p :: po). split; [exact A|]. split; [cbn; rewrite <- B; reflexivity|]. apply sub_skip. exact C. }
  destruct (lookup p (recvs s)) as [[stt seen]|]; [|exact SK].
  destruct (status_eqb stt Transferring); [exact SK|].
  destruct (IH (launch (set_queue s q) p c) c) as (st & po & A & B & C).
  cbn [launch set_queue transfers queue] in A, B.
  exists (p :: st), (p :: po). split.
  - rewrite A. rewrite map_app. cbn. rewrite <- app_assoc. reflexivity.
  - split; [cbn; rewrite <- B; reflexivity|]. apply sub_take. exact C.
Qed.

Theorem queue_order s e :
  exists l, subseq l (queue s) /\
    (queue (step s e) = l \/ exists p, e = AcceptEnq p /\ queue (step s e) = l ++ [p]).
Proof.
  destruct e; cbn [step].
  - exists (queue s). split; [apply subseq_refl|left; reflexivity].
  - exists (queue s). split; [apply subseq_refl|].
    destruct (lookup p (recvs s)) as [[[] ?]|]; cbn [set_recvs queue];
      try (left; reflexivity);
      destruct (mem p (queue s)); cbn; [left; reflexivity|right; eauto| left; reflexivity|right; eauto|
                                          left; reflexivity|right; eauto|left; reflexivity|right; eauto|
                                          left; reflexivity|right; eauto].
  - unfold start_all. destruct (maybe_start_queue_sub (S (length (queue s))) s CTX_MAIN) as (k & Hk).
    exists (skipn k (queue s)). split; [apply subseq_skipn|left; exact Hk].
  - unfold start_all.
    match goal with |- context [maybe_start ?f ?s3 ?c] =>
      destruct (maybe_start_queue_sub f s3 c) as (k & Hk); exists (queue (maybe_start f s3 c)) end.
    split; [|left; reflexivity]. rewrite Hk. cbn [set_queue queue].
    assert (Q : forall s1, queue s1 = queue s ->
       subseq (skipn k (filter (fun q => negb (Nat.eqb q p))
          (queue (match lookup p (slots s1) with
                  | Some c => set_slots (set_cancelled s1 (c :: cancelled s1)) (remove_key p (slots s1))
                  | None => s1 end)))) (queue s)).
    { intros s1 Hq. destruct (lookup p (slots s1)); cbn; rewrite Hq.
      - clear. generalize (queue s). intros l. revert k. induction l as [|x l IH]; intros k.
        + destruct k; constructor.
        + cbn. destruct (negb (Nat.eqb x p)).
          * destruct k; cbn; [apply sub_take; apply subseq_filter|apply sub_skip; apply IH].
          * apply sub_skip. apply IH.
      - clear. generalize (queue s). intros l. revert k. induction l as [|x l IH]; intros k.
        + destruct k; constructor.
        + cbn. destruct (negb (Nat.eqb x p)).
          * destruct k; cbn; [apply sub_take; apply subseq_filter|apply sub_skip; apply IH].
          * apply sub_skip. apply IH. }
    destruct (lookup p (recvs s)) as [[[] ?]|]; apply Q; reflexivity.
  - destruct (negb (mem tid (running s))); [exists (queue s); split; [apply subseq_refl|left; reflexivity]|].
    destruct (peer_of_tid s tid) as [p|]; [|exists (queue s); split; [apply subseq_refl|left; reflexivity]].
    unfold start_all.
    match goal with |- context [maybe_start ?f ?s3 ?c] =>
      destruct (maybe_start_queue_sub f s3 c) as (k & Hk); exists (queue (maybe_start f s3 c)) end.
    split; [|left; reflexivity]. rewrite Hk. cbn [set_running recvs].
    destruct (lookup p (recvs s)); cbn; apply subseq_skipn.
  - exists (queue s). split; [apply subseq_refl|left; reflexivity].
  - destruct (length (filter _ (recvs s)) =? length (recvs s))%nat.
    + exists (queue s). split; [apply subseq_refl|left; reflexivity].
    + eexists. split; [|left; reflexivity]. cbn. apply subseq_filter.
Qed.

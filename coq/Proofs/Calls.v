(* Ordering facts about the call skeletons GENERATED from the source
   (Gen/Calls.v).  They tie the program-order guards of the hand-written models
   to the code: Model/Crash.v assumes write-before-mark and tmp-before-rename,
   Model/Path.v assumes the FileBegin path is validated before it is used. *)
From Coq Require Import List String Bool Arith.
Import ListNotations.
From TF Require Import Gen.Calls.
Open Scope string_scope.

Fixpoint index_of (a : string) (l : list string) : option nat :=
  match l with
  | [] => None
  | x :: r => if String.eqb a x then Some 0 else option_map S (index_of a r)
  end.

Definition before (a b : string) (l : list string) : bool :=
  match index_of a l, index_of b l with
  | Some i, Some j => Nat.ltb i j
  | _, _ => false
  end.

Definition count (a : string) (l : list string) : nat := List.length (filter (String.eqb a) l).

Definition main_path (l : list (string * bool)) : list string := map fst (filter (fun e => negb (snd e)) l).
Definition all_calls (l : list (string * bool)) : list string := map fst l.

(* the data-stream reader: payload read, then CRC check, then the positional
   write (whose error path returns), then - only then, and only once - the mark *)
Lemma recv_reader_order :
  before "readFullWithTimeoutDelta" "Checksum" (main_path sk_recv_reader) = true /\
  before "Checksum" "writeAtWithTimeout" (main_path sk_recv_reader) = true /\
  before "writeAtWithTimeout" "markChunkComplete" (all_calls sk_recv_reader) = true /\
  count "markChunkComplete" (all_calls sk_recv_reader) = 1 /\
  count "writeAtWithTimeout" (all_calls sk_recv_reader) = 1.
Proof. vm_compute. repeat split. Qed.

(* Flush: under the sidecar mutex the bitmap is serialised, the tmp file is
   written completely, then renamed, and only then is the dirty flag cleared *)
Lemma sidecar_flush_order :
  before "Lock" "Marshal" (main_path sk_sidecar_flush) = true /\
  before "Marshal" "WriteFile" (main_path sk_sidecar_flush) = true /\
  before "WriteFile" "Rename" (main_path sk_sidecar_flush) = true /\
  before "Rename" "=s_dirty" (main_path sk_sidecar_flush) = true /\
  count "Rename" (all_calls sk_sidecar_flush) = 1.
Proof. vm_compute. repeat split. Qed.

(* handleFileBegin: the path is validated before anything touches the filesystem *)
Lemma filebegin_validates_first :
  before "validateRelPath" "MkdirAll" (main_path sk_recv_filebegin) = true /\
  before "validateRelPath" "OpenFile" (main_path sk_recv_filebegin) = true /\
  before "validateRelPath" "Truncate" (main_path sk_recv_filebegin) = true /\
  before "validateRelPath" "LoadOrCreateSidecarWithFallback" (main_path sk_recv_filebegin) = true.
Proof. vm_compute. repeat split. Qed.

(* After FileBegin has been handled - with or without resume - the metadata found on disk is
   honest, provided that before it the disk was honest OR its data file was gone / of another
   length (what a user's tidying-up leaves).  Before fix cc27423 this failed for receives
   without resume ([old_plain_begin_refuted]). *)
From Coq Require Import ZArith List Bool Lia.
Import ListNotations.
From TF Require Import Lib.GoInt Lib.Bytes Model.CRC Model.Sidecar Model.Resume Model.BeginDisk.
Open Scope Z_scope.

Lemma resize_same size f : zlen f = size -> resize size f = f.
Proof.
  intros E. unfold resize, zfirstn, zeros, zlen in *. subst size.
  rewrite Nat2Z.id, firstn_all, Z.sub_diag. cbn. apply app_nil_r.
Qed.

Theorem begin_disk_honest id size cs src d :
  stale_data size d = true \/ disk_honest id size cs src d ->
  disk_honest id size cs src (begin_disk size d).
Proof.
  intros H. unfold begin_disk. destruct (stale_data size d) eqn:S.
  - split; exact I.
  - destruct H as [H|(Hp & Hf)]; [discriminate|].
    unfold stale_data in S. destruct (d_file d) as [f|] eqn:F; [|discriminate].
    apply negb_false_iff in S. apply Z.eqb_eq in S.
    cbn [d_file d_primary d_fallback]. rewrite (resize_same size f S).
    split; assumption.
Qed.

(* the two modes leave the same disk *)
Theorem begin_disk_mode_independent size d :
  begin_disk_old true size d = begin_disk size d.
Proof. reflexivity. Qed.

(* the behaviour before cc27423: metadata of a removed data file survives a receive without
   resume, which re-creates the file with zeros - the metadata then marks a chunk the file
   does not hold *)
Definition w_sc : sidecar := mkSc 1 2 2 [7] [1].          (* chunk size 1, size 2, chunk 0 marked *)
Definition w_disk : disk := mkDisk None (Some (serialise w_sc)) None.
Definition w_src : list Z := [5; 6].

Lemma w_loads : load (serialise w_sc) = Some w_sc.
Proof. vm_compute. reflexivity. Qed.

Theorem old_plain_begin_refuted :
  stale_data 2 w_disk = true /\
  ~ disk_honest [7] 2 1 w_src (begin_disk_old false 2 w_disk).
Proof.
  split; [reflexivity|].
  intros (Hp & _). cbn [begin_disk_old d_file d_primary w_disk] in Hp.
  unfold meta_honest in Hp. rewrite w_loads in Hp.
  destruct (Hp eq_refl 0 ltac:(cbn; lia) eq_refl) as (f & Ef & _ & Ec).
  injection Ef as <-. vm_compute in Ec. discriminate.
Qed.

(* and with the rule applied in both modes the same disk comes out honest *)
Example new_plain_begin_on_witness : disk_honest [7] 2 1 w_src (begin_disk 2 w_disk).
Proof. apply begin_disk_honest. left. reflexivity. Qed.

(* Invariants of the dispatch state machine (Model/Dispatch.v) over arbitrary
   well-formed event lists: any number of workers, chunks, any bitmap, any
   arrival time of the resume plan and of the verification verdict. *)
From Coq Require Import List Arith Bool Lia Permutation.
Import ListNotations.
From TF Require Import Model.Dispatch.

(* ---- ghost history: what an observer of the outputs has seen so far ---- *)
Record ghost := mkg {
  decided : list nat;     (* main-pass indices in the order they were decided *)
  sentl : list nat;       (* ... of which handed to a worker *)
  skippedl : list nat;    (* ... of which skipped *)
  sent_known : list nat;  (* main-pass chunks handed out while a plan was known *)
  takes : nat;            (* chunk hand-outs, re-send included *)
  fins : nat;             (* finished hand-outs *)
  ends : nat;             (* end-of-file records emitted *)
  resent : list nat;      (* re-sent chunks *)
  mism : option nat;      (* chunk whose verification failed *)
  vstart : bool;
  vdone : bool
}.

Definition g0 : ghost := mkg [] [] [] [] 0 0 0 [] None false false.

Definition has_plan (s : st) : bool := match plan s with Some _ => true | None => false end.

(* ghost update from the pre-state, the event and the observed output *)
Definition gstep (s : st) (g : ghost) (e : ev) (o : out) : ghost :=
  match e, o with
  | Take, OTake sk r =>
    if resendPending s then
      match r with
      | Some c => mkg (decided g) (sentl g) (skippedl g) (sent_known g) (S (takes g)) (fins g) (ends g) (resent g ++ [c]) (mism g) (vstart g) (vdone g)
      | None => g
      end
    else
      match r with
      | Some i => mkg (decided g ++ sk ++ [i]) (sentl g ++ [i]) (skippedl g ++ sk)
                      (if has_plan s then sent_known g ++ [i] else sent_known g)
                      (S (takes g)) (fins g) (ends g) (resent g) (mism g) (vstart g) (vdone g)
      | None => mkg (decided g ++ sk) (sentl g) (skippedl g ++ sk) (sent_known g)
                      (takes g) (fins g) (ends g) (resent g) (mism g) (vstart g) (vdone g)
      end
  | Finish, OEnd b =>
    mkg (decided g) (sentl g) (skippedl g) (sent_known g) (takes g) (S (fins g)) (if b then S (ends g) else ends g) (resent g) (mism g) (vstart g) (vdone g)
  | TryEnd, OEnd b =>
    mkg (decided g) (sentl g) (skippedl g) (sent_known g) (takes g) (fins g) (if b then S (ends g) else ends g) (resent g) (mism g) (vstart g) (vdone g)
  | VerifyStart, _ =>
    mkg (decided g) (sentl g) (skippedl g) (sent_known g) (takes g) (fins g) (ends g) (resent g) (mism g) true (vdone g)
  | VerdictMismatch c, _ =>
    mkg (decided g) (sentl g) (skippedl g) (sent_known g) (takes g) (fins g) (ends g) (resent g) (Some c) (vstart g) true
  | VerdictOk, _ =>
    mkg (decided g) (sentl g) (skippedl g) (sent_known g) (takes g) (fins g) (ends g) (resent g) (mism g) (vstart g) true
  | _, _ => g
  end.

(* well-formed schedules: a finish answers an outstanding hand-out; the plan is
   applied at most once; verification is started at most once and decided at
   most once, after it started *)
Definition wf_ev (s : st) (g : ghost) (e : ev) : Prop :=
  match e with
  | Take | TryEnd => True
  | Finish => fins g < takes g
  | VerifyStart => vstart g = false
  | PlanSet _ _ => plan s = None
  | VerdictMismatch _ | VerdictOk => vstart g = true /\ vdone g = false
  end.

Fixpoint wf_run (s : st) (g : ghost) (evs : list ev) : Prop :=
  match evs with
  | [] => True
  | e :: r => wf_ev s g e /\ let '(s1, o) := step s e in wf_run s1 (gstep s g e o) r
  end.

Fixpoint grun (s : st) (g : ghost) (evs : list ev) : st * ghost :=
  match evs with
  | [] => (s, g)
  | e :: r => let '(s1, o) := step s e in grun s1 (gstep s g e o) r
  end.

Record Inv (s : st) (g : ghost) : Prop := {
  i_next : nextChunk s <= total s;
  i_decided : decided g = seq 0 (nextChunk s);
  i_split : Permutation (sentl g ++ skippedl g) (decided g);
  i_fins : fins g <= takes g;
  i_inflight : inFlight s = takes g - fins g;
  i_sched : scheduleDone s = true -> nextChunk s = total s;
  i_end : ends g = if endSent s then 1 else 0;
  i_resend : match mism g with
             | None => resendPending s = false /\ resent g = []
             | Some c => (resendPending s = true /\ resendChunk s = c /\ resent g = []) \/
                         (resendPending s = false /\ resent g = [c])
             end;
  i_verify : verifyPending s = vstart g && negb (vdone g);
  i_mism_done : mism g <> None -> vdone g = true;
  i_skipped : forall i, In i (skippedl g) -> plan_skips (plan s) i = true;
  i_sent_known : forall i, In i (sent_known g) -> plan_skips (plan s) i = false;
  i_takes : takes g = length (sentl g) + length (resent g);
  i_noplan : plan s = None -> sent_known g = [];
  i_vdone : vdone g = true -> vstart g = true
}.

Lemma inv_init n : Inv (init n) g0.
Proof.
  constructor; cbn; intros; try lia; try reflexivity; try tauto; try contradiction; try constructor; try congruence.
Qed.

(* ---- the take loop ---- *)
Lemma take_loop_spec fuel : forall s sk, nextChunk s + fuel = total s ->
  exists k,
    (forall j, j < k -> plan_skips (plan s) (nextChunk s + j) = true) /\
    ((nextChunk s + k < total s /\ plan_skips (plan s) (nextChunk s + k) = false /\
      take_loop fuel s sk =
        (mk (total s) (S (nextChunk s + k)) (S (inFlight s))
            (if total s <=? S (nextChunk s + k) then true else scheduleDone s)
            (endSent s) (verifyPending s) (resendPending s) (resendChunk s) (plan s),
         OTake (sk ++ seq (nextChunk s) k) (Some (nextChunk s + k))))
     \/
     (nextChunk s + k = total s /\
      take_loop fuel s sk =
        (mk (total s) (total s) (inFlight s) true (endSent s) (verifyPending s) (resendPending s) (resendChunk s) (plan s),
         OTake (sk ++ seq (nextChunk s) k) None))).
Proof.
  induction fuel as [|f IH]; intros s sk Hf.
  - exists 0. split; [intros j Hj; lia|]. right. split; [lia|].
    assert (E : total s = nextChunk s) by lia.
    cbn. rewrite app_nil_r. destruct s; cbn in *. clear Hf. subst. reflexivity.
  - cbn [take_loop]. destruct (nextChunk s <? total s) eqn:E; [|apply Nat.ltb_ge in E; lia].
    destruct (plan_skips (plan s) (nextChunk s)) eqn:P.
    + specialize (IH (set_next s (S (nextChunk s))) (sk ++ [nextChunk s])).
      destruct IH as (k & Hk & Hres); [cbn; lia|].
      cbn [set_next total nextChunk plan inFlight scheduleDone endSent verifyPending resendPending resendChunk Nat.add] in Hk, Hres.
      exists (S k). split.
      * intros j Hj. destruct j as [|j]; [rewrite Nat.add_0_r; exact P|].
        specialize (Hk j ltac:(lia)).
        replace (nextChunk s + S j) with (S (nextChunk s + j)) by lia. exact Hk.
      * replace (nextChunk s + S k) with (S (nextChunk s + k)) by lia.
        cbn [seq]. repeat rewrite <- app_assoc in Hres. cbn [app] in Hres. exact Hres.
    + exists 0. split; [intros j Hj; lia|]. left.
      rewrite Nat.add_0_r. split; [apply Nat.ltb_lt; exact E|]. split; [exact P|].
      cbn. rewrite app_nil_r. destruct (total s <=? S (nextChunk s)); reflexivity.
Qed.

Lemma seq_snoc a n : seq a (S n) = seq a n ++ [a + n].
Proof. rewrite seq_S. reflexivity. Qed.

Lemma seq_app_seq a k : seq 0 a ++ seq a k = seq 0 (a + k).
Proof. rewrite seq_app. reflexivity. Qed.

Lemma perm_mid (A : Type) (s k d m : list A) (x : A) :
  Permutation (s ++ k) d -> Permutation ((s ++ [x]) ++ k ++ m) (d ++ m ++ [x]).
Proof.
  intros H.
  rewrite <- app_assoc. cbn.
  transitivity (x :: s ++ k ++ m).
  { symmetry. apply Permutation_middle. }
  transitivity (x :: d ++ m).
  { constructor. rewrite app_assoc. apply Permutation_app_tail. exact H. }
  rewrite app_assoc. apply Permutation_cons_append.
Qed.

Lemma perm_tail (A : Type) (s k d m : list A) :
  Permutation (s ++ k) d -> Permutation (s ++ k ++ m) (d ++ m).
Proof. intros H. rewrite app_assoc. apply Permutation_app_tail. exact H. Qed.

Ltac fields := constructor; cbn -[Nat.sub seq]; try assumption; try lia; try congruence.

(* ---- one step preserves the invariant ---- *)
Lemma inv_step s g e : Inv s g -> wf_ev s g e ->
  let '(s', o) := step s e in Inv s' (gstep s g e o).
Proof.
  intros I W. destruct e; cbn [step].
  - (* Take *)
    destruct (scheduleDone s) eqn:SD.
    + destruct (resendPending s) eqn:RP.
      * (* resend *)
        unfold take_resend. cbn [gstep]. rewrite RP.
        destruct I. fields.
        -- destruct (mism g) as [c|]; [|destruct i_resend0; congruence].
           destruct i_resend0 as [(A & B & C)|(A & _)]; [|congruence].
           right. split; [reflexivity|]. rewrite C, B. reflexivity.
        -- rewrite app_length. cbn. lia.
      * cbn [gstep]. rewrite RP. destruct I. fields; rewrite ?app_nil_r; try assumption.
    + destruct (resendPending s) eqn:RP.
      * unfold take_resend. cbn [gstep]. rewrite RP.
        destruct I. fields.
        -- destruct (mism g) as [c|]; [|destruct i_resend0; congruence].
           destruct i_resend0 as [(A & B & C)|(A & _)]; [|congruence].
           right. split; [reflexivity|]. rewrite C, B. reflexivity.
        -- rewrite app_length. cbn. lia.
      * destruct I.
        destruct (take_loop_spec (total s - nextChunk s) s []) as (k & Hk & [(Hlt & Hp & Heq)|(Hlt & Heq)]); [lia| |].
        -- rewrite Heq. cbn [gstep app]. rewrite RP.
           constructor; cbn -[Nat.sub seq].
           ++ lia.
           ++ rewrite i_decided0. rewrite seq_S, seq_app, <- app_assoc. reflexivity.
           ++ apply perm_mid. exact i_split0.
           ++ lia.
           ++ lia.
           ++ destruct (total s <=? S (nextChunk s + k)) eqn:E.
              ** intros _. apply Nat.leb_le in E. lia.
              ** intros H. rewrite SD in H. discriminate.
           ++ exact i_end0.
           ++ rewrite RP in i_resend0. exact i_resend0.
           ++ exact i_verify0.
           ++ exact i_mism_done0.
           ++ intros i Hi. apply in_app_or in Hi. destruct Hi as [Hi|Hi]; [auto|].
              apply in_seq in Hi. replace i with (nextChunk s + (i - nextChunk s)) by lia. apply Hk. lia.
           ++ intros i Hi. unfold has_plan in Hi. destruct (plan s) eqn:PL.
              ** apply in_app_or in Hi. destruct Hi as [Hi|[Hi|[]]]; [auto|]. subst i. exact Hp.
              ** rewrite (i_noplan0 eq_refl) in Hi. contradiction.
           ++ rewrite app_length. cbn. lia.
           ++ intros PL. unfold has_plan. rewrite PL. auto.
           ++ exact i_vdone0.
        -- rewrite Heq. cbn [gstep app]. rewrite RP.
           constructor; cbn -[Nat.sub seq].
           ++ lia.
           ++ rewrite i_decided0. rewrite <- Hlt, seq_app. reflexivity.
           ++ apply perm_tail. exact i_split0.
           ++ lia.
           ++ lia.
           ++ intros _. reflexivity.
           ++ exact i_end0.
           ++ rewrite RP in i_resend0. exact i_resend0.
           ++ exact i_verify0.
           ++ exact i_mism_done0.
           ++ intros i Hi. apply in_app_or in Hi. destruct Hi as [Hi|Hi]; [auto|].
              apply in_seq in Hi. replace i with (nextChunk s + (i - nextChunk s)) by lia. apply Hk. lia.
           ++ exact i_sent_known0.
           ++ exact i_takes0.
           ++ exact i_noplan0.
           ++ exact i_vdone0.
  - (* Finish *)
    cbn in W. destruct I.
    assert (Hpos : 0 <? inFlight s = true) by (apply Nat.ltb_lt; lia). rewrite Hpos.
    set (s1 := set_inflight s (inFlight s - 1)).
    assert (V1 : verifyPending s1 = verifyPending s) by reflexivity.
    rewrite V1. destruct (verifyPending s) eqn:VP.
    + cbn [gstep]. fields.
    + unfold can_end. cbn [s1 set_inflight scheduleDone inFlight endSent resendPending].
      destruct (scheduleDone s && (inFlight s - 1 =? 0) && negb (endSent s) && negb (resendPending s)) eqn:CE.
      * cbn [gstep]. apply andb_prop in CE. destruct CE as (CE & C4). apply andb_prop in CE. destruct CE as (CE & C3).
        apply andb_prop in CE. destruct CE as (C1 & C2).
        apply negb_true_iff in C3, C4. rewrite C3 in i_end0.
        fields.
      * cbn [gstep]. fields.
  - (* TryEnd *)
    destruct I. destruct (verifyPending s) eqn:VP.
    + cbn [gstep]. fields.
    + unfold can_end.
      destruct (scheduleDone s && (inFlight s =? 0) && negb (endSent s) && negb (resendPending s)) eqn:CE.
      * cbn [gstep]. apply andb_prop in CE. destruct CE as (CE & C4). apply andb_prop in CE. destruct CE as (CE & C3).
        apply negb_true_iff in C3. rewrite C3 in i_end0.
        fields.
      * cbn [gstep]. fields.
  - (* VerifyStart *)
    cbn in W. destruct I. cbn [gstep]. constructor; cbn; try assumption.
    + destruct (vdone g) eqn:VD; [|reflexivity].
      (* verification decided before it started is impossible: vstart = false *)
      rewrite (i_vdone0 eq_refl) in W. discriminate.
    + intros _. reflexivity.
  - (* PlanSet *)
    cbn in W. destruct I. cbn [gstep]. constructor; cbn -[plan_skips]; try assumption.
    + intros i Hi. specialize (i_skipped0 i Hi). rewrite W in i_skipped0. cbn in i_skipped0. discriminate.
    + intros i Hi.
      (* a chunk is recorded in sent_known only while a plan was known; none was *)
      rewrite (i_noplan0 W) in Hi. contradiction.
    + discriminate.
  - (* VerdictMismatch *)
    cbn in W. destruct W as (W1 & W2). destruct I. cbn [gstep]. constructor; cbn; try assumption.
    + left. repeat split.
      destruct (mism g) eqn:M; [exfalso; rewrite i_mism_done0 in W2; [discriminate|congruence]|].
      destruct i_resend0; assumption.
    + rewrite W1. reflexivity.
    + intros _. reflexivity.
    + intros _. exact W1.
  - (* VerdictOk *)
    cbn in W. destruct W as (W1 & W2). destruct I. cbn [gstep]. constructor; cbn; try assumption.
    + rewrite W1. reflexivity.
    + intros _. reflexivity.
    + intros _. exact W1.
Qed.

(* ---- every reachable state ---- *)
Lemma inv_run evs : forall s g, Inv s g -> wf_run s g evs ->
  let '(s', g') := grun s g evs in Inv s' g'.
Proof.
  induction evs as [|e r IH]; intros s g I W; cbn [grun]; [exact I|].
  cbn [wf_run] in W. destruct W as (We & Wr).
  pose proof (inv_step s g e I We) as Hs.
  destruct (step s e) as [s1 o]. apply IH; assumption.
Qed.

Theorem reachable_inv n evs : wf_run (init n) g0 evs ->
  let '(s', g') := grun (init n) g0 evs in Inv s' g'.
Proof. apply inv_run. apply inv_init. Qed.

Lemma take_loop_is_take f : forall s l, exists s' sk r, take_loop f s l = (s', OTake sk r).
Proof.
  induction f as [|f IH]; intros s l; cbn [take_loop]; [eauto|].
  destruct (nextChunk s <? total s); [|eauto].
  destruct (plan_skips (plan s) (nextChunk s)); [apply IH|eauto].
Qed.

(* what the machine knows when it emits the end-of-file record *)
Lemma end_emitted s e s' : step s e = (s', OEnd true) ->
  endSent s = false /\ endSent s' = true /\ scheduleDone s' = true /\ inFlight s' = 0 /\
  verifyPending s' = false /\ resendPending s' = false /\ (e = Finish \/ e = TryEnd).
Proof.
  destruct e; cbn [step]; intros H.
  - destruct (scheduleDone s); [destruct (resendPending s)|destruct (resendPending s)];
      try (unfold take_resend in H; inversion H; fail).
    destruct (take_loop_is_take (total s - nextChunk s) s []) as (s2 & sk & r & Heq).
    rewrite Heq in H. inversion H.
  - set (s1 := if 0 <? inFlight s then set_inflight s (inFlight s - 1) else s) in *.
    assert (E1 : endSent s1 = endSent s) by (unfold s1; destruct (0 <? inFlight s); reflexivity).
    destruct (verifyPending s1) eqn:VP; [inversion H|].
    destruct (can_end s1) eqn:CE; [|inversion H].
    inversion H; subst s'. unfold can_end in CE.
    apply andb_prop in CE. destruct CE as (CE & C4). apply andb_prop in CE. destruct CE as (CE & C3).
    apply andb_prop in CE. destruct CE as (C1 & C2).
    apply negb_true_iff in C3, C4. apply Nat.eqb_eq in C2.
    cbn. rewrite <- E1. repeat split; auto.
  - destruct (verifyPending s) eqn:VP; [inversion H|].
    destruct (can_end s) eqn:CE; [|inversion H].
    inversion H; subst s'. unfold can_end in CE.
    apply andb_prop in CE. destruct CE as (CE & C4). apply andb_prop in CE. destruct CE as (CE & C3).
    apply andb_prop in CE. destruct CE as (C1 & C2).
    apply negb_true_iff in C3, C4. apply Nat.eqb_eq in C2.
    cbn. repeat split; auto.
  - inversion H.
  - inversion H.
  - inversion H.
  - inversion H.
Qed.

(* ---- the chunk count never changes ---- *)
Lemma take_loop_total f : forall s l, total (fst (take_loop f s l)) = total s.
Proof.
  induction f as [|f IH]; intros s l; cbn [take_loop]; [reflexivity|].
  destruct (nextChunk s <? total s); [|reflexivity].
  destruct (plan_skips (plan s) (nextChunk s)); [rewrite IH; reflexivity|].
  cbn. destruct (total s <=? S (nextChunk s)); reflexivity.
Qed.

Lemma step_total s e : total (fst (step s e)) = total s.
Proof.
  destruct e; cbn [step].
  - destruct (scheduleDone s); destruct (resendPending s); try reflexivity; apply take_loop_total.
  - destruct (0 <? inFlight s);
      repeat match goal with |- context [if ?c then _ else _] => destruct c end; reflexivity.
  - repeat match goal with |- context [if ?c then _ else _] => destruct c end; reflexivity.
  - reflexivity.
  - reflexivity.
  - reflexivity.
  - reflexivity.
Qed.

Lemma grun_total evs : forall s g, total (fst (grun s g evs)) = total s.
Proof.
  induction evs as [|e r IH]; intros s g; cbn [grun]; [reflexivity|].
  pose proof (step_total s e) as T. destruct (step s e) as [s1 o]. rewrite IH. exact T.
Qed.

Lemma wf_run_app evs e : forall s g, wf_run s g (evs ++ [e]) ->
  wf_run s g evs /\ let '(s1, g1) := grun s g evs in wf_ev s1 g1 e.
Proof.
  induction evs as [|x r IH]; intros s g H; cbn [app wf_run grun] in *.
  - destruct (step s e); tauto.
  - destruct H as (H1 & H2). destruct (step s x) as [s1 o]. apply IH in H2. tauto.
Qed.

(* ---- property-level statements ---- *)

(* main pass: indices are decided in order 0,1,2,..., each exactly once, every
   decided index is either handed out or skipped (never both); skips are
   justified by the known plan; chunks handed out while the plan was known are
   not skip-eligible. *)
Theorem main_pass_once n evs : wf_run (init n) g0 evs ->
  let '(s, g) := grun (init n) g0 evs in
  decided g = seq 0 (nextChunk s) /\ nextChunk s <= n /\ total s = n /\
  Permutation (sentl g ++ skippedl g) (seq 0 (nextChunk s)) /\ NoDup (sentl g ++ skippedl g) /\
  (forall i, In i (skippedl g) -> exists bm force, plan s = Some (bm, force) /\ nth i bm false = true /\ i < force) /\
  (forall i, In i (sent_known g) -> plan_skips (plan s) i = false).
Proof.
  intros W. pose proof (reachable_inv n evs W) as I.
  pose proof (grun_total evs (init n) g0) as T.
  destruct (grun (init n) g0 evs) as [s g]. cbn [fst init total] in T. destruct I.
  split; [assumption|]. split; [lia|]. split; [assumption|].
  split; [rewrite <- i_decided0; assumption|].
  split.
  { apply (Permutation_NoDup (l := seq 0 (nextChunk s))).
    - symmetry. rewrite <- i_decided0. assumption.
    - apply seq_NoDup. }
  split; [|assumption].
  intros i Hi. specialize (i_skipped0 i Hi). unfold plan_skips in i_skipped0.
  destruct (plan s) as [[bm force]|]; [|discriminate].
  apply andb_prop in i_skipped0. destruct i_skipped0 as (A & B). apply Nat.ltb_lt in B. eauto.
Qed.

(* hand-outs and finishes: inFlight is exactly the number of unfinished hand-outs *)
Theorem inflight_exact n evs : wf_run (init n) g0 evs ->
  let '(s, g) := grun (init n) g0 evs in
  fins g <= takes g /\ inFlight s = takes g - fins g /\ takes g = length (sentl g) + length (resent g).
Proof.
  intros W. pose proof (reachable_inv n evs W) as I.
  destruct (grun (init n) g0 evs) as [s g]. destruct I. auto.
Qed.

(* at most one end-of-file record over the whole history *)
Theorem end_at_most_once n evs : wf_run (init n) g0 evs ->
  ends (snd (grun (init n) g0 evs)) <= 1.
Proof.
  intros W. pose proof (reachable_inv n evs W) as I.
  destruct (grun (init n) g0 evs) as [s g]. destruct I. cbn. rewrite i_end0. destruct (endSent s); lia.
Qed.

(* the single chunk that failed verification is handed out again at most once,
   nothing else is ever re-sent *)
Theorem resend_at_most_once n evs : wf_run (init n) g0 evs ->
  let g := snd (grun (init n) g0 evs) in
  match mism g with None => resent g = [] | Some c => resent g = [] \/ resent g = [c] end.
Proof.
  intros W. pose proof (reachable_inv n evs W) as I.
  destruct (grun (init n) g0 evs) as [s g]. destruct I. cbn.
  destruct (mism g); [destruct i_resend0 as [(_ & _ & A)|(_ & A)]; auto|tauto].
Qed.

(* when the end-of-file record is emitted (as the last step of any history):
   it is the first one, every index 0..n-1 has been decided (sent or skipped),
   all hand-outs (re-send included) are finished, verification is decided, and
   if it failed the re-send has gone out *)
Theorem end_complete n evs e : wf_run (init n) g0 (evs ++ [e]) ->
  let '(s, g) := grun (init n) g0 evs in
  forall s', step s e = (s', OEnd true) ->
  let g' := gstep s g e (OEnd true) in
  ends g = 0 /\ ends g' = 1 /\
  Permutation (sentl g' ++ skippedl g') (seq 0 n) /\
  takes g' = fins g' /\
  (vstart g' = true -> vdone g' = true) /\
  (forall c, mism g' = Some c -> resent g' = [c]).
Proof.
  intros W. apply wf_run_app in W. destruct W as (W & We).
  pose proof (reachable_inv n evs W) as I.
  pose proof (grun_total evs (init n) g0) as T.
  destruct (grun (init n) g0 evs) as [s g]. cbn [fst init total] in T.
  intros s' Hs g'.
  pose proof (inv_step s g e I We) as I'. rewrite Hs in I'. fold g' in I'.
  destruct (end_emitted s e s' Hs) as (E0 & E1 & SD & IF & VP & RP & Hev).
  pose proof (step_total s e) as T'. rewrite Hs in T'. cbn [fst] in T'.
  destruct I as [? ? ? ? ? ? Iend ? ? ? ? ? ? ? ?].
  destruct I' as [J1 J2 J3 J4 J5 J6 J7 J8 J9 J10 J11 J12 J13 J14 J15].
  rewrite E0 in Iend. rewrite E1 in J7.
  split; [assumption|]. split; [assumption|].
  split. { rewrite J2 in J3. rewrite (J6 SD) in J3. rewrite T', T in J3. exact J3. }
  split; [lia|].
  split.
  { intros Hv. rewrite VP in J9. rewrite Hv in J9. cbn in J9. destruct (vdone g'); [reflexivity|discriminate]. }
  intros c Hc. rewrite Hc in J8. destruct J8 as [(A & _)|(_ & A)]; [congruence|exact A].
Qed.

(* ---- progress: once verification is decided, take*; finish*; try-end always
        emits the end-of-file record (no state from which the file cannot end) ---- *)
Fixpoint take_all (fuel : nat) (s : st) : st :=
  match fuel with
  | O => s
  | S f => match step s Take with
           | (s', OTake _ (Some _)) => take_all f s'
           | (s', _) => s'
           end
  end.

Fixpoint finish_all (k : nat) (s : st) : st :=
  match k with O => s | S k' => finish_all k' (fst (step s Finish)) end.

Definition drain (s : st) : st :=
  let s1 := take_all (S (S (total s))) s in
  let s2 := finish_all (inFlight s1) s1 in
  fst (step s2 TryEnd).

Definition Wk (s : st) : Prop :=
  nextChunk s <= total s /\ (scheduleDone s = true -> nextChunk s = total s).

Definition measure (s : st) : nat :=
  (total s - nextChunk s) + (if resendPending s then 1 else 0).

Lemma take_facts s : Wk s -> forall s' sk r, step s Take = (s', OTake sk r) ->
  Wk s' /\ verifyPending s' = verifyPending s /\ endSent s' = endSent s /\
  match r with
  | Some _ => measure s' < measure s
  | None => scheduleDone s' = true /\ resendPending s' = false
  end.
Proof.
  intros (W1 & W2) s' sk r H. cbn [step] in H. unfold Wk, measure.
  destruct (scheduleDone s) eqn:SD.
  - specialize (W2 eq_refl). destruct (resendPending s) eqn:RP.
    + unfold take_resend in H. inversion H; subst; cbn. rewrite SD. repeat split; auto; lia.
    + inversion H; subst. rewrite SD, RP. repeat split; auto.
  - destruct (resendPending s) eqn:RP.
    + unfold take_resend in H. inversion H; subst; cbn. rewrite SD. repeat split; auto; try lia; discriminate.
    + destruct (take_loop_spec (total s - nextChunk s) s []) as (k & _ & [(Hlt & _ & Heq)|(Hlt & Heq)]); [lia| |];
        rewrite Heq in H; inversion H; subst; cbn; rewrite ?RP.
      * repeat split; auto; try lia.
        destruct (total s <=? S (nextChunk s + k)) eqn:E; [apply Nat.leb_le in E; lia|congruence].
      * repeat split; auto; lia.
Qed.

Lemma take_all_facts fuel : forall s, Wk s -> measure s < fuel ->
  let s' := take_all fuel s in
  scheduleDone s' = true /\ resendPending s' = false /\
  verifyPending s' = verifyPending s /\ endSent s' = endSent s /\ total s' = total s.
Proof.
  induction fuel as [|f IH]; intros s W M; [lia|].
  cbn [take_all].
  pose proof (step_total s Take) as T.
  destruct (step s Take) as [s1 o] eqn:E. cbn [fst] in T.
  destruct o as [sk r| |].
  - destruct (take_facts s W s1 sk r E) as (W' & V & En & R).
    destruct r as [i|].
    + specialize (IH s1 W' ltac:(lia)). cbv zeta in IH. destruct IH as (A & B & C & D & F).
      repeat split; congruence.
    + destruct R. repeat split; auto.
  - exfalso. cbn [step] in E.
    destruct (scheduleDone s); destruct (resendPending s); try (unfold take_resend in E; inversion E; fail).
    + destruct (take_loop_is_take (total s - nextChunk s) s []) as (? & ? & ? & Q). rewrite Q in E. inversion E.
  - exfalso. cbn [step] in E.
    destruct (scheduleDone s); destruct (resendPending s); try (unfold take_resend in E; inversion E; fail).
    + destruct (take_loop_is_take (total s - nextChunk s) s []) as (? & ? & ? & Q). rewrite Q in E. inversion E.
Qed.

Lemma finish_facts s : scheduleDone s = true -> resendPending s = false -> verifyPending s = false ->
  let s' := fst (step s Finish) in
  scheduleDone s' = true /\ resendPending s' = false /\ verifyPending s' = false /\
  inFlight s' = inFlight s - 1 /\ (endSent s = true -> endSent s' = true) /\
  (inFlight s <= 1 -> endSent s' = true).
Proof.
  intros SD RP VP. cbn [step].
  destruct (0 <? inFlight s) eqn:P.
  - cbn [verifyPending set_inflight]. rewrite VP. unfold can_end. cbn [scheduleDone set_inflight inFlight endSent resendPending].
    rewrite SD, RP. cbn [andb negb].
    destruct (inFlight s - 1 =? 0) eqn:Z; destruct (endSent s) eqn:ES; cbn; repeat split; auto; try lia;
      try (intros; apply Nat.eqb_neq in Z; lia); try discriminate.
  - apply Nat.ltb_ge in P. rewrite VP. unfold can_end. rewrite SD, RP.
    replace (inFlight s =? 0) with true by (symmetry; apply Nat.eqb_eq; lia). cbn [andb negb].
    destruct (endSent s) eqn:ES; cbn; repeat split; auto; try lia.
Qed.

Lemma finish_all_facts k : forall s, scheduleDone s = true -> resendPending s = false -> verifyPending s = false ->
  k = inFlight s ->
  let s' := finish_all k s in
  scheduleDone s' = true /\ resendPending s' = false /\ verifyPending s' = false /\ inFlight s' = 0 /\
  (endSent s = true -> endSent s' = true) /\ (0 < k -> endSent s' = true).
Proof.
  induction k as [|k IH]; intros s SD RP VP K; cbn [finish_all].
  - repeat split; auto; lia.
  - destruct (finish_facts s SD RP VP) as (A & B & C & D & E & F). cbv zeta in *.
    specialize (IH (fst (step s Finish)) A B C ltac:(lia)). cbv zeta in IH.
    destruct IH as (A' & B' & C' & D' & E' & F').
    repeat split; auto.
    intros _. destruct k as [|k']; [apply E'; apply F; lia|apply F'; lia].
Qed.

Theorem progress s : Wk s -> verifyPending s = false -> endSent (drain s) = true.
Proof.
  intros W VP. unfold drain.
  destruct (take_all_facts (S (S (total s))) s W) as (SD & RP & V & E & T).
  { unfold measure. destruct (resendPending s); lia. }
  cbv zeta in *. set (s1 := take_all (S (S (total s))) s) in *.
  destruct (finish_all_facts (inFlight s1) s1 SD RP ltac:(congruence) eq_refl) as (SD2 & RP2 & VP2 & IF2 & E2 & F2).
  cbv zeta in *. set (s2 := finish_all (inFlight s1) s1) in *.
  cbn [step]. rewrite VP2. unfold can_end. rewrite SD2, RP2, IF2. cbn.
  destruct (endSent s2) eqn:ES; cbn; [exact ES|reflexivity].
Qed.

Theorem progress_reachable n evs : wf_run (init n) g0 evs ->
  let s := fst (grun (init n) g0 evs) in
  verifyPending s = false -> endSent (drain s) = true.
Proof.
  intros W. pose proof (reachable_inv n evs W) as I.
  destruct (grun (init n) g0 evs) as [s g]. cbn [fst]. destruct I.
  apply progress. split; assumption.
Qed.

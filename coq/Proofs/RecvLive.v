(* Local liveness of the receiver model (Model/Recv.v, the machine tied to the real
   receiver by Corr/C02.v): its main loop never blocks, a control record at the
   head of the queue is always handled, and a data-stream reader waits ONLY for a
   frame whose file has neither begun nor finished - which the handling of that
   file's FileBegin ends. *)
From Coq Require Import ZArith List Bool Arith Lia.
From TF Require Import Lib.GoInt Gen.Geometry Gen.C15 Model.Recv Proofs.Recv.
Import ListNotations.
Open Scope Z_scope.

(* [blocked] is never set any more (the only place that set it was the wait in
   handleResumeRequest, removed by d3e79d7) *)
Lemma finalize_blocked s f ok io : blocked (finalize s f ok io) = blocked s.
Proof. reflexivity. Qed.

Lemma rstep_blocked s n io : blocked (rstep s n io) = blocked s.
Proof. unfold rstep, reader_fail. crush_match; reflexivity. Qed.

Lemma handle_ctl_blocked s c io : blocked (handle_ctl s c io) = blocked s.
Proof. unfold handle_ctl, handle_begin. crush_match; reflexivity. Qed.

Lemma main_pick_blocked s a io : blocked (main_pick s a io) = blocked s.
Proof.
  unfold main_pick. destruct (blocked s) eqn:B; [crush_match; simpl; auto|].
  destruct (negb (arm_enabled s a)); [exact B|].
  destruct a.
  1-4: crush_match; simpl; auto.
  destruct (ctlq s) as [|c0 r0]; [exact B|]. rewrite handle_ctl_blocked. exact B.
Qed.

Lemma step_blocked s e : blocked (step s e) = blocked s.
Proof.
  unfold step. destruct (result s); [reflexivity|].
  destruct e; try (crush_match; reflexivity).
  - apply rstep_blocked.
  - apply main_pick_blocked.
Qed.

Theorem main_loop_never_blocks m res pr evs : blocked (run (init m res pr) evs) = false.
Proof.
  assert (forall s, blocked s = false -> blocked (run s evs) = false) as G.
  { induction evs as [|e r IH]; intros s B; simpl; [exact B|]. apply IH. rewrite step_blocked. exact B. }
  apply G. reflexivity.
Qed.

(* a control record at the head of the queue is handled by the next pick of the
   control arm: the queue gets shorter or the function returns *)
Theorem control_head_is_handled s c rest io :
  result s = None -> blocked s = false -> ctlq s = c :: rest ->
  let s' := step s (MainPick ACtl io) in
  result s' <> None \/ ctlq s' = rest.
Proof.
  intros R B Q s'. unfold s', step. rewrite R. unfold main_pick. rewrite B. simpl. rewrite Q. simpl.
  assert (ctlq (pop_ctl s) = rest) as P by (simpl; rewrite Q; reflexivity).
  destruct c as [fi size cs sid pk|key|key fid| |]; simpl.
  - unfold handle_begin. crush_match; simpl; auto; left; discriminate.
  - crush_match; simpl; auto; left; discriminate.
  - crush_match; simpl; auto; left; discriminate.
  - crush_match; simpl; auto; left; discriminate.
  - left. discriminate.
Qed.

(* a reader whose head frame belongs to a file that has begun or finished (or
   whose stream has ended) makes progress: it consumes the frame, or exits, or
   the function returns.  So the ONLY wait of a reader is for a file that has
   neither begun nor finished *)
Theorem reader_progress s n io it rest :
  result s = None -> memN n (gone s) = false -> get_q n (inq s) = it :: rest ->
  (forall key, match it with Fr k _ _ _ _ | Trunc k _ _ _ => k = key | EndOf _ => False end ->
               find_active key (active s) <> None \/ memZ key (done_keys s) = true \/
               match it with Fr _ _ l _ _ | Trunc _ _ l _ => l = 0 | EndOf _ => False end) ->
  let s' := rstep s n io in
  result s' <> None \/ memN n (gone s') = true \/ get_q n (inq s') = rest.
Proof.
  intros R G Q K s'. unfold s', rstep. rewrite G, Q.
  destruct it as [key idx len c t|key idx len e|e].
  - specialize (K key eq_refl).
    destruct (len =? 0) eqn:L0.
    { right. left. simpl. rewrite Nat.eqb_refl. reflexivity. }
    destruct (find_active key (active s)) as [f|] eqn:F.
    + unfold reader_fail.
      repeat match goal with |- context [if ?b then _ else _] => destruct b end;
        simpl; rewrite ?get_set_q, ?Nat.eqb_refl; auto; try (left; discriminate);
        try (right; left; simpl; rewrite Nat.eqb_refl; reflexivity).
    + destruct K as [K|[K|K]]; [congruence| |apply Z.eqb_neq in L0; contradiction].
      rewrite K. right. right. simpl. rewrite get_set_q, Nat.eqb_refl. reflexivity.
  - specialize (K key eq_refl).
    destruct (len =? 0) eqn:L0.
    { right. left. simpl. rewrite Nat.eqb_refl. reflexivity. }
    destruct (find_active key (active s)) as [f|] eqn:F.
    + unfold reader_fail.
      repeat match goal with |- context [if ?b then _ else _] => destruct b end;
        simpl; auto; try (left; discriminate); try (right; left; simpl; rewrite Nat.eqb_refl; reflexivity).
    + destruct K as [K|[K|K]]; [congruence| |apply Z.eqb_neq in L0; contradiction].
      rewrite K. right. left. simpl. rewrite Nat.eqb_refl. reflexivity.
  - right. left. simpl. rewrite Nat.eqb_refl. reflexivity.
Qed.

(* handling an acceptable FileBegin makes the file known: the wait ends *)
Theorem begin_makes_file_known s i mf size cs sid io :
  result s = None -> nth_error (manifest s) i = Some mf ->
  result (handle_begin s (Some i) size cs sid true io) = None ->
  find_active (m_key mf) (active (handle_begin s (Some i) size cs sid true io)) <> None.
Proof.
  intros R N. unfold handle_begin. simpl. rewrite N.
  destruct (negb (m_size mf =? size)); [simpl; discriminate|].
  destruct ((cs =? 0) || (c_maxChunkSize <? cs)); [simpl; discriminate|].
  destruct (negb (sid =? 0) && negb (sid =? m_key mf)); [simpl; discriminate|].
  destruct (find_active (m_key mf) (active s)) eqn:F; [simpl; discriminate|].
  destruct (negb io); [simpl; discriminate|].
  destruct (recvTotalChunks size cs); try (simpl; discriminate).
  assert (forall l f, fs_key f = m_key mf -> find_active (m_key mf) (l ++ [f]) <> None) as A.
  { induction l as [|g r IH]; intros f E; simpl.
    - rewrite E, Z.eqb_refl. discriminate.
    - destruct (fs_key g =? m_key mf); [discriminate|]. apply IH. exact E. }
  destruct (resume s); [destruct (cancelled s)|]; simpl; intros _; try discriminate; apply A; reflexivity.
Qed.

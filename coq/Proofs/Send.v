(* The sender returns nil only after every file was acknowledged OK. *)
From Coq Require Import ZArith List Bool Lia Permutation.
From TF Require Import Model.Send.
Import ListNotations.
Open Scope Z_scope.

Lemma memZ_in x l : memZ x l = true -> In x l.
Proof.
  unfold memZ. rewrite existsb_exists. intros (y & Hy & E). apply Z.eqb_eq in E. subst. exact Hy.
Qed.

Lemma lookup_ack_in k l ok : lookup_ack k l = Some ok -> In (k, ok) l.
Proof.
  induction l as [|[k' o] r IH]; simpl; [discriminate|].
  destruct (k' =? k) eqn:E; [|auto]. apply Z.eqb_eq in E. intros H. injection H as <-. subst. auto.
Qed.

Lemma in_remove_ack k l x : In x (remove_ack k l) -> In x l.
Proof.
  induction l as [|[k' o] r IH]; simpl; [tauto|]. destruct (k' =? k); simpl; intuition.
Qed.

Notation cnt := (count_occ Z.eq_dec).

Lemma cnt_removeZ k l x : In k l ->
  cnt (removeZ k l) x = (cnt l x - (if Z.eq_dec k x then 1 else 0))%nat.
Proof.
  induction l as [|y r IH]; simpl; [tauto|].
  destruct (y =? k) eqn:E.
  - apply Z.eqb_eq in E. subst y. intros _. destruct (Z.eq_dec k x); simpl; lia.
  - apply Z.eqb_neq in E. intros [->|H]; [congruence|]. simpl. rewrite (IH H).
    destruct (Z.eq_dec y x) as [Eyx|Nyx]; destruct (Z.eq_dec k x) as [Ekx|Nkx].
    all: try lia.
    all: try (subst; congruence).
    all: subst x; assert (cnt r k > 0)%nat by (apply count_occ_In; exact H); lia.
Qed.

(* E: keys whose FileEnd was written so far *)
Record SInv (E : list Z) (s : sst) : Prop := {
  si_cnt : forall x, (cnt (s_waiting s ++ s_acked s) x <= cnt E x)%nat;
  si_pending : forall x, In x (s_pending s) -> In x (s_acks_seen s);
  si_acked : forall k, In k (s_acked s) -> In (k, true) (s_acks_seen s);
  si_res : s_result s = Some SSuccess ->
           s_err s = false /\ s_cancelled s = false /\ nfiles s <= Z.of_nat (length (s_acked s)) }.

Lemma SInv_init files : SInv [] (sinit files).
Proof. constructor; simpl; try tauto; try discriminate. intros; lia. Qed.

Definition ends_after (E : list Z) (e : sev) : list Z :=
  match e with SEndSent k => E ++ [k] | _ => E end.

Lemma sstep_files s e : s_files (sstep s e) = s_files s.
Proof.
  unfold sstep. destruct (s_result s); [reflexivity|].
  destruct e; simpl; try reflexivity.
  - destruct (s_reader_gone s); reflexivity.
  - destruct (negb (memZ k (s_waiting s))); [reflexivity|]. destruct (lookup_ack k (s_pending s)); reflexivity.
  - destruct (negb (workers_can_leave s)); reflexivity.
Qed.

Lemma cnt_le_ends E e x : (cnt E x <= cnt (ends_after E e) x)%nat.
Proof. destruct e; simpl; try lia. rewrite count_occ_app. lia. Qed.

Lemma SInv_step E s e : SInv E s -> SInv (ends_after E e) (sstep s e).
Proof.
  intros H. unfold sstep. destruct (s_result s) eqn:R.
  { destruct H as [Hc Hp Ha Hr]. constructor; auto.
    intros x. specialize (Hc x). pose proof (cnt_le_ends E e x). lia. }
  destruct H as [Hc Hp Ha Hr].
  assert (forall E', (forall x, (cnt E x <= cnt E' x)%nat) -> SInv E' s) as Same.
  { intros E' HE. constructor; auto. intros x. specialize (Hc x). specialize (HE x). lia. }
  destruct e; simpl.
  - constructor; simpl; [|exact Hp|exact Ha|discriminate]. intros x. specialize (Hc x).
    rewrite !count_occ_app in *. simpl. destruct (Z.eq_dec k x); lia.
  - destruct (s_reader_gone s); [apply Same; intros; lia|].
    constructor; simpl; [exact Hc| | |discriminate].
    + intros x [<-|Hx]; [left; reflexivity|]. right. apply Hp. eapply in_remove_ack; eauto.
    + intros k0 Hk. right. auto.
  - destruct (negb (memZ k (s_waiting s))) eqn:M; [apply Same; intros; lia|].
    destruct (lookup_ack k (s_pending s)) as [ok|] eqn:L; [|apply Same; intros; lia].
    apply negb_false_iff in M. apply memZ_in in M.
    constructor; simpl; [| | |discriminate].
    + intros x. specialize (Hc x). rewrite !count_occ_app in *. rewrite (cnt_removeZ k _ x M).
      assert (cnt (s_waiting s) k > 0)%nat as Pos by (apply count_occ_In; exact M).
      destruct ok; simpl; destruct (Z.eq_dec k x) as [Ex|Nx]; try subst x; lia.
    + intros x Hx. apply Hp. eapply in_remove_ack; eauto.
    + destruct ok; [|exact Ha]. intros k0 [<-|Hk]; [|auto]. apply Hp. apply lookup_ack_in. exact L.
  - constructor; simpl; [exact Hc|exact Hp|exact Ha|discriminate].
  - constructor; simpl; [exact Hc|exact Hp|exact Ha|discriminate].
  - constructor; simpl; [exact Hc|exact Hp|exact Ha|discriminate].
  - destruct (negb (workers_can_leave s)); [apply Same; intros; lia|].
    constructor; simpl; [exact Hc|exact Hp|exact Ha|].
    destruct (s_err s); [discriminate|]. destruct (s_cancelled s); [discriminate|].
    destruct (Z.of_nat (length (s_acked s)) <? nfiles s) eqn:C; [discriminate|].
    intros _. apply Z.ltb_ge in C. repeat split; auto.
Qed.

Lemma ends_after_of E evs :
  fold_left ends_after evs E = E ++ ends_of evs.
Proof.
  revert E. induction evs as [|e r IH]; intros E; simpl; [rewrite app_nil_r; reflexivity|].
  rewrite IH. destruct e; simpl; try reflexivity. rewrite <- app_assoc. reflexivity.
Qed.

Lemma SInv_run evs : forall E s, SInv E s -> SInv (fold_left ends_after evs E) (srun s evs).
Proof.
  induction evs as [|e r IH]; intros E s H; simpl; [exact H|]. apply IH. apply SInv_step. exact H.
Qed.

Lemma srun_files evs : forall s, s_files (srun s evs) = s_files s.
Proof. induction evs as [|e r IH]; intros s; simpl; [reflexivity|]. rewrite IH. apply sstep_files. Qed.

(* the sender reports success only if, for every file of the manifest, the
   receiver's FileDone{ok} arrived and was taken by that file's waiter.
   Premises: the manifest's file keys are pairwise distinct; FileEnd is written
   at most once per file and only for manifest files (C17_end_once) *)
Theorem send_success_sound files evs :
  NoDup files -> NoDup (ends_of evs) -> incl (ends_of evs) files ->
  let s := srun (sinit files) evs in
  s_result s = Some SSuccess ->
  s_err s = false /\ s_cancelled s = false /\
  forall k, In k files -> In k (s_acked s) /\ In (k, true) (s_acks_seen s).
Proof.
  intros NF NE IE s Hs.
  pose proof (SInv_run evs [] (sinit files) (SInv_init files)) as H. fold s in H.
  rewrite ends_after_of in H. simpl in H.
  destruct H as [Hcnt Hp Ha Hr]. destruct (Hr Hs) as (He & Hc & Hn).
  split; [exact He|]. split; [exact Hc|].
  assert (NoDup (s_acked s)) as NA.
  { apply (NoDup_count_occ Z.eq_dec). intros x. specialize (Hcnt x). rewrite count_occ_app in Hcnt.
    pose proof (proj1 (NoDup_count_occ Z.eq_dec (ends_of evs)) NE x). lia. }
  assert (incl (s_acked s) files) as IA.
  { intros k Hk. apply IE. apply (count_occ_In Z.eq_dec). specialize (Hcnt k). rewrite count_occ_app in Hcnt.
    apply (count_occ_In Z.eq_dec) in Hk. lia. }
  assert (length files <= length (s_acked s))%nat as L.
  { unfold nfiles in Hn. unfold s in Hn. rewrite srun_files in Hn. simpl in Hn. fold s in Hn. lia. }
  pose proof (NoDup_length_incl NA L IA) as Full.
  intros k Hk. split; [apply Full; exact Hk|apply Ha; apply Full; exact Hk].
Qed.

(* cancellation or any reported error excludes success, whatever else happens *)
Theorem send_cancel_never_success files evs1 evs2 :
  s_result (srun (sinit files) evs1) = None ->
  s_result (srun (sinit files) (evs1 ++ SCancel :: evs2)) <> Some SSuccess.
Proof.
  intros R. unfold srun. rewrite fold_left_app. simpl.
  set (s1 := fold_left sstep evs1 (sinit files)) in *.
  assert (forall evs s, s_cancelled s = true -> s_result s <> Some SSuccess ->
            s_cancelled (fold_left sstep evs s) = true /\ s_result (fold_left sstep evs s) <> Some SSuccess) as G.
  { induction evs as [|e r IH]; intros s C N; simpl; [auto|]. apply IH.
    - unfold sstep. destruct (s_result s); [exact C|]. destruct e; simpl; auto.
      + destruct (s_reader_gone s); auto.
      + destruct (negb (memZ k (s_waiting s))); auto. destruct (lookup_ack k (s_pending s)); auto.
      + destruct (negb (workers_can_leave s)); auto.
    - unfold sstep. destruct (s_result s) eqn:R2; [rewrite R2; exact N|]. destruct e; simpl; try (rewrite ?R2; discriminate).
      + destruct (s_reader_gone s); simpl; rewrite ?R2; discriminate.
      + destruct (negb (memZ k (s_waiting s))); [rewrite R2; discriminate|].
        destruct (lookup_ack k (s_pending s)); simpl; rewrite ?R2; discriminate.
      + destruct (negb (workers_can_leave s)); [rewrite R2; discriminate|]. simpl.
        rewrite C. destruct (s_err s); discriminate. }
  assert (s_result s1 = None) as R1 by exact R.
  apply G; unfold sstep; rewrite R1; simpl; [reflexivity|discriminate].
Qed.

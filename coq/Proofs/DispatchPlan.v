(* The bridge between the two models of the resumed sender.  Model/Resume.v
   (C04, C06) says that for a plan the sender sends "the main pass": every chunk
   index the plan does not skip.  Model/Dispatch.v (C17) is the state machine
   that actually hands chunks to workers.  Here: whenever the plan is known
   before the first hand-out, every schedule of any number of workers that runs
   the scan to its end hands out exactly the main pass - so the abstraction of
   Resume.v is what the dispatch machine does. *)
From Coq Require Import List Arith Bool Lia Permutation ZArith.
Import ListNotations.
From TF Require Import Model.Dispatch Proofs.Dispatch.
From TF Require Model.Sidecar Model.Resume Proofs.ResumeFile.

(* ---- the plan, once set, stays; chunks sent under it are all "sent_known" ---- *)

Lemma take_loop_plan f : forall s l, plan (fst (take_loop f s l)) = plan s.
Proof.
  induction f as [|f IH]; intros s l; cbn [take_loop]; [reflexivity|].
  destruct (nextChunk s <? total s); [|reflexivity].
  destruct (plan_skips (plan s) (nextChunk s)); [rewrite IH; reflexivity|].
  cbn. destruct (total s <=? S (nextChunk s)); reflexivity.
Qed.

Lemma step_plan s e : (forall bm f, e <> PlanSet bm f) -> plan (fst (step s e)) = plan s.
Proof.
  intro H. destruct e; cbn [step].
  - destruct (scheduleDone s); destruct (resendPending s); try reflexivity; apply take_loop_plan.
  - destruct (0 <? inFlight s);
      repeat match goal with |- context [if ?c then _ else _] => destruct c end; reflexivity.
  - repeat match goal with |- context [if ?c then _ else _] => destruct c end; reflexivity.
  - reflexivity.
  - exfalso. eapply H. reflexivity.
  - reflexivity.
  - reflexivity.
Qed.

Definition J (p : list bool * nat) (s : st) (g : ghost) : Prop :=
  plan s = Some p /\ sent_known g = sentl g.

Lemma J_step p s g e : J p s g -> wf_ev s g e ->
  J p (fst (step s e)) (gstep s g e (snd (step s e))).
Proof.
  intros [Hp Hk] W.
  assert (Hne : forall bm f, e <> PlanSet bm f).
  { intros bm f ->. cbn in W. congruence. }
  split; [rewrite step_plan by exact Hne; exact Hp|].
  assert (Hhp : has_plan s = true) by (unfold has_plan; rewrite Hp; reflexivity).
  destruct e as [| | | |bm f|c|].
  - (* Take *)
    cbn [step].
    destruct (scheduleDone s) eqn:Es; destruct (resendPending s) eqn:Er.
    + cbn [take_resend fst snd gstep]. rewrite Er. cbn. exact Hk.
    + cbn [fst snd gstep]. rewrite Er. cbn. exact Hk.
    + cbn [take_resend fst snd gstep]. rewrite Er. cbn. exact Hk.
    + destruct (take_loop_is_take (total s - nextChunk s) s []) as (s' & sk & r & E). rewrite E. cbn [snd gstep]. rewrite Er.
      destruct r as [i|]; cbn; [rewrite Hhp, Hk; reflexivity|exact Hk].
  - (* Finish *)
    cbn [step].
    destruct (0 <? inFlight s);
      repeat match goal with |- context [if ?c then _ else _] => destruct c end; cbn; exact Hk.
  - (* TryEnd *)
    cbn [step].
    repeat match goal with |- context [if ?c then _ else _] => destruct c end; cbn; exact Hk.
  - cbn. exact Hk.
  - exfalso. eapply Hne. reflexivity.
  - cbn. exact Hk.
  - cbn. exact Hk.
Qed.

Lemma J_run p evs : forall s g, J p s g -> wf_run s g evs ->
  J p (fst (grun s g evs)) (snd (grun s g evs)).
Proof.
  induction evs as [|e r IH]; intros s g Hj W; cbn [grun]; [exact Hj|].
  cbn [wf_run] in W. destruct W as [We Wr].
  pose proof (J_step p s g e Hj We) as Hj'.
  destruct (step s e) as [s1 o]. cbn [fst snd] in *. apply IH; assumption.
Qed.

(* with the plan known before the first hand-out and the scan complete, the
   chunks handed out in the main pass are exactly those the plan does not skip *)
Theorem plan_first_sends_main_pass n bm force evs :
  wf_run (init n) g0 (PlanSet bm force :: evs) ->
  let '(s, g) := grun (init n) g0 (PlanSet bm force :: evs) in
  nextChunk s = n ->
  NoDup (sentl g) /\
  forall i, In i (sentl g) <-> i < n /\ plan_skips (Some (bm, force)) i = false.
Proof.
  intros W. pose proof (main_pass_once n _ W) as M.
  cbn [wf_run] in W. destruct W as [_ W]. cbn [step] in W. cbn [grun step] in M |- *.
  set (s0 := set_plan (init n) (Some (bm, force))) in *.
  set (g1 := gstep (init n) g0 (PlanSet bm force) OUnit) in *.
  assert (Hj : J (bm, force) s0 g1) by (split; reflexivity).
  pose proof (J_run (bm, force) evs s0 g1 Hj W) as [Hp Hk].
  destruct (grun s0 g1 evs) as [s g]. cbn [fst snd] in *.
  destruct M as (_ & _ & _ & Perm & ND & Hsk & Hsent).
  intro Hn. rewrite Hn in Perm.
  assert (NDs : NoDup (sentl g)).
  { clear -ND. induction (sentl g) as [|a l IH]; [constructor|].
    cbn in ND. inversion ND; subst. constructor; [intro H; apply H1; apply in_or_app; left; exact H|apply IH; assumption]. }
  split; [exact NDs|].
  intro i. split.
  - intro Hi. split.
    + assert (In i (seq 0 n)) by (eapply Permutation_in; [exact Perm|apply in_or_app; left; exact Hi]).
      apply in_seq in H. lia.
    + rewrite <- Hk in Hi. specialize (Hsent i Hi). rewrite Hp in Hsent. exact Hsent.
  - intros [Hlt Hns].
    assert (In i (sentl g ++ skippedl g)).
    { eapply Permutation_in; [symmetry; exact Perm|]. apply in_seq. lia. }
    apply in_app_or in H. destruct H as [H|H]; [exact H|exfalso].
    destruct (Hsk i H) as (bm' & f' & Hp' & Hb & Hf). rewrite Hp in Hp'. injection Hp' as <- <-.
    unfold plan_skips in Hns. rewrite Hb in Hns. apply Nat.ltb_lt in Hf. rewrite Hf in Hns. discriminate.
Qed.

(* ---- the same statement against Model/Resume.v's main pass ---- *)

Import TF.Model.Sidecar TF.Model.Resume.
Open Scope Z_scope.

(* the bitmap bytes of a resume report as one bool per chunk (what the shim hands
   to the dispatch machine) *)
Definition to_bools (bm : list Z) (bits : Z) : list bool :=
  map (fun i => bit_get bm bits (Z.of_nat i)) (seq 0 (Z.to_nat bits)).

Lemma nth_to_bools bm bits i : (i < Z.to_nat bits)%nat ->
  nth i (to_bools bm bits) false = bit_get bm bits (Z.of_nat i).
Proof.
  intro H. unfold to_bools.
  rewrite (nth_indep _ false (bit_get bm bits (Z.of_nat 0))) by (rewrite map_length, seq_length; exact H).
  rewrite (map_nth (fun i => bit_get bm bits (Z.of_nat i))). rewrite seq_nth by exact H. reflexivity.
Qed.

Theorem dispatch_realises_main_pass (n : nat) (pl : Resume.plan) evs :
  pl_bits pl = Z.of_nat n -> 0 <= pl_force pl ->
  wf_run (init n) g0 (PlanSet (to_bools (pl_bitmap pl) (pl_bits pl)) (Z.to_nat (pl_force pl)) :: evs) ->
  let '(s, g) := grun (init n) g0 (PlanSet (to_bools (pl_bitmap pl) (pl_bits pl)) (Z.to_nat (pl_force pl)) :: evs) in
  nextChunk s = n ->
  NoDup (sentl g) /\
  forall i : nat, In i (sentl g) <-> In (Z.of_nat i) (main_pass (Z.of_nat n) (Some pl)).
Proof.
  intros Hb Hf W.
  pose proof (plan_first_sends_main_pass n _ _ evs W) as P.
  destruct (grun (init n) g0 _) as [s g]. intro Hn. destruct (P Hn) as [ND Hiff].
  split; [exact ND|]. intro i. rewrite Hiff. unfold main_pass. rewrite filter_In, Proofs.ResumeFile.in_zseq, Nat2Z.id.
  assert (Hskip : (i < n)%nat ->
            Dispatch.plan_skips (Some (to_bools (pl_bitmap pl) (pl_bits pl), Z.to_nat (pl_force pl))) i =
            Resume.plan_skips (Some pl) (Z.of_nat i)).
  { intro Hlt. unfold Dispatch.plan_skips, Resume.plan_skips.
    rewrite nth_to_bools by (rewrite Hb, Nat2Z.id; exact Hlt). f_equal.
    destruct (Nat.ltb_spec i (Z.to_nat (pl_force pl))); destruct (Z.ltb_spec (Z.of_nat i) (pl_force pl)); try reflexivity; lia. }
  split.
  - intros [Hlt Hs]. split; [lia|]. rewrite <- Hskip by exact Hlt. rewrite Hs. reflexivity.
  - intros [Hr Hs]. assert (Hlt : (i < n)%nat) by lia. split; [exact Hlt|].
    rewrite Hskip by exact Hlt. apply negb_true_iff in Hs. exact Hs.
Qed.

(* Proofs about Model/Auth.v (property C08). *)
From Coq Require Import ZArith List Bool Arith Lia.
From TF Require Import Model.Auth.
Import ListNotations.
Open Scope Z_scope.

(* ------------------------------------------------------------------ *)
(* byte-list helpers                                                   *)
(* ------------------------------------------------------------------ *)

Lemma bytes_eqb_eq a : forall b, bytes_eqb a b = true <-> a = b.
Proof.
  induction a as [|x a IH]; intros [|y b]; cbn [bytes_eqb]; split; intros H; try reflexivity; try discriminate.
  - apply andb_true_iff in H. destruct H as [H1 H2]. apply Z.eqb_eq in H1. apply IH in H2. subst. reflexivity.
  - inversion H; subst. rewrite Z.eqb_refl. cbn. apply IH. reflexivity.
Qed.

Lemma bytes_eqb_refl a : bytes_eqb a a = true.
Proof. apply bytes_eqb_eq. reflexivity. Qed.

Lemma firstn_plus {A} (a b : nat) : forall l : list A, firstn (a + b) l = firstn a l ++ firstn b (skipn a l).
Proof.
  induction a as [|a IH]; intros l; [reflexivity|].
  destruct l as [|x l]; cbn [Nat.add firstn skipn app].
  - rewrite firstn_nil. reflexivity.
  - rewrite IH. reflexivity.
Qed.

Lemma skipn_app_exact {A} (a b : list A) k : length a = k -> skipn k (a ++ b) = b.
Proof. intros <-. rewrite skipn_app, Nat.sub_diag, skipn_all. reflexivity. Qed.
Lemma firstn_app_exact {A} (a b : list A) k : length a = k -> firstn k (a ++ b) = a.
Proof. intros <-. rewrite firstn_app, Nat.sub_diag, firstn_all, firstn_O, app_nil_r. reflexivity. Qed.

Lemma peer_role_receiver : peer_role role_receiver = role_sender. Proof. reflexivity. Qed.
Lemma peer_role_sender : peer_role role_sender = role_receiver. Proof. reflexivity. Qed.

(* ------------------------------------------------------------------ *)
(* the message codec                                                   *)
(* ------------------------------------------------------------------ *)

Lemma encode_length role nonce mac :
  length nonce = nonce_size -> length mac = mac_size -> length (encode_msg role nonce mac) = msg_size.
Proof. intros Hn Hm. unfold encode_msg. cbn [length]. rewrite app_length, Hn, Hm. reflexivity. Qed.

Lemma decode_encode role nonce mac extra :
  length nonce = nonce_size -> length mac = mac_size ->
  decode_msg (encode_msg role nonce mac ++ extra) = Some (role, nonce, mac).
Proof.
  intros Hn Hm. unfold decode_msg.
  assert (L : (length (encode_msg role nonce mac ++ extra) <? msg_size)%nat = false).
  { apply Nat.ltb_ge. rewrite app_length, encode_length by assumption. lia. }
  rewrite L. unfold encode_msg. cbn [app]. unfold auth_version. rewrite Z.eqb_refl.
  rewrite <- app_assoc.
  rewrite (firstn_app_exact nonce) by exact Hn.
  rewrite (skipn_app_exact nonce) by exact Hn.
  rewrite (firstn_app_exact mac) by exact Hm. reflexivity.
Qed.

Lemma decode_some d r n m :
  decode_msg d = Some (r, n, m) ->
  firstn msg_size d = encode_msg r n m /\ length n = nonce_size /\ length m = mac_size /\ (msg_size <= length d)%nat.
Proof.
  unfold decode_msg. destruct (length d <? msg_size)%nat eqn:L; [discriminate|].
  apply Nat.ltb_ge in L.
  destruct d as [|v [|r' rest]]; try discriminate.
  destruct (v =? auth_version) eqn:V; [|discriminate]. apply Z.eqb_eq in V. subst v.
  remember (firstn nonce_size rest) as n' eqn:En.
  remember (firstn mac_size (skipn nonce_size rest)) as m' eqn:Em.
  intros H. injection H as E1 E2 E3. subst r n m n' m'.
  cbn [length] in L. unfold msg_size in *.
  assert (L' : (48 <= length rest)%nat) by lia.
  split; [|split; [|split]].
  - unfold encode_msg. change 50%nat with (S (S (16 + 32))). cbn [firstn]. rewrite firstn_plus. reflexivity.
  - rewrite firstn_length. unfold nonce_size. lia.
  - rewrite firstn_length, skipn_length. unfold mac_size, nonce_size. lia.
  - cbn [length]. lia.
Qed.

Lemma decode_short d : (length d < msg_size)%nat -> decode_msg d = None.
Proof. intros H. unfold decode_msg. apply Nat.ltb_lt in H. rewrite H. reflexivity. Qed.

Section ConcreteProofs.
  Variable hm : bytes -> bytes -> bytes.
  (* HMAC-SHA256 outputs 32 bytes *)
  Hypothesis hm_len : forall k d, length (hm k d) = mac_size.
  (* no two different (version, role, nonce) inputs collide under one key *)
  Hypothesis hm_coll_free : forall k d1 d2, length d1 = 18%nat -> length d2 = 18%nat -> hm k d1 = hm k d2 -> d1 = d2.

  Lemma emit_length code ekm role nonce : length nonce = nonce_size -> length (emit hm code ekm role nonce) = msg_size.
  Proof. intros Hn. unfold emit. apply encode_length; [exact Hn|apply hm_len]. Qed.

  (* completeness of one verification: the peer's genuine message, with any trailing bytes *)
  Lemma verify_genuine code ekm role nonce extra :
    length nonce = nonce_size ->
    verify hm (derive_key hm code ekm) role (emit hm code ekm (peer_role role) nonce ++ extra) = true.
  Proof.
    intros Hn. unfold verify, emit. rewrite decode_encode by (try exact Hn; apply hm_len).
    rewrite Z.eqb_refl. cbn [andb]. apply bytes_eqb_refl.
  Qed.

  (* what an accepted message looks like *)
  Lemma verify_true key role d :
    verify hm key role d = true ->
    exists n, length n = nonce_size /\ firstn msg_size d = encode_msg (peer_role role) n (auth_mac hm key (peer_role role) n).
  Proof.
    unfold verify. destruct (decode_msg d) as [[[r n] m]|] eqn:D; [|discriminate].
    intros H. apply andb_true_iff in H. destruct H as [Hr Hm]. apply Z.eqb_eq in Hr. apply bytes_eqb_eq in Hm. subst r m.
    apply decode_some in D. destruct D as (F & Ln & _ & _). exists n. split; assumption.
  Qed.

  (* An accepted message that is not the genuine one carries a different nonce
     AND a different, valid MAC: changing the version, the role, the nonce
     alone or the MAC alone is never accepted. *)
  Lemma verify_other key role d n0 :
    length n0 = nonce_size ->
    verify hm key role d = true ->
    firstn msg_size d = encode_msg (peer_role role) n0 (auth_mac hm key (peer_role role) n0) \/
    exists n, length n = nonce_size /\ n <> n0 /\
      auth_mac hm key (peer_role role) n <> auth_mac hm key (peer_role role) n0 /\
      firstn msg_size d = encode_msg (peer_role role) n (auth_mac hm key (peer_role role) n).
  Proof.
    intros L0 V. apply verify_true in V. destruct V as (n & Ln & F).
    destruct (list_eq_dec Z.eq_dec n n0) as [E|NE].
    - left. subst. exact F.
    - right. exists n. repeat split; try assumption.
      intros C. unfold auth_mac in C. apply hm_coll_free in C.
      + unfold auth_data in C. inversion C. contradiction.
      + unfold auth_data. cbn [length]. rewrite Ln. reflexivity.
      + unfold auth_data. cbn [length]. rewrite L0. reflexivity.
  Qed.

  (* one byte of the genuine message replaced by a different one: rejected *)
  Lemma verify_one_byte_changed key role n0 pre b b' post :
    length n0 = nonce_size -> b' <> b ->
    encode_msg (peer_role role) n0 (auth_mac hm key (peer_role role) n0) = pre ++ b :: post ->
    verify hm key role (pre ++ b' :: post) = false.
  Proof.
    intros L0 Hb E. destruct (verify hm key role (pre ++ b' :: post)) eqn:V; [|reflexivity]. exfalso.
    set (r := peer_role role) in *.
    assert (Len : length (pre ++ b' :: post) = msg_size).
    { transitivity (length (pre ++ b :: post)); [rewrite !app_length; reflexivity|].
      rewrite <- E. apply encode_length; [exact L0|apply hm_len]. }
    destruct (verify_other key role _ n0 L0 V) as [F|(n & Ln & NE & ME & F)]; fold r in F;
      rewrite <- Len, firstn_all in F.
    - rewrite E in F. apply app_inv_head in F. inversion F. contradiction.
    - fold r in ME. unfold encode_msg in F, E.
      destruct (Nat.lt_ge_cases (length pre) 18) as [Lt|Ge].
      + (* the change is in version/role/nonce: the MAC fields coincide *)
        assert (S1 : skipn 18 (pre ++ b' :: post) = skipn 18 (pre ++ b :: post)).
        { rewrite !skipn_app. rewrite !(skipn_all2 pre) by lia.
          destruct (18 - length pre)%nat as [|k] eqn:K; [lia|]. reflexivity. }
        rewrite F, <- E in S1.
        change 18%nat with (S (S 16)) in S1. rewrite !skipn_cons in S1.
        rewrite (skipn_app_exact n) in S1 by exact Ln.
        rewrite (skipn_app_exact n0) in S1 by exact L0.
        contradiction.
      + (* the change is in the MAC: version/role/nonce coincide *)
        assert (S1 : firstn 18 (pre ++ b' :: post) = firstn 18 (pre ++ b :: post)).
        { rewrite !firstn_app. replace (18 - length pre)%nat with 0%nat by lia. reflexivity. }
        rewrite F, <- E in S1.
        change 18%nat with (S (S 16)) in S1. rewrite !firstn_cons in S1.
        rewrite (firstn_app_exact n) in S1 by exact Ln.
        rewrite (firstn_app_exact n0) in S1 by exact L0.
        injection S1 as S1. contradiction.
  Qed.

  Lemma lxor_pow_neq b i : Z.lxor b (2 ^ Z.of_nat i) <> b.
  Proof.
    intros H. assert (E : Z.lxor b (Z.lxor b (2 ^ Z.of_nat i)) = Z.lxor b b) by (rewrite H; reflexivity).
    rewrite <- Z.lxor_assoc, Z.lxor_nilpotent, Z.lxor_0_l in E.
    pose proof (Z.pow_pos_nonneg 2 (Z.of_nat i) ltac:(lia) ltac:(lia)). lia.
  Qed.

  Lemma flip_bit_shape : forall m i, (i < 8 * length m)%nat ->
    exists pre b b' post, m = pre ++ b :: post /\ flip_bit i m = pre ++ b' :: post /\ b' <> b.
  Proof.
    induction m as [|x m IH]; intros i Hi; [cbn in Hi; lia|].
    cbn [flip_bit]. destruct (i <? 8)%nat eqn:L.
    - exists [], x, (Z.lxor x (2 ^ Z.of_nat i)), m. repeat split. apply lxor_pow_neq.
    - apply Nat.ltb_ge in L. destruct (IH (i - 8)%nat) as (pre & b & b' & post & E1 & E2 & N).
      { cbn [length] in Hi. lia. }
      exists (x :: pre), b, b', post. cbn [app]. rewrite <- E1, E2. repeat split. exact N.
  Qed.

  (* EVERY single-bit flip of the genuine message is rejected *)
  Lemma verify_flip key role n0 i :
    length n0 = nonce_size -> (i < 8 * msg_size)%nat ->
    verify hm key role (flip_bit i (encode_msg (peer_role role) n0 (auth_mac hm key (peer_role role) n0))) = false.
  Proof.
    intros L0 Hi.
    destruct (flip_bit_shape (encode_msg (peer_role role) n0 (auth_mac hm key (peer_role role) n0)) i) as (pre & b & b' & post & E1 & E2 & N).
    { rewrite encode_length; [exact Hi|exact L0|apply hm_len]. }
    rewrite E2. eapply verify_one_byte_changed; eauto.
  Qed.

  (* EVERY truncation is rejected *)
  Lemma verify_trunc key role m n : (n < msg_size)%nat -> verify hm key role (firstn n m) = false.
  Proof.
    intros Hn. unfold verify. rewrite decode_short; [reflexivity|].
    rewrite firstn_length. lia.
  Qed.

  (* two honest ends, same code, same session *)
  Lemma run_complete code ekm nS nR e1 e2 :
    length nS = nonce_size -> length nR = nonce_size ->
    run hm code code ekm ekm nS nR NoFault NoFault = (true, true) /\
    run hm code code ekm ekm nS nR (Extend e1) (Extend e2) = (true, true).
  Proof.
    intros LS LR. unfold run, apply_fault. split.
    - rewrite <- (app_nil_r (emit hm code ekm role_sender nS)).
      rewrite <- peer_role_receiver at 2. rewrite verify_genuine by exact LS.
      rewrite <- (app_nil_r (emit hm code ekm role_receiver nR)).
      rewrite <- peer_role_sender at 2. rewrite verify_genuine by exact LR. reflexivity.
    - rewrite <- peer_role_receiver at 2. rewrite verify_genuine by exact LS.
      rewrite <- peer_role_sender at 2. rewrite verify_genuine by exact LR. reflexivity.
  Qed.

  Lemma run_flip1 codeS codeR ekmS ekmR nS nR i f2 :
    codeS = codeR -> ekmS = ekmR ->
    length nS = nonce_size -> (i < 8 * msg_size)%nat ->
    run hm codeS codeR ekmS ekmR nS nR (Flip i) f2 = (false, false).
  Proof.
    intros -> -> LS Hi. unfold run, apply_fault, emit.
    rewrite <- peer_role_receiver at 1 2. rewrite verify_flip by assumption. reflexivity.
  Qed.

  Lemma run_trunc1 codeS codeR ekmS ekmR nS nR n f2 :
    (n < msg_size)%nat -> run hm codeS codeR ekmS ekmR nS nR (Trunc n) f2 = (false, false).
  Proof. intros Hn. unfold run, apply_fault. rewrite verify_trunc by exact Hn. reflexivity. Qed.

  Lemma run_flip2 code ekm nS nR i :
    length nS = nonce_size -> length nR = nonce_size -> (i < 8 * msg_size)%nat ->
    run hm code code ekm ekm nS nR NoFault (Flip i) = (false, true).
  Proof.
    intros LS LR Hi. unfold run. cbn [apply_fault].
    rewrite <- (app_nil_r (emit hm code ekm role_sender nS)).
    rewrite <- peer_role_receiver at 2. rewrite verify_genuine by exact LS.
    unfold emit. rewrite <- peer_role_sender at 1 2. rewrite verify_flip by assumption. reflexivity.
  Qed.

  Lemma run_trunc2 code ekm nS nR n :
    length nS = nonce_size -> (n < msg_size)%nat ->
    run hm code code ekm ekm nS nR NoFault (Trunc n) = (false, true).
  Proof.
    intros LS Hn. unfold run. cbn [apply_fault].
    rewrite <- (app_nil_r (emit hm code ekm role_sender nS)).
    rewrite <- peer_role_receiver at 2. rewrite verify_genuine by exact LS.
    rewrite verify_trunc by exact Hn. reflexivity.
  Qed.

  (* a reflected proof (own role byte) is rejected whatever else it contains *)
  Lemma verify_reflection key role d r n m :
    decode_msg d = Some (r, n, m) -> r <> peer_role role -> verify hm key role d = false.
  Proof.
    intros D Hr. unfold verify. rewrite D. destruct (r =? peer_role role) eqn:E; [|reflexivity].
    apply Z.eqb_eq in E. contradiction.
  Qed.

  Lemma verify_own_message code ekm role nonce :
    length nonce = nonce_size -> (role = role_sender \/ role = role_receiver) ->
    verify hm (derive_key hm code ekm) role (emit hm code ekm role nonce) = false.
  Proof.
    intros Ln Hr. rewrite <- (app_nil_r (emit _ _ _ _ _)). unfold emit.
    eapply verify_reflection; [apply decode_encode; [exact Ln|apply hm_len]|].
    destruct Hr as [-> | ->]; discriminate.
  Qed.
  Lemma run_flip_both code ekm nS nR i :
    length nS = nonce_size -> length nR = nonce_size -> (i < 8 * msg_size)%nat ->
    (forall f2, run hm code code ekm ekm nS nR (Flip i) f2 = (false, false)) /\
    run hm code code ekm ekm nS nR NoFault (Flip i) = (false, true).
  Proof.
    intros LS LR Hi. split.
    - intros f2. apply run_flip1; auto.
    - apply run_flip2; assumption.
  Qed.

  Lemma run_trunc_both code ekm nS nR n :
    length nS = nonce_size -> (n < msg_size)%nat ->
    (forall codeR ekmR f2, run hm code codeR ekm ekmR nS nR (Trunc n) f2 = (false, false)) /\
    run hm code code ekm ekm nS nR NoFault (Trunc n) = (false, true).
  Proof.
    intros LS Hn. split.
    - intros codeR ekmR f2. apply run_trunc1. exact Hn.
    - apply run_trunc2; assumption.
  Qed.
End ConcreteProofs.

(* ---- HMAC key preparation: which join codes are the same key ---- *)

Lemma key_block_pad0 hash c : (length c < hmac_block)%nat -> key_block hash (c ++ [0]) = key_block hash c.
Proof.
  intros L. unfold key_block, hmac_block in *. rewrite app_length. cbn [length].
  replace (64 <? length c + 1)%nat with false by (symmetry; apply Nat.ltb_ge; lia).
  replace (64 <? length c)%nat with false by (symmetry; apply Nat.ltb_ge; lia).
  rewrite app_length. cbn [length]. rewrite <- app_assoc. f_equal.
  replace (64 - length c)%nat with (S (64 - (length c + 1))) by lia. reflexivity.
Qed.

Lemma strip_zero_pad : forall a b n m, ~ In 0 a -> ~ In 0 b -> a ++ repeat 0 n = b ++ repeat 0 m -> a = b.
Proof.
  induction a as [|x a IH]; intros [|y b] n m Ha Hb E.
  - reflexivity.
  - exfalso. destruct n; cbn in E; [discriminate|]. inversion E. apply Hb. left. congruence.
  - exfalso. destruct m; cbn in E; [discriminate|]. inversion E. apply Ha. left. congruence.
  - cbn in E. inversion E; subst. f_equal. apply (IH b n m); [| |assumption]; intros C.
    + apply Ha. right. exact C.
    + apply Hb. right. exact C.
Qed.

(* on canonical codes (at most 64 bytes, no zero byte) the key block is injective *)
Lemma key_block_inj_canon hash c1 c2 :
  canonical_code c1 -> canonical_code c2 -> key_block hash c1 = key_block hash c2 -> c1 = c2.
Proof.
  intros [L1 Z1] [L2 Z2]. unfold key_block.
  replace (hmac_block <? length c1)%nat with false by (symmetry; apply Nat.ltb_ge; exact L1).
  replace (hmac_block <? length c2)%nat with false by (symmetry; apply Nat.ltb_ge; exact L2).
  apply strip_zero_pad; assumption.
Qed.

Section Alias.
  Variable hm : bytes -> bytes -> bytes.
  Variable hash : bytes -> bytes.
  Hypothesis hm_len : forall k d, length (hm k d) = mac_size.
  (* RFC 2104: HMAC uses its key only through the key block *)
  Hypothesis hm_by_block : forall k1 k2 d, key_block hash k1 = key_block hash k2 -> hm k1 d = hm k2 d.

  (* two ends holding DIFFERENT join codes on one session accept each other *)
  Lemma alias_accepts c ekm nS nR :
    (length c < hmac_block)%nat -> length nS = nonce_size -> length nR = nonce_size ->
    c <> c ++ [0] /\ run hm c (c ++ [0]) ekm ekm nS nR NoFault NoFault = (true, true).
  Proof.
    intros L LS LR. split.
    - intros E. apply (f_equal (@length Z)) in E. rewrite app_length in E. cbn in E. lia.
    - assert (K : derive_key hm (c ++ [0]) ekm = derive_key hm c ekm).
      { unfold derive_key. apply hm_by_block. apply key_block_pad0. exact L. }
      unfold run. rewrite K. cbn [apply_fault]. unfold emit at 1.
      rewrite <- (app_nil_r (encode_msg _ _ _)).
      pose proof (verify_genuine hm hm_len c ekm role_receiver nS [] LS) as V1.
      rewrite peer_role_receiver in V1. unfold emit in V1. rewrite V1.
      unfold emit. rewrite K.
      pose proof (verify_genuine hm hm_len c ekm role_sender nR [] LR) as V2.
      rewrite peer_role_sender in V2. unfold emit in V2.
      rewrite <- (app_nil_r (encode_msg _ _ _)). rewrite V2. reflexivity.
  Qed.
End Alias.

(* the hypotheses used above are jointly satisfiable (non-vacuity) *)
Definition toy_hm (k d : bytes) : bytes := firstn 32 (d ++ repeat 0 32).

Lemma toy_hm_len k d : length (toy_hm k d) = mac_size.
Proof. unfold toy_hm. rewrite firstn_length, app_length, repeat_length. unfold mac_size. lia. Qed.

Lemma toy_hm_coll_free k d1 d2 : length d1 = 18%nat -> length d2 = 18%nat -> toy_hm k d1 = toy_hm k d2 -> d1 = d2.
Proof.
  intros L1 L2. unfold toy_hm.
  rewrite !firstn_app, L1, L2.
  rewrite (firstn_all2 (n:=32) d1) by lia. rewrite (firstn_all2 (n:=32) d2) by lia.
  intros E. apply app_inv_tail in E. exact E.
Qed.

Lemma toy_hm_by_block hash k1 k2 d : key_block hash k1 = key_block hash k2 -> toy_hm k1 d = toy_hm k2 d.
Proof. reflexivity. Qed.

Lemma hyps_satisfiable :
  (forall k d, length (toy_hm k d) = mac_size) /\
  (forall k d1 d2, length d1 = 18%nat -> length d2 = 18%nat -> toy_hm k d1 = toy_hm k d2 -> d1 = d2) /\
  (forall hash k1 k2 d, key_block hash k1 = key_block hash k2 -> toy_hm k1 d = toy_hm k2 d).
Proof. split; [exact toy_hm_len|]. split; [exact toy_hm_coll_free|exact toy_hm_by_block]. Qed.

(* ------------------------------------------------------------------ *)
(* Symbolic layer                                                      *)
(* ------------------------------------------------------------------ *)

Section SymbolicProofs.
  Variable role_of : nat -> Z.
  Variable code_of : nat -> nat.
  Variable sess_of : nat -> nat.
  Variable adv_code : nat -> Prop.

  Notation key_of := (key_of code_of sess_of).
  Notation msg_of := (msg_of role_of code_of sess_of).
  Notation accepts := (accepts role_of code_of sess_of).
  Notation know := (know role_of code_of sess_of adv_code).
  Notation valid := (valid role_of code_of sess_of adv_code).

  (* "t can be built without the code c, except for the MACs in H" *)
  Fixpoint good (c : nat) (H : term -> Prop) (t : term) : Prop :=
    match t with
    | TCode c' => c' <> c
    | TEkm _ | TNonce _ | TJunk _ => True
    | THmac k d => H (THmac k d) \/ (good c H k /\ good c H d)
    | TData _ _ n => good c H n
    | TMsg _ _ n m => good c H n /\ good c H m
    end.

  Lemma good_mono c (H H' : term -> Prop) : (forall t, H t -> H' t) -> forall t, good c H t -> good c H' t.
  Proof.
    intros HH. induction t; cbn [good]; intros G; auto.
    - destruct G as [G|[G1 G2]]; [left; auto|right; split; auto].
    - destruct G; split; auto.
  Qed.

  Lemma derives_good c H (K : term -> Prop) :
    (forall t, K t -> good c H t) -> forall t, derives K t -> good c H t.
  Proof.
    intros HK t D. induction D; cbn [good] in *; auto.
    - tauto.
    - tauto.
  Qed.

  (* the MACs honest parties holding code c have issued in tr *)
  Definition issued (c : nat) (tr : list event) (t : term) : Prop :=
    exists p n, In (Send p n) tr /\ code_of p = c /\ t = mac_term (key_of p) (role_of p) (TNonce n).

  Lemma know_good c tr : ~ adv_code c -> forall t, know tr t -> good c (issued c tr) t.
  Proof.
    intros NA t [[(c' & A & ->)|(s & ->)]|(p & n & Hin & ->)]; cbn [good].
    - intros E. subst. contradiction.
    - trivial.
    - unfold Auth.msg_of, msg_term. cbn [good]. split; [trivial|].
      destruct (Nat.eq_dec (code_of p) c) as [E|NE].
      + left. exists p, n. repeat split; assumption.
      + right. unfold mac_term, Auth.key_of, key_term. cbn [good]. split; [|trivial].
        right. split; [exact NE|trivial].
  Qed.

  (* UNFORGEABILITY: a message an honest party accepts, delivered by the
     attacker, is literally a message issued by an honest party of the opposite
     role that holds the same code and sits on the same TLS session *)
  Lemma accepted_is_issued tr p m :
    ~ adv_code (code_of p) -> derives (know tr) m -> accepts p m ->
    exists p' n, In (Send p' n) tr /\ role_of p' = peer_role (role_of p) /\
                 code_of p' = code_of p /\ sess_of p' = sess_of p /\ m = msg_of p' n.
  Proof.
    intros NA D (nn & ->).
    pose proof (derives_good (code_of p) (issued (code_of p) tr) _ (know_good _ tr NA) _ D) as G.
    unfold msg_term in G. cbn [good] in G. destruct G as [_ G].
    unfold mac_term at 1 in G. cbn [good] in G. destruct G as [G|[G _]].
    - destruct G as (p' & n & I & Ec & E). unfold mac_term, Auth.key_of, key_term in E.
      inversion E; subst. exists p', n. repeat split; try assumption; try congruence.
      unfold Auth.msg_of, msg_term, mac_term, Auth.key_of, key_term. congruence.
    - exfalso. unfold Auth.key_of, key_term in G. cbn [good] in G. destruct G as [G|[G _]].
      + destruct G as (p' & n & _ & _ & E). unfold mac_term in E. inversion E.
      + apply G. reflexivity.
  Qed.

  Lemma valid_tail e tr : valid (e :: tr) -> valid tr.
  Proof. intros V. inversion V; assumption. Qed.

  Lemma valid_suffix tr1 : forall tr2, valid (tr1 ++ tr2) -> valid tr2.
  Proof. induction tr1 as [|e tr1 IH]; intros tr2 V; [exact V|]. apply IH. eapply valid_tail. exact V. Qed.

  (* what an Accept event at the head of a valid trace means *)
  Lemma accept_head p m tr : valid (Accept p m :: tr) ->
    derives (know tr) m /\ accepts p m /\
    (role_of p = role_receiver \/ (role_of p = role_sender /\ exists n, In (Send p n) tr)).
  Proof.
    intros V. inversion V; subst.
    - repeat split; try assumption. left. assumption.
    - repeat split; try assumption. right. split; [assumption|]. eexists. eassumption.
  Qed.

  Theorem sound_accept tr1 tr2 p m :
    valid (tr1 ++ Accept p m :: tr2) -> ~ adv_code (code_of p) ->
    exists p' n, In (Send p' n) tr2 /\ role_of p' = peer_role (role_of p) /\
                 code_of p' = code_of p /\ sess_of p' = sess_of p /\ m = msg_of p' n.
  Proof.
    intros V NA. apply valid_suffix in V. apply accept_head in V. destruct V as (D & A & _).
    eapply accepted_is_issued; eassumption.
  Qed.

  (* an honest receiver sends its proof only after it has accepted *)
  Lemma receiver_send_after_accept tr : valid tr -> forall p n, In (Send p n) tr -> role_of p = role_receiver ->
    exists m, In (Accept p m) tr.
  Proof.
    induction 1 as [|p0 n0 tr V IH R|p0 m0 tr V IH R D A|p0 n0 m0 tr V IH R I|p0 n0 m0 tr V IH R I D A]; intros p n Hin Hr.
    - destruct Hin.
    - destruct Hin as [E|Hin].
      + inversion E; subst. rewrite R in Hr. discriminate.
      + destruct (IH _ _ Hin Hr) as (m & Im). exists m. right. exact Im.
    - destruct Hin as [E|Hin]; [discriminate|]. destruct (IH _ _ Hin Hr) as (m & Im). exists m. right. exact Im.
    - destruct Hin as [E|Hin].
      + inversion E; subst. exists m0. right. exact I.
      + destruct (IH _ _ Hin Hr) as (m & Im). exists m. right. exact Im.
    - destruct Hin as [E|Hin]; [discriminate|]. destruct (IH _ _ Hin Hr) as (m & Im). exists m. right. exact Im.
  Qed.

  Lemma in_split_valid e tr : valid tr -> In e tr -> exists tr1 tr2, tr = tr1 ++ e :: tr2.
  Proof. intros _ I. apply in_split. exact I. Qed.

  (* SENDER side, full chain: if the sender accepts, an honest receiver on the
     same session with the same code accepted before, and what that receiver
     accepted was issued by an honest sender on that session with that code *)
  Theorem sound_sender_chain tr1 tr2 p m :
    valid (tr1 ++ Accept p m :: tr2) -> role_of p = role_sender -> ~ adv_code (code_of p) ->
    exists pr nr, In (Send pr nr) tr2 /\ role_of pr = role_receiver /\ code_of pr = code_of p /\ sess_of pr = sess_of p /\
      m = msg_of pr nr /\
      exists m1 ps ns, In (Accept pr m1) tr2 /\ In (Send ps ns) tr2 /\ role_of ps = role_sender /\
        code_of ps = code_of p /\ sess_of ps = sess_of p /\ m1 = msg_of ps ns.
  Proof.
    intros V Rp NA.
    destruct (sound_accept _ _ _ _ V NA) as (pr & nr & I & R & C & S & E).
    rewrite Rp in R. change (peer_role role_sender) with role_receiver in R.
    exists pr, nr. repeat split; try assumption.
    assert (V2 : valid tr2) by (apply valid_suffix in V; eapply valid_tail; exact V).
    destruct (receiver_send_after_accept _ V2 _ _ I R) as (m1 & I1).
    destruct (in_split _ _ I1) as (a & b & Eab). subst tr2.
    assert (NA' : ~ adv_code (code_of pr)) by (rewrite C; exact NA).
    destruct (sound_accept _ _ _ _ V2 NA') as (ps & ns & Is & Rs & Cs & Ss & Es).
    rewrite R in Rs. change (peer_role role_receiver) with role_sender in Rs.
    exists m1, ps, ns. repeat split; try assumption; try congruence.
    apply in_or_app. right. right. exact Is.
  Qed.

  (* accepting each other's genuine messages forces equal code and session *)
  Lemma accepts_msg_of p q n : accepts p (msg_of q n) ->
    code_of q = code_of p /\ sess_of q = sess_of p /\ role_of q = peer_role (role_of p).
  Proof.
    intros (nn & E). unfold Auth.msg_of, msg_term, mac_term, Auth.key_of, key_term in E.
    inversion E. repeat split; congruence.
  Qed.

  (* reflection / same-role proofs: never accepted, whoever knows what *)
  Lemma accept_not_same_role tr1 tr2 p m q n :
    valid (tr1 ++ Accept p m :: tr2) -> role_of p = role_sender \/ role_of p = role_receiver ->
    role_of q = role_of p -> m <> msg_of q n.
  Proof.
    intros V Hr Eq E. apply valid_suffix in V. apply accept_head in V. destruct V as (_ & A & _).
    subst m. apply accepts_msg_of in A. destruct A as (_ & _ & R). rewrite Eq in R.
    destruct Hr as [H|H]; rewrite H in R; discriminate.
  Qed.

  (* the role byte and the version are bound by the MAC: an accepted message
     with the MAC of an issued proof IS that proof *)
  Lemma accept_binds_fields p v r nn k v' r' nn' :
    accepts p (TMsg v r nn (THmac k (TData v' r' nn'))) ->
    v = auth_version /\ v' = auth_version /\ r = peer_role (role_of p) /\ r' = r /\ nn' = nn /\ k = key_of p.
  Proof.
    intros (x & E). unfold msg_term, mac_term in E. inversion E; subst. repeat split; reflexivity.
  Qed.

  (* completeness: the honest run is a valid trace in which both sides accept *)
  Lemma honest_run_valid ps pr n1 n2 :
    role_of ps = role_sender -> role_of pr = role_receiver ->
    code_of ps = code_of pr -> sess_of ps = sess_of pr ->
    valid [Accept ps (msg_of pr n2); Send pr n2; Accept pr (msg_of ps n1); Send ps n1].
  Proof.
    intros Rs Rr C S.
    assert (K : key_of ps = key_of pr) by (unfold Auth.key_of; rewrite C, S; reflexivity).
    eapply v_saccept with (n := n1).
    - eapply v_rsend with (m := msg_of ps n1).
      + apply v_raccept.
        * apply v_ssend; [apply v_nil|exact Rs].
        * exact Rr.
        * apply d_base. right. exists ps, n1. split; [left; reflexivity|reflexivity].
        * exists (TNonce n1). unfold Auth.msg_of. rewrite Rs, Rr, K. reflexivity.
      + exact Rr.
      + left. reflexivity.
    - exact Rs.
    - right. right. left. reflexivity.
    - apply d_base. right. exists pr, n2. split; [left; reflexivity|reflexivity].
    - exists (TNonce n2). unfold Auth.msg_of. rewrite Rs, Rr, K. reflexivity.
  Qed.

  (* and the attacker who HOLDS the code does pass (so the exception in the
     soundness theorems is necessary, not an artefact) *)
  Lemma insider_passes pr c :
    role_of pr = role_receiver -> adv_code (code_of pr) -> c = code_of pr ->
    valid [Accept pr (msg_term (key_of pr) role_sender (TJunk 0))].
  Proof.
    intros Rr A ->. apply v_raccept; [apply v_nil|exact Rr| |].
    - unfold msg_term, mac_term, Auth.key_of, key_term.
      apply d_msg; [apply d_junk|]. apply d_hmac.
      + apply d_hmac; apply d_base; left; [left; eexists; split; [exact A|reflexivity]|right; eexists; reflexivity].
      + apply d_data. apply d_junk.
    - exists (TJunk 0). rewrite Rr. reflexivity.
  Qed.
  Lemma accept_in_trace tr p m : valid tr -> In (Accept p m) tr -> accepts p m.
  Proof.
    intros V I. destruct (in_split _ _ I) as (a & b & ->). apply valid_suffix in V.
    apply accept_head in V. tauto.
  Qed.

  (* a peer with a different code: if every honest opposite-role party on p's
     session holds another code, p never accepts *)
  Theorem wrong_code_rejected tr1 tr2 p m :
    valid (tr1 ++ Accept p m :: tr2) -> ~ adv_code (code_of p) ->
    (forall q, role_of q = peer_role (role_of p) -> sess_of q = sess_of p -> code_of q <> code_of p) -> False.
  Proof.
    intros V NA H. destruct (sound_accept _ _ _ _ V NA) as (q & n & _ & R & C & S & _). exact (H q R S C).
  Qed.

  (* relay / rogue endpoint: if no honest opposite-role party sits on p's TLS
     session (its other end is the attacker, who may sit on any number of other
     sessions with honest parties holding the right code), p never accepts *)
  Theorem relay_rejected tr1 tr2 p m :
    valid (tr1 ++ Accept p m :: tr2) -> ~ adv_code (code_of p) ->
    (forall q, role_of q = peer_role (role_of p) -> sess_of q <> sess_of p) -> False.
  Proof.
    intros V NA H. destruct (sound_accept _ _ _ _ V NA) as (q & n & _ & R & _ & S & _). exact (H q R S).
  Qed.

  (* accepted by both sides (each the other's proof) iff same code and one session *)
  Theorem both_accept_iff ps pr :
    role_of ps = role_sender -> role_of pr = role_receiver ->
    ((exists tr n1 n2, valid tr /\ In (Accept pr (msg_of ps n1)) tr /\ In (Accept ps (msg_of pr n2)) tr) <->
     (code_of ps = code_of pr /\ sess_of ps = sess_of pr)).
  Proof.
    intros Rs Rr. split.
    - intros (tr & n1 & n2 & V & I1 & _). apply (accept_in_trace _ _ _ V) in I1.
      apply accepts_msg_of in I1. tauto.
    - intros [C S]. exists [Accept ps (msg_of pr 1); Send pr 1; Accept pr (msg_of ps 0); Send ps 0], 0%nat, 1%nat.
      split; [apply honest_run_valid; assumption|]. split; cbn; tauto.
  Qed.
End SymbolicProofs.

(* C01, the last step from chunks to bytes.  The receiver model (Model/Recv.v)
   logs every positional write as (file key, chunk index, length, payload
   token); the tree theorem (Proofs/Tree.v) says that after a reported success
   every chunk index of every file is either covered by a write carrying the
   source's payload or was marked in the (honest) prior state.  Here: replaying
   the logged writes of a file, in the order they happened, on the data file the
   run started from, gives the source byte for byte. *)
From Coq Require Import ZArith List Bool Lia Arith.
Import ListNotations.
From TF Require Import Lib.GoInt Lib.Bytes Gen.Geometry Proofs.Geometry Model.Sidecar Model.Resume Proofs.ResumeFile.
From TF Require Model.Recv Proofs.Tree.
Open Scope Z_scope.

(* the general statement behind writes_cover_identical and resume_identical: every
   chunk index is written by this run or already holds the source's bytes *)
Theorem writes_cover_or_intact cs src idxs f :
  0 < cs -> zlen f = zlen src -> Forall (fun i => 0 <= i) idxs ->
  (forall i, 0 <= i -> i * cs < zlen src -> In i idxs \/ chunk_at cs f i = chunk_at cs src i) ->
  put_chunks cs src idxs f = src.
Proof.
  intros Hc L Hall Hcov. rewrite (put_chunks_n cs src idxs Hc Hall).
  set (c := Z.to_nat cs). assert (Hcpos : (0 < c)%nat) by (unfold c; lia).
  assert (Lnat : length f = length src) by (unfold zlen in L; lia).
  apply list_ext.
  - rewrite (puts_n_length c); assumption.
  - intros k Hk. rewrite (puts_n_length c) in Hk by assumption.
    rewrite (nth_error_puts_n c Hcpos) by assumption.
    destruct (existsb (Nat.eqb (k / c)) (map Z.to_nat idxs)) eqn:Ex; [reflexivity|].
    assert (Hi1 : Z.of_nat (k / c) * cs < zlen src).
    { pose proof (Nat.div_mod k c ltac:(lia)). unfold zlen, c in *. nia. }
    set (i := Z.of_nat (k / c)) in *.
    assert (Hi0 : 0 <= i) by (unfold i; lia).
    destruct (Hcov i Hi0 Hi1) as [Hin|Heq].
    + exfalso. assert (existsb (Nat.eqb (k / c)) (map Z.to_nat idxs) = true); [|congruence].
      apply existsb_exists. exists (k / c)%nat. split; [|apply Nat.eqb_refl].
      apply in_map_iff. exists i. split; [unfold i; apply Nat2Z.id|exact Hin].
    + rewrite !(chunk_at_n cs _ i Hc Hi0) in Heq. fold c in Heq. unfold i in Heq. rewrite Nat2Z.id in Heq.
      symmetry. apply (chunk_n_eq_nth c Hcpos _ _ (k / c)%nat k); [symmetry; exact Heq|reflexivity].
Qed.

(* the chunk indices written for the file with key k, in the order of the log *)
Definition idxs_of (k : Z) (ws : list (Z * Z * Z * Z)) : list Z :=
  map (fun w => snd (fst (fst w))) (filter (fun w => fst (fst (fst w)) =? k) ws).

Lemma last_write_idx ws k i x : Proofs.Tree.last_write ws k i = Some x -> In i (idxs_of k ws).
Proof.
  intro H. pose proof (Proofs.Tree.last_write_in ws k i x H) as Hin.
  unfold idxs_of. apply in_map_iff. exists (k, i, fst x, snd x). split; [reflexivity|].
  apply filter_In. split; [exact Hin|cbn; apply Z.eqb_refl].
Qed.

(* From the conclusion of the tree theorem for one file to its bytes.  [f0] is the
   data file the run started from (truncated to the announced size at FileBegin);
   a chunk that was marked in the prior state and not written by this run holds
   the source's bytes in [f0] (honest metadata: C05 / C04). *)
Theorem file_bytes_from_tree_conclusion :
  forall (src_tok src_len : Z -> Z -> Z) (ws : list (Z * Z * Z * Z)) (key size cs total : Z) (prior : list Z) (sidecar : bool) (src f0 : list Z),
    geom_dom size cs -> zlen src = size -> zlen f0 = size ->
    recvTotalChunks size cs = Ret total ->
    (* every logged write of this file has a non-negative index *)
    Forall (fun i => 0 <= i) (idxs_of key ws) ->
    (* the tree theorem's conclusion for this file *)
    (forall i, 0 <= i < total ->
       (sidecar = true /\ In i prior /\ Proofs.Tree.last_write ws key i = None) \/
       Proofs.Tree.last_write ws key i = Some (src_len key i, src_tok key i)) ->
    (* honest prior state *)
    (forall i, In i prior -> chunk_at cs f0 i = chunk_at cs src i) ->
    put_chunks cs src (idxs_of key ws) f0 = src.
Proof.
  intros src_tok src_len ws key size cs total prior sidecar src f0 G Ls Lf Ht Hnn Htree Hprior.
  pose proof G as (Hs & Hc & Hn).
  rewrite (recvTotalChunks_spec _ _ G) in Ht. injection Ht as <-.
  apply writes_cover_or_intact; [lia|congruence|exact Hnn|].
  intros i Hi0 Hi1.
  assert (Hit : 0 <= i < ceil_div size cs).
  { split; [exact Hi0|]. pose proof (ceil_div_bounds size cs ltac:(lia) ltac:(lia)) as (_ & _ & B).
    unfold ceil_div in *. rewrite Ls in Hi1.
    destruct (Z_lt_ge_dec i ((size + cs - 1) / cs)); [assumption|exfalso].
    assert ((size + cs - 1) / cs * cs <= i * cs) by nia. lia. }
  destruct (Htree i Hit) as [(_ & Hp & _)|Hw].
  - right. apply Hprior. exact Hp.
  - left. eapply last_write_idx. exact Hw.
Qed.

(* Proofs about Model/Session.v: the two maps stay a bijection (codes of live
   sessions pairwise distinct), and a lookup succeeds exactly for the sessions
   that were created, not deleted and not past their expiry. *)
From Coq Require Import ZArith List Bool Lia.
Import ListNotations.
From TF Require Import Model.Session.
Open Scope Z_scope.
Arguments put {V} k v m : simpl never.

(* ---- association-list maps ---- *)
Section MapLemmas.
  Context {V : Type}.
  Implicit Types m : list (Z * V).

  Lemma lookup_del_eq k m : lookup k (del k m) = None.
  Proof.
    induction m as [|[k' v] r IH]; cbn; [reflexivity|].
    destruct (k =? k') eqn:E; [exact IH|]. cbn. rewrite E. exact IH.
  Qed.

  Lemma lookup_del_neq k k' m : k <> k' -> lookup k (del k' m) = lookup k m.
  Proof.
    intros N. induction m as [|[k2 v] r IH]; cbn; [reflexivity|].
    destruct (k' =? k2) eqn:E.
    - apply Z.eqb_eq in E. subst k2. rewrite IH.
      destruct (k =? k') eqn:E2; [apply Z.eqb_eq in E2; contradiction|reflexivity].
    - cbn. rewrite IH. reflexivity.
  Qed.

  Lemma lookup_put_eq k v m : lookup k (put k v m) = Some v.
  Proof. unfold put. cbn. rewrite Z.eqb_refl. reflexivity. Qed.

  Lemma lookup_put_neq k k' v m : k <> k' -> lookup k (put k' v m) = lookup k m.
  Proof.
    intros N. unfold put. cbn.
    destruct (k =? k') eqn:E; [apply Z.eqb_eq in E; contradiction|].
    apply lookup_del_neq. exact N.
  Qed.

  Lemma del_absent k m : lookup k m = None -> del k m = m.
  Proof.
    induction m as [|[k' v] r IH]; cbn; [reflexivity|].
    destruct (k =? k') eqn:E; [discriminate|]. intros H. rewrite IH by exact H. reflexivity.
  Qed.

  Lemma length_del_le k m : (length (del k m) <= length m)%nat.
  Proof.
    induction m as [|[k' v] r IH]; cbn; [lia|]. destruct (k =? k'); cbn; lia.
  Qed.

  Lemma length_put_le k v m : (length (put k v m) <= S (length m))%nat.
  Proof. unfold put. cbn. pose proof (length_del_le k m). lia. Qed.

  Lemma length_put_fresh k v m : lookup k m = None -> length (put k v m) = S (length m).
  Proof. intros H. unfold put. rewrite del_absent by exact H. reflexivity. Qed.

  Lemma has_false k m : has k m = false <-> lookup k m = None.
  Proof. unfold has. destruct (lookup k m); split; congruence. Qed.
End MapLemmas.

(* ---- the retry loop ---- *)
Lemma pick_code_free bc c cands c' : pick_code bc c cands = Some c' -> lookup c' bc = None.
Proof.
  revert c. induction cands as [|x r IH]; intros c; cbn.
  - destruct (has c bc) eqn:E; [discriminate|]. intros [= <-]. apply has_false. exact E.
  - destruct (has c bc) eqn:E.
    + apply IH.
    + intros [= <-]. apply has_false. exact E.
Qed.

(* the loop picks the first candidate that is free, and only fails when all collide *)
Lemma pick_code_first bc c cands :
  has c bc = false -> pick_code bc c cands = Some c.
Proof. intros H. destruct cands; cbn; rewrite H; reflexivity. Qed.

Lemma pick_code_in bc c cands c' : pick_code bc c cands = Some c' -> In c' (c :: cands).
Proof.
  revert c. induction cands as [|x r IH]; intros c; cbn.
  - destruct (has c bc); [discriminate|]. intros [= <-]. left. reflexivity.
  - destruct (has c bc).
    + intros H. apply IH in H. cbn in H. right. exact H.
    + intros [= <-]. left. reflexivity.
Qed.

Lemma pick_code_none bc c cands : pick_code bc c cands = None -> forall x, In x (c :: cands) -> has x bc = true.
Proof.
  revert c. induction cands as [|y r IH]; intros c; cbn.
  - destruct (has c bc) eqn:E; [|discriminate]. intros _ x [<-|[]]. exact E.
  - destruct (has c bc) eqn:E; [|discriminate]. intros H x [<-|Hx]; [exact E|].
    apply (IH y H). exact Hx.
Qed.

(* ---- well-formedness: the two maps are inverse to each other ---- *)
Definition wf (s : store) : Prop :=
  (forall c id, lookup c (by_code s) = Some id ->
     exists ss, lookup id (sessions s) = Some ss /\ s_code ss = c) /\
  (forall id ss, lookup id (sessions s) = Some ss ->
     s_id ss = id /\ lookup (s_code ss) (by_code s) = Some id).

Lemma wf_new t : wf (new_store t).
Proof. split; cbn; intros; discriminate. Qed.

Lemma wf_codes_distinct s id1 id2 ss1 ss2 :
  wf s -> lookup id1 (sessions s) = Some ss1 -> lookup id2 (sessions s) = Some ss2 ->
  s_code ss1 = s_code ss2 -> id1 = id2.
Proof.
  intros [_ W2] H1 H2 E. destruct (W2 _ _ H1) as [_ A]. destruct (W2 _ _ H2) as [_ B].
  rewrite E in A. congruence.
Qed.

Lemma wf_remove s code id ss :
  wf s -> lookup code (by_code s) = Some id -> lookup id (sessions s) = Some ss ->
  wf (mkStore (del id (sessions s)) (del code (by_code s)) (ttl s)).
Proof.
  intros [W1 W2] Hc Hs. destruct (W1 _ _ Hc) as (ss' & Hs' & Ec). rewrite Hs in Hs'. injection Hs' as <-.
  split; cbn.
  - intros c id' H. destruct (Z.eq_dec c code) as [->|N]; [rewrite lookup_del_eq in H; discriminate|].
    rewrite lookup_del_neq in H by exact N. destruct (W1 _ _ H) as (s2 & H2 & E2).
    exists s2. split; [|exact E2]. destruct (Z.eq_dec id' id) as [->|N2].
    + rewrite Hs in H2. injection H2 as <-. congruence.
    + rewrite lookup_del_neq by exact N2. exact H2.
  - intros id' s2 H. destruct (Z.eq_dec id' id) as [->|N]; [rewrite lookup_del_eq in H; discriminate|].
    rewrite lookup_del_neq in H by exact N. destruct (W2 _ _ H) as [E1 E2]. split; [exact E1|].
    destruct (Z.eq_dec (s_code s2) code) as [E|N2].
    + rewrite E in E2. congruence.
    + rewrite lookup_del_neq by exact N2. exact E2.
Qed.

Lemma wf_create s now id c0 cands s' ss :
  wf s -> lookup id (sessions s) = None -> create s now id c0 cands = Some (s', ss) -> wf s'.
Proof.
  intros [W1 W2] F H. unfold create in H.
  destruct (pick_code (by_code s) c0 cands) as [c|] eqn:P; [|discriminate].
  injection H as <- <-. apply pick_code_free in P. split; cbn.
  - intros c' id' H. destruct (Z.eq_dec c' c) as [->|N].
    + rewrite lookup_put_eq in H. injection H as <-. eexists. rewrite lookup_put_eq. split; reflexivity.
    + rewrite lookup_put_neq in H by exact N. destruct (W1 _ _ H) as (s2 & H2 & E2).
      exists s2. split; [|exact E2]. rewrite lookup_put_neq; [exact H2|]. intros ->. congruence.
  - intros id' s2 H. destruct (Z.eq_dec id' id) as [->|N].
    + rewrite lookup_put_eq in H. injection H as <-. cbn. split; [reflexivity|apply lookup_put_eq].
    + rewrite lookup_put_neq in H by exact N. destruct (W2 _ _ H) as [E1 E2]. split; [exact E1|].
      rewrite lookup_put_neq; [exact E2|]. intros E. rewrite E in E2. congruence.
Qed.

Lemma wf_get s code now : wf s -> wf (fst (get_by_code s code now)).
Proof.
  intros W. unfold get_by_code.
  destruct (lookup code (by_code s)) as [id|] eqn:Hc; [|exact W].
  destruct (lookup id (sessions s)) as [ss|] eqn:Hs; [|exact W].
  destruct (expired ss now); [|exact W]. cbn. eapply wf_remove; eassumption.
Qed.

Lemma wf_delete s id : wf s -> wf (delete s id).
Proof.
  intros W. unfold delete. destruct (lookup id (sessions s)) as [ss|] eqn:Hs; [|exact W].
  destruct W as [W1 W2]. destruct (W2 _ _ Hs) as [_ Hc]. eapply wf_remove; [split; eassumption|exact Hc|exact Hs].
Qed.

(* ---- sizes (used by the limit proofs) ---- *)
Lemma count_create_le s now id c0 cands s' ss :
  create s now id c0 cands = Some (s', ss) -> count s' <= count s + 1.
Proof.
  unfold create. destruct (pick_code _ _ _); [|discriminate]. intros [= <- _].
  unfold count; cbn. match goal with |- context[put ?k ?v ?m] => pose proof (length_put_le k v m) end. lia.
Qed.

Lemma count_create_fresh s now id c0 cands s' ss :
  lookup id (sessions s) = None -> create s now id c0 cands = Some (s', ss) -> count s' = count s + 1.
Proof.
  intros F. unfold create. destruct (pick_code _ _ _); [|discriminate]. intros [= <- _].
  unfold count; cbn. rewrite length_put_fresh by exact F. lia.
Qed.

Lemma count_get_le s code now : count (fst (get_by_code s code now)) <= count s.
Proof.
  unfold get_by_code. destruct (lookup code _) as [i|]; [|cbn; lia]. destruct (lookup i _); [|cbn; lia].
  destruct (expired _ _); [|cbn; lia]. unfold count; cbn. pose proof (length_del_le i (sessions s)). lia.
Qed.

Lemma count_delete_le s id : count (delete s id) <= count s.
Proof.
  unfold delete. destruct (lookup id _); [|lia]. unfold count; cbn [sessions].
  pose proof (length_del_le id (sessions s)). lia.
Qed.

Lemma count_nonneg s : 0 <= count s.
Proof. unfold count. lia. Qed.

Lemma ttl_create s now id c0 cands s' ss : create s now id c0 cands = Some (s', ss) -> ttl s' = ttl s.
Proof. unfold create. destruct (pick_code _ _ _); [|discriminate]. intros [= <- _]. reflexivity. Qed.
Lemma ttl_get s code now : ttl (fst (get_by_code s code now)) = ttl s.
Proof.
  unfold get_by_code. destruct (lookup code _) as [i|]; [|reflexivity]. destruct (lookup i _); [|reflexivity].
  destruct (expired _ _); reflexivity.
Qed.
Lemma ttl_delete s id : ttl (delete s id) = ttl s.
Proof. unfold delete. destruct (lookup id _); reflexivity. Qed.

(* what a created session looks like *)
Lemma create_session s now id c0 cands s' ss :
  create s now id c0 cands = Some (s', ss) ->
  s_id ss = id /\ s_created ss = now /\
  s_expires ss = (if ttl s >? 0 then Some (now + ttl s) else None) /\
  lookup (s_code ss) (by_code s) = None /\ In (s_code ss) (c0 :: cands) /\
  lookup id (sessions s') = Some ss.
Proof.
  unfold create. destruct (pick_code _ _ _) as [c|] eqn:P; [|discriminate]. intros [= <- <-]. cbn.
  repeat split; [eapply pick_code_free; exact P|eapply pick_code_in; exact P|apply lookup_put_eq].
Qed.

(* dead stays dead: an id that is not in the store only comes back through Create with that id *)
Lemma get_absent s code now id : lookup id (sessions s) = None -> lookup id (sessions (fst (get_by_code s code now))) = None.
Proof.
  intros H. unfold get_by_code. destruct (lookup code _) as [z|]; [|exact H]. destruct (lookup z _); [|exact H].
  destruct (expired _ _); [|exact H]. cbn. destruct (Z.eq_dec id z) as [->|N]; [apply lookup_del_eq|].
  rewrite lookup_del_neq by exact N. exact H.
Qed.

Lemma delete_absent s id' id : lookup id (sessions s) = None -> lookup id (sessions (delete s id')) = None.
Proof.
  intros H. unfold delete. destruct (lookup id' _); [|exact H]. cbn.
  destruct (Z.eq_dec id id') as [->|N]; [apply lookup_del_eq|]. rewrite lookup_del_neq by exact N. exact H.
Qed.

Lemma delete_gone s id : lookup id (sessions (delete s id)) = None.
Proof.
  unfold delete. destruct (lookup id (sessions s)) eqn:E; [|exact E]. cbn. apply lookup_del_eq.
Qed.

Lemma create_absent s now id' c0 cands s' ss id :
  id <> id' -> lookup id (sessions s) = None -> create s now id' c0 cands = Some (s', ss) -> lookup id (sessions s') = None.
Proof.
  intros N H. unfold create. destruct (pick_code _ _ _); [|discriminate]. intros [= <- _]. cbn.
  rewrite lookup_put_neq by exact N. exact H.
Qed.

(* a successful lookup returns a session of the store under that code, not expired *)
Lemma get_some s code now ss :
  wf s -> snd (get_by_code s code now) = Some ss ->
  lookup (s_id ss) (sessions s) = Some ss /\ s_code ss = code /\ expired ss now = false /\ fst (get_by_code s code now) = s.
Proof.
  intros [W1 W2]. unfold get_by_code.
  destruct (lookup code (by_code s)) as [id|] eqn:Hc; [|discriminate].
  destruct (lookup id (sessions s)) as [s2|] eqn:Hs; [|discriminate].
  destruct (expired s2 now) eqn:E; [discriminate|]. cbn. intros [= <-].
  destruct (W2 _ _ Hs) as [E1 _]. destruct (W1 _ _ Hc) as (s3 & H3 & E3). rewrite Hs in H3. injection H3 as <-.
  rewrite E1. auto.
Qed.

Lemma get_live s ss now :
  wf s -> lookup (s_id ss) (sessions s) = Some ss -> expired ss now = false ->
  get_by_code s (s_code ss) now = (s, Some ss).
Proof.
  intros [W1 W2] H E. destruct (W2 _ _ H) as [_ Hc]. unfold get_by_code. rewrite Hc, H, E. reflexivity.
Qed.

(* ---- lookup succeeds iff created, not deleted, not expired ---- *)
Record inv (used : list Z) (s : store) (g : list session) (clk : Z) : Prop := {
  i_wf : wf s;
  i_used : forall id ss, lookup id (sessions s) = Some ss -> In id used;
  i_gused : forall ss, In ss g -> In (s_id ss) used;
  i_in : forall id ss, lookup id (sessions s) = Some ss -> In ss g;
  i_out : forall ss, In ss g ->
      lookup (s_id ss) (sessions s) = Some ss \/ (exists e, s_expires ss = Some e /\ e < clk)
}.

Lemma inv_init t clk : inv [] (new_store t) [] clk.
Proof. split; [apply wf_new|cbn; intros; discriminate|intros ? []|cbn; intros; discriminate|intros ? []]. Qed.

Lemma inv_step used s g clk o s' ob :
  inv used s g clk ->
  (match o with OCreate _ id _ _ => ~ In id used | _ => True end) ->
  apply_op s o = Some (s', ob) ->
  inv (match o with OCreate _ id _ _ => id :: used | _ => used end) s' (ghost_step g o ob)
      (match op_time o with Some t => Z.max clk t | None => clk end).
Proof.
  intros I F H. destruct I as [W U GU IN OUT]. destruct o as [now id c0 cands|code now|id|]; cbn in *.
  - (* Create *)
    destruct (create s now id c0 cands) as [[s1 ss]|] eqn:C; [|discriminate]. injection H as <- <-.
    assert (Fr : lookup id (sessions s) = None).
    { destruct (lookup id (sessions s)) eqn:E; [|reflexivity]. exfalso. apply F. eapply U. exact E. }
    pose proof (create_session _ _ _ _ _ _ _ C) as (Eid & _ & _ & _ & _ & Hl).
    assert (Hs1 : forall id', id' <> id -> lookup id' (sessions s1) = lookup id' (sessions s)).
    { intros id' N. unfold create in C. destruct (pick_code _ _ _); [|discriminate]. injection C as <- _. cbn.
      apply lookup_put_neq. exact N. }
    split.
    + eapply wf_create; eassumption.
    + intros id' s2 H. destruct (Z.eq_dec id' id) as [->|N]; [left; reflexivity|].
      right. rewrite Hs1 in H by exact N. eapply U. exact H.
    + intros s2 [<-|H]; [left; symmetry; exact Eid|right; apply GU; exact H].
    + intros id' s2 H. destruct (Z.eq_dec id' id) as [->|N].
      * rewrite Hl in H. injection H as <-. left. reflexivity.
      * right. rewrite Hs1 in H by exact N. eapply IN. exact H.
    + intros s2 [<-|H].
      * left. rewrite Eid. exact Hl.
      * destruct (OUT _ H) as [L|(e & E1 & E2)].
        -- left. rewrite Hs1; [exact L|]. intros E. rewrite E in L. congruence.
        -- right. exists e. split; [exact E1|lia].
  - (* Get *)
    destruct (get_by_code s code now) as [s1 r] eqn:G. injection H as <- <-. cbn.
    pose proof (wf_get s code now W) as W'. rewrite G in W'. cbn in W'.
    unfold get_by_code in G.
    destruct (lookup code (by_code s)) as [id|] eqn:Hc.
    2:{ injection G as <- <-. split; try assumption. intros s2 H. destruct (OUT _ H) as [L|(e & E1 & E2)]; [left; exact L|right; exists e; split; [exact E1|lia]]. }
    destruct (lookup id (sessions s)) as [ss|] eqn:Hs.
    2:{ injection G as <- <-. split; try assumption. intros s2 H. destruct (OUT _ H) as [L|(e & E1 & E2)]; [left; exact L|right; exists e; split; [exact E1|lia]]. }
    destruct (expired ss now) eqn:Ex.
    2:{ injection G as <- <-. split; try assumption. intros s2 H. destruct (OUT _ H) as [L|(e & E1 & E2)]; [left; exact L|right; exists e; split; [exact E1|lia]]. }
    injection G as <- <-. cbn. split; cbn.
    + exact W'.
    + intros id' s2 H. destruct (Z.eq_dec id' id) as [->|N]; [rewrite lookup_del_eq in H; discriminate|].
      rewrite lookup_del_neq in H by exact N. eapply U. exact H.
    + exact GU.
    + intros id' s2 H. destruct (Z.eq_dec id' id) as [->|N]; [rewrite lookup_del_eq in H; discriminate|].
      rewrite lookup_del_neq in H by exact N. eapply IN. exact H.
    + intros s2 H. destruct (OUT _ H) as [L|(e & E1 & E2)].
      * destruct (Z.eq_dec (s_id s2) id) as [E|N].
        -- right. rewrite E in L. rewrite Hs in L. injection L as <-.
           unfold expired in Ex. destruct (s_expires ss) as [e|]; [|discriminate].
           exists e. split; [reflexivity|]. apply Z.gtb_lt in Ex. lia.
        -- left. rewrite lookup_del_neq by exact N. exact L.
      * right. exists e. split; [exact E1|lia].
  - (* Delete *)
    injection H as <- <-. cbn. unfold delete.
    destruct (lookup id (sessions s)) as [ss|] eqn:Hs.
    + pose proof (wf_delete s id W) as W'. unfold delete in W'. rewrite Hs in W'.
      split; cbn.
      * exact W'.
      * intros id' s2 H. destruct (Z.eq_dec id' id) as [->|N]; [rewrite lookup_del_eq in H; discriminate|].
        rewrite lookup_del_neq in H by exact N. eapply U. exact H.
      * intros s2 H. apply filter_In in H. apply GU. apply H.
      * intros id' s2 H. destruct (Z.eq_dec id' id) as [->|N]; [rewrite lookup_del_eq in H; discriminate|].
        rewrite lookup_del_neq in H by exact N. apply filter_In. split; [eapply IN; exact H|].
        destruct W as [_ W2]. destruct (W2 _ _ H) as [E _]. rewrite E.
        apply negb_true_iff. apply Z.eqb_neq. exact N.
      * intros s2 H. apply filter_In in H. destruct H as [H N]. apply negb_true_iff in N. apply Z.eqb_neq in N.
        destruct (OUT _ H) as [L|X]; [|right; exact X]. left. rewrite lookup_del_neq by exact N. exact L.
    + split; cbn.
      * exact W.
      * exact U.
      * intros s2 H. apply filter_In in H. apply GU. apply H.
      * intros id' s2 H. apply filter_In. split; [eapply IN; exact H|].
        destruct W as [_ W2]. destruct (W2 _ _ H) as [E _]. rewrite E.
        apply negb_true_iff. apply Z.eqb_neq. intros ->. congruence.
      * intros s2 H. apply filter_In in H. destruct H as [H _]. apply OUT. exact H.
  - injection H as <- <-. cbn. split; assumption.
Qed.

Lemma inv_run ops : forall used s g clk s' g' clk' tr,
  inv used s g clk -> fresh_ids used ops -> run s g clk ops = Some (s', g', clk', tr) ->
  exists used', inv used' s' g' clk' /\ clk <= clk'.
Proof.
  induction ops as [|o r IH]; intros used s g clk s' g' clk' tr I F H; cbn in H.
  - injection H as <- <- <- _. exists used. split; [exact I|lia].
  - destruct (apply_op s o) as [[s1 ob]|] eqn:A; [|discriminate].
    destruct (run s1 _ _ r) as [[[[s2 g2] c2] tr2]|] eqn:R; [|discriminate]. injection H as <- <- <- _.
    assert (F1 : match o with OCreate _ id _ _ => ~ In id used | _ => True end) by (destruct o; cbn in F; tauto).
    pose proof (inv_step _ _ _ _ _ _ _ I F1 A) as I1.
    assert (F2 : fresh_ids (match o with OCreate _ id _ _ => id :: used | _ => used end) r) by (destruct o; cbn in F; tauto).
    destruct (IH _ _ _ _ _ _ _ _ I1 F2 R) as (u' & I2 & L). exists u'. split; [exact I2|].
    destruct (op_time o); lia.
Qed.

(* the characterisation at an invariant state *)
Lemma inv_admits used s g clk code now ss :
  inv used s g clk -> clk <= now ->
  (snd (get_by_code s code now) = Some ss <-> In ss g /\ s_code ss = code /\ expired ss now = false).
Proof.
  intros [W U GU IN OUT] L. split.
  - intros H. destruct (get_some _ _ _ _ W H) as (H1 & H2 & H3 & _). repeat split; try assumption. eapply IN. exact H1.
  - intros (H1 & <- & H3). destruct (OUT _ H1) as [Lk|(e & E1 & E2)].
    + rewrite (get_live _ _ _ W Lk H3). reflexivity.
    + exfalso. unfold expired in H3. rewrite E1 in H3. apply Z.gtb_ltb in H3 || idtac.
      destruct (now >? e) eqn:X; [discriminate|]. rewrite Z.gtb_ltb in X. apply Z.ltb_ge in X. lia.
Qed.

Theorem store_admits t ops s g clk tr code now ss :
  fresh_ids [] ops -> run (new_store t) [] 0 ops = Some (s, g, clk, tr) -> clk <= now ->
  (snd (get_by_code s code now) = Some ss <-> In ss g /\ s_code ss = code /\ expired ss now = false).
Proof.
  intros F R L. destruct (inv_run _ _ _ _ _ _ _ _ _ (inv_init t 0) F R) as (u & I & _).
  eapply inv_admits; eassumption.
Qed.

Theorem store_codes_distinct t ops s g clk tr id1 id2 ss1 ss2 :
  fresh_ids [] ops -> run (new_store t) [] 0 ops = Some (s, g, clk, tr) ->
  lookup id1 (sessions s) = Some ss1 -> lookup id2 (sessions s) = Some ss2 ->
  s_code ss1 = s_code ss2 -> id1 = id2.
Proof.
  intros F R. destruct (inv_run _ _ _ _ _ _ _ _ _ (inv_init t 0) F R) as (u & I & _).
  apply wf_codes_distinct. apply I.
Qed.

(* the two maps are a bijection at every reachable state *)
Theorem store_bijection t ops s g clk tr :
  fresh_ids [] ops -> run (new_store t) [] 0 ops = Some (s, g, clk, tr) -> wf s.
Proof.
  intros F R. destruct (inv_run _ _ _ _ _ _ _ _ _ (inv_init t 0) F R) as (u & I & _). apply I.
Qed.

(* the retry loop: Create returns a code no live session has, the first such candidate *)
Theorem create_code_unused s now id c0 cands s' ss id' ss' :
  create s now id c0 cands = Some (s', ss) -> wf s ->
  lookup id' (sessions s) = Some ss' -> s_code ss' <> s_code ss.
Proof.
  intros C [_ W2] H E. pose proof (create_session _ _ _ _ _ _ _ C) as (_ & _ & _ & Fc & _).
  destruct (W2 _ _ H) as [_ X]. rewrite E in X. congruence.
Qed.

(* Round-trip proofs for Model/Wire.v: every control record, sequences of
   records, the control header and the data-frame header. *)
From Coq Require Import ZArith List Bool Lia.
From TF Require Import Lib.GoInt Lib.Bytes Gen.Consts Model.Path Model.Wire.
Import ListNotations.
Open Scope Z_scope.

Lemma rd_be n x rest : 0 <= x < p256 n -> rd n (be n x ++ rest) = DOk x rest.
Proof. intros H. unfold rd. rewrite unbe_be by exact H. reflexivity. Qed.

Lemma rdb_app a rest n : n = len a -> rdb n (a ++ rest) = DOk a rest.
Proof.
  intros ->. unfold rdb, len. rewrite Nat2Z.id. rewrite take_app. reflexivity.
Qed.

Lemma len_nonneg l : 0 <= len l.
Proof. unfold len. lia. Qed.

Lemma len_pos_nonnil l : 0 < len l -> l <> [].
Proof. unfold len. destruct l; cbn; [lia|discriminate]. Qed.

Lemma len_zero_nil l : len l = 0 -> l = [].
Proof. unfold len. destruct l; cbn; [reflexivity|lia]. Qed.

(* the protocol's field limits *)
Definition wf (m : ctl) : Prop :=
  match m with
  | FileBegin p size cs sid alg a b c d =>
    in_u64 size /\ in_u32 cs /\ in_u64 sid /\ in_u8 alg /\ in_u16 a /\ in_u16 b /\ in_u32 c /\ in_u32 d
  | Credit sid c => in_u64 sid /\ in_u32 c
  | CreditBatch es => Z.of_nat (length es) < 2^32 /\ Forall (fun e => in_u64 (fst e) /\ in_u32 (snd e)) es
  | FileEnd sid crc => in_u64 sid /\ in_u32 crc
  | FileDone sid ok err => in_u64 sid /\ len err < 2^16
  | FileResumeInfo fid sid total bm lvc lvh =>
    len fid < 2^16 /\ in_u64 sid /\ in_u32 total /\ len bm < 2^32 /\ in_u32 lvc /\ in_u64 lvh
  | ResumeRequest fid sid => len fid < 2^16 /\ in_u64 sid
  | DataStreams n => in_u16 n
  | EndRec => True
  end.

Ltac rng := rewrite ?p256_1, ?p256_2, ?p256_4, ?p256_8;
            unfold in_u8, in_u16, in_u32, in_u64 in *; lia.
Ltac srd := rewrite rd_be by rng; cbn [dbind].
Ltac codes := unfold c_controlTypeFileBegin, c_controlTypeCredit, c_controlTypeCreditBatch, c_controlTypeFileEnd,
                c_controlTypeFileDone, c_controlTypeFileResumeInfo, c_controlTypeResumeRequest,
                c_controlTypeDataStreams, c_controlTypeEnd; cbn [Z.eqb Pos.eqb].

Lemma validate_len p : validate_rel_path p = true -> len p <= 1024.
Proof.
  unfold validate_rel_path. intros H.
  apply andb_prop in H. destruct H as (H & _). apply andb_prop in H. destruct H as (H & _).
  apply andb_prop in H. destruct H as (H & _). unfold c_maxRelPathLength in H. unfold len. lia.
Qed.

Lemma rd_entries_enc es : forall fuel acc rest,
  Forall (fun e => in_u64 (fst e) /\ in_u32 (snd e)) es -> (length es <= fuel)%nat ->
  rd_entries fuel (Z.of_nat (length es)) (enc_entries es ++ rest) acc = DOk (rev acc ++ es) rest.
Proof.
  induction es as [|[sid c] es IH]; intros fuel acc rest F L.
  - cbn [length enc_entries app]. destruct fuel; cbn [rd_entries Z.of_nat Z.leb Z.compare]; rewrite app_nil_r; reflexivity.
  - destruct fuel as [|f]; [cbn in L; lia|].
    inversion F as [|? ? (H1 & H2) F']; subst. cbn [fst snd] in *.
    cbn [rd_entries].
    replace (Z.of_nat (length ((sid, c) :: es)) <=? 0) with false
      by (symmetry; apply Z.leb_gt; cbn [length]; lia).
    cbn [enc_entries]. rewrite <- !app_assoc. srd. srd.
    replace (Z.of_nat (length ((sid, c) :: es)) - 1) with (Z.of_nat (length es)) by (cbn [length]; lia).
    rewrite IH by (auto; cbn in L; lia).
    cbn [rev]. rewrite <- app_assoc. reflexivity.
Qed.

Lemma enc_entries_length es : length (enc_entries es) = (12 * length es)%nat.
Proof.
  induction es as [|[a b] es IH]; cbn [enc_entries length]; [reflexivity|].
  rewrite !app_length, !be_length, IH. lia.
Qed.

Theorem dec_enc m bs : wf m -> enc_ctl m = Ret bs -> forall rest, dec_ctl (bs ++ rest) = DOk m rest.
Proof.
  intros W E rest. destruct m; cbn [enc_ctl wf] in *.
  - (* FileBegin *)
    destruct (validate_rel_path path) eqn:V; [|discriminate]. apply ret_inj in E; subst bs.
    pose proof (validate_len path V) as L. pose proof (len_nonneg path).
    destruct W as (? & ? & ? & ? & ? & ? & ? & ?).
    cbn [app dec_ctl]. unfold dec_body. codes.
    rewrite <- !app_assoc. rewrite (u16_id (len path)) by rng. srd.
    replace (c_maxRelPathLength <? len path) with false by (symmetry; apply Z.ltb_ge; unfold c_maxRelPathLength; lia).
    rewrite rdb_app by reflexivity. cbn [dbind].
    srd. srd. srd. srd. srd. srd. srd. srd. reflexivity.
  - (* Credit *)
    apply ret_inj in E; subst bs. destruct W. cbn [app dec_ctl]. unfold dec_body. codes.
    rewrite <- !app_assoc. srd. srd. reflexivity.
  - (* CreditBatch *)
    apply ret_inj in E; subst bs. destruct W as (Hn & F). cbn [app dec_ctl]. unfold dec_body. codes.
    rewrite <- !app_assoc. rewrite u32_id by rng. srd.
    rewrite (rd_entries_enc entries (length (enc_entries entries ++ rest)) [] rest F).
    + cbn [dbind rev app]. reflexivity.
    + rewrite app_length, enc_entries_length. lia.
  - (* FileEnd *)
    apply ret_inj in E; subst bs. destruct W. cbn [app dec_ctl]. unfold dec_body. codes.
    rewrite <- !app_assoc. srd. srd. reflexivity.
  - (* FileDone *)
    apply ret_inj in E; subst bs. destruct W as (? & Hl). pose proof (len_nonneg err).
    cbn [app dec_ctl]. unfold dec_body. codes.
    rewrite <- !app_assoc. rewrite (u16_id (len err)) by rng. srd.
    rewrite rd_be by (rewrite p256_1; destruct ok; lia). cbn [dbind]. srd.
    assert (Hok : ((if ok then 1 else 0) =? 1) = ok) by (destruct ok; reflexivity). rewrite Hok.
    destruct (0 <? len err) eqn:P.
    + rewrite rdb_app by reflexivity. reflexivity.
    + assert (len err = 0) by lia. rewrite (len_zero_nil err) by assumption. reflexivity.
  - (* FileResumeInfo *)
    apply ret_inj in E; subst bs. destruct W as (Hf & ? & ? & Hb & ? & ?).
    pose proof (len_nonneg fid). pose proof (len_nonneg bm).
    cbn [app dec_ctl]. unfold dec_body. codes.
    rewrite <- !app_assoc. rewrite (u16_id (len fid)) by rng. rewrite (u32_id (len bm)) by rng. srd.
    assert (Hfid : (if 0 <? len fid then rdb (len fid) (fid ++ be 8 sid ++ be 4 total ++ be 4 (len bm) ++ (if 0 <? len bm then bm else []) ++ be 4 lvc ++ be 8 lvh ++ rest)
                    else DOk [] (fid ++ be 8 sid ++ be 4 total ++ be 4 (len bm) ++ (if 0 <? len bm then bm else []) ++ be 4 lvc ++ be 8 lvh ++ rest))
                   = DOk fid (be 8 sid ++ be 4 total ++ be 4 (len bm) ++ (if 0 <? len bm then bm else []) ++ be 4 lvc ++ be 8 lvh ++ rest)).
    { destruct (0 <? len fid) eqn:P; [apply rdb_app; reflexivity|].
      assert (len fid = 0) by lia. rewrite (len_zero_nil fid) by assumption. reflexivity. }
    rewrite Hfid. cbn [dbind]. srd. srd. srd.
    destruct (0 <? len bm) eqn:P.
    + rewrite rdb_app by reflexivity. cbn [dbind]. srd. srd. reflexivity.
    + assert (len bm = 0) by lia. rewrite (len_zero_nil bm) by assumption. cbn [app dbind]. srd. srd. reflexivity.
  - (* ResumeRequest *)
    apply ret_inj in E; subst bs. destruct W as (Hf & ?). pose proof (len_nonneg fid).
    cbn [app dec_ctl]. unfold dec_body. codes.
    rewrite <- !app_assoc. rewrite (u16_id (len fid)) by rng. srd.
    destruct (0 <? len fid) eqn:P.
    + rewrite rdb_app by reflexivity. cbn [dbind]. srd. reflexivity.
    + assert (len fid = 0) by lia. rewrite (len_zero_nil fid) by assumption. cbn [app dbind]. srd. reflexivity.
  - (* DataStreams *)
    apply ret_inj in E; subst bs. cbn [app dec_ctl]. unfold dec_body. codes. srd. reflexivity.
  - (* End *)
    apply ret_inj in E; subst bs. cbn [app dec_ctl]. unfold dec_body. codes. reflexivity.
Qed.

Lemma enc_nonempty m bs : enc_ctl m = Ret bs -> (1 <= length bs)%nat.
Proof.
  destruct m; cbn [enc_ctl]; try (destruct (validate_rel_path path); [|discriminate]);
    intros E; apply ret_inj in E; subst bs; cbn [length]; lia.
Qed.

(* a stream of records decodes to the same sequence, nothing left over *)
Theorem dec_all_concat : forall ms bss,
  Forall2 (fun m bs => wf m /\ enc_ctl m = Ret bs) ms bss ->
  forall fuel, (length (concat bss) <= fuel)%nat -> dec_all fuel (concat bss) = Some ms.
Proof.
  intros ms bss F. induction F as [|m bs ms bss (W & E) F IH]; intros fuel L.
  - cbn. destruct fuel; reflexivity.
  - cbn [concat] in *. pose proof (enc_nonempty m bs E) as NE.
    rewrite app_length in L.
    destruct fuel as [|f]; [lia|].
    destruct (bs ++ concat bss) as [|x t] eqn:Q.
    { apply (f_equal (@length Z)) in Q. rewrite app_length in Q. cbn in Q. lia. }
    cbn [dec_all]. rewrite <- Q. rewrite (dec_enc m bs W E).
    rewrite IH by lia. reflexivity.
Qed.

Lemma list_eqb_refl l : list_eqb l l = true.
Proof. induction l as [|a l IH]; cbn; [reflexivity|]. rewrite Z.eqb_refl, IH. reflexivity. Qed.

Theorem header_roundtrip json rest : len json < 2^32 ->
  dec_header (enc_header json ++ rest) = DOk json rest.
Proof.
  intros L. pose proof (len_nonneg json). unfold dec_header, enc_header.
  rewrite <- !app_assoc. rewrite (rdb_app c_controlMagic) by reflexivity. cbn [dbind].
  rewrite list_eqb_refl. cbn [negb]. rewrite u32_id by rng. srd.
  apply rdb_app. reflexivity.
Qed.

Theorem frame_header_roundtrip key idx clen crc rest :
  in_u64 key -> in_u32 idx -> in_u32 clen -> in_u32 crc ->
  dec_frame_header (enc_frame_header key idx clen crc ++ rest) = DOk (key, idx, clen, crc) rest.
Proof.
  intros. unfold dec_frame_header, enc_frame_header. rewrite <- !app_assoc. srd. srd. srd. srd. reflexivity.
Qed.

Lemma enc_frame_header_length key idx clen crc :
  Z.of_nat (length (enc_frame_header key idx clen crc)) = c_dataChunkHeaderLen.
Proof. unfold enc_frame_header. rewrite !app_length, !be_length. reflexivity. Qed.

(* Outside the limits the property states: a 65537-byte error text is written
   in full after a length field that wrapped to 1, so the stream desynchronises.
   (This is why wf bounds the error text; FileDone texts come from err.Error().) *)
Example outside_limits_desync :
  match enc_ctl (FileDone 7 false (rep 65537 101)) with
  | Ret bs =>
    match dec_ctl (bs ++ [c_controlTypeEnd]) with
    | DOk (FileDone 7 false e) rest => (len e =? 1) && (len rest =? 65537)
    | _ => false
    end
  | _ => false
  end = true.
Proof. vm_compute. reflexivity. Qed.

Lemma len_rep n b : 0 <= n -> len (rep n b) = n.
Proof. intros H. unfold len, rep. rewrite repeat_length. lia. Qed.

(* The sender's use of the scheduler, as read off multistream.go (Gen/SchedUse.v),
   is the pattern Model/Sched.v's usage machine (uinit / UNext / UDone) assumes. *)
From Coq Require Import List String Bool.
Import ListNotations.
From TF Require Import Gen.SchedUse.
Open Scope string_scope.

(* the only calls on the scheduler: Add of every file before any worker runs,
   Next followed by Add inside activateNext, Remove inside sendFileEnd; nobody
   calls UpdateRemaining or SetParallelFiles *)
Lemma sched_call_sites :
  sched_calls = [("", "Add"); ("activateNext", "Next"); ("activateNext", "Add"); ("sendFileEnd", "Remove")].
Proof. reflexivity. Qed.

(* the files added up front are pending (StartedAt is not set); activateNext
   marks the file started (StartedAt, LastScheduledAt) before it re-adds it,
   after having asked Next *)
Lemma sched_init_pending :
  existsb (String.eqb "StartedAt") sched_init_meta_fields = false /\
  existsb (String.eqb "LastScheduledAt") sched_init_meta_fields = false /\
  existsb (String.eqb "Size") sched_init_meta_fields = true /\
  existsb (String.eqb "Remaining") sched_init_meta_fields = true.
Proof. repeat split. Qed.

Lemma activate_order :
  activate_steps = ["sched.Next"; "meta.StartedAt"; "meta.LastScheduledAt"; "sched.Add"].
Proof. reflexivity. Qed.

(* a file leaves the scheduler only after its FileEnd was written and the
   receiver's FileDone has been waited for (UDone = arrival of FileDone) *)
Fixpoint index_of (x : string) (l : list string) : nat :=
  match l with [] => 0 | y :: r => if String.eqb x y then 0 else S (index_of x r) end.

Lemma remove_after_done :
  Nat.ltb (index_of "writeFileEnd" sendfileend_calls) (index_of "wait" sendfileend_calls) = true /\
  Nat.ltb (index_of "wait" sendfileend_calls) (index_of "Remove" sendfileend_calls) = true /\
  Nat.ltb (index_of "Remove" sendfileend_calls) (List.length sendfileend_calls) = true.
Proof. repeat split. Qed.

(* activateNext has one call site, inside the fill loop bounded by the number
   of parallel streams (the guard of UNext) *)
Lemma activate_guarded :
  activate_call_sites = 1 /\ activate_loop_guards = ["len(activeFiles) < parallelStreams"].
Proof. split; reflexivity. Qed.

(* Termination measure of the closed transfer model: every enabled event does
   one unit of the remaining work, so no run is longer than mu of its start. *)
From Coq Require Import List Arith Bool Lia.
Import ListNotations.
From TF Require Import Model.Gate.

Definition psum (l : list (nat * nat)) : nat := fold_right (fun p acc => 5 + 2 * snd p + acc) 0 l.
Definition acontrib (a : afile) : nat := 2 * (a_total a - a_next a) + (if a_end a then 0 else 2) + 1.
Definition asum (l : list afile) : nat := fold_right (fun a acc => acontrib a + acc) 0 l.

Lemma mu_eq s : mu s = psum (g_pending s) + asum (g_active s) + length (g_s2r s) + length (g_data s) +
                       (if g_sender_done s then 0 else 2).
Proof. reflexivity. Qed.

Lemma psum_remove f l t : find_pending f l = Some t -> psum l = 5 + 2 * t + psum (remove_pending f l).
Proof.
  induction l as [|[g u] r IH]; simpl; [discriminate|].
  destruct (Nat.eqb g f).
  - intros E. injection E as ->. reflexivity.
  - intros E. simpl. rewrite (IH E). lia.
Qed.

Lemma asum_app l a : asum (l ++ [a]) = asum l + acontrib a.
Proof. induction l as [|b r IH]; simpl; [lia|]. rewrite IH. lia. Qed.

Lemma asum_set f l a a' : find_afile f l = Some a -> a_id a' = f ->
  asum (set_afile a' l) + acontrib a = asum l + acontrib a'.
Proof.
  intros F E. subst f. induction l as [|b r IH]; simpl in *; [discriminate|].
  destruct (Nat.eqb (a_id b) (a_id a')).
  - injection F as ->. simpl. lia.
  - simpl. specialize (IH F). lia.
Qed.

Lemma asum_remove f l a : find_afile f l = Some a -> asum l = acontrib a + asum (remove_afile f l).
Proof.
  induction l as [|b r IH]; simpl; [discriminate|].
  destruct (Nat.eqb (a_id b) f).
  - intros E. injection E as ->. reflexivity.
  - intros E. simpl. rewrite (IH E). lia.
Qed.

Lemma drop_on_length w l f : head_on w l = Some f -> length l = S (length (drop_on w l)).
Proof.
  induction l as [|[v g] r IH]; simpl; [discriminate|].
  destruct (Nat.eqb v w); [reflexivity|]. intros E. simpl. rewrite (IH E). reflexivity.
Qed.

Theorem gstep_mu s e s' : gstep s e = Some s' -> mu s' < mu s.
Proof.
  rewrite !mu_eq. destruct e; simpl.
  - destruct (find_pending f (g_pending s)) as [t|] eqn:F; [|discriminate].
    destruct (length (g_active s) <? g_par s); [|discriminate].
    intros E. injection E as <-. simpl. rewrite (psum_remove _ _ _ F), asum_app, app_length. simpl. unfold acontrib. simpl. lia.
  - destruct (w <? g_par s); [|discriminate].
    destruct (find_afile f (g_active s)) as [a|] eqn:F; [|discriminate].
    destruct (a_next a <? a_total a) eqn:L; [|discriminate]. apply Nat.ltb_lt in L.
    intros E. injection E as <-. simpl. rewrite app_length. simpl.
    pose proof (asum_set f (g_active s) a {| a_id := f; a_total := a_total a; a_next := S (a_next a); a_end := a_end a |} F eq_refl) as A.
    unfold acontrib in A. simpl in A. lia.
  - destruct (find_afile f (g_active s)) as [a|] eqn:F; [|discriminate].
    destruct (Nat.eqb (a_next a) (a_total a) && negb (a_end a)) eqn:C; [|discriminate].
    apply andb_true_iff in C. destruct C as (_ & C). apply negb_true_iff in C.
    intros E. injection E as <-. simpl. rewrite app_length. simpl.
    pose proof (asum_set f (g_active s) a {| a_id := f; a_total := a_total a; a_next := a_next a; a_end := true |} F eq_refl) as A.
    unfold acontrib in A. simpl in A. rewrite C in A. lia.
  - destruct (g_recv_done s); [discriminate|].
    destruct (g_gated s && negb (all_visible s)); [discriminate|].
    destruct (g_s2r s) as [|m rest]; [discriminate|]. destruct m as [f t|f|].
    + intros E. injection E as <-. simpl. lia.
    + destruct (find_rfile f (g_rbegun s)) as [r|].
      * destruct (Nat.eqb (r_rem r) 0); intros E; injection E as <-; simpl; lia.
      * destruct (memn f (g_rdone s)); [|discriminate]. intros E. injection E as <-. simpl. lia.
    + intros E. injection E as <-. simpl. lia.
  - destruct (g_recv_done s); [discriminate|].
    destruct (head_on w (g_data s)) as [f|] eqn:Hd; [|discriminate].
    pose proof (drop_on_length _ _ _ Hd) as L.
    destruct (find_rfile f (g_rbegun s)) as [r|].
    + destruct (r_rem r) as [|[|n]]; intros E; injection E as <-; simpl; lia.
    + destruct (memn f (g_rdone s)); [|discriminate]. intros E. injection E as <-. simpl. lia.
  - destruct (g_r2s s) as [|f rest]; [discriminate|].
    destruct (find_afile f (g_active s)) as [a|] eqn:F; [|discriminate].
    destruct (a_end a) eqn:C; [|discriminate].
    intros E. injection E as <-. simpl. rewrite (asum_remove _ _ _ F). unfold acontrib. lia.
  - destruct (g_sender_done s); [discriminate|].
    destruct (g_pending s); [|discriminate]. destruct (g_active s); [|discriminate].
    intros E. injection E as <-. simpl. rewrite app_length. simpl. lia.
Qed.

(* no run is longer than the work left at its start *)
Theorem grun_length evs : forall s s', grun s evs = Some s' -> length evs + mu s' <= mu s.
Proof.
  induction evs as [|e r IH]; intros s s'; simpl.
  - intros E. injection E as <-. lia.
  - destruct (gstep s e) as [s1|] eqn:G; [|discriminate]. intros E.
    pose proof (gstep_mu _ _ _ G). specialize (IH _ _ E). lia.
Qed.

(* the receiver BEFORE fix ed4f108 (gated = true): one file with one chunk and two
   streams - the second stream never becomes visible, the receiver never handles
   FileBegin, the sender never gets FileDone: a reachable state in which nobody can
   move although the transfer is not finished *)
Example gated_deadlock :
  exists evs s, grun (ginit 2 true [(0, 1)]) evs = Some s /\ stuck s = true.
Proof.
  exists [GActivate 0; GSendChunk 0 0; GSendEnd 0]. eexists. split; [vm_compute; reflexivity|vm_compute; reflexivity].
Qed.

(* the same three events with the current receiver: it goes on and finishes *)
Example ungated_completes :
  exists s, grun (ginit 2 false [(0, 1)]) [GActivate 0; GSendChunk 0 0; GSendEnd 0; GRecvCtl; GRecvChunk 0; GRecvCtl; GAck; GFinish; GRecvCtl] = Some s
            /\ gfinal s = true.
Proof. eexists. split; vm_compute; reflexivity. Qed.

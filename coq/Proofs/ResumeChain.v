(* C04, the composition made explicit: an arbitrary history of the receiver
   (writes, marks, flushes in any interleaving, kills at any instant, restarts -
   Model/Crash.v) followed by a resumed run of a file (Model/Resume.v) ends with
   the source's bytes.  [refines] relates the two levels of abstraction: the
   crash model's "chunk i is in the data file" means the bytes of chunk i equal
   the source's, and the bitmap the resumed run loads is the sidecar the crash
   model says is on disk. *)
From Coq Require Import ZArith List Bool Lia.
Import ListNotations.
From TF Require Import Lib.GoInt Lib.Bytes Proofs.Geometry Model.CRC Model.Sidecar Model.Resume Proofs.ResumeFile.
From TF Require Model.Crash Proofs.Crash.
Open Scope Z_scope.

Definition refines (cs : Z) (x : Crash.fstate) (file src bm : list Z) (total : Z) : Prop :=
  (forall i : nat, nth i (Crash.written x) false = true ->
     chunk_at cs file (Z.of_nat i) = chunk_at cs src (Z.of_nat i)) /\
  (forall i, 0 <= i < total -> bit_get bm total i = true ->
     exists b, Crash.disk x = Some b /\ nth (Z.to_nat i) b false = true).

Theorem chain_then_resume_identical :
  forall ns evs s' fi x h rq d src tail vnone br o,
    (* any history of the earlier runs, kills and restarts included *)
    Crash.run (map Crash.fresh ns) evs = Some s' -> nth_error s' fi = Some x ->
    (* the resumed run of that file *)
    geom_dom (rq_size rq) (rq_cs rq) -> zlen src = rq_size rq ->
    recv_begin h rq d = Ret br ->
    resume_outcome h rq d src tail vnone = Ret o ->
    refines (rq_cs rq) x (br_file br) src (sc_bitmap (br_sc br)) (br_total br) ->
    o_file o = src.
Proof.
  intros ns evs s' fi x h rq d src tail vnone br o R Hx G L B Ro [Rw Rb].
  assert (Hh : Crash.honest x).
  { pose proof (Proofs.Crash.honest_at_every_instant ns evs [] s') as H. rewrite app_nil_r in H.
    destruct (H R) as (s1 & R1 & F). rewrite R in R1. injection R1 as <-.
    rewrite Forall_forall in F. apply F. eapply nth_error_In; exact Hx. }
  eapply resume_identical_honest; eauto.
  intros i Hi Hbit. destruct (Rb i Hi Hbit) as (b & Hd & Hn).
  specialize (Hh b (Z.to_nat i) Hd Hn). specialize (Rw _ Hh).
  rewrite Z2Nat.id in Rw by lia. exact Rw.
Qed.

(* non-vacuity of [chain_then_resume_identical]: a history with writes, marks, a
   complete flush, a further write and a kill; the byte-level disk state it
   stands for; the resumed run *)
Definition ex_hist : list Crash.ev :=
  [Crash.Write 0 0; Crash.Mark 0 0; Crash.Write 0 1; Crash.Mark 0 1;
   Crash.FlushBegin 0; Crash.FlushTmp 0; Crash.FlushRename 0;
   Crash.Write 0 2; Crash.FlushBegin 0; Crash.FlushTmpTorn 0; Crash.Restart 0 true].
Definition ex_src : list Z := [1; 2; 3; 4; 5].
Definition ex_rq : request := mkRq [97] 5 2 1.
Definition ex_disk : disk := mkDisk (Some ex_src) (Some (serialise (mkSc 2 5 3 [97] [3]))) None.

Example chain_example :
  exists s' x br o,
    Crash.run (map Crash.fresh [3%nat]) ex_hist = Some s' /\ nth_error s' 0 = Some x /\
    Crash.disk x = Some [true; true; false] /\
    recv_begin crc32c ex_rq ex_disk = Ret br /\
    resume_outcome crc32c ex_rq ex_disk ex_src 1 false = Ret o /\
    refines 2 x (br_file br) ex_src (sc_bitmap (br_sc br)) (br_total br) /\
    o_sent o = [1; 2] /\ o_file o = ex_src.
Proof.
  eexists. eexists. eexists. eexists.
  split; [vm_compute; reflexivity|]. split; [vm_compute; reflexivity|].
  split; [vm_compute; reflexivity|]. split; [vm_compute; reflexivity|].
  split; [vm_compute; reflexivity|]. split; [|split; vm_compute; reflexivity].
  split.
  - intros i _. destruct i as [|[|[|i]]]; vm_compute; reflexivity.
  - intros i Hi Hb. cbn in Hi.
    assert (Hc : i = 0 \/ i = 1 \/ i = 2) by lia.
    destruct Hc as [E|[E|E]]; subst i.
    + exists [true; true; false]. split; reflexivity.
    + exists [true; true; false]. split; reflexivity.
    + vm_compute in Hb. discriminate.
Qed.

(* The structural facts Model/Race.v (fx = true) relies on, as read off the
   current source of internal/ice/ice.go by gotrans (Gen/RaceSrc.v): a changed
   source breaks this proof obligation. *)
From Coq Require Import ZArith Bool.
From TF Require Import Gen.RaceSrc.
Open Scope Z_scope.

Lemma source_shape :
  result_chan_cap = 1 /\            (* the hand-over send cannot block: one sender (CAS), capacity 1 *)
  handover_is_cas = true /\         (* if won.CompareAndSwap { resultCh <- conn } else { conn.CloseWithError } *)
  handover_sends = 1 /\             (* no other send into the result channel *)
  wg_add_before_wait = true /\      (* all dials registered before the goroutine that waits is started *)
  alldone_rechecks_channel = true /\(* the allDone arm looks into the channel again *)
  ctx_arm_starts_drainer = true /\  (* leaving through ctx.Done starts the drainer *)
  caller_select_arms = 3.           (* result channel, ctx.Done, allDone *)
Proof. repeat split; reflexivity. Qed.

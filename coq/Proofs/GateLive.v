(* Deadlock-freedom + termination measure = every maximal run of a healthy
   transfer ends with both sides successful. *)
From Coq Require Import List Arith Bool Lia.
Import ListNotations.
From TF Require Import Model.Gate Proofs.GateMu Proofs.Gate.

Theorem maximal_runs_succeed par files evs s :
  1 <= par -> NoDup (map fst files) ->
  grun (ginit par false files) evs = Some s ->
  (forall e, gstep s e = None) ->
  gfinal s = true /\ length evs <= mu (ginit par false files).
Proof.
  intros Hp Hn Hr Hstuck. split.
  - destruct (gate_progress par files s Hp Hn (ex_intro _ evs Hr)) as [F|(e & s' & E)]; [exact F|].
    rewrite Hstuck in E. discriminate.
  - pose proof (grun_length evs _ _ Hr). lia.
Qed.

(* from any reachable state the transfer can still be completed, and whatever
   is done it is completed within mu steps: a run can always be extended until
   it is final *)
Theorem can_always_finish par files s :
  1 <= par -> NoDup (map fst files) -> reachable par false files s ->
  exists evs s', grun s evs = Some s' /\ gfinal s' = true /\ length evs <= mu s.
Proof.
  intros Hp Hn.
  assert (forall n s, mu s <= n -> reachable par false files s ->
            exists evs s', grun s evs = Some s' /\ gfinal s' = true /\ length evs <= mu s) as G.
  { induction n as [|n IH]; intros s0 Hm Hr.
    - destruct (gate_progress par files s0 Hp Hn Hr) as [F|(e & s1 & E)].
      + exists [], s0. simpl. repeat split; auto. lia.
      + pose proof (gstep_mu _ _ _ E). lia.
    - destruct (gate_progress par files s0 Hp Hn Hr) as [F|(e & s1 & E)].
      + exists [], s0. simpl. repeat split; auto. lia.
      + pose proof (gstep_mu _ _ _ E) as D.
        assert (reachable par false files s1) as Hr1.
        { destruct Hr as (evs0 & R0). exists (evs0 ++ [e]).
          clear - R0 E. revert R0. generalize (ginit par false files) as s.
          induction evs0 as [|x r IHr]; intros s; simpl.
          - intros X. injection X as ->. rewrite E. reflexivity.
          - destruct (gstep s x); [apply IHr|discriminate]. }
        destruct (IH s1 ltac:(lia) Hr1) as (evs & s' & R & F & L).
        exists (e :: evs), s'. simpl. rewrite E. repeat split; auto. lia. }
  intros Hr. apply (G (mu s) s); auto.
Qed.

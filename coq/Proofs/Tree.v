(* Composition lemmas for C01: what is on the receiver's disk after a reported
   success, chunk by chunk. *)
From Coq Require Import ZArith List Bool Lia.
Import ListNotations.
From TF Require Import Lib.GoInt Gen.Geometry Model.Recv Proofs.Recv Model.Send Proofs.Send Proofs.Geometry.
Open Scope Z_scope.

(* the content the receiver's disk holds for chunk i of the file with key k:
   the payload of the LAST positional write at that index in this run, else what
   the prior (interrupted) run left there *)
Fixpoint last_write (ws : list (Z * Z * Z * Z)) (k i : Z) : option (Z * Z) :=
  match ws with
  | [] => None
  | (k', i', len, tok) :: r =>
      match last_write r k i with
      | Some x => Some x
      | None => if (k' =? k) && (i' =? i) then Some (len, tok) else None
      end
  end.

Section Honest.
  (* the source: payload token and length of chunk i of the file with key k *)
  Variable src_tok : Z -> Z -> Z.
  Variable src_len : Z -> Z -> Z.

  Definition honest_writes (s : st) : Prop :=
    forall k i len tok, In (k, i, len, tok) (writes s) -> tok = src_tok k i /\ len = src_len k i.

  Lemma last_write_in ws k i x : last_write ws k i = Some x -> In (k, i, fst x, snd x) ws.
  Proof.
    induction ws as [|[[[k' i'] len] tok] r IH]; simpl; [discriminate|].
    destruct (last_write r k i) as [y|] eqn:L.
    - intros E. injection E as <-. right. apply IH. reflexivity.
    - destruct ((k' =? k) && (i' =? i)) eqn:E; [|discriminate].
      intros X. injection X as <-. apply andb_true_iff in E. destruct E as (E1 & E2).
      apply Z.eqb_eq in E1, E2. subst. left. reflexivity.
  Qed.

  Lemma in_last_write ws k i len tok : In (k, i, len, tok) ws -> exists x, last_write ws k i = Some x.
  Proof.
    induction ws as [|[[[k' i'] len'] tok'] r IH]; simpl; [tauto|].
    intros [E|H].
    - injection E as -> -> -> ->. destruct (last_write r k i); [eauto|]. rewrite !Z.eqb_refl. simpl. eauto.
    - destruct (IH H) as (x & ->). eauto.
  Qed.

  (* THE TREE THEOREM (chunk level).  If the receiver reports success then for
     every file of the manifest there is a successful finalization whose chunk
     count is the generated count for the manifest's size and the announced chunk
     size, and every chunk index of it is either marked in the honest prior state
     or its last write of this run carries the source's payload and length *)
  Theorem tree_chunks m res pr evs : Forall (wf_ev pr) evs ->
    let s := run (init m res pr) evs in
    result s = Some Success -> NoDup (begun s) -> honest_writes s ->
    (forall r, In r (fins s) -> fr_sidecar r = false -> NoDup (fr_have r)) ->
    forall fi mf, nth_error m fi = Some mf ->
      exists r, In r (fins s) /\ fr_fi r = fi /\ fr_ok r = true /\ fr_key r = m_key mf /\
        recvTotalChunks (m_size mf) (fr_cs r) = Ret (fr_total r) /\
        forall i, 0 <= i < fr_total r ->
          (fr_sidecar r = true /\ In i (pr fi) /\ last_write (writes s) (m_key mf) i = None) \/
          last_write (writes s) (m_key mf) i = Some (src_len (m_key mf) i, src_tok (m_key mf) i).
  Proof.
    intros W s Hs ND HW HN fi mf Hn.
    assert (fi < length m)%nat as Hfi by (apply nth_error_Some; rewrite Hn; discriminate).
    destruct (success_all_files m res pr evs W Hs ND fi Hfi) as (r & Hr & Efi & Ok).
    destruct (finalized_key m res pr evs W r Hr) as (mf' & N' & K & T). fold s in Hr.
    rewrite Efi, Hn in N'. injection N' as <-.
    exists r. repeat split; auto.
    intros i Hi.
    assert (fr_sidecar r = true \/ NoDup (fr_have r)) as Hd.
    { destruct (fr_sidecar r) eqn:Sc; [left; reflexivity|right; apply HN; auto]. }
    pose proof (finalized_file_complete m res pr evs W r Hr Ok Hd i Hi) as C.
    fold s in C. rewrite K.
    destruct (last_write (writes s) (fr_key r) i) as [x|] eqn:L.
    - right. apply last_write_in in L. destruct (HW _ _ _ _ L) as (E1 & E2).
      destruct x as [l t]. simpl in *. subst. reflexivity.
    - destruct C as [(Sc & Hp)|(len & tok & Hin)].
      + left. rewrite Efi in Hp.
        assert (prior s = pr) as Ep by (destruct (run_consts evs (init m res pr)) as (E & _); exact E).
        rewrite Ep in Hp. auto.
      + destruct (in_last_write _ _ _ _ _ Hin) as (x & E). rewrite E in L. discriminate.
  Qed.
End Honest.

Theorem chunks_tile_file : forall size cs, geom_dom size cs ->
  let n := ceil_div size cs in
  recvTotalChunks size cs = Ret n /\ chunkTotal size cs = Ret n /\
  (forall i, 0 <= i < n ->
     exists len, chunkSizeForIndex size cs i = Ret len /\
       sendOffset i cs = Ret (i * cs) /\ recvOffset i cs = Ret (i * cs) /\
       0 < len <= cs /\ i * cs + len <= size /\ sum_lens size cs (Z.to_nat i) = i * cs) /\
  sum_lens size cs (Z.to_nat n) = size.
Proof.
  intros size cs D n. destruct (tiling size cs D) as (T1 & T2 & T3).
  split; [apply recvTotalChunks_spec; exact D|]. split; [exact T1|]. split; [|exact T3].
  intros i Hi. destruct (T2 i Hi) as (len & A & B & C & E & _ & F & G). exists len. tauto.
Qed.

Theorem sender_success : forall files evs,
  NoDup files -> NoDup (ends_of evs) -> incl (ends_of evs) files ->
  let s := srun (sinit files) evs in
  s_result s = Some SSuccess -> forall k, In k files -> In (k, true) (s_acks_seen s).
Proof.
  intros files evs NF NE IE s Hs k Hk.
  destruct (send_success_sound files evs NF NE IE Hs) as (_ & _ & H). apply H. exact Hk.
Qed.

(* Proofs about Model/Scan.v: what the walk lists (exactness via path lookup),
   uniqueness of relative paths, sortedness, counters, the resolver. *)
From Coq Require Import ZArith List Bool Lia Permutation Sorting.Sorted.
From TF Require Import Lib.GoInt Model.Scan Proofs.ScanNames.
Import ListNotations.
Open Scope Z_scope.

(* ---- well-formed trees: what a file system guarantees ---- *)
Definition good_name (nm : bytes) : Prop := nm <> [] /\ ~ In SLASH nm.

Inductive wf : node -> Prop :=
| wf_File s m : 0 <= s -> wf (File s m)
| wf_Dir m kids :
    NoDup (map fst kids) ->
    Forall (fun k => good_name (fst k)) kids ->
    Forall (fun k => wf (snd k)) kids ->
    wf (Dir m kids)
| wf_Link : wf Link
| wf_Other : wf Other.

(* induction principle that reaches the children *)
Fixpoint node_ind' (P : node -> Prop)
  (Hf : forall s m, P (File s m))
  (Hd : forall m kids, Forall (fun k => P (snd k)) kids -> P (Dir m kids))
  (Hl : P Link) (Ho : P Other) (n : node) {struct n} : P n :=
  match n with
  | File s m => Hf s m
  | Dir m kids =>
      Hd m kids ((fix go (ks : list (bytes * node)) : Forall (fun k => P (snd k)) ks :=
                    match ks with
                    | [] => Forall_nil _
                    | k :: ks' => Forall_cons k (node_ind' P Hf Hd Hl Ho (snd k)) (go ks')
                    end) kids)
  | Link => Hl
  | Other => Ho
  end.

(* ---- the specification side: looking a path up in the tree ---- *)
Fixpoint assoc (nm : bytes) (kids : list (bytes * node)) : option node :=
  match kids with
  | [] => None
  | k :: t => if beq (fst k) nm then Some (snd k) else assoc nm t
  end.

(* the node reached from [n] by the names [p]; only directories are entered,
   links are never crossed *)
Fixpoint lookup (n : node) (p : list bytes) : option node :=
  match p with
  | [] => Some n
  | nm :: p' =>
      match n with
      | Dir _ kids => match assoc nm kids with Some c => lookup c p' | None => None end
      | _ => None
      end
  end.

(* the manifest item a regular file / directory found at manifest path r must have *)
Definition item_of (r : bytes) (n : node) : option item :=
  match n with
  | File s m => Some (mkItem r s m false)
  | Dir m _ => Some (mkItem r 0 m true)
  | _ => None
  end.

Lemma assoc_In nm kids c : assoc nm kids = Some c -> In (nm, c) kids.
Proof.
  induction kids as [|k t IH]; cbn; [discriminate|].
  destruct (beq (fst k) nm) eqn:E.
  - intros H. inversion H; subst. apply beq_eq in E. left. destruct k; cbn in *; subst; reflexivity.
  - intros H. right. auto.
Qed.

Lemma In_assoc kids k : NoDup (map fst kids) -> In k kids -> assoc (fst k) kids = Some (snd k).
Proof.
  induction kids as [|h t IH]; cbn; intros ND HI; [contradiction|].
  inversion ND as [|x l Hnot ND']; subst.
  destruct HI as [->|HI].
  - rewrite beq_refl. reflexivity.
  - destruct (beq (fst h) (fst k)) eqn:E.
    + apply beq_eq in E. exfalso. apply Hnot. rewrite E. apply in_map. exact HI.
    + auto.
Qed.

(* ---- names and joined paths ---- *)
Lemma joinp_cons nm p : joinp (nm :: p) = SLASH :: nm ++ joinp p.
Proof. reflexivity. Qed.

Lemma joinp_app p q : joinp (p ++ q) = joinp p ++ joinp q.
Proof. unfold joinp. apply flat_map_app. Qed.

Lemma joinp_head p : joinp p = [] \/ exists t, joinp p = SLASH :: t.
Proof. destruct p; [left; reflexivity|right; eexists; apply joinp_cons]. Qed.

(* a slash-free name is determined by what follows up to the first slash *)
Lemma split_name a : forall b x y,
  ~ In SLASH a -> ~ In SLASH b ->
  (x = [] \/ exists t, x = SLASH :: t) -> (y = [] \/ exists t, y = SLASH :: t) ->
  a ++ x = b ++ y -> a = b /\ x = y.
Proof.
  induction a as [|c a IH]; intros b x y Ha Hb Hx Hy E.
  - destruct b as [|d b]; [split; [reflexivity|exact E]|].
    cbn in E. exfalso. destruct Hx as [->|[t ->]]; [discriminate|].
    inversion E; subst. apply Hb. left. reflexivity.
  - destruct b as [|d b].
    + cbn in E. exfalso. destruct Hy as [->|[t ->]]; [discriminate|].
      inversion E; subst. apply Ha. left. reflexivity.
    + cbn in E. inversion E; subst.
      destruct (IH b x y) as [-> ->]; auto.
      * intros H. apply Ha. right. exact H.
      * intros H. apply Hb. right. exact H.
Qed.

Lemma joinp_inj p : forall q, Forall good_name p -> Forall good_name q -> joinp p = joinp q -> p = q.
Proof.
  induction p as [|a p IH]; intros q Hp Hq E.
  - destruct q; [reflexivity|]. rewrite joinp_cons in E. discriminate.
  - destruct q as [|b q]; [rewrite joinp_cons in E; discriminate|].
    rewrite !joinp_cons in E. inversion E as [E'].
    inversion Hp as [|? ? [_ Ha] Hp']; inversion Hq as [|? ? [_ Hb] Hq']; subst.
    destruct (split_name a b (joinp p) (joinp q) Ha Hb (joinp_head p) (joinp_head q) E') as [-> E2].
    f_equal. apply IH; assumption.
Qed.

(* ---- the walk ---- *)
Lemma visit_Dir r m kids :
  visit r (Dir m kids) = mkItem r 0 m true :: visit_kids r kids.
Proof. reflexivity. Qed.

Lemma in_visit_kids r kids it :
  In it (visit_kids r kids) <-> exists k, In k kids /\ In it (visit (r ++ SLASH :: fst k) (snd k)).
Proof. unfold visit_kids. rewrite in_flat_map. reflexivity. Qed.

(* every listed path extends the path of the entry the walk started from, by good names *)
Lemma visit_rel_form n : forall r it, wf n -> In it (visit r n) ->
  exists p, rel it = r ++ joinp p /\ Forall good_name p.
Proof.
  induction n as [s m|m kids IH| |] using node_ind'; intros r it W HI.
  - cbn in HI. destruct HI as [<-|[]]. exists []. cbn. rewrite app_nil_r. auto.
  - rewrite visit_Dir in HI. destruct HI as [<-|HI].
    + exists []. cbn. rewrite app_nil_r. auto.
    + apply in_visit_kids in HI. destruct HI as (k & Hk & HI).
      inversion W as [|? ? ND GN WK| |]; subst.
      rewrite Forall_forall in IH, GN, WK.
      destruct (IH k Hk _ _ (WK k Hk) HI) as (p & E & G).
      exists (fst k :: p). split.
      * rewrite E, joinp_cons, <- app_assoc. reflexivity.
      * constructor; [apply GN; exact Hk|exact G].
  - cbn in HI. contradiction.
  - cbn in HI. contradiction.
Qed.

Lemma nodup_app {A} (l1 l2 : list A) :
  NoDup l1 -> NoDup l2 -> (forall a, In a l1 -> ~ In a l2) -> NoDup (l1 ++ l2).
Proof.
  induction l1 as [|x l1 IH]; intros N1 N2 D; [exact N2|].
  inversion N1; subst. cbn. constructor.
  - rewrite in_app_iff. intros [H|H]; [contradiction|]. apply (D x); [left; reflexivity|exact H].
  - apply IH; auto. intros a Ha. apply D. right. exact Ha.
Qed.

Lemma visit_NoDup n : forall r, wf n -> NoDup (map rel (visit r n)).
Proof.
  induction n as [s m|m kids IH| |] using node_ind'; intros r W.
  - cbn. constructor; [intros []|constructor].
  - rewrite visit_Dir. cbn [map rel]. 
    inversion W as [|? ? ND GN WK| |]; subst.
    constructor.
    + rewrite in_map_iff. intros (it & E & HI).
      apply in_visit_kids in HI. destruct HI as (k & Hk & HI).
      rewrite Forall_forall in WK.
      destruct (visit_rel_form _ _ _ (WK k Hk) HI) as (p & E' & _).
      rewrite E' in E. apply (f_equal (@length Z)) in E.
      rewrite !app_length in E. cbn in E. lia.
    + clear W. unfold visit_kids.
      induction kids as [|k ks IHk]; cbn; [constructor|].
      inversion ND as [|? ? Hnot ND']; inversion GN as [|? ? Gk GN']; inversion WK as [|? ? Wk WK'];
        inversion IH as [|? ? IHhd IHtl]; subst.
      rewrite map_app. apply nodup_app.
      * apply IHhd. exact Wk.
      * apply IHk; assumption.
      * intros x Hx1 Hx2. rewrite in_map_iff in Hx1, Hx2.
        destruct Hx1 as (i1 & E1 & H1). destruct Hx2 as (i2 & E2 & H2).
        apply in_flat_map in H2. destruct H2 as (k' & Hk' & H2).
        rewrite Forall_forall in WK', GN'.
        destruct (visit_rel_form _ _ _ Wk H1) as (p1 & F1 & G1).
        destruct (visit_rel_form _ _ _ (WK' k' Hk') H2) as (p2 & F2 & G2).
        assert (E : joinp (fst k :: p1) = joinp (fst k' :: p2)).
        { assert (EE : rel i1 = rel i2) by congruence.
          rewrite F1, F2 in EE. rewrite <- !app_assoc in EE. apply app_inv_head in EE.
          exact EE. }
        apply joinp_inj in E; [|constructor; auto|constructor; auto].
        injection E as E0 _. apply Hnot. rewrite E0. apply in_map. exact Hk'.
  - cbn. constructor.
  - cbn. constructor.
Qed.

(* completeness: whatever a lookup finds (regular file or directory) is listed *)
Lemma visit_complete n : forall r p c it,
  lookup n p = Some c -> item_of (r ++ joinp p) c = Some it -> In it (visit r n).
Proof.
  induction n as [s m|m kids IH| |] using node_ind'; intros r p c it L I.
  - destruct p; cbn in L; [|discriminate]. inversion L; subst. cbn in I. rewrite app_nil_r in I.
    inversion I; subst. left. reflexivity.
  - destruct p as [|nm p].
    + cbn in L. inversion L; subst. cbn in I. rewrite app_nil_r in I. inversion I; subst.
      rewrite visit_Dir. left. reflexivity.
    + cbn in L. destruct (assoc nm kids) as [c0|] eqn:A; [|discriminate].
      apply assoc_In in A. rewrite visit_Dir. right. apply in_visit_kids.
      exists (nm, c0). split; [exact A|]. cbn [fst snd].
      rewrite Forall_forall in IH. apply (IH _ A _ p c it L).
      rewrite joinp_cons in I. rewrite <- app_assoc. exact I.
  - destruct p; cbn in L; [|discriminate]. inversion L; subst. discriminate.
  - destruct p; cbn in L; [|discriminate]. inversion L; subst. discriminate.
Qed.

(* soundness: everything listed is a regular file or directory found by a lookup *)
Lemma visit_sound n : forall r it, wf n -> In it (visit r n) ->
  exists p c, lookup n p = Some c /\ item_of (r ++ joinp p) c = Some it /\ Forall good_name p.
Proof.
  induction n as [s m|m kids IH| |] using node_ind'; intros r it W HI.
  - cbn in HI. destruct HI as [<-|[]]. exists [], (File s m). cbn. rewrite app_nil_r. auto.
  - rewrite visit_Dir in HI. destruct HI as [<-|HI].
    + exists [], (Dir m kids). cbn. rewrite app_nil_r. auto.
    + apply in_visit_kids in HI. destruct HI as (k & Hk & HI).
      inversion W as [|? ? ND GN WK| |]; subst.
      rewrite Forall_forall in IH, GN, WK.
      destruct (IH k Hk _ _ (WK k Hk) HI) as (p & c & L & I & G).
      exists (fst k :: p), c. split; [|split].
      * cbn. rewrite (In_assoc _ _ ND Hk). exact L.
      * rewrite joinp_cons. rewrite <- app_assoc in I. exact I.
      * constructor; [apply GN; exact Hk|exact G].
  - cbn in HI. contradiction.
  - cbn in HI. contradiction.
Qed.

(* ---- the given paths ---- *)
Definition listed (n : node) : bool :=
  match n with File _ _ => true | Dir _ _ => true | _ => false end.

Definition good_entry (e : entry) : bool :=
  match e_stat e with Some n => listed n | None => false end.

Definition wf_entry (e : entry) : Prop :=
  Forall good_name (e_abs e) /\ match e_stat e with Some n => wf n | None => True end.

Definition contrib (ke : bytes * entry) : list item :=
  match top_items (fst ke) (e_stat (snd ke)) with Some l => l | None => [] end.

(* the top-level names ScanPaths and the resolver use for the given paths *)
Definition keys_of (es : list entry) : list bytes :=
  match top_names (map (fun e => base_of (e_abs e)) es) with Some k => k | None => [] end.

(* [key] is the top-level name given to the path [e] (at some position of the list) *)
Definition named (es : list entry) (key : bytes) (e : entry) : Prop :=
  In (key, e) (combine (keys_of es) es).

Lemma top_items_listed key n : listed n = true -> top_items key (Some n) = Some (visit key n).
Proof. destruct n; cbn; intros H; try discriminate; reflexivity. Qed.

Lemma collect_step k e (its : list item) (ok : bool) :
  match top_items k (e_stat e) with Some l => (l ++ its, ok) | None => (its, false) end
  = (contrib (k, e) ++ its, good_entry e && ok).
Proof.
  unfold contrib, good_entry. cbn [fst snd].
  destruct (e_stat e) as [[s m|m kids| |]|]; cbn; reflexivity.
Qed.

Lemma collect_spec keys : forall es, length keys = length es ->
  collect keys es = (flat_map contrib (combine keys es), forallb good_entry es).
Proof.
  induction keys as [|k keys IH]; intros [|e es] L; cbn in L; try discriminate; [reflexivity|].
  cbn [collect combine flat_map forallb]. rewrite IH by lia. apply collect_step.
Qed.

Lemma keys_of_spec es : top_names (map (fun e => base_of (e_abs e)) es) = Some (keys_of es).
Proof.
  unfold keys_of. destruct (top_names_some (map (fun e => base_of (e_abs e)) es)) as [ks E].
  rewrite E. reflexivity.
Qed.

Lemma keys_of_length es : length (keys_of es) = length es.
Proof. rewrite (top_names_length _ _ (keys_of_spec es)). apply map_length. Qed.

Lemma keys_of_NoDup es : NoDup (keys_of es).
Proof. apply (top_names_NoDup _ _ (keys_of_spec es)). Qed.

Lemma scan_paths_eq es : es <> [] ->
  scan_paths es = Ret (finish (flat_map contrib (combine (keys_of es) es)), forallb good_entry es).
Proof.
  intros NE. unfold scan_paths. destruct es as [|e0 es']; [contradiction|].
  rewrite keys_of_spec. rewrite collect_spec by apply keys_of_length. reflexivity.
Qed.

Lemma root_name_good : good_name root_name.
Proof.
  split; [discriminate|]. unfold root_name, SLASH. cbn. intros H.
  repeat (destruct H as [H|H]; [discriminate|]). exact H.
Qed.

Lemma base_of_good abs : Forall good_name abs -> good_name (base_of abs).
Proof.
  unfold base_of. induction abs as [|a abs IH]; intros H; [exact root_name_good|].
  inversion H; subst. destruct abs as [|b abs]; [assumption|]. apply IH. assumption.
Qed.

Lemma cand_good j b : good_name b -> good_name (cand j b).
Proof. intros [_ H]. split; [apply cand_nonempty|apply cand_no_slash; exact H]. Qed.

Lemma keys_of_good es : Forall wf_entry es -> Forall good_name (keys_of es).
Proof.
  intros W. pose proof (top_names_shape _ _ (keys_of_spec es)) as S.
  assert (B : Forall good_name (map (fun e => base_of (e_abs e)) es)).
  { rewrite Forall_forall in *. intros b Hb. apply in_map_iff in Hb. destruct Hb as (e & <- & He).
    apply base_of_good. apply (W e He). }
  revert B. induction S as [|b k bs ks Hk S IH]; intros B; [constructor|].
  inversion B; subst. constructor; [|apply IH; assumption].
  destruct Hk as [->|[j ->]]; [assumption|apply cand_good; assumption].
Qed.

Lemma named_exists es e : In e es -> exists key, named es key e.
Proof.
  unfold named. pose proof (keys_of_length es) as L. revert L. generalize (keys_of es) as ks.
  induction es as [|e0 es IH]; intros ks L HI; [contradiction|].
  destruct ks as [|k ks]; cbn in L; [discriminate|].
  destruct HI as [->|HI].
  - exists k. left. reflexivity.
  - destruct (IH ks ltac:(lia) HI) as [key Hk]. exists key. right. exact Hk.
Qed.

Lemma named_facts es key e : Forall wf_entry es -> named es key e ->
  good_name key /\ wf_entry e /\ In e es.
Proof.
  intros W N. unfold named in N.
  pose proof (in_combine_l _ _ _ _ N) as Hk. pose proof (in_combine_r _ _ _ _ N) as He.
  pose proof (keys_of_good es W) as G. rewrite Forall_forall in G, W. auto.
Qed.

(* what one given path contributes *)
Lemma contrib_sound key e it :
  (match e_stat e with Some n => wf n | None => True end) -> In it (contrib (key, e)) ->
  exists n p c, e_stat e = Some n /\ lookup n p = Some c /\
                item_of (key ++ joinp p) c = Some it /\ Forall good_name p.
Proof.
  unfold contrib. cbn [fst snd]. intros W HI.
  destruct (e_stat e) as [n|]; [|cbn in HI; contradiction].
  destruct (listed n) eqn:Ln.
  - rewrite top_items_listed in HI by exact Ln.
    destruct (visit_sound n key it W HI) as (p & c & L & I & G). exists n, p, c. auto.
  - destruct n; cbn in Ln; try discriminate; cbn in HI; contradiction.
Qed.

Lemma contrib_complete key e n p c it :
  e_stat e = Some n -> lookup n p = Some c -> item_of (key ++ joinp p) c = Some it ->
  In it (contrib (key, e)).
Proof.
  intros S L I. unfold contrib. cbn [fst snd]. rewrite S.
  assert (Ln : listed n = true).
  { destruct n; try reflexivity; destruct p; cbn in L; try discriminate;
      inversion L; subst; cbn in I; discriminate. }
  rewrite top_items_listed by exact Ln. eapply visit_complete; eassumption.
Qed.

Lemma contrib_NoDup key e :
  (match e_stat e with Some n => wf n | None => True end) -> NoDup (map rel (contrib (key, e))).
Proof.
  unfold contrib. cbn [fst snd]. intros W.
  destruct (e_stat e) as [n|]; [|constructor].
  destruct (listed n) eqn:Ln.
  - rewrite top_items_listed by exact Ln. apply visit_NoDup. exact W.
  - destruct n; cbn in Ln; try discriminate; constructor.
Qed.

Lemma raw_NoDup kes :
  NoDup (map fst kes) -> Forall (fun ke => good_name (fst ke)) kes ->
  Forall (fun ke => match e_stat (snd ke) with Some n => wf n | None => True end) kes ->
  NoDup (map rel (flat_map contrib kes)).
Proof.
  induction kes as [|[k e] kes IH]; intros ND G W; [constructor|].
  cbn [flat_map]. rewrite map_app.
  inversion ND as [|? ? Hnot ND']; inversion G as [|? ? Gk G']; inversion W as [|? ? Wk W']; subst.
  cbn [fst snd] in *.
  apply nodup_app.
  - apply contrib_NoDup. exact Wk.
  - apply IH; assumption.
  - intros x H1 H2. apply in_map_iff in H1. apply in_map_iff in H2.
    destruct H1 as (i1 & E1 & H1). destruct H2 as (i2 & E2 & H2).
    apply in_flat_map in H2. destruct H2 as ([k' e'] & Hke' & H2).
    rewrite Forall_forall in G', W'.
    destruct (contrib_sound _ _ _ Wk H1) as (n1 & p1 & c1 & _ & _ & I1 & _).
    destruct (contrib_sound _ _ _ (W' _ Hke') H2) as (n2 & p2 & c2 & _ & _ & I2 & _).
    assert (R1 : rel i1 = k ++ joinp p1) by (destruct c1; cbn in I1; inversion I1; reflexivity).
    assert (R2 : rel i2 = k' ++ joinp p2) by (destruct c2; cbn in I2; inversion I2; reflexivity).
    assert (EE : k ++ joinp p1 = k' ++ joinp p2) by congruence.
    destruct Gk as [_ Gk]. destruct (G' _ Hke') as [_ Gk']. cbn [fst] in Gk'.
    destruct (split_name _ _ _ _ Gk Gk' (joinp_head p1) (joinp_head p2) EE) as [-> _].
    apply Hnot. change k' with (fst (k', e')). apply in_map. exact Hke'.
Qed.

Lemma map_fst_combine {A B} (l1 : list A) : forall (l2 : list B),
  length l1 = length l2 -> map fst (combine l1 l2) = l1.
Proof.
  induction l1 as [|a l1 IH]; intros [|b l2] L; cbn in *; try discriminate; [reflexivity|].
  f_equal. apply IH. lia.
Qed.

(* ---- the finished manifest ---- *)
Definition item_sum (l : list item) : Z :=
  fold_right (fun it t => (if isdir it then 0 else size it) + t) 0 l.

Lemma item_sum_perm l1 l2 : Permutation l1 l2 -> item_sum l1 = item_sum l2.
Proof.
  unfold item_sum.
  induction 1 as [|x l l' _ IH|x y l|l l' l'' _ IH1 _ IH2]; cbn; try lia.
Qed.

Lemma lookup_wf p : forall n c, wf n -> lookup n p = Some c -> wf c.
Proof.
  induction p as [|nm p IH]; intros n c W L.
  - cbn in L. inversion L; subst. exact W.
  - cbn in L. destruct n as [| m kids | |]; try discriminate.
    destruct (assoc nm kids) as [c0|] eqn:A; [|discriminate].
    inversion W as [|? ? _ _ WK| |]; subst. rewrite Forall_forall in WK.
    apply assoc_In in A. apply (IH c0 c); [apply (WK _ A)|exact L].
Qed.

Lemma filter_length_perm {A} (f : A -> bool) l1 l2 :
  Permutation l1 l2 -> length (filter f l1) = length (filter f l2).
Proof.
  induction 1 as [|x l l' _ IH|x y l|l l' l'' _ IH1 _ IH2]; cbn; try lia.
  - destruct (f x); cbn; lia.
  - destruct (f x), (f y); cbn; lia.
Qed.

Section Manifest.
  Variable es : list entry.
  Variable m : manifest.
  Variable ok : bool.
  Hypothesis Hscan : scan_paths es = Ret (m, ok).

  Let raw := flat_map contrib (combine (keys_of es) es).

  Lemma es_nonempty : es <> [].
  Proof. intros E. rewrite E in Hscan. cbn in Hscan. discriminate. Qed.

  Lemma m_is : m = finish raw /\ ok = forallb good_entry es.
  Proof.
    pose proof (scan_paths_eq es es_nonempty) as E. rewrite Hscan in E.
    inversion E; subst. split; reflexivity.
  Qed.

  Lemma items_perm : Permutation (m_items m) raw.
  Proof. destruct m_is as [E _]. rewrite E. cbn. apply isort_perm. Qed.

  Lemma in_items it : In it (m_items m) <-> In it raw.
  Proof.
    split; intros H.
    - eapply Permutation_in; [apply items_perm|exact H].
    - eapply Permutation_in; [apply Permutation_sym, items_perm|exact H].
  Qed.

  Lemma ok_iff : ok = true <-> forall e, In e es -> good_entry e = true.
  Proof. destruct m_is as [_ E]. rewrite E. apply forallb_forall. Qed.

  (* exactness, completeness half: every regular file and directory beneath a
     given path is in the manifest under that path's name *)
  Lemma exact_complete key e n p c it :
    named es key e -> e_stat e = Some n -> lookup n p = Some c ->
    item_of (key ++ joinp p) c = Some it -> In it (m_items m).
  Proof.
    intros N S L I. apply in_items. unfold raw. apply in_flat_map.
    exists (key, e). split; [exact N|]. eapply contrib_complete; eassumption.
  Qed.

  Lemma items_sorted : StronglySorted (fun a b => ble (rel a) (rel b) = true) (m_items m).
  Proof. destruct m_is as [E _]. rewrite E. cbn. apply isort_sorted. Qed.

  Lemma ids_spec : m_ids m = map compute_id (m_items m).
  Proof. destruct m_is as [E _]. rewrite E. reflexivity. Qed.

  Lemma files_spec : m_files m = length (filter (fun it => negb (isdir it)) (m_items m)).
  Proof.
    rewrite (filter_length_perm _ _ _ items_perm).
    destruct m_is as [E _]. rewrite E. cbn. apply acc_files_spec.
  Qed.

  Lemma folders_spec : m_folders m = length (filter isdir (m_items m)).
  Proof.
    rewrite (filter_length_perm _ _ _ items_perm).
    destruct m_is as [E _]. rewrite E. cbn. apply acc_folders_spec.
  Qed.

  Hypothesis Hwf : Forall wf_entry es.

  Lemma raw_nodup : NoDup (map rel raw).
  Proof.
    unfold raw. apply raw_NoDup.
    - rewrite map_fst_combine by apply keys_of_length. apply keys_of_NoDup.
    - apply Forall_forall. intros [k e] H. cbn [fst].
      apply (proj1 (named_facts es k e Hwf H)).
    - apply Forall_forall. intros [k e] H. cbn [snd].
      destruct (named_facts es k e Hwf H) as (_ & [_ W] & _). exact W.
  Qed.

  Lemma items_nodup : NoDup (map rel (m_items m)).
  Proof.
    eapply Permutation_NoDup; [|apply raw_nodup].
    apply Permutation_map, Permutation_sym, items_perm.
  Qed.

  (* exactness, soundness half: nothing else is in the manifest *)
  Lemma exact_sound it : In it (m_items m) ->
    exists key e n p c, named es key e /\ e_stat e = Some n /\ lookup n p = Some c /\
      item_of (key ++ joinp p) c = Some it /\ good_name key /\ Forall good_name p.
  Proof.
    intros H. apply in_items in H. unfold raw in H. apply in_flat_map in H.
    destruct H as ([k e] & N & H).
    destruct (named_facts es k e Hwf N) as (Gk & [_ W] & _).
    destruct (contrib_sound _ _ _ W H) as (n & p & c & S & L & I & G).
    exists k, e, n, p, c. auto 10.
  Qed.

  Lemma item_of_rel r c it : item_of r c = Some it -> rel it = r.
  Proof. destruct c; cbn; intros H; inversion H; reflexivity. Qed.

  (* ... exactly once *)
  Lemma exact_once key e n p c it :
    named es key e -> e_stat e = Some n -> lookup n p = Some c ->
    item_of (key ++ joinp p) c = Some it ->
    count_occ bytes_eq_dec (map rel (m_items m)) (key ++ joinp p) = 1%nat.
  Proof.
    intros N S L I. apply NoDup_count_occ'; [apply items_nodup|].
    rewrite <- (item_of_rel _ _ _ I). apply in_map. eapply exact_complete; eassumption.
  Qed.

  Lemma sizes_nonneg it : In it (m_items m) -> 0 <= size it.
  Proof.
    intros H. destruct (exact_sound it H) as (k & e & n & p & c & N & S & L & I & _).
    destruct (named_facts es k e Hwf N) as (_ & [_ W] & _). rewrite S in W.
    pose proof (lookup_wf _ _ _ W L) as Wc.
    destruct c; cbn in I; inversion I; subst; cbn; try lia. inversion Wc; assumption.
  Qed.

  (* a listed file is a regular file of exactly that size; directories have size 0 *)
  Lemma size_faithful it : In it (m_items m) ->
    exists key e n p, named es key e /\ e_stat e = Some n /\ rel it = key ++ joinp p /\
      if isdir it then (exists kids, lookup n p = Some (Dir (mtime it) kids)) /\ size it = 0
      else lookup n p = Some (File (size it) (mtime it)).
  Proof.
    intros H. destruct (exact_sound it H) as (k & e & n & p & c & N & S & L & I & _).
    exists k, e, n, p. repeat split; try assumption.
    - symmetry. destruct c; cbn in I; inversion I; reflexivity.
    - destruct c; cbn in I; inversion I; subst; cbn; [exact L|]. split; [eexists; exact L|reflexivity].
  Qed.

  Lemma total_spec : item_sum (m_items m) < 2^63 -> m_total m = item_sum (m_items m).
  Proof.
    intros B. rewrite (item_sum_perm _ _ items_perm) in *.
    destruct m_is as [E _]. rewrite E. cbn [m_total finish].
    apply acc_total_spec; [|exact B].
    intros it H. apply sizes_nonneg. apply in_items. exact H.
  Qed.
End Manifest.

(* ---- the resolver ---- *)
Lemma split_slash_name key : ~ In SLASH key -> split_slash key = (key, None).
Proof.
  induction key as [|c key IH]; intros H; [reflexivity|].
  cbn. destruct (c =? SLASH) eqn:E.
  - exfalso. apply H. left. apply Z.eqb_eq in E. exact E.
  - rewrite IH; [reflexivity|]. intros H'. apply H. right. exact H'.
Qed.

Lemma split_slash_app key t : ~ In SLASH key -> split_slash (key ++ SLASH :: t) = (key, Some t).
Proof.
  induction key as [|c key IH]; intros H.
  - cbn. reflexivity.
  - cbn. destruct (c =? SLASH) eqn:E.
    + exfalso. apply H. left. apply Z.eqb_eq in E. exact E.
    + rewrite IH; [reflexivity|]. intros H'. apply H. right. exact H'.
Qed.

Lemma lookup_last_In key ts v : lookup_last key ts = Some v -> In key (map fst ts).
Proof.
  revert v. induction ts as [|[k v0] ts IH]; intros v; cbn; [discriminate|].
  destruct (lookup_last key ts) as [v'|].
  - intros _. right. apply (IH v'). reflexivity.
  - destruct (beq k key) eqn:E; [|discriminate]. intros _. left. apply beq_eq. exact E.
Qed.

Lemma lookup_last_nodup ts : forall key v,
  NoDup (map fst ts) -> In (key, v) ts -> lookup_last key ts = Some v.
Proof.
  induction ts as [|[k v0] ts IH]; intros key v ND HI; [contradiction|].
  cbn in ND. inversion ND as [|? ? Hnot ND']; subst. cbn.
  destruct HI as [E|HI].
  - inversion E; subst. destruct (lookup_last key ts) as [v'|] eqn:L.
    + exfalso. apply Hnot. eapply lookup_last_In. exact L.
    + rewrite beq_refl. reflexivity.
  - rewrite (IH key v ND' HI). reflexivity.
Qed.

Lemma in_combine_map {A B C} (f : B -> C) (ks : list A) : forall (l : list B) k e,
  In (k, e) (combine ks l) -> In (k, f e) (combine ks (map f l)).
Proof.
  induction ks as [|k0 ks IH]; intros [|e0 l] k e H; cbn in *; try contradiction.
  destruct H as [H|H]; [left; inversion H; reflexivity|right; apply IH; exact H].
Qed.

Lemma build_resolver_spec es ts : build_resolver es = Ret ts -> es <> [] ->
  ts = combine (keys_of es) (map (fun e => (e_abs e, is_dir_stat (e_stat e))) es).
Proof.
  intros H NE. unfold build_resolver in H. destruct es as [|e0 es']; [contradiction|].
  destruct (negb (forallb has_stat (e0 :: es'))); [discriminate|].
  rewrite keys_of_spec in H. inversion H. reflexivity.
Qed.

Lemma build_resolver_ok es : (forall e, In e es -> good_entry e = true) ->
  exists ts, build_resolver es = Ret ts.
Proof.
  intros G. unfold build_resolver. destruct es as [|e0 es']; [eexists; reflexivity|].
  assert (F : forallb has_stat (e0 :: es') = true).
  { apply forallb_forall. intros e He. specialize (G e He). unfold good_entry, has_stat in *.
    destruct (e_stat e); [reflexivity|discriminate]. }
  rewrite F. cbn [negb]. rewrite keys_of_spec. eexists. reflexivity.
Qed.

Lemma path_str_nonempty comps : comps <> [] -> path_str comps = joinp comps.
Proof. destruct comps; [contradiction|reflexivity]. Qed.

(* every listed path resolves to the source path it was scanned from: the given
   path followed by the names below it *)
Lemma resolver_correct es ts key e n p c :
  build_resolver es = Ret ts -> Forall wf_entry es ->
  named es key e -> e_stat e = Some n -> lookup n p = Some c -> Forall good_name p ->
  resolve_rel ts (key ++ joinp p) = path_str (e_abs e ++ p).
Proof.
  intros B W N S L G.
  assert (NE : es <> []) by (intros E; rewrite E in N; unfold named in N; cbn in N;
                              destruct (keys_of []); contradiction).
  rewrite (build_resolver_spec es ts B NE).
  destruct (named_facts es key e W N) as ([_ Gk] & _ & _).
  set (f := fun e : entry => (e_abs e, is_dir_stat (e_stat e))).
  assert (LK : lookup_last key (combine (keys_of es) (map f es)) = Some (f e)).
  { apply lookup_last_nodup.
    - rewrite map_fst_combine by (rewrite map_length; apply keys_of_length). apply keys_of_NoDup.
    - apply in_combine_map. exact N. }
  unfold resolve_rel. destruct p as [|nm p].
  - cbn [joinp flat_map]. rewrite !app_nil_r. rewrite split_slash_name by exact Gk.
    rewrite LK. reflexivity.
  - rewrite joinp_cons. rewrite split_slash_app by exact Gk. rewrite LK. unfold f.
    inversion G as [|? ? [Gnm _] _]; subst.
    assert (D : is_dir_stat (e_stat e) = true).
    { rewrite S. cbn in L. destruct n; try discriminate. reflexivity. }
    rewrite D. destruct nm as [|b nm]; [contradiction Gnm; reflexivity|].
    cbn [app]. rewrite path_str_nonempty by (destruct (e_abs e); discriminate).
    rewrite joinp_app, joinp_cons. reflexivity.
Qed.

(* ---- independence of the enumeration order of directories ---- *)
Inductive nequiv : node -> node -> Prop :=
| ne_File s m : nequiv (File s m) (File s m)
| ne_Dir m k1 k2 : kequiv k1 k2 -> nequiv (Dir m k1) (Dir m k2)
| ne_Link : nequiv Link Link
| ne_Other : nequiv Other Other
(* the same children, possibly enumerated in another order *)
with kequiv : list (bytes * node) -> list (bytes * node) -> Prop :=
| ke_nil : kequiv [] []
| ke_skip nm c1 c2 k1 k2 : nequiv c1 c2 -> kequiv k1 k2 -> kequiv ((nm, c1) :: k1) ((nm, c2) :: k2)
| ke_swap a b k : kequiv (a :: b :: k) (b :: a :: k)
| ke_trans k1 k2 k3 : kequiv k1 k2 -> kequiv k2 k3 -> kequiv k1 k3.

Scheme nequiv_mut := Induction for nequiv Sort Prop
  with kequiv_mut := Induction for kequiv Sort Prop.

Lemma visit_equiv_both :
  (forall n1 n2, nequiv n1 n2 -> forall r, Permutation (visit r n1) (visit r n2)) /\
  (forall k1 k2, kequiv k1 k2 -> forall r, Permutation (visit_kids r k1) (visit_kids r k2)).
Proof.
  split.
  - intros n1 n2 H.
    induction H using nequiv_mut with
      (P0 := fun k1 k2 _ => forall r, Permutation (visit_kids r k1) (visit_kids r k2)); intros r.
    + apply Permutation_refl.
    + rewrite !visit_Dir. apply perm_skip. auto.
    + apply Permutation_refl.
    + apply Permutation_refl.
    + apply Permutation_refl.
    + unfold visit_kids in *. cbn [flat_map fst snd]. apply Permutation_app; auto.
    + unfold visit_kids. cbn [flat_map]. rewrite !app_assoc. apply Permutation_app_tail, Permutation_app_comm.
    + eapply Permutation_trans; eauto.
  - intros k1 k2 H.
    induction H using kequiv_mut with
      (P := fun n1 n2 _ => forall r, Permutation (visit r n1) (visit r n2)); intros r.
    + apply Permutation_refl.
    + rewrite !visit_Dir. apply perm_skip. auto.
    + apply Permutation_refl.
    + apply Permutation_refl.
    + apply Permutation_refl.
    + unfold visit_kids in *. cbn [flat_map fst snd]. apply Permutation_app; auto.
    + unfold visit_kids. cbn [flat_map]. rewrite !app_assoc. apply Permutation_app_tail, Permutation_app_comm.
    + eapply Permutation_trans; eauto.
Qed.

Definition visit_equiv := proj1 visit_equiv_both.

(* two descriptions of the same given paths that differ only in the order in
   which directories list their children *)
Definition eequiv (e1 e2 : entry) : Prop :=
  e_abs e1 = e_abs e2 /\
  match e_stat e1, e_stat e2 with
  | Some n1, Some n2 => nequiv n1 n2
  | None, None => True
  | _, _ => False
  end.

Lemma nequiv_listed n1 n2 : nequiv n1 n2 -> listed n1 = listed n2.
Proof. destruct 1; reflexivity. Qed.

Lemma contrib_equiv k e1 e2 : eequiv e1 e2 -> Permutation (contrib (k, e1)) (contrib (k, e2)).
Proof.
  intros [_ H]. unfold contrib. cbn [fst snd].
  destruct (e_stat e1) as [n1|], (e_stat e2) as [n2|]; try contradiction; [|apply Permutation_refl].
  pose proof (nequiv_listed _ _ H) as Ls. destruct (listed n1) eqn:L1.
  - rewrite !top_items_listed by congruence. apply visit_equiv. exact H.
  - destruct n1; cbn in L1; try discriminate; destruct n2; cbn in Ls; try discriminate;
      apply Permutation_refl.
Qed.

Lemma wf_equiv n1 n2 : nequiv n1 n2 -> wf n1 -> wf n2.
Proof.
  intros H.
  induction H using nequiv_mut with
    (P0 := fun k1 k2 _ =>
       Permutation (map fst k1) (map fst k2) /\
       (Forall (fun k => good_name (fst k)) k1 -> Forall (fun k => good_name (fst k)) k2) /\
       (Forall (fun k => wf (snd k)) k1 -> Forall (fun k => wf (snd k)) k2)); try (intros W; exact W).
  + intros W. inversion W; subst. destruct IHnequiv as (P & G & F).
    constructor; [eapply Permutation_NoDup; eassumption|auto|auto].
  + repeat split; auto.
  + destruct IHnequiv0 as (P & G & F). repeat split.
    * cbn. apply perm_skip. exact P.
    * intros X. inversion X; subst. constructor; auto.
    * intros X. inversion X; subst. constructor; auto.
  + repeat split.
    * cbn. apply perm_swap.
    * intros X. inversion X as [|? ? A X']; inversion X' as [|? ? B X'']; subst. constructor; [exact B|constructor; [exact A|exact X'']].
    * intros X. inversion X as [|? ? A X']; inversion X' as [|? ? B X'']; subst. constructor; [exact B|constructor; [exact A|exact X'']].
  + destruct IHnequiv as (P1 & G1 & F1). destruct IHnequiv0 as (P2 & G2 & F2). repeat split; auto.
    eapply Permutation_trans; eassumption.
Qed.

Lemma i64_add_comm t a b : i64 (i64 (t + a) + b) = i64 (i64 (t + b) + a).
Proof.
  unfold i64.
  replace ((t + a + 2 ^ 63) mod 2 ^ 64 - 2 ^ 63 + b + 2 ^ 63) with ((t + a + 2 ^ 63) mod 2 ^ 64 + b) by lia.
  replace ((t + b + 2 ^ 63) mod 2 ^ 64 - 2 ^ 63 + a + 2 ^ 63) with ((t + b + 2 ^ 63) mod 2 ^ 64 + a) by lia.
  rewrite !Zplus_mod_idemp_l. f_equal. f_equal. lia.
Qed.

Lemma acc_total_perm l1 l2 : Permutation l1 l2 -> acc_total l1 = acc_total l2.
Proof.
  intros P. unfold acc_total. apply fold_left_perm; [|exact P].
  intros c x y. destruct (isdir x), (isdir y); try reflexivity. apply i64_add_comm.
Qed.

Lemma finish_perm raw1 raw2 :
  Permutation raw1 raw2 -> NoDup (map rel raw1) -> finish raw1 = finish raw2.
Proof.
  intros P ND. unfold finish.
  assert (E : isort raw1 = isort raw2).
  { apply sorted_perm_unique; try apply isort_sorted.
    - eapply Permutation_trans; [apply isort_perm|].
      eapply Permutation_trans; [exact P|apply Permutation_sym, isort_perm].
    - eapply Permutation_NoDup; [|exact ND]. apply Permutation_map, Permutation_sym, isort_perm. }
  rewrite E, (acc_total_perm _ _ P), (acc_files_perm _ _ P), (acc_folders_perm _ _ P). reflexivity.
Qed.

(* the manifest (items, ids, counters, error flag) does not depend on the order
   in which any directory's entries are enumerated *)
Theorem order_independent es1 es2 :
  Forall2 eequiv es1 es2 -> Forall wf_entry es1 -> scan_paths es1 = scan_paths es2.
Proof.
  intros F W.
  destruct es1 as [|a es1'] eqn:E1.
  { inversion F. reflexivity. }
  rewrite <- E1 in *.
  assert (NE1 : es1 <> []) by (rewrite E1; discriminate).
  assert (NE2 : es2 <> []) by (intros ->; rewrite E1 in F; inversion F).
  rewrite (scan_paths_eq _ NE1), (scan_paths_eq _ NE2).
  assert (K : keys_of es1 = keys_of es2).
  { unfold keys_of. replace (map (fun e => base_of (e_abs e)) es2) with (map (fun e => base_of (e_abs e)) es1); [reflexivity|].
    clear - F. induction F as [|e1 e2 l1 l2 [A _] _ IH]; [reflexivity|]. cbn. rewrite A, IH. reflexivity. }
  assert (G : forallb good_entry es1 = forallb good_entry es2).
  { clear - F. induction F as [|e1 e2 l1 l2 [_ H] _ IH]; [reflexivity|]. cbn. rewrite IH. f_equal.
    unfold good_entry. destruct (e_stat e1), (e_stat e2); try contradiction; [|reflexivity].
    apply nequiv_listed. exact H. }
  assert (P : Permutation (flat_map contrib (combine (keys_of es1) es1))
                          (flat_map contrib (combine (keys_of es2) es2))).
  { rewrite <- K. generalize (keys_of es1) as ks. clear - F.
    induction F as [|e1 e2 l1 l2 H _ IH]; intros ks; [destruct ks; apply Permutation_refl|].
    destruct ks as [|k ks]; [apply Permutation_refl|]. cbn [combine flat_map].
    apply Permutation_app; [apply contrib_equiv; exact H|apply IH]. }
  rewrite G. f_equal. f_equal. apply finish_perm; [exact P|].
  apply raw_NoDup.
  - rewrite map_fst_combine by apply keys_of_length. apply keys_of_NoDup.
  - apply Forall_forall. intros [k e] H. cbn [fst]. apply (proj1 (named_facts es1 k e W H)).
  - apply Forall_forall. intros [k e] H. cbn [snd].
    destruct (named_facts es1 k e W H) as (_ & [_ We] & _). exact We.
Qed.

(* ---- the statements exported by Props/C13.v that combine the above ---- *)
Lemma scan_total : forall es, es <> [] ->
  exists m, scan_paths es = Ret (m, forallb good_entry es).
Proof. intros es H. eexists. apply scan_paths_eq. exact H. Qed.

Lemma names_distinct : forall es,
  NoDup (keys_of es) /\ length (keys_of es) = length es /\
  forall e, In e es -> exists key, named es key e.
Proof. intros es. split; [apply keys_of_NoDup|split; [apply keys_of_length|apply named_exists]]. Qed.

Lemma exact_listed : forall es m ok, scan_paths es = Ret (m, ok) -> Forall wf_entry es ->
  forall key e n p c it,
    named es key e -> e_stat e = Some n -> lookup n p = Some c ->
    item_of (key ++ joinp p) c = Some it ->
    In it (m_items m) /\
    count_occ bytes_eq_dec (map rel (m_items m)) (key ++ joinp p) = 1%nat.
Proof.
  intros es m ok H W key e n p c it N S L I. split.
  - eapply exact_complete; eassumption.
  - eapply exact_once; eassumption.
Qed.

Lemma counts_all : forall es m ok, scan_paths es = Ret (m, ok) -> Forall wf_entry es ->
  m_files m = length (filter (fun it => negb (isdir it)) (m_items m)) /\
  m_folders m = length (filter isdir (m_items m)) /\
  (item_sum (m_items m) < 2^63 -> m_total m = item_sum (m_items m)) /\
  m_ids m = map compute_id (m_items m).
Proof.
  intros es m ok H W. split; [eapply files_spec; eassumption|].
  split; [eapply folders_spec; eassumption|].
  split; [eapply total_spec; eassumption|eapply ids_spec; eassumption].
Qed.

Lemma resolver_exists : forall es m, scan_paths es = Ret (m, true) ->
  exists ts, build_resolver es = Ret ts.
Proof.
  intros es m H. apply build_resolver_ok. apply (proj1 (ok_iff es m true H)). reflexivity.
Qed.


(* The resumed transfer of ONE file ends with a byte-identical file
   (Model/Resume.v, [resume_outcome]):  if the metadata the receiver loaded is
   honest - every chunk it marks complete already holds the source's bytes in the
   data file, with the possible exception of the one chunk the sender's
   verification decides to send again - then after the sender's main pass and
   the re-send the data file IS the source, byte for byte.  This is the safety
   statement of C04 at file level (metadata honesty after any chain of kills is
   C05 / Proofs/Crash.v) and, with [repair_detected], the "detects it by hash and
   repairs it" clause of C06. *)
From Coq Require Import ZArith List Bool Lia Arith.
Import ListNotations.
From TF Require Import Lib.GoInt Lib.Bytes Gen.Consts Gen.Geometry Proofs.Geometry
  Model.CRC Model.Sidecar Model.Resume Proofs.Sidecar Proofs.Resume.
Open Scope Z_scope.

(* ---------- nth_error through firstn / skipn / app ---------- *)

Lemma nth_error_firstn' {A} (n : nat) (l : list A) (k : nat) :
  nth_error (firstn n l) k = if (k <? n)%nat then nth_error l k else None.
Proof.
  revert l k. induction n as [|n IH]; intros l k.
  - simpl. destruct k; reflexivity.
  - destruct l as [|a l]; [simpl firstn; destruct (k <? S n)%nat; destruct k; reflexivity|].
    destruct k as [|k]; [reflexivity|]. simpl firstn. simpl nth_error. rewrite IH.
    change (S k <? S n)%nat with (k <? n)%nat. reflexivity.
Qed.

Lemma nth_error_skipn' {A} (n : nat) (l : list A) (k : nat) :
  nth_error (skipn n l) k = nth_error l (n + k).
Proof.
  revert l. induction n as [|n IH]; intros l; cbn; [reflexivity|].
  destruct l as [|a l]; cbn; [destruct k; reflexivity|apply IH].
Qed.

Lemma nth_error_app' {A} (a b : list A) (k : nat) :
  nth_error (a ++ b) k = if (k <? length a)%nat then nth_error a k else nth_error b (k - length a).
Proof.
  destruct (k <? length a)%nat eqn:E.
  - apply Nat.ltb_lt in E. apply nth_error_app1; exact E.
  - apply Nat.ltb_ge in E. apply nth_error_app2; exact E.
Qed.

Lemma list_ext {A} (a b : list A) :
  length a = length b -> (forall k, (k < length a)%nat -> nth_error a k = nth_error b k) -> a = b.
Proof.
  revert b. induction a as [|x a IH]; intros [|y b] L H; cbn in L; try discriminate; [reflexivity|].
  f_equal.
  - specialize (H 0%nat ltac:(cbn; lia)). cbn in H. congruence.
  - apply IH; [lia|]. intros k Hk. apply (H (S k)). cbn; lia.
Qed.

(* ---------- one positional write ---------- *)

Section Chunks.
Variable c : nat.                (* chunk size *)
Hypothesis c_pos : (0 < c)%nat.

Definition chunk_n (l : list Z) (i : nat) : list Z := firstn c (skipn (i * c) l).

Definition put_n (src : list Z) (i : nat) (f : list Z) : list Z :=
  firstn (i * c) f ++ chunk_n src i ++ skipn (i * c + length (chunk_n src i)) f.

Lemma chunk_n_length l i : length (chunk_n l i) = Nat.min c (length l - i * c).
Proof. unfold chunk_n. rewrite firstn_length, skipn_length. reflexivity. Qed.

Lemma nth_error_chunk_n l i j :
  nth_error (chunk_n l i) j = if (j <? c)%nat then nth_error l (i * c + j) else None.
Proof. unfold chunk_n. rewrite nth_error_firstn', nth_error_skipn'. reflexivity. Qed.

Lemma put_n_length src i f : length f = length src -> length (put_n src i f) = length f.
Proof.
  intro L. unfold put_n. rewrite !app_length, firstn_length, skipn_length, chunk_n_length. lia.
Qed.

(* position k of the file after the write: the source's byte if k lies in chunk
   i, the old byte otherwise *)
Lemma nth_error_put_n src i f k : length f = length src -> (k < length f)%nat ->
  nth_error (put_n src i f) k = if (k / c =? i)%nat then nth_error src k else nth_error f k.
Proof.
  intros L Hk. unfold put_n.
  assert (Hdiv : (k / c = i)%nat <-> (i * c <= k < i * c + c)%nat).
  { split.
    - intro E. subst i. pose proof (Nat.div_mod k c ltac:(lia)). pose proof (Nat.mod_upper_bound k c ltac:(lia)). lia.
    - intros [A B]. symmetry. apply (Nat.div_unique k c i (k - i * c)); lia. }
  rewrite nth_error_app', firstn_length.
  destruct (k <? Nat.min (i * c) (length f))%nat eqn:E1.
  - apply Nat.ltb_lt in E1. rewrite nth_error_firstn'.
    assert (k <? i * c = true)%nat by (apply Nat.ltb_lt; lia). rewrite H.
    destruct (k / c =? i)%nat eqn:E2; [|reflexivity].
    apply Nat.eqb_eq in E2. apply Hdiv in E2. lia.
  - apply Nat.ltb_ge in E1.
    assert (Hic : (i * c <= k)%nat) by lia.
    replace (Nat.min (i * c) (length f)) with (i * c)%nat by lia.
    rewrite nth_error_app', chunk_n_length.
    destruct (k - i * c <? Nat.min c (length src - i * c))%nat eqn:E3.
    + apply Nat.ltb_lt in E3. rewrite nth_error_chunk_n.
      assert (k - i * c <? c = true)%nat by (apply Nat.ltb_lt; lia). rewrite H.
      replace (i * c + (k - i * c))%nat with k by lia.
      assert (k / c =? i = true)%nat by (apply Nat.eqb_eq; apply Hdiv; lia). rewrite H0. reflexivity.
    + apply Nat.ltb_ge in E3. rewrite nth_error_skipn'.
      replace (i * c + Nat.min c (length src - i * c) + (k - i * c - Nat.min c (length src - i * c)))%nat with k by lia.
      destruct (k / c =? i)%nat eqn:E2; [|reflexivity].
      apply Nat.eqb_eq in E2. apply Hdiv in E2. lia.
Qed.

Fixpoint puts_n (src : list Z) (idxs : list nat) (f : list Z) : list Z :=
  match idxs with [] => f | i :: r => puts_n src r (put_n src i f) end.

Lemma puts_n_length src idxs : forall f, length f = length src -> length (puts_n src idxs f) = length f.
Proof.
  induction idxs as [|i r IH]; intros f L; cbn; [reflexivity|].
  rewrite IH; [apply put_n_length; exact L|rewrite put_n_length; assumption].
Qed.

Lemma nth_error_puts_n src idxs : forall f k, length f = length src -> (k < length f)%nat ->
  nth_error (puts_n src idxs f) k =
  if existsb (Nat.eqb (k / c)) idxs then nth_error src k else nth_error f k.
Proof.
  induction idxs as [|i r IH]; intros f k L Hk; cbn; [reflexivity|].
  rewrite IH; [|rewrite put_n_length; assumption|rewrite put_n_length; assumption].
  rewrite nth_error_put_n by assumption.
  destruct (k / c =? i)%nat; cbn; [destruct (existsb _ r); reflexivity|reflexivity].
Qed.

(* equal chunks give equal bytes inside the chunk *)
Lemma chunk_n_eq_nth a b i k : chunk_n a i = chunk_n b i -> (k / c = i)%nat ->
  nth_error a k = nth_error b k.
Proof.
  intros E Hd.
  pose proof (Nat.div_mod k c ltac:(lia)) as D. pose proof (Nat.mod_upper_bound k c ltac:(lia)) as M.
  assert (nth_error (chunk_n a i) (k mod c) = nth_error (chunk_n b i) (k mod c)) by (rewrite E; reflexivity).
  rewrite !nth_error_chunk_n in H.
  assert (k mod c <? c = true)%nat by (apply Nat.ltb_lt; lia). rewrite H0 in H.
  subst i. replace (k / c * c + k mod c)%nat with k in H by lia. exact H.
Qed.
End Chunks.

(* ---------- the Z-indexed definitions of Model/Resume.v in those terms ---------- *)

Lemma chunk_at_n cs l i : 0 < cs -> 0 <= i ->
  chunk_at cs l i = chunk_n (Z.to_nat cs) l (Z.to_nat i).
Proof.
  intros Hc Hi. unfold chunk_at, chunk_n, zfirstn, zskipn.
  replace (Z.to_nat (i * cs)) with (Z.to_nat i * Z.to_nat cs)%nat by (rewrite <- Z2Nat.inj_mul; lia). reflexivity.
Qed.

Lemma put_chunks_n cs src idxs : 0 < cs -> Forall (fun i => 0 <= i) idxs -> forall f,
  put_chunks cs src idxs f = puts_n (Z.to_nat cs) src (map Z.to_nat idxs) f.
Proof.
  intros Hc Hall. induction Hall as [|i r Hi Hr IH]; intro f; cbn; [reflexivity|].
  rewrite IH. f_equal. unfold put_n. rewrite (chunk_at_n cs src i Hc Hi). unfold zfirstn, zskipn, zlen.
  replace (Z.to_nat (i * cs)) with (Z.to_nat i * Z.to_nat cs)%nat by (rewrite <- Z2Nat.inj_mul; lia).
  f_equal. f_equal. f_equal.
  rewrite Z2Nat.inj_add by lia. rewrite Nat2Z.id. rewrite Z2Nat.inj_mul by lia. reflexivity.
Qed.

Lemma in_zseq n i : In i (zseq n) <-> 0 <= i < Z.of_nat n.
Proof.
  induction n as [|n IH]; cbn [zseq].
  - split; [intros []|lia].
  - rewrite in_app_iff, IH. cbn. split.
    + intros [H|[H|[]]]; lia.
    + intro H. destruct (Z.eq_dec i (Z.of_nat n)); [right; left; congruence|left; lia].
Qed.

Lemma zlen_resize size x : 0 <= size -> zlen (resize size x) = size.
Proof.
  intro Hs. unfold resize, zlen, zfirstn, zeros. rewrite app_length, firstn_length, repeat_length.
  unfold zlen. lia.
Qed.

(* ---------- the file after a resumed run ---------- *)

Definition honest (cs : Z) (bm : list Z) (bits : Z) (f src : list Z) (except : option Z) : Prop :=
  forall i, 0 <= i < bits -> bit_get bm bits i = true -> Some i <> except ->
    chunk_at cs f i = chunk_at cs src i.

Lemma apply_info_shape total alg tail vnone it bm last hash pl :
  apply_info total alg tail vnone it bm last hash = Ret (Some pl) ->
  pl_bitmap pl = bm /\ pl_chunk pl = last /\
  pl_bits pl = (if it =? 0 then total else it) /\
  (pl_verify pl = true -> last < pl_bits pl).
Proof.
  unfold apply_info. destruct (negb (total =? 0) && negb (_ =? total)); [discriminate|].
  destruct ((0 <? _) && (0 <? zlen bm)); [|discriminate].
  destruct (negb (zlen bm =? _)); [discriminate|]. intro H. inversion H; subst; clear H. cbn.
  repeat split. intro V. apply andb_true_iff in V as [V _]. apply andb_true_iff in V as [V _].
  apply andb_true_iff in V as [_ V]. apply Z.ltb_lt in V. exact V.
Qed.

Lemma recv_begin_last h rq d br : recv_begin h rq d = Ret br -> 0 <= br_total br -> 0 <= br_last br.
Proof.
  unfold recv_begin. unfold bind at 1.
  destruct (recvTotalChunks (rq_size rq) (rq_cs rq)) as [total| |]; try discriminate.
  unfold bind at 1.
  destruct (load_or_create _ _ (rq_id rq) (rq_size rq) (rq_cs rq)) as [lr| |]; try discriminate.
  destruct (total =? 0); [intro H; inversion H; subst; cbn; auto|].
  destruct (highest_set (sc_bitmap (lr_sc lr)) (sc_total (lr_sc lr))) as [hi|] eqn:Hh.
  - apply highest_set_range in Hh as [Hr _].
    destruct (rq_alg rq =? 0); [intro H; inversion H; subst; cbn; lia|].
    unfold bind. destruct (hash_file_chunk _ _ _ _ _); try discriminate.
    intro H; inversion H; subst; cbn; lia.
  - intro H; inversion H; subst; cbn; auto.
Qed.

Theorem resume_identical h rq d src tail vnone br o :
  geom_dom (rq_size rq) (rq_cs rq) -> zlen src = rq_size rq ->
  recv_begin h rq d = Ret br ->
  resume_outcome h rq d src tail vnone = Ret o ->
  honest (rq_cs rq) (sc_bitmap (br_sc br)) (br_total br) (br_file br) src (o_resent o) ->
  o_file o = src.
Proof.
  intros G Ls B R Hon.
  pose proof G as (Hs & Hc & Hn).
  unfold resume_outcome in R. rewrite B in R. unfold bind at 1 in R.
  rewrite (chunkTotal_spec _ _ G) in R. unfold bind at 1 in R.
  unfold bind at 1 in R.
  destruct (apply_info _ _ _ _ _ _ _ _) as [p| |] eqn:A; try discriminate.
  inversion R; subst o; clear R. cbn [o_file o_resent] in *.
  set (total := ceil_div (rq_size rq) (rq_cs rq)) in *.
  pose proof (recv_begin_inv _ _ _ _ B) as (rt & lr & Hrt & _ & _ & _ & Ebt & _ & Ebf & _).
  rewrite (recvTotalChunks_spec _ _ G) in Hrt. injection Hrt as Hrt. rewrite <- Hrt in Ebt. clear Hrt rt. fold total in Ebt.
  pose proof (ceil_div_bounds (rq_size rq) (rq_cs rq) ltac:(lia) ltac:(lia)) as (Ht0 & Ht1 & Ht2). fold total in Ht0, Ht1, Ht2.
  assert (Lf : zlen (br_file br) = rq_size rq) by (rewrite Ebf; apply zlen_resize; lia).
  set (rs := verdict h (rq_cs rq) src p) in *.
  set (all := main_pass total p ++ match rs with Some x => [x] | None => [] end).
  (* every index written is non-negative *)
  assert (Hall : Forall (fun i => 0 <= i) all).
  { apply Forall_forall. intros i Hi. unfold all in Hi. apply in_app_iff in Hi as [Hi|Hi].
    - unfold main_pass in Hi. apply filter_In in Hi as [Hi _]. apply in_zseq in Hi. lia.
    - destruct rs as [x|] eqn:Ers; [|destruct Hi]. destruct Hi as [<-|[]].
      unfold rs, verdict in Ers. destruct p as [pl|]; [|discriminate].
      destruct (pl_verify pl && _); [|discriminate]. inversion Ers; subst x.
      apply apply_info_shape in A as (_ & -> & _ & _).
      apply (recv_begin_last _ _ _ _ B). rewrite Ebt. exact Ht0. }
  assert (Hcs : 0 < rq_cs rq) by lia.
  rewrite (put_chunks_n (rq_cs rq) src all Hcs Hall).
  set (c := Z.to_nat (rq_cs rq)).
  assert (Hcpos : (0 < c)%nat) by (unfold c; lia).
  assert (Lnat : length (br_file br) = length src) by (unfold zlen in *; lia).
  apply list_ext.
  - rewrite (puts_n_length c); assumption.
  - intros k Hk. rewrite (puts_n_length c) in Hk by assumption.
    rewrite (nth_error_puts_n c Hcpos) by assumption.
    destruct (existsb (Nat.eqb (k / c)) (map Z.to_nat all)) eqn:Ex; [reflexivity|].
    (* chunk i = k / c was not written by this run: it was skipped, hence marked, hence honest *)
    set (i := Z.of_nat (k / c)).
    assert (Hi : 0 <= i < total).
    { split; [unfold i; lia|].
      assert (Z.of_nat k < rq_size rq) by (unfold zlen in *; lia).
      assert (Z.of_nat (k / c) * rq_cs rq <= Z.of_nat k).
      { pose proof (Nat.div_mod k c ltac:(lia)). unfold c in *. nia. }
      unfold i. nia. }
    assert (Hnot : ~ In i all).
    { intro Hin. assert (existsb (Nat.eqb (k / c)) (map Z.to_nat all) = true); [|congruence].
      apply existsb_exists. exists (Z.to_nat i). split; [apply in_map; exact Hin|].
      unfold i. rewrite Nat2Z.id. apply Nat.eqb_refl. }
    assert (Hskip : plan_skips p i = true).
    { destruct (plan_skips p i) eqn:E; [reflexivity|exfalso]. apply Hnot. unfold all.
      apply in_app_iff. left. unfold main_pass. apply filter_In. split; [|rewrite E; reflexivity].
      apply in_zseq. lia. }
    destruct p as [pl|]; [|discriminate].
    unfold plan_skips in Hskip. apply andb_true_iff in Hskip as [Hbit _].
    pose proof (apply_info_shape _ _ _ _ _ _ _ _ _ A) as (Ebm & _ & Ebits & _).
    rewrite Ebm in Hbit. rewrite Ebits, Ebt in Hbit.
    assert (Ebits' : (if total =? 0 then total else total) = total) by (destruct (total =? 0); reflexivity).
    rewrite Ebits' in Hbit.
    assert (Hne : Some i <> rs).
    { intro E. apply Hnot. unfold all. apply in_app_iff. right. rewrite <- E. left; reflexivity. }
    specialize (Hon i). rewrite Ebt in Hon. specialize (Hon Hi Hbit Hne).
    rewrite !(chunk_at_n (rq_cs rq) _ i Hcs (proj1 Hi)) in Hon. fold c in Hon.
    unfold i in Hon. rewrite Nat2Z.id in Hon.
    symmetry. apply (chunk_n_eq_nth c Hcpos _ _ (k / c)%nat k); [symmetry; exact Hon|reflexivity].
Qed.

(* C04, file level: honest metadata (what C05 guarantees after any chain of kills
   and restarts) => the resumed run leaves the source's bytes *)
Corollary resume_identical_honest h rq d src tail vnone br o :
  geom_dom (rq_size rq) (rq_cs rq) -> zlen src = rq_size rq ->
  recv_begin h rq d = Ret br ->
  resume_outcome h rq d src tail vnone = Ret o ->
  (forall i, 0 <= i < br_total br -> bit_get (sc_bitmap (br_sc br)) (br_total br) i = true ->
     chunk_at (rq_cs rq) (br_file br) i = chunk_at (rq_cs rq) src i) ->
  o_file o = src.
Proof.
  intros G L B R H. eapply resume_identical; eauto. intros i Hi Hb _. apply H; assumption.
Qed.

(* nothing loaded (no metadata, unreadable, damaged, foreign, stale data file):
   identical whatever the data file held *)
Corollary resume_identical_unloaded h rq d src tail vnone br o :
  geom_dom (rq_size rq) (rq_cs rq) -> zlen src = rq_size rq ->
  recv_begin h rq d = Ret br -> br_loaded br = false ->
  resume_outcome h rq d src tail vnone = Ret o ->
  o_file o = src.
Proof.
  intros G L B U R. eapply resume_identical_honest; eauto. intros i Hi Hb.
  rewrite (unloaded_no_marks h rq d br B U) in Hb. discriminate.
Qed.

Lemma resume_outcome_inv h rq d src tail vnone br o :
  recv_begin h rq d = Ret br -> resume_outcome h rq d src tail vnone = Ret o ->
  exists total p, chunkTotal (rq_size rq) (rq_cs rq) = Ret total /\
    apply_info total (rq_alg rq) tail vnone (br_total br) (sc_bitmap (br_sc br)) (br_last br) (br_hash br) = Ret p /\
    o_resent o = verdict h (rq_cs rq) src p.
Proof.
  intros B R. unfold resume_outcome in R. rewrite B in R. unfold bind at 1 in R.
  destruct (chunkTotal (rq_size rq) (rq_cs rq)) as [total| |]; try discriminate. unfold bind at 1 in R.
  unfold bind at 1 in R. destruct (apply_info _ _ _ _ _ _ _ _) as [p| |] eqn:A; try discriminate.
  inversion R; subst o. exists total, p. repeat split; auto.
Qed.

(* C06, repair: the last chunk recorded as complete is damaged on disk, the hash
   tells it from the source, every other recorded chunk is intact => the resumed
   run detects it, sends it again, and the file ends identical *)
Theorem resume_repairs h rq d src tail br hi o :
  geom_dom (rq_size rq) (rq_cs rq) -> 0 < rq_size rq -> zlen src = rq_size rq ->
  (forall x, d_primary d = Some x -> bytes_ok x) -> (forall x, d_fallback d = Some x -> bytes_ok x) ->
  recv_begin h rq d = Ret br -> rq_alg rq <> 0 ->
  highest_set (sc_bitmap (br_sc br)) (sc_total (br_sc br)) = Some hi ->
  h (chunk_at (rq_cs rq) (br_file br) hi) <> h (chunk_at (rq_cs rq) src hi) ->
  h (chunk_at (rq_cs rq) (br_file br) hi) <> hash_unknown ->
  resume_outcome h rq d src tail false = Ret o ->
  (forall i, 0 <= i < br_total br -> i <> hi -> bit_get (sc_bitmap (br_sc br)) (br_total br) i = true ->
     chunk_at (rq_cs rq) (br_file br) i = chunk_at (rq_cs rq) src i) ->
  o_resent o = Some hi /\ o_file o = src.
Proof.
  intros G Hpos L Bp Bf B Alg Hh Hne Hunk R Hon.
  destruct (resume_outcome_inv _ _ _ _ _ _ _ _ B R) as (total & p & Et & A & Er).
  pose proof (repair_detected h rq d src tail br hi total p G Hpos Bp Bf B Alg Hh Hne Hunk Et A) as V.
  rewrite V in Er. split; [exact Er|].
  eapply resume_identical; eauto. rewrite Er. intros i Hi Hb Hx. apply Hon; auto. congruence.
Qed.

(* C01, bytes: whatever the order in which the frames of a file arrive over the
   streams, and however often an index is repeated - if every chunk index of the
   file was written at its generated offset with the source's bytes, the file IS
   the source.  ([idxs] is the sequence of positional writes as they happened.) *)
Theorem writes_cover_identical cs src idxs f :
  0 < cs -> zlen f = zlen src -> Forall (fun i => 0 <= i) idxs ->
  (forall i, 0 <= i -> i * cs < zlen src -> In i idxs) ->
  put_chunks cs src idxs f = src.
Proof.
  intros Hc L Hall Hcov. rewrite (put_chunks_n cs src idxs Hc Hall).
  set (c := Z.to_nat cs). assert (Hcpos : (0 < c)%nat) by (unfold c; lia).
  assert (Lnat : length f = length src) by (unfold zlen in L; lia).
  apply list_ext.
  - rewrite (puts_n_length c); assumption.
  - intros k Hk. rewrite (puts_n_length c) in Hk by assumption.
    rewrite (nth_error_puts_n c Hcpos) by assumption.
    assert (Hin : In (Z.of_nat (k / c)) idxs).
    { apply Hcov; [lia|]. pose proof (Nat.div_mod k c ltac:(lia)). unfold zlen, c in *. nia. }
    assert (existsb (Nat.eqb (k / c)) (map Z.to_nat idxs) = true) as ->; [|reflexivity].
    apply existsb_exists. exists (k / c)%nat. split; [|apply Nat.eqb_refl].
    apply in_map_iff. exists (Z.of_nat (k / c)). split; [apply Nat2Z.id|exact Hin].
Qed.

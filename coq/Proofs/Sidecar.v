(* Proofs about Model/Sidecar.v: the parser accepts exactly what Flush writes,
   rejects every strict prefix and every one-byte damage of it (or yields a
   sidecar whose id has another length, which the identity test then refuses). *)
From Coq Require Import ZArith List Bool Lia.
Import ListNotations.
From TF Require Import Lib.GoInt Lib.Bytes Gen.Geometry Model.CRC Model.Sidecar Proofs.CRC.
Open Scope Z_scope.

(* what CreateSidecar / MarkComplete / a successful LoadSidecar produce *)
Definition wf (s : sidecar) : Prop :=
  0 < sc_chunk s < 2^32 /\ in_i64 (sc_size s) /\
  sidecarTotalChunks (sc_size s) (sc_chunk s) = Ret (sc_total s) /\
  zlen (sc_id s) < 2^16 /\ bytes_ok (sc_id s) /\ bytes_ok (sc_bitmap s) /\
  zlen (sc_bitmap s) = byte_len (sc_total s) /\
  padding_clear (sc_bitmap s) (sc_total s) = true.

(* ---------- integers ---------- *)
Lemma i64_u64 x : in_i64 x -> i64 (u64 x) = x.
Proof.
  unfold in_i64, i64, u64. intros H. rewrite Zplus_mod_idemp_l. rewrite Z.mod_small; lia.
Qed.

Lemma u64_i64 x : 0 <= x < 2^64 -> u64 (i64 x) = x.
Proof.
  unfold i64, u64. intros H. rewrite Zminus_mod_idemp_l.
  replace (x + 2^63 - 2^63) with x by lia. apply Z.mod_small; lia.
Qed.

Lemma i64_range x : in_i64 (i64 x).
Proof. unfold in_i64, i64. pose proof (Z.mod_pos_bound (x + 2^63) (2^64) ltac:(lia)). lia. Qed.

Lemma byte_len_range t : 0 <= t < 2^32 -> 0 <= byte_len t < 2^32.
Proof.
  unfold byte_len. intros H. split; [apply Z.div_pos; lia|apply Z.div_lt_upper_bound; lia].
Qed.

Lemma total_chunks_range fs cs t : sidecarTotalChunks fs cs = Ret t -> 1 <= t < 2^32.
Proof.
  unfold sidecarTotalChunks, bind. intros H.
  destruct (cs =? 0); [discriminate|]. destruct (i64 cs =? 0); [discriminate|].
  cbv zeta in H.
  match type of H with context [u32 ?e] => pose proof (u32_range e) as R; set (t0 := u32 e) in * end.
  unfold in_u32 in R.
  destruct (t0 =? 0) eqn:E; inversion H; subst; [lia|].
  apply Z.eqb_neq in E. lia.
Qed.

(* ---------- byte lists ---------- *)
Lemma bytes_eqb_eq a : forall b, bytes_eqb a b = true -> a = b.
Proof.
  induction a as [|x a IH]; intros [|y b] H; cbn [bytes_eqb] in H; try discriminate; [reflexivity|].
  apply andb_true_iff in H as [H1 H2]. apply Z.eqb_eq in H1. f_equal; auto.
Qed.

Lemma be_0 x : be 0 x = [].
Proof. reflexivity. Qed.
Lemma be_S n x : be (S n) x = (x / p256 n) mod 256 :: be n (x mod p256 n).
Proof. reflexivity. Qed.

Lemma be_ok n : forall x, bytes_ok (be n x).
Proof.
  induction n as [|n IH]; intros x; [constructor|].
  rewrite be_S. constructor; [apply Z.mod_pos_bound; lia|apply IH].
Qed.

Lemma bytes_ok_app a b : bytes_ok (a ++ b) <-> bytes_ok a /\ bytes_ok b.
Proof. unfold bytes_ok. apply Forall_app. Qed.

Lemma unbe_acc_inv n : forall l acc v rest, bytes_ok l -> unbe_acc n l acc = Some (v, rest) ->
  exists x, 0 <= x < p256 n /\ v = acc * p256 n + x /\ l = be n x ++ rest /\ bytes_ok rest.
Proof.
  induction n as [|n IH]; intros l acc v rest Hl H; cbn [unbe_acc] in H.
  - inversion H; subst. exists 0. rewrite p256_0, be_0. repeat split; try lia. exact Hl.
  - destruct l as [|b l]; [discriminate|]. inversion Hl as [|? ? Hb Hl']; subst.
    apply IH in H as (x & Hx & Hv & El & Hr); [|exact Hl'].
    pose proof (p256_pos n) as Hp.
    exists (b * p256 n + x). rewrite p256_S, be_S.
    assert (D : (b * p256 n + x) / p256 n = b).
    { rewrite Z.div_add_l by lia. rewrite Z.div_small by lia. lia. }
    assert (M : (b * p256 n + x) mod p256 n = x).
    { rewrite Z.add_comm, Z.mod_add by lia. apply Z.mod_small; lia. }
    rewrite D, M, (Z.mod_small b 256) by lia.
    split; [nia|]. split; [nia|]. split; [|exact Hr].
    cbn [app]. f_equal. exact El.
Qed.

Lemma unbe_inv n l v rest : bytes_ok l -> unbe n l = Some (v, rest) ->
  l = be n v ++ rest /\ 0 <= v < p256 n /\ bytes_ok rest.
Proof.
  intros Hl H. unfold unbe in H. apply unbe_acc_inv in H as (x & Hx & Hv & El & Hr); [|exact Hl].
  assert (v = x) by lia. subst x. auto.
Qed.

Lemma unbe_be_nil n x : 0 <= x < p256 n -> unbe n (be n x) = Some (x, []).
Proof. intros H. rewrite <- (app_nil_r (be n x)) at 1. apply unbe_be. exact H. Qed.

Lemma be_app_inj n x y r r' : 0 <= x < p256 n -> 0 <= y < p256 n ->
  be n x ++ r = be n y ++ r' -> x = y /\ r = r'.
Proof.
  intros Hx Hy E. pose proof (unbe_be n x r Hx) as A.
  rewrite E, (unbe_be n y r' Hy) in A. inversion A; auto.
Qed.

Lemma be_inj n x y : 0 <= x < p256 n -> 0 <= y < p256 n -> be n x = be n y -> x = y.
Proof.
  intros Hx Hy E. apply (be_app_inj n x y [] [] Hx Hy). rewrite E. reflexivity.
Qed.

Lemma app_eq_len (a a' r r' : list Z) : length a = length a' -> a ++ r = a' ++ r' -> a = a' /\ r = r'.
Proof.
  revert a'. induction a as [|x a IH]; intros [|y a'] L E; cbn in L; try discriminate.
  - auto.
  - cbn [app] in E. inversion E; subst. destruct (IH a' ltac:(lia) H1) as [-> ->]. auto.
Qed.

Lemma app_neq_nil (a b : list Z) : (0 < length a)%nat -> a ++ b <> [].
Proof. destruct a; cbn; [lia|discriminate]. Qed.

Lemma zeros_0 : zeros 0 = [].
Proof. reflexivity. Qed.

(* ---------- reader.Read ---------- *)
Lemma reader_read_inv n l a pad r : 0 <= n -> reader_read n l = Some (a, pad, r) ->
  (pad = 0 /\ l = a ++ r /\ zlen a = n) \/ r = [].
Proof.
  intros Hn H. unfold reader_read in H.
  destruct (zlen l <? n) eqn:E; [discriminate|]. apply Z.ltb_ge in E.
  destruct l as [|x l']; [discriminate|].
  remember (x :: l') as L. clear HeqL.
  inversion H; subst. left. split; [reflexivity|].
  split; [symmetry; apply firstn_skipn|]. unfold zlen in *. rewrite firstn_length. lia.
Qed.

Lemma reader_read_app a r : r <> [] -> reader_read (zlen a) (a ++ r) = Some (a, 0, r).
Proof.
  intros Hr. unfold reader_read.
  replace (zlen (a ++ r) <? zlen a) with false
    by (symmetry; apply Z.ltb_ge; unfold zlen; rewrite app_length; lia).
  destruct (a ++ r) eqn:E.
  - apply app_eq_nil in E. tauto.
  - rewrite <- E. unfold zlen. rewrite Nat2Z.id.
    rewrite firstn_app, Nat.sub_diag, firstn_all, firstn_O, app_nil_r.
    rewrite skipn_app, Nat.sub_diag, skipn_all. reflexivity.
Qed.

(* ---------- layout ---------- *)
Definition tail0 (s : sidecar) : list Z :=
  be 2 sidecar_version ++ be 4 (sc_chunk s) ++ be 8 (u64 (sc_size s)) ++
  be 4 (sc_total s) ++ be 2 (u16 (zlen (sc_id s))) ++ sc_id s ++
  be 4 (u32 (zlen (sc_bitmap s))) ++ sc_bitmap s ++ be 4 (crc32c (body s)).

Lemma serialise_eq s : serialise s = sidecar_magic ++ tail0 s.
Proof. unfold serialise, body, tail0. repeat rewrite <- app_assoc. reflexivity. Qed.

Lemma firstn_magic X : firstn 4 (sidecar_magic ++ X) = sidecar_magic.
Proof. reflexivity. Qed.
Lemma skipn_magic X : skipn 4 (sidecar_magic ++ X) = X.
Proof. reflexivity. Qed.

Lemma firstn_body (b : list Z) c : firstn (length (b ++ be 4 c) - 4) (b ++ be 4 c) = b.
Proof.
  rewrite app_length, be_length, Nat.add_sub.
  rewrite firstn_app, Nat.sub_diag, firstn_all, firstn_O, app_nil_r. reflexivity.
Qed.

Lemma serialise_firstn s : firstn (length (serialise s) - 4) (serialise s) = body s.
Proof.
  unfold serialise. apply firstn_body.
Qed.

Lemma wf_ranges s : wf s -> 1 <= sc_total s < 2^32 /\ 0 <= zlen (sc_bitmap s) < 2^32.
Proof.
  intros (Hc & Hs & Ht & Hid & Bid & Bbm & Lbm & Pc).
  apply total_chunks_range in Ht. split; [exact Ht|]. rewrite Lbm. apply byte_len_range. lia.
Qed.

Lemma body_ok s : wf s -> bytes_ok (body s).
Proof.
  intros (Hc & Hs & Ht & Hid & Bid & Bbm & Lbm & Pc). unfold body.
  repeat (apply bytes_ok_app; split); try apply be_ok; try assumption.
  unfold sidecar_magic. repeat constructor; lia.
Qed.

Lemma serialise_ok s : wf s -> bytes_ok (serialise s).
Proof. intros W. unfold serialise. apply bytes_ok_app. split; [apply body_ok; exact W|apply be_ok]. Qed.

(* STATEMENTS TO PROVE (do not change them) *)

Theorem load_serialise s : wf s -> load (serialise s) = Some s.
Proof.
  intros W. pose proof (wf_ranges s W) as (Ht1 & Hbl).
  pose proof W as (Hc & Hs & Ht & Hid & Bid & Bbm & Lbm & Pc).
  unfold load. rewrite serialise_firstn.
  replace (zlen (serialise s) <? 6) with false.
  2:{ symmetry. apply Z.ltb_ge. rewrite serialise_eq. unfold zlen, tail0.
      rewrite !app_length, !be_length. cbn [length sidecar_magic]. lia. }
  rewrite serialise_eq, firstn_magic, skipn_magic.
  change (bytes_eqb sidecar_magic sidecar_magic) with true. cbn [negb].
  unfold tail0.
  rewrite unbe_be by (rewrite p256_2; unfold sidecar_version; lia).
  rewrite Z.eqb_refl. cbn [negb].
  rewrite unbe_be by (rewrite p256_4; lia).
  rewrite unbe_be by (rewrite p256_8; apply u64_range).
  rewrite unbe_be by (rewrite p256_4; lia).
  rewrite unbe_be by (rewrite p256_2; apply u16_range).
  rewrite u16_id by (unfold in_u16, zlen in *; lia).
  rewrite reader_read_app by (apply app_neq_nil; rewrite be_length; lia).
  rewrite unbe_be by (rewrite p256_4; apply u32_range).
  rewrite u32_id by (unfold in_u32; lia).
  rewrite reader_read_app by (intros E; apply (f_equal (@length Z)) in E; rewrite be_length in E; discriminate).
  rewrite unbe_be_nil by (rewrite p256_4; apply crc32c_range; apply body_ok; exact W).
  rewrite Z.eqb_refl. cbn [negb].
  rewrite Lbm, Z.eqb_refl. cbn [negb].
  replace (sc_chunk s =? 0) with false by (symmetry; apply Z.eqb_neq; lia).
  rewrite i64_u64 by exact Hs. rewrite Ht.
  rewrite Z.eqb_refl. cbn [negb]. cbv zeta.
  rewrite zeros_0, !app_nil_r, Pc. cbn [negb].
  destruct s; reflexivity.
Qed.

Lemma bytes_ok_skipn n l : bytes_ok l -> bytes_ok (skipn n l).
Proof.
  intros H. rewrite <- (firstn_skipn n l) in H. apply bytes_ok_app in H. tauto.
Qed.

Theorem load_inv d s : bytes_ok d -> load d = Some s ->
  wf s /\ exists crc trailing, d = body s ++ be 4 crc ++ trailing /\ 0 <= crc < 2^32 /\
    crc = crc32c (firstn (length d - 4) d).
Proof.
  intros Hd H. unfold load in H.
  destruct (zlen d <? 6) eqn:E6; [discriminate|].
  destruct (bytes_eqb (firstn 4 d) sidecar_magic) eqn:Em; cbn [negb] in H; [|discriminate].
  apply bytes_eqb_eq in Em.
  assert (Dd : d = sidecar_magic ++ skipn 4 d) by (rewrite <- Em; symmetry; apply firstn_skipn).
  pose proof (bytes_ok_skipn 4 d Hd) as B0.
  remember (skipn 4 d) as r0 eqn:Er0. clear Er0.
  destruct (unbe 2 r0) as [[ver r1]|] eqn:U1; [|discriminate].
  destruct (ver =? sidecar_version) eqn:Ev; cbn [negb] in H; [|discriminate].
  apply Z.eqb_eq in Ev.
  apply unbe_inv in U1 as (E1 & R1 & B1); [|exact B0].
  destruct (unbe 4 r1) as [[cs r2]|] eqn:U2; [|discriminate].
  apply unbe_inv in U2 as (E2 & R2 & B2); [|exact B1].
  destruct (unbe 8 r2) as [[fs r3]|] eqn:U3; [|discriminate].
  apply unbe_inv in U3 as (E3 & R3 & B3); [|exact B2].
  destruct (unbe 4 r3) as [[total r4]|] eqn:U4; [|discriminate].
  apply unbe_inv in U4 as (E4 & R4 & B4); [|exact B3].
  destruct (unbe 2 r4) as [[idlen r5]|] eqn:U5; [|discriminate].
  apply unbe_inv in U5 as (E5 & R5 & B5); [|exact B4].
  destruct (reader_read idlen r5) as [[[id idpad] r6]|] eqn:RR1; [|discriminate].
  destruct (unbe 4 r6) as [[bmlen r7]|] eqn:U6; [|discriminate].
  apply reader_read_inv in RR1; [|lia].
  destruct RR1 as [(-> & E6' & L6)| ->]; [|discriminate U6].
  assert (B6 : bytes_ok id /\ bytes_ok r6) by (apply bytes_ok_app; rewrite <- E6'; exact B5).
  destruct B6 as [Bid B6].
  apply unbe_inv in U6 as (E7 & R7 & B7); [|exact B6].
  destruct (reader_read bmlen r7) as [[[bm bmpad] r8]|] eqn:RR2; [|discriminate].
  destruct (unbe 4 r8) as [[crc r9]|] eqn:U8; [|discriminate].
  apply reader_read_inv in RR2; [|lia].
  destruct RR2 as [(-> & E8 & L8)| ->]; [|discriminate U8].
  assert (B8 : bytes_ok bm /\ bytes_ok r8) by (apply bytes_ok_app; rewrite <- E8; exact B7).
  destruct B8 as [Bbm B8].
  apply unbe_inv in U8 as (E9 & R9 & B9); [|exact B8].
  destruct (crc32c (firstn (length d - 4) d) =? crc) eqn:Ec; cbn [negb] in H; [|discriminate].
  apply Z.eqb_eq in Ec.
  destruct (bmlen =? byte_len total) eqn:Eb; cbn [negb] in H; [|discriminate].
  apply Z.eqb_eq in Eb.
  destruct (cs =? 0) eqn:Ecs; [discriminate|]. apply Z.eqb_neq in Ecs.
  destruct (sidecarTotalChunks (i64 fs) cs) as [want| |] eqn:Et; try discriminate.
  destruct (total =? want) eqn:Etw; cbn [negb] in H; [|discriminate].
  apply Z.eqb_eq in Etw. subst want.
  cbv zeta in H. rewrite zeros_0, !app_nil_r in H.
  destruct (padding_clear bm total) eqn:Ep; cbn [negb] in H; [|discriminate].
  inversion H; subst s; clear H.
  rewrite p256_2 in R1, R5. rewrite p256_4 in R2, R4, R7, R9. rewrite p256_8 in R3.
  split.
  - unfold wf. cbn [sc_chunk sc_size sc_total sc_id sc_bitmap].
    split; [lia|]. split; [apply i64_range|]. split; [exact Et|].
    split; [lia|]. split; [exact Bid|]. split; [exact Bbm|]. split; [lia|exact Ep].
  - exists crc, r9. split; [|split; [exact R9|symmetry; exact Ec]].
    unfold body. cbn [sc_chunk sc_size sc_total sc_id sc_bitmap].
    rewrite u64_i64 by exact R3. rewrite L6, L8.
    rewrite u16_id by exact R5. rewrite u32_id by exact R7.
    rewrite Dd, E1, E2, E3, E4, E5, E6', E7, E8, E9, Ev.
    repeat rewrite <- app_assoc. reflexivity.
Qed.

Lemma zlen_eq (a b : list Z) : zlen a = zlen b -> length a = length b.
Proof. unfold zlen. lia. Qed.

(* the body determines the sidecar, whatever follows *)
Lemma body_app_inj s s' X Y : wf s -> wf s' -> body s ++ X = body s' ++ Y -> s = s' /\ X = Y.
Proof.
  intros W W' E.
  pose proof (wf_ranges s W) as (Ht1 & Hbl). pose proof (wf_ranges s' W') as (Ht1' & Hbl').
  destruct W as (Hc & Hs & Ht & Hid & Bid & Bbm & Lbm & Pc).
  destruct W' as (Hc' & Hs' & Ht' & Hid' & Bid' & Bbm' & Lbm' & Pc').
  unfold body in E. repeat rewrite <- app_assoc in E.
  apply app_inv_head in E. apply app_inv_head in E.
  apply be_app_inj in E as [Ecs E]; [|rewrite p256_4; lia|rewrite p256_4; lia].
  apply be_app_inj in E as [Efs E]; [|rewrite p256_8; apply u64_range|rewrite p256_8; apply u64_range].
  apply be_app_inj in E as [Etot E]; [|rewrite p256_4; lia|rewrite p256_4; lia].
  apply be_app_inj in E as [Eil E]; [|rewrite p256_2; apply u16_range|rewrite p256_2; apply u16_range].
  rewrite !u16_id in Eil by (unfold in_u16, zlen in *; lia).
  apply app_eq_len in E as [Eid E]; [|apply zlen_eq; exact Eil].
  apply be_app_inj in E as [Ebl E]; [|rewrite p256_4; apply u32_range|rewrite p256_4; apply u32_range].
  rewrite !u32_id in Ebl by (unfold in_u32; lia).
  apply app_eq_len in E as [Ebm E]; [|apply zlen_eq; exact Ebl].
  apply (f_equal i64) in Efs. rewrite !i64_u64 in Efs by assumption.
  split; [|exact E].
  destruct s as [c1 z1 t1 i1 m1], s' as [c2 z2 t2 i2 m2].
  cbn [sc_chunk sc_size sc_total sc_id sc_bitmap] in Ecs, Efs, Etot, Eid, Ebm. subst. reflexivity.
Qed.

Theorem load_prefix_none s a b : wf s -> serialise s = a ++ b -> b <> [] -> load a = None.
Proof.
  intros W E Hb. destruct (load a) as [s'|] eqn:L; [exfalso|reflexivity].
  pose proof (serialise_ok s W) as Hok. rewrite E in Hok. apply bytes_ok_app in Hok as [Ha _].
  apply load_inv in L as (W' & crc & t & Ea & _ & _); [|exact Ha].
  rewrite Ea in E. unfold serialise in E. repeat rewrite <- app_assoc in E.
  apply body_app_inj in E as [_ E]; [|exact W|exact W'].
  apply (f_equal (@length Z)) in E. rewrite !app_length, !be_length in E.
  destruct b; [congruence|]. cbn [length] in E. lia.
Qed.

(* ---------- Hamming distance on byte lists ---------- *)
Fixpoint diff (a b : list Z) : nat :=
  match a, b with
  | x :: a', y :: b' => Nat.add (if x =? y then 0%nat else 1%nat) (diff a' b')
  | _, _ => 0%nat
  end.

Lemma diff_app a : forall a' b b', length a = length a' ->
  diff (a ++ b) (a' ++ b') = (diff a a' + diff b b')%nat.
Proof.
  induction a as [|x a IH]; intros [|y a'] b b' L; cbn [length] in L; try discriminate.
  - reflexivity.
  - cbn [app diff]. rewrite IH by lia. lia.
Qed.

Lemma diff_refl a : diff a a = 0%nat.
Proof. induction a as [|x a IH]; cbn [diff]; [reflexivity|]. rewrite Z.eqb_refl, IH. reflexivity. Qed.

Lemma diff_0_eq a : forall b, length a = length b -> diff a b = 0%nat -> a = b.
Proof.
  induction a as [|x a IH]; intros [|y b] L H; cbn [length] in L; try discriminate; [reflexivity|].
  cbn [diff] in H. destruct (x =? y) eqn:E; [|lia]. apply Z.eqb_eq in E. subst y.
  f_equal. apply IH; lia.
Qed.

Lemma diff_single pre b b' post : b <> b' -> diff (pre ++ b :: post) (pre ++ b' :: post) = 1%nat.
Proof.
  intros N. rewrite diff_app by reflexivity. rewrite diff_refl. cbn [diff].
  rewrite diff_refl. apply Z.eqb_neq in N. rewrite N. reflexivity.
Qed.

Lemma diff_1_decomp a : forall b, length a = length b -> diff a b = 1%nat ->
  exists p x y q, a = p ++ x :: q /\ b = p ++ y :: q /\ x <> y.
Proof.
  induction a as [|x a IH]; intros [|y b] L H; cbn [length] in L; try discriminate.
  cbn [diff] in H. destruct (x =? y) eqn:E.
    + apply Z.eqb_eq in E. subst y. destruct (IH b ltac:(lia) ltac:(lia)) as (p & x' & y' & q & -> & -> & N).
      exists (x :: p), x', y', q. auto.
    + apply Z.eqb_neq in E. assert (a = b) by (apply diff_0_eq; lia). subst b.
      exists [], x, y, a. auto.
Qed.

Lemma diff_be_neq n x y : 0 <= x < p256 n -> 0 <= y < p256 n -> x <> y -> diff (be n x) (be n y) <> 0%nat.
Proof.
  intros Hx Hy N D. apply N. apply (be_inj n); try assumption.
  apply diff_0_eq; [rewrite !be_length; reflexivity|exact D].
Qed.

(* ---------- one damaged byte ---------- *)
Lemma damaged_core s pre b b' post s' :
  wf s -> serialise s = pre ++ b :: post -> 0 <= b' < 256 -> b' <> b ->
  load (pre ++ b' :: post) = Some s' -> length (sc_id s') <> length (sc_id s).
Proof.
  intros W E Hb' N L Hidl.
  pose proof (serialise_ok s W) as Hok. rewrite E in Hok.
  apply bytes_ok_app in Hok as [Hpre Hpost]. inversion Hpost as [|? ? Hb Hpost']; subst.
  assert (Hd' : bytes_ok (pre ++ b' :: post)).
  { apply bytes_ok_app. split; [exact Hpre|constructor; assumption]. }
  apply load_inv in L as (W' & crc' & t' & Ed' & Rc' & Ec'); [|exact Hd'].
  assert (Hlen : length (serialise s) = length (body s' ++ be 4 crc' ++ t')).
  { rewrite E, <- Ed', !app_length. reflexivity. }
  assert (H1 : diff (serialise s) (body s' ++ be 4 crc' ++ t') = 1%nat).
  { rewrite E, <- Ed'. apply diff_single. congruence. }
  pose proof (wf_ranges s W) as (Ht1 & Hbl). pose proof (wf_ranges s' W') as (Ht1' & Hbl').
  pose proof W as (Hc & Hs & Ht & Hid & Bid & Bbm & Lbm & Pc).
  pose proof W' as (Hc' & Hs' & Ht' & Hid' & Bid' & Bbm' & Lbm' & Pc').
  (* the bitmaps have the same length *)
  assert (Lb : length (sc_bitmap s') = length (sc_bitmap s)).
  { destruct (Nat.eq_dec (length (sc_bitmap s')) (length (sc_bitmap s))) as [e|ne]; [exact e|exfalso].
    assert (Nz : zlen (sc_bitmap s) <> zlen (sc_bitmap s')) by (unfold zlen; lia).
    assert (Nt : sc_total s <> sc_total s') by congruence.
    pose proof H1 as H2. unfold serialise, body in H2. repeat rewrite <- app_assoc in H2.
    do 8 (rewrite diff_app in H2 by (rewrite ?be_length; auto)).
    pose proof (diff_be_neq 4 (sc_total s) (sc_total s')
                  ltac:(rewrite p256_4; lia) ltac:(rewrite p256_4; lia) Nt).
    pose proof (diff_be_neq 4 (u32 (zlen (sc_bitmap s))) (u32 (zlen (sc_bitmap s')))
                  ltac:(rewrite p256_4; apply u32_range) ltac:(rewrite p256_4; apply u32_range)
                  ltac:(rewrite !u32_id by (unfold in_u32; lia); exact Nz)).
    lia. }
  assert (Lbody : length (body s) = length (body s')).
  { unfold body. rewrite !app_length, !be_length. lia. }
  assert (t' = []).
  { unfold serialise in Hlen. rewrite !app_length, !be_length in Hlen.
    destruct t'; [reflexivity|]. cbn [length] in Hlen. lia. }
  subst t'. rewrite app_nil_r in *.
  rewrite Ed', firstn_body in Ec'.
  unfold serialise in H1. rewrite diff_app in H1 by exact Lbody.
  destruct (list_eq_dec Z.eq_dec (body s) (body s')) as [e|ne].
  - rewrite <- e in Ec'. rewrite e in H1 at 1. rewrite Ec', !diff_refl in H1. discriminate.
  - assert (D1 : diff (body s) (body s') <> 0%nat).
    { intros D. apply ne. apply diff_0_eq; assumption. }
    assert (D2 : diff (body s) (body s') = 1%nat) by lia.
    assert (D3 : diff (be 4 (crc32c (body s))) (be 4 crc') = 0%nat) by lia.
    apply diff_0_eq in D3; [|rewrite !be_length; reflexivity].
    pose proof (body_ok s W) as Bs. pose proof (body_ok s' W') as Bs'.
    apply be_inj in D3; [|rewrite p256_4; apply crc32c_range; exact Bs|rewrite p256_4; exact Rc'].
    apply diff_1_decomp in D2 as (p & x & y & q & Ex & Ey & Nxy); [|exact Lbody].
    rewrite Ex in Bs, D3. rewrite Ey in Bs', Ec'.
    apply bytes_ok_app in Bs as [Bp Bq]. inversion Bq as [|? ? Bx Bq']; subst.
    apply bytes_ok_app in Bs' as [_ Bq2]. inversion Bq2 as [|? ? By _]; subst.
    revert D3. apply crc32c_single_byte; assumption.
Qed.

Theorem load_damaged_byte s pre b b' post :
  wf s -> serialise s = pre ++ b :: post -> 0 <= b' < 256 -> b' <> b ->
  match load (pre ++ b' :: post) with
  | None => True
  | Some s' => length (sc_id s') <> length (sc_id s)
  end.
Proof.
  intros W E Hb' N. destruct (load (pre ++ b' :: post)) as [s'|] eqn:L; [|exact I].
  eapply damaged_core; eassumption.
Qed.

(* the 22 bytes before the id-length field, and what follows that field *)
Definition hdr22 (s : sidecar) : list Z :=
  sidecar_magic ++ be 2 sidecar_version ++ be 4 (sc_chunk s) ++ be 8 (u64 (sc_size s)) ++
  be 4 (sc_total s).
Definition after_idlen (s : sidecar) : list Z :=
  sc_id s ++ be 4 (u32 (zlen (sc_bitmap s))) ++ sc_bitmap s.

Lemma body_split s : body s = hdr22 s ++ be 2 (u16 (zlen (sc_id s))) ++ after_idlen s.
Proof. unfold body, hdr22, after_idlen. repeat rewrite <- app_assoc. reflexivity. Qed.

Lemma hdr22_length s : length (hdr22 s) = 22%nat.
Proof. unfold hdr22. rewrite !app_length, !be_length. reflexivity. Qed.

(* outside the two bytes of the id-length field (offsets 22 and 23) the damage is always rejected *)
Theorem load_damaged_byte_none s pre b b' post :
  wf s -> serialise s = pre ++ b :: post -> 0 <= b' < 256 -> b' <> b ->
  (length pre < 22 \/ 24 <= length pre)%nat ->
  load (pre ++ b' :: post) = None.
Proof.
  intros W E Hb' N Hpos.
  destruct (load (pre ++ b' :: post)) as [s'|] eqn:L; [exfalso|reflexivity].
  pose proof (damaged_core s pre b b' post s' W E Hb' N L) as Nid.
  pose proof (serialise_ok s W) as Hok. rewrite E in Hok.
  apply bytes_ok_app in Hok as [Hpre Hpost]. inversion Hpost as [|? ? Hb Hpost']; subst.
  assert (Hd' : bytes_ok (pre ++ b' :: post)).
  { apply bytes_ok_app. split; [exact Hpre|constructor; assumption]. }
  apply load_inv in L as (W' & crc' & t' & Ed' & Rc' & Ec'); [|exact Hd'].
  pose proof W as (Hc & Hs & Ht & Hid & Bid & Bbm & Lbm & Pc).
  pose proof W' as (Hc' & Hs' & Ht' & Hid' & Bid' & Bbm' & Lbm' & Pc').
  assert (H1 : diff (serialise s) (body s' ++ be 4 crc' ++ t') = 1%nat).
  { rewrite E, <- Ed'. apply diff_single. congruence. }
  assert (Hlen : length (serialise s) = length (body s' ++ be 4 crc' ++ t')).
  { rewrite E, <- Ed', !app_length. reflexivity. }
  unfold serialise in H1, Hlen. rewrite !body_split in H1, Hlen.
  repeat rewrite <- app_assoc in H1. repeat rewrite <- app_assoc in Hlen.
  set (R := after_idlen s ++ be 4 (crc32c (hdr22 s ++ be 2 (u16 (zlen (sc_id s))) ++ after_idlen s))) in *.
  set (R' := after_idlen s' ++ be 4 crc' ++ t') in *.
  rewrite diff_app in H1 by (rewrite !hdr22_length; reflexivity).
  rewrite diff_app in H1 by (rewrite !be_length; reflexivity).
  assert (Nil : u16 (zlen (sc_id s)) <> u16 (zlen (sc_id s'))).
  { rewrite !u16_id by (unfold in_u16, zlen in *; lia). unfold zlen. lia. }
  pose proof (diff_be_neq 2 _ _ ltac:(rewrite p256_2; apply u16_range)
                ltac:(rewrite p256_2; apply u16_range) Nil) as D.
  assert (LR : length R = length R').
  { rewrite !app_length, !hdr22_length, !be_length in Hlen. lia. }
  assert (EP : hdr22 s = hdr22 s') by (apply diff_0_eq; [rewrite !hdr22_length; reflexivity|lia]).
  assert (ER : R = R') by (apply diff_0_eq; [exact LR|lia]).
  (* the byte at position [length pre] is the same in both files *)
  assert (Eb : nth (length pre) (pre ++ b :: post) 0 = nth (length pre) (pre ++ b' :: post) 0).
  { rewrite <- E, Ed'. unfold serialise. rewrite !body_split. repeat rewrite <- app_assoc.
    fold R. fold R'. rewrite <- EP, <- ER.
    destruct Hpos as [Hp|Hp].
    - rewrite !app_nth1 by (rewrite hdr22_length; exact Hp). reflexivity.
    - rewrite !(app_nth2 (hdr22 s)) by (rewrite hdr22_length; lia).
      rewrite !app_nth2 by (rewrite hdr22_length, be_length; lia).
      rewrite !be_length. reflexivity. }
  rewrite !nth_middle in Eb. congruence.
Qed.

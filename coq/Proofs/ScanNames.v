(* Facts about the executable model Model/Scan.v: TopLevelNames yields pairwise
   distinct names and never runs out of fuel; the insertion sort is a sort;
   the counters do not depend on the collection order. *)
From Coq Require Import ZArith List Bool Lia Permutation Sorting.Sorted.
From Coq Require String Ascii DecimalString DecimalN.
From TF Require Import Lib.GoInt Model.Scan.
Import ListNotations.
Open Scope Z_scope.

(* ---- byte string equality and membership ---- *)
Lemma beq_eq a b : beq a b = true <-> a = b.
Proof.
  revert b; induction a as [|x a IH]; intros [|y b]; simpl; split; intro H;
    try congruence; try reflexivity.
  - apply andb_true_iff in H. destruct H as [H1 H2].
    apply Z.eqb_eq in H1. apply IH in H2. congruence.
  - inversion H; subst. apply andb_true_iff. split.
    + apply Z.eqb_refl.
    + apply IH. reflexivity.
Qed.

Lemma beq_refl a : beq a a = true.
Proof. apply beq_eq. reflexivity. Qed.

Lemma mem_In x l : mem x l = true <-> In x l.
Proof.
  induction l as [|y l IH]; simpl.
  - split; [discriminate | tauto].
  - rewrite orb_true_iff, beq_eq, IH. split; intros [H|H]; auto.
Qed.

(* ---- %d ---- *)
Definition byte_of_ascii (a : Ascii.ascii) : Z := Z.of_N (Ascii.N_of_ascii a).

Lemma byte_of_ascii_inj a b : byte_of_ascii a = byte_of_ascii b -> a = b.
Proof.
  unfold byte_of_ascii. intro H. apply N2Z.inj in H.
  rewrite <- (Ascii.ascii_N_embedding a), <- (Ascii.ascii_N_embedding b).
  congruence.
Qed.

Lemma map_inj {A B} (f : A -> B) :
  (forall x y, f x = f y -> x = y) ->
  forall l1 l2, map f l1 = map f l2 -> l1 = l2.
Proof.
  intros Hf. induction l1 as [|x l1 IH]; intros [|y l2] H; simpl in H;
    try congruence.
  inversion H. f_equal; auto.
Qed.

Lemma list_ascii_of_string_inj s t :
  String.list_ascii_of_string s = String.list_ascii_of_string t -> s = t.
Proof.
  intro H.
  rewrite <- (String.string_of_list_ascii_of_string s),
          <- (String.string_of_list_ascii_of_string t).
  congruence.
Qed.

Lemma dec_N_inj n m : dec_N n = dec_N m -> n = m.
Proof.
  unfold dec_N. intro H.
  apply (map_inj _ byte_of_ascii_inj) in H.
  apply list_ascii_of_string_inj in H.
  assert (E : Some (N.to_uint n) = Some (N.to_uint m)).
  { rewrite <- !DecimalString.NilEmpty.usu. congruence. }
  inversion E as [E'].
  rewrite <- (DecimalN.Unsigned.of_to n), <- (DecimalN.Unsigned.of_to m).
  congruence.
Qed.

Lemma uint_digits d :
  Forall (fun c => 48 <= c <= 57)
    (map (fun a => Z.of_N (Ascii.N_of_ascii a))
       (String.list_ascii_of_string (DecimalString.NilEmpty.string_of_uint d))).
Proof.
  induction d; simpl; constructor; auto; lia.
Qed.

Lemma dec_N_digits n : Forall (fun c => 48 <= c <= 57) (dec_N n).
Proof. unfold dec_N. apply uint_digits. Qed.

Lemma dec_N_nonempty n : dec_N n <> [].
Proof.
  unfold dec_N. intro H.
  apply map_eq_nil in H.
  assert (Hs : DecimalString.NilEmpty.string_of_uint (N.to_uint n) = String.EmptyString).
  { apply list_ascii_of_string_inj. rewrite H. reflexivity. }
  assert (E : Some (N.to_uint n) = Some Decimal.Nil).
  { rewrite <- DecimalString.NilEmpty.usu. rewrite Hs. reflexivity. }
  inversion E as [E'].
  assert (n = 0%N).
  { rewrite <- (DecimalN.Unsigned.of_to n). rewrite E'. reflexivity. }
  subst n. discriminate E'.
Qed.

(* ---- candidates ---- *)
Lemma cand_inj n m b : cand n b = cand m b -> n = m.
Proof.
  unfold cand. intro H.
  apply app_inv_tail in H. apply dec_N_inj in H.
  apply Nat2Z.inj. rewrite <- !nat_N_Z. congruence.
Qed.

Lemma cand_no_slash j b : ~ In SLASH b -> ~ In SLASH (cand j b).
Proof.
  unfold cand. intros Hb H.
  apply in_app_or in H. destruct H as [H|H].
  - pose proof (dec_N_digits (N.of_nat j)) as D.
    rewrite Forall_forall in D. apply D in H. unfold SLASH in H. lia.
  - simpl in H. destruct H as [H|H].
    + unfold USCORE, SLASH in H. lia.
    + auto.
Qed.

Lemma cand_nonempty j b : cand j b <> [].
Proof.
  unfold cand. intro H. apply app_eq_nil in H. destruct H as [_ H]. discriminate.
Qed.

(* ---- the ordinal search ---- *)
Lemma first_free_spec fuel n b used k :
  first_free fuel n b used = Some k -> ~ In k used /\ exists j, k = cand j b.
Proof.
  revert n. induction fuel as [|f IH]; intros n H; simpl in H.
  - discriminate.
  - destruct (mem (cand n b) used) eqn:E.
    + eapply IH; eauto.
    + inversion H; subst. split.
      * intro Hin. apply mem_In in Hin. congruence.
      * eauto.
Qed.

Lemma first_free_none fuel n b used :
  first_free fuel n b used = None ->
  forall j, (n <= j < n + fuel)%nat -> In (cand j b) used.
Proof.
  revert n. induction fuel as [|f IH]; intros n H j Hj; simpl in H.
  - lia.
  - destruct (mem (cand n b) used) eqn:E; [|discriminate].
    destruct (Nat.eq_dec j n) as [->|Hne].
    + apply mem_In. exact E.
    + apply (IH (S n)); auto. lia.
Qed.

Lemma first_free_some used b n : exists k, first_free (S (length used)) n b used = Some k.
Proof.
  destruct (first_free (S (length used)) n b used) as [k|] eqn:E; eauto.
  exfalso.
  pose proof (first_free_none _ _ _ _ E) as H.
  set (l := map (fun j => cand j b) (seq n (S (length used)))).
  assert (Hnd : NoDup l).
  { unfold l. apply FinFun.Injective_map_NoDup.
    - intros x y Hxy. eapply cand_inj; eauto.
    - apply seq_NoDup. }
  assert (Hincl : incl l used).
  { intros x Hx. unfold l in Hx. apply in_map_iff in Hx.
    destruct Hx as [j [<- Hj]]. apply in_seq in Hj. apply H. lia. }
  pose proof (NoDup_incl_length Hnd Hincl) as Hlen.
  unfold l in Hlen. rewrite map_length, seq_length in Hlen. lia.
Qed.

(* ---- assign ---- *)
Lemma assign_some sg bs : forall used, exists ks, assign sg bs used = Some ks.
Proof.
  induction bs as [|b bs IH]; intro used; simpl.
  - eauto.
  - destruct (sg b).
    + destruct (IH used) as [ks ->]. simpl. eauto.
    + destruct (first_free_some used b 1%nat) as [k Hk].
      simpl in Hk |- *. rewrite Hk.
      destruct (IH (k :: used)) as [ks ->]. simpl. eauto.
Qed.

Theorem top_names_some bs : exists ks, top_names bs = Some ks.
Proof. unfold top_names. apply assign_some. Qed.

Lemma assign_length sg bs : forall used ks,
  assign sg bs used = Some ks -> length ks = length bs.
Proof.
  induction bs as [|b bs IH]; intros used ks H; cbn [assign] in H.
  - inversion H. reflexivity.
  - destruct (sg b).
    + destruct (assign sg bs used) as [ks'|] eqn:E; simpl in H; inversion H.
      simpl. f_equal. eapply IH; eauto.
    + destruct (first_free (S (length used)) 1 b used) as [k|] eqn:Ek; [|discriminate].
      destruct (assign sg bs (k :: used)) as [ks'|] eqn:E; simpl in H; inversion H.
      simpl. f_equal. eapply IH; eauto.
Qed.

Theorem top_names_length bs ks : top_names bs = Some ks -> length ks = length bs.
Proof. unfold top_names. apply assign_length. Qed.

Lemma assign_shape sg bs : forall used ks,
  assign sg bs used = Some ks ->
  Forall2 (fun b k => k = b \/ exists j, k = cand j b) bs ks.
Proof.
  induction bs as [|b bs IH]; intros used ks H; cbn [assign] in H.
  - inversion H. constructor.
  - destruct (sg b).
    + destruct (assign sg bs used) as [ks'|] eqn:E; simpl in H; inversion H.
      constructor; eauto.
    + destruct (first_free (S (length used)) 1 b used) as [k|] eqn:Ek; [|discriminate].
      destruct (assign sg bs (k :: used)) as [ks'|] eqn:E; simpl in H; inversion H.
      constructor; eauto.
      right. apply first_free_spec in Ek. tauto.
Qed.

Theorem top_names_shape bs ks : top_names bs = Some ks ->
  Forall2 (fun b k => k = b \/ exists j, k = cand j b) bs ks.
Proof. unfold top_names. apply assign_shape. Qed.

(* every assigned name is an unchanged [sg]-name of the input or fresh *)
Lemma assign_origin sg bs : forall used ks,
  assign sg bs used = Some ks ->
  forall k, In k ks -> (In k bs /\ sg k = true) \/ ~ In k used.
Proof.
  induction bs as [|b bs IH]; intros used ks H k Hk; cbn [assign] in H.
  - inversion H; subst. destruct Hk.
  - destruct (sg b) eqn:Eb.
    + destruct (assign sg bs used) as [ks'|] eqn:E; simpl in H; inversion H; subst.
      destruct Hk as [<-|Hk].
      * left. split; [left; reflexivity | exact Eb].
      * destruct (IH _ _ E _ Hk) as [[H1 H2]|H1]; [left; split; [right|]; auto | right; auto].
    + destruct (first_free (S (length used)) 1 b used) as [k0|] eqn:Ek; [|discriminate].
      destruct (assign sg bs (k0 :: used)) as [ks'|] eqn:E; simpl in H; inversion H; subst.
      destruct Hk as [<-|Hk].
      * right. apply first_free_spec in Ek. tauto.
      * destruct (IH _ _ E _ Hk) as [[H1 H2]|H1].
        -- left; split; [right|]; auto.
        -- right. intro Hin. apply H1. right. exact Hin.
Qed.

Lemma assign_NoDup sg bs : forall used ks,
  (forall b, In b bs -> sg b = true -> In b used) ->
  NoDup (filter sg bs) ->
  assign sg bs used = Some ks -> NoDup ks.
Proof.
  induction bs as [|b bs IH]; intros used ks H1 H2 H; cbn [assign] in H.
  - inversion H. constructor.
  - simpl in H2. destruct (sg b) eqn:Eb.
    + destruct (assign sg bs used) as [ks'|] eqn:E; simpl in H; inversion H; subst.
      inversion H2 as [|? ? Hnin Hnd]; subst.
      constructor.
      * intro Hin. destruct (assign_origin _ _ _ _ E _ Hin) as [[Ha Hb]|Ha].
        -- apply Hnin. apply filter_In. auto.
        -- apply Ha. apply H1; [left; reflexivity | exact Eb].
      * apply (IH used ks'); [ | exact Hnd | exact E].
        intros b' Hb' Hs. apply H1; [right|]; auto.
    + destruct (first_free (S (length used)) 1 b used) as [k0|] eqn:Ek; [|discriminate].
      destruct (assign sg bs (k0 :: used)) as [ks'|] eqn:E; simpl in H; inversion H; subst.
      apply first_free_spec in Ek. destruct Ek as [Hfresh _].
      constructor.
      * intro Hin. destruct (assign_origin _ _ _ _ E _ Hin) as [[Ha Hb]|Ha].
        -- apply Hfresh. apply H1; [right|]; auto.
        -- apply Ha. left. reflexivity.
      * apply (IH (k0 :: used) ks'); [ | exact H2 | exact E].
        intros b' Hb' Hs. right. apply H1; [right|]; auto.
Qed.

(* ---- the singleton names are pairwise distinct ---- *)
Definition bytes_eq_dec : forall a b : bytes, {a = b} + {a <> b} := list_eq_dec Z.eq_dec.

Lemma count_count_occ x l : count x l = count_occ bytes_eq_dec l x.
Proof.
  unfold count. induction l as [|y l IH]; simpl.
  - reflexivity.
  - destruct (bytes_eq_dec y x) as [->|Hne].
    + rewrite beq_refl. simpl. f_equal. exact IH.
    + destruct (beq x y) eqn:E.
      * apply beq_eq in E. congruence.
      * exact IH.
Qed.

Lemma count_occ_filter (f : bytes -> bool) l x :
  count_occ bytes_eq_dec (filter f l) x =
  if f x then count_occ bytes_eq_dec l x else O.
Proof.
  induction l as [|y l IH]; simpl.
  - destruct (f x); reflexivity.
  - destruct (f y) eqn:Ey; simpl; destruct (bytes_eq_dec y x) as [->|Hne].
    + rewrite Ey in *. f_equal. exact IH.
    + exact IH.
    + rewrite Ey in *. exact IH.
    + exact IH.
Qed.

Lemma singles_NoDup bs : NoDup (filter (single bs) bs).
Proof.
  apply (NoDup_count_occ bytes_eq_dec). intro x.
  rewrite count_occ_filter.
  destruct (single bs x) eqn:E; [|lia].
  unfold single in E. apply Nat.eqb_eq in E.
  rewrite count_count_occ in E. lia.
Qed.

Theorem top_names_NoDup bs ks : top_names bs = Some ks -> NoDup ks.
Proof.
  unfold top_names. apply assign_NoDup.
  - intros b Hb Hs. apply filter_In. auto.
  - apply singles_NoDup.
Qed.

(* ---- the byte-wise order ---- *)
Lemma ble_refl a : ble a a = true.
Proof.
  induction a as [|x a IH]; simpl; auto.
  rewrite Z.ltb_irrefl. exact IH.
Qed.

Lemma ble_total a b : ble a b = true \/ ble b a = true.
Proof.
  revert b; induction a as [|x a IH]; intros [|y b]; simpl; auto.
  destruct (x <? y) eqn:E1; destruct (y <? x) eqn:E2; auto.
Qed.

Lemma ble_trans a b c : ble a b = true -> ble b c = true -> ble a c = true.
Proof.
  revert b c; induction a as [|x a IH]; intros [|y b] [|z c]; simpl; auto;
    try discriminate.
  destruct (x <? y) eqn:E1; destruct (y <? x) eqn:E2;
  destruct (y <? z) eqn:E3; destruct (z <? y) eqn:E4;
  destruct (x <? z) eqn:E5; destruct (z <? x) eqn:E6;
  rewrite ?Z.ltb_lt, ?Z.ltb_ge in *; try discriminate; auto; try lia.
  apply IH.
Qed.

Lemma ble_antisym a b : ble a b = true -> ble b a = true -> a = b.
Proof.
  revert b; induction a as [|x a IH]; intros [|y b]; simpl; auto;
    try discriminate.
  destruct (x <? y) eqn:E1; destruct (y <? x) eqn:E2;
  rewrite ?Z.ltb_lt, ?Z.ltb_ge in *; try discriminate; try lia.
  intros H1 H2. f_equal; [lia | auto].
Qed.

(* ---- insertion sort ---- *)
Lemma insert_perm it l : Permutation (insert it l) (it :: l).
Proof.
  induction l as [|h t IH]; simpl.
  - apply Permutation_refl.
  - destruct (ble (rel it) (rel h)).
    + apply Permutation_refl.
    + eapply perm_trans; [apply perm_skip; exact IH | apply perm_swap].
Qed.

Lemma isort_perm l : Permutation (isort l) l.
Proof.
  induction l as [|a l IH]; simpl.
  - apply Permutation_refl.
  - eapply perm_trans; [apply insert_perm | apply perm_skip; exact IH].
Qed.

Definition item_le (a b : item) : Prop := ble (rel a) (rel b) = true.

Lemma insert_sorted it l :
  StronglySorted item_le l -> StronglySorted item_le (insert it l).
Proof.
  induction l as [|h t IH]; intro Hs; simpl.
  - constructor; constructor.
  - inversion Hs as [|? ? Ht Hh]; subst.
    destruct (ble (rel it) (rel h)) eqn:E.
    + constructor; [exact Hs|].
      constructor; [exact E|].
      rewrite Forall_forall in *. intros x Hx.
      unfold item_le in *. eapply ble_trans; [exact E | apply Hh; exact Hx].
    + constructor; [apply IH; exact Ht|].
      rewrite Forall_forall in *. intros x Hx.
      apply (Permutation_in _ (insert_perm it t)) in Hx.
      destruct Hx as [<-|Hx].
      * unfold item_le. destruct (ble_total (rel h) (rel it)); congruence.
      * apply Hh; exact Hx.
Qed.

Lemma isort_sorted l : StronglySorted (fun a b => ble (rel a) (rel b) = true) (isort l).
Proof.
  change (StronglySorted item_le (isort l)).
  induction l as [|a l IH]; simpl.
  - constructor.
  - apply insert_sorted. exact IH.
Qed.

(* two sorted lists with the same elements and pairwise distinct keys are equal *)
Lemma sorted_perm_unique l1 l2 :
  StronglySorted (fun a b => ble (rel a) (rel b) = true) l1 ->
  StronglySorted (fun a b => ble (rel a) (rel b) = true) l2 ->
  Permutation l1 l2 -> NoDup (map rel l1) -> l1 = l2.
Proof.
  revert l2. induction l1 as [|a l1 IH]; intros l2 S1 S2 P ND.
  - apply Permutation_nil in P. congruence.
  - destruct l2 as [|b l2].
    + apply Permutation_sym, Permutation_nil in P. discriminate.
    + inversion S1 as [|? ? S1' F1]; subst.
      inversion S2 as [|? ? S2' F2]; subst.
      simpl in ND. inversion ND as [|? ? Hnin ND']; subst.
      rewrite Forall_forall in F1, F2.
      assert (Eab : a = b).
      { assert (Ha : In a (b :: l2)) by (apply (Permutation_in _ P); left; reflexivity).
        assert (Hb : In b (a :: l1))
          by (apply (Permutation_in _ (Permutation_sym P)); left; reflexivity).
        destruct Ha as [Ha|Ha]; [congruence|].
        destruct Hb as [Hb|Hb]; [congruence|].
        exfalso. apply Hnin.
        assert (E : rel a = rel b) by (apply ble_antisym; auto).
        rewrite E. apply in_map. exact Hb. }
      subst b. f_equal.
      apply IH; auto.
      apply Permutation_cons_inv in P. exact P.
Qed.

(* ---- the counters ---- *)
Lemma fold_left_perm {A B} (f : A -> B -> A) :
  (forall c x y, f (f c x) y = f (f c y) x) ->
  forall l1 l2, Permutation l1 l2 -> forall c, fold_left f l1 c = fold_left f l2 c.
Proof.
  intros Hf l1 l2 P. induction P; intro c; simpl; auto.
  - rewrite Hf. reflexivity.
  - rewrite IHP1. apply IHP2.
Qed.

Lemma acc_files_perm l1 l2 : Permutation l1 l2 -> acc_files l1 = acc_files l2.
Proof.
  intro P. unfold acc_files. apply fold_left_perm; auto.
  intros c x y. destruct (isdir x), (isdir y); reflexivity.
Qed.

Lemma acc_folders_perm l1 l2 : Permutation l1 l2 -> acc_folders l1 = acc_folders l2.
Proof.
  intro P. unfold acc_folders. apply fold_left_perm; auto.
  intros c x y. destruct (isdir x), (isdir y); reflexivity.
Qed.

Lemma acc_files_gen l : forall c,
  fold_left (fun c it => if isdir it then c else S c) l c =
  (c + length (filter (fun it => negb (isdir it)) l))%nat.
Proof.
  induction l as [|a l IH]; intro c; simpl.
  - lia.
  - rewrite IH. destruct (isdir a); simpl; lia.
Qed.

Lemma acc_files_spec l : acc_files l = length (filter (fun it => negb (isdir it)) l).
Proof. unfold acc_files. rewrite acc_files_gen. reflexivity. Qed.

Lemma acc_folders_gen l : forall c,
  fold_left (fun c it => if isdir it then S c else c) l c =
  (c + length (filter isdir l))%nat.
Proof.
  induction l as [|a l IH]; intro c; simpl.
  - lia.
  - rewrite IH. destruct (isdir a); simpl; lia.
Qed.

Lemma acc_folders_spec l : acc_folders l = length (filter isdir l).
Proof. unfold acc_folders. rewrite acc_folders_gen. reflexivity. Qed.

Definition sum_sizes (l : list item) : Z :=
  fold_right (fun it t => (if isdir it then 0 else size it) + t) 0 l.

Lemma sum_sizes_nonneg l : (forall it, In it l -> 0 <= size it) -> 0 <= sum_sizes l.
Proof.
  induction l as [|a l IH]; intro H; simpl.
  - lia.
  - assert (0 <= sum_sizes l) by (apply IH; intros; apply H; right; auto).
    assert (0 <= size a) by (apply H; left; reflexivity).
    destruct (isdir a); lia.
Qed.

Lemma acc_total_gen l : forall t,
  0 <= t ->
  (forall it, In it l -> 0 <= size it) ->
  t + sum_sizes l < 2^63 ->
  fold_left (fun t it => if isdir it then t else i64 (t + size it)) l t = t + sum_sizes l.
Proof.
  induction l as [|a l IH]; intros t Ht Hs Hb; simpl.
  - lia.
  - assert (Hl : forall it, In it l -> 0 <= size it) by (intros; apply Hs; right; auto).
    assert (Ha : 0 <= size a) by (apply Hs; left; reflexivity).
    pose proof (sum_sizes_nonneg l Hl) as Hn.
    simpl in Hb.
    destruct (isdir a).
    + rewrite IH; auto; lia.
    + rewrite i64_id by (unfold in_i64; lia).
      rewrite IH; auto; lia.
Qed.

Lemma acc_total_spec l :
  (forall it, In it l -> 0 <= size it) ->
  fold_right (fun it t => (if isdir it then 0 else size it) + t) 0 l < 2^63 ->
  acc_total l = fold_right (fun it t => (if isdir it then 0 else size it) + t) 0 l.
Proof.
  intros Hs Hb. unfold acc_total.
  change (fold_right (fun it t => (if isdir it then 0 else size it) + t) 0 l)
    with (sum_sizes l) in *.
  rewrite acc_total_gen; auto; lia.
Qed.

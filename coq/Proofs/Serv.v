(* The server layer (Model/Serv.v) keeps the hub invariant, ignores the `from`
   an author claims, and answers an unknown addressee with an error to the
   author only. *)
From Coq Require Import List Arith Bool.
Import ListNotations.
From TF Require Import Model.Hub Model.Serv Proofs.Hub.

Lemma hi_pops h c n : HI h -> HI (fold_left (fun h' (_ : nat) => fst (step h' (Pop c))) n h).
Proof.
  revert h. induction n as [|x n IH]; intros h I; cbn [fold_left]; [exact I|].
  apply IH. apply hi_step. exact I.
Qed.

Lemma hi_drain_conn s x : HI (hubst s) -> HI (hubst (drain_conn s x)).
Proof. intros I. unfold drain_conn. cbn [hubst]. apply hi_pops. exact I. Qed.

Lemma hi_drain_list l : forall s, HI (hubst s) -> HI (hubst (fold_left drain_conn l s)).
Proof.
  induction l as [|x l IH]; intros s I; cbn [fold_left]; [exact I|].
  apply IH. apply hi_drain_conn. exact I.
Qed.

Lemma hi_drain s : HI (hubst s) -> HI (hubst (drain s)).
Proof. apply hi_drain_list. Qed.

Theorem serv_keeps_invariant s o : HI (hubst s) -> HI (hubst (sstep s o)).
Proof.
  intros I. destruct o; cbn [sstep].
  - cbn [fresh_msg direct hubst]. apply hi_drain. cbn [with_hub hubst]. apply hi_step. apply hi_step. exact I.
  - destruct (find_conn c (conns (hubst s))) as [a|]; [|exact I].
    destruct f; try exact I.
    cbn [fresh_msg]. destruct to as [p|].
    + cbn [hubst].
      pose proof (hi_step (hubst s) (SendTo (csid a) p (nextm s)) I) as I1.
      destruct (step (hubst s) (SendTo (csid a) p (nextm s))) as [h' o] eqn:E. cbn [fst] in I1.
      destruct o as [|[]|]; apply hi_drain; exact I1.
    + apply hi_drain. cbn [with_hub hubst]. apply hi_step. exact I.
  - destruct (find_conn c (conns (hubst s))) as [a|]; [|exact I].
    cbn [fresh_msg hubst].
    set (s2 := drain _).
    assert (I2 : HI (hubst s2)) by (apply hi_drain; cbn [with_hub hubst]; apply hi_step; exact I).
    pose proof (hi_step (hubst s2) (Rm1 c) I2) as I3.
    destruct (step (hubst s2) (Rm1 c)) as [h2 r]. cbn [fst] in I3.
    destruct r as [|[]|]; cbn [with_hub hubst]; try exact I3.
    apply hi_step. apply hi_step. exact I3.
Qed.

Theorem serv_no_panic ops : forall s, HI (hubst s) -> npanic (hubst (srun s ops)) = 0.
Proof.
  unfold srun. induction ops as [|o r IH]; intros s I; cbn [fold_left].
  - destruct I. assumption.
  - apply IH. apply serv_keeps_invariant. exact I.
Qed.

(* the `from` an author writes into its envelope has no influence whatsoever:
   the recipients see the peer id the author connected with *)
Theorem from_claim_ignored s c claim1 claim2 cs to m :
  sstep s (Frame c (FEnv claim1 cs to m)) = sstep s (Frame c (FEnv claim2 cs to m)).
Proof. reflexivity. Qed.

Lemma fresh_msg_lookup s e : let '(s1, k) := fresh_msg s e in lookup k (minfo s1) = Some e.
Proof. cbn. rewrite Nat.eqb_refl. reflexivity. Qed.

(* an addressed send that reports "not found" has not touched any queue *)
Theorem sendto_false_noop h sid p m : snd (step h (SendTo sid p m)) = OBool false -> fst (step h (SendTo sid p m)) = h.
Proof.
  cbn [step]. destruct (bp_find sid p (bypeer h)); [|reflexivity].
  destruct (att_gen sid (maps h)); [|reflexivity].
  destruct (linked_in n n0 h); [cbn; discriminate|reflexivity].
Qed.

(* ... and the author alone gets the error envelope *)
Theorem unknown_addressee_error_to_author s c a claim cs p m :
  find_conn c (conns (hubst s)) = Some a ->
  snd (step (hubst s) (SendTo (csid a) p (nextm s))) = OBool false ->
  sstep s (Frame c (FEnv claim cs (Some p) m)) =
  drain (direct (fst (fresh_msg s (MFwd (cpeer a) (Some p) (match cs with Some x => x | None => csid a end) m))) c (MErr (cpeer a))).
Proof.
  intros F E. cbn [sstep]. rewrite F. cbn [fresh_msg hubst].
  pose proof (sendto_false_noop (hubst s) (csid a) p (nextm s) E) as N.
  destruct (step (hubst s) (SendTo (csid a) p (nextm s))) as [h' o]. cbn [fst snd] in *. subst o h'.
  reflexivity.
Qed.

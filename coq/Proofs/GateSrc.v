(* Program-order facts of the sender and the receiver that Model/Gate.v builds
   in, proved over the skeletons regenerated from the Go source on every run
   (Gen/GateSrc.v): a changed source breaks one of these obligations. *)
From Coq Require Import List String Bool Arith.
Import ListNotations.
From TF Require Import Gen.GateSrc.
Open Scope string_scope.

Fixpoint index_of (name : string) (l : list (string * bool)) : option nat :=
  match l with
  | [] => None
  | (n, _) :: r => if String.eqb n name then Some 0 else option_map S (index_of name r)
  end.

Definition before (a b : string) (l : list (string * bool)) : bool :=
  match index_of a l, index_of b l with
  | Some i, Some j => Nat.ltb i j
  | _, _ => false
  end.

Definition occurs (a : string) (l : list (string * bool)) : bool :=
  match index_of a l with Some _ => true | None => false end.

(* a worker activates files (FileBegin is written there) before it asks any file
   for a chunk, and FileEnd is written only after trySendEnd said so *)
Theorem send_begin_before_chunks :
  before "activateNext" "nextChunkToSend" sk_send_nexttask = true /\
  before "nextChunkToSend" "trySendEnd" sk_send_nexttask = true /\
  before "trySendEnd" "sendFileEnd" sk_send_nexttask = true.
Proof. vm_compute. repeat split; reflexivity. Qed.

(* activation: the scheduler's choice, then FileBegin on the control stream, then
   the resume exchange that makes the file ready for its chunks *)
Theorem send_activate_order :
  before "Next" "writeFileBegin" sk_send_activate = true /\
  before "writeFileBegin" "startResume" sk_send_activate = true.
Proof. vm_compute. split; reflexivity. Qed.

(* the receiver's main loop never waits on the file registry when it handles a
   ResumeRequest (since d3e79d7), and FileBegin signals the registry *)
Theorem recv_main_loop_does_not_wait :
  occurs "wait" sk_recv_resumereq = false /\ occurs "signal" sk_recv_begin_signal = true.
Proof. vm_compute. split; reflexivity. Qed.

(* only the control stream is accepted on the path to the main loop; the data
   streams are accepted in a goroutine of their own (since ed4f108) *)
Theorem recv_data_streams_accepted_async :
  recv_accept_outside_go = 1%nat /\ (1 <= recv_accept_inside_go)%nat.
Proof. vm_compute. split; [reflexivity|apply le_n]. Qed.

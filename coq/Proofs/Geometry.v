(* Proofs about the GENERATED chunk-geometry functions (Gen/Geometry.v).
   Everything here is re-checked against the regenerated file on every run. *)
From Coq Require Import ZArith List Lia Bool.
From Coq Require Import ZifyBool.
From TF Require Import Lib.GoInt Gen.Consts Gen.Geometry.
Open Scope Z_scope.

Ltac Zify.zify_post_hook ::= Z.div_mod_to_equations.

(* the domain the property quantifies over *)
Definition geom_dom (size cs : Z) : Prop :=
  0 <= size <= c_maxFileSize /\ 1 <= cs < 2^32 /\ (size + cs - 1) / cs < 2^32.

Definition ceil_div (size cs : Z) : Z := (size + cs - 1) / cs.

(* the mathematical chunk length *)
Definition chunk_len (size cs i : Z) : Z := Z.max 0 (Z.min cs (size - i * cs)).

Lemma maxFileSize_val : c_maxFileSize = 10995116277760.
Proof. reflexivity. Qed.

Ltac unwrap :=
  repeat match goal with
  | |- context [i64 ?x] => rewrite (i64_id x) by (unfold in_i64; lia)
  | |- context [u32 ?x] => rewrite (u32_id x) by (unfold in_u32; lia)
  end.

Lemma quot_ceil size cs : 0 <= size -> 1 <= cs ->
  go_quot (size + cs - 1) cs = ceil_div size cs.
Proof. intros. unfold ceil_div. apply go_quot_nonneg; lia. Qed.

Lemma ceil_div_bounds size cs : 0 <= size -> 1 <= cs ->
  0 <= ceil_div size cs /\ (ceil_div size cs - 1) * cs < size + (if size =? 0 then 1 else 0) /\ size <= ceil_div size cs * cs.
Proof.
  intros Hs Hc. unfold ceil_div.
  pose proof (Z.div_mod (size + cs - 1) cs ltac:(lia)) as E.
  pose proof (Z.mod_pos_bound (size + cs - 1) cs ltac:(lia)) as B.
  destruct (size =? 0) eqn:Ez; nia.
Qed.

Lemma ceil_div_zero cs : 1 <= cs -> ceil_div 0 cs = 0.
Proof. intros. unfold ceil_div. apply Z.div_small. lia. Qed.

Lemma ceil_div_pos size cs : 0 < size -> 1 <= cs -> 1 <= ceil_div size cs.
Proof.
  intros. unfold ceil_div.
  assert (1 * cs <= size + cs - 1) by lia.
  apply Z.div_le_lower_bound; lia.
Qed.

(* ---- the seven generated expressions, characterised ---- *)

Lemma chunkTotal_spec size cs : geom_dom size cs ->
  chunkTotal size cs = Ret (ceil_div size cs).
Proof.
  intros (Hs & Hc & Hn). rewrite maxFileSize_val in Hs. unfold chunkTotal.
  destruct (cs =? 0) eqn:E1; [lia|].
  destruct (size <=? 0) eqn:E2.
  - assert (size = 0) by lia. subst. rewrite ceil_div_zero by lia. reflexivity.
  - pose proof (ceil_div_bounds size cs ltac:(lia) ltac:(lia)) as B.
    unfold ceil_div in *.
    rewrite (i64_id cs) by (unfold in_i64; lia).
    destruct (cs =? 0) eqn:E3; [lia|]. cbn [orb].
    rewrite (i64_id (size + cs)) by (unfold in_i64; lia).
    rewrite (i64_id (size + cs - 1)) by (unfold in_i64; lia).
    rewrite go_quot_nonneg by lia.
    rewrite i64_id by (unfold in_i64; lia).
    rewrite u32_id by (unfold in_u32; lia). reflexivity.
Qed.

Lemma chunkSizeForIndex_spec size cs i : geom_dom size cs -> 0 <= i < 2^32 -> i * cs < 2^63 ->
  chunkSizeForIndex size cs i = Ret (chunk_len size cs i).
Proof.
  intros (Hs & Hc & Hn) Hi Hic. rewrite maxFileSize_val in Hs.
  unfold chunkSizeForIndex, chunk_len.
  destruct (cs =? 0) eqn:E1; [lia|].
  rewrite (i64_id i) by (unfold in_i64; lia).
  rewrite (i64_id cs) by (unfold in_i64; lia).
  assert (0 <= i * cs) by nia.
  rewrite (i64_id (i * cs)) by (unfold in_i64; lia).
  cbv zeta.
  destruct (size <=? i * cs) eqn:E2.
  - f_equal. lia.
  - rewrite (i64_id (size - i * cs)) by (unfold in_i64; nia).
    destruct (size - i * cs <? cs) eqn:E3.
    + rewrite u32_id by (unfold in_u32; lia). f_equal. lia.
    + f_equal. lia.
Qed.

Lemma recvTotalChunks_spec size cs : geom_dom size cs ->
  recvTotalChunks size cs = Ret (ceil_div size cs).
Proof.
  intros (Hs & Hc & Hn). rewrite maxFileSize_val in Hs. unfold recvTotalChunks.
  pose proof (ceil_div_bounds size cs ltac:(lia) ltac:(lia)) as B. unfold ceil_div in *.
  rewrite (u32_id 0) by (unfold in_u32; lia). cbv zeta.
  destruct (0 <? cs) eqn:E1; [|lia].
  rewrite (i64_id cs) by (unfold in_i64; lia).
  rewrite (i64_id size) by (unfold in_i64; lia).
  destruct (cs =? 0) eqn:E3; [lia|]. cbn [orb bind].
  rewrite (i64_id (size + cs)) by (unfold in_i64; lia).
  rewrite (i64_id (size + cs - 1)) by (unfold in_i64; lia).
  rewrite go_quot_nonneg by lia.
  rewrite i64_id by (unfold in_i64; lia).
  rewrite u32_id by (unfold in_u32; lia). reflexivity.
Qed.

Lemma legacyResumeTotalChunks_spec size cs : geom_dom size cs ->
  legacyResumeTotalChunks size cs = Ret (ceil_div size cs).
Proof.
  intros (Hs & Hc & Hn). rewrite maxFileSize_val in Hs. unfold legacyResumeTotalChunks.
  pose proof (ceil_div_bounds size cs ltac:(lia) ltac:(lia)) as B. unfold ceil_div in *.
  rewrite (u32_id 0) by (unfold in_u32; lia). cbv zeta.
  destruct (0 <? cs) eqn:E1; [|lia].
  rewrite (i64_id cs) by (unfold in_i64; lia).
  rewrite (i64_id size) by (unfold in_i64; lia).
  destruct (cs =? 0) eqn:E3; [lia|]. cbn [orb bind].
  rewrite (i64_id (size + cs)) by (unfold in_i64; lia).
  rewrite (i64_id (size + cs - 1)) by (unfold in_i64; lia).
  rewrite go_quot_nonneg by lia.
  rewrite i64_id by (unfold in_i64; lia).
  rewrite u32_id by (unfold in_u32; lia). reflexivity.
Qed.

Lemma windowedSendTotalChunks_spec size cs : geom_dom size cs ->
  windowedSendTotalChunks size cs = Ret (ceil_div size cs).
Proof.
  intros (Hs & Hc & Hn). rewrite maxFileSize_val in Hs. unfold windowedSendTotalChunks.
  pose proof (ceil_div_bounds size cs ltac:(lia) ltac:(lia)) as B. unfold ceil_div in *.
  destruct (10995116277760 <? size) eqn:E0; [lia|].
  rewrite (i64_id cs) by (unfold in_i64; lia).
  destruct (cs =? 0) eqn:E3; [lia|]. cbn [orb].
  rewrite (i64_id (size + cs)) by (unfold in_i64; lia).
  rewrite (i64_id (size + cs - 1)) by (unfold in_i64; lia).
  rewrite go_quot_nonneg by lia.
  rewrite i64_id by (unfold in_i64; lia).
  rewrite u32_id by (unfold in_u32; lia). reflexivity.
Qed.

Lemma windowedRecvTotalChunks_spec size cs : geom_dom size cs ->
  windowedRecvTotalChunks size cs = Ret (ceil_div size cs).
Proof.
  intros (Hs & Hc & Hn). rewrite maxFileSize_val in Hs. unfold windowedRecvTotalChunks.
  pose proof (ceil_div_bounds size cs ltac:(lia) ltac:(lia)) as B. unfold ceil_div in *.
  destruct (cs =? 0) eqn:E3; [lia|].
  rewrite (u32_id 0) by (unfold in_u32; lia). cbv zeta.
  destruct (0 <? size) eqn:E1.
  - rewrite (i64_id cs) by (unfold in_i64; lia).
    rewrite (i64_id size) by (unfold in_i64; lia).
    rewrite E3. cbn [orb bind].
    rewrite (i64_id (size + cs)) by (unfold in_i64; lia).
    rewrite (i64_id (size + cs - 1)) by (unfold in_i64; lia).
    rewrite go_quot_nonneg by lia.
    rewrite i64_id by (unfold in_i64; lia).
    rewrite u32_id by (unfold in_u32; lia). reflexivity.
  - cbn [bind]. assert (size = 0) by lia. subst.
    f_equal. symmetry. apply Z.div_small. lia.
Qed.

(* the sidecar rounds an empty file up to one chunk: agreement only for size > 0 *)
Lemma sidecarTotalChunks_spec size cs : geom_dom size cs ->
  sidecarTotalChunks size cs = Ret (if size =? 0 then 1 else ceil_div size cs).
Proof.
  intros (Hs & Hc & Hn). rewrite maxFileSize_val in Hs. unfold sidecarTotalChunks.
  pose proof (ceil_div_bounds size cs ltac:(lia) ltac:(lia)) as B. unfold ceil_div in *.
  destruct (cs =? 0) eqn:E3; [lia|].
  rewrite (i64_id cs) by (unfold in_i64; lia). rewrite E3. cbn [orb].
  rewrite (i64_id (size + cs)) by (unfold in_i64; lia).
  rewrite (i64_id (size + cs - 1)) by (unfold in_i64; lia).
  rewrite go_quot_nonneg by lia.
  rewrite i64_id by (unfold in_i64; lia).
  rewrite u32_id by (unfold in_u32; lia). cbv zeta.
  destruct (size =? 0) eqn:Ez.
  - assert (size = 0) by lia. subst.
    replace ((0 + cs - 1) / cs) with 0 by (symmetry; apply Z.div_small; lia).
    reflexivity.
  - destruct ((size + cs - 1) / cs =? 0) eqn:E4; [|reflexivity].
    exfalso. pose proof (ceil_div_pos size cs ltac:(lia) ltac:(lia)). unfold ceil_div in *. lia.
Qed.

Lemma sendOffset_spec i cs : 0 <= i < 2^32 -> 0 <= cs < 2^32 -> i * cs < 2^63 ->
  sendOffset i cs = Ret (i * cs).
Proof.
  intros. unfold sendOffset. assert (0 <= i * cs) by nia.
  rewrite (i64_id i) by (unfold in_i64; lia).
  rewrite (i64_id cs) by (unfold in_i64; lia).
  rewrite (i64_id (i * cs)) by (unfold in_i64; lia). reflexivity.
Qed.

Lemma recvOffset_spec i cs : 0 <= i < 2^32 -> 0 <= cs < 2^32 -> i * cs < 2^63 ->
  recvOffset i cs = Ret (i * cs).
Proof.
  intros. unfold recvOffset. assert (0 <= i * cs) by nia.
  rewrite (i64_id i) by (unfold in_i64; lia).
  rewrite (i64_id cs) by (unfold in_i64; lia).
  rewrite (i64_id (i * cs)) by (unfold in_i64; lia). reflexivity.
Qed.

(* ---- tiling ---- *)

Lemma chunk_len_props size cs i : 0 <= size -> 1 <= cs -> 0 <= i < ceil_div size cs ->
  let n := ceil_div size cs in
  0 < chunk_len size cs i <= cs /\
  (i < n - 1 -> chunk_len size cs i = cs) /\
  i * cs + chunk_len size cs i <= size /\
  (i = n - 1 -> i * cs + chunk_len size cs i = size).
Proof.
  intros Hs Hc Hi n.
  pose proof (ceil_div_bounds size cs Hs Hc) as (B0 & B1 & B2).
  fold n in B0, B1, B2, Hi.
  assert (size <> 0).
  { intro; subst. unfold n in Hi. rewrite ceil_div_zero in Hi; lia. }
  destruct (size =? 0) eqn:Ez; [lia|].
  unfold chunk_len. repeat split; try nia.
Qed.

Lemma chunk_len_beyond size cs i : 0 <= size -> 1 <= cs -> ceil_div size cs <= i ->
  chunk_len size cs i = 0.
Proof.
  intros Hs Hc Hi.
  pose proof (ceil_div_bounds size cs Hs Hc) as (B0 & B1 & B2).
  unfold chunk_len. nia.
Qed.

(* sum of the first k chunk lengths *)
Fixpoint sum_lens (size cs : Z) (k : nat) : Z :=
  match k with
  | O => 0
  | S k' => sum_lens size cs k' + chunk_len size cs (Z.of_nat k')
  end.

Lemma sum_lens_prefix size cs k : 0 <= size -> 1 <= cs ->
  Z.of_nat k <= ceil_div size cs ->
  sum_lens size cs k = Z.min size (Z.of_nat k * cs).
Proof.
  intros Hs Hc. induction k as [|k IH]; intros Hk.
  - cbn. lia.
  - cbn [sum_lens]. rewrite IH by lia.
    pose proof (chunk_len_props size cs (Z.of_nat k) Hs Hc ltac:(lia)) as (P1 & P2 & P3 & P4).
    cbv zeta in *.
    destruct (Z.eq_dec (Z.of_nat k) (ceil_div size cs - 1)) as [e|ne].
    + specialize (P4 e). nia.
    + specialize (P2 ltac:(lia)). nia.
Qed.

Theorem tiling size cs : geom_dom size cs ->
  let n := ceil_div size cs in
  chunkTotal size cs = Ret n /\
  (forall i, 0 <= i < n ->
     exists len, chunkSizeForIndex size cs i = Ret len /\
       sendOffset i cs = Ret (i * cs) /\ recvOffset i cs = Ret (i * cs) /\
       0 < len <= cs /\ (i < n - 1 -> len = cs) /\
       i * cs + len <= size /\
       (* contiguous: the chunk starts where the previous ones end *)
       sum_lens size cs (Z.to_nat i) = i * cs) /\
  sum_lens size cs (Z.to_nat n) = size.
Proof.
  intros D n. pose proof D as (Hs & Hc & Hn). rewrite maxFileSize_val in Hs.
  pose proof (ceil_div_bounds size cs ltac:(lia) ltac:(lia)) as (B0 & B1 & B2). fold n in B0, B1, B2.
  split; [apply chunkTotal_spec; assumption|]. split.
  - intros i Hi. exists (chunk_len size cs i).
    fold (ceil_div size cs) in Hn. fold n in Hn.
    assert (i * cs <= (n - 1) * cs) by (apply Z.mul_le_mono_nonneg_r; lia).
    assert (i * cs < 2^63) by (destruct (size =? 0); lia).
    split; [apply chunkSizeForIndex_spec; [assumption|lia|lia]|].
    split; [apply sendOffset_spec; lia|]. split; [apply recvOffset_spec; lia|].
    pose proof (chunk_len_props size cs i ltac:(lia) ltac:(lia) Hi) as (P1 & P2 & P3 & P4).
    cbv zeta in *. fold n in P2, P4.
    repeat split; try lia; try (apply P2; lia).
    rewrite sum_lens_prefix by (fold n; lia). rewrite Z2Nat.id by lia.
    destruct (size =? 0) eqn:Ez; nia.
  - rewrite sum_lens_prefix by (fold n; lia). rewrite Z2Nat.id by lia. lia.
Qed.

Theorem counts_agree size cs : geom_dom size cs -> 0 < size ->
  let n := Ret (ceil_div size cs) in
  chunkTotal size cs = n /\ recvTotalChunks size cs = n /\ legacyResumeTotalChunks size cs = n /\
  sidecarTotalChunks size cs = n /\ windowedSendTotalChunks size cs = n /\ windowedRecvTotalChunks size cs = n.
Proof.
  intros D Hp n. unfold n.
  rewrite chunkTotal_spec, recvTotalChunks_spec, legacyResumeTotalChunks_spec,
    sidecarTotalChunks_spec, windowedSendTotalChunks_spec, windowedRecvTotalChunks_spec by assumption.
  destruct (size =? 0) eqn:E; [lia|]. repeat split.
Qed.

(* an empty file: everybody says 0 chunks except the sidecar, which says 1 *)
Theorem counts_empty cs : 1 <= cs < 2^32 ->
  chunkTotal 0 cs = Ret 0 /\ recvTotalChunks 0 cs = Ret 0 /\ windowedRecvTotalChunks 0 cs = Ret 0 /\
  sidecarTotalChunks 0 cs = Ret 1.
Proof.
  intros Hc.
  assert (D : geom_dom 0 cs).
  { unfold geom_dom. rewrite maxFileSize_val.
    replace ((0 + cs - 1) / cs) with 0 by (symmetry; apply Z.div_small; lia). lia. }
  rewrite chunkTotal_spec, recvTotalChunks_spec, windowedRecvTotalChunks_spec, sidecarTotalChunks_spec by assumption.
  rewrite ceil_div_zero by lia. cbn. repeat split.
Qed.

(* a zero chunk size never panics in the multi-stream path; the windowed sender does *)
Theorem zero_chunk_size size : 0 <= size <= c_maxFileSize ->
  chunkTotal size 0 = Ret 0 /\ recvTotalChunks size 0 = Ret 0 /\
  sidecarTotalChunks size 0 = Err /\ windowedRecvTotalChunks size 0 = Err /\
  windowedSendTotalChunks size 0 = Panic.
Proof.
  intros Hs. rewrite maxFileSize_val in Hs.
  unfold chunkTotal, recvTotalChunks, sidecarTotalChunks, windowedRecvTotalChunks, windowedSendTotalChunks.
  cbn [Z.eqb Z.ltb Z.compare bind].
  destruct (10995116277760 <? size) eqn:E; [lia|].
  repeat split.
Qed.

(* Lock discipline of internal/peers/hub.go, checked on the skeletons GENERATED
   from the source (Gen/HubLocks.v): it is what entitles Model/Hub.v to treat
   SendTo / Broadcast / BroadcastExcept as single atomic steps and the phases of
   remove / CloseSession as "unlink under the write lock, close afterwards". *)
From Coq Require Import List Bool.
Import ListNotations.
From TF Require Import Gen.HubLocks.

Definition lk_eqb (a b : lk) : bool :=
  match a, b with LNone, LNone | LRead, LRead | LWrite, LWrite => true | _, _ => false end.

(* walking a skeleton: [unlinked] becomes true once a routing-map write under
   the write lock has happened *)
Fixpoint ok_from (unlinked : bool) (l : list (hev * lk)) : bool :=
  match l with
  | [] => true
  | (ESend, s) :: r => negb (lk_eqb s LNone) && ok_from unlinked r
  | (EMapWrite, s) :: r => lk_eqb s LWrite && ok_from true r
  | (EClose, s) :: r => (lk_eqb s LWrite || (lk_eqb s LNone && unlinked)) && ok_from unlinked r
  | (EAcq, _) :: r => ok_from unlinked r
  end.

Definition ok_skeleton (l : list (hev * lk)) : bool := ok_from false l.

(* every channel send happens under the hub lock; every routing-map write under
   the write lock; a channel is closed either under the write lock or, without
   any lock, only after the connection was unlinked under the write lock *)
Lemma hub_lock_discipline : forallb ok_skeleton hub_all = true.
Proof. vm_compute. reflexivity. Qed.

(* the three sending operations do send, and under the read lock: they are the
   atomic steps of the model *)
Lemma hub_senders_atomic :
  existsb (fun e => match e with (ESend, LRead) => true | _ => false end) hub_Broadcast = true /\
  existsb (fun e => match e with (ESend, LRead) => true | _ => false end) hub_BroadcastExcept = true /\
  existsb (fun e => match e with (ESend, LRead) => true | _ => false end) hub_SendTo = true.
Proof. vm_compute. repeat split. Qed.

(* Atomicity granularity of Model/Hub.v, read off the source: the number of
   critical sections (acquisitions of h.mu) of every operation.  Add, List,
   SendTo, Broadcast and BroadcastExcept are ONE critical section each - the
   model's single steps [Add], [ListOp], [SendTo], [Bcast]; CloseSession has one
   (its detach phase [Cs1]; the per-connection closes [Cs2] take no lock); the
   remove closure returned by Add has two ([Rm1] unlink and [Rm3] garbage
   collection, with the lock-free close [Rm2] in between); the writer goroutine
   started by Add takes none. *)
Definition acquisitions (l : list (hev * lk)) : nat :=
  length (filter (fun e => match e with (EAcq, _) => true | _ => false end) l).

Lemma hub_critical_sections :
  acquisitions hub_Add = 1 /\ acquisitions hub_Add_lit1 = 0 /\ acquisitions hub_Add_lit2 = 2 /\ acquisitions hub_CloseSession = 1 /\ acquisitions hub_List = 1 /\ acquisitions hub_Broadcast = 1 /\ acquisitions hub_BroadcastExcept = 1 /\ acquisitions hub_SendTo = 1.
Proof. vm_compute. repeat split. Qed.

(* ... and nothing is done to the routing maps or the channels outside those
   sections except the lock-free close after the unlink: every event of Add
   happens under the write lock *)
Lemma hub_add_all_locked :
  forallb (fun e => match e with (_, LWrite) => true | _ => false end) hub_Add = true.
Proof. vm_compute. reflexivity. Qed.

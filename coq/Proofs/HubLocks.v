(* Lock discipline of internal/peers/hub.go, checked on the skeletons GENERATED
   from the source (Gen/HubLocks.v): it is what entitles Model/Hub.v to treat
   SendTo / Broadcast / BroadcastExcept as single atomic steps and the phases of
   remove / CloseSession as "unlink under the write lock, close afterwards". *)
From Coq Require Import List Bool.
Import ListNotations.
From TF Require Import Gen.HubLocks.

Definition lk_eqb (a b : lk) : bool :=
  match a, b with LNone, LNone | LRead, LRead | LWrite, LWrite => true | _, _ => false end.

(* walking a skeleton: [unlinked] becomes true once a routing-map write under
   the write lock has happened *)
Fixpoint ok_from (unlinked : bool) (l : list (hev * lk)) : bool :=
  match l with
  | [] => true
  | (ESend, s) :: r => negb (lk_eqb s LNone) && ok_from unlinked r
  | (EMapWrite, s) :: r => lk_eqb s LWrite && ok_from true r
  | (EClose, s) :: r => (lk_eqb s LWrite || (lk_eqb s LNone && unlinked)) && ok_from unlinked r
  end.

Definition ok_skeleton (l : list (hev * lk)) : bool := ok_from false l.

(* every channel send happens under the hub lock; every routing-map write under
   the write lock; a channel is closed either under the write lock or, without
   any lock, only after the connection was unlinked under the write lock *)
Lemma hub_lock_discipline : forallb ok_skeleton hub_all = true.
Proof. vm_compute. reflexivity. Qed.

(* the three sending operations do send, and under the read lock: they are the
   atomic steps of the model *)
Lemma hub_senders_atomic :
  existsb (fun e => match e with (ESend, LRead) => true | _ => false end) hub_Broadcast = true /\
  existsb (fun e => match e with (ESend, LRead) => true | _ => false end) hub_BroadcastExcept = true /\
  existsb (fun e => match e with (ESend, LRead) => true | _ => false end) hub_SendTo = true.
Proof. vm_compute. repeat split. Qed.

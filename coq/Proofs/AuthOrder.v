(* Soundness of the call-order checker of Model/AuthOrder.v: if `check` accepts a
   skeleton, NO path through it (any branch choices, any number of loop
   iterations, any results of opaque calls, any outcome of each
   authentication) reaches a transfer call with a connection on which
   authenticateTransport has not returned nil before.  Then the obligations on
   the skeletons generated from the source (Gen/AuthOrder.v). *)
From Coq Require Import List String Bool Arith Lia.
From TF Require Import Model.AuthOrder.
Import ListNotations.
Open Scope string_scope.
Open Scope list_scope.

Definition sound (A : list string) (s : cstate) : Prop :=
  forall x, mem x A = true -> forall i, In i (env s x) -> In i (auth s).

Lemma mem_In x A : mem x A = true <-> In x A.
Proof.
  unfold mem. rewrite existsb_exists. split.
  - intros (y & I & E). apply String.eqb_eq in E. subst. exact I.
  - intros I. exists x. split; [exact I|apply String.eqb_refl].
Qed.

Lemma subset_mem I A x : subset I A = true -> mem x I = true -> mem x A = true.
Proof. unfold subset. rewrite forallb_forall. intros H M. apply H. apply mem_In. exact M. Qed.

Lemma sound_subset I A s : subset I A = true -> sound A s -> sound I s.
Proof. intros S H x M. apply H. eapply subset_mem; eassumption. Qed.

Lemma mem_inter x A B : mem x (inter A B) = true -> mem x A = true /\ mem x B = true.
Proof.
  rewrite !mem_In. unfold inter. rewrite filter_In. intros [I M]. split; [exact I|]. apply mem_In. exact M.
Qed.

Lemma sound_inter_l A B s : sound A s -> sound (inter A B) s.
Proof. intros H x M. apply mem_inter in M. apply H. tauto. Qed.
Lemma sound_inter_r A B s : sound B s -> sound (inter A B) s.
Proof. intros H x M. apply mem_inter in M. apply H. tauto. Qed.

Lemma meet_l a b A s : a = Some A -> sound A s -> exists X, meet a b = Some X /\ sound X s.
Proof.
  intros -> H. destruct b as [B|]; cbn.
  - eexists. split; [reflexivity|]. apply sound_inter_l. exact H.
  - eexists. split; [reflexivity|exact H].
Qed.
Lemma meet_r a b B s : b = Some B -> sound B s -> exists X, meet a b = Some X /\ sound X s.
Proof.
  intros -> H. destruct a as [A|]; cbn.
  - eexists. split; [reflexivity|]. apply sound_inter_r. exact H.
  - eexists. split; [reflexivity|exact H].
Qed.

Lemma below_sound I a A s : below I a = true -> a = Some A -> sound A s -> sound I s.
Proof. intros B -> H. cbn in B. eapply sound_subset; eassumption. Qed.

Lemma sound_grow A ev au extra : sound A {| env := ev; auth := au |} -> sound A {| env := ev; auth := au ++ extra |}.
Proof. intros H x M i I. cbn in *. apply in_or_app. left. eapply H; eassumption. Qed.

Lemma eval_authd A s e ids fr :
  sound A s -> authd A e = true -> eval (env s) e ids fr -> forall i, In i ids -> In i (auth s ++ fr).
Proof.
  intros H Ha E. induction E as [|x e ids fr E IH|f e l ids fr Sf E IH|f e l ids fr Sf E IH|f e l ids fr E IH];
    cbn [authd forallb atom_ok] in Ha; intros i I.
  - destruct I.
  - apply andb_true_iff in Ha. destruct Ha as [M Ha]. apply in_app_or in I. destruct I as [I|I].
    + apply in_or_app. left. eapply H; eassumption.
    + apply IH; assumption.
  - apply andb_true_iff in Ha. destruct Ha as [_ Ha]. apply in_app_or in I. destruct I as [I|I].
    + apply in_or_app. right. apply in_or_app. left. exact I.
    + specialize (IH Ha i I). apply in_app_or in IH. apply in_or_app. destruct IH; [left|right; apply in_or_app; right]; assumption.
  - apply andb_true_iff in Ha. destruct Ha as [C _]. rewrite Sf in C. discriminate.
  - discriminate.
Qed.

Lemma mem_cons x y A : mem y (x :: A) = String.eqb y x || mem y A.
Proof. reflexivity. Qed.

Lemma mem_remove x y A : mem y (remove x A) = true -> String.eqb x y = false /\ mem y A = true.
Proof.
  rewrite !mem_In. unfold remove. rewrite filter_In. intros [I N]. split; [|exact I].
  apply negb_true_iff in N. exact N.
Qed.

Section Soundness.
  Variables exp_code exp_role : string.
  Notation exec := (exec exp_code exp_role).
  Notation ai := (ai exp_code exp_role).

  Definition post (p : prog) (A : list string) (o : outcome) (s' : cstate) : Prop :=
    o <> OViol /\
    (o = ONorm -> exists A', norm (ai p A) = Some A' /\ sound A' s') /\
    (o = OBrk -> exists B, brk (ai p A) = Some B /\ sound B s').

  Lemma loop_inv body I :
    (forall s o s', exec body s o s' -> sound I s ->
       o <> OViol /\ (o = ONorm -> sound I s') /\ (o = OBrk -> sound I s')) ->
    forall s o s', exec (PLoop body) s o s' -> sound I s ->
       o <> OViol /\ o <> OBrk /\ (o = ONorm -> sound I s').
  Proof.
    intros HB s o s' E. remember (PLoop body) as p eqn:Ep.
    induction E; try discriminate; inversion Ep; subst; intros HS.
    - repeat split; try discriminate. intros _. exact HS.
    - destruct (HB _ _ _ E1 HS) as (_ & Hn & Hb).
      apply IHE2; [reflexivity|]. destruct H as [-> | ->]; auto.
    - destruct (HB _ _ _ E HS) as (Hv & _ & _).
      destruct H as [-> | ->]; [|contradiction]. repeat split; discriminate.
  Qed.

  Lemma inv_seq p q s o s' : exec (PSeq p q) s o s' ->
    (exists s1, exec p s ONorm s1 /\ exec q s1 o s') \/ (exec p s o s' /\ o <> ONorm).
  Proof. intros E. inversion E; subst; [left; eauto|right; auto]. Qed.
  Lemma inv_assign x e s o s' : exec (PAssign x e) s o s' ->
    exists ids fr, eval (env s) e ids fr /\ o = ONorm /\ s' = {| env := upd (env s) x ids; auth := auth s ++ fr |}.
  Proof. intros E. inversion E; subst. eauto. Qed.
  Lemma inv_use f e s o s' : exec (PUse f e) s o s' ->
    exists ids fr, eval (env s) e ids fr /\
      ((o = ONorm /\ s' = {| env := env s; auth := auth s ++ fr |}) \/
       (o = OViol /\ is_sink f = true /\ exists i, In i ids /\ ~ In i (auth s ++ fr))).
  Proof. intros E. inversion E; subst; do 2 eexists; (split; [eassumption|]); [left; auto|right; eauto]. Qed.
  Lemma inv_auth x code role fail s o s' : exec (PAuth x code role fail) s o s' ->
    (auth_counts exp_code exp_role code role = true /\ o = ONorm /\ s' = {| env := env s; auth := auth s ++ env s x |}) \/
    (auth_counts exp_code exp_role code role = false /\ o = ONorm /\ s' = s) \/
    exec fail s o s'.
  Proof. intros E. inversion E; subst; auto. Qed.
  Lemma inv_if a b s o s' : exec (PIf a b) s o s' -> exec a s o s' \/ exec b s o s'.
  Proof. intros E. inversion E; subst; auto. Qed.

  Theorem ai_sound : forall p A s o s', exec p s o s' -> ok (ai p A) = true -> sound A s -> post p A o s'.
  Proof.
    induction p as [|p1 IH1 p2 IH2|x e|f e|x code role fail IHf|a IHa b IHb|body IHb| |];
      intros A s o s' E Hok HS; unfold post.
    - (* skip *) inversion E; subst. repeat split; try discriminate. intros _. eexists. split; [reflexivity|exact HS].
    - (* seq *)
      cbn [AuthOrder.ai] in *. apply inv_seq in E. destruct E as [(s1 & E1 & E2)|(E1 & No)].
      + destruct (norm (ai p1 A)) as [A1|] eqn:N1.
        * cbn [ok norm brk] in *. apply andb_true_iff in Hok. destruct Hok as [Ok1 Ok2].
          destruct (IH1 _ _ _ _ E1 Ok1 HS) as (_ & Hn & _). destruct (Hn eq_refl) as (A' & EA & SA).
          rewrite N1 in EA. inversion EA; subst A'.
          destruct (IH2 _ _ _ _ E2 Ok2 SA) as (Hv & Hn2 & Hb2). repeat split; [exact Hv|exact Hn2|].
          intros Eo. destruct (Hb2 Eo) as (B & EB & SB). eapply meet_r; eassumption.
        * destruct (IH1 _ _ _ _ E1 Hok HS) as (_ & Hn & _). destruct (Hn eq_refl) as (A' & EA & _).
          rewrite N1 in EA. discriminate.
      + destruct (norm (ai p1 A)) as [A1|] eqn:N1.
        * cbn [ok norm brk] in *. apply andb_true_iff in Hok. destruct Hok as [Ok1 Ok2].
          destruct (IH1 _ _ _ _ E1 Ok1 HS) as (Hv & _ & Hb). repeat split; [exact Hv|contradiction|].
          intros Eo. destruct (Hb Eo) as (B & EB & SB). eapply meet_l; eassumption.
        * destruct (IH1 _ _ _ _ E1 Hok HS) as (Hv & _ & Hb). repeat split; [exact Hv|contradiction|exact Hb].
    - (* assign *)
      apply inv_assign in E. destruct E as (ids & fr & Ev & -> & ->).
      repeat split; try discriminate. intros _. cbn [AuthOrder.ai norm].
      eexists. split; [reflexivity|].
      destruct (authd A e) eqn:Ha.
      + intros y M i I. cbn [env auth] in *. rewrite mem_cons in M. unfold upd in I.
        destruct (String.eqb x y) eqn:Exy.
        * eapply eval_authd; eassumption.
        * apply orb_true_iff in M. destruct M as [M|M].
          -- rewrite String.eqb_sym in M. rewrite M in Exy. discriminate.
          -- apply in_or_app. left. eapply HS; eassumption.
      + intros y M i I. cbn [env auth] in *. apply mem_remove in M. destruct M as [Exy M].
        unfold upd in I. rewrite Exy in I. apply in_or_app. left. eapply HS; eassumption.
    - (* use *)
      cbn [AuthOrder.ai ok norm brk] in *. apply inv_use in E.
      destruct E as (ids & fr & Ev & [(-> & ->)|(-> & Sk & i & Ii & Ni)]).
      + repeat split; try discriminate. intros _. eexists. split; [reflexivity|].
        destruct s as [ev au]. apply sound_grow. exact HS.
      + exfalso. rewrite Sk in Hok. cbn in Hok. apply Ni. eapply eval_authd; eassumption.
    - (* auth *)
      cbn [AuthOrder.ai ok norm brk] in *. apply inv_auth in E.
      destruct E as [(Ac & -> & ->)|[(Ac & -> & ->)|Ef]].
      + repeat split; try discriminate. intros _. rewrite Ac.
        eapply meet_l; [reflexivity|].
        intros y M i I. cbn [env auth] in *. rewrite mem_cons in M. apply orb_true_iff in M. destruct M as [M|M].
        * apply String.eqb_eq in M. subst y. apply in_or_app. right. exact I.
        * apply in_or_app. left. eapply HS; eassumption.
      + repeat split; try discriminate. intros _. rewrite Ac. eapply meet_l; [reflexivity|exact HS].
      + destruct (IHf _ _ _ _ Ef Hok HS) as (Hv & Hn & Hb). repeat split; [exact Hv| |exact Hb].
        intros Eo. destruct (Hn Eo) as (A' & EA & SA). eapply meet_r; eassumption.
    - (* if *)
      cbn [AuthOrder.ai ok norm brk] in *. apply andb_true_iff in Hok. destruct Hok as [Oa Ob].
      apply inv_if in E. destruct E as [E|E].
      + destruct (IHa _ _ _ _ E Oa HS) as (Hv & Hn & Hb). repeat split; [exact Hv| |].
        * intros Eo. destruct (Hn Eo) as (A' & EA & SA). eapply meet_l; eassumption.
        * intros Eo. destruct (Hb Eo) as (A' & EA & SA). eapply meet_l; eassumption.
      + destruct (IHb _ _ _ _ E Ob HS) as (Hv & Hn & Hb). repeat split; [exact Hv| |].
        * intros Eo. destruct (Hn Eo) as (A' & EA & SA). eapply meet_r; eassumption.
        * intros Eo. destruct (Hb Eo) as (A' & EA & SA). eapply meet_r; eassumption.
    - (* loop *)
      cbn [AuthOrder.ai ok norm brk] in *.
      set (I := iter_inv (ai body) (S (List.length A)) A) in *.
      apply andb_true_iff in Hok. destruct Hok as [Hok B2].
      apply andb_true_iff in Hok. destruct Hok as [Hok B1].
      apply andb_true_iff in Hok. destruct Hok as [Okb Sub].
      assert (HB : forall s o s', exec body s o s' -> sound I s ->
                o <> OViol /\ (o = ONorm -> sound I s') /\ (o = OBrk -> sound I s')).
      { intros t o' t' Eb St. destruct (IHb _ _ _ _ Eb Okb St) as (Hv & Hn & Hb). repeat split; [exact Hv| |].
        - intros Eo. destruct (Hn Eo) as (A' & EA & SA). exact (below_sound I _ A' t' B1 EA SA).
        - intros Eo. destruct (Hb Eo) as (A' & EA & SA). exact (below_sound I _ A' t' B2 EA SA). }
      destruct (loop_inv body I HB _ _ _ E (sound_subset _ _ _ Sub HS)) as (Hv & Hnb & Hn).
      repeat split; [exact Hv| |contradiction].
      intros Eo. eexists. split; [reflexivity|]. apply Hn. exact Eo.
    - (* break *) inversion E; subst. repeat split; try discriminate. intros _. eexists. split; [reflexivity|exact HS].
    - (* exit *) inversion E; subst. repeat split; discriminate.
  Qed.

  (* THE matcher theorem *)
  Theorem check_sound p : check exp_code exp_role p = true ->
    forall s o s', exec p s o s' -> o <> OViol.
  Proof.
    intros C s o s' E. unfold check in C.
    assert (HS : sound [] s) by (intros x M; discriminate).
    destruct (ai_sound p [] s o s' E C HS) as (Hv & _). exact Hv.
  Qed.
End Soundness.

(* ---- non-vacuity: the semantics does have violating paths, and the checker refuses them ---- *)

Definition st0 : cstate := {| env := fun _ => []; auth := [] |}.

Definition bad_transfer_first : prog :=
  PSeq (PAssign "c" [AOpaque "Dial"])
  (PSeq (PUse "SendManifestMultiStream" [AVar "c"])
        (PAuth "c" "s.joinCode" "authRoleSender" PExit)).

Example bad_transfer_first_violates :
  exists s', exec "s.joinCode" "authRoleSender" bad_transfer_first st0 OViol s' /\
             check "s.joinCode" "authRoleSender" bad_transfer_first = false.
Proof.
  eexists. split; [|reflexivity].
  unfold bad_transfer_first. eapply x_seq_n.
  - apply x_assign with (ids := [7] ++ []) (fr := []). apply ev_opaque. apply ev_nil.
  - apply x_seq_x; [|discriminate].
    eapply x_use_viol with (i := 7) (ids := [7] ++ []) (fr := []).
    + cbn [env]. change ([7] ++ []) with (upd (fun _ : string => []) "c" ([7] ++ []) "c" ++ []).
      apply ev_var. apply ev_nil.
    + reflexivity.
    + left. reflexivity.
    + cbn. tauto.
Qed.

(* an extra connection that skips authentication *)
Definition bad_extra_unauthenticated : prog :=
  PSeq (PAssign "conns" [])
  (PSeq (PLoop (PSeq (PAssign "conn" [AOpaque "Accept"]) (PAssign "conns" [AVar "conns"; AVar "conn"])))
        (PSeq (PUse "return" [AVar "conns"]) PExit)).
Example bad_extra_refused : check "r.joinCode" "authRoleReceive" bad_extra_unauthenticated = false.
Proof. reflexivity. Qed.

Definition good_extra : prog :=
  PSeq (PAssign "conns" [])
  (PSeq (PLoop (PSeq (PAssign "conn" [AOpaque "Accept"])
               (PSeq (PAuth "conn" "r.joinCode" "authRoleReceive" PBreak)
                     (PAssign "conns" [AVar "conns"; AVar "conn"]))))
        (PSeq (PUse "return" [AVar "conns"]) PExit)).
Example good_extra_accepted : check "r.joinCode" "authRoleReceive" good_extra = true.
Proof. reflexivity. Qed.
(* the same with the wrong role constant proves nothing *)
Example wrong_role_refused : check "r.joinCode" "authRoleSender" good_extra = false.
Proof. reflexivity. Qed.

(* Proofs about Model/Sched.v: the hybrid scheduler hands out only pending files,
   marks them started, refuses only while a small file is running, and - under
   the sender's usage pattern - begins every file of the manifest exactly once
   whatever the order in which file slots free up. *)
From Coq Require Import List ZArith Bool Lia Sorted Permutation Arith.
Import ListNotations.
From TF Require Import Model.Sched.
Open Scope Z_scope.

(* ---------- association lists sorted by key ---------- *)

Definition keys (l : list (Z * meta)) : list Z := map fst l.
Definition sorted (l : list (Z * meta)) : Prop := StronglySorted Z.lt (keys l).

Lemma sorted_nil : sorted [].
Proof. constructor. Qed.

Lemma sorted_cons_inv k m l : sorted ((k, m) :: l) -> sorted l /\ Forall (fun x => k < x) (keys l).
Proof. intro H. inversion H; subst. split; assumption. Qed.

Lemma keys_put k m l : forall x, In x (keys (put k m l)) <-> x = k \/ In x (keys l).
Proof.
  induction l as [|[k' m'] r IH]; intro x; cbn.
  - intuition congruence.
  - destruct (k =? k') eqn:E; [apply Z.eqb_eq in E; subst; cbn; intuition congruence|].
    destruct (k <? k') eqn:L; cbn; [intuition congruence|]. rewrite IH. intuition congruence.
Qed.

Lemma sorted_put k m l : sorted l -> sorted (put k m l).
Proof.
  unfold sorted. induction l as [|[k' m'] r IH]; intro H; cbn.
  - repeat constructor.
  - apply (sorted_cons_inv k' m' r) in H as [Hr Hall]. fold (keys r) in *.
    destruct (k =? k') eqn:E.
    + apply Z.eqb_eq in E; subst. cbn. constructor; assumption.
    + apply Z.eqb_neq in E. destruct (k <? k') eqn:L.
      * apply Z.ltb_lt in L. cbn. constructor.
        { constructor; assumption. }
        { constructor; [assumption|]. eapply Forall_impl; [|exact Hall]. cbn; intros; lia. }
      * apply Z.ltb_ge in L. cbn. constructor; [apply IH; assumption|].
        apply Forall_forall. intros x Hx. apply keys_put in Hx as [->|Hx]; [lia|].
        rewrite Forall_forall in Hall. apply Hall; assumption.
Qed.

Lemma keys_del_incl k l : forall x, In x (keys (del k l)) -> In x (keys l).
Proof.
  induction l as [|[k' m'] r IH]; intros x; cbn; [tauto|].
  destruct (k =? k'); cbn; [tauto|]. intros [->|H]; [tauto|]. right; apply IH; assumption.
Qed.

Lemma sorted_del k l : sorted l -> sorted (del k l).
Proof.
  unfold sorted. induction l as [|[k' m'] r IH]; intro H; cbn; [constructor|].
  apply (sorted_cons_inv k' m' r) in H as [Hr Hall].
  destruct (k =? k'); [assumption|]. cbn. constructor; [apply IH; assumption|].
  apply Forall_forall. intros x Hx. apply keys_del_incl in Hx.
  rewrite Forall_forall in Hall. apply Hall; assumption.
Qed.

Lemma lookup_put k m l k' : lookup k' (put k m l) = if k' =? k then Some m else lookup k' l.
Proof.
  induction l as [|[k0 m0] r IH]; cbn.
  - destruct (k' =? k); reflexivity.
  - destruct (k =? k0) eqn:E.
    + apply Z.eqb_eq in E; subst. cbn. destruct (k' =? k0); reflexivity.
    + destruct (k <? k0) eqn:L; cbn.
      * destruct (k' =? k); reflexivity.
      * rewrite IH. destruct (k' =? k0) eqn:E2; [|reflexivity].
        apply Z.eqb_eq in E2; subst. apply Z.eqb_neq in E.
        destruct (k0 =? k) eqn:E3; [apply Z.eqb_eq in E3; congruence|reflexivity].
Qed.

Lemma lookup_none_notin k l : lookup k l = None <-> ~ In k (keys l).
Proof.
  induction l as [|[k0 m0] r IH]; cbn; [tauto|].
  destruct (k =? k0) eqn:E.
  - apply Z.eqb_eq in E; subst. split; [discriminate|tauto].
  - apply Z.eqb_neq in E. rewrite IH. split; [intros H [H1|H1]; [congruence|exact (H H1)]|tauto].
Qed.

Lemma lookup_del k l k' : sorted l -> lookup k' (del k l) = if k' =? k then None else lookup k' l.
Proof.
  induction l as [|[k0 m0] r IH]; intro Hs; cbn.
  - destruct (k' =? k); reflexivity.
  - apply (sorted_cons_inv k0 m0 r) in Hs as [Hr Hall].
    destruct (k =? k0) eqn:E.
    + apply Z.eqb_eq in E; subst.
      destruct (k' =? k0) eqn:E2; [|reflexivity].
      apply Z.eqb_eq in E2; subst. apply lookup_none_notin. intro Hin.
      rewrite Forall_forall in Hall. specialize (Hall _ Hin). lia.
    + cbn. rewrite (IH Hr). destruct (k' =? k0) eqn:E2; [|reflexivity].
      apply Z.eqb_eq in E2; subst. apply Z.eqb_neq in E.
      destruct (k0 =? k) eqn:E3; [apply Z.eqb_eq in E3; congruence|reflexivity].
Qed.

Lemma in_sorted_lookup k m l : sorted l -> In (k, m) l -> lookup k l = Some m.
Proof.
  induction l as [|[k0 m0] r IH]; intros Hs Hin; [destruct Hin|].
  apply (sorted_cons_inv k0 m0 r) in Hs as [Hr Hall]. cbn.
  destruct Hin as [Heq|Hin].
  - inversion Heq; subst. rewrite Z.eqb_refl. reflexivity.
  - destruct (k =? k0) eqn:E.
    + apply Z.eqb_eq in E; subst. exfalso.
      rewrite Forall_forall in Hall. assert (In k0 (keys r)) by (apply in_map_iff; exists (k0, m); auto).
      specialize (Hall _ H). lia.
    + apply IH; assumption.
Qed.

Lemma lookup_in k m l : lookup k l = Some m -> In (k, m) l.
Proof.
  induction l as [|[k0 m0] r IH]; cbn; [discriminate|].
  destruct (k =? k0) eqn:E; intro H.
  - apply Z.eqb_eq in E; subst. inversion H; subst. left; reflexivity.
  - right; apply IH; assumption.
Qed.

(* ---------- configuration ---------- *)

Definition cfg_ok (c : cfg) : Prop := 1 <= parallel c /\ 0 < fracDen c.

Lemma small_slots_pos c : cfg_ok c -> 1 <= small_slots c.
Proof.
  intros [Hp Hd]. unfold small_slots.
  destruct (parallel c * fracNum c / fracDen c <? 1) eqn:E.
  - destruct (parallel c <? 1) eqn:E2; [apply Z.ltb_lt in E2; lia|lia].
  - apply Z.ltb_ge in E.
    destruct (parallel c <? parallel c * fracNum c / fracDen c) eqn:E2; lia.
Qed.

Lemma norm_cfg_ok c : (fracNum c <= 0 \/ 0 < fracDen c) -> cfg_ok (norm_cfg c).
Proof.
  intros H. unfold cfg_ok, norm_cfg; cbn. split.
  - destruct (parallel c <? 1) eqn:E; [lia|apply Z.ltb_ge in E; lia].
  - destruct (fracNum c <=? 0) eqn:E; [lia|]. apply Z.leb_gt in E. lia.
Qed.

(* ---------- Next ---------- *)

Lemma pick_smallest_in best l : In (pick_smallest best l) (best :: l).
Proof.
  revert best. induction l as [|e r IH]; intro best; cbn; [auto|].
  destruct (remaining_for (snd e) <? remaining_for (snd best)).
  - destruct (IH e) as [H|H]; [right; left; exact H|right; right; exact H].
  - destruct (IH best) as [H|H]; [left; exact H|right; right; exact H].
Qed.

Lemma pick_smallest_le_best best l :
  remaining_for (snd (pick_smallest best l)) <= remaining_for (snd best).
Proof.
  revert best. induction l as [|e r IH]; intro best; cbn; [lia|].
  destruct (remaining_for (snd e) <? remaining_for (snd best)) eqn:E.
  - apply Z.ltb_lt in E. specialize (IH e). lia.
  - apply IH.
Qed.

Lemma pick_smallest_min best l x : In x (best :: l) ->
  remaining_for (snd (pick_smallest best l)) <= remaining_for (snd x).
Proof.
  revert best. induction l as [|e r IH]; intros best Hin; cbn.
  - destruct Hin as [->|[]]. lia.
  - destruct (remaining_for (snd e) <? remaining_for (snd best)) eqn:E.
    + apply Z.ltb_lt in E. destruct Hin as [->|[->|Hin]].
      * pose proof (pick_smallest_le_best e r). lia.
      * apply IH; left; reflexivity.
      * apply IH; right; assumption.
    + apply Z.ltb_ge in E. destruct Hin as [->|[->|Hin]].
      * apply IH; left; reflexivity.
      * pose proof (pick_smallest_le_best best r). lia.
      * apply IH; right; assumption.
Qed.

Lemma nth_mod_in {A} (i : nat) (w : A) (ws : list A) :
  In (nth (Nat.modulo i (length (w :: ws))) (w :: ws) w) (w :: ws).
Proof. apply nth_In. apply Nat.mod_upper_bound. cbn; lia. Qed.

(* what a successful Next does: the returned key was in the table and pending,
   its entry becomes started (LastScheduledAt = now), nothing else changes *)
Lemma pick_weighted_some s now c s' k : sorted (files s) ->
  pick_weighted s now c = (s', Some k) ->
  exists m, lookup k (files s) = Some m /\ mstarted m = false /\
            cls_eqb (eff_class (conf s) m now) Small = false /\
            s' = with_files s (put k (mark now m) (files s)).
Proof.
  intros Hs. unfold pick_weighted.
  destruct (pending_weighted (conf s) now (files s)) as [|w ws] eqn:E; [discriminate|].
  intro H.
  remember (nth (Nat.modulo c (length (w :: ws))) (w :: ws) w) as b eqn:Hb.
  assert (Hin : In b (w :: ws)) by (subst b; apply nth_mod_in).
  clear Hb. rewrite <- E in Hin. unfold pending_weighted in Hin. apply filter_In in Hin as [Hin Hp].
  apply andb_true_iff in Hp as [Hp1 Hp2]. apply negb_true_iff in Hp1, Hp2.
  destruct b as [bk bm]; cbn in *. inversion H; subst; clear H.
  exists bm. repeat split; auto. apply in_sorted_lookup; assumption.
Qed.

Lemma next_some s now c s' k : sorted (files s) ->
  next s now c = (s', Some k) ->
  exists m, lookup k (files s) = Some m /\ mstarted m = false /\
            s' = with_files s (put k (mark now m) (files s)).
Proof.
  intros Hs. unfold next.
  destruct (pending_small (conf s) now (files s)) as [|e r] eqn:E.
  - intro H. destruct (pick_weighted_some _ _ _ _ _ Hs H) as (m & ? & ? & ? & ?). exists m; auto.
  - destruct (active_small (files s) <? small_slots (conf s)).
    + intro H.
      pose proof (pick_smallest_in e r) as Hin. rewrite <- E in Hin.
      unfold pending_small in Hin. apply filter_In in Hin as [Hin Hp].
      apply andb_true_iff in Hp as [Hp1 _]. apply negb_true_iff in Hp1.
      destruct (pick_smallest e r) as [bk bm]; cbn in *. inversion H; subst; clear H.
      exists bm. repeat split; auto. apply in_sorted_lookup; assumption.
    + intro H. destruct (pick_weighted_some _ _ _ _ _ Hs H) as (m & ? & ? & ? & ?). exists m; auto.
Qed.

Lemma next_none_state s now c s' : next s now c = (s', None) -> s' = s.
Proof.
  unfold next, pick_weighted.
  destruct (pending_small (conf s) now (files s)) as [|e r];
    [|destruct (active_small (files s) <? small_slots (conf s)); [discriminate|]];
    destruct (pending_weighted (conf s) now (files s)); intro H; inversion H; reflexivity.
Qed.

(* a refusal means: nothing pending is medium/large (by effective class), and
   if something is pending at all then the small slots are all taken *)
Lemma next_none s now c s' : next s now c = (s', None) ->
  pending_weighted (conf s) now (files s) = [] /\
  (pending_small (conf s) now (files s) = [] \/ small_slots (conf s) <= active_small (files s)).
Proof.
  unfold next, pick_weighted.
  destruct (pending_small (conf s) now (files s)) as [|e r] eqn:E.
  - destruct (pending_weighted (conf s) now (files s)); [auto|discriminate].
  - destruct (active_small (files s) <? small_slots (conf s)) eqn:L; [discriminate|].
    apply Z.ltb_ge in L.
    destruct (pending_weighted (conf s) now (files s)); [auto|discriminate].
Qed.

Lemma pending_split c now l :
  pending l = [] <-> pending_small c now l = [] /\ pending_weighted c now l = [].
Proof.
  unfold pending, pending_small, pending_weighted.
  induction l as [|e r IH]; cbn; [tauto|].
  destruct (mstarted (snd e)); cbn; [exact IH|].
  destruct (cls_eqb (eff_class c (snd e) now) Small); cbn; split; intro H; try discriminate;
    destruct H; discriminate.
Qed.

Lemma active_small_le_started l : active_small l <= Z.of_nat (length (started l)).
Proof.
  unfold active_small, started. apply inj_le.
  induction l as [|e r IH]; cbn; [lia|].
  destruct (mstarted (snd e)); cbn; [|exact IH].
  destruct (cls_eqb (mclass (snd e)) Small); cbn; lia.
Qed.

(* liveness of one call: with something pending and nothing running, Next hands
   out a file - for every clock value and every choice of the credit oracle *)
Lemma next_live s now c : cfg_ok (conf s) ->
  pending (files s) <> [] -> started (files s) = [] ->
  exists s' k, next s now c = (s', Some k).
Proof.
  intros Hc Hp Hst.
  destruct (next s now c) as [s' [k|]] eqn:E; [eauto|].
  exfalso. apply next_none in E as [Hw Hsm].
  destruct Hsm as [Hsm|Hsm].
  - apply Hp. apply (pending_split (conf s) now). split; assumption.
  - pose proof (small_slots_pos _ Hc). pose proof (active_small_le_started (files s)).
    rewrite Hst in *. cbn in *. lia.
Qed.

(* work conservation up to the small-file quota: a refusal with files pending
   happens only while at least [small_slots] small files are running *)
Lemma next_refusal_means_small_running s now c s' : cfg_ok (conf s) ->
  next s now c = (s', None) -> pending (files s) <> [] ->
  1 <= small_slots (conf s) <= active_small (files s).
Proof.
  intros Hc E Hp. apply next_none in E as [Hw [Hsm|Hsm]].
  - exfalso. apply Hp. apply (pending_split (conf s) now). split; assumption.
  - split; [apply small_slots_pos; assumption|assumption].
Qed.

(* ---------- invariants of the operations ---------- *)

Lemma step_sorted s o : sorted (files s) -> sorted (files (fst (step s o))).
Proof.
  intro Hs. destruct o as [k size rem isS last|k rem|k|n|now c]; cbn.
  - apply sorted_put; assumption.
  - destruct (lookup k (files s)); cbn; [apply sorted_put|]; assumption.
  - apply sorted_del; assumption.
  - assumption.
  - destruct (next s now c) as [s' [k|]] eqn:E; cbn.
    + destruct (next_some _ _ _ _ _ Hs E) as (m & _ & _ & ->). cbn. apply sorted_put; assumption.
    + apply next_none_state in E; subst; assumption.
Qed.

Lemma step_cfg_ok s o : cfg_ok (conf s) -> cfg_ok (conf (fst (step s o))).
Proof.
  intro Hc. destruct o as [k size rem isS last|k rem|k|n|now c]; cbn; auto.
  - destruct (lookup k (files s)); cbn; assumption.
  - destruct Hc as [Hp Hd]. split; cbn; [|assumption].
    destruct (n <? 1) eqn:E; [lia|apply Z.ltb_ge in E; lia].
  - destruct (next s now c) as [s' [k|]] eqn:E; cbn.
    + unfold next, pick_weighted in E.
      destruct (pending_small (conf s) now (files s));
        [|destruct (active_small (files s) <? small_slots (conf s))];
        try (destruct (pending_weighted (conf s) now (files s)));
        inversion E; subst; cbn; assumption.
    + apply next_none_state in E; subst; assumption.
Qed.

Lemma run_inv s ops : sorted (files s) -> cfg_ok (conf s) ->
  sorted (files (fst (run s ops))) /\ cfg_ok (conf (fst (run s ops))).
Proof.
  revert s. induction ops as [|o r IH]; intros s Hs Hc; cbn; [auto|].
  destruct (step s o) as [s1 x] eqn:E1. destruct (run s1 r) as [s2 xs] eqn:E2. cbn.
  pose proof (step_sorted s o Hs) as H1. pose proof (step_cfg_ok s o Hc) as H2.
  rewrite E1 in H1, H2. cbn in *. specialize (IH s1 H1 H2). rewrite E2 in IH. exact IH.
Qed.

(* Next on any reachable scheduler state returns only a pending file and starts it *)
Lemma next_reachable c ops now ch s' k :
  (fracNum c <= 0 \/ 0 < fracDen c) ->
  let s := fst (run (init c) ops) in
  next s now ch = (s', Some k) ->
  exists m, lookup k (files s) = Some m /\ mstarted m = false /\
            lookup k (files s') = Some (mark now m) /\
            (forall k', k' <> k -> lookup k' (files s') = lookup k' (files s)).
Proof.
  intros Hf s E.
  assert (Hs : sorted (files s)) by (apply run_inv; [apply sorted_nil|apply norm_cfg_ok; assumption]).
  destruct (next_some _ _ _ _ _ Hs E) as (m & Hl & Hst & ->).
  exists m. repeat split; auto; cbn.
  - rewrite lookup_put, Z.eqb_refl. reflexivity.
  - intros k' Hk. rewrite lookup_put. destruct (k' =? k) eqn:E2; [apply Z.eqb_eq in E2; congruence|reflexivity].
Qed.

(* ---------- the sender's usage pattern ---------- *)

Definition mkeys (fs : list (Z * Z)) : list Z := map fst fs.

Record UI (u : ust) : Prop := {
  ui_sorted : sorted (files (sched u));
  ui_cfg : cfg_ok (conf (sched u));
  ui_nodup_begun : NoDup (begun u);
  ui_nodup_active : NoDup (active u);
  ui_active_begun : incl (active u) (begun u);
  ui_begun_manifest : incl (begun u) (mkeys (sizes u));
  ui_table : forall k,
    match lookup k (files (sched u)) with
    | Some m => In k (mkeys (sizes u)) /\ (mstarted m = true -> In k (active u)) /\
                (mstarted m = false -> ~ In k (begun u))
    | None => In k (mkeys (sizes u)) -> In k (begun u) /\ ~ In k (active u)
    end;
  ui_active_started : forall k, In k (active u) ->
    exists m, lookup k (files (sched u)) = Some m /\ mstarted m = true
}.

Lemma add_all_spec fs : forall s, sorted (files s) -> cfg_ok (conf s) ->
  sorted (files (add_all s fs)) /\ cfg_ok (conf (add_all s fs)) /\
  forall k, match lookup k (files (add_all s fs)) with
            | Some m => (In k (mkeys fs) /\ mstarted m = false) \/ lookup k (files s) = Some m
            | None => ~ In k (mkeys fs) /\ lookup k (files s) = None
            end.
Proof.
  induction fs as [|[fk fsz] r IH]; intros s Hs Hc.
  - cbn. split; [exact Hs|split; [exact Hc|]]. intro k. destruct (lookup k (files s)); auto.
  - change (add_all s ((fk, fsz) :: r)) with (add_all (fst (step s (Add fk fsz fsz false None))) r).
    set (s1 := fst (step s (Add fk fsz fsz false None))).
    assert (Hs1 : sorted (files s1)) by (apply step_sorted; assumption).
    assert (Hc1 : cfg_ok (conf s1)) by (apply step_cfg_ok; assumption).
    destruct (IH s1 Hs1 Hc1) as (A & B & C).
    split; [exact A|split; [exact B|]]. intro k. specialize (C k).
    destruct (lookup k (files (add_all s1 r))) as [m|].
    + destruct C as [[Hin Hst]|Hl]; [left; split; [right; exact Hin|exact Hst]|].
      subst s1. cbn in Hl. rewrite lookup_put in Hl. destruct (k =? fk) eqn:E.
      * apply Z.eqb_eq in E; subst. inversion Hl; subst. left. split; [left; reflexivity|reflexivity].
      * right; exact Hl.
    + destruct C as [Hnin Hl]. subst s1. cbn in Hl. rewrite lookup_put in Hl.
      destruct (k =? fk) eqn:E; [discriminate|]. apply Z.eqb_neq in E.
      split; [|exact Hl]. intros [H|H]; [cbn in H; congruence|exact (Hnin H)].
Qed.

Lemma uinit_UI c n fs : (fracNum c <= 0 \/ 0 < fracDen c) -> UI (uinit c n fs).
Proof.
  intro Hf. unfold uinit.
  destruct (add_all_spec fs (init c) sorted_nil (norm_cfg_ok c Hf)) as (A & B & C).
  constructor; cbn.
  - exact A.
  - exact B.
  - constructor.
  - constructor.
  - intros x [].
  - intros x [].
  - intro k. specialize (C k). destruct (lookup k (files (add_all (init c) fs))) as [m|].
    + destruct C as [[Hin Hst]|Hl]; [|cbn in Hl; discriminate].
      repeat split; auto. rewrite Hst; discriminate.
    + destruct C as [Hnin _]. intro H; contradiction.
  - intros k [].
Qed.

Lemma in_filter_neq k x l : In x (filter (fun y => negb (y =? k)) l) <-> In x l /\ x <> k.
Proof.
  rewrite filter_In. split; intros [A B]; split; auto.
  - apply negb_true_iff in B. apply Z.eqb_neq in B. exact B.
  - apply negb_true_iff. apply Z.eqb_neq. exact B.
Qed.

Lemma existsb_eqb_In k l : existsb (Z.eqb k) l = true <-> In k l.
Proof.
  rewrite existsb_exists. split.
  - intros (x & Hin & E). apply Z.eqb_eq in E; subst; exact Hin.
  - intro H. exists k. split; [exact H|apply Z.eqb_refl].
Qed.

Lemma ustep_UI u e : UI u -> UI (ustep u e).
Proof.
  intros HU. pose proof HU as [Hs Hc Hnb Hna Hab Hbm Ht Has]. destruct e as [now ch|k]; unfold ustep.
  - destruct (length (active u) <? streams u)%nat; [|exact HU].
    destruct (next (sched u) now ch) as [s' [k|]] eqn:E; [|exact HU].
    destruct (next_some _ _ _ _ _ Hs E) as (m & Hl & Hst & ->).
    pose proof (Ht k) as Hk. rewrite Hl in Hk. destruct Hk as (Hkm & _ & Hknb). specialize (Hknb Hst).
    assert (Hkna : ~ In k (active u)) by (intro H; apply Hknb; apply Hab; exact H).
    set (sz := size_of k (sizes u)).
    assert (Hlk : forall k', lookup k' (put k (mkMeta sz (if sz <? 0 then sz else sz) true (Some now)
                    (class_for (conf (sched u)) (remaining_for (mkMeta sz (if sz <? 0 then sz else sz) true (Some now) Small))))
                    (put k (mark now m) (files (sched u)))) =
                  if k' =? k then Some (mkMeta sz (if sz <? 0 then sz else sz) true (Some now)
                    (class_for (conf (sched u)) (remaining_for (mkMeta sz (if sz <? 0 then sz else sz) true (Some now) Small))))
                  else lookup k' (files (sched u))).
    { intro k'. rewrite !lookup_put. destruct (k' =? k); reflexivity. }
    constructor; cbn.
    + apply sorted_put. apply sorted_put. exact Hs.
    + exact Hc.
    + constructor; assumption.
    + constructor; assumption.
    + intros x [->|Hx]; [left; reflexivity|right; apply Hab; exact Hx].
    + intros x [->|Hx]; [exact Hkm|apply Hbm; exact Hx].
    + intro k'. rewrite Hlk. destruct (k' =? k) eqn:E2.
      * apply Z.eqb_eq in E2; subst k'. cbn. split; [exact Hkm|split]; [intros _; left; reflexivity|discriminate].
      * apply Z.eqb_neq in E2. specialize (Ht k'). destruct (lookup k' (files (sched u))) as [m'|].
        { destruct Ht as (A & B & C). split; [exact A|split].
          - intro H. right. apply B; exact H.
          - intros H [H1|H1]; [congruence|exact (C H H1)]. }
        { intro H. destruct (Ht H) as [A B]. split; [right; exact A|]. intros [H1|H1]; [congruence|exact (B H1)]. }
    + intros k' [<-|Hk'].
      * eexists. rewrite Hlk, Z.eqb_refl. split; reflexivity.
      * destruct (Has k' Hk') as (m' & Hl' & Hst'). exists m'. rewrite Hlk.
        destruct (k' =? k) eqn:E2; [apply Z.eqb_eq in E2; subst; contradiction|]. split; assumption.
  - destruct (existsb (Z.eqb k) (active u)) eqn:E; [|exact HU].
    apply existsb_eqb_In in E.
    constructor; cbn.
    + apply sorted_del; exact Hs.
    + exact Hc.
    + exact Hnb.
    + apply NoDup_filter; exact Hna.
    + intros x Hx. apply in_filter_neq in Hx as [Hx _]. apply Hab; exact Hx.
    + exact Hbm.
    + intro k'. rewrite (lookup_del _ _ _ Hs). destruct (k' =? k) eqn:E2.
      * apply Z.eqb_eq in E2; subst k'. intros _. split; [apply Hab; exact E|].
        intro H. apply in_filter_neq in H as [_ H]. congruence.
      * apply Z.eqb_neq in E2. specialize (Ht k'). destruct (lookup k' (files (sched u))) as [m'|].
        { destruct Ht as (A & B & C). split; [exact A|split; [|exact C]]. intro H. apply in_filter_neq. split; auto. }
        { intro H. destruct (Ht H) as [A B]. split; [exact A|]. intro H1. apply in_filter_neq in H1 as [H1 _]. exact (B H1). }
    + intros k' Hk'. apply in_filter_neq in Hk' as [Hk' Hne].
      destruct (Has k' Hk') as (m' & Hl' & Hst'). exists m'. rewrite (lookup_del _ _ _ Hs).
      destruct (k' =? k) eqn:E2; [apply Z.eqb_eq in E2; congruence|]. split; assumption.
Qed.

Lemma urun_UI u evs : UI u -> UI (urun u evs).
Proof.
  revert u. induction evs as [|e r IH]; intros u H; [exact H|].
  change (urun u (e :: r)) with (urun (ustep u e) r). apply IH. apply ustep_UI. exact H.
Qed.

Lemma filter_length_le {A} (f : A -> bool) (l : list A) : (length (filter f l) <= length l)%nat.
Proof. induction l as [|a r IH]; cbn; [lia|]. destruct (f a); cbn; lia. Qed.

(* never more files active than parallel streams *)
Lemma ustep_bound u e : (length (active u) <= streams u)%nat ->
  (length (active (ustep u e)) <= streams (ustep u e))%nat /\ streams (ustep u e) = streams u.
Proof.
  intro H. destruct e as [now ch|k]; unfold ustep.
  - destruct (length (active u) <? streams u)%nat eqn:E; [|auto].
    apply Nat.ltb_lt in E. destruct (next (sched u) now ch) as [s' [k|]]; cbn; [split; [lia|reflexivity]|auto].
  - destruct (existsb (Z.eqb k) (active u)); cbn; [|auto]. split; [|reflexivity].
    pose proof (filter_length_le (fun x => negb (x =? k)) (active u)). lia.
Qed.

Lemma urun_bound u evs : (length (active u) <= streams u)%nat ->
  (length (active (urun u evs)) <= streams u)%nat.
Proof.
  revert u. induction evs as [|e r IH]; intros u H; [exact H|].
  change (urun u (e :: r)) with (urun (ustep u e) r).
  destruct (ustep_bound u e H) as [A B]. rewrite <- B. apply IH. exact A.
Qed.

Lemma ustep_sizes u e : sizes (ustep u e) = sizes u /\ streams (ustep u e) = streams u.
Proof.
  destruct e as [now ch|k]; unfold ustep.
  - destruct (length (active u) <? streams u)%nat; [|auto].
    destruct (next (sched u) now ch) as [s' [k|]]; cbn; auto.
  - destruct (existsb (Z.eqb k) (active u)); cbn; auto.
Qed.

Lemma urun_sizes u evs : sizes (urun u evs) = sizes u /\ streams (urun u evs) = streams u.
Proof.
  revert u. induction evs as [|e r IH]; intros u; [cbn; auto|].
  change (urun u (e :: r)) with (urun (ustep u e) r).
  destruct (IH (ustep u e)) as [A B]. destruct (ustep_sizes u e) as [C D]. rewrite A, B, C, D. auto.
Qed.

(* liveness: nothing active, something not yet begun, at least one stream ->
   activateNext begins a file, whatever the clock and the credit oracle say *)
Lemma ustep_live u now ch : UI u -> (0 < streams u)%nat -> active u = [] ->
  (exists k, In k (mkeys (sizes u)) /\ ~ In k (begun u)) ->
  exists k', begun (ustep u (UNext now ch)) = k' :: begun u /\ ~ In k' (begun u).
Proof.
  intros [Hs Hc Hnb Hna Hab Hbm Ht Has] Hst Hact (k & Hkm & Hknb). unfold ustep.
  rewrite Hact. change (length (@nil Z)) with 0%nat.
  destruct (0 <? streams u)%nat eqn:E; [|apply Nat.ltb_ge in E; lia].
  assert (Hp : pending (files (sched u)) <> []).
  { pose proof (Ht k) as Hk. destruct (lookup k (files (sched u))) as [m|] eqn:El.
    - destruct Hk as (_ & B & _). destruct (mstarted m) eqn:Em.
      + specialize (B eq_refl). rewrite Hact in B. destruct B.
      + apply lookup_in in El. intro Hnil.
        assert (In (k, m) (pending (files (sched u)))) by (apply filter_In; split; [exact El|cbn; rewrite Em; reflexivity]).
        rewrite Hnil in H. destruct H.
    - destruct (Hk Hkm) as [A _]. contradiction. }
  assert (Hnone : started (files (sched u)) = []).
  { destruct (started (files (sched u))) as [|[k0 m0] r] eqn:Es; [reflexivity|].
    assert (Hin : In (k0, m0) (started (files (sched u)))) by (rewrite Es; left; reflexivity).
    apply filter_In in Hin as [Hin Hm]. cbn in Hm.
    pose proof (Ht k0) as Hk0. rewrite (in_sorted_lookup _ _ _ Hs Hin) in Hk0.
    destruct Hk0 as (_ & B & _). specialize (B Hm). rewrite Hact in B. destruct B. }
  destruct (next_live (sched u) now ch Hc Hp Hnone) as (s' & k' & En). rewrite En. cbn.
  exists k'. split; [reflexivity|].
  destruct (next_some _ _ _ _ _ Hs En) as (m & Hl & Hm & _).
  pose proof (Ht k') as Hk'. rewrite Hl in Hk'. destruct Hk' as (_ & _ & C). exact (C Hm).
Qed.

(* a quiescent state (nothing active, activateNext does nothing) has begun every
   file of the manifest: exactly once each *)
Lemma quiescent_all_begun u : UI u -> NoDup (mkeys (sizes u)) -> (0 < streams u)%nat ->
  active u = [] -> (forall now ch, ustep u (UNext now ch) = u) ->
  Permutation (begun u) (mkeys (sizes u)).
Proof.
  intros HU Hnd Hst Hact Hq.
  apply NoDup_Permutation; [apply (ui_nodup_begun u HU)|exact Hnd|].
  intro k. split; [apply (ui_begun_manifest u HU)|].
  intro Hk. destruct (in_dec Z.eq_dec k (begun u)) as [H|H]; [exact H|exfalso].
  destruct (ustep_live u 0 0%nat HU Hst Hact (ex_intro _ k (conj Hk H))) as (k' & Hb & _).
  rewrite Hq in Hb. assert (length (begun u) = length (k' :: begun u)) by (rewrite <- Hb; reflexivity).
  cbn in H0. lia.
Qed.

(* termination measure of the usage pattern: every event that changes anything
   either begins a new file or finishes an active one *)
Definition umeasure (u : ust) : nat :=
  2 * (length (mkeys (sizes u)) - length (begun u)) + length (active u).

Lemma ustep_measure u e : UI u -> ustep u e = u \/ (umeasure (ustep u e) < umeasure u)%nat.
Proof.
  intro HU. pose proof (ustep_UI u e HU) as HU'.
  destruct e as [now ch|k]; unfold ustep in *.
  - destruct (length (active u) <? streams u)%nat; [|left; reflexivity].
    destruct (next (sched u) now ch) as [s' [k|]] eqn:E; [|left; reflexivity].
    right. unfold umeasure; cbn. cbn in HU'.
    pose proof (NoDup_incl_length (ui_nodup_begun _ HU') (ui_begun_manifest _ HU')) as Hlen.
    cbn in Hlen. unfold mkeys in *. cbn in *. lia.
  - destruct (existsb (Z.eqb k) (active u)) eqn:E; [|left; reflexivity].
    right. unfold umeasure; cbn. apply existsb_eqb_In in E.
    assert (length (filter (fun x => negb (Z.eqb x k)) (active u)) < length (active u))%nat.
    { clear -E. induction (active u) as [|a r IH]; [destruct E|]. cbn.
      destruct (a =? k) eqn:E2; cbn.
      - pose proof (filter_length_le (fun x => negb (Z.eqb x k)) r). lia.
      - destruct E as [->|E]; [rewrite Z.eqb_refl in E2; discriminate|]. specialize (IH E). lia. }
    unfold mkeys in *. cbn in *. lia.
Qed.

(* ---------- statements over all usage histories ---------- *)

Lemma usage_once c n fs evs : (fracNum c <= 0 \/ 0 < fracDen c) ->
  let u := urun (uinit c n fs) evs in
  NoDup (begun u) /\ incl (begun u) (mkeys fs) /\ incl (active u) (begun u) /\
  (length (active u) <= n)%nat.
Proof.
  intros Hf u. pose proof (urun_UI _ evs (uinit_UI c n fs Hf)) as HU. fold u in HU.
  destruct (urun_sizes (uinit c n fs) evs) as [Hsz Hstr]. fold u in Hsz, Hstr. cbn in Hsz, Hstr.
  repeat split.
  - apply (ui_nodup_begun _ HU).
  - rewrite <- Hsz. apply (ui_begun_manifest _ HU).
  - apply (ui_active_begun _ HU).
  - apply (urun_bound (uinit c n fs) evs). cbn. lia.
Qed.

Lemma usage_live c n fs evs now ch : (fracNum c <= 0 \/ 0 < fracDen c) -> (0 < n)%nat ->
  let u := urun (uinit c n fs) evs in
  active u = [] -> (exists k, In k (mkeys fs) /\ ~ In k (begun u)) ->
  exists k', begun (ustep u (UNext now ch)) = k' :: begun u /\ ~ In k' (begun u).
Proof.
  intros Hf Hn u Hact Hex. pose proof (urun_UI _ evs (uinit_UI c n fs Hf)) as HU. fold u in HU.
  destruct (urun_sizes (uinit c n fs) evs) as [Hsz Hstr]. fold u in Hsz, Hstr. cbn in Hsz, Hstr.
  apply ustep_live; auto; [rewrite Hstr; exact Hn|rewrite Hsz; exact Hex].
Qed.

Lemma usage_quiescent_complete c n fs evs : (fracNum c <= 0 \/ 0 < fracDen c) -> (0 < n)%nat ->
  NoDup (mkeys fs) ->
  let u := urun (uinit c n fs) evs in
  active u = [] -> (forall now ch, ustep u (UNext now ch) = u) ->
  Permutation (begun u) (mkeys fs).
Proof.
  intros Hf Hn Hnd u Hact Hq. pose proof (urun_UI _ evs (uinit_UI c n fs Hf)) as HU. fold u in HU.
  destruct (urun_sizes (uinit c n fs) evs) as [Hsz Hstr]. fold u in Hsz, Hstr. cbn in Hsz, Hstr.
  rewrite <- Hsz. apply quiescent_all_begun; auto; [rewrite Hsz; exact Hnd|rewrite Hstr; exact Hn].
Qed.

Lemma usage_measure c n fs evs e : (fracNum c <= 0 \/ 0 < fracDen c) ->
  let u := urun (uinit c n fs) evs in
  ustep u e = u \/ (umeasure (ustep u e) < umeasure u)%nat.
Proof.
  intros Hf u. apply ustep_measure. apply urun_UI. apply uinit_UI. exact Hf.
Qed.

Lemma refusal_reachable c ops now ch s' : (fracNum c <= 0 \/ 0 < fracDen c) ->
  let s := fst (run (init c) ops) in
  next s now ch = (s', None) ->
  s' = s /\ (pending (files s) <> [] -> 1 <= small_slots (conf s) <= active_small (files s)).
Proof.
  intros Hf s E. split; [eapply next_none_state; exact E|].
  intro Hp. eapply next_refusal_means_small_running; eauto.
  apply run_inv; [apply sorted_nil|apply norm_cfg_ok; assumption].
Qed.

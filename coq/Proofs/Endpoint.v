(* C15: proofs about Model/Endpoint.v - for every byte string on a stream the
   endpoint's stage machine ends in one of the named outcomes; it never panics
   (announced chunk sizes passed handleFileBegin's check: an invariant of the
   control machine), never runs out of fuel, and the only way not to return
   after the input has ended is the End-before-completion class. *)
From Coq Require Import ZArith List Bool Lia.
From TF Require Import Lib.GoInt Lib.Bytes Gen.Consts Gen.C15 Gen.Geometry Model.Path Model.Wire Model.WireDec Model.Endpoint.
Import ListNotations.
Open Scope Z_scope.

(* ---- every decoded record consumes at least its type byte ---- *)
Lemma rd_len n x v x' : rd n x = DOk v x' -> (length x' <= length x)%nat.
Proof.
  intros E. unfold rd in E. destruct (unbe n x) as [[v0 r0]|] eqn:U; [|discriminate].
  inversion E; subst. unfold unbe in U. apply unbe_acc_some in U. destruct U as (pre & -> & _).
  rewrite app_length. lia.
Qed.

Lemma rd_len_exact n x v x' : rd n x = DOk v x' -> (length x = n + length x')%nat.
Proof.
  intros E. unfold rd in E. destruct (unbe n x) as [[v0 r0]|] eqn:U; [|discriminate].
  inversion E; subst. unfold unbe in U. apply unbe_acc_some in U. destruct U as (pre & -> & L).
  rewrite app_length. lia.
Qed.

Lemma rdb_len n x v x' : rdb n x = DOk v x' -> (length x' <= length x)%nat.
Proof.
  intros E. unfold rdb, take in E. destruct (Z.to_nat n <=? length x)%nat; [|discriminate].
  inversion E; subst. rewrite skipn_length. lia.
Qed.

Lemma rdbz_len n x v x' : rdbz n x = DOk v x' -> (length x' <= length x)%nat.
Proof. unfold rdbz. destruct (len x <? n); [discriminate|apply rdb_len]. Qed.

Lemma rd_entries_len : forall fuel count x acc v x', rd_entries fuel count x acc = DOk v x' -> (length x' <= length x)%nat.
Proof.
  induction fuel as [|f IH]; intros count x acc v x' E; cbn [rd_entries] in E.
  - destruct (count <=? 0); [inversion E; subst; lia|discriminate].
  - destruct (count <=? 0); [inversion E; subst; lia|].
    destruct (rd 8 x) as [a x1| |] eqn:E1; cbn [dbind] in E; try discriminate.
    destruct (rd 4 x1) as [b x2| |] eqn:E2; cbn [dbind] in E; try discriminate.
    apply IH in E. apply rd_len in E1. apply rd_len in E2. lia.
Qed.

Lemma opt_rdb_len (c : bool) n x v x' : (if c then rdb n x else DOk [] x) = DOk v x' -> (length x' <= length x)%nat.
Proof. destruct c; [apply rdb_len|intros H; inversion H; subst; lia]. Qed.

Ltac dstep :=
  match goal with
  | |- (if ?c then _ else _) = _ -> _ => destruct c
  | |- dbind ?x _ = _ -> _ =>
    let E := fresh "E" in destruct x as [? ?| |] eqn:E; cbn [dbind]; try discriminate;
    first [apply rd_len in E | apply rdb_len in E | apply rd_entries_len in E | apply opt_rdb_len in E]
  | |- DOk _ _ = DOk _ _ -> _ => let H := fresh in intros H; inversion H; subst; lia
  | |- DBad = _ -> _ => discriminate
  | |- DShort = _ -> _ => discriminate
  end.

Lemma dec_ctl_progress l m rest : dec_ctl l = DOk m rest -> (length rest < length l)%nat.
Proof.
  destruct l as [|t r]; cbn [dec_ctl]; [discriminate|].
  cbn [length]. intros H. apply Nat.lt_succ_r. revert H. unfold dec_body.
  repeat dstep.
Qed.

(* ---- handlers never panic and keep the chunk-size invariant ---- *)
Lemma recvTotalChunks_no_panic size cs : cs <> 0 -> cs <= c_maxChunkSize -> recvTotalChunks size cs <> Panic.
Proof.
  intros N H. unfold c_maxChunkSize in H. unfold recvTotalChunks.
  destruct (0 <? cs) eqn:P.
  - apply Z.ltb_lt in P. rewrite (i64_id cs) by (unfold in_i64; lia).
    replace (cs =? 0) with false by (symmetry; apply Z.eqb_neq; lia).
    cbn [bind]. discriminate.
  - cbn [bind]. discriminate.
Qed.

Ltac hstep :=
  match goal with
  | |- context [if ?c then _ else _] => destruct c eqn:?
  | |- context [match find_item ?p ?i with _ => _ end] => destruct (find_item p i)
  end.

Lemma handle_ctl_no_panic resume items st m : handle_ctl resume items st m <> Panic.
Proof.
  destruct m; cbn [handle_ctl]; try discriminate.
  - repeat (hstep; try discriminate).
    match goal with H : (_ =? 0) || (_ <? _) = false |- _ =>
      apply orb_false_iff in H; destruct H as (A & B); apply Z.eqb_neq in A; apply Z.ltb_ge in B end.
    pose proof (recvTotalChunks_no_panic size cs A B) as NP.
    destruct (recvTotalChunks size cs); try discriminate. congruence.
  - destruct (find_state sid st); [destruct (_ =? _)|destruct (is_finished sid st)]; discriminate.
  - destruct (find_state sid st); [destruct (_ && _)|destruct (is_finished sid st)]; discriminate.
Qed.

Definition cs_ok (f : fstate) : Prop := fs_cs f <> 0 /\ fs_cs f <= c_maxChunkSize.

Lemma drop_state_wf k l : Forall cs_ok l -> Forall cs_ok (drop_state k l).
Proof.
  intros H. unfold drop_state. rewrite Forall_forall in *. intros f Hin. apply filter_In in Hin. apply H, Hin.
Qed.

Lemma finalize_wf f ok st : wf_state st -> wf_state (finalize f ok st).
Proof. unfold wf_state, finalize; cbn. apply drop_state_wf. Qed.

Lemma put_state_wf f st : cs_ok f -> wf_state st -> wf_state (put_state f st).
Proof. unfold wf_state, put_state; cbn. intros A B. constructor; [exact A|apply drop_state_wf, B]. Qed.

Lemma handle_ctl_wf resume items st m st' : wf_state st -> handle_ctl resume items st m = Ret st' -> wf_state st'.
Proof.
  intros W. destruct m; cbn [handle_ctl]; try discriminate.
  - repeat (hstep; try discriminate).
    match goal with H : (_ =? 0) || (_ <? _) = false |- _ =>
      apply orb_false_iff in H; destruct H as (A & B); apply Z.eqb_neq in A; apply Z.ltb_ge in B end.
    destruct (recvTotalChunks size cs); try discriminate.
    intros H; inversion H; subst. apply put_state_wf; [|exact W]. split; cbn; assumption.
  - destruct (find_state sid st) as [f|]; [destruct (_ =? _)|destruct (is_finished sid st)]; try discriminate;
      intros H; inversion H; subst; try exact W. apply finalize_wf, W.
  - destruct (find_state sid st); [destruct (_ && _)|destruct (is_finished sid st)]; try discriminate;
      intros H; inversion H; subst; exact W.
  - intros H; inversion H; subst; exact W.
Qed.

Lemma run_pending_wf resume items : forall ms st st', wf_state st -> run_pending resume items st ms = Ret st' -> wf_state st'.
Proof.
  induction ms as [|m ms IH]; intros st st' W; cbn [run_pending].
  - intros H; inversion H; subst; exact W.
  - destruct (handle_ctl resume items st m) eqn:E; cbn [bind]; try discriminate.
    apply IH. eapply handle_ctl_wf; eauto.
Qed.

Lemma run_pending_no_panic resume items : forall ms st, run_pending resume items st ms <> Panic.
Proof.
  induction ms as [|m ms IH]; intros st; cbn [run_pending]; [discriminate|].
  pose proof (handle_ctl_no_panic resume items st m).
  destruct (handle_ctl resume items st m); cbn [bind]; [apply IH|discriminate|congruence].
Qed.

(* the outcomes that are allowed for any input *)
Definition returns_or_end_hang (o : rout) : Prop := o = ROk \/ o = RErr \/ o = REofDone \/ o = RHangEnd.

Lemma recv_ctl_main_spec resume items : forall fuel st l, (length l < fuel)%nat -> wf_state st ->
  returns_or_end_hang (fst (recv_ctl_main fuel resume items st l)) /\ wf_state (snd (recv_ctl_main fuel resume items st l)).
Proof.
  unfold returns_or_end_hang.
  induction fuel as [|f IH]; intros st l L W; [lia|].
  destruct l as [|b l'].
  - cbn. destruct (_ <=? _); cbn; auto.
  - cbn [recv_ctl_main]. remember (b :: l') as l0 eqn:El0.
    destruct (dec_ctl l0) as [m rest| |] eqn:E.
    + pose proof (dec_ctl_progress _ _ _ E) as P.
      assert (Hgen : forall m0, m0 = m ->
        returns_or_end_hang (fst match handle_ctl resume items st m0 with
          | Ret st' => recv_ctl_main f resume items st' rest
          | Err => (if (Z.of_nat (length items) <=? completed st) && clean_tail rest then REofDone else RErr, st)
          | Panic => (RPanic, st) end) /\
        wf_state (snd match handle_ctl resume items st m0 with
          | Ret st' => recv_ctl_main f resume items st' rest
          | Err => (if (Z.of_nat (length items) <=? completed st) && clean_tail rest then REofDone else RErr, st)
          | Panic => (RPanic, st) end)).
      { intros m0 ->. pose proof (handle_ctl_no_panic resume items st m) as NP.
        destruct (handle_ctl resume items st m) as [st'| |] eqn:H;
          [|destruct (_ && _); cbn; unfold returns_or_end_hang; auto|congruence].
        apply IH; [cbn [length] in L; lia|eapply handle_ctl_wf; eauto]. }
      unfold returns_or_end_hang in Hgen.
      destruct m; try (apply Hgen; reflexivity).
      destruct (_ <=? _); cbn; auto.
    + destruct (_ <=? _); cbn; auto.
    + cbn; auto.
Qed.

Lemma wf_st0 : wf_state st0.
Proof. constructor. Qed.

Lemma recv_ctl_pre_spec resume items : forall fuel pending l, (length l < fuel)%nat ->
  returns_or_end_hang (fst (recv_ctl_pre fuel resume items pending l)) /\ wf_state (snd (recv_ctl_pre fuel resume items pending l)).
Proof.
  unfold returns_or_end_hang.
  induction fuel as [|f IH]; intros pending l L; [lia|].
  cbn [recv_ctl_pre].
  destruct (dec_ctl l) as [m rest| |] eqn:E; [|cbn; auto using wf_st0|cbn; auto using wf_st0].
  pose proof (dec_ctl_progress _ _ _ E) as P.
  destruct m; try (apply IH; lia); [|cbn; auto using wf_st0].
  destruct (count =? 0); [apply IH; lia|].
  pose proof (run_pending_no_panic resume items (rev pending) st0) as NP.
  destruct (run_pending resume items st0 (rev pending)) as [st| |] eqn:R; [|cbn; auto using wf_st0|congruence].
  apply recv_ctl_main_spec; [lia|eapply run_pending_wf; [apply wf_st0|exact R]].
Qed.

Theorem recv_ctl_run_spec resume items l :
  returns_or_end_hang (fst (recv_ctl_run resume items l)) /\ wf_state (snd (recv_ctl_run resume items l)).
Proof. unfold recv_ctl_run. apply recv_ctl_pre_spec. lia. Qed.

Theorem recv_ctl_never_panics resume items l :
  fst (recv_ctl_run resume items l) <> RPanic /\ fst (recv_ctl_run resume items l) <> RFuel.
Proof.
  destruct (recv_ctl_run_spec resume items l) as ([H|[H|[H|H]]] & _); rewrite H; split; discriminate.
Qed.

(* a stream without an End record before completion makes the receiver return *)
Theorem recv_ctl_ended_input_returns resume items l :
  fst (recv_ctl_run resume items l) <> RHangEnd ->
  fst (recv_ctl_run resume items l) = ROk \/ fst (recv_ctl_run resume items l) = RErr \/ fst (recv_ctl_run resume items l) = REofDone.
Proof.
  intros N. destruct (recv_ctl_run_spec resume items l) as ([H|[H|[H|H]]] & _); auto. congruence.
Qed.

(* ---- data streams ---- *)
Lemma find_state_in k st f : find_state k st = Some f -> In f (active st).
Proof. unfold find_state. intros H. apply find_some in H. apply H. Qed.

Lemma mark_chunk_cs f idx : fs_cs (mark_chunk f idx) = fs_cs f /\ fs_key (mark_chunk f idx) = fs_key f.
Proof. unfold mark_chunk. destruct (fs_sidecar f); [destruct (existsb _ _)|]; cbn; auto. Qed.

Definition bufs_ok (bufs : list Z) : Prop := Forall (fun b => b <= c_maxChunkSize) bufs.

Lemma dec_frame_header_len l k rest : dec_frame_header l = DOk k rest -> (length rest < length l)%nat.
Proof.
  unfold dec_frame_header. intros H.
  destruct (rd 8 l) as [a l1| |] eqn:E1; cbn [dbind] in H; try discriminate.
  destruct (rd 4 l1) as [b l2| |] eqn:E2; cbn [dbind] in H; try discriminate.
  destruct (rd 4 l2) as [c l3| |] eqn:E3; cbn [dbind] in H; try discriminate.
  destruct (rd 4 l3) as [d l4| |] eqn:E4; cbn [dbind] in H; try discriminate.
  inversion H; subst.
  apply rd_len_exact in E1. apply rd_len_exact in E2. apply rd_len_exact in E3. apply rd_len_exact in E4. lia.
Qed.

Lemma data_loop_spec crc : forall fuel st l bufs, (length l < fuel)%nat -> wf_state st -> bufs_ok bufs ->
  let r := data_loop crc fuel st l bufs in
  fst (fst r) <> DPanicked /\ fst (fst r) <> DFuel /\ wf_state (snd (fst r)) /\ bufs_ok (snd r).
Proof.
  induction fuel as [|fu IH]; intros st l bufs L W B; [lia|].
  cbn [data_loop].
  destruct (dec_frame_header l) as [[[[key idx] clen] want] rest| |] eqn:E;
    [|cbn; repeat split; try discriminate; assumption|cbn; repeat split; try discriminate; assumption].
  apply dec_frame_header_len in E.
  destruct (clen =? 0); [cbn; repeat split; try discriminate; assumption|].
  destruct (find_state key st) as [f|] eqn:F.
  - pose proof (find_state_in _ _ _ F) as Hin.
    assert (C : cs_ok f) by (unfold wf_state in W; rewrite Forall_forall in W; apply W, Hin).
    destruct C as (C1 & C2).
    destruct (_ && _); [cbn; repeat split; try discriminate; [apply finalize_wf, W|assumption]|].
    destruct (_ && _); [cbn; repeat split; try discriminate; [apply finalize_wf, W|assumption]|].
    replace (fs_cs f =? 0) with false by (symmetry; apply Z.eqb_neq; exact C1).
    assert (B' : bufs_ok (bufs ++ [fs_cs f])).
    { unfold bufs_ok. apply Forall_app. split; [exact B|constructor; [exact C2|constructor]]. }
    destruct (rdbz clen rest) as [data rest'| |] eqn:R;
      [|cbn; repeat split; try discriminate; [apply finalize_wf, W|assumption]
       |cbn; repeat split; try discriminate; [apply finalize_wf, W|assumption]].
    apply rdbz_len in R.
    destruct (negb _); [cbn; repeat split; try discriminate; [apply finalize_wf, W|assumption]|].
    apply IH; [lia| |exact B'].
    destruct (mark_chunk_cs f idx) as (M1 & M2).
    destruct (_ =? 0); [apply finalize_wf, W|apply put_state_wf; [split; rewrite M1; assumption|exact W]].
  - destruct (is_finished key st); [|cbn; repeat split; try discriminate; assumption].
    destruct (rdbz clen rest) as [data rest'| |] eqn:R;
      [|cbn; repeat split; try discriminate; assumption|cbn; repeat split; try discriminate; assumption].
    apply rdbz_len in R. apply IH; [lia|exact W|exact B].
Qed.

Theorem data_run_spec crc st l : wf_state st ->
  let r := data_run crc st l in
  fst (fst r) <> DPanicked /\ fst (fst r) <> DFuel /\ wf_state (snd (fst r)) /\ Forall (fun b => b <= c_maxChunkSize) (snd r).
Proof. intros W. unfold data_run. apply data_loop_spec; [lia|exact W|constructor]. Qed.

(* ---- the sender's acknowledgement reader: the end of the stream is an error ---- *)
Theorem ack_run_errors : forall fuel l, (length l < fuel)%nat -> fst (ack_run fuel l) = AErr.
Proof.
  induction fuel as [|f IH]; intros l L; [lia|].
  cbn [ack_run].
  destruct (dec_ctl l) as [m rest| |] eqn:E; [|reflexivity|reflexivity].
  apply dec_ctl_progress in E.
  destruct m; try reflexivity; cbn [fst]; apply IH; lia.
Qed.

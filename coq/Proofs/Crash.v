(* C05: at every instant (= after every prefix of every event list, whatever the
   interleaving of readers, flusher and kills) the sidecar on disk marks only
   chunks that are in the data file; it is always a complete serialisation; the
   invariant carries over restarts, hence along chains of interrupted runs. *)
From Coq Require Import List Arith Bool Lia.
Import ListNotations.
From TF Require Import Model.Crash.

Lemma nth_set_nth_same i l : i < length l -> nth i (set_nth i l) false = true.
Proof.
  revert i. induction l as [|x l IH]; intros i H; [cbn in H; lia|].
  destruct i; cbn; [reflexivity|]. apply IH. cbn in H. lia.
Qed.

Lemma nth_set_nth_mono i j l : nth j l false = true -> nth j (set_nth i l) false = true.
Proof.
  revert i j. induction l as [|x l IH]; intros i j H; [destruct j; cbn in H; discriminate|].
  destruct i; destruct j; cbn in *; auto.
Qed.

Lemma nth_repeat_false n i : nth i (repeat false n) false = false.
Proof. revert i. induction n; intros [|i]; cbn; auto. Qed.

Definition sub (a b : list bool) : Prop := forall i, nth i a false = true -> nth i b false = true.

(* per-file invariant: everything any bitmap (memory, flush in progress, tmp, disk) claims is written *)
Record FI (x : fstate) : Prop := {
  fi_mem : sub (mem x) (written x);
  fi_fl : forall bm, flushing x = Some bm -> sub bm (written x);
  fi_tmp : forall bm, tmp x = TFull bm -> sub bm (written x);
  fi_disk : forall bm, disk x = Some bm -> sub bm (written x)
}.

Lemma fi_fresh n : FI (fresh n).
Proof.
  constructor; cbn; try discriminate.
  intros i H. rewrite nth_repeat_false in H. discriminate.
Qed.

Lemma sub_written i a w : sub a w -> sub a (set_nth i w).
Proof. intros H j Hj. apply nth_set_nth_mono. apply H. exact Hj. Qed.

Lemma nth_set_nth_other i j l : i <> j -> nth j (set_nth i l) false = nth j l false.
Proof.
  revert i j. induction l as [|x l IH]; intros i j N; [destruct i; reflexivity|].
  destruct i; destruct j; cbn; try reflexivity; try (exfalso; apply N; reflexivity).
  apply IH. intros E. apply N. f_equal. exact E.
Qed.

Lemma sub_mark i a w : sub a w -> nth i w false = true -> sub (set_nth i a) w.
Proof.
  intros H Hi j Hj.
  destruct (Nat.eq_dec i j) as [->|N]; [exact Hi|].
  apply H. rewrite nth_set_nth_other in Hj by exact N. exact Hj.
Qed.

Lemma In_firstn_In {A} n (l : list A) x : In x (firstn n l) -> In x l.
Proof. revert l. induction n; intros [|y l]; cbn; try tauto. intros [H|H]; [left; exact H|right; apply IHn; exact H]. Qed.

Lemma In_skipn_In {A} n (l : list A) x : In x (skipn n l) -> In x l.
Proof. revert l. induction n; intros [|y l]; cbn; try tauto. intros H. right. apply IHn. exact H. Qed.

Definition AllFI (s : list fstate) : Prop := Forall FI s.

Lemma upd_forall f g s s' : AllFI s -> upd f g s = Some s' ->
  (forall x y, FI x -> g x = Some y -> FI y) -> AllFI s'.
Proof.
  intros A U P. unfold upd in U.
  destruct (nth_error s f) as [x|] eqn:E; [|discriminate].
  destruct (g x) as [y|] eqn:G; [|discriminate]. injection U as <-.
  unfold AllFI in *. rewrite Forall_forall in *. intros z Hz.
  apply in_app_or in Hz. destruct Hz as [Hz|[<-|Hz]].
  - apply A. eapply (In_firstn_In); exact Hz.
  - apply (P x y); [apply A; eapply nth_error_In; exact E|exact G].
  - apply A. apply (In_skipn_In (S f)). exact Hz.
Qed.

Lemma step_fi s e s' : AllFI s -> step s e = Some s' -> AllFI s'.
Proof.
  intros A S. destruct e; cbn [step] in S; eapply upd_forall; try exact S; try exact A;
    intros x y I G; cbv beta in G.
  - (* Write *) injection G as <-. destruct I. constructor; cbn; intros; apply sub_written; eauto.
  - (* Mark *)
    destruct (flushing x) eqn:F; [discriminate|].
    destruct (nth i (written x) false) eqn:W; [|discriminate]. injection G as <-.
    destruct I. constructor; cbn; try assumption; try discriminate.
    apply sub_mark; assumption.
  - (* FlushBegin *)
    destruct (flushing x) eqn:F; [discriminate|]. injection G as <-.
    destruct I. constructor; cbn; try assumption. intros bm E. injection E as <-. assumption.
  - (* FlushTmpTorn *)
    destruct (flushing x) eqn:F; [|discriminate]. injection G as <-.
    destruct I. constructor; cbn; try assumption; try discriminate.
    intros bm' E'. injection E' as <-. eauto.
  - (* FlushTmp *)
    destruct (flushing x) as [bm|] eqn:F; [|discriminate]. injection G as <-.
    destruct I. constructor; cbn; try assumption; intros bm' E; injection E as <-; eauto.
  - (* FlushRename *)
    destruct (flushing x) as [b0|] eqn:F; [|discriminate].
    destruct (tmp x) as [| |bm] eqn:T; try discriminate. injection G as <-.
    destruct I. constructor; cbn; try assumption; try discriminate.
    intros bm' E. injection E as <-. auto.
  - (* Restart *)
    injection G as <-. destruct I. constructor; cbn; try assumption; try discriminate.
    + destruct (disk x) as [bm|] eqn:D.
      * destruct loads; [auto|]. intros i H. rewrite nth_repeat_false in H. discriminate.
      * intros i H. rewrite nth_repeat_false in H. discriminate.
    + destruct loads; [assumption|discriminate].
Qed.

Theorem run_fi evs : forall s s', AllFI s -> run s evs = Some s' -> AllFI s'.
Proof.
  induction evs as [|e r IH]; intros s s' A R; cbn [run] in R; [injection R as <-; exact A|].
  destruct (step s e) as [s1|] eqn:S; [|discriminate].
  eapply IH; [eapply step_fi; eassumption|exact R].
Qed.

(* every prefix of a history is a history: "at every instant" *)
Lemma run_app a b s s' : run s (a ++ b) = Some s' -> exists s1, run s a = Some s1 /\ run s1 b = Some s'.
Proof.
  revert s. induction a as [|e a IH]; intros s R; cbn [app run] in *; [eauto|].
  destruct (step s e) as [s1|]; [|discriminate]. apply IH. exact R.
Qed.

Theorem honest_at_every_instant ns evs_before evs_after s' :
  run (map fresh ns) (evs_before ++ evs_after) = Some s' ->
  exists s1, run (map fresh ns) evs_before = Some s1 /\ Forall honest s1.
Proof.
  intros R. apply run_app in R. destruct R as (s1 & R1 & _). exists s1. split; [exact R1|].
  assert (A : AllFI (map fresh ns)).
  { unfold AllFI. rewrite Forall_forall. intros x Hx. apply in_map_iff in Hx. destruct Hx as (n & <- & _). apply fi_fresh. }
  pose proof (run_fi _ _ _ A R1) as A1. unfold AllFI in A1. rewrite Forall_forall in *.
  intros x Hx bm i D Hi. destruct (A1 x Hx). eapply fi_disk0; eauto.
Qed.

Lemma splice_nth {A} (y : A) : forall f s x, nth_error s f = Some x ->
  nth_error (firstn f s ++ y :: skipn (S f) s) f = Some y /\
  forall f', f' <> f -> nth_error (firstn f s ++ y :: skipn (S f) s) f' = nth_error s f'.
Proof.
  induction f as [|f IH]; intros [|z s] x E; cbn in E; try discriminate.
  - cbn. split; [reflexivity|]. intros [|f'] N; [congruence|reflexivity].
  - destruct (IH s x E) as (A1 & A2). cbn [firstn skipn app]. split; [exact A1|].
    intros [|f'] N; [reflexivity|]. cbn. apply A2. congruence.
Qed.

Lemma upd_spec f g s s' : upd f g s = Some s' ->
  exists x y, nth_error s f = Some x /\ g x = Some y /\ nth_error s' f = Some y /\
              forall f', f' <> f -> nth_error s' f' = nth_error s f'.
Proof.
  unfold upd. destruct (nth_error s f) as [x|] eqn:E; [|discriminate].
  destruct (g x) as [y|] eqn:G; [|discriminate]. intros H; injection H as <-.
  destruct (splice_nth y f s x E) as (A1 & A2). exists x, y. auto.
Qed.

(* the sidecar on disk only changes by a completed rename of a completely
   written tmp file (or is dropped at a restart whose identity check fails): a
   torn tmp file can never become the sidecar *)
Theorem disk_changes_only_by_rename s e s' f x x' :
  step s e = Some s' -> nth_error s f = Some x -> nth_error s' f = Some x' -> disk x' <> disk x ->
  (exists bm, e = FlushRename f /\ tmp x = TFull bm /\ disk x' = Some bm) \/ (exists l, e = Restart f l).
Proof.
  intros S E E' N.
  assert (Same : forall g f0, upd f0 g s = Some s' -> (forall z y, g z = Some y -> disk y = disk z) -> False).
  { intros g f0 Hu Hg. apply upd_spec in Hu. destruct Hu as (z & y & Ez & G & Ey & Oth).
    destruct (Nat.eq_dec f f0) as [->|Nf].
    - rewrite E in Ez. injection Ez as <-. rewrite E' in Ey. injection Ey as <-. apply N. eapply Hg; eauto.
    - rewrite (Oth f Nf), E in E'. injection E' as <-. apply N. reflexivity. }
  destruct e; cbn [step] in S.
  - exfalso. eapply Same; [exact S|]. intros z y G. cbv beta in G. injection G as <-. reflexivity.
  - exfalso. eapply Same; [exact S|]. intros z y G. cbv beta in G. destruct (flushing z); [discriminate|].
    destruct (nth i (written z) false); [|discriminate]. injection G as <-. reflexivity.
  - exfalso. eapply Same; [exact S|]. intros z y G. cbv beta in G. destruct (flushing z); [discriminate|]. injection G as <-. reflexivity.
  - exfalso. eapply Same; [exact S|]. intros z y G. cbv beta in G. destruct (flushing z); [|discriminate]. injection G as <-. reflexivity.
  - exfalso. eapply Same; [exact S|]. intros z y G. cbv beta in G. destruct (flushing z); [|discriminate]. injection G as <-. reflexivity.
  - apply upd_spec in S. destruct S as (z & y & Ez & G & Ey & Oth).
    destruct (Nat.eq_dec f f0) as [->|Nf].
    + left. rewrite E in Ez. injection Ez as <-. rewrite E' in Ey. injection Ey as <-.
      destruct (flushing x); [|discriminate]. destruct (tmp x) as [| |bm] eqn:T; try discriminate.
      injection G as <-. exists bm. auto.
    + exfalso. rewrite (Oth f Nf), E in E'. injection E' as <-. apply N. reflexivity.
  - apply upd_spec in S. destruct S as (z & y & Ez & G & Ey & Oth).
    destruct (Nat.eq_dec f f0) as [->|Nf]; [right; eauto|].
    exfalso. rewrite (Oth f Nf), E in E'. injection E' as <-. apply N. reflexivity.
Qed.

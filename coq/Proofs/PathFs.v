(* C07: proofs about the lexical path model (Model/Path.v, Model/PathFs.v). *)
From Coq Require Import ZArith List Bool Lia.
From TF Require Import Lib.GoInt Gen.Consts Model.Path Model.PathFs.
Import ListNotations.
Open Scope Z_scope.

(* ---------- byte strings ---------- *)

Lemma beqb_eq a : forall b, beqb a b = true <-> a = b.
Proof.
  induction a as [|x a IH]; intros [|y b]; cbn [beqb]; split; intros H; try reflexivity; try discriminate.
  - apply andb_prop in H. destruct H as (H1 & H2). apply Z.eqb_eq in H1. apply IH in H2. subst. reflexivity.
  - inversion H; subst. rewrite Z.eqb_refl. cbn. apply IH. reflexivity.
Qed.

Lemma beqb_refl a : beqb a a = true.
Proof. apply beqb_eq. reflexivity. Qed.

Lemma is_dotdot_eq s : is_dotdot s = true <-> s = [DOT; DOT].
Proof. unfold is_dotdot. apply beqb_eq. Qed.
Lemma is_dot_eq s : is_dot s = true <-> s = [DOT].
Proof. unfold is_dot. apply beqb_eq. Qed.
Lemma is_empty_eq s : is_empty s = true <-> s = [].
Proof. destruct s; cbn; split; intros H; try reflexivity; discriminate. Qed.

Lemma is_dotdot_len s : (2 < length s)%nat -> is_dotdot s = false.
Proof.
  intros L. destruct (is_dotdot s) eqn:E; [|reflexivity]. apply is_dotdot_eq in E. subst. cbn in L. lia.
Qed.
Lemma is_dot_len s : (2 < length s)%nat -> is_dot s = false.
Proof.
  intros L. destruct (is_dot s) eqn:E; [|reflexivity]. apply is_dot_eq in E. subst. cbn in L. lia.
Qed.

Lemma has_slash_app a b : has_slash (a ++ b) = has_slash a || has_slash b.
Proof. unfold has_slash. apply existsb_app. Qed.

(* ---------- split ---------- *)

Lemma split_nonnil l : split l <> [].
Proof.
  induction l as [|c t IH]; cbn [split]; [discriminate|].
  destruct (c =? SLASH); [discriminate|]. destruct (split t); discriminate.
Qed.

Lemma split_app a : forall b, split (a ++ SLASH :: b) = split a ++ split b.
Proof.
  induction a as [|c a IH]; intros b.
  - cbn [app split]. rewrite Z.eqb_refl. reflexivity.
  - cbn [app split]. destruct (c =? SLASH).
    + rewrite IH. reflexivity.
    + rewrite IH. destruct (split a) as [|s r] eqn:E; [exfalso; eapply split_nonnil; eassumption|].
      reflexivity.
Qed.

Lemma split_noslash s : has_slash s = false -> split s = [s].
Proof.
  induction s as [|c s IH]; intros H; [reflexivity|].
  cbn in H. apply orb_false_elim in H. destruct H as (H1 & H2).
  cbn [split]. rewrite H1. rewrite (IH H2). reflexivity.
Qed.

Lemma split_segs_noslash l : Forall (fun s => has_slash s = false) (split l).
Proof.
  induction l as [|c t IH]; cbn [split]; [repeat constructor|].
  destruct (c =? SLASH) eqn:E.
  - constructor; [reflexivity|exact IH].
  - destruct (split t) as [|s r]; [repeat constructor; cbn; rewrite E; reflexivity|].
    inversion IH; subst. constructor; [|assumption]. cbn. rewrite E. cbn. assumption.
Qed.

Lemma intercalate_cons a l : l <> [] -> intercalate (a :: l) = a ++ SLASH :: intercalate l.
Proof. intros N. destruct l; [congruence|reflexivity]. Qed.

Lemma intercalate_snoc A : forall s, A <> [] -> intercalate (A ++ [s]) = intercalate A ++ SLASH :: s.
Proof.
  induction A as [|a A IH]; intros s N; [congruence|].
  destruct A as [|a' A'].
  - reflexivity.
  - cbn [app]. rewrite intercalate_cons by discriminate.
    rewrite (intercalate_cons a (a' :: A')) by discriminate.
    change (a' :: A' ++ [s]) with ((a' :: A') ++ [s]). rewrite IH by discriminate.
    rewrite <- app_assoc. reflexivity.
Qed.

Lemma split_intercalate segs : segs <> [] -> Forall (fun s => has_slash s = false) segs ->
  split (intercalate segs) = segs.
Proof.
  induction segs as [|s t IH]; intros N F; [congruence|].
  inversion F; subst. destruct t as [|s' t'].
  - cbn. apply split_noslash. assumption.
  - change (intercalate (s :: s' :: t')) with (s ++ SLASH :: intercalate (s' :: t')).
    rewrite split_app. rewrite split_noslash by assumption. rewrite IH by (assumption || discriminate).
    reflexivity.
Qed.

(* ---------- normal form of cleaned paths ---------- *)

Definition normalb (s : seg) : bool :=
  negb (is_empty s) && negb (is_dot s) && negb (is_dotdot s) && negb (has_slash s).

Fixpoint wfb (r : bool) (stk : list seg) : bool :=
  match stk with
  | [] => true
  | s :: rest => (normalb s && wfb r rest) || (negb r && is_dotdot s && forallb is_dotdot rest)
  end.

Lemma normalb_not_dotdot s : normalb s = true -> is_dotdot s = false.
Proof.
  unfold normalb. intros H. repeat (apply andb_prop in H; destruct H as (H & ?)).
  destruct (is_dotdot s); [discriminate|reflexivity].
Qed.

Lemma dotdot_not_normal s : is_dotdot s = true -> normalb s = false.
Proof. intros H. unfold normalb. rewrite H. cbn. rewrite andb_false_r. reflexivity. Qed.

Lemma wfb_alldd r stk : r = false -> forallb is_dotdot stk = true -> wfb r stk = true.
Proof.
  intros -> H. induction stk as [|s t IH]; [reflexivity|].
  cbn in H. apply andb_prop in H. destruct H as (H1 & H2). cbn [wfb]. rewrite H1, H2. cbn. apply orb_true_r.
Qed.

Lemma wfb_tail r s rest : wfb r (s :: rest) = true -> wfb r rest = true.
Proof.
  cbn [wfb]. intros H. apply orb_prop in H. destruct H as [H|H].
  - apply andb_prop in H. tauto.
  - apply andb_prop in H. destruct H as (H & H2). apply andb_prop in H. destruct H as (H0 & H1).
    apply wfb_alldd; [destruct r; [discriminate|reflexivity]|assumption].
Qed.

Lemma step_wfb r stk s : has_slash s = false -> wfb r stk = true -> wfb r (step r stk s) = true.
Proof.
  intros NS W. unfold step.
  destruct (is_empty s || is_dot s) eqn:E1; [exact W|].
  apply orb_false_elim in E1. destruct E1 as (E1 & E2).
  destruct (is_dotdot s) eqn:E3.
  - destruct stk as [|top rest].
    + destruct r; [reflexivity|]. cbn [wfb]. rewrite E3. cbn. apply orb_true_r.
    + destruct r.
      * eapply wfb_tail; eassumption.
      * destruct (is_dotdot top) eqn:E4.
        -- cbn [wfb]. rewrite E3. cbn [negb andb].
           assert (forallb is_dotdot (top :: rest) = true) as ->; [|apply orb_true_r].
           cbn [forallb]. rewrite E4. cbn [andb].
           cbn [wfb] in W. rewrite (dotdot_not_normal _ E4) in W. cbn in W. rewrite E4 in W. exact W.
        -- eapply wfb_tail; eassumption.
  - cbn [wfb]. unfold normalb. rewrite E1, E2, E3, NS. cbn. rewrite W. reflexivity.
Qed.

Lemma fold_step_wfb r L : forall stk, Forall (fun s => has_slash s = false) L -> wfb r stk = true ->
  wfb r (fold_left (step r) L stk) = true.
Proof.
  induction L as [|s L IH]; intros stk F W; [exact W|].
  inversion F; subst. cbn [fold_left]. apply IH; [assumption|]. apply step_wfb; assumption.
Qed.

Lemma clean_from_wfb r stk p : wfb r stk = true -> wfb r (clean_from r stk p) = true.
Proof. intros W. unfold clean_from. apply fold_step_wfb; [apply split_segs_noslash|exact W]. Qed.

Lemma clean_wf p : wfb (rooted (clean p)) (rsegs (clean p)) = true.
Proof. cbn. apply clean_from_wfb. reflexivity. Qed.

(* a ".." inside a well-formed stack: relative path, and only ".." below it *)
Lemma wfb_dotdot_below r A : forall s B, wfb r (A ++ s :: B) = true -> is_dotdot s = true ->
  r = false /\ forallb is_dotdot B = true.
Proof.
  induction A as [|a A IH]; intros s B W D.
  - cbn [app wfb] in W. rewrite (dotdot_not_normal _ D) in W. cbn in W.
    apply andb_prop in W. destruct W as (W1 & W2). apply andb_prop in W1. destruct W1 as (W0 & _).
    split; [destruct r; [discriminate|reflexivity]|exact W2].
  - cbn [app wfb] in W. apply orb_prop in W. destruct W as [W|W].
    + apply andb_prop in W. destruct W as (_ & W). eapply IH; eassumption.
    + apply andb_prop in W. destruct W as (W & W2). apply andb_prop in W. destruct W as (W0 & _).
      rewrite forallb_app in W2. apply andb_prop in W2. destruct W2 as (_ & W2). cbn in W2.
      apply andb_prop in W2. split; [destruct r; [discriminate|reflexivity]|tauto].
Qed.

Lemma wfb_app_r r A : forall B, wfb r (A ++ B) = true -> wfb r B = true.
Proof.
  induction A as [|a A IH]; intros B W; [exact W|]. apply IH. eapply wfb_tail. exact W.
Qed.

Lemma wfb_elem_noslash r stk : wfb r stk = true -> Forall (fun s => has_slash s = false) stk.
Proof.
  induction stk as [|s t IH]; intros W; [constructor|].
  constructor; [|apply IH; eapply wfb_tail; exact W].
  cbn [wfb] in W. apply orb_prop in W. destruct W as [W|W].
  - apply andb_prop in W. destruct W as (W & _). unfold normalb in W.
    apply andb_prop in W. destruct W as (_ & W). destruct (has_slash s); [discriminate|reflexivity].
  - apply andb_prop in W. destruct W as (W & _). apply andb_prop in W. destruct W as (_ & W).
    apply is_dotdot_eq in W. subst. reflexivity.
Qed.

Lemma wfb_elem_nonempty r stk : wfb r stk = true -> Forall (fun s => s <> []) stk.
Proof.
  induction stk as [|s t IH]; intros W; [constructor|].
  constructor; [|apply IH; eapply wfb_tail; exact W].
  cbn [wfb] in W. apply orb_prop in W. destruct W as [W|W].
  - apply andb_prop in W. destruct W as (W & _). unfold normalb in W.
    repeat (apply andb_prop in W; destruct W as (W & ?)). destruct s; [discriminate|discriminate].
  - apply andb_prop in W. destruct W as (W & _). apply andb_prop in W. destruct W as (_ & W).
    apply is_dotdot_eq in W. subst. discriminate.
Qed.

(* pushing the elements of a well-formed stack rebuilds it *)
Lemma fold_push r L : forall stk, wfb r (rev L ++ stk) = true -> fold_left (step r) L stk = rev L ++ stk.
Proof.
  induction L as [|s L IH]; intros stk W; [reflexivity|].
  cbn [rev] in W. rewrite <- app_assoc in W. cbn [app] in W. cbn [fold_left].
  assert (step r stk s = s :: stk) as ->.
  { pose proof (wfb_app_r _ _ _ W) as W'.
    cbn [wfb] in W'. apply orb_prop in W'. destruct W' as [W'|W'].
    - apply andb_prop in W'. destruct W' as (N & _). unfold step. unfold normalb in N.
      apply andb_prop in N. destruct N as (N & _). apply andb_prop in N. destruct N as (N & N3).
      apply andb_prop in N. destruct N as (N1 & N2).
      destruct (is_empty s); [discriminate|]. destruct (is_dot s); [discriminate|].
      destruct (is_dotdot s); [discriminate|]. reflexivity.
    - apply andb_prop in W'. destruct W' as (W' & A). apply andb_prop in W'. destruct W' as (R & D).
      destruct r; [discriminate|]. unfold step.
      pose proof D as D'. apply is_dotdot_eq in D'. subst s. cbn [is_empty is_dot beqb orb DOT Z.eqb Pos.eqb andb].
      change (is_dotdot [DOT; DOT]) with true. cbn iota.
      destruct stk as [|top rest]; [reflexivity|]. cbn in A. apply andb_prop in A. destruct A as (A & _).
      rewrite A. reflexivity. }
  rewrite IH by exact W.
  cbn [rev]. rewrite <- app_assoc. reflexivity.
Qed.

Lemma intercalate_first_noslash segs : segs <> [] -> Forall (fun s => s <> []) segs ->
  Forall (fun s => has_slash s = false) segs -> is_abs (intercalate segs) = false.
Proof.
  intros N F1 F2. destruct segs as [|s t]; [congruence|].
  apply Forall_inv in F1. apply Forall_inv in F2.
  destruct s as [|c s]; [congruence|].
  assert (c =? SLASH = false) as E.
  { cbn in F2. apply orb_false_elim in F2. tauto. }
  destruct t; cbn; exact E.
Qed.

Lemma intercalate_nonnil segs : segs <> [] -> Forall (fun s => s <> []) segs -> intercalate segs <> [].
Proof.
  intros N F. destruct segs as [|s t]; [congruence|]. inversion F; subst.
  destruct s; [congruence|]. destruct t; cbn; discriminate.
Qed.

(* Clean is idempotent: cleaning a rendered normal-form path gives it back *)
Lemma clean_render r stk : wfb r stk = true -> clean (render (CP r stk)) = CP r stk.
Proof.
  intros W. pose proof (wfb_elem_noslash _ _ W) as NS. pose proof (wfb_elem_nonempty _ _ W) as NE.
  unfold render. cbn [rooted rsegs]. destruct r.
  - unfold clean. cbn [is_abs]. rewrite Z.eqb_refl. f_equal. unfold clean_from.
    cbn [split]. rewrite Z.eqb_refl.
    destruct stk as [|s t].
    + reflexivity.
    + rewrite split_intercalate.
      * cbn [fold_left]. change (step true [] []) with (@nil seg).
        rewrite fold_push; rewrite rev_involutive, app_nil_r; [reflexivity|exact W].
      * cbn [rev]. destruct (rev t); discriminate.
      * apply Forall_rev. exact NS.
  - destruct stk as [|s t].
    + reflexivity.
    + assert (rev (s :: t) <> []) as N by (cbn [rev]; destruct (rev t); discriminate).
      unfold clean. rewrite intercalate_first_noslash; [|exact N|apply Forall_rev; exact NE|apply Forall_rev; exact NS].
      f_equal. unfold clean_from. rewrite split_intercalate; [|exact N|apply Forall_rev; exact NS].
      rewrite fold_push; rewrite rev_involutive, app_nil_r; [reflexivity|exact W].
Qed.

Lemma clean_clean_bytes p : clean (clean_bytes p) = clean p.
Proof.
  unfold clean_bytes. pose proof (clean_wf p) as W. destruct (clean p) as [r stk] eqn:E. cbn in W.
  apply clean_render. exact W.
Qed.

Lemma render_nonnil r stk : wfb r stk = true -> render (CP r stk) <> [].
Proof.
  intros W. unfold render. cbn [rooted rsegs]. destruct r; [discriminate|].
  destruct stk as [|s t]; [discriminate|].
  apply intercalate_nonnil.
  - cbn [rev]. destruct (rev t); discriminate.
  - apply Forall_rev. eapply wfb_elem_nonempty. exact W.
Qed.

Lemma clean_bytes_nonnil p : clean_bytes p <> [].
Proof.
  unfold clean_bytes. pose proof (clean_wf p) as W. destruct (clean p) as [r stk]. cbn in W.
  apply render_nonnil. exact W.
Qed.

(* ---------- confinement ---------- *)

Definition nodd (ext : list seg) : Prop := forallb (fun s => negb (is_dotdot s)) ext = true.

Lemma nodd_app a b : nodd a -> nodd b -> nodd (a ++ b).
Proof. unfold nodd. intros A B. rewrite forallb_app. apply andb_true_intro. split; assumption. Qed.

Lemma confined_refl out : confined out out.
Proof. split; [reflexivity|]. exists []. split; reflexivity. Qed.

Lemma confined_trans a b c : confined a b -> confined b c -> confined a c.
Proof.
  intros (R1 & e1 & E1 & N1) (R2 & e2 & E2 & N2). split; [congruence|].
  exists (e2 ++ e1). split; [rewrite E2, E1, app_assoc; reflexivity|apply nodd_app; assumption].
Qed.

Lemma confined_clean_eq a p p' : clean p = clean p' -> confined a p -> confined a p'.
Proof. intros E (R & e & E1 & N). split; [rewrite <- E; exact R|]. exists e. rewrite <- E. tauto. Qed.

Lemma clean_nil : clean [] = CP false [].
Proof. reflexivity. Qed.

Definition safe (e : list Z) : bool := negb (existsb is_dotdot (split e)).

Lemma fold_step_safe r L : forall stk, existsb is_dotdot L = false ->
  exists ext, fold_left (step r) L stk = ext ++ stk /\ nodd ext.
Proof.
  induction L as [|s L IH]; intros stk H.
  - exists []. split; reflexivity.
  - cbn in H. apply orb_false_elim in H. destruct H as (H1 & H2). cbn [fold_left].
    assert (step r stk s = stk \/ step r stk s = s :: stk) as [E0|E0].
    { unfold step. rewrite H1. destruct (is_empty s || is_dot s); [left|right]; reflexivity. }
    + rewrite E0. apply IH. exact H2.
    + rewrite E0. destruct (IH (s :: stk) H2) as (ext & E & N). exists (ext ++ [s]). split.
      * rewrite E, <- app_assoc. reflexivity.
      * apply nodd_app; [exact N|]. unfold nodd. cbn. rewrite H1. reflexivity.
Qed.

Lemma clean_from_intercalate r : forall es e stk,
  clean_from r stk (intercalate (e :: es)) = fold_left (clean_from r) es (clean_from r stk e).
Proof.
  induction es as [|e' es IH]; intros e stk; [reflexivity|].
  rewrite intercalate_cons by discriminate. unfold clean_from at 1. rewrite split_app, fold_left_app.
  cbn [fold_left]. apply IH.
Qed.

Lemma is_abs_intercalate e es : e <> [] -> is_abs (intercalate (e :: es)) = is_abs e.
Proof. intros N. destruct e; [congruence|]. destruct es; reflexivity. Qed.

Lemma clean_intercalate e es : e <> [] ->
  clean (intercalate (e :: es)) = CP (is_abs e) (fold_left (clean_from (is_abs e)) es (clean_from (is_abs e) [] e)).
Proof.
  intros N. unfold clean. rewrite is_abs_intercalate by exact N. rewrite clean_from_intercalate. reflexivity.
Qed.

Lemma join_cons b elems : b <> [] -> join (b :: elems) = clean_bytes (intercalate (b :: elems)).
Proof. intros N. unfold join. cbn [drop_empty]. destruct b; [congruence|]. reflexivity. Qed.

Lemma clean_join_cons b elems : b <> [] ->
  clean (join (b :: elems)) = CP (is_abs b) (fold_left (clean_from (is_abs b)) elems (clean_from (is_abs b) [] b)).
Proof.
  intros N. rewrite join_cons by exact N. rewrite clean_clean_bytes. apply clean_intercalate. exact N.
Qed.

Lemma fold_clean_from_safe r elems : forall stk, forallb safe elems = true ->
  exists ext, fold_left (clean_from r) elems stk = ext ++ stk /\ nodd ext.
Proof.
  induction elems as [|e es IH]; intros stk H.
  - exists []. split; reflexivity.
  - cbn in H. apply andb_prop in H. destruct H as (H1 & H2). cbn [fold_left].
    unfold safe in H1. apply negb_true_iff in H1.
    destruct (fold_step_safe r (split e) stk H1) as (e1 & E1 & N1).
    destruct (IH (clean_from r stk e) H2) as (e2 & E2 & N2).
    exists (e2 ++ e1). split; [|apply nodd_app; assumption].
    rewrite E2. unfold clean_from. rewrite E1, app_assoc. reflexivity.
Qed.

Lemma join_confined b elems : b <> [] -> forallb safe elems = true -> confined b (join (b :: elems)).
Proof.
  intros N S. unfold confined. rewrite clean_join_cons by exact N. cbn [rooted rsegs clean].
  split; [reflexivity|]. apply fold_clean_from_safe. exact S.
Qed.

Lemma drop_empty_spec l : drop_empty l = [] \/
  exists e es, drop_empty l = e :: es /\ e <> [] /\ (forall f, forallb f l = true -> forallb f (e :: es) = true).
Proof.
  induction l as [|a l IH]; [left; reflexivity|].
  cbn [drop_empty]. destruct a as [|c a].
  - cbn [is_empty]. destruct IH as [IH|(e & es & E & N & F)]; [left; exact IH|].
    right. exists e, es. split; [exact E|]. split; [exact N|]. intros f H. apply F. cbn in H. apply andb_prop in H. tauto.
  - cbn [is_empty]. right. exists (c :: a), l. split; [reflexivity|]. split; [discriminate|]. intros f H. exact H.
Qed.

Lemma join_confined_nil elems : forallb safe elems = true ->
  is_abs (intercalate (drop_empty elems)) = false -> confined [] (join ([] :: elems)).
Proof.
  intros S A. unfold join. cbn [drop_empty is_empty].
  destruct (drop_empty_spec elems) as [E|(e & es & E & N & F)].
  - rewrite E. apply confined_refl.
  - rewrite E in *. unfold confined. rewrite clean_clean_bytes, clean_intercalate by exact N.
    rewrite is_abs_intercalate in A by exact N. rewrite A. rewrite clean_nil. cbn [rooted rsegs].
    split; [reflexivity|].
    change (fold_left (clean_from false) es (clean_from false [] e)) with (fold_left (clean_from false) (e :: es) []).
    apply fold_clean_from_safe. apply F. exact S.
Qed.

Lemma join_nonnil l : drop_empty l <> [] -> join l <> [].
Proof.
  intros N. unfold join. destruct (drop_empty l); [congruence|]. apply clean_bytes_nonnil.
Qed.

(* ---------- Dir, and appending to the last element ---------- *)

Lemma upto_noslash s : has_slash s = false -> upto_last_slash s = [].
Proof.
  induction s as [|c s IH]; intros H; [reflexivity|].
  cbn in H. apply orb_false_elim in H. destruct H as (H1 & H2).
  cbn [upto_last_slash]. rewrite H1, (IH H2). reflexivity.
Qed.

Lemma upto_app P : forall s, has_slash s = false -> upto_last_slash (P ++ SLASH :: s) = P ++ [SLASH].
Proof.
  induction P as [|c P IH]; intros s H.
  - cbn [app upto_last_slash]. rewrite Z.eqb_refl, upto_noslash by exact H. reflexivity.
  - cbn [app upto_last_slash]. rewrite IH by exact H. destruct (c =? SLASH); [reflexivity|].
    destruct P; reflexivity.
Qed.

Lemma step_empty r stk : step r stk [] = stk.
Proof. reflexivity. Qed.

Lemma clean_trailing_slash X : X <> [] -> clean (X ++ [SLASH]) = clean X.
Proof.
  intros N. unfold clean. assert (is_abs (X ++ [SLASH]) = is_abs X) as -> by (destruct X; [congruence|reflexivity]).
  f_equal. unfold clean_from. rewrite split_app, fold_left_app. reflexivity.
Qed.

Lemma rev_cons_nonnil {A} (s : A) t : rev (s :: t) <> [].
Proof. cbn [rev]. destruct (rev t); discriminate. Qed.

Lemma normalb_parts s : normalb s = true ->
  is_empty s = false /\ is_dot s = false /\ is_dotdot s = false /\ has_slash s = false.
Proof.
  unfold normalb. intros H. apply andb_prop in H. destruct H as (H & H4). apply andb_prop in H. destruct H as (H & H3).
  apply andb_prop in H. destruct H as (H1 & H2).
  repeat split; match goal with |- ?b = false => destruct b; [discriminate|reflexivity] end.
Qed.

Lemma dir_render r s rest : wfb r (s :: rest) = true -> normalb s = true ->
  clean (dir (render (CP r (s :: rest)))) = CP r rest.
Proof.
  intros W N. pose proof (wfb_tail _ _ _ W) as Wt. destruct (normalb_parts _ N) as (_ & _ & _ & NS).
  unfold dir. rewrite clean_clean_bytes. unfold render. cbn [rooted rsegs]. cbn [rev].
  destruct rest as [|s' t].
  - cbn [rev app intercalate]. destruct r.
    + change (SLASH :: s) with ([] ++ SLASH :: s). rewrite upto_app by exact NS. reflexivity.
    + rewrite upto_noslash by exact NS. reflexivity.
  - rewrite intercalate_snoc by apply rev_cons_nonnil. destruct r.
    + rewrite app_comm_cons, upto_app by exact NS. rewrite clean_trailing_slash by discriminate.
      apply (clean_render true (s' :: t)). exact Wt.
    + rewrite upto_app by exact NS.
      rewrite clean_trailing_slash.
      * apply (clean_render false (s' :: t)). exact Wt.
      * apply intercalate_nonnil; [apply rev_cons_nonnil|]. apply Forall_rev. eapply wfb_elem_nonempty. exact Wt.
Qed.

Lemma intercalate_snoc_app A s t : intercalate (A ++ [s]) ++ t = intercalate (A ++ [s ++ t]).
Proof.
  destruct A as [|a A]; [reflexivity|].
  rewrite !intercalate_snoc by discriminate. rewrite <- app_assoc. reflexivity.
Qed.

Lemma render_app_top r s rest t : render (CP r (s :: rest)) ++ t = render (CP r ((s ++ t) :: rest)).
Proof.
  unfold render. cbn [rooted rsegs rev]. destruct r.
  - cbn [app]. rewrite intercalate_snoc_app. reflexivity.
  - apply intercalate_snoc_app.
Qed.

Lemma step_normal r stk s : normalb s = true -> step r stk s = s :: stk.
Proof.
  intros N. destruct (normalb_parts _ N) as (E1 & E2 & E3 & _). unfold step. rewrite E1, E2, E3. reflexivity.
Qed.

Lemma clean_from_normal r stk s : normalb s = true -> clean_from r stk s = s :: stk.
Proof.
  intros N. destruct (normalb_parts _ N) as (_ & _ & _ & NS). unfold clean_from.
  rewrite split_noslash by exact NS. cbn [fold_left]. apply step_normal. exact N.
Qed.

Lemma wfb_push r s stk : normalb s = true -> wfb r stk = true -> wfb r (s :: stk) = true.
Proof. intros N W. cbn [wfb]. rewrite N, W. reflexivity. Qed.

Lemma nodd_normal s : normalb s = true -> nodd [s].
Proof. intros N. unfold nodd. cbn. rewrite (normalb_not_dotdot _ N). reflexivity. Qed.

(* a path made of a directory and one plain name under it: the path, the path
   with a suffix appended to the name, and its Dir are all inside the directory *)
Lemma leaf_confined b nm t : b <> [] -> normalb nm = true -> normalb (nm ++ t) = true ->
  confined b (join [b; nm]) /\ confined b (join [b; nm] ++ t) /\ confined b (dir (join [b; nm])).
Proof.
  intros NB N Nt.
  pose proof (clean_wf b) as Wb. cbn [clean rooted rsegs] in Wb.
  set (rb := is_abs b) in *. set (S := clean_from rb [] b) in *.
  assert (join [b; nm] = render (CP rb (nm :: S))) as Ej.
  { rewrite join_cons by exact NB. unfold clean_bytes. rewrite clean_intercalate by exact NB.
    cbn [fold_left]. fold rb. fold S. rewrite clean_from_normal by exact N. reflexivity. }
  assert (clean b = CP rb S) as Eb by reflexivity.
  pose proof (wfb_push rb nm S N Wb) as W1.
  pose proof (wfb_push rb (nm ++ t) S Nt Wb) as W2.
  rewrite Ej. unfold confined. rewrite Eb. cbn [rooted rsegs].
  split; [|split].
  - rewrite clean_render by exact W1. cbn [rooted rsegs]. split; [reflexivity|].
    exists [nm]. split; [reflexivity|apply nodd_normal; exact N].
  - rewrite render_app_top, clean_render by exact W2. cbn [rooted rsegs]. split; [reflexivity|].
    exists [nm ++ t]. split; [reflexivity|apply nodd_normal; exact Nt].
  - rewrite dir_render by assumption. cbn [rooted rsegs]. split; [reflexivity|].
    exists []. split; reflexivity.
Qed.

(* ---------- validateRelPath ---------- *)

Lemma existsb_false_Forall {A} (f : A -> bool) l : existsb f l = false -> Forall (fun x => f x = false) l.
Proof.
  induction l as [|a l IH]; intros H; [constructor|].
  cbn in H. apply orb_false_elim in H. destruct H as (H1 & H2). constructor; [exact H1|apply IH; exact H2].
Qed.

Lemma validate_parts p : validate_rel_path p = true ->
  Z.of_nat (length p) <= c_maxRelPathLength /\ has_unsafe_segment p = false /\ is_abs p = false /\ p <> [].
Proof.
  unfold validate_rel_path. intros H.
  apply andb_prop in H. destruct H as (H & H4). apply andb_prop in H. destruct H as (H & H3).
  apply andb_prop in H. destruct H as (H1 & H2).
  split; [apply Z.leb_le; exact H1|]. split; [destruct (has_unsafe_segment p); [discriminate|reflexivity]|].
  split; [destruct (is_abs p); [discriminate|reflexivity]|]. destruct p; [discriminate|discriminate].
Qed.

Lemma validate_segments_normal p : validate_rel_path p = true -> Forall (fun s => normalb s = true) (split p).
Proof.
  intros V. destruct (validate_parts _ V) as (_ & U & _ & _). unfold has_unsafe_segment in U.
  apply existsb_false_Forall in U. pose proof (split_segs_noslash p) as NS.
  revert U NS. generalize (split p). induction l as [|s l IH]; intros U NS; [constructor|].
  inversion U; subst. inversion NS; subst. constructor; [|apply IH; assumption].
  unfold unsafe_seg in H1. apply orb_false_elim in H1. destruct H1 as (H1 & H1c).
  apply orb_false_elim in H1. destruct H1 as (H1a & H1b).
  unfold normalb. rewrite H1a, H1b, H1c, H3. reflexivity.
Qed.

Lemma normal_safe_list l : Forall (fun s => normalb s = true) l -> existsb is_dotdot l = false.
Proof.
  induction 1 as [|s l N _ IH]; [reflexivity|]. cbn. rewrite (normalb_not_dotdot _ N), IH. reflexivity.
Qed.

Lemma validate_safe p : validate_rel_path p = true -> safe p = true.
Proof.
  intros V. unfold safe. rewrite normal_safe_list; [reflexivity|]. apply validate_segments_normal. exact V.
Qed.

Lemma wfb_app_normals r A : forall B, Forall (fun s => normalb s = true) A -> wfb r B = true -> wfb r (A ++ B) = true.
Proof.
  induction A as [|a A IH]; intros B F W; [exact W|]. inversion F; subst.
  cbn [app]. apply wfb_push; [assumption|]. apply IH; assumption.
Qed.

Lemma nodd_normals A : Forall (fun s => normalb s = true) A -> nodd A.
Proof.
  induction 1 as [|s l N _ IH]; [reflexivity|]. unfold nodd in *. cbn. rewrite (normalb_not_dotdot _ N), IH. reflexivity.
Qed.

(* the key lemma: an accepted relative path stays below whatever it is joined to,
   and so does the directory holding it *)
Lemma validated_join_confined b p : b <> [] -> validate_rel_path p = true ->
  confined b (join [b; p]) /\ confined b (dir (join [b; p])).
Proof.
  intros NB V. pose proof (validate_segments_normal _ V) as NF.
  pose proof (clean_wf b) as Wb. cbn [clean rooted rsegs] in Wb.
  set (rb := is_abs b) in *. set (S := clean_from rb [] b) in *.
  assert (clean b = CP rb S) as Eb by reflexivity.
  pose proof (Forall_rev NF) as NR.
  pose proof (wfb_app_normals rb _ _ NR Wb) as W.
  assert (join [b; p] = render (CP rb (rev (split p) ++ S))) as Ej.
  { rewrite join_cons by exact NB. unfold clean_bytes. rewrite clean_intercalate by exact NB.
    cbn [fold_left]. fold rb. fold S. unfold clean_from at 1. rewrite fold_push by exact W. reflexivity. }
  rewrite Ej. unfold confined. rewrite Eb. cbn [rooted rsegs]. clear Ej.
  remember (rev (split p)) as R eqn:ER. destruct R as [|s ext].
  { exfalso. apply (split_nonnil p). apply (f_equal (@rev seg)) in ER. rewrite rev_involutive in ER. symmetry. exact ER. }
  assert (NR' : Forall (fun s : seg => normalb s = true) (s :: ext)) by (rewrite ER; exact NR).
  assert (W' : wfb rb ((s :: ext) ++ S) = true) by (rewrite ER; exact W).
  clear NR W. rename NR' into NR. rename W' into W.
  pose proof (Forall_inv NR) as Ns. pose proof (Forall_inv_tail NR) as Next. cbn [app] in *. split.
  - rewrite clean_render by exact W. cbn [rooted rsegs]. split; [reflexivity|].
    exists (s :: ext). split; [reflexivity|]. apply nodd_normals. exact NR.
  - rewrite dir_render by assumption. cbn [rooted rsegs]. split; [reflexivity|].
    exists ext. split; [reflexivity|apply nodd_normals; assumption].
Qed.

(* ---------- names the receiver builds itself ---------- *)

Lemma normalb_suffix x t : has_slash x = false -> has_slash t = false -> (2 < length t)%nat ->
  normalb (x ++ t) = true.
Proof.
  intros Hx Ht L. unfold normalb.
  assert (2 < length (x ++ t))%nat as L2 by (rewrite app_length; lia).
  rewrite is_dot_len, is_dotdot_len by exact L2. rewrite has_slash_app, Hx, Ht.
  destruct (x ++ t); [cbn in L2; lia|reflexivity].
Qed.

Lemma ltrim_noslash p : has_slash p = false -> ltrim p = p.
Proof.
  destruct p as [|c p]; intros H; [reflexivity|]. cbn in H. apply orb_false_elim in H. destruct H as (H & _).
  cbn [ltrim]. rewrite H. reflexivity.
Qed.

Lemma has_slash_rev p : has_slash (rev p) = has_slash p.
Proof.
  induction p as [|c p IH]; [reflexivity|]. cbn [rev]. rewrite has_slash_app, IH. cbn.
  rewrite orb_false_r. apply orb_comm.
Qed.

Lemma trim_noslash p : has_slash p = false -> trim_slash p = p.
Proof.
  intros H. unfold trim_slash. rewrite (ltrim_noslash p H). rewrite ltrim_noslash by (rewrite has_slash_rev; exact H).
  apply rev_involutive.
Qed.

Lemma safe_single s : has_slash s = false -> is_dotdot s = false -> safe s = true.
Proof. intros H D. unfold safe. rewrite split_noslash by exact H. cbn. rewrite D. reflexivity. Qed.

Lemma noslash_not_abs s : has_slash s = false -> is_abs s = false.
Proof. destruct s as [|c s]; intros H; [reflexivity|]. cbn in H. apply orb_false_elim in H. cbn. tauto. Qed.

Lemma root_ok_props root : root_ok root = true ->
  safe root = true /\ is_abs root = false /\ trim_slash root = root.
Proof.
  unfold root_ok. intros H. apply orb_prop in H. destruct H as [H|H].
  - apply is_empty_eq in H. subst. repeat split; reflexivity.
  - apply andb_prop in H. destruct H as (H & H3). apply andb_prop in H. destruct H as (H1 & H2).
    apply negb_true_iff in H1, H3.
    split; [apply safe_single; assumption|]. split; [apply noslash_not_abs; assumption|apply trim_noslash; assumption].
Qed.

Lemma sidecar_dir_props : safe c_sidecarDir = true /\ is_abs c_sidecarDir = false.
Proof. split; reflexivity. Qed.

Lemma sidecar_inner d root : root_ok root = true ->
  confined d (join [d; root; c_sidecarDir]) /\ join [d; root; c_sidecarDir] <> [].
Proof.
  intros R. destruct (root_ok_props _ R) as (S1 & A1 & _). destruct sidecar_dir_props as (S2 & A2).
  assert (forallb safe [root; c_sidecarDir] = true) as FS by (cbn [forallb]; rewrite S1, S2; reflexivity).
  split.
  - destruct d as [|c d].
    + apply join_confined_nil; [exact FS|].
      destruct root as [|c root]; [reflexivity|]. cbn [drop_empty is_empty].
      rewrite is_abs_intercalate by discriminate. exact A1.
    + apply join_confined; [discriminate|exact FS].
  - apply join_nonnil. destruct d; [|discriminate]. destruct root; discriminate.
Qed.

Lemma sidecar_confined d root ident : root_ok root = true -> has_slash ident = false ->
  confined d (sidecar_path d root ident) /\ confined d (sidecar_path d root ident ++ s_tmp) /\
  confined d (dir (sidecar_path d root ident)).
Proof.
  intros R NS. unfold sidecar_path. destruct (root_ok_props _ R) as (_ & _ & T). rewrite T.
  destruct (sidecar_inner d root R) as (CI & NI).
  set (inner := join [d; root; c_sidecarDir]) in *.
  set (x := if is_empty ident then s_unknown else ident).
  assert (has_slash x = false) as Hx by (unfold x; destruct ident; [reflexivity|exact NS]).
  assert (normalb (x ++ c_sidecarSuffix) = true) as N1.
  { apply normalb_suffix; [exact Hx|reflexivity|cbn; lia]. }
  assert (normalb ((x ++ c_sidecarSuffix) ++ s_tmp) = true) as N2.
  { rewrite <- app_assoc. apply normalb_suffix; [exact Hx|reflexivity|cbn; lia]. }
  destruct (leaf_confined inner (x ++ c_sidecarSuffix) s_tmp NI N1 N2) as (C1 & C2 & C3).
  repeat split; eapply confined_trans; eassumption.
Qed.

Lemma hexchar_noslash d : 0 <= d < 16 -> (hexchar d =? SLASH) = false.
Proof.
  intros H. unfold hexchar, SLASH. apply Z.eqb_neq. destruct (d <? 10) eqn:E.
  - apply Z.ltb_lt in E. lia.
  - apply Z.ltb_ge in E. lia.
Qed.

Lemma hex_digits_noslash n : forall x acc, has_slash acc = false -> has_slash (hex_digits n x acc) = false.
Proof.
  induction n as [|n IH]; intros x acc H; [exact H|].
  cbn [hex_digits]. apply IH. cbn. rewrite hexchar_noslash by (apply Z.mod_pos_bound; lia). exact H.
Qed.

Lemma strip0_noslash l : has_slash l = false -> has_slash (strip0 l) = false.
Proof.
  induction l as [|c l IH]; intros H; [reflexivity|].
  cbn [strip0]. destruct ((c =? 48) && negb (is_empty l)); [|exact H].
  apply IH. cbn in H. apply orb_false_elim in H. tauto.
Qed.

Lemma hex64_noslash x : has_slash (hex64 x) = false.
Proof. unfold hex64. apply strip0_noslash. apply hex_digits_noslash. reflexivity. Qed.

Lemma sidecar_identifier_noslash it : id_ok (it_id it) = true -> has_slash (sidecar_identifier it) = false.
Proof.
  unfold id_ok, sidecar_identifier. intros H. apply negb_true_iff in H.
  destruct (is_empty (it_id it)); [apply hex64_noslash|exact H].
Qed.

(* ---------- the receiver ---------- *)

Lemma confined_nil_dot : confined [] [DOT].
Proof. split; [reflexivity|]. exists []. split; reflexivity. Qed.

Lemma rooted_dir_confined i : root_ok (r_root i) = true -> confined (r_out i) (rooted_dir i).
Proof.
  intros R. destruct (root_ok_props _ R) as (S1 & A1 & _). unfold rooted_dir.
  assert (forallb safe [r_root i] = true) as FS by (cbn [forallb]; rewrite S1; reflexivity).
  destruct (r_out i) as [|c o].
  - apply join_confined_nil; [exact FS|]. destruct (r_root i) as [|c root]; [reflexivity|exact A1].
  - apply join_confined; [discriminate|exact FS].
Qed.

Lemma base_dir_props i : root_ok (r_root i) = true -> base_dir i <> [] /\ confined (r_out i) (base_dir i).
Proof.
  intros R. unfold base_dir. destruct (r_no_root i).
  - destruct (r_out i) as [|c o] eqn:E.
    + cbn [is_empty]. split; [discriminate|apply confined_nil_dot].
    + cbn [is_empty]. split; [discriminate|apply confined_refl].
  - destruct (is_empty (rooted_dir i)) eqn:E.
    + split; [discriminate|]. apply is_empty_eq in E.
      destruct (r_out i) as [|c o] eqn:EO; [apply confined_nil_dot|].
      exfalso. unfold rooted_dir in E. rewrite EO in E. rewrite join_cons in E by discriminate.
      eapply clean_bytes_nonnil. exact E.
    + split; [intros H; rewrite H in E; discriminate|]. apply rooted_dir_confined. exact R.
Qed.

Lemma homes_confined i d : root_ok (r_root i) = true -> In d (sidecar_homes i) -> confined (r_out i) d.
Proof.
  intros R H. unfold sidecar_homes in H. destruct H as [H|H].
  - subst. apply base_dir_props. exact R.
  - destruct (beqb (rooted_dir i) (base_dir i)); [destruct H|]. destruct H as [H|[]]. subst.
    apply rooted_dir_confined. exact R.
Qed.

Definition ops_confined (out : list Z) (ops : list (op * list Z)) : Prop :=
  Forall (fun x => confined out (snd x)) ops.

Lemma sidecar_ops_confined i ident : root_ok (r_root i) = true -> has_slash ident = false ->
  ops_confined (r_out i) (sidecar_ops i ident).
Proof.
  intros R NS. unfold ops_confined, sidecar_ops. apply Forall_forall. intros x Hx.
  apply in_flat_map in Hx. destruct Hx as (d & Hd & Hx).
  pose proof (homes_confined i d R Hd) as Cd.
  destruct (sidecar_confined d [] ident eq_refl NS) as (C1 & C2 & C3).
  cbn [In] in Hx.
  repeat (destruct Hx as [Hx|Hx]; [subst x; cbn [snd]; eapply confined_trans; eassumption|]).
  destruct Hx.
Qed.

Lemma lookup_file_in items rel : forall acc it, lookup_file items rel acc = Some it -> In it items \/ acc = Some it.
Proof.
  induction items as [|a items IH]; intros acc it H; [right; exact H|].
  cbn [lookup_file] in H. apply IH in H. destruct H as [H|H]; [left; right; exact H|].
  destruct (negb (it_dir a) && beqb (it_rel a) rel); [|right; exact H].
  inversion H; subst. left. left. reflexivity.
Qed.

Lemma manifest_ok_parts root items : manifest_ok root items = true ->
  root_ok root = true /\ forall it, In it items -> validate_rel_path (it_rel it) = true /\ id_ok (it_id it) = true.
Proof.
  unfold manifest_ok. intros H. apply andb_prop in H. destruct H as (H1 & H2). split; [exact H1|].
  intros it Hin. rewrite forallb_forall in H2. specialize (H2 it Hin). apply andb_prop in H2. exact H2.
Qed.

Lemma begin_ops_confined i b it : manifest_ok (r_root i) (r_items i) = true -> begin_item i b = Some it ->
  ops_confined (r_out i) (begin_ops i b it).
Proof.
  intros M B. destruct (manifest_ok_parts _ _ M) as (R & IT). destruct (base_dir_props i R) as (NB & CB).
  unfold begin_item in B. destruct (validate_rel_path (b_rel b)) eqn:V; [|discriminate].
  destruct (lookup_file (r_items i) (b_rel b) None) as [it'|] eqn:L; [|discriminate].
  destruct (it_size it' =? i64 (b_size b)); [|discriminate]. inversion B; subst it'.
  apply lookup_file_in in L. destruct L as [L|L]; [|discriminate].
  destruct (IT it L) as (_ & IDOK).
  destruct (validated_join_confined (base_dir i) (b_rel b) NB V) as (C1 & C2).
  unfold begin_ops, ops_confined. apply Forall_app. split.
  - repeat constructor; cbn [snd]; eapply confined_trans; eassumption.
  - apply Forall_app. split.
    + (* the metadata files a receive without resume removes are among those of [sidecar_ops] *)
      unfold plain_meta_ops. destruct (negb (r_resume i) && negb (is_empty (it_id it))); [|constructor].
      pose proof (sidecar_ops_confined i (sidecar_identifier it) R (sidecar_identifier_noslash it IDOK)) as SC.
      unfold ops_confined in SC. rewrite Forall_forall in SC. apply Forall_forall. intros x Hx.
      apply in_map_iff in Hx. destruct Hx as (d & <- & Hd). apply SC.
      unfold sidecar_ops. apply in_flat_map. exists d. split; [exact Hd|]. left. reflexivity.
    + destruct (uses_sidecar i b it); [|constructor].
      apply sidecar_ops_confined; [exact R|apply sidecar_identifier_noslash; exact IDOK].
Qed.

Lemma begins_ops_confined i : manifest_ok (r_root i) (r_items i) = true ->
  forall bs, ops_confined (r_out i) (begins_ops i bs).
Proof.
  intros M. induction bs as [|b bs IH]; [constructor|].
  cbn [begins_ops]. destruct (begin_item i b) as [it|] eqn:B; [|constructor].
  apply Forall_app. split; [eapply begin_ops_confined; eassumption|exact IH].
Qed.

Lemma recv_ops_confined i : manifest_ok (r_root i) (r_items i) = true -> ops_confined (r_out i) (recv_ops i).
Proof.
  intros M. destruct (manifest_ok_parts _ _ M) as (R & IT). destruct (base_dir_props i R) as (NB & CB).
  unfold recv_ops, ops_confined. constructor; [exact CB|]. apply Forall_app. split.
  - apply Forall_forall. intros x Hx. apply in_map_iff in Hx. destruct Hx as (it & <- & Hit).
    apply filter_In in Hit. destruct Hit as (Hit & _). destruct (IT it Hit) as (V & _). cbn [snd].
    eapply confined_trans; [exact CB|]. apply validated_join_confined; assumption.
  - apply begins_ops_confined. exact M.
Qed.

Lemma app_ops_confined i : ops_confined (r_out i) (app_ops true i).
Proof.
  unfold app_ops, ops_confined. destruct (r_overwrite i); [|constructor].
  apply Forall_forall. intros x Hx. apply in_map_iff in Hx. destruct Hx as (d & <- & Hd). cbn [snd].
  unfold resume_dirs in Hd. destruct Hd as [Hd|Hd].
  - subst d. apply (sidecar_confined (r_out i) [] s_probe eq_refl eq_refl).
  - destruct (nonblank (r_offered_root i) && (negb true || root_ok (r_offered_root i))) eqn:E; [|destruct Hd].
    destruct Hd as [Hd|[]]. subst d. apply andb_prop in E. destruct E as (_ & E). cbn in E.
    apply (sidecar_confined (r_out i) (r_offered_root i) s_probe E eq_refl).
Qed.

Theorem touched_confined i : ops_confined (r_out i) (touched i).
Proof.
  unfold touched. apply Forall_app. split; [apply app_ops_confined|].
  destruct (manifest_ok (r_root i) (r_items i)) eqn:M; [|constructor]. apply recv_ops_confined. exact M.
Qed.

(* ---------- decidable confinement (used for witnesses and the correspondence) ---------- *)

Lemma segs_eqb_eq a : forall b, segs_eqb a b = true <-> a = b.
Proof.
  induction a as [|x a IH]; intros [|y b]; cbn [segs_eqb]; split; intros H; try reflexivity; try discriminate.
  - apply andb_prop in H. destruct H as (H1 & H2). apply beqb_eq in H1. apply IH in H2. subst. reflexivity.
  - inversion H; subst. rewrite beqb_refl. cbn. apply IH. reflexivity.
Qed.

Lemma is_suffix_app ext : forall a, is_suffix a (ext ++ a) = true.
Proof.
  induction ext as [|e ext IH]; intros a.
  - cbn [app]. assert (segs_eqb a a = true) as E by (apply segs_eqb_eq; reflexivity).
    destruct a; cbn [is_suffix]; [reflexivity|]. rewrite E. reflexivity.
  - cbn [app is_suffix]. rewrite IH. apply orb_true_r.
Qed.

Lemma is_suffix_sound a : forall b, is_suffix a b = true -> exists ext, b = ext ++ a.
Proof.
  intros b. induction b as [|y b IH]; intros H.
  - cbn [is_suffix] in H. rewrite orb_false_r in H. apply segs_eqb_eq in H. subst. exists []. reflexivity.
  - cbn [is_suffix] in H. apply orb_prop in H. destruct H as [H|H].
    + apply segs_eqb_eq in H. subst. exists []. reflexivity.
    + destruct (IH H) as (ext & ->). exists (y :: ext). reflexivity.
Qed.

Lemma firstn_ext {A} (ext a : list A) : firstn (length (ext ++ a) - length a) (ext ++ a) = ext.
Proof.
  rewrite app_length. replace (length ext + length a - length a)%nat with (length ext) by lia.
  rewrite firstn_app, Nat.sub_diag, firstn_all, firstn_O, app_nil_r. reflexivity.
Qed.

Lemma confinedb_complete out p : confined out p -> confinedb out p = true.
Proof.
  intros (R & ext & E & N). unfold confinedb. rewrite R, E, eqb_reflx, is_suffix_app, firstn_ext. exact N.
Qed.

Lemma confinedb_sound out p : confinedb out p = true -> confined out p.
Proof.
  unfold confinedb. intros H. apply andb_prop in H. destruct H as (H & H3). apply andb_prop in H. destruct H as (H1 & H2).
  apply eqb_prop in H1. apply is_suffix_sound in H2. destruct H2 as (ext & E).
  split; [exact H1|]. exists ext. split; [exact E|]. rewrite E, firstn_ext in H3. exact H3.
Qed.

Lemma ops_confined_b out ops : ops_confined out ops -> all_confinedb out ops = true.
Proof.
  intros F. unfold all_confinedb. apply forallb_forall. intros x Hx.
  apply confinedb_complete. unfold ops_confined in F. rewrite Forall_forall in F. apply F. exact Hx.
Qed.

(* ---------- completeness of validateRelPath (for C03) ---------- *)

Lemma intercalate_split p : intercalate (split p) = p.
Proof.
  induction p as [|c p IH]; [reflexivity|]. cbn [split]. destruct (c =? SLASH) eqn:E.
  - apply Z.eqb_eq in E. subst c. rewrite intercalate_cons by apply split_nonnil. rewrite IH. reflexivity.
  - destruct (split p) as [|s r] eqn:ES; [exfalso; eapply split_nonnil; exact ES|].
    destruct r as [|s' r'].
    + cbn in *. rewrite IH. reflexivity.
    + rewrite intercalate_cons by discriminate. rewrite intercalate_cons in IH by discriminate.
      rewrite <- IH. reflexivity.
Qed.

Definition plain_name (s : list Z) : Prop := unsafe_seg s = false /\ has_slash s = false.

Lemma plain_normal s : plain_name s <-> normalb s = true.
Proof.
  unfold plain_name, unsafe_seg, normalb. split.
  - intros (U & S). apply orb_false_elim in U. destruct U as (U & U3). apply orb_false_elim in U. destruct U as (U1 & U2).
    rewrite U1, U2, U3, S. reflexivity.
  - intros H. apply normalb_parts in H. destruct H as (H1 & H2 & H3 & H4). rewrite H1, H2, H3, H4. split; reflexivity.
Qed.

Theorem legal_accepted segs : segs <> [] -> Forall plain_name segs ->
  Z.of_nat (length (intercalate segs)) <= c_maxRelPathLength -> validate_rel_path (intercalate segs) = true.
Proof.
  intros N F L.
  assert (Forall (fun s => has_slash s = false) segs) as NS by (eapply Forall_impl; [|exact F]; intros s (_ & H); exact H).
  assert (Forall (fun s => s <> []) segs) as NE.
  { eapply Forall_impl; [|exact F]. intros s (H & _) ->. discriminate. }
  unfold validate_rel_path. apply Z.leb_le in L. rewrite L. cbn [andb].
  unfold has_unsafe_segment. rewrite split_intercalate by assumption.
  assert (existsb unsafe_seg segs = false) as ->.
  { clear -F. induction F as [|s l (U & _) _ IH]; [reflexivity|]. cbn. rewrite U, IH. reflexivity. }
  rewrite intercalate_first_noslash by assumption. cbn [negb andb].
  destruct (intercalate segs) eqn:E; [|reflexivity]. exfalso. eapply intercalate_nonnil; eassumption.
Qed.

Theorem validate_exact p : validate_rel_path p = true <->
  (Z.of_nat (length p) <= c_maxRelPathLength /\ Forall plain_name (split p)).
Proof.
  split.
  - intros V. split; [apply validate_parts; exact V|].
    eapply Forall_impl; [|apply validate_segments_normal; exact V]. intros s H. apply plain_normal. exact H.
  - intros (L & F). rewrite <- (intercalate_split p). apply legal_accepted; [apply split_nonnil|exact F|].
    rewrite intercalate_split. exact L.
Qed.

Theorem join_confined_validated out r : validate_rel_path r = true -> confined out (join [out; r]).
Proof.
  intros V. destruct out as [|c o].
  - apply join_confined_nil; [cbn; rewrite (validate_safe _ V); reflexivity|].
    destruct (validate_parts _ V) as (_ & _ & A & N). destruct r; [congruence|exact A].
  - apply validated_join_confined; [discriminate|exact V].
Qed.

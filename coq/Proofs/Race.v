(* Proofs about Model/Race.v: the connection race of ProbeAndDial and the
   accepting side's choice of its primary connection. *)
From Coq Require Import ZArith List Bool Arith Lia.
Import ListNotations.
From TF Require Import Model.Race.
Open Scope Z_scope.

(* ---------- small facts ---------- *)
Lemma memz_In : forall x l, memz x l = true <-> In x l.
Proof.
  intros x l. unfold memz. rewrite existsb_exists. split.
  - intros [y [Hin He]]. apply Z.eqb_eq in He. subst. exact Hin.
  - intros Hin. exists x. split; [exact Hin|apply Z.eqb_refl].
Qed.

Lemma gst_eqb_eq : forall a b, gst_eqb a b = true <-> a = b.
Proof. intros a b. destruct a, b; simpl; split; intros H; try reflexivity; try discriminate. Qed.

Lemma conn_eqb_eq : forall a b, conn_eqb a b = true <-> a = b.
Proof.
  intros [k i] [k' i']. unfold conn_eqb. simpl. rewrite andb_true_iff, Nat.eqb_eq, Z.eqb_eq.
  split; [intros [H1 H2]; subst; reflexivity|intros H; inversion H; auto].
Qed.

Lemma updg_same : forall f i g, updg f i g i = g.
Proof. intros. unfold updg. rewrite Z.eqb_refl. reflexivity. Qed.

Lemma updg_other : forall f i g j, j <> i -> updg f i g j = f j.
Proof. intros. unfold updg. destruct (Z.eqb_spec j i); [contradiction|reflexivity]. Qed.

Lemma all_done_in : forall p i, all_done p = true -> In i (pc p) -> g_done (gs p i) = true.
Proof. intros p i H Hin. unfold all_done in H. rewrite forallb_forall in H. apply H. exact Hin. Qed.

Lemma all_done_upd : forall c f w ch d w' ch' d' i g,
  g_done g = true ->
  all_done (mkP c f w ch d) = true -> all_done (mkP c (updg f i g) w' ch' d') = true.
Proof.
  intros c f w ch d w' ch' d' i g Hg H. unfold all_done in *. simpl in *.
  rewrite forallb_forall in *. intros j Hj. unfold updg. destruct (j =? i); [exact Hg|apply H; exact Hj].
Qed.

Lemma ph_setp_same : forall s k p, ph (setp s k p) k = p.
Proof. intros. simpl. rewrite Nat.eqb_refl. reflexivity. Qed.

Lemma ph_setp_other : forall s k p j, j <> k -> ph (setp s k p) j = ph s j.
Proof. intros. simpl. destruct (Nat.eqb_spec j k); [contradiction|reflexivity]. Qed.

(* ---------- the invariant of the dialing side (code as it stands, fx = true) ---------- *)
Definition sel_at (s : st) (k : nat) : Prop := call s = Sel /\ cur s = k.

Record inv (s : st) : Prop := mkInv {
  iA : forall k i, pch (ph s k) = Some i -> gs (ph s k) i = GPush /\ pwon (ph s k) = true;
  iB : forall k i, gs (ph s k) i = GPush -> pch (ph s k) = Some i \/ call s = Ret (Some (k, i));
  iC : forall k i, pch (ph s k) = Some i -> sel_at s k \/ pdr (ph s k) = DPending;
  iD : forall k, pwon (ph s k) = false -> forall i, gs (ph s k) i <> GPush /\ gs (ph s k) i <> GClosed;
  iE : forall k, sel_at s k -> pwon (ph s k) = true -> pch (ph s k) <> None;
  iH : forall k, (k <= cur s)%nat ->
         sel_at s k \/ pwon (ph s k) = true \/ pdr (ph s k) = DPending \/ all_done (ph s k) = true;
  iR : forall k i, call s = Ret (Some (k, i)) ->
         gs (ph s k) i = GPush /\ pch (ph s k) = None /\ pwon (ph s k) = true;
  iF : forall k, (cur s < k)%nat -> ph s k = p0 (pc (ph s k));
  iP : forall k, sel_at s k -> pdr (ph s k) = DNone
}.

Lemma inv_init : forall phases, inv (init phases).
Proof.
  intros phases. constructor; unfold init, sel_at; simpl; intros.
  - discriminate.
  - discriminate.
  - discriminate.
  - split; discriminate.
  - discriminate.
  - assert (k = 0%nat) by lia. subst. destruct phases; simpl.
    + right. right. right. reflexivity.
    + left. split; reflexivity.
  - destruct phases; simpl in *; discriminate.
  - reflexivity.
  - reflexivity.
Qed.

Ltac guards H :=
  repeat match type of H with
  | (if ?c then _ else _) = Some _ => let E := fresh "G" in destruct c eqn:E; [|discriminate H]
  | (match ?c with _ => _ end) = Some _ => let E := fresh "G" in destruct c eqn:E; try discriminate H
  end.

Ltac split_guard :=
  repeat match goal with
  | G : _ && _ = true |- _ => apply andb_true_iff in G; destruct G
  | G : (_ <=? _)%nat = true |- _ => apply Nat.leb_le in G
  | G : memz _ _ = true |- _ => apply memz_In in G
  | G : gst_eqb _ _ = true |- _ => apply gst_eqb_eq in G
  | G : is_sel ?c = true |- _ => destruct c eqn:?; [clear G|discriminate G]
  end.

Ltac phk k0 k :=
  destruct (Nat.eq_dec k0 k) as [->|?];
  [rewrite ?ph_setp_same in *|rewrite ?ph_setp_other in * by assumption].

(* the invariant only looks at the phases pointwise, cur and call *)
Lemma inv_ext : forall s s',
  inv s -> (forall k, ph s' k = ph s k) -> cur s' = cur s -> call s' = call s -> inv s'.
Proof.
  intros s s' I Hp Hc Hl. destruct I as [a b c d e h r f p].
  constructor; unfold sel_at in *; intros; rewrite ?Hp, ?Hc, ?Hl in *; eauto.
Qed.

(* the caller leaves the select of the current phase without a connection:
   through the context arm (drainer started) or through allDone with an empty channel *)
Lemma inv_leave : forall s pP,
  inv s -> call s = Sel ->
  pc pP = pc (ph s (cur s)) -> gs pP = gs (ph s (cur s)) ->
  pwon pP = pwon (ph s (cur s)) -> pch pP = pch (ph s (cur s)) ->
  (pdr pP = DPending \/ (all_done (ph s (cur s)) = true /\ pch (ph s (cur s)) = None)) ->
  inv (advance (setp s (cur s) pP)).
Proof.
  intros s pP I Hc Epc Egs Ew Ech Hleft.
  assert (Ead : all_done pP = all_done (ph s (cur s))) by (unfold all_done; rewrite Epc, Egs; reflexivity).
  assert (Hnew : forall k i, pch (if Nat.eqb k (cur s) then pP else ph s k) = Some i ->
            k <> cur s \/ pdr pP = DPending).
  { intros k i H. destruct (Nat.eqb_spec k (cur s)) as [->|Hne]; [|left; assumption].
    destruct Hleft as [?|[_ Hn]]; [right; assumption|]. rewrite Ech, Hn in H. discriminate. }
  unfold advance. cbn [setp cur nph ph call cancelled srvq srvup prim].
  destruct (S (cur s) <? nph s)%nat eqn:E;
  (constructor; unfold sel_at; cbn [ph cur call]; intros k;
   (destruct (Nat.eqb_spec k (cur s)) as [Ek|Hne]; [subst k; rewrite ?Epc, ?Egs, ?Ew, ?Ech, ?Ead|]); intros).
  - apply (iA s I); assumption.
  - apply (iA s I); assumption.
  - destruct (iB s I _ _ H) as [?|X]; [left; assumption|rewrite Hc in X; discriminate].
  - destruct (iB s I _ _ H) as [?|X]; [left; assumption|rewrite Hc in X; discriminate].
  - right. destruct Hleft as [?|[_ Hn]]; [assumption|rewrite Hn in H; discriminate].
  - destruct (iC s I _ _ H) as [[_ Hk]|?]; [subst k; contradiction|right; assumption].
  - apply (iD s I); assumption.
  - apply (iD s I); assumption.
  - destruct H; lia.
  - destruct H as [_ Hk]. subst k. rewrite (iF s I (S (cur s))) in H0 by lia. discriminate.
  - destruct Hleft as [?|[? _]]; auto.
  - destruct (Nat.eq_dec k (S (cur s))) as [->|Hne2]; [left; split; reflexivity|].
    assert (Hle : (k <= cur s)%nat) by lia.
    destruct (iH s I k Hle) as [[_ Hk]|[?|[?|?]]]; auto; try (subst k; contradiction).
  - discriminate.
  - discriminate.
  - lia.
  - apply (iF s I). lia.
  - destruct H; lia.
  - destruct H as [_ Hk]. subst k. rewrite (iF s I (S (cur s))) by lia. reflexivity.
  - apply (iA s I); assumption.
  - apply (iA s I); assumption.
  - destruct (iB s I _ _ H) as [?|X]; [left; assumption|rewrite Hc in X; discriminate].
  - destruct (iB s I _ _ H) as [?|X]; [left; assumption|rewrite Hc in X; discriminate].
  - right. destruct Hleft as [?|[_ Hn]]; [assumption|rewrite Hn in H; discriminate].
  - destruct (iC s I _ _ H) as [[_ Hk]|?]; [subst k; contradiction|right; assumption].
  - apply (iD s I); assumption.
  - apply (iD s I); assumption.
  - destruct H; discriminate.
  - destruct H; discriminate.
  - destruct Hleft as [?|[? _]]; auto.
  - destruct (iH s I k H) as [[_ Hk]|[?|[?|?]]]; auto; try (subst k; contradiction).
  - discriminate.
  - discriminate.
  - lia.
  - apply (iF s I). assumption.
  - destruct H; discriminate.
  - destruct H; discriminate.
Qed.

Lemma inv_take : forall s i,
  inv s -> call s = Sel -> pch (ph s (cur s)) = Some i -> inv (take s i).
Proof.
  intros s i I Hc Hp. destruct (iA s I _ _ Hp) as [Hg Hw].
  unfold take. constructor; unfold sel_at; simpl; intros.
  - destruct (Nat.eqb_spec k (cur s)) as [Ek|Hne]; [subst k|]; simpl in *; [discriminate|apply (iA s I); assumption].
  - destruct (Nat.eqb_spec k (cur s)) as [Ek|Hne]; [subst k|]; simpl in *.
    + right. destruct (iB s I _ _ H) as [H1|H1]; [|rewrite Hc in H1; discriminate].
      rewrite Hp in H1. inversion H1. reflexivity.
    + destruct (iB s I _ _ H) as [H1|H1]; [left; exact H1|rewrite Hc in H1; discriminate].
  - destruct (Nat.eqb_spec k (cur s)) as [Ek|Hne]; [subst k|]; simpl in *; [discriminate|].
    destruct (iC s I _ _ H) as [[_ Hk]|?]; [subst k; contradiction|right; assumption].
  - destruct (Nat.eqb_spec k (cur s)) as [Ek|Hne]; [subst k|]; simpl in *; [rewrite Hw in H; discriminate|apply (iD s I); assumption].
  - destruct H; discriminate.
  - destruct (Nat.eqb_spec k (cur s)) as [Ek|Hne]; [subst k|]; simpl in *; [right; left; exact Hw|].
    destruct (iH s I k H) as [[_ Hk]|[?|[?|?]]]; auto; try (subst k; contradiction).
  - inversion H; subst. rewrite Nat.eqb_refl. simpl. auto.
  - destruct (Nat.eqb_spec k (cur s)) as [Ek|Hne]; [subst k|]; [lia|apply (iF s I); assumption].
  - destruct H; discriminate.
Qed.


(* replacing one phase record while the caller stays where it is *)
Lemma inv_setp : forall s k p',
  inv s ->
  (forall i, pch p' = Some i -> gs p' i = GPush /\ pwon p' = true) ->
  (forall i, gs p' i = GPush -> pch p' = Some i \/ call s = Ret (Some (k, i))) ->
  (forall i, pch p' = Some i -> sel_at s k \/ pdr p' = DPending) ->
  (pwon p' = false -> forall i, gs p' i <> GPush /\ gs p' i <> GClosed) ->
  (sel_at s k -> pwon p' = true -> pch p' <> None) ->
  ((k <= cur s)%nat -> sel_at s k \/ pwon p' = true \/ pdr p' = DPending \/ all_done p' = true) ->
  (forall i, call s = Ret (Some (k, i)) -> gs p' i = GPush /\ pch p' = None /\ pwon p' = true) ->
  ((cur s < k)%nat -> p' = p0 (pc p')) ->
  (sel_at s k -> pdr p' = DNone) ->
  inv (setp s k p').
Proof.
  intros s k p' I a b c d e h r f p.
  constructor; intros k0; (destruct (Nat.eq_dec k0 k) as [Ek|Hne];
    [subst k0; rewrite ph_setp_same|rewrite ph_setp_other by assumption]).
  - exact a.
  - apply (iA s I).
  - exact b.
  - apply (iB s I).
  - exact c.
  - apply (iC s I).
  - exact d.
  - apply (iD s I).
  - exact e.
  - apply (iE s I).
  - exact h.
  - apply (iH s I).
  - exact r.
  - apply (iR s I).
  - exact f.
  - apply (iF s I).
  - exact p.
  - apply (iP s I).
Qed.

Lemma guard3 : forall k c i l g g0,
  (k <=? c)%nat && memz i l && gst_eqb g g0 = true -> (k <= c)%nat /\ In i l /\ g = g0.
Proof.
  intros k c i l g g0 H. apply andb_true_iff in H. destruct H as [H H3].
  apply andb_true_iff in H. destruct H as [H1 H2].
  apply Nat.leb_le in H1. apply memz_In in H2. apply gst_eqb_eq in H3. auto.
Qed.

(* a dial goroutine's own state changes from a not-finished state to g (not GPush) *)
Lemma inv_set_gs : forall s k i g,
  inv s -> (k <= cur s)%nat -> In i (pc (ph s k)) -> g_done (gs (ph s k) i) = false ->
  g <> GPush -> (g = GClosed -> pwon (ph s k) = true) ->
  inv (setp s k (set_gs (ph s k) i g)).
Proof.
  intros s k i g I Hle Hin Hg Hnp Hcl.
  assert (Hn : gs (ph s k) i <> GPush) by (intros E; rewrite E in Hg; discriminate).
  apply inv_setp; auto; unfold set_gs; simpl; intros.
  - destruct (iA s I _ _ H) as [Hp Hw]. split; [|exact Hw].
    rewrite updg_other; [exact Hp|]. intros ->. contradiction.
  - destruct (Z.eq_dec i0 i) as [->|Hne]; [rewrite updg_same in H; contradiction|].
    rewrite updg_other in H by assumption. apply (iB s I). exact H.
  - apply (iC s I) with i0. exact H.
  - destruct (Z.eq_dec i0 i) as [->|Hne].
    + rewrite updg_same. split; [exact Hnp|]. intros E. apply Hcl in E. rewrite E in H. discriminate.
    + rewrite updg_other by assumption. apply (iD s I). exact H.
  - apply (iE s I); assumption.
  - destruct (iH s I k Hle) as [?|[?|[?|Hd]]]; auto.
    apply all_done_in with (i := i) in Hd; [|exact Hin]. rewrite Hg in Hd. discriminate.
  - destruct (iR s I _ _ H) as [Hp [Hq Hw]]. split; [|split; assumption].
    rewrite updg_other; [exact Hp|]. intros ->. contradiction.
  - lia.
  - apply (iP s I). exact H.
Qed.

Theorem inv_step : forall s e s', inv s -> step true s e = Some s' -> inv s'.
Proof.
  intros s e s' I H. destruct e; cbn [step] in H.
  - (* DialOk *)
    guards H. inversion H; subst; clear H. apply guard3 in G. destruct G as [Hle [Hin Hg]].
    apply inv_set_gs; auto; try discriminate. rewrite Hg. reflexivity.
  - (* DialFail *)
    guards H. inversion H; subst; clear H. apply guard3 in G. destruct G as [Hle [Hin Hg]].
    apply inv_set_gs; auto; try discriminate. rewrite Hg. reflexivity.
  - (* Deliver *)
    guards H. inversion H; subst; clear H. apply guard3 in G. destruct G as [Hle [Hin Hg]].
    destruct (pwon (ph s k)) eqn:Hw.
    + (* lost the race: close *)
      apply inv_set_gs; auto; try discriminate. rewrite Hg. reflexivity.
    + (* first of the phase: hand over *)
      assert (Hnone : pch (ph s k) = None).
      { destruct (pch (ph s k)) eqn:E; [|reflexivity]. destruct (iA s I _ _ E) as [_ W]. rewrite W in Hw. discriminate. }
      apply inv_setp; [exact I|..]; simpl; intros.
      * inversion H; subst. rewrite updg_same. auto.
      * destruct (Z.eq_dec i0 i) as [->|Hne]; [left; reflexivity|].
        rewrite updg_other in H by assumption. destruct (iD s I k Hw i0) as [Hx _]. contradiction.
      * destruct (iH s I k Hle) as [?|[W|[?|Hd]]]; auto.
        -- rewrite W in Hw. discriminate.
        -- apply all_done_in with (i := i) in Hd; [|exact Hin]. rewrite Hg in Hd. discriminate.
      * discriminate.
      * discriminate.
      * right. left. reflexivity.
      * destruct (iR s I _ _ H) as [_ [_ W]]. rewrite W in Hw. discriminate.
      * lia.
      * apply (iP s I). exact H.
  - (* Take *)
    guards H. inversion H; subst; clear H. destruct (call s) eqn:Hc; [|discriminate]. apply inv_take; assumption.
  - (* CtxArm *)
    guards H. inversion H; subst; clear H. apply andb_true_iff in G. destruct G as [Hs _].
    destruct (call s) eqn:Hc; [clear Hs|discriminate].
    apply inv_leave; auto.
  - (* AllDoneArm *)
    guards H; inversion H; subst; clear H; apply andb_true_iff in G; destruct G as [Hs Hd];
      (destruct (call s) eqn:Hc; [clear Hs|discriminate]).
    + apply inv_take; assumption.
    + apply inv_ext with (advance (setp s (cur s) (ph s (cur s)))).
      * apply inv_leave; auto.
      * intros k. unfold advance. cbn [setp cur nph ph].
        destruct (S (cur s) <? nph s)%nat; cbn [ph];
          (destruct (Nat.eqb_spec k (cur s)) as [->|?]; reflexivity).
      * unfold advance. cbn [setp cur nph]. destruct (S (cur s) <? nph s)%nat; reflexivity.
      * unfold advance. cbn [setp cur nph]. destruct (S (cur s) <? nph s)%nat; reflexivity.
  - (* Cancel *)
    inversion H; subst; clear H. apply inv_ext with s; auto.
  - (* Drain *)
    guards H; inversion H; subst; clear H; apply andb_true_iff in G; destruct G as [Hle Had];
      apply Nat.leb_le in Hle.
    + (* a parked connection is closed *)
      rename G1 into Hp. rename G0 into Hd.
      destruct (iA s I _ _ Hp) as [Hg Hw].
      apply inv_setp; [exact I|..]; simpl; intros.
      * discriminate.
      * destruct (Z.eq_dec i z) as [->|Hne]; [rewrite updg_same in H; discriminate|].
        rewrite updg_other in H by assumption.
        destruct (iB s I _ _ H) as [H1|H1]; [rewrite Hp in H1; inversion H1; subst; contradiction|right; exact H1].
      * discriminate.
      * rewrite Hw in H. discriminate.
      * apply (iP s I) in H. rewrite H in Hd. discriminate.
      * right. left. exact Hw.
      * destruct (iR s I _ _ H) as [_ [Hq _]]. rewrite Hq in Hp. discriminate.
      * lia.
      * apply (iP s I) in H. rewrite H in Hd. discriminate.
    + rename G1 into Hp. rename G0 into Hd.
      apply inv_setp; [exact I|..]; simpl; intros.
      * discriminate.
      * apply (iB s I) in H. rewrite Hp in H. destruct H; [discriminate|right; assumption].
      * discriminate.
      * apply (iD s I). exact H.
      * apply (iP s I) in H. rewrite H in Hd. discriminate.
      * right. right. right. exact Had.
      * destruct (iR s I _ _ H) as [? [? ?]]. auto.
      * lia.
      * apply (iP s I) in H. rewrite H in Hd. discriminate.
  - (* SrvUp *)
    guards H. inversion H; subst; clear H. apply inv_ext with s; auto.
  - (* Accept *)
    guards H. inversion H; subst; clear H. apply inv_ext with s; auto.
Qed.

Lemma inv_run : forall evs s s', inv s -> run true s evs = Some s' -> inv s'.
Proof.
  induction evs as [|e r IH]; simpl; intros s s' I H.
  - inversion H; subst. exact I.
  - destruct (step true s e) eqn:E; [|discriminate]. apply IH with s0; [|exact H].
    apply inv_step with s e; assumption.
Qed.

Theorem reach_inv : forall phases evs s, run true (init phases) evs = Some s -> inv s.
Proof. intros phases evs s H. apply inv_run with evs (init phases); [apply inv_init|exact H]. Qed.

(* ---------- the dialing side gets one connection, established and open ---------- *)
Theorem one_returned : forall phases evs s k i,
  run true (init phases) evs = Some s -> returned s = Some (k, i) ->
  gs (ph s k) i = GPush /\ conn_class s k i = 1 /\ leaked s k i = false.
Proof.
  intros phases evs s k i H R. apply reach_inv in H. unfold returned in R.
  destruct (call s) eqn:Hc; [discriminate|]. subst r.
  destruct (iR s H _ _ Hc) as [Hg _]. unfold conn_class, leaked, returned. rewrite Hg, Hc.
  split; [reflexivity|split; [reflexivity|]].
  assert (E : conn_eqb (k, i) (k, i) = true) by (apply conn_eqb_eq; reflexivity). rewrite E. reflexivity.
Qed.

Lemma in_upto : forall n k, In k (upto n) <-> (k < n)%nat.
Proof.
  induction n as [|n IH]; simpl; intros k.
  - split; [contradiction|lia].
  - rewrite in_app_iff, IH. simpl. split; [intros [?|[?|[]]]; lia|intros H; destruct (Nat.eq_dec k n); [right; left; auto|left; lia]].
Qed.

(* ---------- every other established connection is closed ---------- *)
Theorem losers_closed : forall phases evs s,
  run true (init phases) evs = Some s -> quiescent s = true ->
  forall k i, In i (pc (ph s k)) -> leaked s k i = false.
Proof.
  intros phases evs s H Q k i Hin. apply reach_inv in H.
  unfold quiescent in Q. apply andb_true_iff in Q. destruct Q as [Qc Qp].
  rewrite forallb_forall in Qp.
  destruct (le_lt_dec k (cur s)) as [Hle|Hgt].
  - assert (Hq : phase_quiet (ph s k) = true) by (apply Qp; apply in_upto; lia).
    unfold phase_quiet in Hq. apply andb_true_iff in Hq. destruct Hq as [Hd Hdr].
    pose proof (all_done_in _ _ Hd Hin) as Hg.
    unfold leaked. destruct (gs (ph s k) i) eqn:Eg; try reflexivity; try discriminate.
    destruct (iB s H _ _ Eg) as [Hp|Hr].
    + destruct (iC s H _ _ Hp) as [[Hs _]|Hx].
      * rewrite Hs in Qc. discriminate.
      * rewrite Hx in Hdr. discriminate.
    + unfold returned. rewrite Hr.
      assert (E : conn_eqb (k, i) (k, i) = true) by (apply conn_eqb_eq; reflexivity). rewrite E. reflexivity.
  - unfold leaked. rewrite (iF s H k Hgt). simpl. reflexivity.
Qed.

(* ---------- without cancellation the caller gets a connection as soon as any dial succeeds ---------- *)
Record inv2 (s : st) : Prop := mkInv2 {
  jS : call s = Sel -> cancelled s = false;
  jD : forall k, (k < cur s)%nat \/ (k = cur s /\ call s = Ret None) ->
         all_done (ph s k) = true /\ pwon (ph s k) = false;
  jN : call s = Ret None -> (nph s <= S (cur s))%nat;
  jP : forall k, pdr (ph s k) = DNone
}.

Lemma inv2_init : forall phases, inv2 (init phases).
Proof.
  intros phases. constructor; unfold init; simpl; intros.
  - destruct phases; simpl in *; [discriminate|reflexivity].
  - destruct H as [H|[H1 H2]]; [lia|]. subst k. destruct phases; simpl in *; [auto|discriminate].
  - destruct phases; simpl in *; [lia|discriminate].
  - reflexivity.
Qed.

Lemma inv2_step : forall s e s',
  inv s -> inv2 s -> e <> Cancel -> step true s e = Some s' -> inv2 s'.
Proof.
  intros s e s' I J Hne H.
  assert (Hset : forall k i p',
            (k <= cur s)%nat -> In i (pc (ph s k)) -> g_done (gs (ph s k) i) = false ->
            pdr p' = pdr (ph s k) ->
            inv2 (setp s k p')).
  { intros k i p' Hle Hin Hg Hd. constructor; simpl; intros.
    - apply (jS s J). exact H0.
    - destruct (Nat.eqb_spec k0 k) as [->|Hnk]; [|apply (jD s J); exact H0].
      exfalso. destruct (jD s J k H0) as [Had _].
      apply all_done_in with (i := i) in Had; [|exact Hin]. rewrite Hg in Had. discriminate.
    - apply (jN s J). exact H0.
    - destruct (Nat.eqb_spec k0 k) as [->|Hnk]; [rewrite Hd|]; apply (jP s J). }
  destruct e; cbn [step] in H.
  - guards H. inversion H; subst; clear H. apply guard3 in G. destruct G as [Hle [Hin Hg]].
    apply Hset with i; auto. rewrite Hg. reflexivity.
  - guards H. inversion H; subst; clear H. apply guard3 in G. destruct G as [Hle [Hin Hg]].
    apply Hset with i; auto. rewrite Hg. reflexivity.
  - guards H. inversion H; subst; clear H. apply guard3 in G. destruct G as [Hle [Hin Hg]].
    apply Hset with i; auto; [rewrite Hg; reflexivity|destruct (pwon (ph s k)); reflexivity].
  - guards H. inversion H; subst; clear H. unfold take. constructor; simpl; intros.
    + discriminate.
    + destruct H as [H|[_ H]]; [|discriminate].
      destruct (Nat.eqb_spec k (cur s)) as [->|Hnk]; [lia|]. apply (jD s J). left. exact H.
    + discriminate.
    + destruct (Nat.eqb_spec k (cur s)) as [->|Hnk]; simpl; apply (jP s J).
  - guards H. apply andb_true_iff in G. destruct G as [Hs Hc].
    destruct (call s) eqn:Ec; [|discriminate]. rewrite (jS s J Ec) in Hc. discriminate.
  - guards H; inversion H; subst; clear H; apply andb_true_iff in G; destruct G as [Hs Hd];
      (destruct (call s) eqn:Hc; [clear Hs|discriminate]).
    + unfold take. constructor; simpl; intros.
      * discriminate.
      * destruct H as [H|[_ H]]; [|discriminate].
        destruct (Nat.eqb_spec k (cur s)) as [->|Hnk]; [lia|]. apply (jD s J). left. exact H.
      * discriminate.
      * destruct (Nat.eqb_spec k (cur s)) as [->|Hnk]; simpl; apply (jP s J).
    + assert (Hw : pwon (ph s (cur s)) = false).
      { destruct (pwon (ph s (cur s))) eqn:W; [|reflexivity].
        exfalso. apply (iE s I (cur s)); [split; auto|exact W|exact G0]. }
      unfold advance. destruct (S (cur s) <? nph s)%nat eqn:E; constructor; simpl; intros.
      * apply (jS s J). exact Hc.
      * destruct H as [H|[_ H]]; [|discriminate].
        destruct (Nat.eq_dec k (cur s)) as [->|Hnk]; [auto|]. apply (jD s J). left. lia.
      * discriminate.
      * apply (jP s J).
      * discriminate.
      * destruct H as [H|[H _]]; [apply (jD s J); left; exact H|subst k; auto].
      * apply Nat.ltb_ge in E. lia.
      * apply (jP s J).
  - contradiction.
  - guards H; rewrite (jP s J) in G0; discriminate.
  - guards H. inversion H; subst; clear H. destruct J as [j1 j2 j3 j4]. constructor; simpl; assumption.
  - guards H. inversion H; subst; clear H. destruct J as [j1 j2 j3 j4]. constructor; simpl; assumption.
Qed.

Theorem returns_if_any : forall phases evs s,
  run true (init phases) evs = Some s -> ~ In Cancel evs -> call s = Ret None ->
  forall k i, (k < nph s)%nat -> In i (pc (ph s k)) -> gs (ph s k) i = GFail.
Proof.
  intros phases evs s H Hn Hc k i Hk Hin.
  assert (IJ : inv s /\ inv2 s).
  { assert (G : forall evs s0, inv s0 -> inv2 s0 -> ~ In Cancel evs -> run true s0 evs = Some s -> inv s /\ inv2 s).
    { clear. induction evs as [|e r IH]; simpl; intros s0 I J Hn H.
      - inversion H; subst. auto.
      - destruct (step true s0 e) eqn:E; [|discriminate].
        apply IH with s1; auto.
        + apply inv_step with s0 e; assumption.
        + apply inv2_step with s0 e; auto. }
    apply G with evs (init phases); auto using inv_init, inv2_init. }
  destruct IJ as [I J].
  pose proof (jN s J Hc) as Hnp.
  assert (Hd : all_done (ph s k) = true /\ pwon (ph s k) = false).
  { apply (jD s J). destruct (Nat.eq_dec k (cur s)); [right; auto|left; lia]. }
  destruct Hd as [Hd Hw].
  pose proof (all_done_in _ _ Hd Hin) as Hg. destruct (iD s I k Hw i) as [N1 N2].
  destruct (gs (ph s k) i); try discriminate; try contradiction; reflexivity.
Qed.

(* ---------- both sides on the same connection: holds with a single reachable candidate ---------- *)
Definition ev_conn (e : ev) : option conn :=
  match e with DialOk k i | SrvUp k i => Some (k, i) | _ => None end.

(* every handshake that completes (on either side) belongs to connection c0 *)
Definition only_conn (c0 : conn) (evs : list ev) : Prop :=
  forall e c, In e evs -> ev_conn e = Some c -> c = c0.

Definition g_est (g : gst) : bool := match g with GHave | GPush | GClosed => true | _ => false end.

Record invQ (c0 : conn) (s : st) : Prop := mkQ {
  qS : forall c, In c (srvq s) -> c = c0;
  qP : forall c, prim s = Some c -> c = c0;
  qG : forall k i, g_est (gs (ph s k) i) = true -> (k, i) = c0
}.

Lemma invQ_step : forall c0 s e s',
  inv s -> invQ c0 s -> (forall c, ev_conn e = Some c -> c = c0) -> step true s e = Some s' -> invQ c0 s'.
Proof.
  intros c0 s e s' I Q He H.
  assert (Hset : forall k i g p', pc p' = pc (ph s k) ->
            gs p' = updg (gs (ph s k)) i g ->
            (g_est g = true -> (k, i) = c0) -> invQ c0 (setp s k p')).
  { intros k i g p' _ Eg Hg. constructor; simpl; [intros c Hc|intros c Hc|intros k1 i1 Hg1].
    - apply (qS c0 s Q). exact Hc.
    - apply (qP c0 s Q). exact Hc.
    - destruct (Nat.eqb_spec k1 k) as [->|Hnk]; [|apply (qG c0 s Q); exact Hg1].
      rewrite Eg in Hg1. unfold updg in Hg1. destruct (Z.eqb_spec i1 i) as [Ei|Hni]; [subst i1; auto|apply (qG c0 s Q); exact Hg1]. }
  assert (Hsame : forall s1, srvq s1 = srvq s -> prim s1 = prim s ->
            (forall k i, gs (ph s1 k) i = gs (ph s k) i) -> invQ c0 s1).
  { intros s1 E2 E3 E1. destruct Q as [a b c]. constructor; intros; rewrite ?E1, ?E2, ?E3 in *; auto. }
  assert (Hadv : forall s1, srvq s1 = srvq s -> prim s1 = prim s ->
            (forall k i, gs (ph s1 k) i = gs (ph s k) i) -> invQ c0 (advance s1)).
  { intros s1 E2 E3 E1. apply Hsame; unfold advance; destruct (S (cur s1) <? nph s1)%nat; simpl; auto. }
  assert (Htake : forall j, invQ c0 (take s j)).
  { intros j. apply Hsame; unfold take; simpl; auto.
    intros k i. destruct (Nat.eqb_spec k (cur s)) as [E|E]; [subst k|]; reflexivity. }
  destruct e; cbn [step] in H.
  - guards H. inversion H; subst; clear H. apply Hset with i GHave; auto; try (intros _; apply He; reflexivity).
  - guards H. inversion H; subst; clear H. apply Hset with i GFail; auto; try discriminate.
  - guards H. inversion H; subst; clear H. apply guard3 in G. destruct G as [_ [_ Hg]].
    assert (Hc : (k, i) = c0) by (apply (qG c0 s Q); rewrite Hg; reflexivity).
    destruct (pwon (ph s k)); [apply Hset with i GClosed|apply Hset with i GPush]; auto.
  - guards H. inversion H; subst; clear H. apply Htake.
  - guards H. inversion H; subst; clear H. apply Hadv; simpl; auto.
    intros k i. destruct (Nat.eqb_spec k (cur s)) as [E|E]; [subst k|]; reflexivity.
  - guards H; inversion H; subst; clear H.
    + apply Htake.
    + apply Hadv; auto.
  - inversion H; subst; clear H. apply Hsame; reflexivity.
  - guards H; inversion H; subst; clear H.
    + apply Hset with z GClosed; auto. intros _. apply (qG c0 s Q).
      destruct (iA s I _ _ G1) as [Hg _]. rewrite Hg. reflexivity.
    + apply Hsame; simpl; auto.
      intros k0 i. destruct (Nat.eqb_spec k0 k) as [E|E]; [subst k0|]; reflexivity.
  - guards H. inversion H; subst; clear H. constructor; simpl; [intros c Hc|intros c Hc|intros k1 i1 Hg1].
    + apply in_app_iff in Hc. destruct Hc as [Hc|[Hc|[]]]; [apply (qS c0 s Q); exact Hc|].
      subst c. apply He. reflexivity.
    + apply (qP c0 s Q). exact Hc.
    + apply (qG c0 s Q). exact Hg1.
  - guards H. inversion H; subst; clear H. constructor; simpl; [intros c1 Hc|intros c1 Hc|intros k1 i1 Hg1].
    + apply (qS c0 s Q). rewrite G0. right. exact Hc.
    + inversion Hc; subst. apply (qS c0 s Q). rewrite G0. left. reflexivity.
    + apply (qG c0 s Q). exact Hg1.
Qed.

Theorem same_connection_single : forall phases evs s c0 c c',
  run true (init phases) evs = Some s -> only_conn c0 evs ->
  returned s = Some c -> prim s = Some c' -> c = c'.
Proof.
  intros phases evs s c0 c c' H Ho R P.
  assert (G : forall evs s0, inv s0 -> invQ c0 s0 -> only_conn c0 evs -> run true s0 evs = Some s -> inv s /\ invQ c0 s).
  { clear. induction evs as [|e r IH]; simpl; intros s0 I Q Ho H.
    - inversion H; subst. auto.
    - destruct (step true s0 e) eqn:E; [|discriminate].
      apply IH with s1; auto.
      + apply inv_step with s0 e; assumption.
      + apply invQ_step with s0 e; auto. intros c Hc. apply Ho with e; [left; reflexivity|exact Hc].
      + intros e' c Hin Hc. apply Ho with e'; [right; exact Hin|exact Hc]. }
  assert (Q0 : invQ c0 (init phases)) by (constructor; unfold init; simpl; intros; try contradiction; discriminate).
  destruct (G evs (init phases) (inv_init phases) Q0 Ho H) as [I Q].
  rewrite (qP c0 s Q c' P). unfold returned in R. destruct (call s) eqn:Hc; [discriminate|]. subst r.
  destruct c as [k i]. destruct (iR s I _ _ Hc) as [Hg _].
  apply (qG c0 s Q). rewrite Hg. reflexivity.
Qed.

(* ---------- the candidate plan: duplicates dialled once, direct before relay ---------- *)
Lemma dedup_in : forall l x, In x (dedup l) <-> In x l.
Proof.
  induction l as [|y r IH]; simpl; intros x; [tauto|].
  destruct (memz y r) eqn:E.
  - rewrite IH. split; [auto|]. intros [->|H]; [apply memz_In; exact E|exact H].
  - simpl. rewrite IH. tauto.
Qed.

Lemma dedup_nodup : forall l, NoDup (dedup l).
Proof.
  induction l as [|y r IH]; simpl; [constructor|].
  destruct (memz y r) eqn:E; [exact IH|]. constructor; [|exact IH].
  rewrite dedup_in. intros Hin. apply memz_In in Hin. rewrite Hin in E. discriminate.
Qed.

Lemma plan_phases : forall t cs p, In p (plan t cs) ->
  NoDup p /\ p <> [] /\ (forall c, In c p -> In c cs) /\
  ((forall c, In c p -> is_turn c = false) \/ (forall c, In c p -> is_turn c = true)).
Proof.
  intros t cs p H. unfold plan in H. apply in_app_iff in H. destruct H as [H|H].
  - destruct (t || isnil (filter (fun c => negb (is_turn c)) (dedup cs))) eqn:E; [contradiction|].
    destruct H as [<-|[]]. apply orb_false_iff in E. destruct E as [_ E].
    split; [apply NoDup_filter, dedup_nodup|]. split; [intros X; rewrite X in E; discriminate|].
    split; [intros c Hc; apply filter_In in Hc; apply dedup_in; tauto|].
    left. intros c Hc. apply filter_In in Hc. destruct Hc as [_ Hc]. apply negb_true_iff. exact Hc.
  - destruct (isnil (filter is_turn (dedup cs))) eqn:E; [contradiction|].
    destruct H as [<-|[]].
    split; [apply NoDup_filter, dedup_nodup|]. split; [intros X; rewrite X in E; discriminate|].
    split; [intros c Hc; apply filter_In in Hc; apply dedup_in; tauto|].
    right. intros c Hc. apply filter_In in Hc. tauto.
Qed.

Lemma plan_covers : forall t cs c, In c cs -> (t = false \/ is_turn c = true) ->
  exists p, In p (plan t cs) /\ In c p.
Proof.
  intros t cs c Hin Hk. unfold plan. destruct (is_turn c) eqn:Ec.
  - exists (filter is_turn (dedup cs)).
    assert (Hf : In c (filter is_turn (dedup cs))) by (apply filter_In; split; [apply dedup_in; exact Hin|exact Ec]).
    split; [|exact Hf]. apply in_app_iff. right.
    destruct (filter is_turn (dedup cs)); [contradiction|]. left. reflexivity.
  - destruct Hk as [->|Hk]; [|discriminate].
    exists (filter (fun c => negb (is_turn c)) (dedup cs)).
    assert (Hf : In c (filter (fun c => negb (is_turn c)) (dedup cs)))
      by (apply filter_In; split; [apply dedup_in; exact Hin|rewrite Ec; reflexivity]).
    split; [|exact Hf]. apply in_app_iff. left.
    destruct (filter (fun c => negb (is_turn c)) (dedup cs)); [contradiction|]. left. reflexivity.
Qed.

Lemma plan_order : forall t cs, (length (plan t cs) <= 2)%nat /\
  forall p q r, plan t cs = p :: q :: r ->
    (forall c, In c p -> is_turn c = false) /\ (forall c, In c q -> is_turn c = true) /\ r = [].
Proof.
  intros t cs. unfold plan.
  destruct (t || isnil (filter (fun c => negb (is_turn c)) (dedup cs)));
  destruct (isnil (filter is_turn (dedup cs))); simpl; (split; [lia|]); intros p q r H; try discriminate.
  inversion H; subst. split; [|split; [|reflexivity]]; intros c Hc; apply filter_In in Hc; destruct Hc as [_ Hc]; auto.
  apply negb_true_iff. exact Hc.
Qed.

Lemma plan_turn_only : forall cs p c, In p (plan true cs) -> In c p -> is_turn c = true.
Proof.
  intros cs p c H Hc. unfold plan in H. simpl in H.
  destruct (isnil (filter is_turn (dedup cs))); [contradiction|]. destruct H as [<-|[]].
  apply filter_In in Hc. tauto.
Qed.

(* ---------- nothing blocks: a decreasing measure and an enabled step ---------- *)
Lemma gsum_upd_le : forall f i g l, (gw g <= gw (f i))%nat -> (gsum (updg f i g) l <= gsum f l)%nat.
Proof.
  intros f i g l H. induction l as [|j r IH]; simpl; [lia|].
  unfold updg at 1. destruct (Z.eqb_spec j i) as [E|E]; [subst j|]; lia.
Qed.

Lemma gsum_upd_lt : forall f i g l, (gw g < gw (f i))%nat -> In i l -> (gsum (updg f i g) l < gsum f l)%nat.
Proof.
  intros f i g l H Hin. induction l as [|j r IH]; simpl; [contradiction|].
  assert (Hle : (gsum (updg f i g) r <= gsum f r)%nat) by (apply gsum_upd_le; lia).
  unfold updg at 1. destruct (Z.eqb_spec j i) as [E|E]; [subst j; lia|].
  destruct Hin as [Hin|Hin]; [congruence|]. apply IH in Hin. lia.
Qed.

Lemma psumn_ext : forall f f' n, (forall k, (k < n)%nat -> pm (f k) = pm (f' k)) -> psumn f n = psumn f' n.
Proof.
  intros f f' n. induction n as [|n IH]; simpl; intros H; [reflexivity|].
  rewrite IH by (intros k Hk; apply H; lia). rewrite (H n) by lia. reflexivity.
Qed.

Lemma psumn_upd : forall f k p' n, (k < n)%nat ->
  (psumn (fun j => if Nat.eqb j k then p' else f j) n + pm (f k) = psumn f n + pm p')%nat.
Proof.
  intros f k p' n. induction n as [|n IH]; simpl; intros H; [lia|].
  destruct (Nat.eqb_spec n k) as [E|E].
  - subst n. rewrite (psumn_ext (fun j => if Nat.eqb j k then p' else f j) f k).
    + lia.
    + intros j Hj. destruct (Nat.eqb_spec j k); [lia|reflexivity].
  - assert (Hk : (k < n)%nat) by lia. apply IH in Hk. lia.
Qed.

Lemma span_gt : forall s k, (k <= cur s)%nat -> (k < span s)%nat.
Proof. intros s k H. unfold span. lia. Qed.

Lemma measure_setp : forall s k p', (k <= cur s)%nat -> (pm p' < pm (ph s k))%nat ->
  (measure (setp s k p') < measure s)%nat.
Proof.
  intros s k p' Hk Hp. unfold measure, span. cbn [setp call nph cur ph].
  pose proof (psumn_upd (ph s) k p' (Nat.max (nph s) (S (cur s)))) as E.
  assert (Hlt : (k < Nat.max (nph s) (S (cur s)))%nat) by lia. apply E in Hlt. lia.
Qed.

Lemma measure_take : forall s i, call s = Sel -> (measure (take s i) < measure s)%nat.
Proof.
  intros s i Hc. unfold measure, span, take. cbn [setp call nph cur ph]. rewrite Hc.
  rewrite (psumn_ext _ (ph s)).
  - lia.
  - intros k _. destruct (Nat.eqb_spec k (cur s)) as [E|E]; [subst k|]; reflexivity.
Qed.

Lemma measure_advance : forall s s1, call s = Sel ->
  nph s1 = nph s -> cur s1 = cur s -> call s1 = Sel ->
  (psumn (ph s1) (span s) <= psumn (ph s) (span s) + 1)%nat ->
  (measure (advance s1) < measure s)%nat.
Proof.
  intros s s1 Hc En Ec El Hp. unfold measure, advance. rewrite Hc.
  assert (Es : span s1 = span s) by (unfold span; rewrite En, Ec; reflexivity).
  destruct (S (cur s1) <? nph s1)%nat eqn:E.
  - apply Nat.ltb_lt in E. unfold span in *. cbn [call nph cur ph]. rewrite En, Ec in *.
    replace (Nat.max (nph s) (S (S (cur s)))) with (Nat.max (nph s) (S (cur s))) by lia. lia.
  - unfold span in *. cbn [call nph cur ph]. rewrite En, Ec in *. lia.
Qed.

Theorem measure_decreases : forall s e s',
  dial_side e = true -> step true s e = Some s' -> (measure s' < measure s)%nat.
Proof.
  intros s e s' Hd H. destruct e; try discriminate; cbn [step] in H.
  - guards H. inversion H; subst; clear H. apply guard3 in G. destruct G as [Hle [Hin Hg]].
    apply measure_setp; [exact Hle|]. unfold pm, set_gs. cbn [gs pc pdr].
    assert ((gsum (updg (gs (ph s k)) i GHave) (pc (ph s k)) < gsum (gs (ph s k)) (pc (ph s k)))%nat)
      by (apply gsum_upd_lt; [rewrite Hg; simpl; lia|exact Hin]). lia.
  - guards H. inversion H; subst; clear H. apply guard3 in G. destruct G as [Hle [Hin Hg]].
    apply measure_setp; [exact Hle|]. unfold pm, set_gs. cbn [gs pc pdr].
    assert ((gsum (updg (gs (ph s k)) i GFail) (pc (ph s k)) < gsum (gs (ph s k)) (pc (ph s k)))%nat)
      by (apply gsum_upd_lt; [rewrite Hg; simpl; lia|exact Hin]). lia.
  - guards H. inversion H; subst; clear H. apply guard3 in G. destruct G as [Hle [Hin Hg]].
    apply measure_setp; [exact Hle|].
    assert (H1 : (gsum (updg (gs (ph s k)) i GClosed) (pc (ph s k)) < gsum (gs (ph s k)) (pc (ph s k)))%nat)
      by (apply gsum_upd_lt; [rewrite Hg; simpl; lia|exact Hin]).
    assert (H2 : (gsum (updg (gs (ph s k)) i GPush) (pc (ph s k)) < gsum (gs (ph s k)) (pc (ph s k)))%nat)
      by (apply gsum_upd_lt; [rewrite Hg; simpl; lia|exact Hin]).
    destruct (pwon (ph s k)); unfold pm, set_gs; cbn [gs pc pdr]; lia.
  - guards H. inversion H; subst; clear H. destruct (call s) eqn:Hc; [|discriminate]. apply measure_take. exact Hc.
  - guards H. inversion H; subst; clear H. apply andb_true_iff in G. destruct G as [Hs _].
    destruct (call s) eqn:Hc; [|discriminate].
    apply measure_advance; auto.
    pose proof (psumn_upd (ph s) (cur s)
      (mkP (pc (ph s (cur s))) (gs (ph s (cur s))) (pwon (ph s (cur s))) (pch (ph s (cur s))) DPending)
      (span s) (span_gt s (cur s) (le_n _))) as E.
    cbn [setp ph]. unfold pm in E. cbn [gs pc pdr] in E.
    destruct (pdr (ph s (cur s))); lia.
  - guards H; inversion H; subst; clear H; apply andb_true_iff in G; destruct G as [Hs Had];
      (destruct (call s) eqn:Hc; [|discriminate]).
    + apply measure_take. exact Hc.
    + apply measure_advance; auto. lia.
  - guards H; inversion H; subst; clear H; apply andb_true_iff in G; destruct G as [Hle Had];
      apply Nat.leb_le in Hle; (apply measure_setp; [exact Hle|]); unfold pm; cbn [gs pc pdr]; rewrite G0.
    + assert ((gsum (updg (gs (ph s k)) z GClosed) (pc (ph s k)) <= gsum (gs (ph s k)) (pc (ph s k)))%nat)
        by (apply gsum_upd_le; simpl; lia). lia.
    + lia.
Qed.

Lemma forallb_false_ex : forall {A} (f : A -> bool) l, forallb f l = false -> exists x, In x l /\ f x = false.
Proof.
  intros A f l. induction l as [|y r IH]; simpl; intros H; [discriminate|].
  destruct (f y) eqn:E.
  - simpl in H. destruct (IH H) as [x [Hx Hf]]. exists x. auto.
  - exists y. auto.
Qed.

(* a phase with a goroutine that has not finished offers a step *)
Lemma unfinished_step : forall s k, (k <= cur s)%nat -> all_done (ph s k) = false ->
  exists e, dial_side e = true /\ step true s e <> None.
Proof.
  intros s k Hk H. unfold all_done in H. apply forallb_false_ex in H. destruct H as [i [Hin Hg]].
  assert (Hm : memz i (pc (ph s k)) = true) by (apply memz_In; exact Hin).
  apply Nat.leb_le in Hk.
  destruct (gs (ph s k) i) eqn:Eg; try discriminate.
  - exists (DialFail k i). split; [reflexivity|]. cbn [step]. rewrite Hk, Hm, Eg. simpl. discriminate.
  - exists (Deliver k i). split; [reflexivity|]. cbn [step]. rewrite Hk, Hm, Eg. simpl. discriminate.
Qed.

Theorem progress : forall phases evs s,
  run true (init phases) evs = Some s -> quiescent s = false ->
  exists e, dial_side e = true /\ step true s e <> None.
Proof.
  intros phases evs s H Q. apply reach_inv in H. unfold quiescent in Q.
  destruct (call s) eqn:Hc.
  - (* the caller is in its select *)
    destruct (pch (ph s (cur s))) eqn:Ep.
    + exists Take. split; [reflexivity|]. cbn [step]. rewrite Hc, Ep. simpl. discriminate.
    + destruct (all_done (ph s (cur s))) eqn:Ed.
      * exists AllDoneArm. split; [reflexivity|]. cbn [step]. rewrite Hc, Ed, Ep. simpl. discriminate.
      * apply unfinished_step with (cur s); [lia|exact Ed].
  - simpl in Q. apply forallb_false_ex in Q. destruct Q as [k [Hk Hq]].
    change (upto (cur s) ++ [cur s]) with (upto (S (cur s))) in Hk. apply in_upto in Hk.
    unfold phase_quiet in Hq. destruct (all_done (ph s k)) eqn:Ed.
    + simpl in Hq. destruct (pdr (ph s k)) eqn:Er; try discriminate.
      exists (Drain k). split; [reflexivity|]. cbn [step].
      assert (Hle : (k <=? cur s)%nat = true) by (apply Nat.leb_le; lia).
      rewrite Hle, Ed, Er. simpl. destruct (pch (ph s k)); discriminate.
    + apply unfinished_step with k; [lia|exact Ed].
Qed.

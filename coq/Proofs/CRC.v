(* CRC-32C detects every error confined to one byte (so in particular every
   single-bit flip): the shift register step is injective on 32-bit states. *)
From Coq Require Import ZArith List Lia Bool.
Import ListNotations.
From TF Require Import Model.CRC.
Open Scope Z_scope.

Definition st32 (c : Z) : Prop := 0 <= c < 2^32.

Lemma lxor_bound n a b : 0 < n -> 0 <= a < 2^n -> 0 <= b < 2^n -> 0 <= Z.lxor a b < 2^n.
Proof.
  intros Hn Ha Hb.
  assert (N : 0 <= Z.lxor a b) by (apply Z.lxor_nonneg; split; intros; lia).
  split; [exact N|].
  destruct (Z.eq_dec (Z.lxor a b) 0) as [E|E]; [rewrite E; apply Z.pow_pos_nonneg; lia|].
  assert (P : 0 < Z.lxor a b) by lia.
  apply Z.log2_lt_pow2; [exact P|].
  pose proof (Z.log2_lxor a b ltac:(lia) ltac:(lia)) as L.
  assert (La : Z.log2 a < n).
  { destruct (Z.eq_dec a 0) as [->|]; [cbn; lia|]. apply Z.log2_lt_pow2; lia. }
  assert (Lb : Z.log2 b < n).
  { destruct (Z.eq_dec b 0) as [->|]; [cbn; lia|]. apply Z.log2_lt_pow2; lia. }
  lia.
Qed.

Lemma shiftr1_bound c : st32 c -> 0 <= Z.shiftr c 1 < 2^31.
Proof.
  unfold st32. intros H. rewrite Z.shiftr_div_pow2 by lia. change (2^1) with 2.
  split; [apply Z.div_pos; lia|apply Z.div_lt_upper_bound; lia].
Qed.

Lemma poly_st32 : st32 crc_poly. Proof. unfold st32, crc_poly. lia. Qed.

Lemma crc_step_st32 c : st32 c -> st32 (crc_step c).
Proof.
  intros H. unfold crc_step, st32. pose proof (shiftr1_bound c H) as S.
  apply lxor_bound; [lia|lia|]. destruct (Z.odd c); [exact poly_st32|lia].
Qed.

Lemma bit31 a : st32 a -> Z.testbit a 31 = (2^31 <=? a).
Proof.
  unfold st32. intros H. rewrite Z.testbit_eqb by lia.
  destruct (Z.leb_spec (2^31) a) as [L|L].
  - assert (a / 2^31 = 1) as ->; [|reflexivity].
    symmetry. apply (Z.div_unique a (2^31) 1 (a - 2^31)); lia.
  - rewrite Z.div_small by lia. reflexivity.
Qed.

(* the top bit of the next state tells whether the polynomial was added *)
Lemma crc_step_top c : st32 c -> Z.testbit (crc_step c) 31 = Z.odd c.
Proof.
  intros H. unfold crc_step. rewrite Z.lxor_spec. pose proof (shiftr1_bound c H) as S.
  rewrite (bit31 (Z.shiftr c 1)) by (unfold st32; lia).
  replace (2^31 <=? Z.shiftr c 1) with false by (symmetry; apply Z.leb_gt; lia).
  destruct (Z.odd c); reflexivity.
Qed.

Lemma lxor_cancel_r x y k : Z.lxor x k = Z.lxor y k -> x = y.
Proof.
  intros E. apply (f_equal (fun z => Z.lxor z k)) in E.
  rewrite !Z.lxor_assoc, !Z.lxor_nilpotent, !Z.lxor_0_r in E. exact E.
Qed.

Lemma crc_step_inj a b : st32 a -> st32 b -> crc_step a = crc_step b -> a = b.
Proof.
  intros Ha Hb E.
  assert (O : Z.odd a = Z.odd b) by (rewrite <- (crc_step_top a Ha), <- (crc_step_top b Hb), E; reflexivity).
  unfold crc_step in E. rewrite O in E.
  assert (S : Z.shiftr a 1 = Z.shiftr b 1) by (eapply lxor_cancel_r; exact E).
  rewrite !Z.shiftr_div_pow2 in S by lia. change (2^1) with 2 in S.
  rewrite (Z.div_mod a 2), (Z.div_mod b 2) by lia. rewrite S. f_equal.
  rewrite !Zmod_odd, O. reflexivity.
Qed.

Lemma crc_step8_st32 c : st32 c -> st32 (crc_step8 c).
Proof. intros H. unfold crc_step8. do 8 apply crc_step_st32. exact H. Qed.

Lemma crc_step8_inj a b : st32 a -> st32 b -> crc_step8 a = crc_step8 b -> a = b.
Proof.
  intros Ha Hb E. unfold crc_step8 in E.
  repeat (apply crc_step_inj in E; [|repeat apply crc_step_st32; assumption|repeat apply crc_step_st32; assumption]).
  exact E.
Qed.

Definition byte (b : Z) : Prop := 0 <= b < 256.

Lemma crc_byte_st32 c b : st32 c -> byte b -> st32 (crc_byte c b).
Proof.
  intros Hc Hb. unfold crc_byte. apply crc_step8_st32. unfold st32 in *. unfold byte in Hb.
  apply lxor_bound; lia.
Qed.

Lemma crc_byte_inj_state c d b : st32 c -> st32 d -> byte b -> crc_byte c b = crc_byte d b -> c = d.
Proof.
  intros Hc Hd Hb E. unfold crc_byte in E. unfold byte in Hb. unfold st32 in *.
  apply crc_step8_inj in E; [|apply lxor_bound; lia|apply lxor_bound; lia].
  eapply lxor_cancel_r; exact E.
Qed.

Lemma crc_byte_inj_byte c b b' : st32 c -> byte b -> byte b' -> crc_byte c b = crc_byte c b' -> b = b'.
Proof.
  intros Hc Hb Hb' E. unfold crc_byte in E. unfold byte in *. unfold st32 in *.
  apply crc_step8_inj in E; [|apply lxor_bound; lia|apply lxor_bound; lia].
  rewrite (Z.lxor_comm c b), (Z.lxor_comm c b') in E. eapply lxor_cancel_r; exact E.
Qed.

Lemma crc_raw_st32 l : forall c, st32 c -> Forall byte l -> st32 (crc_raw c l).
Proof.
  induction l as [|b l IH]; intros c Hc Hl; cbn; [exact Hc|].
  inversion Hl; subst. apply IH; [apply crc_byte_st32; assumption|assumption].
Qed.

Lemma crc_raw_inj_state l : forall c d, st32 c -> st32 d -> Forall byte l ->
  crc_raw c l = crc_raw d l -> c = d.
Proof.
  induction l as [|b l IH]; intros c d Hc Hd Hl E; cbn in E; [exact E|].
  inversion Hl; subst.
  apply IH in E; [|apply crc_byte_st32; assumption|apply crc_byte_st32; assumption|assumption].
  eapply crc_byte_inj_state; eauto.
Qed.

Lemma crc_raw_app c a b : crc_raw c (a ++ b) = crc_raw (crc_raw c a) b.
Proof. unfold crc_raw. apply fold_left_app. Qed.

(* an error confined to one byte changes the checksum *)
Theorem crc32c_single_byte pre b b' post :
  Forall byte pre -> byte b -> byte b' -> Forall byte post -> b <> b' ->
  crc32c (pre ++ b :: post) <> crc32c (pre ++ b' :: post).
Proof.
  intros Hpre Hb Hb' Hpost Hne E. unfold crc32c in E.
  apply lxor_cancel_r in E. rewrite !crc_raw_app in E. cbn [crc_raw fold_left] in E.
  fold (crc_raw (crc_byte (crc_raw 4294967295 pre) b) post) in E.
  fold (crc_raw (crc_byte (crc_raw 4294967295 pre) b') post) in E.
  assert (S : st32 (crc_raw 4294967295 pre)) by (apply crc_raw_st32; [unfold st32; lia|assumption]).
  apply crc_raw_inj_state in E; [|apply crc_byte_st32; assumption|apply crc_byte_st32; assumption|assumption].
  apply crc_byte_inj_byte in E; auto.
Qed.

Lemma crc32c_range l : Forall byte l -> 0 <= crc32c l < 2^32.
Proof.
  intros H. unfold crc32c. apply lxor_bound; [lia| |lia].
  apply (crc_raw_st32 l 4294967295); [unfold st32; lia|exact H].
Qed.

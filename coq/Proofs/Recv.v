(* Invariants of the receiver model (Model/Recv.v) over ALL event lists. *)
From Coq Require Import ZArith List Bool Arith Lia Permutation.
From TF Require Import Lib.GoInt Gen.Geometry Gen.C15 Model.Recv.
Import ListNotations.
Open Scope Z_scope.

(* ---------- small list facts ---------- *)

Lemma memZ_true x l : memZ x l = true <-> In x l.
Proof.
  unfold memZ. rewrite existsb_exists. split.
  - intros (y & Hy & E). apply Z.eqb_eq in E. subst. exact Hy.
  - intros H. exists x. split; [exact H|apply Z.eqb_refl].
Qed.

Lemma memZ_false x l : memZ x l = false <-> ~ In x l.
Proof.
  split.
  - intros E H. apply memZ_true in H. congruence.
  - intros H. destruct (memZ x l) eqn:E; [|reflexivity]. apply memZ_true in E. contradiction.
Qed.

Lemma NoDup_snoc {A} (l : list A) x : NoDup l -> ~ In x l -> NoDup (l ++ [x]).
Proof.
  intros ND NI. apply (Permutation_NoDup (l := x :: l)).
  - apply Permutation_cons_append.
  - constructor; assumption.
Qed.

(* pigeonhole over an initial segment of Z *)
Lemma full_range (l : list Z) (n : Z) :
  NoDup l -> (forall x, In x l -> 0 <= x < n) -> Z.of_nat (length l) = n ->
  forall i, 0 <= i < n -> In i l.
Proof.
  intros ND B L i Hi.
  set (l' := map Z.of_nat (seq 0 (Z.to_nat n))).
  assert (Hincl : incl l l').
  { intros x Hx. apply B in Hx. unfold l'. apply in_map_iff. exists (Z.to_nat x). split; [lia|].
    apply in_seq. lia. }
  assert (Hlen : (length l' <= length l)%nat).
  { unfold l'. rewrite map_length, seq_length. lia. }
  pose proof (NoDup_length_incl ND Hlen Hincl) as Hrev.
  apply Hrev. unfold l'. apply in_map_iff. exists (Z.to_nat i). split; [lia|]. apply in_seq. lia.
Qed.

Lemma full_range_nat (l : list nat) (n : nat) :
  NoDup l -> (forall x, In x l -> (x < n)%nat) -> (n <= length l)%nat ->
  forall i, (i < n)%nat -> In i l.
Proof.
  intros ND B L i Hi.
  assert (Hincl : incl l (seq 0 n)). { intros x Hx. apply in_seq. apply B in Hx. lia. }
  assert (Hlen : (length (seq 0 n) <= length l)%nat) by (rewrite seq_length; lia).
  apply (NoDup_length_incl ND Hlen Hincl). apply in_seq. lia.
Qed.

(* ---------- the active-file list ---------- *)

Lemma find_active_in k l f : find_active k l = Some f -> In f l /\ fs_key f = k.
Proof.
  induction l as [|g r IH]; simpl; [discriminate|].
  destruct (fs_key g =? k) eqn:E.
  - intros H. injection H as <-. apply Z.eqb_eq in E. auto.
  - intros H. destruct (IH H). auto.
Qed.

Lemma remove_active_perm k l f : find_active k l = Some f ->
  Permutation l (f :: remove_active k l).
Proof.
  induction l as [|g r IH]; simpl; [discriminate|].
  destruct (fs_key g =? k) eqn:E.
  - intros H. injection H as <-. reflexivity.
  - intros H. specialize (IH H). rewrite perm_swap. constructor. exact IH.
Qed.

Lemma in_remove_active k l g : In g (remove_active k l) -> In g l.
Proof.
  induction l as [|h r IH]; simpl; [tauto|].
  destruct (fs_key h =? k); simpl; intuition.
Qed.

Lemma in_replace_active f' l g : In g (replace_active f' l) -> g = f' \/ In g l.
Proof.
  induction l as [|h r IH]; simpl; [tauto|].
  destruct (fs_key h =? fs_key f'); simpl; intuition.
Qed.

Lemma replace_active_fi f' l f : find_active (fs_key f') l = Some f -> fs_fi f' = fs_fi f ->
  map fs_fi (replace_active f' l) = map fs_fi l.
Proof.
  induction l as [|h r IH]; simpl; [reflexivity|].
  destruct (fs_key h =? fs_key f') eqn:E; simpl.
  - intros H Hf. injection H as <-. rewrite Hf. reflexivity.
  - intros H Hf. rewrite (IH H Hf). reflexivity.
Qed.

Lemma remove_replace f' l : remove_active (fs_key f') (replace_active f' l) = remove_active (fs_key f') l.
Proof.
  induction l as [|h r IH]; simpl; [reflexivity|].
  destruct (fs_key h =? fs_key f') eqn:E; simpl.
  - rewrite Z.eqb_refl. reflexivity.
  - rewrite E, IH. reflexivity.
Qed.

Lemma find_replace f' l f : find_active (fs_key f') l = Some f ->
  find_active (fs_key f') (replace_active f' l) = Some f'.
Proof.
  induction l as [|h r IH]; simpl; [discriminate|].
  destruct (fs_key h =? fs_key f') eqn:E; simpl.
  - rewrite Z.eqb_refl. reflexivity.
  - rewrite E. exact IH.
Qed.

(* ---------- per-file invariant ---------- *)

(* what a file state knows about the chunks it has: enough to conclude, when
   [remaining] reaches zero, that every index is there *)
Definition file_ok (f : fstate) : Prop :=
  0 < fs_total f ->
  0 <= fs_remaining f /\
  fs_remaining f = fs_total f - Z.of_nat (length (fs_have f)) /\
  (forall i, In i (fs_have f) -> 0 <= i < fs_total f) /\
  (fs_sidecar f = true -> NoDup (fs_have f)).

Lemma mark_ok f idx : file_ok f -> 0 <= idx -> (0 < fs_total f -> idx < fs_total f) -> file_ok (mark f idx).
Proof.
  intros H Hi Hb. unfold mark.
  destruct (fs_sidecar f) eqn:Sc.
  - destruct (memZ idx (fs_have f)) eqn:M; [exact H|].
    intros T. simpl in T. destruct (H T) as (R0 & R & B & ND). simpl.
    apply memZ_false in M.
    assert (0 < fs_remaining f) as Pos.
    { destruct (Z.eq_dec (fs_remaining f) 0) as [E|E]; [|lia]. exfalso.
      assert (Z.of_nat (length (fs_have f)) = fs_total f) by lia.
      apply M. apply (full_range _ (fs_total f)); auto. }
    destruct (0 <? fs_remaining f) eqn:P; [|lia].
    rewrite app_length. simpl.
    split; [lia|]. split; [lia|]. split.
    + intros j Hin. apply in_app_or in Hin. destruct Hin as [Hin|[<-|[]]]; [apply B; exact Hin|]. split; [lia|auto].
    + intros _. apply NoDup_snoc; auto.
  - intros T. simpl in T. destruct (H T) as (R0 & R & B & ND). simpl.
    destruct (0 <? fs_remaining f) eqn:P.
    + rewrite app_length. simpl.
      split; [lia|]. split; [lia|]. split.
      * intros j Hin. apply in_app_or in Hin. destruct Hin as [Hin|[<-|[]]]; [apply B; exact Hin|]. split; [lia|auto].
      * discriminate.
    + split; [lia|]. split; [lia|]. split; [exact B|discriminate].
Qed.

(* ---------- well-formed inputs ---------- *)

Definition wf_item (it : item) : Prop :=
  match it with
  | Fr _ idx len _ _ => 0 <= idx /\ 0 <= len
  | Trunc _ idx len _ => 0 <= idx /\ 0 <= len
  | EndOf _ => True
  end.

(* a FileBegin meets resume metadata that describes the same geometry: the marked
   indices are distinct and below the chunk count (what a sidecar written by an
   earlier run for the same size and chunk size satisfies; C06 is about the rest) *)
Definition wf_ctl (pr : nat -> list Z) (c : ctl) : Prop :=
  match c with
  | CBegin (Some fi) size cs _ _ =>
      forall total, recvTotalChunks size cs = Ret total ->
        NoDup (pr fi) /\ forall i, In i (pr fi) -> 0 <= i < total
  | _ => True
  end.

Definition wf_ev (pr : nat -> list Z) (e : ev) : Prop :=
  match e with
  | CtlPush c => wf_ctl pr c
  | Arrive _ it => wf_item it
  | _ => True
  end.

(* ---------- the invariant ---------- *)

Definition covered (s : st) (sidecar : bool) (fi : nat) (key i : Z) : Prop :=
  (sidecar = true /\ In i (prior s fi)) \/ exists len tok, In (key, i, len, tok) (writes s).

Record Inv (s : st) : Prop := {
  i_files : forall f, In f (active s) -> file_ok f;
  i_keys  : forall f, In f (active s) ->
              exists mf, nth_error (manifest s) (fs_fi f) = Some mf /\ m_key mf = fs_key f /\
                         recvTotalChunks (m_size mf) (fs_cs f) = Ret (fs_total f);
  i_prov  : forall f i, In f (active s) -> In i (fs_have f) -> covered s (fs_sidecar f) (fs_fi f) (fs_key f) i;
  i_fins  : forall r, In r (fins s) -> fr_ok r = true -> 0 < fr_total r ->
              Z.of_nat (length (fr_have r)) = fr_total r /\
              (forall i, In i (fr_have r) -> 0 <= i < fr_total r) /\
              (fr_sidecar r = true -> NoDup (fr_have r));
  i_fkeys : forall r, In r (fins s) ->
              exists mf, nth_error (manifest s) (fr_fi r) = Some mf /\ m_key mf = fr_key r /\
                         recvTotalChunks (m_size mf) (fr_cs r) = Ret (fr_total r);
  i_fprov : forall r i, In r (fins s) -> In i (fr_have r) -> covered s (fr_sidecar r) (fr_fi r) (fr_key r) i;
  i_count : completed s = Z.of_nat (length (filter fr_ok (fins s)));
  i_perm  : Permutation (map fr_fi (fins s) ++ map fs_fi (active s)) (begun s);
  i_succ  : result s = Some Success -> nfiles s <= completed s;
  i_ctlq  : Forall (wf_ctl (prior s)) (ctlq s);
  i_inq   : forall n, Forall wf_item (get_q n (inq s)) }.

Lemma Inv_init m r pr : Inv (init m r pr).
Proof.
  constructor; simpl; try (intros; contradiction); try reflexivity; try discriminate; auto.
Qed.

(* updates that leave the files, the finalizations, the writes and the counters alone *)
Lemma Inv_frame s s' :
  Inv s ->
  manifest s' = manifest s -> prior s' = prior s -> active s' = active s -> fins s' = fins s ->
  completed s' = completed s -> begun s' = begun s -> writes s' = writes s ->
  (result s' = Some Success -> nfiles s <= completed s) ->
  Forall (wf_ctl (prior s)) (ctlq s') ->
  (forall n, Forall wf_item (get_q n (inq s'))) ->
  Inv s'.
Proof.
  intros H Em Ep Ea Ef Ec Eb Ew Hs Hq Hi. destruct H.
  constructor; unfold covered, nfiles in *; rewrite ?Em, ?Ep, ?Ea, ?Ef, ?Ec, ?Eb, ?Ew; auto.
Qed.

(* frame with the result untouched or still undecided *)
Ltac frame H Hr :=
  apply (Inv_frame _ _ H); try reflexivity;
  [ first [ exact (i_succ _ H) | simpl; rewrite Hr; discriminate | simpl; discriminate | idtac ]
  | first [ exact (i_ctlq _ H) | idtac ]
  | first [ exact (i_inq _ H) | idtac ] ].

Lemma Inv_set_result s o : Inv s -> (o = Success -> all_completed s = true) -> Inv (set_result s o).
Proof.
  intros H Ho. apply (Inv_frame s); try reflexivity; auto; try apply H.
  simpl. intros E. injection E as ->. specialize (Ho eq_refl). unfold all_completed in Ho. lia.
Qed.

Lemma Inv_push_dataerr s e : Inv s -> Inv (push_dataerr s e).
Proof. intros H. apply (Inv_frame s); try reflexivity; auto; try apply H. Qed.

Lemma Inv_pop_ctl s : Inv s -> Inv (pop_ctl s).
Proof.
  intros H. apply (Inv_frame s); try reflexivity; auto; try apply H.
  simpl. destruct (ctlq s) eqn:E; simpl; [constructor|]. pose proof (i_ctlq s H) as Q. rewrite E in Q. inversion Q; auto.
Qed.

Lemma Inv_add_ack s a : Inv s -> Inv (add_ack s a).
Proof. intros H. apply (Inv_frame s); try reflexivity; auto; try apply H. Qed.

Lemma get_set_q n m q l : get_q n (set_q m q l) = if Nat.eqb m n then q else get_q n l.
Proof.
  induction l as [|[k q0] r IH]; simpl.
  - destruct (Nat.eqb m n); reflexivity.
  - destruct (Nat.eqb k m) eqn:E; simpl.
    + apply Nat.eqb_eq in E. subst k. destruct (Nat.eqb m n); reflexivity.
    + destruct (Nat.eqb k n) eqn:E2.
      * apply Nat.eqb_eq in E2. subst k. rewrite Nat.eqb_sym, E. reflexivity.
      * exact IH.
Qed.

Lemma Inv_with_inq s n q ex : Inv s -> Forall wf_item q -> Inv (with_inq s n q ex).
Proof.
  intros H Hq. apply (Inv_frame s); try reflexivity; auto; try apply H.
  simpl. intros k. rewrite get_set_q. destruct (Nat.eqb n k); [exact Hq|apply H].
Qed.

Lemma Inv_add_write s w : Inv s -> Inv (add_write s w).
Proof.
  intros H. destruct H. constructor; simpl; auto.
  - intros f i Hf Hi. destruct (i_prov0 f i Hf Hi) as [L|(l & t & W)]; [left; exact L|right].
    exists l, t. apply in_or_app. left. exact W.
  - intros r i Hr Hi. destruct (i_fprov0 r i Hr Hi) as [L|(l & t & W)]; [left; exact L|right].
    exists l, t. apply in_or_app. left. exact W.
Qed.

(* ---------- updates of the file table ---------- *)

Lemma Inv_upd_active s f f' :
  Inv s -> find_active (fs_key f') (active s) = Some f ->
  fs_fi f' = fs_fi f -> fs_sidecar f' = fs_sidecar f -> fs_cs f' = fs_cs f -> fs_total f' = fs_total f ->
  file_ok f' ->
  (forall i, In i (fs_have f') -> covered s (fs_sidecar f') (fs_fi f') (fs_key f') i) ->
  Inv (upd_active s f').
Proof.
  intros H Hfind Hfi Hsc Hcs Htot Hok Hprov. destruct H.
  destruct (find_active_in _ _ _ Hfind) as (Hin & Hk).
  constructor; simpl.
  - intros g Hg. apply in_replace_active in Hg. destruct Hg as [E|Hg]; [subst g; exact Hok|apply i_files0; exact Hg].
  - intros g Hg. apply in_replace_active in Hg. destruct Hg as [E|Hg]; [subst g|apply i_keys0; exact Hg].
    rewrite Hfi, Hcs, Htot, <- Hk. apply i_keys0. exact Hin.
  - intros g i Hg Hi. apply in_replace_active in Hg. destruct Hg as [E|Hg]; [subst g; apply Hprov; exact Hi|].
    apply i_prov0; assumption.
  - exact i_fins0.
  - exact i_fkeys0.
  - exact i_fprov0.
  - exact i_count0.
  - rewrite (replace_active_fi f' (active s) f Hfind Hfi). exact i_perm0.
  - exact i_succ0.
  - exact i_ctlq0.
  - exact i_inq0.
Qed.

Lemma filter_app_len {A} (p : A -> bool) l x :
  length (filter p (l ++ [x])) = (length (filter p l) + (if p x then 1 else 0))%nat.
Proof. rewrite filter_app, app_length. simpl. destruct (p x); reflexivity. Qed.

Lemma Inv_finalize s f ok io_ok :
  Inv s -> find_active (fs_key f) (active s) = Some f ->
  (ok = true -> fs_remaining f = 0) ->
  result s = None ->
  Inv (finalize s f ok io_ok).
Proof.
  intros H Hfind Hrem Hres. destruct H.
  destruct (find_active_in _ _ _ Hfind) as (Hin & _).
  set (ok' := ok && (if fs_sidecar f then io_ok else true)).
  constructor; simpl; fold ok'; auto.
  - intros g Hg. apply i_files0. eapply in_remove_active; eauto.
  - intros g Hg. apply i_keys0. eapply in_remove_active; eauto.
  - intros g i Hg Hi. apply i_prov0; auto. eapply in_remove_active; eauto.
  - intros r Hr Hok Ht. apply in_app_or in Hr. destruct Hr as [Hr|[<-|[]]]; [apply i_fins0; auto|].
    simpl in *. assert (ok = true) as Hk by (unfold ok' in Hok; destruct ok; [reflexivity|discriminate]).
    specialize (Hrem Hk). destruct (i_files0 f Hin Ht) as (_ & R & B & ND).
    split; [lia|]. split; [exact B|exact ND].
  - intros r Hr. apply in_app_or in Hr. destruct Hr as [Hr|[<-|[]]]; [apply i_fkeys0; auto|].
    simpl. apply i_keys0. exact Hin.
  - intros r i Hr Hi. apply in_app_or in Hr. destruct Hr as [Hr|[<-|[]]]; [apply i_fprov0; auto|].
    simpl in *. apply i_prov0; auto.
  - rewrite filter_app_len. simpl. destruct ok'; lia.
  - rewrite map_app. simpl. rewrite <- app_assoc. simpl.
    eapply Permutation_trans; [|exact i_perm0].
    apply Permutation_app_head.
    eapply Permutation_trans; [|apply Permutation_sym, Permutation_map, (remove_active_perm _ _ _ Hfind)].
    simpl. reflexivity.
  - rewrite Hres. discriminate.
Qed.

Lemma recvTotal_nonneg size cs total : recvTotalChunks size cs = Ret total -> 0 <= total.
Proof.
  unfold recvTotalChunks, bind. destruct (0 <? cs); [destruct (i64 cs =? 0)|]; intros E; try discriminate;
    injection E as <-; unfold u32; apply Z.mod_pos_bound; lia.
Qed.

Lemma NoDup_bounded_length (l : list Z) n :
  NoDup l -> (forall x, In x l -> 0 <= x < n) -> Z.of_nat (length l) <= Z.max 0 n.
Proof.
  intros ND B.
  assert (incl l (map Z.of_nat (seq 0 (Z.to_nat n)))).
  { intros x Hx. apply B in Hx. apply in_map_iff. exists (Z.to_nat x). split; [lia|]. apply in_seq. lia. }
  pose proof (NoDup_incl_length ND H) as L. rewrite map_length, seq_length in L. lia.
Qed.

(* the state a FileBegin creates *)
Lemma new_file_ok (pr : nat -> list Z) i size cs total (sc : bool) :
  wf_ctl pr (CBegin (Some i) size cs 0 true) -> recvTotalChunks size cs = Ret total ->
  let have := if sc then pr i else [] in
  forall fi k, file_ok {| fs_fi := fi; fs_key := k; fs_cs := cs; fs_total := total;
              fs_remaining := total - Z.min (Z.of_nat (length have)) total;
              fs_sidecar := sc; fs_have := have; fs_end := false |}.
Proof.
  intros W T have fi k Tp. simpl in *. destruct (W total T) as (ND & B).
  destruct sc; subst have; simpl.
  - pose proof (NoDup_bounded_length _ _ ND B). split; [lia|]. split; [lia|]. split; [exact B|auto].
  - split; [lia|]. split; [lia|]. split; [intros j []|discriminate].
Qed.

(* ---------- one step ---------- *)

Lemma mark_fields f i :
  fs_key (mark f i) = fs_key f /\ fs_fi (mark f i) = fs_fi f /\ fs_sidecar (mark f i) = fs_sidecar f /\
  fs_total (mark f i) = fs_total f /\ fs_cs (mark f i) = fs_cs f /\
  (forall j, In j (fs_have (mark f i)) -> In j (fs_have f) \/ j = i).
Proof.
  unfold mark. destruct (fs_sidecar f) eqn:S.
  - destruct (memZ i (fs_have f)); simpl; repeat split; auto.
    intros j Hj. apply in_app_or in Hj. destruct Hj as [Hj|[<-|[]]]; auto.
  - simpl. repeat split; auto. intros j. destruct (0 <? fs_remaining f); auto.
    intros Hj. apply in_app_or in Hj. destruct Hj as [Hj|[<-|[]]]; auto.
Qed.

Lemma Inv_reader_fail s n f e :
  Inv s -> find_active (fs_key f) (active s) = Some f -> result s = None -> Inv (reader_fail s n f e).
Proof.
  intros H Hf Hr. unfold reader_fail. apply Inv_with_inq; [|constructor].
  apply Inv_push_dataerr. apply Inv_finalize; auto. discriminate.
Qed.

Lemma find_active_key k l f : find_active k l = Some f -> find_active (fs_key f) l = Some f.
Proof. intros H. destruct (find_active_in _ _ _ H) as (_ & <-) . exact H. Qed.

Lemma Inv_rstep s n io : Inv s -> result s = None -> Inv (rstep s n io).
Proof.
  intros H Hr. unfold rstep.
  destruct (memN n (gone s)); [exact H|].
  destruct (get_q n (inq s)) as [|it rest] eqn:Q; [exact H|].
  pose proof (i_inq s H n) as Wq. rewrite Q in Wq. inversion Wq as [|? ? Wit Wrest]; subst.
  destruct it as [key idx len crc_ok tok|key idx len e|e].
  - (* a complete frame *)
    destruct (len =? 0); [apply Inv_with_inq; [apply Inv_push_dataerr; exact H|constructor]|].
    destruct (find_active key (active s)) as [f|] eqn:F.
    2:{ destruct (memZ key (done_keys s)); [apply Inv_with_inq; assumption|exact H]. }
    pose proof (find_active_key _ _ _ F) as F'.
    destruct (find_active_in _ _ _ F) as (Fin & Fk).
    destruct ((0 <? fs_total f) && (fs_total f <=? idx)) eqn:C1; [apply Inv_reader_fail; auto|].
    destruct ((0 <? fs_cs f) && (fs_cs f <? len)); [apply Inv_reader_fail; auto|].
    destruct (fs_cs f =? 0); [apply Inv_set_result; [exact H|discriminate]|].
    destruct (negb crc_ok); [apply Inv_reader_fail; auto|].
    destruct (negb io); [apply Inv_reader_fail; auto|].
    destruct (mark_fields f idx) as (Mk & Mfi & Msc & Mt & Mcs & Mh).
    simpl in Wit. destruct Wit as (Wi & Wl).
    assert (Inv (with_inq (upd_active (add_write s (key, idx, len, tok)) (mark f idx)) n rest false)) as H2.
    { apply Inv_with_inq; [|exact Wrest].
      apply (Inv_upd_active _ f); [apply Inv_add_write; exact H| | | | | | |].
      - simpl. rewrite Mk. exact F'.
      - exact Mfi.
      - exact Msc.
      - exact Mcs.
      - exact Mt.
      - apply mark_ok; [apply (i_files s H); exact Fin|exact Wi|].
        intros T. apply andb_false_iff in C1. destruct C1 as [C|C]; lia.
      - intros j Hj. rewrite Mk, Mfi, Msc. destruct (Mh j Hj) as [Hj' | ->].
        + destruct (i_prov s H f j Fin Hj') as [L|(l & t & W)]; [left; exact L|right].
          exists l, t. simpl. apply in_or_app. left. exact W.
        + right. exists len, tok. simpl. apply in_or_app. right. left. rewrite Fk. reflexivity. }
    destruct (fs_remaining (mark f idx) =? 0) eqn:R0; [|exact H2].
    apply Inv_finalize; [exact H2| | |exact Hr].
    + simpl. apply (find_replace _ _ f). rewrite Mk. exact F'.
    + intros _. lia.
  - (* a frame cut inside its payload *)
    destruct (len =? 0); [apply Inv_with_inq; [apply Inv_push_dataerr; exact H|constructor]|].
    destruct (find_active key (active s)) as [f|] eqn:F.
    2:{ destruct (memZ key (done_keys s)); [apply Inv_with_inq; [apply Inv_push_dataerr; exact H|constructor]|exact H]. }
    pose proof (find_active_key _ _ _ F) as F'.
    destruct ((0 <? fs_total f) && (fs_total f <=? idx)); [apply Inv_reader_fail; auto|].
    destruct ((0 <? fs_cs f) && (fs_cs f <? len)); [apply Inv_reader_fail; auto|].
    destruct (fs_cs f =? 0); [apply Inv_set_result; [exact H|discriminate]|].
    apply Inv_reader_fail; auto.
  - apply Inv_with_inq; [apply Inv_push_dataerr; exact H|constructor].
Qed.

Lemma Inv_handle_begin s fi size cs sid pathok io :
  Inv s -> result s = None -> wf_ctl (prior s) (CBegin fi size cs sid pathok) ->
  Inv (handle_begin s fi size cs sid pathok io).
Proof.
  intros H Hr W. unfold handle_begin.
  destruct (negb pathok); [apply Inv_set_result; [exact H|discriminate]|].
  destruct fi as [i|]; [|apply Inv_set_result; [exact H|discriminate]].
  destruct (nth_error (manifest s) i) as [mf|] eqn:N; [|apply Inv_set_result; [exact H|discriminate]].
  destruct (negb (m_size mf =? size)) eqn:Esz; [apply Inv_set_result; [exact H|discriminate]|].
  apply negb_false_iff, Z.eqb_eq in Esz.
  destruct ((cs =? 0) || (c_maxChunkSize <? cs)); [apply Inv_set_result; [exact H|discriminate]|].
  destruct (negb (sid =? 0) && negb (sid =? m_key mf)); [apply Inv_set_result; [exact H|discriminate]|].
  destruct (find_active (m_key mf) (active s)) eqn:F; [apply Inv_set_result; [exact H|discriminate]|].
  destruct (negb io); [apply Inv_set_result; [exact H|discriminate]|].
  destruct (recvTotalChunks size cs) as [total| |] eqn:T; try (apply Inv_set_result; [exact H|discriminate]).
  set (sc := resume s && m_hasid mf && (0 <? cs)).
  set (have := if sc then prior s i else []).
  set (f := {| fs_fi := i; fs_key := m_key mf; fs_cs := cs; fs_total := total;
               fs_remaining := total - Z.min (Z.of_nat (length have)) total;
               fs_sidecar := sc; fs_have := have; fs_end := false |}).
  match goal with |- Inv (if resume s then (if cancelled s then set_result ?s1 Fail else add_ack ?s1 ?a) else ?s1) =>
    assert (Inv s1) as H1 end.
  { destruct H. constructor; simpl; auto.
    - intros g Hg. apply in_app_or in Hg. destruct Hg as [Hg|[<-|[]]]; [auto|].
      apply (new_file_ok (prior s) i size cs total sc); [exact W|exact T].
    - intros g Hg. apply in_app_or in Hg. destruct Hg as [Hg|[<-|[]]]; [auto|]. simpl.
      exists mf. split; [exact N|]. split; [reflexivity|]. rewrite Esz. exact T.
    - intros g j Hg Hj. apply in_app_or in Hg. destruct Hg as [Hg|[<-|[]]]; [apply i_prov0; auto|].
      simpl in *. left. unfold have in Hj. destruct sc; [auto|destruct Hj].
    - rewrite map_app. simpl. rewrite app_assoc. apply Permutation_app_tail. exact i_perm0. }
  destruct (resume s); [|exact H1].
  destruct (cancelled s); [apply Inv_set_result; [exact H1|discriminate]|apply Inv_add_ack; exact H1].
Qed.

Lemma Inv_handle_ctl s c io :
  Inv s -> result s = None -> wf_ctl (prior s) c -> Inv (handle_ctl s c io).
Proof.
  intros H Hr W. destruct c as [fi size cs sid pk|key|key fid|  |]; simpl.
  - apply Inv_handle_begin; auto.
  - destruct (find_active key (active s)) as [f|] eqn:F.
    + pose proof (find_active_key _ _ _ F) as F'. destruct (find_active_in _ _ _ F) as (Fin & Fk).
      set (f' := {| fs_fi := fs_fi f; fs_key := fs_key f; fs_cs := fs_cs f; fs_total := fs_total f;
                    fs_remaining := fs_remaining f; fs_sidecar := fs_sidecar f; fs_have := fs_have f;
                    fs_end := true |}).
      assert (Inv (upd_active s f')) as H1.
      { apply (Inv_upd_active s f); auto.
        - exact (i_files s H f Fin).
        - intros j Hj. exact (i_prov s H f j Fin Hj). }
      destruct (fs_remaining f =? 0) eqn:R; [|exact H1].
      apply Inv_finalize; auto.
      * simpl. apply (find_replace f' (active s) f). exact F'.
      * intros _. simpl. lia.
    + destruct (memZ key (done_keys s)); [exact H|apply Inv_set_result; [exact H|discriminate]].
  - destruct (find_active key (active s)) as [f|].
    + destruct (negb fid); [apply Inv_set_result; [exact H|discriminate]|].
      destruct (cancelled s); [apply Inv_set_result; [exact H|discriminate]|apply Inv_add_ack; exact H].
    + destruct (memZ key (done_keys s)); [exact H|apply Inv_set_result; [exact H|discriminate]].
  - match goal with |- Inv (if all_completed ?s1 then _ else _) => assert (Inv s1) as H1 end.
    { frame H Hr. }
    destruct (all_completed _) eqn:A; [|exact H1]. apply Inv_set_result; [exact H1|intros _; exact A].
  - apply Inv_set_result; [exact H|discriminate].
Qed.

Lemma Inv_main_pick s a io : Inv s -> result s = None -> Inv (main_pick s a io).
Proof.
  intros H Hr. unfold main_pick.
  destruct (blocked s).
  { destruct (cancelled s); [|exact H]. destruct a; try exact H. apply Inv_set_result; [exact H|discriminate]. }
  destruct (negb (arm_enabled s a)); [exact H|].
  destruct a.
  - apply Inv_set_result; [exact H|discriminate].
  - match goal with |- Inv (if _ then set_result ?s1 _ else _) => assert (Inv s1) as H1 end.
    { frame H Hr. }
    destruct (end_seen s && all_completed s) eqn:A; [|exact H1].
    apply Inv_set_result; [exact H1|]. intros _. apply andb_true_iff in A. apply A.
  - destruct (ctlerr s) as [e|]; [|exact H].
    match goal with |- context [set_result ?s1 Fail] => assert (Inv s1) as H1 end.
    { frame H Hr. }
    destruct e; try (apply Inv_set_result; [exact H1|discriminate]);
      (destruct (all_completed s) eqn:A; apply Inv_set_result; [exact H1|intros _; exact A|exact H1|discriminate]).
  - destruct (dataerrq s) as [|e r]; [exact H|].
    match goal with |- context [set_result ?s1 Fail] => assert (Inv s1) as H1 end.
    { frame H Hr. }
    destruct e as [e|]; [|exact H1].
    destruct e; try (apply Inv_set_result; [exact H1|discriminate]).
    destruct (all_completed s) eqn:A; apply Inv_set_result; [exact H1|intros _; exact A|exact H1|discriminate].
  - destruct (ctlq s) as [|c r] eqn:Q; [exact H|].
    apply Inv_handle_ctl; [apply Inv_pop_ctl; exact H|exact Hr|].
    pose proof (i_ctlq s H) as W. rewrite Q in W. inversion W; assumption.
Qed.

Lemma Forall_snoc {A} (P : A -> Prop) l x : Forall P l -> P x -> Forall P (l ++ [x]).
Proof. intros. apply Forall_app. split; [assumption|constructor; [assumption|constructor]]. Qed.

Theorem Inv_step s e : Inv s -> wf_ev (prior s) e -> Inv (step s e).
Proof.
  intros H W. unfold step. destruct (result s) eqn:Hr; [exact H|].
  destruct e as [c|k|n it|n io|a io| |]; simpl in W.
  - destruct (ctl_reader_gone s); [exact H|].
    frame H Hr.
    apply Forall_snoc; [apply H|exact W].
  - destruct (ctl_reader_gone s); [exact H|].
    frame H Hr.
  - destruct (memN n (gone s)); [exact H|]. apply Inv_with_inq; [exact H|]. apply Forall_snoc; [apply H|exact W].
  - apply Inv_rstep; assumption.
  - apply Inv_main_pick; assumption.
  - frame H Hr.
  - frame H Hr.
Qed.

(* ---------- constants of a run ---------- *)

Ltac crush_match :=
  repeat match goal with
         | |- context [match ?x with _ => _ end] => destruct x; simpl
         | |- context [if ?b then _ else _] => destruct b; simpl
         end.

Lemma finalize_consts s f ok io : prior (finalize s f ok io) = prior s /\ manifest (finalize s f ok io) = manifest s.
Proof. split; reflexivity. Qed.

Lemma rstep_consts s n io : prior (rstep s n io) = prior s /\ manifest (rstep s n io) = manifest s.
Proof. unfold rstep, reader_fail. crush_match; split; reflexivity. Qed.

Lemma handle_ctl_consts s c io : prior (handle_ctl s c io) = prior s /\ manifest (handle_ctl s c io) = manifest s.
Proof. unfold handle_ctl, handle_begin. crush_match; split; reflexivity. Qed.

Lemma main_pick_consts s a io : prior (main_pick s a io) = prior s /\ manifest (main_pick s a io) = manifest s.
Proof.
  unfold main_pick.
  destruct (blocked s); [crush_match; split; reflexivity|].
  destruct (negb (arm_enabled s a)); [split; reflexivity|].
  destruct a; try (crush_match; split; reflexivity).
  destruct (ctlq s) as [|c r]; [split; reflexivity|].
  destruct (handle_ctl_consts (pop_ctl s) c io) as (-> & ->). split; reflexivity.
Qed.

Lemma step_consts s e : prior (step s e) = prior s /\ manifest (step s e) = manifest s.
Proof.
  unfold step. destruct (result s); [split; reflexivity|].
  destruct e; try (crush_match; split; reflexivity).
  - apply rstep_consts.
  - apply main_pick_consts.
Qed.

Lemma run_consts evs : forall s, prior (run s evs) = prior s /\ manifest (run s evs) = manifest s.
Proof.
  induction evs as [|e r IH]; intros s; simpl; [split; reflexivity|].
  destruct (IH (step s e)) as (-> & ->). apply step_consts.
Qed.

Theorem Inv_run evs : forall s, Inv s -> Forall (wf_ev (prior s)) evs -> Inv (run s evs).
Proof.
  induction evs as [|e r IH]; intros s H W; simpl; [exact H|].
  inversion W as [|? ? We Wr]; subst.
  apply IH; [apply Inv_step; assumption|].
  destruct (step_consts s e) as (-> & _). exact Wr.
Qed.

Theorem Inv_reachable m res pr evs : Forall (wf_ev pr) evs -> Inv (run (init m res pr) evs).
Proof. intros W. apply Inv_run; [apply Inv_init|exact W]. Qed.

(* ---------- what a reported success means ---------- *)

Lemma NoDup_map_filter {A B} (g : A -> B) (p : A -> bool) l : NoDup (map g l) -> NoDup (map g (filter p l)).
Proof.
  induction l as [|x r IH]; simpl; intros H; [constructor|].
  inversion H as [|? ? Hn Hr]; subst. destruct (p x); simpl; [|auto].
  constructor; [|auto]. intros Hin. apply Hn. apply in_map_iff in Hin. destruct Hin as (y & E & Hy).
  apply filter_In in Hy. apply in_map_iff. exists y. tauto.
Qed.

Lemma NoDup_app_l {A} (l l' : list A) : NoDup (l ++ l') -> NoDup l.
Proof.
  induction l as [|x r IH]; simpl; intros H; [constructor|].
  inversion H as [|? ? Hn Hr]; subst. constructor; [|auto]. intros Hin. apply Hn. apply in_or_app. left. exact Hin.
Qed.

Theorem success_counts m res pr evs : Forall (wf_ev pr) evs ->
  let s := run (init m res pr) evs in
  result s = Some Success ->
  Z.of_nat (length m) <= completed s /\ completed s = Z.of_nat (length (filter fr_ok (fins s))).
Proof.
  intros W s Hs. pose proof (Inv_reachable m res pr evs W) as H. fold s in H.
  split; [|apply H]. pose proof (i_succ s H Hs) as L. unfold nfiles in L.
  destruct (run_consts evs (init m res pr)) as (_ & Em). fold s in Em. rewrite Em in L. exact L.
Qed.

(* every file of the manifest was finalized successfully, provided no FileBegin
   was accepted twice for the same manifest entry (an honest sender begins each
   file once: C17 / scheduler; the control stream does not duplicate) *)
Theorem success_all_files m res pr evs : Forall (wf_ev pr) evs ->
  let s := run (init m res pr) evs in
  result s = Some Success -> NoDup (begun s) ->
  forall fi, (fi < length m)%nat -> exists r, In r (fins s) /\ fr_fi r = fi /\ fr_ok r = true.
Proof.
  intros W s Hs ND fi Hfi. pose proof (Inv_reachable m res pr evs W) as H. fold s in H.
  destruct (run_consts evs (init m res pr)) as (_ & Em). fold s in Em. simpl in Em.
  destruct (success_counts m res pr evs W Hs) as (Hc & Hn). fold s in Hc, Hn.
  set (L := map fr_fi (filter fr_ok (fins s))).
  assert (NoDup L) as NL.
  { apply NoDup_map_filter. pose proof (i_perm s H) as P.
    apply Permutation_sym in P. pose proof (Permutation_NoDup P ND) as N2.
    apply NoDup_app_l in N2. exact N2. }
  assert (forall x, In x L -> (x < length m)%nat) as B.
  { intros x Hx. apply in_map_iff in Hx. destruct Hx as (r & <- & Hr). apply filter_In in Hr.
    destruct (i_fkeys s H r (proj1 Hr)) as (mf & N & _ & _). rewrite Em in N.
    apply nth_error_Some. rewrite N. discriminate. }
  assert (length m <= length L)%nat as LL.
  { unfold L. rewrite map_length. lia. }
  pose proof (full_range_nat L (length m) NL B LL fi Hfi) as Hin.
  apply in_map_iff in Hin. destruct Hin as (r & E & Hr). apply filter_In in Hr.
  exists r. tauto.
Qed.

(* a successfully finalized file has every chunk index covered: it was marked
   in the resume metadata the run started from, or a frame that passed the CRC
   check was written at that index during this run *)
Theorem finalized_file_complete m res pr evs : Forall (wf_ev pr) evs ->
  let s := run (init m res pr) evs in
  forall r, In r (fins s) -> fr_ok r = true ->
  (fr_sidecar r = true \/ NoDup (fr_have r)) ->
  forall i, 0 <= i < fr_total r -> covered s (fr_sidecar r) (fr_fi r) (fr_key r) i.
Proof.
  intros W s r Hr Hok Hnd i Hi. pose proof (Inv_reachable m res pr evs W) as H. fold s in H.
  assert (0 < fr_total r) as T by lia.
  destruct (i_fins s H r Hr Hok T) as (L & B & ND).
  apply (i_fprov s H r i Hr).
  apply (full_range _ (fr_total r)); auto. destruct Hnd; auto.
Qed.

(* keys and chunk counts of finalizations are the manifest's: the count is the
   generated expression applied to the size in the manifest and the announced
   chunk size *)
Theorem finalized_key m res pr evs : Forall (wf_ev pr) evs ->
  let s := run (init m res pr) evs in
  forall r, In r (fins s) ->
    exists mf, nth_error m (fr_fi r) = Some mf /\ m_key mf = fr_key r /\
               recvTotalChunks (m_size mf) (fr_cs r) = Ret (fr_total r).
Proof.
  intros W s r Hr. pose proof (Inv_reachable m res pr evs W) as H. fold s in H.
  destruct (run_consts evs (init m res pr)) as (_ & Em). fold s in Em. simpl in Em.
  destruct (i_fkeys s H r Hr) as (mf & N & K & T). rewrite Em in N. eauto.
Qed.

(* a failed finalization is never counted and success needs the counter: a
   transfer in which some file failed and no other finalization of that manifest
   entry succeeded cannot report success (the C02 clause "no false success") *)
Theorem no_success_without_all m res pr evs : Forall (wf_ev pr) evs ->
  let s := run (init m res pr) evs in
  NoDup (begun s) ->
  (exists fi, (fi < length m)%nat /\ forall r, In r (fins s) -> fr_fi r = fi -> fr_ok r = false) ->
  result s <> Some Success.
Proof.
  intros W s ND (fi & Hfi & Hbad) Hs.
  destruct (success_all_files m res pr evs W Hs ND fi Hfi) as (r & Hr & E & Ok).
  rewrite (Hbad r Hr E) in Ok. discriminate.
Qed.

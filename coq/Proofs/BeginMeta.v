(* The stale-data rule of handleFileBegin, read off the source (Gen/BeginMeta.v): in BOTH
   modes of the receiver the item's primary metadata file is removed when the data file is
   stale, and the fallback one whenever it is a different path; nothing is removed unless the
   data file is stale; and "stale" is decided by the one test Model/BeginDisk.v models
   (stat fails, or another length).  This is the tie of Model/BeginDisk.v to the code. *)
From Coq Require Import List String Bool.
Import ListNotations.
From TF Require Import Gen.BeginMeta.
Open Scope string_scope.

Definition primary_path : string := "SidecarPath(baseDir, """", sidecarIdentifier(item))".
Definition fallback_path : string := "SidecarPath(rootedDir, """", sidecarIdentifier(item))".

Definition subset (a b : list string) : bool := forallb (fun x => existsb (String.eqb x) b) a.

(* with the atoms [facts] true, some removal of [path] is reached *)
Definition removed (path : string) (facts : list string) : bool :=
  existsb (fun r => String.eqb (fst r) path && subset (snd r) facts) begin_meta_removals.

Definition plain_stale : list string := ["!opts.Resume"; "staleData"; "item.ID != """""].
(* the resume branch is entered for a non-empty id and a positive chunk size (a chunk size of 0
   is refused before); [fallback] is non-empty exactly when rootedDir differs from baseDir *)
Definition resume_stale : list string := ["opts.Resume"; "staleData"; "item.ID != """""; "begin.ChunkSize > 0"].
Definition two_dirs : list string := ["rootedDir != baseDir"; "fallback != """""].

Theorem stale_rule_in_both_modes :
  removed primary_path plain_stale = true /\
  removed fallback_path (plain_stale ++ two_dirs) = true /\
  removed primary_path resume_stale = true /\
  removed fallback_path (resume_stale ++ two_dirs) = true.
Proof. vm_compute. repeat split. Qed.

(* honest metadata is never thrown away: every removal sits under the stale-data flag *)
Definition stale_flag : string := "staleData".
Theorem removal_only_when_stale :
  forallb (fun r => existsb (String.eqb stale_flag) (snd r)) begin_meta_removals = true.
Proof. vm_compute. reflexivity. Qed.

(* only the two metadata paths of the item are ever removed here *)
Theorem removal_only_of_item_metadata :
  forallb (fun r => String.eqb (fst r) primary_path || String.eqb (fst r) fallback_path) begin_meta_removals = true.
Proof. vm_compute. reflexivity. Qed.

Theorem stale_is_missing_or_other_length :
  stale_data_when = "st, statErr := os.Stat(filePath); statErr != nil || st.Size() != int64(begin.FileSize)".
Proof. reflexivity. Qed.

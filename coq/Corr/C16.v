(* Correspondence for C16: net/url, app.buildWebSocketURL, the thruserv binary
   (its /session and /ws handlers, injectTurnCredentials, the parsed /ws query)
   and ice.parseTurnServer vs Model/Config.v.  Only projected observables are
   compared: byte strings the code produced, HTTP status codes, presence of
   fields; never error texts or times. *)
From Coq Require Import ZArith List Bool.
From TF Require Import Lib.GoInt Model.Config.
Import ListNotations.
Open Scope Z_scope.

(* what the real function returned *)
Inductive xres (A : Type) := XOk (a : A) | XErr.
Arguments XOk {A} a.
Arguments XErr {A}.

Inductive op :=
| OCreate (maxr : Z)                       (* clienthttp.CreateSession(ctx, url, maxr) *)
| OCreateRaw (maxr_raw : str)              (* plain POST /session?max_receivers=<raw> (escaped) *)
| OConnect (sess : option nat) (join peer role : str) (maxr : Z) (user pass : str).
                                           (* buildWebSocketURL + wsclient.Dial; user/pass = what the
                                              server put into the credentials it sent (if any) *)
Inductive ob :=
| BCreate (ok has_expiry : bool)           (* err == nil, !expiresAt.IsZero() *)
| BCreateRaw (status : Z) (has_expires : bool)
| BConnect (status : Z) (creds : option (list str)).

Inductive case :=
| Esc (id : Z) (m : emode) (s escaped : str)               (* url.QueryEscape / url.User(s).String() *)
| Une (id : Z) (m : emode) (s : str) (r : xres str)        (* url.QueryUnescape / url.PathUnescape *)
| PQ (id : Z) (q : str) (vals : list str)                  (* url.ParseQuery(q).Get for the probe keys *)
| Ati (id : Z) (s : str) (r : xres Z)                      (* strconv.Atoi *)
| WsU (id : Z) (scheme host join peer role : str) (maxr : Z) (url : str)   (* buildWebSocketURL *)
| WsV (id : Z) (url : str) (j p r m : str)                 (* what handleWebSocket extracted after wsclient.Dial(url) *)
| Inj (id : Z) (raw user pass : str) (r : xres str)        (* injectTurnCredentials inside thruserv *)
| Par (id : Z) (raw : str) (r : xres endpoint)             (* ice.parseTurnServer *)
| Scn (id : Z) (f : flags) (scheme host : str) (ops : list op) (obs : list ob).

Definition probe_keys : list str :=
  [s_join_code; s_peer_id; s_role; s_max_receivers; s_transport; s_servername; s_sni; s_insecure; s_realm; [97]; []].

Fixpoint strs_eqb (a b : list str) : bool :=
  match a, b with
  | [], [] => true
  | x :: a', y :: b' => seqb x y && strs_eqb a' b'
  | _, _ => false
  end.

Definition endpoint_eqb (a b : endpoint) : bool :=
  seqb (e_addr a) (e_addr b) && seqb (e_user a) (e_user b) && seqb (e_pass a) (e_pass b) &&
  seqb (e_realm a) (e_realm b) && Bool.eqb (e_tcp a) (e_tcp b) && Bool.eqb (e_tls a) (e_tls b) &&
  seqb (e_sni a) (e_sni b) && Bool.eqb (e_insecure a) (e_insecure b).

(* [TUn] = the model makes no claim *)
Definition agree {A} (eqb : A -> A -> bool) (m : tres A) (x : xres A) : bool :=
  match m, x with
  | TOk a, XOk b => eqb a b
  | TErr, XErr => true
  | TUn, _ => true
  | _, _ => false
  end.

Definition creds_eqb (a b : option (list str)) : bool :=
  match a, b with
  | None, None => true
  | Some x, Some y => strs_eqb x y
  | _, _ => false
  end.

Fixpoint run (f : flags) (scheme host : str) (s : sstate) (ops : list op) (obs : list ob) : bool :=
  match ops, obs with
  | [], [] => true
  | OCreate maxr :: ops', BCreate ok he :: obs' =>
    let '(st, hx, s') := create f s (create_query maxr) in
    match client_create st hx with
    | Ret e => ok && Bool.eqb e he
    | _ => negb ok
    end && run f scheme host s' ops' obs'
  | OCreateRaw raw :: ops', BCreateRaw st he :: obs' =>
    let '(st', he', s') := create f s raw in
    (st' =? st) && Bool.eqb he' he && run f scheme host s' ops' obs'
  | OConnect sess join peer role maxr user pass :: ops', BConnect st creds :: obs' =>
    let '(j, p, r, m) := server_view (ws_url scheme host join peer role maxr) in
    let '(st', s') := connect f s j sess p r m in
    (st' =? st) &&
    (if st' =? 101 then
       match issued f user pass with
       | TOk c => creds_eqb c creds
       | TErr => false
       | TUn => true
       end
     else match creds with None => true | Some _ => false end) &&
    run f scheme host s' ops' obs'
  | _, _ => false
  end.

Definition case_id (c : case) : Z :=
  match c with
  | Esc id _ _ _ | Une id _ _ _ | PQ id _ _ | Ati id _ _ | WsU id _ _ _ _ _ _ _ | WsV id _ _ _ _ _
  | Inj id _ _ _ _ | Par id _ _ | Scn id _ _ _ _ _ => id
  end.

Definition check (c : case) : bool :=
  match c with
  | Esc _ m s e => seqb (escape m s) e
  | Une _ m s r =>
    match unescape m s, r with
    | Some a, XOk b => seqb a b
    | None, XErr => true
    | _, _ => false
    end
  | PQ _ q vals => strs_eqb (map (fun k => get k (parse_query q)) probe_keys) vals
  | Ati _ s r =>
    match atoi s, r with
    | Some a, XOk b => a =? b
    | None, XErr => true
    | _, _ => false
    end
  | WsU _ scheme host join peer role maxr u => seqb (ws_url scheme host join peer role maxr) u
  | WsV _ u j p r m =>
    let '(j', p', r', m') := server_view u in seqb j j' && seqb p p' && seqb r r' && seqb m m'
  | Inj _ raw user pass r => agree seqb (inject raw user pass) r
  | Par _ raw r => agree endpoint_eqb (parse_turn raw) r
  | Scn _ f scheme host ops obs => run f scheme host s0 ops obs
  end.

Definition mismatches (cs : list case) : list Z :=
  map case_id (filter (fun c => negb (check c)) cs).

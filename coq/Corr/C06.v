(* Correspondence for C06: the real LoadSidecar / Sidecar.Flush /
   LoadOrCreateSidecarWithFallback and whole resumed transfers between the real
   sender and the real receiver vs Model/Sidecar.v and Model/Resume.v. *)
From Coq Require Import ZArith List Bool.
Import ListNotations.
From TF Require Import Lib.GoInt Lib.Bytes Model.CRC Model.Sidecar Model.Resume.
Open Scope Z_scope.

(* observable fields of a sidecar: chunk size, file size, chunk count, id, bitmap *)
Inductive scv := SC (cs size total : Z) (id bm : list Z).

Definition sc_eqb (s : sidecar) (v : scv) : bool :=
  match v with
  | SC cs size total id bm =>
    (sc_chunk s =? cs) && (sc_size s =? size) && (sc_total s =? total) &&
    bytes_eqb (sc_id s) id && bytes_eqb (sc_bitmap s) bm
  end.

Definition of_scv (v : scv) : sidecar :=
  match v with SC cs size total id bm => mkSc cs size total id bm end.

Definition optz_eqb (a b : option Z) : bool :=
  match a, b with
  | Some x, Some y => x =? y
  | None, None => true
  | _, _ => false
  end.

Definition optb_eqb (a b : option (list Z)) : bool :=
  match a, b with
  | Some x, Some y => bytes_eqb x y
  | None, None => true
  | _, _ => false
  end.

Inductive case :=
(* LoadSidecar on a file with these bytes: the loaded fields, or an error *)
| L (id : Z) (bytes : list Z) (exp : option scv)
(* the bytes Flush wrote for a sidecar with these fields *)
| F (id : Z) (v : scv) (bytes : list Z)
(* LoadOrCreateSidecarWithFallback: files at both paths, request; result fields
   and the files found at both paths afterwards; None = error *)
| LC (id : Z) (primary fallback : option (list Z)) (fid : list Z) (size cs : Z)
     (exp : option (scv * option (list Z) * option (list Z)))
(* one file fetched again by the real endpoints (every frame delivered before
   finalisation): request, disk state before, source bytes, verify tail, verify
   "none"; observed: main-pass chunks sent (ascending), re-sent chunk, final
   data file, receiver's skipped count, receiver's LastVerifiedChunk *)
| X (id : Z) (fid : list Z) (size cs alg : Z) (file primary fallback : option (list Z))
    (src : list Z) (tail : Z) (vnone : bool)
    (sent : list Z) (resent : option Z) (final : list Z) (skipped : Z)
    (written : list Z).   (* chunk indices the receiver wrote, in the order it wrote them *)

Definition case_id (c : case) : Z :=
  match c with
  | L id _ _ => id | F id _ _ => id | LC id _ _ _ _ _ _ => id
  | X id _ _ _ _ _ _ _ _ _ _ _ _ _ _ _ => id
  end.

Definition check (c : case) : bool :=
  match c with
  | L _ bytes exp =>
    match load bytes, exp with
    | Some s, Some v => sc_eqb s v
    | None, None => true
    | _, _ => false
    end
  | F _ v bytes => bytes_eqb (serialise (of_scv v)) bytes
  | LC _ p f fid size cs exp =>
    match load_or_create p f fid size cs, exp with
    | Ret lr, Some (v, pa, fa) =>
      sc_eqb (lr_sc lr) v &&
      optb_eqb (if lr_loaded lr then (if lr_removed_primary lr then None else p)
                else Some (serialise (lr_sc lr))) pa &&
      optb_eqb (if lr_removed_fallback lr then None else f) fa
    | Err, None => true
    | _, _ => false
    end
  | X _ fid size cs alg file p f src tail vnone sent resent final skipped written =>
    (* what the sender sends and what the receiver skips are the model's; the final
       file is the positional-write model applied to the frames the receiver actually
       WROTE (a forced-tail frame that arrives after the last missing chunk finalised
       the file is dropped - [o_file] is the file when none is), every written frame is
       one the model sends, and when none was dropped the file is [o_file] *)
    match recv_begin crc32c (mkRq fid size cs alg) (mkDisk file p f),
          resume_outcome crc32c (mkRq fid size cs alg) (mkDisk file p f) src tail vnone with
    | Ret br, Ret o =>
      let all := o_sent o ++ match o_resent o with Some c => [c] | None => [] end in
      bytes_eqb (o_sent o) sent && optz_eqb (o_resent o) resent &&
      (o_total o - o_remaining o =? skipped) &&
      forallb (fun i => existsb (Z.eqb i) all) written &&
      bytes_eqb (put_chunks cs src written (br_file br)) final &&
      (if forallb (fun i => existsb (Z.eqb i) written) all then bytes_eqb (o_file o) final else true)
    | _, _ => false
    end
  end.

Definition mismatches (cs : list case) : list Z :=
  map case_id (filter (fun c => negb (check c)) cs).

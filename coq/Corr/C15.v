(* Correspondence for C15: the real decoders and endpoints, fed arbitrary bytes,
   vs Model/WireDec.v and Model/Endpoint.v.  Only projected observables are
   compared: result class, bytes left, allocation class (bucketed heap growth),
   how the endpoint ended (nil / error / panic / still waiting). *)
From Coq Require Import ZArith List Bool.
From TF Require Import Lib.GoInt Lib.Bytes Gen.Consts Gen.C15 Model.Path Model.Wire Model.WireDec Model.Endpoint.
Import ListNotations.
Open Scope Z_scope.

(* CRC32C (Castagnoli, reflected 0x82F63B78), bitwise *)
Fixpoint crc_bits (n : nat) (c : Z) : Z :=
  match n with
  | O => c
  | S k => crc_bits k (if Z.odd c then Z.lxor (Z.shiftr c 1) 2197175160 else Z.shiftr c 1)
  end.
Definition crc_byte (c b : Z) : Z := crc_bits 8 (Z.lxor c b).
Definition crc32c (l : list Z) : Z := Z.lxor (fold_left crc_byte l 4294967295) 4294967295.

(* decoder result class: 0 ok (with bytes left), 1 short, 2 bad *)
Inductive dcls := KOk (restlen : Z) | KShort | KBad.

Definition cls_of {A} (r : dres A) : dcls :=
  match r with DOk _ rest => KOk (len rest) | DShort => KShort | DBad => KBad end.

Definition dcls_eqb (a b : dcls) : bool :=
  match a, b with
  | KOk x, KOk y => x =? y
  | KShort, KShort => true
  | KBad, KBad => true
  | _, _ => false
  end.

(* measured heap growth of the real call, bucketed by the harness:
   Some true  = more than 16*n + 2 MiB,  Some false = at most 16*n + 256 KiB,
   None = in between (not compared) *)
Definition alloc_ok (n : Z) (allocs : list Z) (measured : option bool) : bool :=
  match measured with
  | None => true
  | Some true => 1048576 <=? zsum allocs
  | Some false => zsum allocs <=? 16 * n + 524288
  end.

Inductive case :=
| DC (id : Z) (bytes : list Z) (exp : dcls) (big : option bool)            (* readControlMessage *)
| DH (id : Z) (bytes : list Z) (exp : dcls) (big : option bool)            (* readControlHeader up to the JSON *)
| DL (id : Z) (kind : Z) (bytes : list Z) (exp : dcls) (big : option bool) (* legacy headers: 0 RecvFile, 1 RecvManifest, 2 dumb *)
| RC (id : Z) (resume : bool) (items : list mitem) (bytes : list Z) (out : Z)
| RD (id : Z) (resume : bool) (items : list mitem) (ctl data : list Z) (phase out : Z)
| AK (id : Z) (keys : list Z) (bytes : list Z) (out : Z).

Definition case_id (c : case) : Z :=
  match c with
  | DC id _ _ _ => id | DH id _ _ _ => id | DL id _ _ _ _ => id
  | RC id _ _ _ _ => id | RD id _ _ _ _ _ _ => id | AK id _ _ _ => id
  end.

(* state after a fully valid control prefix "DataStreams n, record, ..." *)
Definition prefix_state (resume : bool) (items : list mitem) (bytes : list Z) : option rstate :=
  match dec_all (length bytes) bytes with
  | Some (DataStreams _ :: ms) =>
    match run_pending resume items st0 ms with Ret st => Some st | _ => None end
  | _ => None
  end.

(* the sender: which file keys have been acknowledged ok by the first FileDone
   for them, or None if a first FileDone says failed *)
Fixpoint acked (seen ok : list Z) (ms : list ctl) : option (list Z) :=
  match ms with
  | [] => Some ok
  | FileDone sid o _ :: r =>
    if existsb (Z.eqb sid) seen then acked seen ok r
    else if o then acked (sid :: seen) (sid :: ok) r else None
  | _ :: r => acked seen ok r
  end.

Definition check (c : case) : bool :=
  match c with
  | DC _ bytes exp big =>
    let r := adec_ctl bytes in
    dcls_eqb (cls_of (snd r)) exp && alloc_ok (len bytes) (fst r) big
  | DH _ bytes exp big =>
    let r := adec_header bytes in
    dcls_eqb (cls_of (snd r)) exp && alloc_ok (len bytes) (fst r) big
  | DL _ kind bytes exp big =>
    if kind =? 0 then let r := adec_file_header bytes in dcls_eqb (cls_of (snd r)) exp && alloc_ok (len bytes) (fst r) big
    else if kind =? 1 then let r := adec_legacy_manifest_header bytes in dcls_eqb (cls_of (snd r)) exp && alloc_ok (len bytes) (fst r) big
    else let r := adec_dumb_header bytes in dcls_eqb (cls_of (snd r)) exp && alloc_ok (len bytes) (fst r) big
  | RC _ resume items bytes out =>
    match fst (recv_ctl_run resume items bytes) with
    | ROk => out =? 0
    | RErr => out =? 1
    | REofDone => (out =? 0) || (out =? 1)
    | RPanic => out =? 2
    | RHangEnd => out =? 3
    | RFuel => false
    end
  | RD _ resume items ctl data phase out =>
    match prefix_state resume items ctl with
    | None => false
    | Some st =>
      match data_run crc32c st data with
      | (DFail, _, _) => (phase =? 0) && (out =? 1)
      | (DPanicked, _, _) => out =? 2
      | (DQuiet, st', _) | (DWaitsFile, st', _) =>
        (phase =? 1) && (if Z.of_nat (length items) <=? completed st' then (out =? 0) || (out =? 1) else out =? 1)
      | (DFuel, _, _) => false
      end
    end
  | AK _ keys bytes out =>
    match ack_run (S (length bytes)) bytes with
    | (AErr, ms) =>
      match acked [] [] ms with
      | Some ok => if forallb (fun k => existsb (Z.eqb k) ok) keys then (out =? 0) || (out =? 1) else out =? 1
      | None => out =? 1
      end
    | (AFuel, _) => false
    end
  end.

Definition mismatches (cs : list case) : list Z :=
  map case_id (filter (fun c => negb (check c)) cs).

(* Correspondence for C18 (and the decoders of C15): the real write*/read*
   functions vs Model/Wire.v on the same values and bytes. *)
From Coq Require Import ZArith List Bool.
From TF Require Import Lib.GoInt Lib.Bytes Model.Path Model.Wire.
Import ListNotations.
Open Scope Z_scope.

Inductive dexp := XOk (m : ctl) (restlen : Z) | XShort | XBad.

Inductive case :=
| E (id : Z) (m : ctl) (got : res (list Z))
| D (id : Z) (bytes : list Z) (exp : dexp)
| S (id : Z) (bytes : list Z) (ms : list ctl)
| EH (id : Z) (json bytes : list Z)
| V (id : Z) (path : list Z) (ok : bool).

Definition pair_eqb (a b : Z * Z) : bool := (fst a =? fst b) && (snd a =? snd b).
Fixpoint plist_eqb (a b : list (Z * Z)) : bool :=
  match a, b with
  | [], [] => true
  | x :: a', y :: b' => pair_eqb x y && plist_eqb a' b'
  | _, _ => false
  end.

Definition ctl_eqb (a b : ctl) : bool :=
  match a, b with
  | FileBegin p s c i h a1 a2 a3 a4, FileBegin p' s' c' i' h' b1 b2 b3 b4 =>
    list_eqb p p' && (s =? s') && (c =? c') && (i =? i') && (h =? h') && (a1 =? b1) && (a2 =? b2) && (a3 =? b3) && (a4 =? b4)
  | Credit s c, Credit s' c' => (s =? s') && (c =? c')
  | CreditBatch e, CreditBatch e' => plist_eqb e e'
  | FileEnd s c, FileEnd s' c' => (s =? s') && (c =? c')
  | FileDone s o e, FileDone s' o' e' => (s =? s') && Bool.eqb o o' && list_eqb e e'
  | FileResumeInfo f s t b l h, FileResumeInfo f' s' t' b' l' h' =>
    list_eqb f f' && (s =? s') && (t =? t') && list_eqb b b' && (l =? l') && (h =? h')
  | ResumeRequest f s, ResumeRequest f' s' => list_eqb f f' && (s =? s')
  | DataStreams n, DataStreams n' => n =? n'
  | EndRec, EndRec => true
  | _, _ => false
  end.

Fixpoint ctls_eqb (a b : list ctl) : bool :=
  match a, b with
  | [], [] => true
  | x :: a', y :: b' => ctl_eqb x y && ctls_eqb a' b'
  | _, _ => false
  end.

Definition case_id (c : case) : Z :=
  match c with E id _ _ => id | D id _ _ => id | S id _ _ => id | EH id _ _ => id | V id _ _ => id end.

Definition check (c : case) : bool :=
  match c with
  | E _ m got =>
    match enc_ctl m, got with
    | Ret a, Ret b => list_eqb a b
    | Err, Err => true
    | _, _ => false
    end
  | D _ bytes exp =>
    match dec_ctl bytes, exp with
    | DOk m rest, XOk m' n => ctl_eqb m m' && (len rest =? n)
    | DShort, XShort => true
    | DBad, XBad => true
    | _, _ => false
    end
  | S _ bytes ms =>
    match dec_all (length bytes) bytes with
    | Some ms' => ctls_eqb ms' ms
    | None => false
    end
  | EH _ json bytes =>
    list_eqb (enc_header json) bytes &&
    match dec_header (bytes ++ [1; 2; 3]) with
    | DOk j rest => list_eqb j json && list_eqb rest [1; 2; 3]
    | _ => false
    end
  | V _ p ok => Bool.eqb (validate_rel_path p) ok
  end.

Definition mismatches (cs : list case) : list Z :=
  map case_id (filter (fun c => negb (check c)) cs).

(* Correspondence for C13: the real manifest.ScanPaths / Scan / TopLevelNames /
   computeID and app.buildPathResolver, run on trees materialised on disk, vs
   Model/Scan.v on the description of the same trees.  Compared: every item
   (path, size, mtime, is-dir, id) in order, the three counters, whether an
   error was returned; the resolver's answer per queried path. *)
From Coq Require Import ZArith List Bool.
From TF Require Import Lib.GoInt Model.Scan.
Import ListNotations.
Open Scope Z_scope.

(* one manifest item as the implementation returned it *)
Inductive oitem := OI (r : bytes) (sz mt : Z) (d : bool) (id : bytes).
(* a returned manifest: items, TotalBytes, FileCount, FolderCount, err == nil *)
Inductive obs := Obs (items : list oitem) (total files folders : Z) (ok : bool).

Inductive case :=
| SP (id : Z) (es : list entry) (o : option obs)          (* ScanPaths; None = "no paths provided" *)
| SC (id : Z) (name : bytes) (st : option node) (o : option obs)   (* Scan; None = error *)
| RS (id : Z) (es : list entry) (qs : option (list (bytes * bytes)))  (* resolver; None = construction failed *)
| NM (id : Z) (abss : list (list bytes)) (names : list bytes)   (* TopLevelNames *)
| CI (id : Z) (r : bytes) (sz mt : Z) (d : bool) (idb : bytes). (* computeID *)

Definition case_id (c : case) : Z :=
  match c with SP id _ _ => id | SC id _ _ _ => id | RS id _ _ => id | NM id _ _ => id | CI id _ _ _ _ _ => id end.

Definition oitem_eqb (it : item) (idb : bytes) (o : oitem) : bool :=
  match o with
  | OI r sz mt d i => beq (rel it) r && (size it =? sz) && (mtime it =? mt) && Bool.eqb (isdir it) d && beq idb i
  end.

Fixpoint oitems_eqb (its : list item) (ids : list bytes) (os : list oitem) : bool :=
  match its, ids, os with
  | [], [], [] => true
  | it :: its', i :: ids', o :: os' => oitem_eqb it i o && oitems_eqb its' ids' os'
  | _, _, _ => false
  end.

Definition mani_eqb (m : manifest) (ok : bool) (o : obs) : bool :=
  match o with
  | Obs items total files folders ok' =>
    oitems_eqb (m_items m) (m_ids m) items && (m_total m =? total) &&
    (Z.of_nat (m_files m) =? files) && (Z.of_nat (m_folders m) =? folders) && Bool.eqb ok ok'
  end.

Fixpoint names_eqb (a b : list bytes) : bool :=
  match a, b with
  | [], [] => true
  | x :: a', y :: b' => beq x y && names_eqb a' b'
  | _, _ => false
  end.

Definition check (c : case) : bool :=
  match c with
  | SP _ es o =>
    match scan_paths es, o with
    | Ret (m, ok), Some ob => mani_eqb m ok ob
    | Err, None => true
    | _, _ => false
    end
  | SC _ name st o =>
    match scan_root name st, o with
    | Ret m, Some ob => mani_eqb m true ob
    | Err, None => true
    | _, _ => false
    end
  | RS _ es qs =>
    match build_resolver es, qs with
    | Ret ts, Some l => forallb (fun q => beq (resolve_rel ts (fst q)) (snd q)) l
    | Err, None => true
    | _, _ => false
    end
  | NM _ abss names =>
    match top_names (map base_of abss) with
    | Some ks => names_eqb ks names
    | None => false
    end
  | CI _ r sz mt d idb => beq (compute_id (mkItem r sz mt d)) idb
  end.

Definition mismatches (cs : list case) : list Z :=
  map case_id (filter (fun c => negb (check c)) cs).

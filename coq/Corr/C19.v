(* Correspondence for C19: the harness ran the real Go functions; each case
   carries the input and the observed output; `mismatches` returns the ids of
   the cases on which the GENERATED Gallina function computes something else
   (which would mean the translator, not the code, is wrong - or the reverse). *)
From TF Require Import Lib.GoInt Gen.Geometry.
Open Scope Z_scope.

Inductive case :=
| CT (id size cs got : Z)
| CL (id size cs idx got : Z)
| SC (id size cs : Z) (got : res Z).

Definition res_eqb (a b : res Z) : bool :=
  match a, b with
  | Ret x, Ret y => x =? y
  | Err, Err => true
  | Panic, Panic => true
  | _, _ => false
  end.

Definition case_id (c : case) : Z :=
  match c with CT id _ _ _ => id | CL id _ _ _ _ => id | SC id _ _ _ => id end.

Definition check (c : case) : bool :=
  match c with
  | CT _ size cs got => res_eqb (chunkTotal size cs) (Ret got)
  | CL _ size cs idx got => res_eqb (chunkSizeForIndex size cs idx) (Ret got)
  | SC _ size cs got => res_eqb (sidecarTotalChunks size cs) got
  end.

Definition mismatches (cs : list case) : list Z :=
  map case_id (filter (fun c => negb (check c)) cs).

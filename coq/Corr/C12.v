(* Correspondence for C12: histories driven on a real SnapshotSender (stub
   transfer function) vs Model/Admit.v, compared after every event. *)
From Coq Require Import ZArith List Bool Arith.
Import ListNotations.
From TF Require Import Model.Admit.
Open Scope Z_scope.

Definition obs := (list nat * list (Z * bool) * list (nat * bool) * list bool)%type.

Inductive case := Hst (id : Z) (maxr ttl : Z) (npeers : nat) (evs : list ev) (o : list obs).

Fixpoint leqb {A} (f : A -> A -> bool) (a b : list A) : bool :=
  match a, b with
  | [], [] => true
  | x :: a', y :: b' => f x y && leqb f a' b'
  | _, _ => false
  end.

Definition obs_eqb (a b : obs) : bool :=
  let '(q, p, t, d) := a in let '(q', p', t', d') := b in
  leqb Nat.eqb q q' &&
  leqb (fun x y => (fst x =? fst y) && Bool.eqb (snd x) (snd y)) p p' &&
  leqb (fun x y => Nat.eqb (fst x) (fst y) && Bool.eqb (snd x) (snd y)) t t' &&
  leqb Bool.eqb d d'.

Fixpoint check_run (np : nat) (s : st) (evs : list ev) (os : list obs) : bool :=
  match evs, os with
  | [], [] => true
  | e :: er, o :: or => let s' := step s e in obs_eqb (observe np s') o && check_run np s' er or
  | _, _ => false
  end.

Definition case_id (c : case) : Z := match c with Hst id _ _ _ _ _ => id end.
Definition check (c : case) : bool :=
  match c with Hst _ m t np evs os => check_run np (init m t) evs os end.
Definition mismatches (cs : list case) : list Z :=
  map case_id (filter (fun c => negb (check c)) cs).

(* Correspondence for the receiver model (C02, C01, C03): the real
   RecvManifestMultiStream is driven by a scripted peer with its goroutines parked
   at verifhook points; the resulting event list (arms of the main select as
   OBSERVED, reader steps, arrivals) is replayed on Model/Recv.v and the projected
   observables are compared: how the function returned, the completed counter,
   the finalizations, the positional writes, the acknowledgements. *)
From Coq Require Import ZArith List Bool Arith.
Import ListNotations.
From TF Require Import Lib.GoInt Model.Recv Model.Send.
Open Scope Z_scope.

(* result: 0 = still running, 1 = returned nil, 2 = returned an error, 3 = panicked *)
Definition res_code (s : st) : Z :=
  match result s with None => 0 | Some Success => 1 | Some Fail => 2 | Some Panicked => 3 end.

Record obs := {
  o_res : Z; o_completed : Z;
  o_fins : list (nat * bool);          (* manifest position, ok *)
  o_writes : list (Z * Z);             (* key, index *)
  o_acks : list (Z * Z) }.             (* (key, 0|1) FileDone ; (key, 2) FileResumeInfo *)

Definition ack_code (a : ack) : Z * Z :=
  match a with AckDone k ok => (k, if ok then 1 else 0) | AckResume k _ => (k, 2) end.

Definition observe (s : st) : obs :=
  {| o_res := res_code s; o_completed := completed s;
     o_fins := map (fun r => (fr_fi r, fr_ok r)) (fins s);
     o_writes := map (fun w => match w with (k, i, _, _) => (k, i) end) (writes s);
     o_acks := map ack_code (acks s) |}.

Fixpoint leqb {A} (f : A -> A -> bool) (a b : list A) : bool :=
  match a, b with
  | [], [] => true
  | x :: a', y :: b' => f x y && leqb f a' b'
  | _, _ => false
  end.

(* the acknowledgement writer runs on its own: what the peer has READ so far is a
   prefix of what was handed to the writer *)
Fixpoint prefixb {A} (f : A -> A -> bool) (a b : list A) : bool :=
  match a, b with
  | [], _ => true
  | x :: a', y :: b' => f x y && prefixb f a' b'
  | _, _ => false
  end.

Definition zz_eqb (x y : Z * Z) : bool := (fst x =? fst y) && (snd x =? snd y).

Definition obs_eqb (m o : obs) (acks_exact : bool) : bool :=
  (o_res m =? o_res o) && (o_completed m =? o_completed o) &&
  leqb (fun x y => Nat.eqb (fst x) (fst y) && Bool.eqb (snd x) (snd y)) (o_fins m) (o_fins o) &&
  leqb zz_eqb (o_writes m) (o_writes o) &&
  (if acks_exact then leqb zz_eqb (o_acks o) (o_acks m) else prefixb zz_eqb (o_acks o) (o_acks m)).

Fixpoint prior_of (l : list (nat * list Z)) (i : nat) : list Z :=
  match l with
  | [] => []
  | (j, b) :: r => if Nat.eqb i j then b else prior_of r i
  end.

Inductive case :=
| Run (id : Z) (m : list mfile) (res : bool) (pr : list (nat * list Z)) (evs : list ev)
      (acks_exact : bool) (o : obs)
| SendRun (id : Z) (files : list Z) (evs : list sev) (res : Z).   (* res: 0 running, 1 nil, 2 error *)

Definition sres_code (s : sst) : Z :=
  match s_result s with None => 0 | Some SSuccess => 1 | Some SFailed => 2 end.

Definition case_id (c : case) : Z := match c with Run id _ _ _ _ _ _ => id | SendRun id _ _ _ => id end.
Definition check (c : case) : bool :=
  match c with
  | Run _ m r pr evs ax o => obs_eqb (observe (run (init m r (prior_of pr)) evs)) o ax
  | SendRun _ files evs res => sres_code (srun (sinit files) evs) =? res
  end.
Definition mismatches (cs : list case) : list Z :=
  map case_id (filter (fun c => negb (check c)) cs).

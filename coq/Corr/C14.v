(* Correspondence for C14.
   StoreCase: a history of method calls on a real session.Store (scripted
     crypto/rand, real clock readings) vs Model/Session.v, observation by
     observation, plus the final content of both maps.
   ServCase: a schedule of handler steps driven on the real thruserv binary
     (sequential scripts, and bursts whose check/act windows were forced through
     the verifhook points) vs Model/Limits.v: the HTTP status class of every
     step, the created (id, code, has-expiry), and the final counters.
   BucketCase: allowances observed from a real rate limiter within a measured
     window against the bound of the exact token-bucket model (inequality only:
     the code computes in float64).
   MsgCase: whether a message of a given size was relayed.
   Ids and codes are renamed to small integers by first appearance; times are
   the harness's own clock readings (never compared, only fed to the model). *)
From Coq Require Import ZArith List Bool.
Import ListNotations.
From TF Require Import Model.Session Model.Limits.
Open Scope Z_scope.

Definition oz_eqb (a b : option Z) : bool :=
  match a, b with Some x, Some y => x =? y | None, None => true | _, _ => false end.

Definition sess_eqb (a b : session) : bool :=
  (s_id a =? s_id b) && (s_code a =? s_code b) && (s_created a =? s_created b) && oz_eqb (s_expires a) (s_expires b).

Definition obs_eqb (a b : obs) : bool :=
  match a, b with
  | ObsCreated x, ObsCreated y => sess_eqb x y
  | ObsGet (Some x), ObsGet (Some y) => sess_eqb x y
  | ObsGet None, ObsGet None => true
  | ObsUnit, ObsUnit => true
  | ObsCount n, ObsCount m => n =? m
  | _, _ => false
  end.

Fixpoint all2 {A B} (f : A -> B -> bool) (a : list A) (b : list B) : bool :=
  match a, b with
  | [], [] => true
  | x :: a', y :: b' => f x y && all2 f a' b'
  | _, _ => false
  end.

Fixpoint run_store (s : store) (ops : list op) : option (store * list obs) :=
  match ops with
  | [] => Some (s, [])
  | o :: r =>
    match apply_op s o with
    | None => None
    | Some (s1, ob) => match run_store s1 r with None => None | Some (s2, l) => Some (s2, ob :: l) end
    end
  end.

(* same finite map: same size and every model entry is in the observed dump *)
Definition same_sessions (m : list (Z * session)) (d : list session) : bool :=
  Nat.eqb (length m) (length d) &&
  forallb (fun kv => existsb (fun x => (fst kv =? s_id x) && sess_eqb (snd kv) x) d) m.
Definition same_codes (m : list (Z * Z)) (d : list (Z * Z)) : bool :=
  Nat.eqb (length m) (length d) &&
  forallb (fun kv => existsb (fun x => (fst kv =? fst x) && (snd kv =? snd x)) d) m.

(* what is compared of a handler step *)
Definition resp_proj (r : resp) : Z * Z * Z * bool :=
  match r with
  | RCreated ss => (201, s_id ss, s_code ss, match s_expires ss with Some _ => true | None => false end)
  | RTooMany => (429, 0, 0, false)
  | RNotFound => (404, 0, 0, false)
  | RCont => (0, 0, 0, false)
  | RUpgraded => (101, 0, 0, false)
  | RDone => (1, 0, 0, false)
  end.

Definition proj_eqb (a b : Z * Z * Z * bool) : bool :=
  let '(a1, a2, a3, a4) := a in let '(b1, b2, b3, b4) := b in
  (a1 =? b1) && (a2 =? b2) && (a3 =? b3) && Bool.eqb a4 b4.

(* a request served without interference from other requests: its steps back to back *)
Inductive sop :=
| SCreateSeq (h now id code : Z)                    (* POST /session *)
| SJoin (h code peer : Z) (r : role) (now : Z)      (* GET /ws up to the upgrade or the refusal *)
| SRaw (e : ev).                                    (* one handler step (forced schedules), a close, a timer *)

Definition then_step (c : cfg) (x : option (st * resp)) (e : ev) : option (st * resp) :=
  match x with
  | Some (s, RCont) => step c s e
  | other => other
  end.

Definition run_sop (c : cfg) (s : st) (o : sop) : option (st * resp) :=
  match o with
  | SCreateSeq h now id code => then_step c (step c s (SCheck h)) (SCreate h now id code [])
  | SJoin h code peer r now =>
    then_step c (then_step c (then_step c (step c s (WLookup h code peer r now)) (WAcquire h)) (WCheck h)) (WAdd h)
  | SRaw e => step c s e
  end.

Fixpoint run_sops (c : cfg) (s : st) (ops : list sop) : option (st * list resp) :=
  match ops with
  | [] => Some (s, [])
  | o :: r =>
    match run_sop c s o with
    | None => None
    | Some (s1, x) => match run_sops c s1 r with None => None | Some (s2, l) => Some (s2, x :: l) end
    end
  end.

Inductive case :=
| StoreCase (id : Z) (t : Z) (ops : list op) (o : list obs) (dump : list session) (codes : list (Z * Z))
| ServCase (id : Z) (c : cfg) (evs : list sop) (o : list (Z * Z * Z * bool))
           (nsess ninuse : Z)                       (* final store.Count(), wsConnLimiter.inUse; -1 = not observed *)
| BucketCase (id : Z) (rate_n rate_d b : Z) (window n_allowed : Z)
| MsgCase (id : Z) (max_bytes len : Z) (relayed : bool).

Definition case_id (c : case) : Z :=
  match c with
  | StoreCase id _ _ _ _ _ => id | ServCase id _ _ _ _ _ => id
  | BucketCase id _ _ _ _ _ => id | MsgCase id _ _ _ => id
  end.

Definition check (c : case) : bool :=
  match c with
  | StoreCase _ t ops o dump codes =>
    match run_store (new_store t) ops with
    | None => false
    | Some (s, l) => all2 obs_eqb l o && same_sessions (sessions s) dump && same_codes (by_code s) codes
    end
  | ServCase _ c evs o nsess ninuse =>
    match run_sops c (init c) evs with
    | None => false
    | Some (s, l) =>
      all2 proj_eqb (map resp_proj l) o &&
      ((nsess <? 0) || (count (stor s) =? nsess)) &&
      ((ninuse <? 0) || (inuse s =? ninuse))
    end
  | BucketCase _ rate_n rate_d b window n =>
    (* bound of Proofs/Limits.v bucket_window: rd * allowed <= burst * rd + rn * window *)
    let bk := new_bucket rate_n rate_d b 0 in
    (rate_n <=? 0) (* limiter off: nothing to bound *) || (rd bk * n <=? burst bk * rd bk + rn bk * window)
  | MsgCase _ m len relayed => Bool.eqb (msg_accepted m len) relayed
  end.

Definition mismatches (cs : list case) : list Z :=
  map case_id (filter (fun c => negb (check c)) cs).

(* Correspondence for C05/C04: hook traces of real receiver runs (chunk written /
   chunk marked, per file) must be accepted by Model/Crash.v's step, i.e. respect
   the write-before-mark program order the theorems rely on. *)
From Coq Require Import List Arith Bool ZArith.
Import ListNotations.
From TF Require Import Model.Crash.

Inductive case := TR (id : Z) (evs : list ev).

Definition case_id (c : case) : Z := match c with TR id _ => id end.

(* enough files and chunks for any trace of the harness *)
Definition big : list fstate := repeat (fresh 600) 12.

Definition check (c : case) : bool :=
  match c with TR _ evs => match run big evs with Some _ => true | None => false end end.

Definition mismatches (cs : list case) : list Z :=
  map case_id (filter (fun c => negb (check c)) cs).

(* Correspondence for C11/C10 (hub level): histories of hub phases executed on a
   real peers.Hub vs Model/Hub.v. *)
From Coq Require Import List Arith Bool ZArith.
Import ListNotations.
From TF Require Import Model.Hub.

Inductive case :=
| HH (id : Z) (cap : nat) (ops : list op) (outs : list out)
     (cs : list (nat * list nat * Z))          (* conn id, messages taken by its writer, channel length or -1 *)
     (sess : list (nat * list nat))            (* attached session maps: session, sorted conn ids *)
     (bp : list (nat * nat * nat))             (* byPeerID entries sorted by (session, peer) *)
     (npan : nat).

Fixpoint insert (x : nat) (l : list nat) : list nat :=
  match l with [] => [x] | y :: r => if x <=? y then x :: l else y :: insert x r end.
Definition sort (l : list nat) : list nat := fold_right insert [] l.

Fixpoint leqb {A} (f : A -> A -> bool) (a b : list A) : bool :=
  match a, b with
  | [], [] => true
  | x :: a', y :: b' => f x y && leqb f a' b'
  | _, _ => false
  end.

Definition out_eqb (a b : out) : bool :=
  match a, b with
  | OUnit, OUnit => true
  | OBool x, OBool y => Bool.eqb x y
  | OList x, OList y => leqb Nat.eqb (sort x) (sort y)
  | _, _ => false
  end.

Definition conn_ok (h : hub) (e : nat * list nat * Z) : bool :=
  let '(c, taken, n) := e in
  match find_conn c (conns h) with
  | None => false
  | Some x => leqb Nat.eqb (cdeliv x) taken && ((n <? 0)%Z || (Z.of_nat (length (cq x)) =? n)%Z)
  end.

Definition att_sessions (h : hub) : list (nat * list nat) :=
  map (fun m => (msid m, sort (members (mgen m) (conns h)))) (filter matt (maps h)).

Fixpoint insert_s (x : nat * list nat) (l : list (nat * list nat)) :=
  match l with [] => [x] | y :: r => if fst x <=? fst y then x :: l else y :: insert_s x r end.
Definition sort_s l := fold_right insert_s [] l.

Definition key3 (e : nat * nat * nat) : nat := let '(s, p, _) := e in s * 1000 + p.
Fixpoint insert_b (x : nat * nat * nat) (l : list (nat * nat * nat)) :=
  match l with [] => [x] | y :: r => if key3 x <=? key3 y then x :: l else y :: insert_b x r end.
Definition sort_b l := fold_right insert_b [] l.

Definition case_id (c : case) : Z := match c with HH id _ _ _ _ _ _ _ => id end.

Definition check (c : case) : bool :=
  match c with
  | HH _ cap ops outs cs sess bp npan =>
    let '(h, os) := run (init cap) ops in
    negb (bad h) &&
    leqb out_eqb os outs &&
    forallb (conn_ok h) cs &&
    leqb (fun a b => Nat.eqb (fst a) (fst b) && leqb Nat.eqb (snd a) (snd b)) (sort_s (att_sessions h)) sess &&
    leqb (fun a b => let '(s, p, c) := a in let '(s', p', c') := b in Nat.eqb s s' && Nat.eqb p p' && Nat.eqb c c')
         (sort_b (bypeer h)) bp &&
    Nat.eqb (npanic h) npan
  end.

Definition mismatches (cs : list case) : list Z :=
  map case_id (filter (fun c => negb (check c)) cs).

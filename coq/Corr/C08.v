(* Correspondence for C08: decisions and emitted messages of the REAL
   authenticateTransport (both honest ends, real loopback QUIC, real TLS
   exporter) vs the concrete layer of Model/Auth.v.  HMAC-SHA256 is a logged
   oracle: `t` lists the (key, data, mac) triples computed with Go's
   crypto/hmac by the harness (not by the application's functions). *)
From Coq Require Import ZArith List Bool.
From TF Require Import Model.Auth.
Import ListNotations.
Open Scope Z_scope.

Definition tbl := list (bytes * bytes * bytes).

Fixpoint lookup (t : tbl) (k d : bytes) : option bytes :=
  match t with
  | [] => None
  | (k', d', m) :: r => if bytes_eqb k k' && bytes_eqb d d' then Some m else lookup r k d
  end.

(* a query outside the log yields a value no real MAC equals ([-1] is not a byte string) *)
Definition hm_of (t : tbl) (k d : bytes) : bytes :=
  match lookup t k d with Some m => m | None => [-1] end.

Inductive case :=
| Ver (id : Z) (side : Z) (code ekm delivered : bytes) (t : tbl) (acc : bool)
| Emit (id : Z) (side : Z) (code ekm sent : bytes) (t : tbl)
| Run (id : Z) (codeS codeR ekmS ekmR nS nR : bytes) (f1 f2 : fault) (t : tbl) (accS accR : bool).

Definition case_id (c : case) : Z :=
  match c with Ver id _ _ _ _ _ _ => id | Emit id _ _ _ _ _ => id | Run id _ _ _ _ _ _ _ _ _ _ _ => id end.

Definition check (c : case) : bool :=
  match c with
  | Ver _ side code ekm delivered t acc =>
    Bool.eqb (verify (hm_of t) (derive_key (hm_of t) code ekm) side delivered) acc
  | Emit _ side code ekm sent t =>
    (* the honest side wrote exactly the model's message for the nonce it chose *)
    bytes_eqb sent (emit (hm_of t) code ekm side (firstn nonce_size (skipn 2 sent)))
    && Nat.eqb (length sent) msg_size
  | Run _ codeS codeR ekmS ekmR nS nR f1 f2 t accS accR =>
    let '(a, b) := run (hm_of t) codeS codeR ekmS ekmR nS nR f1 f2 in
    Bool.eqb a accS && Bool.eqb b accR
  end.

Definition mismatches (cs : list case) : list Z :=
  map case_id (filter (fun c => negb (check c)) cs).

(* Correspondence for C10: scripts of connects, frames and disconnects run
   against the real thruserv binary over WebSocket; every client's receive log is
   compared with Model/Serv.v. *)
From Coq Require Import List Arith Bool ZArith.
Import ListNotations.
From TF Require Import Model.Hub Model.Serv.

Inductive case := SC (id : Z) (ops : list sop)
                     (logs : list (nat * bool * list smsg)).  (* conn, still connected at the end?, what it read *)

Fixpoint leqb {A} (f : A -> A -> bool) (a b : list A) : bool :=
  match a, b with
  | [], [] => true
  | x :: a', y :: b' => f x y && leqb f a' b'
  | _, _ => false
  end.

Fixpoint prefixb {A} (f : A -> A -> bool) (a b : list A) : bool :=   (* a is a prefix of b *)
  match a, b with
  | [], _ => true
  | x :: a', y :: b' => f x y && prefixb f a' b'
  | _, _ => false
  end.

Fixpoint insert_p (x : nat * nat) (l : list (nat * nat)) :=
  match l with [] => [x] | y :: r => if (fst x <? fst y) || (Nat.eqb (fst x) (fst y) && (snd x <=? snd y)) then x :: l else y :: insert_p x r end.
Definition sort_p l := fold_right insert_p [] l.

Definition on_eqb (a b : option nat) : bool :=
  match a, b with Some x, Some y => Nat.eqb x y | None, None => true | _, _ => false end.

Definition smsg_eqb (a b : smsg) : bool :=
  match a, b with
  | MList p, MList q => leqb (fun x y => Nat.eqb (fst x) (fst y) && Nat.eqb (snd x) (snd y)) (sort_p p) (sort_p q)
  | MJoined p r, MJoined p' r' => Nat.eqb p p' && Nat.eqb r r'
  | MLeft p, MLeft p' => Nat.eqb p p'
  | MFwd f t s m, MFwd f' t' s' m' => Nat.eqb f f' && on_eqb t t' && Nat.eqb s s' && Nat.eqb m m'
  | MErr t, MErr t' => Nat.eqb t t'
  | _, _ => false
  end.

Definition log_ok (s : serv) (e : nat * bool * list smsg) : bool :=
  let '(c, alive, got) := e in
  let want := match lookup c (logs s) with Some l => l | None => [] end in
  if alive then leqb smsg_eqb got want else prefixb smsg_eqb got want.

Definition case_id (c : case) : Z := match c with SC id _ _ => id end.
Definition check (c : case) : bool :=
  match c with SC _ ops lg => let s := srun (sinit 256) ops in negb (bad (hubst s)) && forallb (log_ok s) lg end.
Definition mismatches (cs : list case) : list Z :=
  map case_id (filter (fun c => negb (check c)) cs).

(* Correspondence for C09: forced schedules of the real ice.Prober.ProbeAndDial
   against real loopback QUIC listeners (and the accepting side's first Accept)
   vs Model/Race.v.  A case carries the candidate list as given to ProbeAndDial
   (2*address + relay flag, duplicates kept), the event trace the harness forced /
   observed, and the projected observables at the end: which connection the caller
   got, the final class of every connection (0 never established, 1 established
   and still open at the listener, 2 established and closed), which connection the
   acceptor committed to.  The model must ACCEPT the trace (every guard of `step`
   holds), end quiescent, and produce the same observables. *)
From Coq Require Import ZArith List Bool Arith.
Import ListNotations.
From TF Require Import Model.Race.
Open Scope Z_scope.

Inductive case :=
  Race (id : Z) (turn_only : bool) (cands : list Z) (evs : list ev)
       (ret : option conn) (classes : list (conn * Z)) (primary : option conn).

Definition oconn_eqb (a b : option conn) : bool :=
  match a, b with
  | None, None => true
  | Some x, Some y => conn_eqb x y
  | _, _ => false
  end.

Definition case_id (c : case) : Z := match c with Race id _ _ _ _ _ _ => id end.

Definition check (c : case) : bool :=
  match c with
  | Race _ t cs evs ret cls pr =>
      match run true (init (plan t cs)) evs with
      | None => false
      | Some s =>
          quiescent s && oconn_eqb (returned s) ret && oconn_eqb (prim s) pr &&
          forallb (fun x => conn_class s (fst (fst x)) (snd (fst x)) =? snd x) cls &&
          (* the classes listed are exactly the planned candidates *)
          (length cls =? length (concat (plan t cs)))%nat &&
          forallb (fun x => memz (snd (fst x)) (nth (fst (fst x)) (plan t cs) [])) cls
      end
  end.

Definition mismatches (cs : list case) : list Z :=
  map case_id (filter (fun c => negb (check c)) cs).

(* Correspondence for C17: transitions and histories observed on a real
   sendFileState, re-evaluated on Model/Dispatch.v. *)
From Coq Require Import List Arith Bool ZArith.
Import ListNotations.
From TF Require Import Model.Dispatch.
From TF Require Model.Sched.

Inductive case :=
| T (id : Z) (pre : st) (e : ev) (post : st) (o : out)
| H (id : Z) (total : nat) (evs : list ev) (outs : list out)
(* a call sequence on a real HybridScheduler: every call with what it returned
   and the class counts Snapshot() reported right after it *)
| S (id : Z) (c : Sched.cfg) (trace : list (Sched.op * Sched.out * list Z)).

Definition opt_eqb {A} (f : A -> A -> bool) (a b : option A) : bool :=
  match a, b with Some x, Some y => f x y | None, None => true | _, _ => false end.
Fixpoint list_eqb {A} (f : A -> A -> bool) (a b : list A) : bool :=
  match a, b with
  | [], [] => true
  | x :: a', y :: b' => f x y && list_eqb f a' b'
  | _, _ => false
  end.
Definition plan_eqb (a b : option (list bool * nat)) : bool :=
  opt_eqb (fun p q => list_eqb Bool.eqb (fst p) (fst q) && (snd p =? snd q)) a b.
Definition st_eqb (a b : st) : bool :=
  (total a =? total b) && (nextChunk a =? nextChunk b) && (inFlight a =? inFlight b) &&
  Bool.eqb (scheduleDone a) (scheduleDone b) && Bool.eqb (endSent a) (endSent b) &&
  Bool.eqb (verifyPending a) (verifyPending b) && Bool.eqb (resendPending a) (resendPending b) &&
  (resendChunk a =? resendChunk b) && plan_eqb (plan a) (plan b).
Definition out_eqb (a b : out) : bool :=
  match a, b with
  | OTake s r, OTake s' r' => list_eqb Nat.eqb s s' && opt_eqb Nat.eqb r r'
  | OEnd x, OEnd y => Bool.eqb x y
  | OUnit, OUnit => true
  | _, _ => false
  end.

Definition case_id (c : case) : Z := match c with T id _ _ _ _ => id | H id _ _ _ => id | S id _ _ => id end.

(* The float credits are not modelled: when Next falls through to the weighted
   pick, the model is told which file the implementation returned and checks
   that it is one of the pending medium/large files (position in the sorted
   pending list = the oracle index); every other call is deterministic. *)
Fixpoint index_of (k : Z) (l : list Z) : nat :=
  match l with [] => 0%nat | x :: r => if Z.eqb x k then 0%nat else Datatypes.S (index_of k r) end.

Definition sched_guided (s : Sched.st) (o : Sched.op) (obs : Sched.out) : Sched.st * bool :=
  match o, obs with
  | Sched.Next now _, Sched.ONext (Some k) =>
      let i := index_of k (map fst (Sched.pending_weighted (Sched.conf s) now (Sched.files s))) in
      let '(s', r) := Sched.next s now i in
      (s', opt_eqb Z.eqb r (Some k))
  | Sched.Next now _, Sched.ONext None =>
      let '(s', r) := Sched.next s now 0%nat in
      (s', match r with None => true | Some _ => false end)
  | Sched.Next _ _, Sched.OUnit => (s, false)
  | _, Sched.OUnit => (fst (Sched.step s o), true)
  | _, _ => (s, false)
  end.

Fixpoint sched_replay (s : Sched.st) (tr : list (Sched.op * Sched.out * list Z)) : bool :=
  match tr with
  | [] => true
  | (o, obs, snap) :: r =>
      let '(s', ok) := sched_guided s o obs in
      ok && list_eqb Z.eqb (Sched.snapshot s') snap && sched_replay s' r
  end.

Definition check (c : case) : bool :=
  match c with
  | T _ pre e post o => let '(s', o') := step pre e in st_eqb s' post && out_eqb o' o
  | H _ n evs outs => list_eqb out_eqb (snd (run (init n) evs)) outs
  | S _ c tr => sched_replay (Sched.init c) tr
  end.

Definition mismatches (cs : list case) : list Z :=
  map case_id (filter (fun c => negb (check c)) cs).

(* Correspondence for C17: transitions and histories observed on a real
   sendFileState, re-evaluated on Model/Dispatch.v. *)
From Coq Require Import List Arith Bool ZArith.
Import ListNotations.
From TF Require Import Model.Dispatch.

Inductive case :=
| T (id : Z) (pre : st) (e : ev) (post : st) (o : out)
| H (id : Z) (total : nat) (evs : list ev) (outs : list out).

Definition opt_eqb {A} (f : A -> A -> bool) (a b : option A) : bool :=
  match a, b with Some x, Some y => f x y | None, None => true | _, _ => false end.
Fixpoint list_eqb {A} (f : A -> A -> bool) (a b : list A) : bool :=
  match a, b with
  | [], [] => true
  | x :: a', y :: b' => f x y && list_eqb f a' b'
  | _, _ => false
  end.
Definition plan_eqb (a b : option (list bool * nat)) : bool :=
  opt_eqb (fun p q => list_eqb Bool.eqb (fst p) (fst q) && (snd p =? snd q)) a b.
Definition st_eqb (a b : st) : bool :=
  (total a =? total b) && (nextChunk a =? nextChunk b) && (inFlight a =? inFlight b) &&
  Bool.eqb (scheduleDone a) (scheduleDone b) && Bool.eqb (endSent a) (endSent b) &&
  Bool.eqb (verifyPending a) (verifyPending b) && Bool.eqb (resendPending a) (resendPending b) &&
  (resendChunk a =? resendChunk b) && plan_eqb (plan a) (plan b).
Definition out_eqb (a b : out) : bool :=
  match a, b with
  | OTake s r, OTake s' r' => list_eqb Nat.eqb s s' && opt_eqb Nat.eqb r r'
  | OEnd x, OEnd y => Bool.eqb x y
  | OUnit, OUnit => true
  | _, _ => false
  end.

Definition case_id (c : case) : Z := match c with T id _ _ _ _ => id | H id _ _ _ => id end.

Definition check (c : case) : bool :=
  match c with
  | T _ pre e post o => let '(s', o') := step pre e in st_eqb s' post && out_eqb o' o
  | H _ n evs outs => list_eqb out_eqb (snd (run (init n) evs)) outs
  end.

Definition mismatches (cs : list case) : list Z :=
  map case_id (filter (fun c => negb (check c)) cs).

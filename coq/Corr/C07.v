(* Correspondence for C07: Model/Path.v + Model/PathFs.v vs the real code.
   P* cases: path/filepath functions, validateRelPath, SidecarPath,
   sidecarIdentifier, validateManifestPaths, resumeSidecarDirs on generated strings.
   RX: one run of the real RecvManifestMultiStream against a scripted sender inside a
   sandbox; AX: one run of the real clearResumeData.  Compared: acceptance of the
   manifest, the set of filesystem entries that changed (each must be explained by a
   call in [touched]) and the entries that must exist afterwards. *)
From Coq Require Import ZArith List Bool.
From TF Require Import Lib.GoInt Gen.Consts Model.Path Model.PathFs.
Import ListNotations.
Open Scope Z_scope.

Inductive case :=
| PClean (id : Z) (p cleaned : list Z) (abs : bool)
| PJoin (id : Z) (elems : list (list Z)) (res : list Z)
| PDir (id : Z) (p res : list Z)
| PTrim (id : Z) (p res : list Z)
| PVal (id : Z) (p : list Z) (ok : bool)
| PSide (id : Z) (outDir root fileID res : list Z)
| PIdent (id : Z) (rel iid res : list Z)
| PManifest (id : Z) (root : list Z) (items : list item) (ok : bool)
| PResumeDirs (id : Z) (out root : list Z) (dirs : list (list Z))
| RX (id : Z) (inp : recv_input) (accepted setup_done : bool) (handled : Z)
     (changes : list (list Z)) (after : list (list Z * Z * Z))
| AX (id : Z) (out root : list Z) (changes : list (list Z)) (after : list (list Z * Z * Z)).

Definition case_id (c : case) : Z :=
  match c with
  | PClean id _ _ _ | PJoin id _ _ | PDir id _ _ | PTrim id _ _ | PVal id _ _ | PSide id _ _ _ _
  | PIdent id _ _ _ | PManifest id _ _ _ | PResumeDirs id _ _ _ | RX id _ _ _ _ _ _ | AX id _ _ _ _ => id
  end.

Definition same_path (a b : list Z) : bool :=
  let ca := clean a in let cb := clean b in
  Bool.eqb (rooted ca) (rooted cb) && segs_eqb (rsegs ca) (rsegs cb).

(* P is p or an ancestor of p *)
Definition ancestor_or_self (P p : list Z) : bool :=
  let cP := clean P in let cp := clean p in
  Bool.eqb (rooted cP) (rooted cp) && is_suffix (rsegs cP) (rsegs cp).

(* does the call [o p] account for a change of entry P *)
Definition explains (o : op) (p P : list Z) : bool :=
  match o with
  | OMkdirAll => ancestor_or_self P p
  | ORemoveAll => ancestor_or_self p P
  | _ => same_path p P
  end.

Definition explained (ops : list (op * list Z)) (P : list Z) : bool :=
  existsb (fun x => explains (fst x) (snd x) P) ops.

(* kind: 0 = directory, 1 = regular file *)
Definition has_entry (after : list (list Z * Z * Z)) (p : list Z) (kind : Z) (size : option Z) : bool :=
  existsb (fun e => match e with (q, k, sz) =>
    beqb q p && (k =? kind) && match size with Some s => sz =? s | None => true end end) after.

Definition begin_exists (i : recv_input) (after : list (list Z * Z * Z)) (b : begin) : bool :=
  match begin_item i b with
  | None => false
  | Some it =>
    let fp := join [base_dir i; b_rel b] in
    has_entry after fp 1 (Some (b_size b)) && has_entry after (dir fp) 0 None &&
    (if uses_sidecar i b it then
       existsb (fun d => has_entry after (sidecar_path d [] (sidecar_identifier it)) 1 None) (sidecar_homes i)
     else true)
  end.

Definition set_eq (a b : list (list Z)) : bool :=
  forallb (fun x => existsb (beqb x) b) a && forallb (fun x => existsb (beqb x) a) b.

Definition check (c : case) : bool :=
  match c with
  | PClean _ p cleaned abs => beqb (clean_bytes p) cleaned && Bool.eqb (is_abs p) abs
  | PJoin _ elems res => beqb (join elems) res
  | PDir _ p res => beqb (dir p) res
  | PTrim _ p res => beqb (trim_slash p) res
  | PVal _ p ok => Bool.eqb (validate_rel_path p) ok
  | PSide _ o r f res => beqb (sidecar_path o r f) res
  | PIdent _ rel iid res => beqb (sidecar_identifier (Item rel iid false 0)) res
  | PManifest _ root items ok => Bool.eqb (manifest_ok root items) ok
  | PResumeDirs _ out root dirs => set_eq (resume_dirs true out root) dirs
  | RX _ i accepted setup_done handled changes after =>
    let ops := touched i in
    Bool.eqb (manifest_ok (r_root i) (r_items i)) accepted &&
    forallb (explained ops) changes &&
    (if accepted && setup_done then
       has_entry after (base_dir i) 0 None &&
       forallb (fun it => has_entry after (join [base_dir i; it_rel it]) 0 None) (filter it_dir (r_items i)) &&
       (Z.of_nat (length (r_begins i)) >=? handled) &&
       forallb (begin_exists i after) (firstn (Z.to_nat handled) (r_begins i))
     else true) &&
    (if accepted then true else (handled =? 0))
  | AX _ out root changes after =>
    let i := RI out true false [] [] [] root true in
    forallb (explained (touched i)) changes &&
    forallb (fun d => negb (existsb (fun e => beqb (fst (fst e)) d) after)) (resume_dirs true out root)
  end.

Definition mismatches (cs : list case) : list Z :=
  map case_id (filter (fun c => negb (check c)) cs).
